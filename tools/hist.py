"""History checkers for scheddrv output: per-key linearizability (Wing-Gong search) of point
operations, scan/cursor results folded in as reads of each key of the interval, node-set
re-validation (C06), progress (C09), structure (C08)."""
import sys


def unhex(s):
    return b"" if s == "-" else bytes.fromhex(s)


def in_interval(k, lk, le, rk, re_):
    if le == "I" and k < lk:
        return False
    if le == "E" and k <= lk:
        return False
    if re_ == "I" and k > rk:
        return False
    if re_ == "E" and k >= rk:
        return False
    return True


class Run:
    def __init__(self, header):
        self.header = header
        self.h = []        # dicts: tid idx inv ret op(list) result(str)
        self.nv = {}       # (tid, idx) -> (n, stale)
        self.final = None  # dict key->value
        self.walkerr = []
        self.sched = []
        self.ledger = ""
        self.stuck = "STUCK" in header
        self.trace = []
        self.vfinal = None  # (initial word, final word) of the raw version object


def parse(text):
    runs = []
    cur = None
    for l in text.splitlines():
        if l.startswith("RUN "):
            cur = Run(l)
            runs.append(cur)
        elif cur is None:
            continue
        elif l.startswith("H "):
            left, sep, res = l.partition(" => ")
            w = left.split()
            if not sep or not res.strip() or len(w) < 6:
                continue        # a line cut short by a crash of the process; the crash itself is reported
            cur.h.append({"tid": int(w[1]), "idx": int(w[2]), "inv": int(w[3]), "ret": int(w[4]), "op": w[5:], "res": res})
        elif l.startswith("NV "):
            w = l.split()
            cur.nv[(int(w[1]), int(w[2]))] = (int(w[3]), int(w[5]))
        elif l.startswith("FINAL "):
            w = l.split()
            cur.final = {}
            for kv in w[2:]:
                k, _, v = kv.partition("=")
                cur.final[unhex(k)] = v
        elif l.startswith("WALKERR"):
            cur.walkerr.append(l)
        elif l.startswith("SCHED"):
            cur.sched = [int(x) for x in l.split()[1:]]
        elif l.startswith("LEDGER"):
            cur.ledger = l
        elif l.startswith("T "):
            cur.trace.append(l)
        elif l.startswith("VFINAL "):
            w = l.split()
            cur.vfinal = (int(w[1], 16), int(w[2], 16))
    return runs


# ---------------------------------------------------------------- raw version object (C17)
def vfields(w):
    return {"vinsert": w & 0x1fffffff, "locked": (w >> 29) & 1, "inserting": (w >> 30) & 1, "splitting": (w >> 31) & 1,
            "vsplit": (w >> 32) & 0x1fffffff, "deleted": (w >> 61) & 1, "root": (w >> 62) & 1, "border": (w >> 63) & 1}


def check_version(run):
    """oracle for the raw version-object workloads: exclusion, clean stable reads, and the final
    word predicted from the completed operations (counters count flagged unlocks mod 2^29, every
    other field holds what its only writer wrote last)"""
    out = []
    init, final = run.vfinal
    fi, ff = vfields(init), vfields(final)
    n_ins = n_split = 0
    last = {}          # field -> {tid: last value written}
    for h in sorted(run.h, key=lambda h: (h["tid"], h["idx"])):
        op, res = h["op"], h["res"]
        if op[0] == "vcs":
            if "MUTEX" in res:
                out.append(("mutex", "two threads were inside the critical section guarded by lock(): tid %d op %d" % (h["tid"], h["idx"])))
            fl = op[1] if len(op) > 1 else ""
            n_ins += ("i" in fl) + fl.count("n")
            n_split += "s" in fl
            for c in fl:
                if c in "dD":
                    last.setdefault("deleted", {})[h["tid"]] = 1 if c == "d" else 0
        elif op[0] == "vinc":
            n_ins += 1
        elif op[0] == "vroot":
            last.setdefault("root", {})[h["tid"]] = int(op[1])
        elif op[0] == "vborder":
            last.setdefault("border", {})[h["tid"]] = int(op[1])
        elif op[0] == "vstable":
            w = vfields(int(res.split()[1], 16))
            if w["locked"] or w["inserting"] or w["splitting"]:
                out.append(("stable", "get_stable_version returned the locked or dirty word %s" % res.split()[1]))
    if run.stuck:
        return out
    if ff["locked"] or ff["inserting"] or ff["splitting"]:
        out.append(("versionfinal", "after all operations the word is still locked or dirty: %016x" % final))
    if ff["vinsert"] != (fi["vinsert"] + n_ins) % (1 << 29):
        out.append(("versionfinal", "insert counter %d, expected %d + %d mod 2^29 (word %016x -> %016x)" % (ff["vinsert"], fi["vinsert"], n_ins, init, final)))
    if ff["vsplit"] != (fi["vsplit"] + n_split) % (1 << 29):
        out.append(("versionfinal", "split counter %d, expected %d + %d mod 2^29 (word %016x -> %016x)" % (ff["vsplit"], fi["vsplit"], n_split, init, final)))
    for f in ("deleted", "root", "border"):
        writers = last.get(f, {})
        want = fi[f] if not writers else (list(writers.values())[0] if len(writers) == 1 else None)
        if want is not None and ff[f] != want:
            out.append(("versionfinal", "field %s is %d, its only writer left %d (word %016x -> %016x)" % (f, ff[f], want, init, final)))
    return out


# ---------------------------------------------------------------- linearizability of one key
def lin_key(ops, init):
    """ops: list of (inv, ret, kind, arg, result) on one key; init: value or None.
    kinds: put(v, unique) -> 'OK'|'UNIQ'; rem -> 'OK'|'NF'; read -> value|None.
    Returns True iff a linearization exists. A response time of None means 'pending forever'."""
    n = len(ops)
    order = sorted(range(n), key=lambda i: ops[i][0])
    seen = set()

    def rec(done, state):
        if len(done) == n:
            return True
        key = (done, state)
        if key in seen:
            return False
        seen.add(key)
        # minimal ops: not done, and no other not-done op returned before its invocation
        pend = [i for i in order if i not in done]
        min_ret = min(ops[i][1] for i in pend)
        for i in pend:
            inv, ret, kind, arg, res = ops[i]
            if inv > min_ret:
                continue
            if kind == "put":
                v, uniq = arg
                if uniq and state is not None:
                    ok, ns = res == "UNIQ", state
                else:
                    ok, ns = res == "OK", v
            elif kind == "rem":
                if state is None:
                    ok, ns = res == "NF", None
                else:
                    ok, ns = res == "OK", None
            else:
                ok, ns = res == state, state
            if ok and rec(done | frozenset([i]), ns):
                return True
        return False

    return rec(frozenset(), init)


def check_run(run, pre, classes):
    """returns list of (class, message). pre: dict key->value(hex) after the preload."""
    out = []
    if run.stuck:
        out.append(("progress", "the scheduler found no progress (deadlock or livelock): " + run.header))
    if "REPLAY-INFEASIBLE" in run.header:
        out.append(("replay", "replay schedule infeasible"))
    if run.vfinal is not None:
        out.extend(check_version(run))
    for e in run.walkerr:
        out.append(("structure", e))
    if run.ledger and " errs 0" not in run.ledger:
        out.append(("ledger", run.ledger))
    if run.ledger and not run.stuck and not run.ledger.startswith("LEDGER live 0 "):
        out.append(("leak", "library-owned blocks still allocated after fin(): " + run.ledger))
    for h in run.h:
        if h["op"][0] == "hold" and not h["res"].endswith("changed 0"):
            out.append(("held", "memory handed out inside a session changed before leave: " + h["res"]))
    if run.trace:
        for b in epoch_order(run)[2]:
            out.append(("epoch", b))
    if any(h["op"][0] in ("create", "delete", "find", "putin", "getin") for h in run.h):
        out.extend(check_storages(run))
    perkey = {}
    tmax = max([h["ret"] for h in run.h] + [0]) + 1

    def add(k, rec):
        perkey.setdefault(k, []).append(rec)

    for h in run.h:
        op, res = h["op"], h["res"]
        o = op[0]
        if "NULLVALUE" in res:
            out.append(("nullvalue", "tid %d op %d (%s) returned OK with a null value pointer" % (h["tid"], h["idx"], " ".join(op))))
        if o == "put":
            r = {"OK": "OK", "WARN_UNIQUE_RESTRICTION": "UNIQ"}.get(res)
            if r is None:
                out.append(("status", "unexpected status %s for %s" % (res, " ".join(op))))
                continue
            add(unhex(op[1]), (h["inv"], h["ret"], "put", (op[2], op[3] == "1"), r))
        elif o == "puti":
            if res != "OK":
                out.append(("status", "unexpected status %s for %s" % (res, " ".join(op))))
                continue
            add(unhex(op[1]), (h["inv"], h["ret"], "put", ("i%016x" % int(op[2], 16), False), "OK"))
        elif o == "remove":
            r = {"OK": "OK", "OK_NOT_FOUND": "NF", "OK_ROOT_IS_NULL": "NF"}.get(res)
            if r is None:
                out.append(("status", "unexpected status %s for %s" % (res, " ".join(op))))
                continue
            add(unhex(op[1]), (h["inv"], h["ret"], "rem", None, r))
        elif o in ("get", "geti"):
            w = res.split()
            if w[0] == "OK":
                add(unhex(op[1]), (h["inv"], h["ret"], "read", None, w[1] if len(w) > 1 else "NULLVALUE"))
            elif w[0] == "WARN_NOT_EXIST":
                add(unhex(op[1]), (h["inv"], h["ret"], "read", None, None))
            else:
                out.append(("status", "unexpected status %s for get" % res))
        elif o in ("scan", "iscan"):
            if o == "scan":
                lk, le, rk, re_, mx, r2l = unhex(op[1]), op[2], unhex(op[3]), op[4], int(op[5]), op[6] == "1"
                w = res.split()
                if w[0] != "OK":
                    out.append(("status", "unexpected status %s for scan" % res))
                    continue
                n = int(w[1])
                pairs = [kv.partition("=") for kv in w[2:2 + n]]
                keys = [unhex(k) for k, _, _ in pairs]
                vals = [v for _, _, v in pairs]
                complete_status = True
            else:
                lk, le, rk, re_, r2l, early, lim = unhex(op[1]), op[2], unhex(op[3]), op[4], op[5] == "1", op[6] == "1", int(op[7])
                if le == "F":
                    lk, le = b"", "I"
                body, _, tail = res.partition(" ] ")
                pairs = [kv.partition("=") for kv in body.split()[1:]]
                keys = [unhex(k) for k, _, _ in pairs]
                vals = [None] * len(keys)     # the cursor hands out pointers only; checked for presence
                st = tail.split()[0] if tail else "?"
                mx = 0
                complete_status = st == "OK_SCAN_END"
                if st not in ("OK_SCAN_END", "OK", "WARN_CONCURRENT_OPERATIONS"):
                    out.append(("status", "unexpected cursor status %s" % st))
                if st == "WARN_CONCURRENT_OPERATIONS" and not early:
                    out.append(("status", "WARN_CONCURRENT_OPERATIONS without early_abort"))
            # order and interval
            seq = keys if not r2l else list(reversed(keys))
            if o == "scan" and r2l:
                seq = keys
            if any(seq[i] >= seq[i + 1] for i in range(len(seq) - 1)):
                out.append(("order", "%s result not strictly monotone: %s" % (o, res[:200])))
            for k in keys:
                if not in_interval(k, lk, le, rk, re_):
                    out.append(("order", "%s returned key outside the interval: %s" % (o, k.hex())))
            # fold into per-key reads: returned pairs were current at some instant; keys of the
            # covered part that were not returned were absent at some instant
            # (a right-to-left scan returns the largest key of the interval: an empty result says that
            # every key of the interval was absent at some instant)
            limited = (o == "scan" and ((mx != 0 and len(keys) >= mx) or (r2l and keys))) or (o == "iscan" and not complete_status)
            for k, v in zip(keys, vals):
                if v is None:
                    add(k, (h["inv"], h["ret"], "present", None, None))
                else:
                    add(k, (h["inv"], h["ret"], "read", None, v))
            universe = set(perkey) | set(pre)
            for hh in run.h:
                if hh["op"][0] in ("put", "puti", "remove", "get", "geti"):
                    universe.add(unhex(hh["op"][1]))
            for k in universe:
                if k in keys or not in_interval(k, lk, le, rk, re_):
                    continue
                if limited:
                    # covered part: from the start up to the last produced entry
                    if not keys:
                        continue
                    last = keys[-1]
                    if (not r2l and k > last) or (r2l and k < last):
                        continue
                add(k, (h["inv"], h["ret"], "read", None, None))
    # the final content is a read of every key after everything
    if run.final is not None:
        keys = set(perkey) | set(pre) | set(run.final)
        for k in keys:
            v = run.final.get(k)
            add(k, (tmax + 1, tmax + 2, "read", None, v))
            if v == "NULLVALUE":
                out.append(("nullvalue", "final scan returned a null value for %s" % k.hex()))
    for k, ops in perkey.items():
        # 'present' pseudo reads (cursor): value unknown -> try every value ever written, plus init
        vals = {a[0] for (_, _, kind, a, _) in ops if kind == "put"} | ({pre[k]} if k in pre else set())
        pres = [i for i, x in enumerate(ops) if x[2] == "present"]
        if pres:
            # require: at some instant of the call the key was present (any value)
            base = [x for x in ops if x[2] != "present"]
            ok_all = True
            for i in pres:
                x = ops[i]
                if not any(lin_key(base + [(x[0], x[1], "read", None, v)], pre.get(k)) for v in vals):
                    ok_all = False
            if not ok_all:
                out.append(("linearizability", "key %s: a cursor returned it although it was never present during the call" % k.hex()))
            ops = base
        if not lin_key(ops, pre.get(k)):
            out.append(("linearizability", "key %s: no linearization of %s" % (k.hex(), ops)))
    # C06: node sets that stayed fresh must have seen every completed fresh insert of their range
    for h in run.h:
        if h["op"][0] != "scan":
            continue
        nv = run.nv.get((h["tid"], h["idx"]))
        if nv is None:
            continue
        n, stale = nv
        if n == 0 and h["res"].startswith("OK"):
            out.append(("nodeset", "scan collected an empty node set"))
        if stale != 0:
            continue
        op = h["op"]
        lk, le, rk, re_, mx, r2l = unhex(op[1]), op[2], unhex(op[3]), op[4], int(op[5]), op[6] == "1"
        w = h["res"].split()
        cnt = int(w[1])
        got = [unhex(kv.partition("=")[0]) for kv in w[2:2 + cnt]]
        for p in run.h:
            if p["op"][0] != "put" or p["res"] != "OK":
                continue
            k = unhex(p["op"][1])
            if k in pre or k in got or not in_interval(k, lk, le, rk, re_):
                continue
            # fresh key (never preloaded; workloads insert it once and never remove it)
            if any(q["op"][0] == "remove" and unhex(q["op"][1]) == k for q in run.h):
                continue
            if (mx != 0 and len(got) >= mx) or r2l:
                if not got:
                    continue
                if (not r2l and k > got[-1]) or (r2l and k < got[-1]):
                    continue
            out.append(("nodeset", "insert of %s completed, the scan of its range did not return it, and every collected (version,node) pair is still fresh" % k.hex()))
    return [x for x in out if not classes or x[0] in classes]


if __name__ == "__main__":
    text = sys.stdin.read()
    for r in parse(text):
        print(r.header, check_run(r, {}, None))


# ---------------------------------------------------------------- storages (C13)
def check_storages(run):
    """the directory is a linearizable map name -> storage: create = unique insert, delete = remove,
    find = read; a data operation on a name is a read of the directory as well (it answers
    WARN_STORAGE_NOT_EXIST iff the name is absent at its linearization point). Of several
    concurrent creates (deletes) of one absent (present) name exactly one succeeds."""
    out = []
    pern = {}
    for h in run.h:
        o, res = h["op"][0], h["res"].split()[0] if h["res"] else ""
        if o == "create":
            r = {"OK": "OK", "WARN_UNIQUE_RESTRICTION": "UNIQ"}.get(res)
            if r is None:
                out.append(("storage", "unexpected status %s for create" % res))
                continue
            pern.setdefault(h["op"][1], []).append((h["inv"], h["ret"], "put", ("S", True), r))
        elif o == "delete":
            r = {"OK": "OK", "WARN_NOT_EXIST": "NF"}.get(res)
            if r is None:
                # WARN_CONCURRENT_OPERATIONS: somebody else removed it between the lookup and the
                # remove: it was present at one instant and absent at another; no map effect
                if res == "WARN_CONCURRENT_OPERATIONS":
                    continue
                out.append(("storage", "unexpected status %s for delete" % res))
                continue
            pern.setdefault(h["op"][1], []).append((h["inv"], h["ret"], "rem", None, r))
        elif o in ("find", "putin", "getin"):
            present = res != ("WARN_NOT_EXIST" if o == "find" else "WARN_STORAGE_NOT_EXIST")
            pern.setdefault(h["op"][1], []).append((h["inv"], h["ret"], "read", None, "S" if present else None))
    for n, ops in pern.items():
        init = "S" if n == "61" else None        # the workload's own storage exists from the start
        if not lin_key(ops, init):
            out.append(("storage", "storage %s: no linearization of %s" % (n, ops)))
    return out


# ---------------------------------------------------------------- sessions (C14)
def check_sessions(run, capacity):
    """tokens of simultaneously open sessions are distinct, at most `capacity` are open, and
    WARN_MAX_SESSIONS is only returned if every slot was occupied at some moment of the call"""
    out = []
    sess = []          # (slot, enter_inv, enter_ret, leave_inv or inf, leave_ret or inf)
    fails = []
    INF = 10 ** 18
    by_tid = {}
    for h in sorted(run.h, key=lambda x: (x["tid"], x["idx"])):
        o = h["op"][0]
        if o == "enter":
            if h["res"].startswith("OK slot"):
                rec = [int(h["res"].split()[2]), h["inv"], h["ret"], INF, INF]
                sess.append(rec)
                by_tid[h["tid"]] = rec
            elif h["res"] == "WARN_MAX_SESSIONS":
                fails.append((h["inv"], h["ret"]))
            else:
                out.append(("session", "unexpected enter result " + h["res"]))
        elif o == "probe" and h["res"].startswith("probe"):
            w = h["res"].split()
            if w[2] != "1" or w[4] == "0":
                out.append(("session", "open session (tid %d op %d) found its own slot with running=%s begin_epoch=%s: it is not counted by the reclamation protocol" % (h["tid"], h["idx"], w[2], w[4])))
            elif len(w) > 6 and int(w[6]) > int(w[4]) + 1:
                # the global epoch cannot pass an open session by more than one step (epoch_window)
                out.append(("session", "open session (tid %d op %d) has begin_epoch=%s but the global epoch is already %s: the epoch thread does not wait for it" % (h["tid"], h["idx"], w[4], w[6])))
        elif o == "leave" and h["res"] == "OK":
            rec = by_tid.pop(h["tid"], None)
            if rec is not None:
                rec[3], rec[4] = h["inv"], h["ret"]
    # definitely open: [enter_ret, leave_inv]
    for i, a in enumerate(sess):
        for b in sess[i + 1:]:
            if a[0] == b[0] and a[2] < b[3] and b[2] < a[3] and max(a[2], b[2]) < min(a[3], b[3]):
                out.append(("session", "slot %d handed to two sessions open at the same time: %s %s" % (a[0], a, b)))
    events = sorted({x[2] for x in sess})
    for tpt in events:
        n = sum(1 for x in sess if x[2] <= tpt < x[3])
        if n > capacity:
            out.append(("session", "%d sessions open at step %d, capacity %d" % (n, tpt, capacity)))
    for (fi, fr) in fails:
        for slot in range(capacity):
            if not any(x[0] == slot and x[1] <= fr and fi <= x[4] for x in sess):
                out.append(("session", "WARN_MAX_SESSIONS during [%d,%d] although slot %d was never occupied during the call" % (fi, fr, slot)))
                break
    if any(x[0] >= capacity or x[0] < 0 for x in sess):
        out.append(("session", "token outside the table"))
    return out


# ---------------------------------------------------------------- reclamation order (C07)
def epoch_order(run):
    """from the trace: an object is reclaimed only after every session that was open when it was
    retired has left. Returns (n_retired, n_reclaimed_in_trace, violations[list of str])."""
    open_s = {}        # slot -> session generation
    gen = 0
    witness = {}       # obj -> set of (slot, generation)
    nret = nrec = 0
    bad = []
    for l in run.trace:
        w = l.split()
        if len(w) < 8:
            continue
        kind, field, slot, obj = int(w[3]), int(w[4]), int(w[5]), w[6]
        if kind != 6:
            continue
        if field == 16:
            gen += 1
            open_s[slot] = gen
        elif field == 17:
            g = open_s.pop(slot, None)
            for ws in witness.values():
                ws.discard((slot, g))
        elif field in (12, 13):
            nret += 1
            witness[obj] = set(open_s.items())
        elif field in (14, 15):
            nrec += 1
            ws = witness.pop(obj, None)
            if ws:
                bad.append("object %s reclaimed (step %s) while sessions %s that were open when it was retired are still open" % (obj, w[1], sorted(ws)))
    return nret, nrec, bad


# ---------------------------------------------------------------- lock order (C09)
K_STORE, K_CAS_OK = 1, 7
F_VERSION, F_ROOTLOCK = 1, 5


def lock_order(run):
    """lockdep over one run's trace: edges A -> B when a thread acquires B while holding A.
    Returns (n_acquisitions, cycle or None, locks still held at the end)."""
    owner = {}      # lock -> tid
    held = {}       # tid -> list of locks in acquisition order
    edges = {}
    nacq = 0
    for l in run.trace:
        w = l.split()
        if len(w) < 8:
            continue
        tid, kind, field, obj, val = int(w[2]), int(w[3]), int(w[4]), w[6], int(w[7])
        if field == F_VERSION and kind == K_CAS_OK:
            locked = (val >> 29) & 1
            lk = "n" + obj
            if locked and lk not in owner:
                owner[lk] = tid
                for a in held.get(tid, []):
                    edges.setdefault(a, set()).add(lk)
                held.setdefault(tid, []).append(lk)
                nacq += 1
            elif not locked and owner.get(lk) == tid:
                del owner[lk]
                held[tid].remove(lk)
        elif field == F_ROOTLOCK and kind == K_CAS_OK:
            lk = "r" + obj
            owner[lk] = tid
            for a in held.get(tid, []):
                edges.setdefault(a, set()).add(lk)
            held.setdefault(tid, []).append(lk)
            nacq += 1
        elif field == F_ROOTLOCK and kind == K_STORE:
            lk = "r" + obj
            if owner.get(lk) == tid:
                del owner[lk]
                held[tid].remove(lk)
    # cycle search
    color = {}
    cyc = None

    def dfs(u, path):
        nonlocal cyc
        color[u] = 1
        for v in edges.get(u, ()):
            if cyc:
                return
            if color.get(v) == 1:
                cyc = path + [u, v]
                return
            if color.get(v) is None:
                dfs(v, path + [u])
        color[u] = 2

    for u in list(edges):
        if color.get(u) is None and not cyc:
            dfs(u, [])
    return nacq, cyc, sorted(owner)
