"""Shared machinery of the checks: Lean build + audit, harness builds (content-hash cache),
parallel runs, evidence files, verdict lines. No state is kept under /tmp; scratch lives in
/verif/.cache (ignored by git, rebuilt on demand)."""
import concurrent.futures
import hashlib
import json
import os
import re
import shutil
import subprocess
import sys
import time

HERE = os.path.dirname(os.path.abspath(__file__))
VERIF = os.path.dirname(HERE)
REPO = os.environ.get("YAK_REPO", "/repo")
INC = os.path.join(REPO, "include")
LEAN = os.path.join(VERIF, "lean")
CACHE = os.path.join(VERIF, ".cache")
EVID = os.path.join(VERIF, "evidence")
REPLAYS = os.path.join(VERIF, "replays")
YAKMODEL = os.path.join(LEAN, ".lake", "build", "bin", "yakmodel")
NPROC = int(os.environ.get("VERIF_JOBS", str(os.cpu_count() or 4)))

ALLOWED_AXIOMS = {"propext", "Classical.choice", "Quot.sound"}
FORBIDDEN = re.compile(r"\b(sorry|admit|native_decide|bv_decide|implemented_by)\b|^\s*axiom\s|\bunsafe\s|maxHeartbeats\s+0")

for d in (CACHE, EVID, REPLAYS):
    os.makedirs(d, exist_ok=True)


def log(*a):
    print(*a, file=sys.stderr, flush=True)


def sh(cmd, **kw):
    return subprocess.run(cmd, capture_output=True, text=True, **kw)


# ---------------------------------------------------------------- Lean side
def strip_lean_comments(src):
    out = []
    i = 0
    depth = 0
    n = len(src)
    while i < n:
        if src.startswith("/-", i):
            depth += 1
            i += 2
        elif depth and src.startswith("-/", i):
            depth -= 1
            i += 2
        elif depth:
            if src[i] == "\n":
                out.append("\n")
            i += 1
        elif src.startswith("--", i):
            while i < n and src[i] != "\n":
                i += 1
        else:
            out.append(src[i])
            i += 1
    return "".join(out)


def lean_theorems(prop):
    """names of the theorems stated in YakProps/<prop>.lean (full names)"""
    path = os.path.join(LEAN, "YakProps", prop + ".lean")
    src = strip_lean_comments(open(path).read())
    ns = re.search(r"^namespace\s+(\S+)", src, re.M).group(1)
    return [ns + "." + m for m in re.findall(r"^theorem\s+(\S+)", src, re.M)]


def lean_imports_closure(prop):
    """project files the property file transitively imports"""
    seen = set()
    todo = ["YakProps." + prop]
    files = []
    while todo:
        m = todo.pop()
        if m in seen:
            continue
        seen.add(m)
        path = os.path.join(LEAN, *m.split(".")) + ".lean"
        if not os.path.exists(path):
            continue
        files.append(path)
        for imp in re.findall(r"^import\s+(\S+)", open(path).read(), re.M):
            if imp.startswith("YakModel") or imp.startswith("YakProps"):
                todo.append(imp)
    return files


def lean_build_and_audit(prop, thorough=False):
    """regenerate constants, build the property's theorems and the model driver, audit.
    Returns dict(ok, obligations, discharged, problems[list of str], axioms{thm: [..]}, wall)"""
    t0 = time.time()
    res = {"ok": True, "problems": [], "axioms": {}, "obligations": 0, "discharged": 0}
    r = sh([sys.executable, os.path.join(HERE, "extract_constants.py")])
    if r.returncode != 0:
        res["ok"] = False
        res["problems"].append("constants extractor failed: " + r.stderr.strip()[-500:])
        return res
    r = sh(["lake", "build", "YakProps." + prop, "yakmodel"], cwd=LEAN)
    if r.returncode != 0:
        res["ok"] = False
        errs = [l for l in (r.stdout + r.stderr).splitlines() if "error" in l]
        res["problems"].append("lake build failed: " + " | ".join(errs[:6]))
        res["build_log"] = (r.stdout + r.stderr)[-4000:]
    thms = lean_theorems(prop)
    res["obligations"] = len(thms)
    # forbidden words in every project file the theorems depend on
    for path in lean_imports_closure(prop):
        src = strip_lean_comments(open(path).read())
        for ln, line in enumerate(src.splitlines(), 1):
            if FORBIDDEN.search(line):
                res["ok"] = False
                res["problems"].append("forbidden construct in %s:%d: %s" % (os.path.relpath(path, LEAN), ln, line.strip()[:80]))
    if r.returncode == 0:
        scratch = os.path.join(CACHE, "axioms_%s.lean" % prop)
        with open(scratch, "w") as f:
            f.write("import YakProps.%s\n" % prop)
            for t in thms:
                f.write("#print axioms %s\n" % t)
        a = sh(["lake", "env", "lean", scratch], cwd=LEAN)
        out = a.stdout + a.stderr
        for t in thms:
            m = re.search(r"'%s' depends on axioms: \[(.*?)\]" % re.escape(t), out, re.S)
            m2 = re.search(r"'%s' does not depend on any axioms" % re.escape(t), out)
            if m:
                ax = [x.strip() for x in m.group(1).replace("\n", " ").split(",") if x.strip()]
            elif m2:
                ax = []
            else:
                res["ok"] = False
                res["problems"].append("theorem %s not found by #print axioms" % t)
                continue
            res["axioms"][t] = ax
            bad = [x for x in ax if x not in ALLOWED_AXIOMS]
            if bad:
                res["ok"] = False
                res["problems"].append("theorem %s depends on %s" % (t, ",".join(bad)))
            else:
                res["discharged"] += 1
        if thorough:
            c = sh(["lake", "env", "leanchecker", "YakProps." + prop], cwd=LEAN)
            res["leanchecker"] = "ok" if c.returncode == 0 else (c.stdout + c.stderr)[-300:]
            if c.returncode != 0:
                res["ok"] = False
                res["problems"].append("leanchecker rejected YakProps." + prop)
    res["wall"] = time.time() - t0
    return res


# ---------------------------------------------------------------- harness builds
def tree_hash(paths):
    h = hashlib.sha256()
    for p in sorted(paths):
        if os.path.isdir(p):
            for root, _, files in sorted(os.walk(p)):
                for fn in sorted(files):
                    fp = os.path.join(root, fn)
                    h.update(fp.encode())
                    h.update(open(fp, "rb").read())
        else:
            h.update(p.encode())
            h.update(open(p, "rb").read())
    return h.hexdigest()[:16]


BASE_FLAGS = ["-std=c++17", "-O1", "-g", "-D_GLIBCXX_ASSERTIONS", "-fsanitize=address,undefined", "-fno-sanitize-recover=all",
              "-fno-sanitize=alignment", "-DYAKUSHIMA_LINUX", "-DYAKUSHIMA_VERIF"]


def build_harness(name, defines, extra_flags=None, sanitize=True):
    """compile harness/<name>.cpp against /repo/include as it is now; cached by content hash"""
    src = os.path.join(VERIF, "harness", name + ".cpp")
    flags = list(BASE_FLAGS) if sanitize else ["-std=c++17", "-O2", "-g", "-DYAKUSHIMA_LINUX", "-DYAKUSHIMA_VERIF"]
    flags += ["-D%s=%s" % kv for kv in sorted(defines.items())]
    flags += extra_flags or []
    th = tree_hash([INC, os.path.join(VERIF, "harness")])
    key = th + "_" + hashlib.sha256(" ".join(flags).encode()).hexdigest()[:8]
    out = os.path.join(CACHE, "%s_%s" % (name, key))
    if os.path.exists(out):
        return out, None
    # drop binaries of this harness built from an older tree (other flag sets of this tree stay)
    for fn in os.listdir(CACHE):
        if fn.startswith(name + "_") and not fn.startswith("%s_%s_" % (name, th)) and not fn.endswith(".txt"):
            try:
                os.remove(os.path.join(CACHE, fn))
            except OSError:
                pass
    tmp = out + ".tmp%d" % os.getpid()
    cmd = ["g++"] + flags + ["-I" + INC, "-I" + os.path.join(VERIF, "harness"), src, "-o", tmp,
                            "-lglog", "-ltbb", "-lpthread"]
    t0 = time.time()
    r = sh(cmd)
    if r.returncode != 0:
        return None, "harness %s does not compile against the working tree:\n%s" % (name, r.stderr[-3000:])
    os.replace(tmp, out)
    log("built %s in %.1fs" % (name, time.time() - t0))
    return out, None


def crash_excerpt(err, n=1400):
    """the informative part of a sanitizer / abort report: from the first ERROR / runtime error /
    assertion / terminate line"""
    err = err or ""
    for pat in ("ERROR: AddressSanitizer", "runtime error", "Assertion", "terminate called", "LeakSanitizer", "SUMMARY"):
        i = err.find(pat)
        if i >= 0:
            return err[max(0, i - 60): i + n]
    return err[-n:]


def pmap(fn, items, jobs=None):
    with concurrent.futures.ThreadPoolExecutor(max_workers=jobs or NPROC) as ex:
        return list(ex.map(fn, items))


# ---------------------------------------------------------------- evidence / verdict
def write_evidence(prop, tier, seed, level, coverage, assumptions, wall, violations):
    ev = {"property_id": prop, "tier": tier, "seed": seed, "level": level, "coverage": coverage,
          "assumptions": assumptions, "wall_s": round(wall, 2), "violations": violations}
    with open(os.path.join(EVID, prop + ".json"), "w") as f:
        json.dump(ev, f, indent=1)


def known_findings():
    p = os.path.join(VERIF, "known_findings.json")
    if not os.path.exists(p):
        return {"known": [], "fixed": []}
    return json.load(open(p))


def write_replay(prop, seed, n, payload):
    path = os.path.join(REPLAYS, "%s-%s-%d.json" % (prop, seed, n))
    with open(path, "w") as f:
        json.dump(payload, f, indent=1)
    return path


TRUSTED_BASE = [
    "Lean 4.33.0 kernel; axioms propext, Classical.choice, Quot.sound only (audited by #print axioms on every run)",
    "hand-written Lean models tied to /repo by sampled correspondence (this run's counts below)",
    "constants extractor (regex + compiled probe) for layout constants",
    "C++ harness, walker, allocation interposer, Python orchestration",
    "GCC 12 x86-64 ABI; sequentially consistent interleaving model for the concurrent parts",
]
