#!/bin/bash
# development aid: import_mutant.sh <agent dir id, e.g. C14b> <property> <first free index>
# copies /tmp/mut/<id>_out/{patch.diff,demo.cpp,patch2.diff,demo2.cpp,README.md} to /verif/seeded/<prop>_m<k>, <prop>_m<k+1>
cd "$(dirname "$0")/.."
id=$1; prop=$2; k=$3
src=/tmp/mut/${id}_out
d=seeded/${prop}_m$k; mkdir -p $d; cp $src/patch.diff $d/patch.diff; cp $src/demo.cpp $d/demo.cpp; cp $src/README.md $d/README_agent.md
if [ -f $src/patch2.diff ]; then k2=$((k+1)); d=seeded/${prop}_m$k2; mkdir -p $d; cp $src/patch2.diff $d/patch.diff; cp $src/demo2.cpp $d/demo.cpp; cp $src/README.md $d/README_agent.md; fi
ls seeded | grep ${prop}_
