#!/usr/bin/env python3
"""Generate one operation sequence for seqdrv (line protocol, see harness/seqdrv.cpp).

Every random choice comes from one PRNG seeded by (seed, profile), so a sequence replays exactly.
Profiles steer towards the places where the code branches: 8-byte slice boundaries, lengths
0/8/9, 15-way fan-out (leaf and interior splits), emptied nodes (unlink, absorb left/right,
collapse, root replacement), next-layer links at interval ends.
"""
import argparse
import random
import sys

ALPHA = [0x00, 0x01, 0x7f, 0x80, 0xff]


def hx(b):
    return b.hex() if b else "-"


class Gen:
    def __init__(self, seed, profile, nops):
        self.r = random.Random("%d/%s" % (seed, profile))
        self.profile = profile
        self.nops = nops
        self.out = []
        self.live = {}       # storage -> set of keys believed present
        self.storages = []
        self.cursors = 0

    def emit(self, s):
        self.out.append(s)

    # ---------- key pools ----------
    def key_pool(self):
        r = self.r
        p = self.profile
        pool = []
        if p in ("fanout", "drain", "big"):
            # (more than ~130 keys of one layer put a 17th border under one interior node: interior_split;
            # a descending fill splits among the low children = the "pending pair goes left" branch)
            n = {"fanout": r.choice([120, 120, 200]), "drain": 260, "big": 1500}[p]
            w = r.choice([2, 3, 4, 6, 8])
            base = r.choice([b"", b"k", b"\x00", b"\xff\xff"])
            for i in range(n):
                pool.append(base + i.to_bytes(w, "big"))
        elif p == "layers":
            # shared 8/16-byte prefixes, suffix lengths around the slice boundary
            pres = [bytes(r.choice(ALPHA) for _ in range(8)) for _ in range(r.randint(1, 3))]
            pres += [pres[0] + bytes(r.choice(ALPHA) for _ in range(8))]
            pres += [b"abcdefgh", b"abcdefghABCDEFGH"]
            for pre in pres:
                for sl in (0, 1, 2, 7, 8, 9):
                    for _ in range(2):
                        pool.append(pre + bytes(r.choice(ALPHA + [0x41, 0x42]) for _ in range(sl)))
                # proper prefixes of the prefix itself (keys that differ only in length)
                for cut in (0, 1, 7):
                    pool.append(pre[:cut])
            for i in range(40):
                pool.append(pres[0] + b"s" + i.to_bytes(2, "big"))
        elif p == "binary":
            for _ in range(90):
                ln = r.choice([0, 1, 2, 3, 7, 8, 9, 15, 16, 17, 24, 25])
                pool.append(bytes(r.choice(ALPHA) for _ in range(ln)))
            # zero-byte families: same padded slice, different lengths
            for ln in range(0, 10):
                pool.append(b"\x00" * ln)
                pool.append(b"a" + b"\x00" * ln)
                pool.append(b"\xff" * ln)
        elif p == "prefixfan":
            # ~220 keys of length 1-5 over a tiny alphabet: most keys are proper prefixes of others, so
            # separators that differ from a pivot only by length meet in interior_node::insert and
            # interior_split (needs > 128 keys of one layer)
            alpha = [r.choice([0x00, 0x60]), 0x60, 0x80, 0xff][-3:] if r.random() < 0.5 else [0x00, 0x61, 0x62]
            seen = set()
            while len(seen) < 220:
                ln = r.choice([1, 2, 3, 3, 4, 4, 5])
                seen.add(bytes(r.choice(alpha) for _ in range(ln)))
            pool = sorted(seen)
            r.shuffle(pool)
        elif p == "long":
            for ln in (255, 256, 257, 264, 300, 1000):
                pool.append(bytes((i * 7 + ln) & 0xff for i in range(ln)))
                pool.append(b"L" * ln)
            pool.append(b"L" * 256 + b"x")
            for i in range(30):
                pool.append(b"L" * 8 + i.to_bytes(1, "big"))
        else:  # mixed
            for i in range(60):
                pool.append(b"m" + i.to_bytes(2, "big"))
            for _ in range(40):
                ln = r.choice([0, 1, 7, 8, 9, 16, 17])
                pool.append(bytes(r.choice(ALPHA + [0x61]) for _ in range(ln)))
            pre = b"prefix__"
            for sl in (0, 1, 8, 9):
                pool.append(pre + b"z" * sl)
        # dedupe, keep order
        seen = set()
        res = []
        for k in pool:
            if k not in seen:
                seen.add(k)
                res.append(k)
        return res

    def value(self):
        r = self.r
        ln = r.choice([0, 1, 2, 3, 8, 9, 16, 40, 100]) if r.random() < 0.9 else r.choice([255, 256, 1000, 4097])
        return bytes(r.randrange(256) for _ in range(ln))

    def align(self):
        return self.r.choice([1, 1, 1, 2, 8, 16, 64, 4096])

    # ---------- ops ----------
    def put(self, st, k, unique=None, info=None):
        r = self.r
        if unique is None:
            unique = r.random() < 0.15
        if info is None:
            info = r.choice(["none", "new", "new", "legacy"])
        self.emit("put s %s %s %s %d %d %s" % (hx(st), hx(k), hx(self.value()), self.align(), 1 if unique else 0, info))
        self.live.setdefault(st, set()).add(k)

    def flip(self, st):
        """overwrite a stored key by an inline-typed value and back (the value's representation
        changes twice, the tree must not notice)"""
        live = sorted(self.live.get(st, []))
        if not live:
            return
        k = self.r.choice(live)
        self.emit("flipcheck s %s %s" % (hx(st), hx(k)))
        self.put(st, k, unique=False, info="new")

    def remove(self, st, k):
        self.emit("remove s %s %s" % (hx(st), hx(k)))
        self.live.setdefault(st, set()).discard(k)

    def get(self, st, k):
        self.emit("get %s %s %d" % (hx(st), hx(k), 1 if self.r.random() < 0.5 else 0))

    def endpoint_keys(self, st, pool):
        r = self.r
        cands = []
        live = list(self.live.get(st, []))
        base = r.sample(live, min(len(live), 6)) + r.sample(pool, min(len(pool), 4))
        for k in base:
            cands.append(k)
            if k:
                cands.append(k[:-1])
                cands.append(k[: r.randrange(len(k))])
            cands.append(k + b"\x00")
            cands.append(k + b"\xff")
            if len(k) > 8:
                cands.append(k[:8])
                cands.append(k[:8] + b"\x00")
            if len(k) > 16:
                cands.append(k[:16])
            # endpoints that extend a stored key by ~256 bytes: the layer-relative length of the
            # endpoint then wraps in any 8-bit length arithmetic
            if r.random() < 0.3:
                pad = r.choice([247, 248, 250, 255, 256, 257, 264, 512])
                cands.append(k + bytes([r.choice([0x00, 0x01, 0x78, 0xff])]) * pad)
                if len(k) >= 8:
                    cands.append(k[:8 * (len(k) // 8)] + b"x" * pad)
        cands.append(b"")
        cands.append(b"\xff" * 8)
        cands.append(b"\xff" * 9)
        if r.random() < 0.2:
            cands.append(bytes(r.choice(ALPHA) for _ in range(r.choice([255, 256, 257, 264]))))
        return cands

    def scan(self, st, pool, nodes=None):
        r = self.r
        c = self.endpoint_keys(st, pool)
        lk, rk = r.choice(c), r.choice(c)
        le, re_ = r.choice("EIF"), r.choice("EIF")
        if r.random() < 0.7 and le != "F" and re_ != "F" and lk > rk:
            lk, rk = rk, lk
        live = sorted(self.live.get(st, []))
        if live and r.random() < 0.25:
            # an endpoint that is exactly a stored key whose length is a multiple of the slice size
            full = [k for k in live if k and len(k) % 8 == 0]
            k = r.choice(full) if full and r.random() < 0.6 else r.choice(live)
            if r.random() < 0.5:
                if le == "F" or lk <= k:
                    rk, re_ = k, r.choice("EEI")
            elif re_ == "F" or k <= rk:
                lk, le = k, r.choice("EEI")
        n = len(self.live.get(st, []))
        mx = r.choice([0, 0, 0, 1, 2, max(n - 1, 0), n, n + 1])
        r2l = 0
        if r.random() < 0.2:
            r2l = 1
            if r.random() < 0.8:
                mx, re_ = 1, "F"
        if nodes is None:
            nodes = 1 if r.random() < 0.7 else 0
        self.emit("scan %s %s %s %s %s %d %d %d" % (hx(st), hx(lk), le, hx(rk), re_, mx, r2l, nodes))

    def phantom(self, st, pool):
        """a read that collects node versions, then inserts of absent keys of the covered interval"""
        r = self.r
        if r.random() < 0.25:
            self.emit("phantom_get s %s %s" % (hx(st), hx(r.choice(self.endpoint_keys(st, pool)))))
            return
        if r.random() < 0.4:
            c = self.endpoint_keys(st, pool)
            lk, rk = r.choice(c), r.choice(c)
            le, re_ = r.choice("EIF"), r.choice("EIF")
            if le != "F" and re_ != "F" and lk > rk:
                lk, rk = rk, lk
            if le != "F" and re_ != "F" and lk == rk:
                le = re_ = "I"
            if le == "F" and re_ == "E" and rk == b"":
                re_ = "I"
            if r.random() < 0.4:
                # both endpoints below one 8-byte prefix (which may or may not have a layer yet)
                live = sorted(self.live.get(st, []))
                base = (r.choice(live)[:8] if live and r.random() < 0.6 else bytes(r.choice(ALPHA + [0x62]) for _ in range(8)))
                base = (base + b"\x00" * 8)[:8]
                lk, rk, le, re_ = base + b"1", base + b"2", r.choice("EI"), r.choice("EI")
            self.emit("phantom_iscan s %s %s %s %s %s %d %d" % (hx(st), hx(lk), le, hx(rk), re_, 1 if r.random() < 0.4 else 0, r.choice([1, 2, 4])))
            return
        c = self.endpoint_keys(st, pool)
        lk, rk = r.choice(c), r.choice(c)
        le, re_ = r.choice("EIF"), r.choice("EIF")
        if le != "F" and re_ != "F" and lk > rk:
            lk, rk = rk, lk
        if le != "F" and re_ != "F" and lk == rk:
            le = re_ = "I"
        if le == "F" and re_ == "E" and rk == b"":
            re_ = "I"
        n = len(self.live.get(st, []))
        mx = r.choice([0, 0, 1, 2, 3, max(n // 2, 1)])
        r2l = 0
        if r.random() < 0.15:
            mx, r2l, re_ = 1, 1, "F"
        self.emit("phantom s %s %s %s %s %s %d %d %d" % (hx(st), hx(lk), le, hx(rk), re_, mx, r2l, r.choice([1, 2, 4])))

    def iscan(self, st, pool, pause_ops=False):
        r = self.r
        c = self.endpoint_keys(st, pool)
        lk, rk = r.choice(c), r.choice(c)
        le, re_ = r.choice("EIF"), r.choice("EIF")
        if r.random() < 0.8 and le != "F" and re_ != "F" and lk > rk:
            lk, rk = rk, lk
        self.cursors += 1
        cur = "c%d" % self.cursors
        r2l = 1 if r.random() < 0.4 else 0
        live = sorted(self.live.get(st, []))
        if live and r.random() < 0.35:
            # start exactly on a stored key (INCLUSIVE): the one entry the cursor returns from open
            if r2l:
                rk, re_ = r.choice(live), "I"
                if le != "F" and lk > rk:
                    lk = b""
            else:
                lk, le = r.choice(live), "I"
                if re_ != "F" and lk > rk:
                    re_ = "F"
        if live and r.random() < 0.3:
            # the far end of the traversal is exactly a stored key (EXCLUSIVE or INCLUSIVE), preferably
            # one whose length is a multiple of the slice size (it is an entry and a layer prefix)
            full = [k for k in live if k and len(k) % 8 == 0]
            k = r.choice(full) if full and r.random() < 0.6 else r.choice(live)
            if r2l:
                if re_ == "F" or k <= rk:
                    lk, le = k, r.choice("EEI")
            else:
                if le == "F" or lk <= k:
                    rk, re_ = k, r.choice("EEI")
        self.emit("iopen %s %s %s %s %s %s %d %d" % (cur, hx(st), hx(lk), le, hx(rk), re_, r2l, 0))
        # the driver stops calling inext after OK_SCAN_END; we bound the count by the live set
        n = len(self.live.get(st, [])) + 2
        if r.random() < 0.4:
            # the caller pauses and modifies the tree between cursor steps (same thread): inserts
            # that split the node / the layer root under the cursor, removes that empty it
            anchor = (rk if r2l else lk)
            if len(anchor) > 8 and r.random() < 0.6:
                # hit the layer the cursor stands in: fill it until its root splits, or empty it
                pfx = anchor[: 8 * ((len(anchor) - 1) // 8)]
                if r.random() < 0.7:
                    for i in range(17):
                        self.put(st, pfx + b"~%02d" % i, unique=False, info="none")
                else:
                    for k in [k for k in live if k.startswith(pfx) and len(k) > len(pfx)]:
                        self.remove(st, k)
                    self.put(st, pfx + b"again", unique=False, info="none")
                live = sorted(self.live.get(st, []))
            for _ in range(r.choice([1, 2, 4])):
                self.emit("idrain %s %d" % (cur, r.choice([0, 1, 2])))
                for _ in range(r.choice([1, 3, 16])):
                    x = r.random()
                    if x < 0.65:
                        base = r.choice(live) if live and r.random() < 0.8 else r.choice(pool)
                        self.put(st, base + bytes([r.choice([0x00, 0x30, 0x31, 0x7a, 0xff])]) * r.choice([0, 1, 2]), unique=False, info="none")
                    elif live:
                        self.remove(st, r.choice(live))
            self.emit("idrain %s %d" % (cur, n + 40))
        else:
            stop_at = n if r.random() < 0.7 else r.randrange(n)
            self.emit("idrain %s %d" % (cur, stop_at))
        self.emit("iclose %s" % cur)

    def run_cycles(self):
        """init/fin repetitions: every cycle must behave like the first (C16)"""
        r = self.r
        ncyc = r.choice([2, 3, 5])
        for c in range(ncyc):
            self.emit("init")
            self.emit("list")
            # all session slots are free again: the table has 8 slots in the harness build
            nsess = r.choice([1, 2, 8])
            for i in range(nsess):
                self.emit("enter t%d" % i)
            if nsess == 8:
                self.emit("enter extra")      # every slot is taken: WARN_MAX_SESSIONS
                self.emit("leave t7")
                self.emit("leave t6")         # create_storage needs a slot of its own
            self.emit("enter s")
            st = r.choice([b"a", b"cyc", b""])
            self.emit("create %s" % hx(st))
            self.live[st] = set()
            keys = [b"c%03d" % i for i in range(r.choice([5, 40]))] + [b"longer_than_eight_%d" % i for i in range(4)]
            for k in keys:
                self.put(st, k, unique=False, info="none")
            for k in keys[::2]:
                self.put(st, k, unique=False, info="none")   # overwrite: retires the old value
            for k in keys[1::3]:
                self.remove(st, k)
            self.scan(st, keys, nodes=1)
            if r.random() < 0.5:
                self.emit("destroy")
                self.emit("list")
                self.emit("create %s" % hx(st))
                self.live[st] = set()
                self.put(st, b"after_destroy", unique=True, info="new")
                self.get(st, b"after_destroy")
            if r.random() < 0.4:
                # every storage is deleted again before fin(): only the directory's own (emptied) tree is left
                self.emit("delete %s" % hx(st))
                self.live.pop(st, None)
                self.emit("list")
            if nsess >= 2 and r.random() < 0.4:
                # a lower-numbered session leaves while higher ones stay open over fin(): the next
                # init() must still hand out every slot and start from a clean table
                self.emit("leave t0")
                self.emit("fin")
                self.live = {}
                continue
            leave_all = r.random() < 0.6
            if leave_all:
                for i in range(nsess if nsess < 8 else 6):
                    self.emit("leave t%d" % i)
                self.emit("leave s")
                # no session is open: the epoch must advance and everything retired must be reclaimed
                self.emit("epoch")
                self.emit("sleep 40")
                self.emit("epoch")
                self.emit("balance strict")
            self.emit("fin")
            self.live = {}
        return self.out

    def run_splitpoint(self):
        """A full border node (15 entries) gets a 16th key so that the entry at the split point and
        the new key have the same zero-padded 8-byte slice and differ only in length (trailing zero
        bytes, or an 8-byte key against the link of a longer key): the side decision of the split
        and the separator handed to the parent then depend on the length tie-break alone."""
        r = self.r
        self.emit("init")
        self.emit("enter s")
        st = b"a"
        self.emit("create %s" % hx(st))
        self.storages.append(st)
        self.live[st] = set()
        pre = bytes(r.choice(ALPHA) for _ in range(8)) * r.choice([0, 0, 1, 2]) if r.random() < 0.5 else b""
        kind = r.choice(["link", "link", "zeros", "zeros", "zerolink", "control"])
        if kind == "link":
            S = bytes([0x80]) + bytes(r.choice([0, 0x41, 0x80, 0xff]) for _ in range(7))
            short, long_ = S, S + bytes(r.choice(ALPHA) for _ in range(r.choice([1, 2, 8, 9])))
        elif kind == "zeros":
            base = bytes([0x80]) + bytes(r.choice(ALPHA) for _ in range(r.randrange(0, 6)))
            room = 8 - len(base)
            j1 = r.randrange(0, room)
            j2 = r.randrange(j1 + 1, room + 1)
            short, long_ = base + b"\x00" * j1, base + b"\x00" * j2
        elif kind == "zerolink":
            base = bytes([0x80]) + bytes(r.choice(ALPHA) for _ in range(r.randrange(0, 6)))
            j = r.randrange(0, 8 - len(base))
            short = base + b"\x00" * j
            long_ = base + b"\x00" * (8 - len(base)) + bytes(r.choice(ALPHA + [0]) for _ in range(r.choice([1, 3, 8])))
        else:
            short, long_ = bytes([0x80]) + b"k", bytes([0x80]) + b"kz"
        lows, highs = set(), set()
        while len(lows) < 12:
            lows.add(bytes([r.randrange(0x10, 0x80)]) + bytes(r.choice(ALPHA) for _ in range(r.choice([0, 1, 2, 7, 8]))))
        while len(highs) < 12:
            highs.add(bytes([r.randrange(0x90, 0xf0)]) + bytes(r.choice(ALPHA) for _ in range(r.choice([0, 1, 2, 7]))))
        lows, highs = sorted(lows), sorted(highs)
        # which of the pair is already in the node, and at which rank it sits when the node splits
        resident, late = (long_, short) if r.random() < 0.75 else (short, long_)
        nlow = r.choice([8, 8, 8, 8, 7, 9, 6, 10])
        first = r.sample(lows, nlow) + [resident] + r.sample(highs, 14 - nlow)
        r.shuffle(first)
        for k in first:
            self.put(st, pre + k, unique=False)
        self.emit("dump %s" % hx(st))
        self.put(st, pre + late, unique=True)
        self.emit("dump %s" % hx(st))
        everything = [pre + k for k in first + [late]]
        family = [pre + short[:i] for i in range(1, len(short))] + [pre + short + b"\x00" * i for i in range(1, 10)]
        pool = everything + family + [pre + k for k in lows + highs] + ([pre[:8], pre[:3]] if pre else [])
        for k in everything:
            self.get(st, k)
        self.emit("scan %s - F - F 0 0 1" % hx(st))
        self.emit("scan %s - F - F 0 1 1" % hx(st))
        self.put(st, pre + late, unique=True)      # must report the existing entry
        self.put(st, pre + resident, unique=True)
        self.iscan(st, pool)
        for _ in range(3):
            self.scan(st, pool)
        for _ in range(self.nops // 3):
            x = r.random()
            k = r.choice(pool)
            if x < 0.45:
                self.put(st, k)
            elif x < 0.70:
                live = sorted(self.live[st])
                self.remove(st, r.choice(live) if live and r.random() < 0.8 else k)
            elif x < 0.85:
                self.get(st, k)
            elif x < 0.95:
                self.scan(st, pool)
            else:
                self.iscan(st, pool)
        for k in sorted(self.live[st], key=lambda _: r.random()):
            self.remove(st, k)
        self.emit("dump %s" % hx(st))
        for k in everything:
            self.get(st, k)
        for k in sorted(everything, key=lambda _: r.random()):
            self.put(st, k, unique=True)
        self.emit("scan %s - F - F 0 0 1" % hx(st))
        self.emit("mem %s" % hx(st))
        self.emit("leave s")
        self.emit("sleep 60")
        self.emit("balance strict")
        self.emit("fin")
        return self.out

    def run_isplitpoint(self):
        """A full interior node (16 borders of 8 keys after an ascending fill) gets a 17th child from
        a border split whose new separator and the interior node's pivot (separator 7) agree on all
        compared bytes and differ in length only: the side of the pending (separator, child) pair
        in interior_split then depends on the length tie-break alone."""
        r = self.r
        self.emit("init")
        self.emit("enter s")
        st = b"a"
        self.emit("create %s" % hx(st))
        self.storages.append(st)
        self.live[st] = set()
        pre = bytes(r.choice(ALPHA) for _ in range(8)) if r.random() < 0.3 else b""
        kind = r.choice(["prefix1", "prefix1", "prefix0", "control"])
        tail = {"prefix1": bytes([0x80]), "prefix0": bytes([0x00, 0x80]), "control": bytes([0x80])}[kind]
        base = [bytes([0x20 + j]) + tail for j in range(128)]
        for k in base:
            self.put(st, pre + k, unique=False, info="none")
        self.emit("dump %s" % hx(st))
        head = bytes([0x60]) + tail[:-1]              # a proper prefix of the pivot  60 [00] 80
        if kind == "control":
            new = [bytes([0x5f, 0x80, t]) for t in range(1, 9)]
        else:
            new = [head] + [head + bytes([t]) for t in r.sample(range(1, 0x7f), 7)]
        if r.random() < 0.5:
            r.shuffle(new)
        for k in new:
            self.put(st, pre + k, unique=True, info="new")
        self.emit("dump %s" % hx(st))
        everything = [pre + k for k in base + new]
        for k in r.sample(everything, 40) + [pre + bytes([0x60]) + tail, pre + head]:
            self.get(st, k)
        self.emit("scan %s - F - F 0 0 1" % hx(st))
        for k in r.sample(everything, 12):
            self.put(st, k, unique=True, info="none")      # must report the existing entries
        self.iscan(st, everything)
        for k in sorted(self.live[st], key=lambda _: r.random())[:60]:
            self.remove(st, k)
        self.emit("scan %s - F - F 0 0 1" % hx(st))
        self.emit("mem %s" % hx(st))
        self.emit("leave s")
        self.emit("sleep 60")
        self.emit("balance strict")
        self.emit("fin")
        return self.out

    def run(self):
        if self.profile == "cycles":
            return self.run_cycles()
        if self.profile == "isplitpoint":
            return self.run_isplitpoint()
        if self.profile == "splitpoint":
            return self.run_splitpoint()
        r = self.r
        self.emit("init")
        self.emit("enter s")
        names = [b"a"]
        if self.profile in ("mixed", "binary"):
            names = [b"a", b"", b"ab", b"storage_name_longer_than_8", b"\x00\xff"]
        for n in names:
            self.emit("create %s" % hx(n))
            self.storages.append(n)
            self.live[n] = set()
        pool = self.key_pool()
        st = self.storages[0]
        budget = self.nops
        p = self.profile
        if p in ("fanout", "drain", "big", "prefixfan"):
            order = list(pool)
            mode = r.choice(["asc", "desc", "shuf"])
            if mode == "desc":
                order.reverse()
            elif mode == "shuf":
                r.shuffle(order)
            for k in order:
                self.put(st, k, unique=False)
            self.emit("mem %s" % hx(st))
            for _ in range(3):
                self.flip(st)
            for _ in range(6):
                self.scan(st, pool)
            for _ in range(4):
                self.phantom(st, pool)
            self.iscan(st, pool)
            live = sorted(self.live[st])
            dm = r.choice(["left", "right", "middle", "random", "stride"])
            if dm == "right":
                live.reverse()
            elif dm == "middle":
                mid = len(live) // 2
                live = sorted(live, key=lambda k: abs(sorted(self.live[st]).index(k) - mid))
            elif dm == "random":
                r.shuffle(live)
            elif dm == "stride":
                live = live[::2] + live[1::2]
            keep = 0 if r.random() < 0.5 else r.randrange(len(live))
            for i, k in enumerate(live[: len(live) - keep]):
                self.remove(st, k)
                if i % 37 == 5:
                    self.scan(st, pool)
                    self.get(st, r.choice(pool))
            self.emit("mem %s" % hx(st))
            for _ in range(4):
                self.scan(st, pool)
            self.iscan(st, pool)
            # refill in another order
            order = list(pool)
            r.shuffle(order)
            for k in order[: len(order) // 2]:
                self.put(st, k)
            self.emit("mem %s" % hx(st))
            for _ in range(4):
                self.scan(st, pool)
        else:
            for _ in range(budget):
                st = r.choice(self.storages)
                x = r.random()
                if x < 0.40:
                    self.put(st, r.choice(pool))
                elif x < 0.58:
                    live = list(self.live.get(st, []))
                    k = r.choice(live) if live and r.random() < 0.8 else r.choice(pool)
                    self.remove(st, k)
                elif x < 0.70:
                    self.get(st, r.choice(pool))
                elif x < 0.80:
                    self.scan(st, pool)
                elif x < 0.86:
                    self.phantom(st, pool)
                elif x < 0.92:
                    self.iscan(st, pool)
                elif x < 0.93:
                    self.emit("mem %s" % hx(st))
                elif x < 0.94:
                    self.flip(st)
                elif x < 0.96:
                    # storage churn
                    n = r.choice(names + [b"zz", b"a\x00"])
                    if n in self.storages and len(self.storages) > 1 and r.random() < 0.5:
                        self.emit("delete %s" % hx(n))
                        self.storages.remove(n)
                        self.live.pop(n, None)
                    else:
                        self.emit("create %s" % hx(n))
                        if n not in self.storages:
                            self.storages.append(n)
                            self.live[n] = set()
                    self.emit("list")
                elif x < 0.97:
                    self.emit("find %s" % hx(r.choice(names + [b"nope"])))
                elif x < 0.98:
                    # data ops on an unknown storage
                    self.emit("get %s %s 1" % (hx(b"nope"), hx(r.choice(pool))))
                    self.emit("put s %s %s 00 1 0 new" % (hx(b"nope"), hx(r.choice(pool))))
                    self.emit("remove s %s %s" % (hx(b"nope"), hx(r.choice(pool))))
                    self.emit("scan %s - F - F 0 0 1" % hx(b"nope"))
                else:
                    # drain a storage completely, then reuse it
                    for k in sorted(self.live.get(st, []), key=lambda _: r.random()):
                        self.remove(st, k)
                    self.scan(st, pool)
                    self.iscan(st, pool)
            for st in self.storages:
                self.emit("mem %s" % hx(st))
                self.scan(st, pool)
        self.emit("list")
        self.emit("leave s")
        self.emit("sleep 60")
        self.emit("balance strict")
        self.emit("fin")
        return self.out


def main():
    ap = argparse.ArgumentParser()
    ap.add_argument("--seed", type=int, default=0)
    ap.add_argument("--profile", default="mixed")
    ap.add_argument("--ops", type=int, default=200)
    a = ap.parse_args()
    g = Gen(a.seed, a.profile, a.ops)
    sys.stdout.write("\n".join(g.run()) + "\n")


if __name__ == "__main__":
    main()
