#!/usr/bin/env python3
"""Development aid (not a registered check): confirm a seeded change and run the checks against it.

  eval_mutant.py confirm <name> <patch> <demo.cpp>     in a scratch worktree under /tmp: patch applies,
        the suite builds (-Werror) and passes, the demo passes without and fails with the change
  eval_mutant.py detect <name> <patch> <prop> [<prop>…] apply the patch to /repo, run the quick checks,
        undo (git checkout), report which checks raise a VIOLATION
Results are appended to /verif/seeded/<name>/meta.json.
"""
import json
import os
import shutil
import subprocess
import sys
import time

VERIF = os.path.dirname(os.path.dirname(os.path.abspath(__file__)))
REPO = "/repo"


def sh(cmd, **kw):
    return subprocess.run(cmd, shell=isinstance(cmd, str), capture_output=True, text=True, **kw)


def meta_path(name):
    d = os.path.join(VERIF, "seeded", name)
    os.makedirs(d, exist_ok=True)
    return os.path.join(d, "meta.json")


def load_meta(name):
    p = meta_path(name)
    return json.load(open(p)) if os.path.exists(p) else {"name": name}


def save_meta(name, m):
    json.dump(m, open(meta_path(name), "w"), indent=1)


def confirm(name, patch, demo):
    wt = "/tmp/mutcheck_" + name
    sh("git -C %s worktree remove --force %s" % (REPO, wt))
    r = sh("git -C %s worktree add -q --detach %s HEAD" % (REPO, wt))
    out = {"when": time.strftime("%F %T")}
    try:
        # googletest sources are a submodule that is empty in a fresh worktree
        if not os.listdir(os.path.join(wt, "third_party", "googletest")):
            shutil.rmtree(os.path.join(wt, "third_party", "googletest"))
            shutil.copytree(os.path.join(REPO, "third_party", "googletest"), os.path.join(wt, "third_party", "googletest"))
        demo_base = "/tmp/mutcheck_%s_demo" % name
        inc = "-I%s/include -DYAKUSHIMA_EPOCH_TIME=10 -DYAKUSHIMA_MAX_PARALLEL_SESSIONS=16 -DYAKUSHIMA_LINUX" % wt
        # DEMO_ASAN=1: the demonstration needs AddressSanitizer; DEMO_DEFS: extra compile flags the agent's README asks for
        san = "-fsanitize=address" if os.environ.get("DEMO_ASAN") else ""
        san += " " + os.environ.get("DEMO_DEFS", "")
        cc = "g++ -std=c++17 -O1 -g %s %s %s -o %s -lglog -ltbb -lpthread" % (san, inc, demo, demo_base)
        out["demo_flags"] = san.strip()
        r = sh(cc)
        out["demo_compiles_clean"] = r.returncode == 0
        if r.returncode == 0:
            rr = sh("timeout 120 " + demo_base)
            out["demo_exit_without_change"] = rr.returncode
        r = sh("git -C %s apply %s" % (wt, patch))
        out["patch_applies"] = r.returncode == 0
        if r.returncode != 0:
            out["error"] = r.stderr[-500:]
            return out
        r = sh(cc)
        out["demo_compiles_with_change"] = r.returncode == 0
        if r.returncode == 0:
            codes = []
            for _ in range(3):
                rr = sh("timeout 120 " + demo_base)
                codes.append(rr.returncode)
            out["demo_exit_with_change"] = codes
        b = wt + "/_b"
        r = sh("cmake -G Ninja -S %s -B %s -DCMAKE_BUILD_TYPE=RelWithDebInfo -DBUILD_BENCHMARK=OFF -DBUILD_DOCUMENTS=OFF" % (wt, b))
        r = sh("cmake --build %s -- -k 0 -j12" % b)
        log = r.stdout + r.stderr
        failed_compile = [l for l in log.splitlines() if l.startswith("FAILED:")]
        out["build_failures"] = [l[:160] for l in failed_compile]
        r = sh("ctest --test-dir %s -j8 --timeout 600" % b)
        tail = r.stdout[-1500:]
        out["ctest_summary"] = [l for l in tail.splitlines() if "tests passed" in l or l.strip().startswith(tuple("0123456789")) and " - " in l]
    finally:
        sh("git -C %s worktree remove --force %s" % (REPO, wt))
        for f in ("/tmp/mutcheck_%s_demo" % name,):
            if os.path.exists(f):
                os.remove(f)
    return out


def detect(name, patch, props):
    st = sh("git -C %s status --porcelain --untracked-files=no" % REPO).stdout.strip()
    if st:
        print("refusing: /repo has uncommitted changes:\n" + st)
        sys.exit(2)
    r = sh("git -C %s apply %s" % (REPO, patch))
    if r.returncode != 0:
        print("patch does not apply to /repo: " + r.stderr)
        sys.exit(2)
    res = {}
    try:
        for p in props:
            t0 = time.time()
            rr = sh([sys.executable, os.path.join(VERIF, "tools", "check.py"), p, "--tier", "quick"], cwd=VERIF)
            lines = [l for l in rr.stdout.splitlines() if l.startswith("VIOLATION") or l.startswith("OK") or l.startswith("KNOWN")]
            detail = ""
            for l in lines:
                if l.startswith("VIOLATION"):
                    path = l.split("replay=")[1].split()[0]
                    try:
                        d = json.load(open(path))
                        detail = (str(d.get("kind", "")) + ": " + str(d.get("detail", d.get("first_differences", d.get("problems", "")))))[:400]
                    except Exception:
                        pass
            res[p] = {"exit": rr.returncode, "lines": lines, "detail": detail, "wall_s": round(time.time() - t0, 1)}
            print(p, rr.returncode, lines[:1], detail[:200])
    finally:
        sh("git -C %s checkout -- ." % REPO)
        # replays written while the change was applied are not evidence of anything on the clean tree
        for f in os.listdir(os.path.join(VERIF, "replays")):
            os.remove(os.path.join(VERIF, "replays", f))
    return res


def main():
    mode, name, patch = sys.argv[1], sys.argv[2], sys.argv[3]
    # the long operation first, then read-modify-write of meta.json (another job may have written meanwhile)
    if mode == "confirm":
        c = confirm(name, patch, sys.argv[4])
        m = load_meta(name)
        m["confirmation"] = c
        print(json.dumps(c, indent=1))
    else:
        d = detect(name, patch, sys.argv[4:])
        m = load_meta(name)
        m.setdefault("detection", {}).update(d)
    save_meta(name, m)


if __name__ == "__main__":
    main()
