#!/usr/bin/env python3
"""Development aid: run scheduler workloads of one kind and summarise the failure classes.
  dbg_sched.py <prop> <kind> <first_seed> <count> [runs]"""
import json
import os
import sys
sys.path.insert(0, os.path.dirname(os.path.abspath(__file__)))
import check  # noqa: E402
import schedeng  # noqa: E402
import vlib  # noqa: E402

prop, kind, s0, cnt = sys.argv[1], sys.argv[2], int(sys.argv[3]), int(sys.argv[4])
runs = int(sys.argv[5]) if len(sys.argv) > 5 else 30
spec = check.SCHED[prop]
binary, err = vlib.build_harness("scheddrv", schedeng.SCHED_DEFINES)


def one(sd):
    text, pre, meta = schedeng.make_workload(sd, kind)
    pol = ["random", "pct", "sticky", "pct"][sd % 4]
    rc, out, err2 = schedeng.run_workload(binary, text, runs, sd * 100, pol, trace=bool(spec.get("trace")))
    res = check.sched_analyse(spec, out, rc, err2, pre, {"nruns": 0, "steps": 0, "ops": 0, "fails": [], "acq": 0, "mon": {}})
    return sd, text, pre, res, pol


seen = {}
for sd, text, pre, res, pol in vlib.pmap(one, list(range(s0, s0 + cnt))):
    for cls, msg, sch in res["fails"]:
        key = cls + ":" + msg[:60]
        seen.setdefault(key, []).append(sd)
        if len(seen[key]) == 1:
            path = os.path.join(vlib.CACHE, "dbg_%s_%s_%d.json" % (prop, cls, sd))
            json.dump({"property": prop, "kind": cls, "detail": msg, "workload": text, "schedule": sch,
                       "pre": {k.hex(): v for k, v in pre.items()}, "policy": pol, "seed": sd * 100}, open(path, "w"), indent=1)
            print("first", key, "->", path)
for k, v in seen.items():
    print(len(v), k, v[:12])
