#!/usr/bin/env python3
"""Development aid: markdown table of /verif/seeded/*/meta.json for DESIGN.md §7."""
import glob
import json
import os

VERIF = os.path.dirname(os.path.dirname(os.path.abspath(__file__)))
print("| change | property | what it does | caught by (quick tier, seed 1) | confirmed | history |")
print("|---|---|---|---|---|---|")
for p in sorted(glob.glob(os.path.join(VERIF, "seeded", "*", "meta.json"))):
    m = json.load(open(p))
    det = []
    for prop, d in sorted(m.get("detection", {}).items()):
        if d.get("exit") == 1:
            kind = (d.get("detail") or "").split(":")[0][:60] or "model difference"
            det.append("%s (%s)" % (prop, kind))
        else:
            det.append("%s: not caught" % prop)
    c = m.get("confirmation", {})
    conf = "yes" if c.get("demo_exit_without_change") == 0 and c.get("demo_exit_with_change") and all(x != 0 for x in c["demo_exit_with_change"]) and c.get("patch_applies") else ("pending" if not c else "see meta.json")
    print("| %s | %s | %s | %s | %s | %s |" % (m.get("name"), m.get("property", ""), m.get("change", "").replace("|", "/"), "; ".join(det), conf, m.get("history", "caught as delivered")))
