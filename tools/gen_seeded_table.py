#!/usr/bin/env python3
"""Development aid: (re)writes the table of DESIGN.md §7 from /verif/seeded/*/meta.json
(between the markers <!-- seeded-table-begin --> and <!-- seeded-table-end -->)."""
import glob
import json
import os
import re

VERIF = os.path.dirname(os.path.dirname(os.path.abspath(__file__)))


def short(detail):
    d = detail or ""
    m = re.match(r"the implementation's answer contradicts the property \(reference oracle\): (\w+) at op", d)
    if m:
        return "reference oracle, class `%s`" % m.group(1)
    if d.startswith("the harness crashed or timed out"):
        return "harness crash / hang (sanitizer or timeout)"
    if d.startswith("correspondence broken"):
        return "model difference"
    if d.startswith(": ['DIFF") or d.startswith(": [\"DIFF"):
        return "bit-level difference to the Lean model"
    if "runtime error" in d or "AddressSanitizer" in d:
        return "sanitizer report in the harness"
    head = d.split(":")[0].strip()
    return ("history oracle, class `%s`" % head) if head and len(head) < 30 else "model difference"


rows = ["| change | what it does | caught by (quick tier, seed 1) | confirmed | history |", "|---|---|---|---|---|"]
ncaught = ntotal = 0
for p in sorted(glob.glob(os.path.join(VERIF, "seeded", "*", "meta.json"))):
    m = json.load(open(p))
    own = m.get("property", m.get("name", "")[:3])
    det = []
    caught_own = False
    for prop, d in sorted(m.get("detection", {}).items()):
        if d.get("exit") == 1 and d.get("lines"):
            det.append("%s: %s" % (prop, short(d.get("detail"))))
            caught_own = caught_own or prop == own
        elif d.get("exit") == 0:
            det.append("%s: not caught" % prop)
    ntotal += 1
    ncaught += caught_own
    c = m.get("confirmation", {})
    if not c:
        conf = "pending"
    elif c.get("patch_applies") and c.get("demo_exit_without_change") == 0 and c.get("demo_exit_with_change") and all(x != 0 for x in c["demo_exit_with_change"]) \
            and any("tests passed" in l and ("99%" in l or "100%" in l) for l in c.get("ctest_summary", [])):
        conf = "yes"
    else:
        conf = "see meta.json"
    rows.append("| %s | %s | %s | %s | %s |" % (m.get("name"), m.get("change", "").replace("|", "/"), "; ".join(det) or "—", conf, m.get("history", "caught as delivered")))
rows.append("")
rows.append("%d of %d seeded changes are caught by the check of the property they were written against. The others: C05_m3 is a concurrency-only change delivered against the sequential property C05 (C06 catches it); C13_m3 became harmless through the D14 repair (see its history)." % (ncaught, ntotal))
table = "\n".join(rows)
path = os.path.join(VERIF, "DESIGN.md")
s = open(path).read()
b, e = "<!-- seeded-table-begin -->", "<!-- seeded-table-end -->"
if b in s:
    s = s[:s.index(b) + len(b)] + "\n" + table + "\n" + s[s.index(e):]
    open(path, "w").write(s)
    print("table written: %d rows" % ntotal)
else:
    print(table)
