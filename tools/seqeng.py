"""Sequential engine: generate op sequences, run seqdrv (real code), check the transcript with the
Lean model (`yakmodel seq`) and — independently of the model — with a Python reference (plain
dict + sorted list) that encodes the properties' own wording. Shrinks failing sequences."""
import os
import subprocess
import sys
import time

import vlib

GEN = os.path.join(vlib.HERE, "gen_seq.py")
SEQ_DEFINES = {"YAKUSHIMA_EPOCH_TIME": "2", "YAKUSHIMA_MAX_PARALLEL_SESSIONS": "8"}


def fnv(b):
    h = 14695981039346656037
    for x in b:
        h ^= x
        h = (h * 1099511628211) & 0xFFFFFFFFFFFFFFFF
    return h


def unhex(s):
    return b"" if s == "-" else bytes.fromhex(s)


def hx(b):
    return b.hex() if b else "-"


def valstr(v):
    return "%d:%x" % (len(v), fnv(v))


def gen_ops(seed, profile, nops):
    r = vlib.sh([sys.executable, GEN, "--seed", str(seed), "--profile", profile, "--ops", str(nops)])
    return r.stdout.splitlines()


def run_impl(binary, ops, timeout=None):
    """returns (transcript lines, returncode, stderr tail)"""
    if timeout is None:
        # generous for the sanitized build on a loaded machine (a dump follows every mutation, so long
        # sequences are quadratic); a hang is still a result, it just takes this long to report
        timeout = 300 + len(ops) // 2
    try:
        p = subprocess.run([binary, "--autodump"], input="\n".join(ops) + "\n", capture_output=True, text=True,
                           timeout=timeout)
    except subprocess.TimeoutExpired as e:
        out = e.stdout.decode() if isinstance(e.stdout, bytes) else (e.stdout or "")
        return out.splitlines(), -999, "timeout after %ds" % timeout
    return p.stdout.splitlines(), p.returncode, p.stderr[-3000:]


def run_model(transcript, cfg="fixed", focus=()):
    p = subprocess.run([vlib.YAKMODEL, "seq", cfg] + list(focus), input="\n".join(transcript) + "\n",
                       capture_output=True, text=True)
    diffs = [l for l in p.stdout.splitlines() if l.startswith("DIFF")]
    stats = {}
    for l in p.stdout.splitlines():
        if l.startswith("STATS"):
            for kv in l.split()[1:]:
                k, _, v = kv.partition("=")
                try:
                    stats[k] = int(v)
                except ValueError:
                    pass
    return diffs, stats, p.returncode


# ---------------------------------------------------------------- reference oracle
def in_interval(k, lk, le, rk, re_):
    if le == "I" and k < lk:
        return False
    if le == "E" and k <= lk:
        return False
    if re_ == "I" and k > rk:
        return False
    if re_ == "E" and k >= rk:
        return False
    return True


def range_ok(lk, le, rk, re_):
    if re_ == "F":
        return True
    if le == "F":
        return not (re_ == "E" and rk == b"")
    if lk < rk:
        return True
    if lk > rk:
        return False
    return le == "I" and re_ == "I"


class Ref:
    """what the properties say, on plain Python data"""

    def __init__(self):
        self.st = {}
        self.cur = {}
        self.fail = []   # (class, opno, message)
        self.opno = 0
        self.sessions = set()
        self.counts = {}

    def expect(self, cls, exp, got):
        self.counts[cls] = self.counts.get(cls, 0) + 1
        if exp != got:
            self.fail.append((cls, self.opno, "reference=%s impl=%s" % (exp[:300], got[:300])))

    def feed(self, op, res):
        self.opno += 1
        w = op.split()
        o = w[0]
        if res in ("no-session", "no-cursor", "bad-op"):
            return      # harness-level refusal (e.g. in a shrunk sequence): nothing reached the library
        if o == "fin" and res != "ok":
            self.counts["balance"] = self.counts.get("balance", 0) + 1
            self.fail.append(("balance", self.opno, "library-owned memory survives fin(): " + res))
        if o in ("init", "fin"):
            self.st, self.cur = {}, {}
            self.sessions = set()
            self.last_epoch = None
            if o == "init":
                self.cycle = getattr(self, "cycle", 0) + 1
        elif o == "epoch":
            e = int(res.split()[0])
            self.counts["cycle"] = self.counts.get("cycle", 0) + 1
            if getattr(self, "last_epoch", None) is not None and getattr(self, "slept", 0) >= 20 and not self.sessions:
                if e - self.last_epoch < 2:
                    self.fail.append(("cycle", self.opno, "cycle %d: the epoch advanced by %d during a %d ms sleep (period 2 ms)" % (self.cycle, e - self.last_epoch, self.slept)))
            self.last_epoch = e if not self.sessions else None
            self.slept = 0
        elif o == "sleep":
            self.slept = getattr(self, "slept", 0) + int(w[1])
        elif o == "destroy":
            self.st, self.cur = {}, {}
        elif o == "create":
            n = unhex(w[1])
            if n in self.st:
                self.expect("storage", "WARN_UNIQUE_RESTRICTION", res)
            else:
                self.st[n] = {}
                self.expect("storage", "OK", res)
        elif o == "delete":
            n = unhex(w[1])
            if n in self.st:
                del self.st[n]
                self.expect("storage", "OK", res)
            else:
                self.expect("storage", "WARN_NOT_EXIST", res)
        elif o == "find":
            self.expect("storage", "OK" if unhex(w[1]) in self.st else "WARN_NOT_EXIST", res)
        elif o == "list":
            names = sorted(self.st)
            if not names:
                self.expect("storage", "WARN_NOT_EXIST 0", res)
            else:
                self.expect("storage", "OK %d %s" % (len(names), " ".join(hx(n) for n in names)), res)
        elif o == "enter":
            if w[1] in self.sessions:
                pass
            elif len(self.sessions) < 8:
                self.sessions.add(w[1])
                self.expect("session", "OK", res)
            else:
                self.expect("session", "WARN_MAX_SESSIONS", res)
        elif o == "leave":
            if w[1] in self.sessions:
                self.sessions.discard(w[1])
                self.expect("session", "OK", res)
        elif o == "flipcheck":
            self.counts["vchg"] = self.counts.get("vchg", 0) + 1
            if res != "absent" and not res.endswith("vchg ok"):
                self.fail.append(("vchg", self.opno, "an overwrite that only changes the value's representation moved a node version: " + res))
        elif o == "nvcheck":
            self.counts["phantom"] = self.counts.get("phantom", 0) + 1
            if not res.startswith("stale 1"):
                self.fail.append(("phantom", self.opno, "an insert into the interval the read covered left every collected (version,node) pair fresh: " + res))
        elif o == "put":
            n, k, v, uniq = unhex(w[2]), unhex(w[3]), unhex(w[4]), w[6] == "1"
            got = res.split(" mod ")[0]
            if " vchg " in res:
                self.counts["vchg"] = self.counts.get("vchg", 0) + 1
                if " vchg ok" not in res:
                    self.fail.append(("vchg", self.opno, "the border nodes whose version changed are not exactly the reported ones: " + res))
            if n not in self.st:
                self.expect("storage", "WARN_STORAGE_NOT_EXIST", got)
            elif uniq and k in self.st[n]:
                self.expect("kv", "WARN_UNIQUE_RESTRICTION", got)
            else:
                self.st[n][k] = v
                self.expect("kv", "OK cvp 1", got)
        elif o == "get":
            n, k = unhex(w[1]), unhex(w[2])
            got = res.split(" nv ")[0]
            if n not in self.st:
                self.expect("storage", "WARN_STORAGE_NOT_EXIST", got)
            elif k in self.st[n]:
                self.expect("kv", "OK " + valstr(self.st[n][k]), got)
            else:
                self.expect("kv", "WARN_NOT_EXIST", got)
                if w[3] == "1" and res.endswith(" nv -"):
                    self.fail.append(("getnv", self.opno, "miss reported no node although the storage exists"))
        elif o == "remove":
            n, k = unhex(w[2]), unhex(w[3])
            if n not in self.st:
                self.expect("storage", "WARN_STORAGE_NOT_EXIST", res)
            elif k in self.st[n]:
                del self.st[n][k]
                self.expect("kv", "OK", res)
            else:
                self.expect("kv", "OK_NOT_FOUND", res)
        elif o == "scan":
            n, lk, le, rk, re_, mx, r2l, nodes = unhex(w[1]), unhex(w[2]), w[3], unhex(w[4]), w[5], int(w[6]), w[7] == "1", w[8] == "1"
            got = res.split(" nv ")[0]
            if n not in self.st:
                # the by-name overload looks the storage up before it validates the range
                self.expect("storage", "WARN_STORAGE_NOT_EXIST 0", got)
            elif not range_ok(lk, le, rk, re_) or (r2l and (re_ != "F" or mx != 1)):
                self.expect("scan", "ERR_BAD_USAGE 0", got)
            else:
                keys = [k for k in sorted(self.st[n]) if in_interval(k, lk, le, rk, re_)]
                if r2l:
                    keys = keys[-1:]
                elif mx:
                    keys = keys[:mx]
                exp = "OK %d" % len(keys) + "".join(" %s=%s" % (hx(k), valstr(self.st[n][k])) for k in keys)
                self.expect("scan", exp, got)
                if nodes and res.endswith(" nv 0"):
                    self.fail.append(("scannv", self.opno, "node-version set is empty for an existing storage"))
        elif o == "iopen":
            c, n, lk, le, rk, re_, r2l = w[1], unhex(w[2]), unhex(w[3]), w[4], unhex(w[5]), w[6], w[7] == "1"
            got = res.split(" cb ")[0]
            self.cur.pop(c, None)
            if not range_ok(lk, le, rk, re_):
                self.expect("iscan", "ERR_BAD_USAGE", got)
            elif n not in self.st:
                self.expect("storage", "WARN_STORAGE_NOT_EXIST", got)
            else:
                if le == "F":
                    lk, le = b"", "I"
                self.cur[c] = [n, lk, le, rk, re_, r2l, None]
                self.inext(c, got)
        elif o == "inext":
            got = res.split(" cb ")[0]
            if w[1] in self.cur:
                self.inext(w[1], got)
        elif o == "iclose":
            self.cur.pop(w[1], None)
        elif o == "mem":
            a, _, b = res.partition(" walker ")
            self.counts["mem"] = self.counts.get("mem", 0) + 1
            if a != b:
                self.fail.append(("mem", self.opno, "mem_usage %s differs from an independent walk %s" % (a, b)))
            else:
                rows = [tuple(int(x) for x in r.split(",")) for r in a.split()[1:]]
                for cnt, used, resv in rows:
                    if used > resv:
                        self.fail.append(("mem", self.opno, "used > reserved: %s" % a))
        elif o == "balance":
            w2 = res.split()
            self.counts["balance"] = self.counts.get("balance", 0) + 1
            if len(w2) >= 8 and w2[7] != "0":
                self.fail.append(("balance", self.opno, res))
            elif "strict" in op and len(w2) >= 6 and (w2[1] != w2[4] or w2[2] != w2[5]):
                self.fail.append(("balance", self.opno, "live allocations differ from reachable objects: " + res))

    def inext(self, c, got):
        n, lk, le, rk, re_, r2l, last = self.cur[c]
        if n not in self.st:
            return
        keys = [k for k in sorted(self.st[n]) if in_interval(k, lk, le, rk, re_)]
        if r2l:
            keys = [k for k in keys if last is None or k < last]
            nxt = keys[-1] if keys else None
        else:
            keys = [k for k in keys if last is None or k > last]
            nxt = keys[0] if keys else None
        if nxt is None:
            self.expect("iscan", "OK_SCAN_END", got)
        else:
            self.cur[c][6] = nxt
            self.expect("iscan", "OK %s=%s" % (hx(nxt), valstr(self.st[n][nxt])), got)


def reference_check(transcript):
    ref = Ref()
    op = None
    for l in transcript:
        if l.startswith("> "):
            op = l[2:]
        elif l.startswith("< ") and op is not None:
            ref.feed(op, l[2:])
            op = None
        elif l.startswith("WALKERR"):
            ref.fail.append(("walker", ref.opno, l))
    return ref


# ---------------------------------------------------------------- one case
def run_case(binary, ops, cfg, focus, classes):
    """returns dict(kind ∈ ok|oracle|model|crash, detail, stats, refcounts)"""
    tr, rc, err = run_impl(binary, ops)
    if rc != 0:
        return {"kind": "crash", "detail": "seqdrv exit %d: %s" % (rc, vlib.crash_excerpt(err)), "stats": {}, "refcounts": {}, "nlines": len(tr)}
    ref = reference_check(tr)
    rf = [f for f in ref.fail if f[0] in classes]
    diffs, stats, mrc = run_model(tr, cfg, focus)
    if rf:
        return {"kind": "oracle", "detail": "%s at op %d: %s" % rf[0], "stats": stats, "refcounts": ref.counts, "cls": rf[0][0]}
    if diffs:
        return {"kind": "model", "detail": diffs[0][:600], "stats": stats, "refcounts": ref.counts}
    return {"kind": "ok", "detail": "", "stats": stats, "refcounts": ref.counts}


def fail_key(r):
    """identity of a failure for shrinking: kind + class + the text of the difference up to the data"""
    d = r.get("detail", "")
    cls = r.get("cls", "")
    if r["kind"] == "model" and "class " in d:
        cls = d.split("class ", 1)[1].split()[0]
    shape = ""
    if "reference=" in d:
        shape = d.split("reference=", 1)[1].split()[0] + "/" + (d.split("impl=", 1)[1].split()[0] if "impl=" in d else "")
    return (r["kind"], cls, shape)


def shrink(binary, ops, cfg, focus, classes, kind, budget_s=120):
    """delta debugging on the op list: keep the same failure (kind, class, statuses)"""
    t0 = time.time()
    target = fail_key(run_case(binary, ops, cfg, focus, classes))

    def bad(cand):
        r = run_case(binary, cand, cfg, focus, classes)
        return r["kind"] == kind and fail_key(r) == target

    head = [o for o in ops if o.split()[0] in ("init", "enter", "create")][:1]
    cur = list(ops)
    n = 2
    while len(cur) > 3 and time.time() - t0 < budget_s:
        chunk = max(1, len(cur) // n)
        reduced = False
        for i in range(0, len(cur), chunk):
            cand = cur[:i] + [o for o in cur[i:i + chunk] if o.split()[0] in ("init", "enter", "fin")] + cur[i + chunk:]
            if len(cand) == len(cur) or not cand or cand[0] != "init":
                continue
            if bad(cand):
                cur = cand
                n = max(n - 1, 2)
                reduced = True
                break
        if not reduced:
            if chunk == 1:
                break
            n = min(n * 2, len(cur))
    _ = head
    return cur
