#!/usr/bin/env python3
"""Regenerate lean/YakModel/Generated/Constants.lean from /repo/include.

Two sources, cross-checked:
  * the source text (regex over the headers): bit-field names/order/widths, key_slice_length,
    nibble widths, split points, pointer flags, minimum alignment, header field widths, initial
    epoch;
  * a compiled probe against the same headers: sizeof()s and the bit position each version-field
    setter actually touches (so a reordered declaration and the ABI agree with the text).
Exit 0 and write the file; exit 2 with a message if something cannot be extracted (a layout the
extractor does not understand must not be silently defaulted).
"""
import os
import re
import subprocess
import sys

REPO = os.environ.get("YAK_REPO", "/repo")
INC = os.path.join(REPO, "include")
HERE = os.path.dirname(os.path.abspath(__file__))
VERIF = os.path.dirname(HERE)
OUT = os.path.join(VERIF, "lean", "YakModel", "Generated", "Constants.lean")
CACHE = os.path.join(VERIF, ".cache")


def die(msg):
    print("extract_constants: " + msg, file=sys.stderr)
    sys.exit(2)


def read(name):
    with open(os.path.join(INC, name)) as f:
        return f.read()


def strip_comments(s):
    s = re.sub(r"/\*.*?\*/", "", s, flags=re.S)
    s = re.sub(r"//[^\n]*", "", s)
    return s


def eval_expr(expr, env):
    expr = expr.strip().rstrip(";")
    expr = re.sub(r"(\d+)U?L?L?\b", r"\1", expr)
    expr = re.sub(r"0b([01]+)", lambda m: str(int(m.group(1), 2)), expr)
    expr = expr.replace("/", "//")
    for k, v in env.items():
        expr = re.sub(r"\b%s\b" % k, str(v), expr)
    if not re.fullmatch(r"[0-9+\-*/()<> ]+", expr):
        die("cannot evaluate expression: " + expr)
    return int(eval(expr))  # arithmetic on literals only, checked by the regex above


def main():
    os.makedirs(CACHE, exist_ok=True)
    version = strip_comments(read("version.h"))
    m = re.search(r"class\s+alignas\(.*?\)\s+node_version64_body\s*\{(.*?)\n\};", version, re.S)
    if not m:
        die("node_version64_body not found")
    body = m.group(1)
    fields = re.findall(r"\b(?:vinsert_delete_type|vsplit_type|std::uint32_t|uint32_t)\s+(\w+)\s*:\s*(\d+)\s*;", body)
    fields = [(n, int(w)) for n, w in fields]
    names = [n for n, _ in fields]
    expect = ["vinsert_delete", "locked", "inserting_deleting", "splitting", "vsplit", "deleted", "root", "border"]
    if sorted(names) != sorted(expect):
        die("unexpected version fields: %r" % names)
    if sum(w for _, w in fields) != 64:
        die("version fields do not add up to 64 bits: %r" % fields)
    off = {}
    pos = 0
    for n, w in fields:
        off[n] = pos
        pos += w
    width = dict(fields)

    scheme = strip_comments(read("scheme.h"))
    m = re.search(r"key_slice_length\s*=\s*(\d+)\s*;", scheme)
    if not m:
        die("key_slice_length not found")
    ksl = int(m.group(1))
    env = {"key_slice_length": ksl}

    perm = strip_comments(read("permutation.h"))
    def const(txt, name):
        mm = re.search(r"\b%s\s*=\s*([^;]+);" % name, txt)
        if not mm:
            die(name + " not found")
        return eval_expr(mm.group(1), env)
    cnk_mask = const(perm, "cnk_mask")
    cnk_bits = const(perm, "cnk_bit_size")
    pkey_bits = const(perm, "pkey_bit_size")

    bh = strip_comments(read("border_helper.h"))
    mm = re.search(r"remaining_size\s*=\s*([^;]+);", bh)
    if not mm:
        die("remaining_size not found")
    remaining = eval_expr(mm.group(1), env)
    ih = strip_comments(read("interior_helper.h"))
    mm = re.search(r"pivot_key_pos\s*=\s*([^;]+);", ih)
    if not mm:
        die("pivot_key_pos not found")
    pivot = eval_expr(mm.group(1), env)

    lv = strip_comments(read("link_or_value.h"))
    child_flag = const(lv, "kChildFlag")
    valptr_flag = const(lv, "kValPtrFlag")
    val = strip_comments(read("value.h"))
    valptr_flag2 = const(val, "kValPtrFlag")
    if valptr_flag != valptr_flag2:
        die("kValPtrFlag differs between link_or_value.h and value.h")
    def bitpos(x, what):
        if x <= 0 or x & (x - 1):
            die(what + " is not a single bit")
        return x.bit_length() - 1
    mm = re.search(r"kMinAlignment\s*=\s*static_cast<value_align_type>\((\d+)\)", val)
    if not mm:
        die("kMinAlignment not found")
    min_align = int(mm.group(1))
    mm = re.search(r"std::uint(\d+)_t\s+len_\s*\{", val)
    mm2 = re.search(r"std::uint(\d+)_t\s+align_\s*\{", val)
    if not mm or not mm2:
        die("value header fields not found")
    len_bits, align_bits = int(mm.group(1)), int(mm2.group(1))
    ep = strip_comments(read("epoch.h"))
    mm = re.search(r"epoch_\s*\{\s*(\d+)\s*\}", ep)
    if not mm:
        die("initial epoch not found")
    epoch0 = int(mm.group(1))

    # ---- compiled probe ----
    probe_src = os.path.join(CACHE, "probe.cpp")
    probe_bin = os.path.join(CACHE, "probe")
    with open(probe_src, "w") as f:
        f.write(r'''
#include <cstdio>
#include <cstring>
#include "kvs.h"
using namespace yakushima;
static unsigned long long w(node_version64_body b){unsigned long long x; std::memcpy(&x,&b,8); return x;}
int main(){
  node_version64_body z{}; z.init();
  node_version64_body b;
  b=z; b.set_locked(true); printf("locked %llx\n", w(b));
  b=z; b.set_inserting_deleting(true); printf("inserting_deleting %llx\n", w(b));
  b=z; b.set_splitting(true); printf("splitting %llx\n", w(b));
  b=z; b.set_deleted(true); printf("deleted %llx\n", w(b));
  b=z; b.set_root(true); printf("root %llx\n", w(b));
  b=z; b.set_border(true); printf("border %llx\n", w(b));
  b=z; b.inc_vinsert_delete(); printf("vinsert_delete %llx\n", w(b));
  b=z; b.inc_vsplit(); printf("vsplit %llx\n", w(b));
  printf("sizeof_border %zu\n", sizeof(border_node));
  printf("sizeof_interior %zu\n", sizeof(interior_node));
  printf("sizeof_lv %zu\n", sizeof(link_or_value));
  printf("sizeof_uintptr %zu\n", sizeof(uintptr_t));
  printf("sizeof_slice %zu\n", sizeof(key_slice_type));
  printf("child_length %zu\n", interior_node::child_length);
  return 0;
}
''')
    cmd = ["g++", "-std=c++17", "-O0", "-I" + INC, "-DYAKUSHIMA_LINUX", "-DYAKUSHIMA_EPOCH_TIME=40",
           "-DYAKUSHIMA_MAX_PARALLEL_SESSIONS=8", probe_src, "-o", probe_bin, "-lglog", "-ltbb", "-lpthread"]
    r = subprocess.run(cmd, capture_output=True, text=True)
    if r.returncode != 0:
        die("probe does not compile:\n" + r.stderr[-2000:])
    out = subprocess.run([probe_bin], capture_output=True, text=True).stdout
    probe = {}
    for line in out.splitlines():
        k, v = line.split()
        probe[k] = v
    for n in expect:
        x = int(probe[n], 16)
        if x != (1 << off[n]):
            die("field %s: source text says bit %d, compiled code touches %x" % (n, off[n], x))
    if int(probe["child_length"]) != ksl + 1:
        die("interior child_length is not key_slice_length + 1")

    L = []
    A = L.append
    A("/-")
    A("  GENERATED by /verif/tools/extract_constants.py from /repo/include — do not edit by hand.")
    A("  Every check regenerates this file from the working tree before `lake build`, so the layout")
    A("  theorems are re-checked against what the source says now.")
    A("-/")
    A("namespace Yak.Const")
    A("")
    A("/-- `node_version64_body` bit-fields in declaration order: (name, width). -/")
    A("def versionFields : List (String × Nat) :=")
    A("  [" + ", ".join('("%s", %d)' % (n, w) for n, w in fields) + "]")
    A("")
    A("def vinsertWidth : Nat := %d" % width["vinsert_delete"])
    A("def vsplitWidth : Nat := %d" % width["vsplit"])
    A("def vinsertShift : Nat := %d" % off["vinsert_delete"])
    A("def lockedBit : Nat := %d" % off["locked"])
    A("def insertingBit : Nat := %d" % off["inserting_deleting"])
    A("def splittingBit : Nat := %d" % off["splitting"])
    A("def vsplitShift : Nat := %d" % off["vsplit"])
    A("def deletedBit : Nat := %d" % off["deleted"])
    A("def rootBit : Nat := %d" % off["root"])
    A("def borderBit : Nat := %d" % off["border"])
    A("")
    A("def keySliceLength : Nat := %d" % ksl)
    A("def cnkBits : Nat := %d" % cnk_bits)
    A("def pkeyBits : Nat := %d" % pkey_bits)
    A("def cnkMask : Nat := %d" % cnk_mask)
    A("def borderRemaining : Nat := %d" % remaining)
    A("def interiorPivot : Nat := %d" % pivot)
    A("def childFlagBit : Nat := %d" % bitpos(child_flag, "kChildFlag"))
    A("def valPtrFlagBit : Nat := %d" % bitpos(valptr_flag, "kValPtrFlag"))
    A("def minAlign : Nat := %d" % min_align)
    A("def valueLenBits : Nat := %d" % len_bits)
    A("def valueAlignBits : Nat := %d" % align_bits)
    A("def initialEpoch : Nat := %d" % epoch0)
    A("def sizeofBorder : Nat := %s" % probe["sizeof_border"])
    A("def sizeofInterior : Nat := %s" % probe["sizeof_interior"])
    A("def sizeofLinkOrValue : Nat := %s" % probe["sizeof_lv"])
    A("def sizeofUintptr : Nat := %s" % probe["sizeof_uintptr"])
    A("def sliceBytes : Nat := %s" % probe["sizeof_slice"])
    A("")
    A("end Yak.Const")
    text = "\n".join(L) + "\n"
    old = None
    if os.path.exists(OUT):
        with open(OUT) as f:
            old = f.read()
    if old != text:
        with open(OUT, "w") as f:
            f.write(text)
        print("extract_constants: wrote " + OUT + (" (changed)" if old is not None else ""))
    else:
        print("extract_constants: unchanged")


if __name__ == "__main__":
    main()
