#!/usr/bin/env python3
"""Entry point of every registered check:  python3 tools/check.py Cxx --tier quick|thorough
                                           python3 tools/check.py Cxx --replay <path>
Exit 0: theorems check, correspondence holds, oracles satisfied on everything run.
Exit 1: prints `VIOLATION property=<id> replay=<path>[ no-failing-input-found]`.
"""
import argparse
import json
import os
import subprocess
import sys
import time

sys.path.insert(0, os.path.dirname(os.path.abspath(__file__)))
import hist  # noqa: E402
import schedeng  # noqa: E402
import seqeng  # noqa: E402
import vlib  # noqa: E402

# ---------------------------------------------------------------- property table
UNIT = {
    "C17": dict(what="ver", title="version word"),
    "C19": dict(what="perm", title="permutation word"),
    "C18": dict(what="kt", title="key comparison sites"),
    "C15": dict(what="val", title="value layout and tagging"),
}

# seq properties: generator profiles (profile, ops), the difference classes that count for the
# property (model focus) and the classes of the Python reference that decide a violation
SEQ = {
    "C02": dict(focus=["kv"], classes=["kv"], profiles=["mixed", "binary", "layers", "fanout", "drain", "long", "splitpoint", "prefixfan", "isplitpoint"]),
    "C03": dict(focus=["scan"], classes=["scan"], profiles=["layers", "mixed", "binary", "fanout", "long"]),
    "C05": dict(focus=["scannv", "getnv", "dump", "phantom"], classes=["scannv", "getnv", "phantom"], profiles=["layers", "mixed", "fanout", "binary"]),
    "C08": dict(focus=["dump", "walker", "shape"], classes=["walker", "kv", "scan", "iscan"], profiles=["fanout", "drain", "layers", "mixed", "binary", "splitpoint", "prefixfan", "isplitpoint"]),
    "C10": dict(focus=["iscan"], classes=["iscan"], profiles=["layers", "mixed", "binary", "fanout", "long"]),
    "C11": dict(focus=["balance"], classes=["balance"], profiles=["mixed", "drain", "layers", "long", "cycles"]),
    "C16": dict(focus=["session", "storage", "balance"], classes=["cycle", "session", "storage", "balance", "kv"], profiles=["cycles"]),
    "C12": dict(focus=["putinfo", "dump", "vchg"], classes=["vchg"], profiles=["fanout", "layers", "mixed", "drain"]),
    "C13": dict(focus=["storage"], classes=["storage"], profiles=["mixed", "binary"]),
    "C20": dict(focus=["mem", "dump"], classes=["mem"], profiles=["fanout", "layers", "mixed", "long", "drain"]),
    # the comparison sites of C18 that only run inside a split (side decision, separator choice)
    "C18": dict(focus=["kv", "dump", "walker"], classes=["kv", "scan", "walker"], profiles=["splitpoint", "isplitpoint"]),
}

# concurrent properties: workload kinds for the scheduler harness and the failure classes of
# hist.check_run that count for the property
SCHED = {
    "C01": dict(kinds=["point", "split", "reuse", "overwrite", "rmrace", "toprank"], classes=["nullvalue", "linearizability", "status", "held"]),
    "C04": dict(kinds=["scan", "split", "reuse", "scanedge"], classes=["nullvalue", "linearizability", "order", "status"]),
    "C06": dict(kinds=["nodeset", "scan", "scanedge"], classes=["nodeset"]),
    "C09": dict(kinds=["split", "point", "scan", "cursor", "collapse", "collapse", "collapse", "rmrace"], classes=["progress", "structure", "lockorder"], trace=True, monitor="vers", lockorder=True),
    "C07": dict(kinds=["epoch"], classes=["epoch", "held", "nullvalue", "ledger", "progress"], trace=True, runs_scale=0.4, monitor="epoch"),
    # concurrent clauses of properties whose sequential part is checked by the seq engine
    "C10": dict(kinds=["cursor", "reuse"], classes=["nullvalue", "linearizability", "order", "status"]),
    "C08": dict(kinds=["split", "point"], classes=["structure", "ledger"]),
    "C13": dict(kinds=["storage"], classes=["storage", "structure", "ledger", "progress"]),
    "C11": dict(kinds=["point", "split", "overwrite"], classes=["leak", "ledger"]),
    "C17": dict(kinds=["version"], classes=["mutex", "stable", "versionfinal", "progress"], trace=True, monitor="vers", lockorder=False),
    "C15": dict(kinds=["overwrite"], classes=["nullvalue", "linearizability", "status", "held"]),
}

LEAF_TIE = True
NODESET_TIE = True

ASSUME_SCHED = [
    "sequentially consistent interleavings only (one thread runs between two announced accesses); weak-memory reorderings are not explored",
    "schedules are sampled (seeded random walks over the yield points), not enumerated",
]

ASSUME_SEQ = [
    "the tie between model and /repo is sampled differential correspondence (counts in coverage)",
    "interior nodes are not in the sequential proof model: routing is represented by fences; that interior descent equals fence routing on every dump passing checkLayer is a theorem (C08 interior_descent_matches_fences); splits/merges of interior nodes are covered by the walker + dump comparison",
]


def violation(prop, path, found):
    print("VIOLATION property=%s replay=%s%s" % (prop, path, "" if found else " no-failing-input-found"), flush=True)


def lean_part(prop, tier):
    res = vlib.lean_build_and_audit(prop, thorough=(tier == "thorough"))
    return res


def proof_coverage(prop, lean, extra):
    cov = {
        "obligations": max(lean["obligations"], 1),
        "discharged": lean["discharged"],
        "checker_cmd": "cd /verif/lean && lake build YakProps.%s && lake env lean <#print axioms of every theorem in YakProps/%s.lean>" % (prop, prop),
        "trusted_base": vlib.TRUSTED_BASE,
        "theorems": sorted(lean["axioms"].keys()),
        "axioms_used": sorted({a for v in lean["axioms"].values() for a in v}),
        "lean_problems": lean["problems"],
    }
    cov.update(extra)
    return cov


# ---------------------------------------------------------------- unit engine
def check_unit(prop, tier, seed):
    t0 = time.time()
    spec = UNIT[prop]
    lean = lean_part(prop, tier)
    binary, err = vlib.build_harness("unitdrv", {"YAKUSHIMA_EPOCH_TIME": "40", "YAKUSHIMA_MAX_PARALLEL_SESSIONS": "8"})
    nviol = 0
    extra = {}
    replay = None
    found = False
    if binary is None:
        replay = vlib.write_replay(prop, seed, 0, {"broken": "harness build", "detail": err})
        nviol = 1
    else:
        scale = "1" if tier == "quick" else "8"
        env = dict(os.environ, VERIF_SEED=str(seed))
        try:
            p = subprocess.run([binary, spec["what"], scale], capture_output=True, text=True, env=env,
                               timeout=300 if tier == "quick" else 1800)
        except subprocess.TimeoutExpired as e:
            # e.g. a spin on a word that should have been returned at once: a hang is a result
            tail = (e.stdout.decode() if isinstance(e.stdout, bytes) else (e.stdout or ""))[-400:]
            p = subprocess.CompletedProcess(e.cmd, -999, "", "unitdrv did not finish within the time limit (hang); last output: " + tail)
        if p.returncode != 0:
            replay = vlib.write_replay(prop, seed, 0, {"broken": "unitdrv crashed", "detail": p.stderr[-2000:], "cmd": "unitdrv %s %s" % (spec["what"], scale)})
            nviol, found = 1, True
        else:
            lines = p.stdout.splitlines()
            m = subprocess.run([vlib.YAKMODEL, "unit"], input=p.stdout, capture_output=True, text=True)
            diffs = [l for l in m.stdout.splitlines() if l.startswith("DIFF")]
            fns = {}
            for l in lines:
                fns[l.split(" ", 1)[0]] = fns.get(l.split(" ", 1)[0], 0) + 1
            extra = {"evaluations": len(lines), "distinct_nontrivial": len(set(lines)),
                     "rule": "one line per call of a public function of the core on a grid/PRNG input; distinct = distinct (function, input) lines",
                     "samples": lines[1:4] + lines[len(lines) // 2: len(lines) // 2 + 2],
                     "calls_per_function": fns, "model_differences": len(diffs),
                     "exhaustive": False}
            if diffs:
                # every differing line is a concrete input on which model and code disagree; the
                # theorem fixes what the property demands, so the disagreeing input is the replay
                replay = vlib.write_replay(prop, seed, 0, {
                    "broken": "correspondence unitdrv/%s vs Lean model (theorems of YakProps/%s.lean are about the model)" % (spec["what"], prop),
                    "first_differences": diffs[:10],
                    "replay_cmd": "VERIF_SEED=%d %s %s %s | %s unit" % (seed, binary, spec["what"], scale, vlib.YAKMODEL)})
                nviol, found = len(diffs), True
    if prop in SEQ:
        cov3, fails3 = seq_run(prop, tier, seed)
        extra["sequences"] = cov3
        for i, f in enumerate(fails3[:3]):
            nviol += 1
            path = vlib.write_replay(prop, seed, 200 + i, f["replay"])
            if replay is None:
                replay, found = path, f["found"]
    if prop in SCHED:
        cov2, fails2 = sched_run(prop, tier, seed)
        extra.update(cov2)
        for i, f in enumerate(fails2[:3]):
            nviol += 1
            path = vlib.write_replay(prop, seed, 100 + i, {
                "property": prop, "kind": f["kind"], "detail": f["detail"], "workload": f.get("workload", ""),
                "schedule": f.get("schedule", []), "pre": f.get("pre", {}),
                "replay_cmd": "python3 tools/check.py %s --replay <this file>" % prop})
            if replay is None:
                replay, found = path, f.get("found", True)
    if not lean["ok"] and replay is None:
        replay = vlib.write_replay(prop, seed, 1, {"broken": "proof obligations of YakProps/%s.lean" % prop, "problems": lean["problems"],
                                                   "searched": "unit grid compared equal to the model on %d calls" % extra.get("evaluations", 0)})
        nviol, found = max(nviol, 1), False
    vlib.write_evidence(prop, tier, seed, "proof", proof_coverage(prop, lean, extra),
                        ["grid inputs are sampled except where stated; theorems quantify over all inputs of the model"],
                        time.time() - t0, nviol)
    if replay:
        violation(prop, replay, found)
        return 1
    print("OK %s: %d/%d theorems, %d unit calls agree with the model" % (prop, lean["discharged"], lean["obligations"], extra.get("evaluations", 0)))
    return 0


# ---------------------------------------------------------------- seq engine
def seq_plan(prop, tier, seed):
    spec = SEQ[prop]
    per = 8 if tier == "quick" else 60
    ops = 150 if tier == "quick" else 300
    plan = []
    for p in spec["profiles"]:
        # the slow profiles (deep layer chains, long drains) get fewer sequences
        n = per if p not in ("long", "drain", "prefixfan", "isplitpoint") else max(2, per // 3)
        if p == "isplitpoint":
            n = max(3, per // 2)
        if p == "splitpoint":
            n = per * 5   # short sequences; the interesting case is one cell of a small product

        for i in range(n):
            plan.append((p, seed * 1000 + i, ops))
    if tier == "thorough":
        plan.append(("big", seed, 0))
    return plan


def seq_run(prop, tier, seed, replay_path=None):
    """sequential part: returns (coverage dict, list of failure dicts {kind, found, replay, known?})"""
    spec = SEQ[prop]
    binary, err = vlib.build_harness("seqdrv", seqeng.SEQ_DEFINES)
    if binary is None:
        return {"evaluations": 0}, [{"found": False, "replay": {"broken": "harness build", "detail": err}}]
    kf = vlib.known_findings()
    cfg = "fixed"
    if replay_path:
        rp = json.load(open(replay_path))
        cases = [("replay", 0, rp["ops"])]
    else:
        corpus = []
        cdir = os.path.join(vlib.VERIF, "corpus", prop)
        if os.path.isdir(cdir):
            for fn in sorted(f for f in os.listdir(cdir) if f.endswith(".txt")):
                corpus.append(("corpus:" + fn, 0, open(os.path.join(cdir, fn)).read().splitlines()))
        cases = corpus + [(p, s, seqeng.gen_ops(s, p, n)) for (p, s, n) in seq_plan(prop, tier, seed)]
    classes = spec["classes"] + ["walker"] if prop == "C08" else spec["classes"]

    def one(c):
        name, s, ops = c
        r = seqeng.run_case(binary, ops, cfg, spec["focus"], classes)
        r["name"], r["seed"], r["ops"] = name, s, ops
        return r

    results = vlib.pmap(one, cases)
    agg = {}
    refagg = {}
    for r in results:
        for k, v in r["stats"].items():
            agg[k] = agg.get(k, 0) + v
        for k, v in r.get("refcounts", {}).items():
            refagg[k] = refagg.get(k, 0) + v
    bad = [r for r in results if r["kind"] != "ok"]
    nontrivial = sum(1 for r in results if r["stats"].get("dumps_with_interior", 0) + r["stats"].get("dumps_multi_layer", 0) > 0)
    extra = {
        "evaluations": len(results),
        "distinct_nontrivial": len({"\n".join(r["ops"]) for r in results if r["stats"].get("dumps_with_interior", 0) + r["stats"].get("dumps_multi_layer", 0) > 0}),
        "rule": "one evaluation = one generated operation sequence run on the real code, its transcript checked line by line by the Lean model (classes %s) and by the Python reference (classes %s); non-trivial = reached at least one interior node or a second trie layer; distinct = distinct op sequences" % (spec["focus"], spec["classes"]),
        "samples": [results[0]["ops"][:12]] if results else [],
        "model_checked_events": agg,
        "reference_checked_results": refagg,
        "sequences_nontrivial": nontrivial,
        "traces_validated_against_impl": len(results) - len(bad),
        "profiles": sorted({r["name"] for r in results}),
    }
    fails = []
    printed = set()
    for i, r in enumerate(bad):
        kind = r["kind"]
        ops = r["ops"]
        if kind in ("oracle", "model") and len(ops) > 6:
            ops = seqeng.shrink(binary, ops, cfg, spec["focus"], classes, kind, budget_s=60 if tier == "quick" else 240)
            rr = seqeng.run_case(binary, ops, cfg, spec["focus"], classes)
            detail = rr["detail"] or r["detail"]
        else:
            detail = r["detail"]
        found = kind in ("oracle", "crash")
        sig = signature(prop, kind, detail, ops)
        known = [k for k in kf.get("known", []) if k.get("property") == prop and k.get("signature") == sig]
        if known:
            if sig not in printed:
                print("KNOWN-FINDING: property=%s %s" % (prop, known[0].get("what", sig)))
                printed.add(sig)
            continue
        fails.append({"found": found, "replay": {
            "property": prop, "kind": {"oracle": "the implementation's answer contradicts the property (reference oracle)",
                                        "model": "correspondence broken: implementation and Lean model disagree; the reference oracle did not find a failing input",
                                        "crash": "the harness crashed or timed out on this input (sanitizer report or abort)"}[kind],
            "detail": detail, "signature": sig, "generator": [r["name"], r["seed"]], "ops": ops,
            "theorems_depending_on_this_correspondence": "YakProps/%s.lean" % prop,
            "replay_cmd": "python3 tools/check.py %s --replay <this file>" % prop}})
    return extra, fails


def check_seq(prop, tier, seed, replay_path=None, extra_sched=False):
    t0 = time.time()
    lean = lean_part(prop, tier)
    kf = vlib.known_findings()
    printed = set()
    extra, sfails = seq_run(prop, tier, seed, replay_path)
    nviol = 0
    rc = 0
    for i, f in enumerate(sfails):
        nviol += 1
        path = vlib.write_replay(prop, seed, i, f["replay"])
        if rc == 0:
            violation(prop, path, f["found"])
        rc = 1
    nresults = extra.get("evaluations", 0)
    if extra_sched and prop in SCHED:
        cov2, fails2 = sched_run(prop, tier, seed)
        extra.update(cov2)
        for i, f in enumerate(fails2):
            sig = "sched/%s" % f["kind"]
            known = [k for k in kf.get("known", []) if k.get("property") == prop and k.get("signature") == sig]
            if known:
                if sig not in printed:
                    print("KNOWN-FINDING: property=%s %s" % (prop, known[0].get("what", sig)))
                    printed.add(sig)
                continue
            nviol += 1
            path = vlib.write_replay(prop, seed, 100 + i, {
                "property": prop, "kind": f["kind"], "detail": f["detail"], "workload": f.get("workload", ""),
                "schedule": f.get("schedule", []), "pre": f.get("pre", {}),
                "replay_cmd": "python3 tools/check.py %s --replay <this file>" % prop})
            if rc == 0:
                violation(prop, path, f.get("found", True))
            rc = 1
    if not lean["ok"]:
        nviol += 1
        path = vlib.write_replay(prop, seed, 900, {"broken": "proof obligations of YakProps/%s.lean" % prop, "problems": lean["problems"],
                                                   "searched": "%d sequences, none failed" % nresults if rc == 0 else "see other replays"})
        if rc == 0:
            violation(prop, path, False)
        rc = 1
    vlib.write_evidence(prop, tier, seed, "proof", proof_coverage(prop, lean, extra), ASSUME_SEQ + (ASSUME_SCHED if extra_sched else []), time.time() - t0, nviol)
    if rc == 0:
        print("OK %s: %d/%d theorems; %d sequences agree with model and reference" % (prop, lean["discharged"], lean["obligations"], nresults))
    return rc


def found_for(prop, cls):
    """is a failure of this class a concrete failing execution of the property itself, or a broken
    correspondence between the traced code and a Lean model? An illegal version-word transition is
    the former for C17 (the property is about that word) and the latter elsewhere."""
    if cls == "monitor":
        return False
    if cls == "versionword":
        return prop == "C17"
    return True


def sched_analyse(spec, out, rc, err2, pre, res):
    """all oracles over the output of one scheddrv invocation; appends (class, message, schedule) to res["fails"]"""
    rr = hist.parse(out)
    res["nruns"] += len(rr)
    for r in rr:
        try:
            res["steps"] += int(r.header.split()[5])
        except (IndexError, ValueError):
            pass
        res["ops"] += len(r.h)
        for cls, msg in hist.check_run(r, pre, spec["classes"]):
            res["fails"].append((cls, msg, r.sched))
        if spec.get("trace") and spec.get("lockorder", not spec.get("monitor")):
            nacq, cyc, leftover = hist.lock_order(r)
            res["acq"] += nacq
            if cyc:
                res["fails"].append(("lockorder", "lock acquisition order has a cycle: %s" % " -> ".join(cyc), r.sched))
            if leftover:
                res["fails"].append(("lockorder", "locks still held after all operations returned: %s" % leftover, r.sched))
    if spec.get("monitor"):
        m = subprocess.run([vlib.YAKMODEL, spec["monitor"]], input=out, capture_output=True, text=True)
        for l in m.stdout.splitlines():
            if l.startswith("DIFF"):
                # an illegal version-word transition is a concrete observed execution; the epoch
                # monitor reports a model/code mismatch that may or may not be a failing input
                res["fails"].append(("versionword" if "class versionword" in l else "monitor", l[:500], []))
            elif l.startswith("STATS"):
                for kv in l.split()[1:]:
                    k, _, v = kv.partition("=")
                    res["mon"][k] = res["mon"].get(k, 0) + int(v)
    if rc != 0:
        res["fails"].append(("crash", "scheddrv exit %d: %s" % (rc, vlib.crash_excerpt(err2)), []))
    return res


def sched_run(prop, tier, seed, replay_path=None):
    """scheduler-driven part; returns (coverage dict, list of failure dicts)"""
    spec = SCHED[prop]
    binary, err = vlib.build_harness("scheddrv", schedeng.SCHED_DEFINES)
    if binary is None:
        return {"sched_evaluations": 0}, [{"kind": "build", "detail": err, "found": False}]
    fails = []
    if replay_path:
        rp = json.load(open(replay_path))
        sp = os.path.join(vlib.CACHE, "replay_sched_%d.txt" % os.getpid())
        pre = {bytes.fromhex(k): v for k, v in rp.get("pre", {}).items()}
        tr = bool(spec.get("trace"))
        if "schedule" in rp and rp["schedule"]:
            open(sp, "w").write(" ".join(map(str, rp["schedule"])))
            rc, out, err2 = schedeng.run_workload(binary, rp["workload"], 1, 0, "replay:" + sp, trace=tr)
        else:
            rc, out, err2 = schedeng.run_workload(binary, rp["workload"], rp.get("runs", 30), rp.get("seed", 0), rp.get("policy", "random"), trace=tr)
        res = sched_analyse(spec, out, rc, err2, pre, {"nruns": 0, "steps": 0, "ops": 0, "fails": [], "acq": 0, "mon": {}})
        for cls, msg, sch in res["fails"]:
            fails.append({"kind": cls, "detail": msg, "found": found_for(prop, cls), "workload": rp["workload"], "schedule": sch or rp.get("schedule", []), "pre": rp.get("pre", {})})
        return {"sched_evaluations": res["nruns"], "sched_steps": res["steps"]}, fails
    # past failures first: the recorded schedule, then fresh schedules of the same workload
    cdir = os.path.join(vlib.VERIF, "corpus", prop)
    cjobs = []
    if os.path.isdir(cdir):
        for fn in sorted(f for f in os.listdir(cdir) if f.endswith(".json")):
            try:
                rp = json.load(open(os.path.join(cdir, fn)))
            except ValueError:
                continue
            if "workload" in rp:
                cjobs.append(("corpus:" + fn, rp))
    nwl = 96 if tier == "quick" else 1200
    runs = max(3, int((30 if tier == "quick" else 150) * spec.get("runs_scale", 1)))
    jobs = []
    for j, kind in enumerate(spec["kinds"]):
        dup = spec["kinds"][:j].count(kind)      # a kind listed twice gets twice the workloads
        for i in range(nwl // len(spec["kinds"]) + 1):
            jobs.append((kind, seed * 10000 + dup * 2000 + i))

    def one(job):
        kind, sd = job
        if kind.startswith("corpus:"):
            rp = sd
            pre = {bytes.fromhex(k): v for k, v in rp.get("pre", {}).items()}
            res = {"meta": {"shape": kind, "kind": "corpus"}, "text": rp["workload"], "pre": pre, "nruns": 0, "steps": 0, "ops": 0, "fails": [], "acq": 0, "mon": {}}
            tr = bool(spec.get("trace"))
            if rp.get("schedule"):
                sp = os.path.join(vlib.CACHE, "corpus_sched_%d_%s.txt" % (os.getpid(), kind[7:]))
                open(sp, "w").write(" ".join(map(str, rp["schedule"])))
                rc, out, err2 = schedeng.run_workload(binary, rp["workload"], 1, 0, "replay:" + sp, trace=tr)
                # a recorded schedule may no longer be feasible after a code change: that is not a failure
                out = "\n".join(l.replace(" REPLAY-INFEASIBLE", "") for l in out.splitlines()) + "\n"
                sched_analyse(spec, out, rc, err2, pre, res)
            if rp.get("policy") and rp.get("runs") and not rp.get("schedule"):
                # recorded as (policy, seed, number of runs): the failing run is one of these
                rc, out, err2 = schedeng.run_workload(binary, rp["workload"], int(rp["runs"]), int(rp.get("seed", 0)), rp["policy"], trace=tr)
                sched_analyse(spec, out, rc, err2, pre, res)
            for pol in ("random", "pct"):
                rc, out, err2 = schedeng.run_workload(binary, rp["workload"], runs, rp.get("seed", 0) + seed, pol, trace=tr)
                sched_analyse(spec, out, rc, err2, pre, res)
            return res
        text, pre, meta = schedeng.make_workload(sd, kind)
        res = {"meta": meta, "text": text, "pre": pre, "nruns": 0, "steps": 0, "ops": 0, "fails": [], "acq": 0, "mon": {}}
        pol = ["random", "pct", "sticky", "pct"][sd % 4]
        nruns = runs
        if kind == "reuse":
            pol, nruns = "pct", runs * 6      # a reader must be held back across two whole operations
        if kind in ("collapse", "toprank"):
            nruns = runs * 4                  # one store has to land inside another thread's two-step window
        rc, out, err2 = schedeng.run_workload(binary, text, nruns, sd * 100, pol, trace=bool(spec.get("trace")))
        sched_analyse(spec, out, rc, err2, pre, res)
        return res

    results = vlib.pmap(one, cjobs + jobs)
    shapes = {}
    for r in results:
        shapes[r["meta"]["shape"]] = shapes.get(r["meta"]["shape"], 0) + r["nruns"]
        for cls, msg, sch in r["fails"][:1]:
            fails.append({"kind": cls, "detail": msg, "found": found_for(prop, cls), "workload": r["text"], "schedule": sch,
                          "pre": {k.hex(): v for k, v in r["pre"].items()}})
    fails.sort(key=lambda f: 0 if f.get("found", True) else 1)      # concrete failing executions first
    cov = {
        "sched_evaluations": sum(r["nruns"] for r in results),
        "sched_workloads": len(results),
        "sched_distinct_nontrivial": len({r["text"] for r in results if r["steps"] > 0}),
        "sched_steps": sum(r["steps"] for r in results),
        "sched_operations": sum(r["ops"] for r in results),
        "sched_runs_per_shape": shapes,
        "sched_lock_acquisitions_analysed": sum(r["acq"] for r in results),
        "lean_monitor": {k: sum(r["mon"].get(k, 0) for r in results) for k in sorted({k for r in results for k in r["mon"]})},
        "sched_sample": results[0]["text"].splitlines()[:14] if results else [],
    }
    return cov, fails


def leaf_tie(tier, seed):
    """correspondence of Proto/Leaf (the model the C01 theorems are about): for each small
    single-border scenario the Lean model enumerates every interleaving of its single-access steps
    and prints the set of result tuples; every tuple the real code produces under the scheduler
    must be one of them"""
    binary, err = vlib.build_harness("scheddrv", schedeng.SCHED_DEFINES)
    if binary is None:
        return {"leaf_scenarios": 0}, [{"kind": "build", "detail": err, "found": False}]
    nsc = 24 if tier == "quick" else 200
    runs = 100 if tier == "quick" else 400

    def enc(h):
        o, res = h["op"][0], h["res"]
        if o == "get":
            w = res.split()
            if w[0] == "WARN_NOT_EXIST":
                return "ne"
            if w[0] == "OK":
                if len(w) < 2 or w[1] == "NULLVALUE":
                    return "vnull"
                try:
                    return "v%d" % int(bytes.fromhex(w[1])[1:])
                except ValueError:
                    return "v?" + w[1]
            return "?" + res
        if o == "put":
            return {"OK": "ok", "WARN_UNIQUE_RESTRICTION": "uq"}.get(res, "?" + res)
        if o == "remove":
            return {"OK": "ok", "OK_NOT_FOUND": "nf"}.get(res, "?" + res)
        return "?" + res

    def one(sd):
        text, model, counts = schedeng.make_leaf_scenario(sd)
        m = subprocess.run([vlib.YAKMODEL, "leaf"], input="\n".join(model) + "\n", capture_output=True, text=True)
        outs = [l for l in m.stdout.splitlines() if l.startswith("LOUT")]
        if m.returncode != 0 or len(outs) != 1:
            return {"text": text, "error": "yakmodel leaf: " + (m.stdout + m.stderr)[-300:], "model": set(), "seen": {}, "lines": model}
        allowed = set(outs[0][5:].split("|"))
        seen, bad = {}, None
        for pol in ("pct", "random"):
            rc, out, err2 = schedeng.run_workload(binary, text, runs, sd * 100 + 3, pol)
            for r in hist.parse(out):
                if r.stuck or sum(counts) != len(r.h):
                    continue
                tup = ",".join(enc(h) for h in sorted(r.h, key=lambda h: (h["tid"], h["idx"])))
                seen[tup] = seen.get(tup, 0) + 1
                if tup not in allowed and bad is None:
                    bad = (tup, r.sched)
        return {"text": text, "model": allowed, "seen": seen, "bad": bad, "lines": model}

    results = vlib.pmap(one, [seed * 1000 + i for i in range(nsc)])
    fails = []
    for r in results:
        if r.get("error"):
            fails.append({"kind": "leaftie", "detail": r["error"], "found": False, "workload": r["text"]})
        elif r.get("bad"):
            tup, sch = r["bad"]
            fails.append({"kind": "leaftie", "found": False, "workload": r["text"], "schedule": sch,
                          "detail": "the real code returned the results (%s), which no interleaving of the Leaf model produces (model: %s); scenario: %s" % (tup, sorted(r["model"]), r["lines"])})
    cov = {"leaf_scenarios": len(results), "leaf_runs": sum(sum(r["seen"].values()) for r in results),
           "leaf_model_outcomes": sum(len(r["model"]) for r in results),
           "leaf_model_outcomes_observed_on_impl": sum(len(set(r["seen"]) & r["model"]) for r in results),
           "leaf_sample": (results[0]["lines"] if results else [])}
    return cov, fails


def nodeset_tie(tier, seed):
    """correspondence of Proto/NodeSet (the model of the C04/C06 theorems): the model enumerates
    every interleaving of a small scan-vs-inserts scenario (incl. leaf splits) and prints the set
    of key lists the scan can return; every list the real code returns must be one of them"""
    binary, err = vlib.build_harness("scheddrv", schedeng.SCHED_DEFINES)
    if binary is None:
        return {"nodeset_scenarios": 0}, [{"kind": "build", "detail": err, "found": False}]
    nsc = 16 if tier == "quick" else 120
    runs = 100 if tier == "quick" else 400

    def one(sd):
        text, model = schedeng.make_nodeset_scenario(sd)
        m = subprocess.run([vlib.YAKMODEL, "nodeset"], input="\n".join(model) + "\n", capture_output=True, text=True)
        outs = [l for l in m.stdout.splitlines() if l.startswith("NOUT")]
        if m.returncode != 0 or len(outs) != 1:
            return {"text": text, "error": "yakmodel nodeset: " + (m.stdout + m.stderr)[-300:], "model": set(), "seen": {}, "lines": model}
        allowed = set(outs[0][5:].split("|"))
        seen, bad = {}, None
        for pol in ("pct", "random"):
            rc, out, err2 = schedeng.run_workload(binary, text, runs, sd * 100 + 5, pol)
            for r in hist.parse(out):
                for h in r.h:
                    if h["op"][0] != "scan" or not h["res"].startswith("OK"):
                        continue
                    w = h["res"].split()
                    keys = [bytes.fromhex(kv.partition("=")[0]) for kv in w[2:2 + int(w[1])]]
                    enc = ",".join(str(int(k[1:])) for k in keys) or "-"
                    seen[enc] = seen.get(enc, 0) + 1
                    if enc not in allowed and bad is None:
                        bad = (enc, r.sched)
        return {"text": text, "model": allowed, "seen": seen, "bad": bad, "lines": model}

    results = vlib.pmap(one, [seed * 1000 + i for i in range(nsc)])
    fails = []
    for r in results:
        if r.get("error"):
            fails.append({"kind": "nodesettie", "detail": r["error"], "found": False, "workload": r["text"]})
        elif r.get("bad"):
            enc, sch = r["bad"]
            fails.append({"kind": "nodesettie", "found": False, "workload": r["text"], "schedule": sch,
                          "detail": "the real scan returned [%s], which no interleaving of the NodeSet model produces (model has %d outcomes); scenario: %s" % (enc, len(r["model"]), r["lines"])})
    cov = {"nodeset_scenarios": len(results), "nodeset_runs": sum(sum(r["seen"].values()) for r in results),
           "nodeset_model_outcomes": sum(len(r["model"]) for r in results),
           "nodeset_model_outcomes_observed_on_impl": sum(len(set(r["seen"]) & r["model"]) for r in results),
           "nodeset_sample": (results[0]["lines"] if results else [])}
    return cov, fails


def absorb_tie(tier, seed):
    """correspondence of Proto/Absorb (the model of the D13 repair): for each scenario the Lean model
    enumerates the scan results possible under every interleaving of its events; every result the
    real code produces under the scheduler must be one of them"""
    binary, err = vlib.build_harness("scheddrv", schedeng.SCHED_DEFINES)
    if binary is None:
        return {"absorb_scenarios": 0}, [{"kind": "build", "detail": err, "found": False}]
    nsc = 16 if tier == "quick" else 120
    runs = 120 if tier == "quick" else 400

    def one(sd):
        text, pre, model = schedeng.make_absorb_scenario(sd)
        m = subprocess.run([vlib.YAKMODEL, "absorb"], input="\n".join(model) + "\n", capture_output=True, text=True)
        outs = [l for l in m.stdout.splitlines() if l.startswith("AOUT")]
        if m.returncode != 0 or len(outs) != 1:
            return {"sd": sd, "text": text, "pre": pre, "error": "yakmodel absorb: " + (m.stdout + m.stderr)[-300:], "model": set(), "seen": {}}
        allowed = set(outs[0][5:].split("|"))
        seen = {}
        bad = None
        for pol in ("pct", "random"):
            rc, out, err2 = schedeng.run_workload(binary, text, runs, sd * 100 + 7, pol)
            for r in hist.parse(out):
                for h in r.h:
                    if h["op"][0] != "scan" or not h["res"].startswith("OK"):
                        continue
                    w = h["res"].split()
                    keys = [bytes.fromhex(kv.partition("=")[0]) for kv in w[2:2 + int(w[1])]]
                    enc = ",".join(str(schedeng.absorb_num(k)) for k in keys) or "-"
                    seen[enc] = seen.get(enc, 0) + 1
                    if enc not in allowed and bad is None:
                        bad = (enc, r.sched, pol)
        return {"sd": sd, "text": text, "pre": pre, "model": allowed, "seen": seen, "bad": bad, "lines": model}

    results = vlib.pmap(one, [seed * 1000 + i for i in range(nsc)])
    fails = []
    for r in results:
        if r.get("error"):
            fails.append({"kind": "absorbtie", "detail": r["error"], "found": False, "workload": r["text"], "pre": {k.hex(): v for k, v in r["pre"].items()}})
        elif r.get("bad"):
            enc, sch, pol = r["bad"]
            fails.append({"kind": "absorbtie", "found": False, "workload": r["text"], "schedule": sch, "pre": {k.hex(): v for k, v in r["pre"].items()},
                          "detail": "the real scan returned [%s], which no interleaving of the Absorb model produces (model: %s); scenario: %s" % (enc, sorted(r["model"]), r["lines"])})
    nmodel = sum(len(r["model"]) for r in results)
    nseen = sum(len(set(r["seen"]) & r["model"]) for r in results)
    cov = {"absorb_scenarios": len(results), "absorb_runs": sum(sum(r["seen"].values()) for r in results),
           "absorb_model_outcomes": nmodel, "absorb_model_outcomes_observed_on_impl": nseen,
           "absorb_sample": (results[0]["lines"] if results else [])}
    return cov, fails


def check_sched(prop, tier, seed, replay_path=None):
    t0 = time.time()
    lean = lean_part(prop, tier)
    cov, fails = sched_run(prop, tier, seed, replay_path)
    if prop == "C04" and not replay_path:
        cov2, fails2 = absorb_tie(tier, seed)
        cov.update(cov2)
        fails = fails + fails2
    if prop == "C06" and not replay_path and NODESET_TIE:
        cov2, fails2 = nodeset_tie(tier, seed)
        cov.update(cov2)
        fails = fails + fails2
    if prop == "C01" and not replay_path and LEAF_TIE:
        cov2, fails2 = leaf_tie(tier, seed)
        cov.update(cov2)
        fails = fails + fails2
    kf = vlib.known_findings()
    rc = 0
    nviol = 0
    printed = set()
    for i, f in enumerate(fails):
        sig = "sched/%s" % f["kind"]
        known = [k for k in kf.get("known", []) if k.get("property") == prop and k.get("signature") == sig]
        if known:
            if sig not in printed:
                print("KNOWN-FINDING: property=%s %s" % (prop, known[0].get("what", sig)))
                printed.add(sig)
            continue
        nviol += 1
        path = vlib.write_replay(prop, seed, 100 + i, {
            "property": prop, "kind": f["kind"], "detail": f["detail"], "workload": f.get("workload", ""),
            "schedule": f.get("schedule", []), "pre": f.get("pre", {}),
            "replay_cmd": "python3 tools/check.py %s --replay <this file>" % prop})
        if rc == 0:
            violation(prop, path, f.get("found", True))
        rc = 1
    if not lean["ok"]:
        nviol += 1
        path = vlib.write_replay(prop, seed, 900, {"broken": "proof obligations of YakProps/%s.lean" % prop, "problems": lean["problems"],
                                                   "searched": "%d scheduled runs, none failed" % cov.get("sched_evaluations", 0) if rc == 0 else "see other replays"})
        if rc == 0:
            violation(prop, path, False)
        rc = 1
    extra = dict(cov)
    extra.update({"evaluations": max(cov.get("sched_evaluations", 0), 1), "distinct_nontrivial": max(cov.get("sched_distinct_nontrivial", 0), 0),
                  "rule": "one evaluation = one schedule of a generated multi-thread workload on the real code under the deterministic scheduler, its history checked by hist.py (classes %s); distinct = distinct workloads that executed at least one scheduled step" % SCHED[prop]["classes"],
                  "samples": [cov.get("sched_sample", [])], "traces_validated_against_impl": cov.get("sched_evaluations", 0)})
    vlib.write_evidence(prop, tier, seed, "proof", proof_coverage(prop, lean, extra), ASSUME_SCHED, time.time() - t0, nviol)
    if rc == 0:
        print("OK %s: %d/%d theorems; %d scheduled runs (%d steps) without a violation" % (prop, lean["discharged"], lean["obligations"], cov.get("sched_evaluations", 0), cov.get("sched_steps", 0)))
    return rc


def check_c14(tier, seed, replay_path=None):
    """sessions: real thread_info_table under the scheduler for several capacities; history oracle
    + the Lean trace acceptor of Proto/Session"""
    t0 = time.time()
    prop = "C14"
    lean = lean_part(prop, tier)
    caps = [2, 8] if tier == "quick" else [1, 2, 3, 8]
    nwl = 12 if tier == "quick" else 120
    runs = 25 if tier == "quick" else 100
    fails = []
    cov = {"sched_evaluations": 0, "capacities": caps, "model_events": 0, "enters": 0, "max_sessions_results": 0, "cas_failures": 0, "sched_steps": 0}
    sample = []
    if replay_path:
        rp = json.load(open(replay_path))
        caps, nwl = [rp["capacity"]], 0
    for cap in caps:
        defs = dict(schedeng.SCHED_DEFINES, YAKUSHIMA_MAX_PARALLEL_SESSIONS=str(cap))
        binary, err = vlib.build_harness("scheddrv", defs)
        if binary is None:
            fails.append({"kind": "build", "detail": err, "found": False, "capacity": cap})
            continue

        def one(sd):
            text, pre, meta = schedeng.make_workload(sd, "session%d" % cap)
            rc, out, err2 = schedeng.run_workload(binary, text, runs, sd * 100, "random", trace=True)
            res = {"text": text, "fails": [], "n": 0, "steps": 0, "stats": {}}
            rr = hist.parse(out)
            res["n"] = len(rr)
            for r in rr:
                try:
                    res["steps"] += int(r.header.split()[5])
                except (IndexError, ValueError):
                    pass
                for cls, msg in hist.check_sessions(r, cap):
                    res["fails"].append((cls, msg, r.sched, True))
                if r.stuck:
                    res["fails"].append(("progress", r.header, r.sched, True))
            m = subprocess.run([vlib.YAKMODEL, "sess", str(cap)], input=out, capture_output=True, text=True)
            for l in m.stdout.splitlines():
                if l.startswith("DIFF"):
                    res["fails"].append(("acceptor", l[:400], [], False))
                elif l.startswith("STATS"):
                    for kv in l.split()[1:]:
                        k, _, v = kv.partition("=")
                        res["stats"][k] = int(v)
            if rc != 0:
                res["fails"].append(("crash", vlib.crash_excerpt(err2), [], True))
            return res

        if replay_path:
            jobs = []
            sp = os.path.join(vlib.CACHE, "replay_sched_%d.txt" % os.getpid())
            open(sp, "w").write(" ".join(map(str, rp["schedule"])))
            rc, out, err2 = schedeng.run_workload(binary, rp["workload"], 1, 0, "replay:" + sp, trace=True)
            for r in hist.parse(out):
                for cls, msg in hist.check_sessions(r, cap):
                    fails.append({"kind": cls, "detail": msg, "found": True, "capacity": cap, "workload": rp["workload"], "schedule": r.sched})
            continue
        for res in vlib.pmap(one, [seed * 1000 + i for i in range(nwl)]):
            cov["sched_evaluations"] += res["n"]
            cov["sched_steps"] += res["steps"]
            cov["model_events"] += res["stats"].get("model_events", 0)
            cov["enters"] += res["stats"].get("enters", 0)
            cov["max_sessions_results"] += res["stats"].get("max_sessions", 0)
            cov["cas_failures"] += res["stats"].get("cas_failures", 0)
            if not sample:
                sample = res["text"].splitlines()
            for cls, msg, sch, found in sorted(res["fails"], key=lambda x: 0 if x[3] else 1)[:1]:
                fails.append({"kind": cls, "detail": msg, "found": found, "capacity": cap, "workload": res["text"], "schedule": sch})
    fails.sort(key=lambda f: 0 if f.get("found", True) else 1)     # concrete failing executions first
    rc = 0
    for i, f in enumerate(fails):
        path = vlib.write_replay(prop, seed, 100 + i, dict(f, property=prop, replay_cmd="python3 tools/check.py C14 --replay <this file>"))
        if rc == 0:
            violation(prop, path, f.get("found", True))
        rc = 1
    if not lean["ok"]:
        path = vlib.write_replay(prop, seed, 900, {"broken": "proof obligations of YakProps/C14.lean", "problems": lean["problems"]})
        if rc == 0:
            violation(prop, path, False)
        rc = 1
    extra = dict(cov)
    extra.update({"evaluations": max(cov["sched_evaluations"], 1), "distinct_nontrivial": cov["sched_evaluations"],
                  "rule": "one evaluation = one schedule of a generated enter/leave workload on the real thread_info_table (capacities %s); every trace is run through the Lean acceptor Session.step? and the history through the session oracle; non-trivial: at least one enter" % caps,
                  "samples": [sample], "traces_validated_against_impl": cov["sched_evaluations"]})
    vlib.write_evidence(prop, tier, seed, "proof", proof_coverage(prop, lean, extra), ASSUME_SCHED, time.time() - t0, len(fails) + (0 if lean["ok"] else 1))
    if rc == 0:
        print("OK C14: %d/%d theorems; %d scheduled runs, %d model events accepted, %d WARN_MAX_SESSIONS results" % (lean["discharged"], lean["obligations"], cov["sched_evaluations"], cov["model_events"], cov["max_sessions_results"]))
    return rc


def signature(prop, kind, detail, ops):
    """coarse identity of a failure, used only to match entries of known_findings.json"""
    last = ""
    for o in ops:
        if o.split()[0] in ("scan", "iopen", "inext", "get", "put", "remove"):
            last = o.split()[0]
    cls = ""
    if "class " in detail:
        cls = detail.split("class ", 1)[1].split()[0]
    elif " at op " in detail:
        cls = detail.split(" at op ")[0]
    return "%s/%s/%s" % (kind, cls, last)


def main():
    ap = argparse.ArgumentParser()
    ap.add_argument("prop")
    ap.add_argument("--tier", default=os.environ.get("VERIF_TIER", "quick"))
    ap.add_argument("--replay")
    a = ap.parse_args()
    seed = int(os.environ.get("VERIF_SEED", "1"))
    if a.replay and a.prop in SCHED and "workload" in json.load(open(a.replay)):
        sys.exit(check_sched(a.prop, a.tier, seed, a.replay))
    if a.replay and a.prop in SEQ and "ops" in json.load(open(a.replay)):
        sys.exit(check_seq(a.prop, a.tier, seed, a.replay))
    if a.prop in UNIT:
        sys.exit(check_unit(a.prop, a.tier, seed))
    if a.prop == "C14":
        sys.exit(check_c14(a.tier, seed, a.replay))
    if a.prop in SEQ and a.prop in SCHED and not a.replay:
        rc1 = check_seq(a.prop, a.tier, seed, None, extra_sched=True)
        sys.exit(rc1)
    if a.replay and a.prop in SCHED and "workload" in json.load(open(a.replay)):
        sys.exit(check_sched(a.prop, a.tier, seed, a.replay))
    if a.prop in SEQ:
        sys.exit(check_seq(a.prop, a.tier, seed, a.replay))
    if a.prop in SCHED:
        sys.exit(check_sched(a.prop, a.tier, seed, a.replay))
    print("unknown property " + a.prop)
    sys.exit(2)


if __name__ == "__main__":
    try:
        main()
    except SystemExit:
        raise
    except Exception:      # the machinery could not digest what the implementation produced
        import traceback
        tb = traceback.format_exc()
        prop = sys.argv[1] if len(sys.argv) > 1 else "C00"
        try:
            path = vlib.write_replay(prop, int(os.environ.get("VERIF_SEED", "1")), 999,
                                     {"broken": "the checker itself failed while processing the implementation's output (correspondence could not be evaluated)", "traceback": tb})
        except Exception:
            path = "/verif/replays/%s-checker-error.txt" % prop
        sys.stderr.write(tb)
        violation(prop, path, False)
        sys.exit(1)
