#!/usr/bin/env python3
"""Write /verif/MANIFEST.json from the table below (kept in one place so that the claimed level,
the technique and the not_applicable list stay consistent). A property is registered only when
its YakProps/<id>.lean exists (i.e. its theorems are in the tree)."""
import json
import os
import subprocess

HERE = os.path.dirname(os.path.abspath(__file__))
VERIF = os.path.dirname(HERE)

COMMON = ("Trusted: Lean 4.33 kernel (axioms propext, Classical.choice, Quot.sound only; audited on every run by #print axioms and a grep for "
          "sorry/admit/axiom/native_decide/bv_decide/implemented_by/unsafe); the hand-written Lean model; the tie model<->/repo is sampled "
          "differential correspondence (counts in the evidence file), not translation; constants extractor; C++ harness, walker, interposer, "
          "Python orchestration. ")
SC = "Concurrent part: sequentially consistent interleavings at the announced accesses only (hooks, -DYAKUSHIMA_VERIF); schedules are sampled. "

T = {
    "C01": ("Lean theorem: every history of the single-border protocol model (any number of threads, every interleaving of the single-access steps of get / upsert / unique put / remove, weak validation, slot reuse) is linearizable w.r.t. the map spec, OK gets are never null (repaired reader), writers are serialized; counterexample theorem for the unrepaired reader (D1). Multi-node behaviour (descent, splits, layers) is not a theorem: it is checked on the real code by scheduler-driven histories (per-key Wing-Gong linearizability search, null-value and status checks, final content). The Leaf model itself is tied to the code by outcome-set inclusion: for small single-border scenarios the model enumerates all interleavings of its single-access steps, and every result tuple observed on the real code under the scheduler must be one the model produces.",
            COMMON + SC + "The Leaf model is hand-written from interface_get/put/remove.h and border_node.h; its step granularity is tied to the code by the histories, not by a trace acceptor.",
            "Lean 4 proof (protocol model, linearizability) + deterministic-scheduler history checking"),
    "C02": ("Lean theorems: get/put/unique-put/remove on the layered leaf-chain model refine a function Key -> Option Val for every well-formed tree, every key (arbitrary bytes and length), every absorb direction; every reachable state is well formed; any op sequence answers like the map; emptied storages behave like fresh ones. Tied to the code by differential runs of generated sequences (statuses, values, and the full structure dump after every mutation).",
            COMMON + "Interior nodes are not in the proof model (routing = fences; absorb direction resolved against the dump).",
            "Lean 4 proof (refinement to a map) + differential correspondence (seqdrv)"),
    "C03": ("Lean theorems: exactly the documented invalid ranges/argument combinations are rejected (range_check_iff, scan_bad_usage_iff) on the mirrored scan; the full scan_spec theorem (result = filter of the in-order content) is being proved and is listed in the evidence once installed. Tied to the code by differential scan batteries (endpoints at slice boundaries, prefixes, >255-byte keys, all endpoint kinds, max_size, right-to-left) against the Lean model and an independent Python reference.",
            COMMON, "Lean 4 proof + differential correspondence (seqdrv) + reference oracle"),
    "C04": ("Lean theorems on the NodeSet chain model (inserts and splits, any number of writers/scanners): a finished scan is strictly ascending and inside its interval, every returned key was present, every key stored before the scan started is returned (no stable key lost), keys not returned were absent when the scan started. Values/removes are not in that model: per-key consistency of returned values under removes and overwrites is checked on the real code by scheduler-driven histories in which every scan result is folded into per-key reads and searched for a linearization (workloads aimed at the node under the scanner: edge borders emptied and unlinked, absorbed ranges, next-layer roots split or deleted). Proto/Absorb (removes that unlink a leaf whose range a neighbour absorbs; the repaired skip rule of D13 keeps the result ascending and loses no stable key) is tied to the code by outcome-set inclusion: every scan result observed under the scheduler must be one the model produces under some interleaving.",
            COMMON + SC, "Lean 4 proof (protocol model) + deterministic-scheduler history checking"),
    "C05": ("Lean theorems on the sequential model: an insert bumps the counters of its landing leaf; a get miss reports exactly that leaf with its current counters; (scan_nodes_cover as far as installed — see evidence). Counterexample for the unrepaired scan (D2). Tied to the code by differential comparison of every collected (version,node) list and by a direct phantom oracle: after a read, absent keys of the covered interval are inserted into the real tree and at least one collected pair must become stale.",
            COMMON, "Lean 4 proof + differential correspondence + direct phantom oracle (seqdrv)"),
    "C06": ("Lean theorems on the NodeSet chain model (leaf chain with fences, inserts, splits, any interleaving): a completed insert into the scanned interval is in the scan's result or makes a collected (version,node) pair stale; counters are monotone so staleness is permanent; a scan whose pairs are all unchanged has read exactly the keys present. The scanner of the model is on the safe side of the code in three stated ways. Tied to the code by scheduler-driven runs: node sets are re-validated after all operations completed and compared with the fresh inserts of the interval; the NodeSet model itself is tied to the code by outcome-set inclusion (the model enumerates all interleavings of small scan-vs-insert scenarios incl. splits; every key list the real scan returns must be one the model produces).",
            COMMON + SC, "Lean 4 proof (protocol model) + deterministic-scheduler node-set re-validation"),
    "C07": ("Lean theorem on the epoch protocol model (sessions, two-step enter with the repaired re-check, non-atomic scans of the epoch thread, gc epoch, per-slot queues with cache): no object is freed while a session that was active at its unlink is still active; counterexample theorem for the unrepaired enter (D3). Tied to the code by scheduler-driven runs with the library's epoch and gc threads scheduled and threads stalled across epoch advances: ASan on pointers held until leave, content re-read, a reclamation-order check on the event trace and the Lean monitor `yakmodel epoch` (retired values and retired nodes).",
            COMMON + SC + "TBB concurrent_queue is modelled as a FIFO; the relaxed store of begin_epoch_ is treated as sequentially consistent.",
            "Lean 4 proof (protocol model) + deterministic-scheduler runs with ASan and trace oracle"),
    "C08": ("Lean theorems: Inv (decidable well-formedness of the layered leaf chains) holds in every state reachable by any operation sequence; point lookups, the in-order content and the keys whose last completed operation was a put coincide; content is strictly ascending. The same executable predicates are evaluated on the implementation's structure dump after every mutation (incl. interior nodes: separators sorted, fan-out, fences) and the walker checks parent/child, prev/next, lock and dirty bits, reachability. Interior nodes: on every dump that passes checkLayer, descending by get_child_of's test reaches exactly the leaf the model's fence rule selects (theorem interior_descent_matches_fences). Concurrent clause: walker + final content after scheduler-driven runs.",
            COMMON + SC + "Pointer-level link consistency is validated by the walker, not proved (the proof model has no pointers).",
            "Lean 4 proof (invariant preservation) + checkInv on real dumps + walker"),
    "C09": ("Lean theorem (LockOrder): under mutual exclusion, if every wait respects one strict order on locks there is always a blocked thread whose awaited lock is held by a running thread (no deadlock); threads holding nothing block nobody. Tied to the code by scheduler-driven runs: lock-order graph of the observed acquisitions must be acyclic (which is the existence of such an order), all locks released when operations return, scheduler stall detector and hang timeout, and the Lean monitor `yakmodel vers`, which accepts a successful compare-exchange on a version word only if it is one atomic operation of the Version model and the lock is taken when free / released by its holder (collapse workloads: sibling borders under a one-key interior emptied together). Liveness under fairness is argued, not proved.",
            COMMON + SC, "Lean 4 proof (abstract lock discipline) + lock-order analysis and Lean version-word monitor on real traces"),
    "C10": ("Lean theorems on the cursor contract (interval + last key): draining enumerates exactly the interval ascending / descending, pausing anywhere is harmless, every step is monotone and in range, exactly scan's invalid ranges are rejected. Tied to the code by differential cursor batteries (seqdrv, both directions, pauses, modifications between steps) and, for the concurrent sentence, scheduler-driven histories on multi-layer trees (monotone, in-interval, per-key linearizable, no fault, WARN_CONCURRENT_OPERATIONS only with early_abort).",
            COMMON + SC + "The concurrent sentence is checked, not proved.", "Lean 4 proof (sequential contract) + differential correspondence + scheduler histories"),
    "C11": ("Lean theorems on the allocation ledger model: live = speculative + linked + retired + cursors, nothing freed twice, fin releases everything but open cursors, failed speculation is balanced. Tied to the code by an operator new/delete interposer: sized-delete arguments must match, no double/unknown free, and at quiescence the live aligned allocations equal the objects the walker can reach; after fin nothing is left (sequentially and after scheduler-driven concurrent workloads).",
            COMMON + "Allocations inside TBB/glog are outside the ledger.", "Lean 4 proof (ledger model) + allocation interposer vs walker (seqdrv, scheddrv)"),
    "C12": ("Lean theorems: an insert reports modified=(layer,index); every other pre-existing layer is untouched; in that layer either that leaf alone moves its insert counter, or it splits into two leaves whose insert and split counters both moved and created=(layer,index+1); an overwrite changes no version. Tied to the code by differential comparison of the reported nodes and of every counter in the dump, and by a direct oracle that snapshots all border versions before and after each put (incl. overwrites that change only the representation of the value, inline vs out-of-line).",
            COMMON, "Lean 4 proof + differential correspondence + direct version-diff oracle"),
    "C13": ("Lean theorems on the storage directory model: create/delete/find/list behave as a map from names to independent trees, isolation of data operations, list sorted and complete, unknown names, exactly one winner among sequential unique creates (the concurrent clause follows for linearizable histories). Tied to the code by differential sequences with storage churn over binary / long / prefix-sharing names.",
            COMMON + SC + "Concurrent create/delete races are scheduled (linearizability of the directory); DDL in parallel with DML is outside the contract stated in kvs.h.", "Lean 4 proof + differential correspondence (seqdrv) + scheduler histories of the directory"),
    "C14": ("Lean theorems on the session-table protocol (every capacity N, any number of threads, weak CAS): tokens of open sessions are distinct, at most N open, a quiescent enter succeeds iff a slot is free, WARN_MAX_SESSIONS only after every slot was observed occupied during the call, slots reusable after leave, begin epoch non-zero from return to leave. Tied to the code by running the real thread_info_table under the scheduler for several capacities: every event trace is replayed through the Lean acceptor Session.step? and the history through a session oracle (distinct tokens, capacity, WARN_MAX_SESSIONS, and probes of an open session's own slot: running with a non-zero begin epoch), with threads held inside enter across epoch advances.",
            COMMON + SC, "Lean 4 proof (protocol model) + trace acceptor on the real code"),
    "C15": ("Lean theorems on the value block layout and pointer tagging (alignment of the body, regions, sized-delete arguments, length/tag round-trips, inline values by value); differential grid over lengths x alignments with an allocation interposer; byte round-trip through put/get/scan/iscan and created_value_ptr are part of the sequential differential runs.",
            COMMON + SC + "Old-or-new under concurrent overwrite is checked on scheduler-driven histories (values of very different lengths, unique per put), not by a separate theorem.", "Lean 4 proof + differential correspondence (unitdrv, seqdrv) + scheduler histories for the atomic-update clause"),
    "C16": ("Lean theorems on the lifecycle model: after any number of init..fin cycles a new init yields the first-cycle state, epoch progress and reclamation are enabled in every cycle, destroy leaves a usable system, open sessions do not block fin; counterexample theorem for the unrepaired stop flags (D4). Tied to the code by multi-cycle runs with a 2 ms epoch: epoch advance and full reclamation while running are measured in every cycle, session capacity and storage listing after re-init compared.",
            COMMON, "Lean 4 proof (lifecycle model) + multi-cycle differential runs"),
    "C17": ("Lean theorems over all 2^64 version words (layout bijection from regenerated constants, unlock/setter semantics, word arithmetic = field arithmetic incl. wrap-around) and over every reachable state of an N-thread weak-CAS protocol model (mutual exclusion, stable reads clean, counters count completions, equal stable versions imply no completion under the <2^29 bound, tight). Bit-exact differential grid on the real node_version64; for the interleaving clause, 2-4 real threads use one node_version64 under the scheduler (counters at the wrap boundary) and the Lean monitor `yakmodel vers` accepts every CAS transition and stable read.",
            COMMON + SC, "Lean 4 proof + bit-exact differential correspondence (unitdrv) + Lean monitor on scheduled traces"),
    "C18": ("Lean theorems: operator< and every comparison site (leaf lookup, rank, interior routing/insert, split sides, rearrange) implement one strict total order = bytewise lexicographic order; layered comparison = lexLt on full keys. Differential grid over a 5-byte alphabet through the real node methods; the split-side sites are exercised by targeted sequences (a 16th key with the same padded slice as the entry at the split point).",
            COMMON, "Lean 4 proof + differential correspondence (unitdrv, seqdrv)"),
    "C19": ("Lean theorems over all permutation words with a valid prefix and arbitrary garbage above: insert/delete rank = list insertIdx/eraseIdx, free slot fresh, split initialiser identity, ofList round-trip; the model mirrors permutation.h shift by shift. Bit-exact differential grid on the real permutation class.",
            COMMON, "Lean 4 proof + bit-exact differential correspondence (unitdrv)"),
    "C20": ("Lean theorems on mem_usage over the dumped B+-tree shape: one node counted per node at its level, used <= reserved, border row arithmetic, next-layer roots one level below the linking leaf. Tied to the code by recomputing mem_usage from the implementation's dump in Lean and comparing with the real mem_usage and with the walker's independent per-depth count.",
            COMMON, "Lean 4 proof + differential correspondence (seqdrv) + walker oracle"),
}


def main():
    props = [json.loads(l) for l in open(os.path.join(VERIF, "properties.jsonl"))]
    checks = []
    na = []
    for p in props:
        pid = p["id"]
        have = os.path.exists(os.path.join(VERIF, "lean", "YakProps", pid + ".lean"))
        if pid in T and have:
            text, note, tech = T[pid]
            checks.append({
                "property_id": pid,
                "quick_cmd": "python3 tools/check.py %s --tier quick" % pid,
                "thorough_cmd": "python3 tools/check.py %s --tier thorough" % pid,
                "evidence_file": "/verif/evidence/%s.json" % pid,
                "replay_cmd_template": "python3 tools/check.py %s --replay {path}" % pid,
                "engine": "lean+harness",
                "level_claimed": {"category": "proof", "text": text, "design_ref": "DESIGN.md section 5, " + pid},
                "level_note": note,
                "technique": tech,
            })
        else:
            na.append({"property_id": pid, "reason": "not claimed at this commit: the Lean property file YakProps/%s.lean is not yet in the tree (model and harness exist; see DESIGN.md section 5)" % pid})
    hooks = subprocess.run(["git", "-C", "/repo", "log", "--format=%H", "--grep=^verif:"], capture_output=True, text=True).stdout.split()
    man = {
        "version": 1,
        "setup_cmd": "python3 tools/setup.py",
        "hooks": {
            "guard": "YAKUSHIMA_VERIF",
            "enable": "tools/vlib.py build_harness compiles harness/*.cpp with -DYAKUSHIMA_VERIF -I/repo/include (ASan+UBSan)",
            "baseline_off_cmd": "cmake -G Ninja -S /repo -B /repo/_build && cmake --build /repo/_build -- -k 0 ; ctest --test-dir /repo/_build -j8 --timeout 900",
            "source_commits": hooks,
            "add_only": True,
        },
        "engines": [
            {"name": "lean", "path": "/verif/lean", "serves_properties": [c["property_id"] for c in checks],
             "kind_free_text": "Lean 4 library: YakModel (executable models + proofs), YakProps (one theorem file per property), yakmodel (transcript / trace checker executable)"},
            {"name": "unitdrv", "path": "/verif/harness/unitdrv.cpp", "serves_properties": ["C15", "C17", "C18", "C19"],
             "kind_free_text": "calls the bit-level cores of /repo/include on grids; checked line by line by `yakmodel unit`"},
            {"name": "seqdrv", "path": "/verif/harness/seqdrv.cpp", "serves_properties": ["C02", "C03", "C05", "C08", "C10", "C11", "C12", "C13", "C16", "C18", "C20"],
             "kind_free_text": "public API from a line protocol + structure walker + allocation interposer; checked by `yakmodel seq` and a Python reference"},
            {"name": "scheddrv", "path": "/verif/harness/scheddrv.cpp", "serves_properties": ["C01", "C04", "C06", "C07", "C08", "C09", "C10", "C11", "C13", "C14", "C15", "C17"],
             "kind_free_text": "real threads under a deterministic cooperative scheduler driven by the YAKUSHIMA_VERIF hooks; histories, traces, replayable schedules"},
        ],
        "checks": checks,
        "not_applicable": na,
        "notes": "Defects found and repaired in /repo are listed in /verif/known_findings.json (fixed: entries). See DESIGN.md.",
    }
    json.dump(man, open(os.path.join(VERIF, "MANIFEST.json"), "w"), indent=1)
    print("registered:", " ".join(c["property_id"] for c in checks))
    print("not claimed:", " ".join(x["property_id"] for x in na))


if __name__ == "__main__":
    main()
