#!/bin/bash
# development aid: every registered quick check, one after the other, at the given seed
cd "$(dirname "$0")/.."
seed=${1:-1}; tier=${2:-quick}
for p in C01 C02 C03 C04 C05 C06 C07 C08 C09 C10 C11 C12 C13 C14 C15 C16 C17 C18 C19 C20; do
  s=$(date +%s)
  out=$(VERIF_SEED=$seed python3 tools/check.py $p --tier $tier 2>/dev/null | grep -E "^(OK|VIOLATION|KNOWN)" | head -3 | cut -c1-160)
  echo "$p $(( $(date +%s) - s ))s $out"
done
