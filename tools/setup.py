#!/usr/bin/env python3
"""MANIFEST.setup_cmd: regenerate the constants, build the model driver and the property theorems
of every registered check from files on disk (offline). Harness binaries are built by the checks
themselves from /repo's working tree (cached by content hash under /verif/.cache)."""
import json
import os
import subprocess
import sys

HERE = os.path.dirname(os.path.abspath(__file__))
VERIF = os.path.dirname(HERE)


def main():
    r = subprocess.run([sys.executable, os.path.join(HERE, "extract_constants.py")])
    if r.returncode != 0:
        sys.exit(r.returncode)
    man = json.load(open(os.path.join(VERIF, "MANIFEST.json")))
    targets = ["yakmodel"] + sorted({"YakProps." + c["property_id"] for c in man.get("checks", [])})
    r = subprocess.run(["lake", "build"] + targets, cwd=os.path.join(VERIF, "lean"))
    sys.exit(r.returncode)


if __name__ == "__main__":
    main()
