#!/usr/bin/env python3
"""MANIFEST.setup_cmd: build the Lean library, the property theorems and the model driver from
files on disk (offline). Harness binaries are built by the checks themselves from /repo's working
tree."""
import os, subprocess, sys
HERE = os.path.dirname(os.path.abspath(__file__))
VERIF = os.path.dirname(HERE)
def main():
    r = subprocess.run([sys.executable, os.path.join(HERE, "extract_constants.py")])
    if r.returncode != 0:
        sys.exit(r.returncode)
    r = subprocess.run(["lake", "build"], cwd=os.path.join(VERIF, "lean"))
    sys.exit(r.returncode)
if __name__ == "__main__":
    main()
