"""Concurrent engine: workload generation for scheddrv (real threads under the deterministic
scheduler), running, history checking (hist.py), replay files."""
import os
import random
import tempfile
import subprocess

import hist
import vlib

SCHED_DEFINES = {"YAKUSHIMA_EPOCH_TIME": "1", "YAKUSHIMA_MAX_PARALLEL_SESSIONS": "8"}
WL_DIR = os.path.join(vlib.CACHE, "workloads")
os.makedirs(WL_DIR, exist_ok=True)


def hx(b):
    return b.hex() if b else "-"


def shape_keys(r, shape):
    """preloaded keys for an initial tree shape"""
    if shape == "empty":
        return []
    if shape == "single":
        return [b"k%d" % i for i in range(r.choice([1, 2, 5]))]
    if shape == "full":          # one border about to split
        return [b"k%02d" % i for i in range(15)]
    if shape == "two_level":
        return [b"k%02d" % i for i in range(r.choice([16, 30, 45]))]
    if shape == "three_level":
        return [b"k%03d" % i for i in range(r.choice([240, 300]))]
    if shape == "layers":        # keys sharing an 8-byte prefix live in a second layer
        pre = b"prefix__"
        return [b"a", b"z"] + [pre + b"s%02d" % i for i in range(r.choice([2, 5, 16]))] + [pre]
    if shape == "deep_layers":
        pre = b"prefix__"
        return [pre + pre + b"x%d" % i for i in range(3)] + [pre + b"y"]
    if shape == "layer_full":    # the root border of the second layer is full: the next insert replaces the layer root
        pre = b"prefix__"
        return [b"a", b"z"] + [pre + b"s%02d" % i for i in range(15)]
    if shape == "layer_single":  # a second layer with one entry: removing it removes the layer
        pre = b"prefix__"
        return [b"a", b"z", pre + b"only", b"prefix_2" + b"x"]
    if shape == "layer_two_level":
        pre = b"prefix__"
        return [b"a", b"z"] + [pre + b"s%02d" % i for i in range(20)]
    if shape == "eight":         # keys of exactly 8 bytes (the longest key that is stored in the slot itself)
        return [b"key%05d" % i for i in range(r.choice([3, 12, 20]))]
    if shape == "sparse":        # borders with one entry (the next remove unlinks a node)
        return [b"k%02d" % i for i in range(32)]
    return []


def make_epoch_workload(seed):
    """sessions entering/leaving around retires, with the library's epoch and gc threads scheduled
    and random stalls (a thread held back until the global epoch has advanced)"""
    r = random.Random("epoch/%d" % seed)
    lines = ["storage 61", "bg 1", "auto_session 0"]
    pre = {}
    if r.random() < 0.35:
        # retired NODES: borders that are emptied and unlinked (and an interior node that collapses)
        # while another session stays open across several gc passes. Inline values, so that the
        # removes retire no value (the value side of the per-session retire state stays old).
        n = r.choice([16, 16, 32])
        keep = r.randrange(8)
        inline = r.random() < 0.7
        for i in range(n):
            k = b"k%02d" % i
            if inline:
                lines.append("pre puti %s %x" % (hx(k), 0x5000 + 16 * i))
            else:
                lines.append("pre put %s %s" % (hx(k), hx(b"value_of_" + k)))
        live = []
        for i in range(n):
            k = b"k%02d" % i
            if i % 8 == keep:
                live.append(k)
                pre[k] = ("i%016x" % (0x5000 + 16 * i)) if inline else (b"value_of_" + k).hex()
            else:
                lines.append("pre remove %s" % hx(k))
        nthreads = r.choice([2, 2, 3])
        for t in range(nthreads):
            lines.append("thread %d" % t)
            if t == 0:
                # the session that must keep the retired nodes alive
                lines.append("op enter")
                lines.append("op scan - F - F 0 0")
                lines.append("op sleep_epochs %d" % r.choice([2, 3, 4]))
                lines.append("op scan - F - F 0 0")
                lines.append("op leave")
            else:
                if r.random() < 0.5:
                    lines.append("op sleep_epochs %d" % r.choice([1, 2]))
                lines.append("op enter")
                for k in r.sample(live, min(len(live), r.choice([1, 2]))):
                    lines.append("op remove %s" % hx(k))
                if r.random() < 0.5:
                    lines.append("op sleep_epochs %d" % r.choice([1, 2, 3]))
                lines.append("op leave")
                if r.random() < 0.5:
                    lines.append("op enter")
                    lines.append("op sleep_epochs %d" % r.choice([1, 2]))
                    lines.append("op leave")
        return "\n".join(lines) + "\n", pre, {"shape": "epoch/nodes", "threads": nthreads, "kind": "epoch"}
    keys = [b"k%d" % i for i in range(r.choice([1, 2, 4]))] + [b"prefix__long%d" % i for i in range(r.choice([0, 1]))]
    for k in keys:
        v = b"value_of_" + k
        lines.append("pre put %s %s" % (hx(k), hx(v)))
        pre[k] = v.hex()
    nthreads = r.choice([2, 2, 3])
    for t in range(nthreads):
        lines.append("thread %d" % t)
        if r.random() < 0.5:
            lines.append("op sleep_epochs %d" % r.choice([1, 2, 3]))
        for sess in range(r.choice([1, 2])):
            lines.append("op enter")
            for i in range(r.choice([1, 2, 3, 4])):
                k = r.choice(keys)
                x = r.random()
                if x < 0.3:
                    lines.append("op get %s" % hx(k))
                elif x < 0.5:
                    lines.append("op remove %s" % hx(k))
                elif x < 0.70:
                    lines.append("op put %s %s 0" % (hx(k), hx(b"v%d_%d_%d_long_enough" % (t, sess, i))))
                elif x < 0.75:
                    # overwrite with an inline (pointer-sized) value: the old heap value must be retired too
                    lines.append("op puti %s %x" % (hx(k), 0x1000 + t * 16 + i))
                elif x < 0.9:
                    lines.append("op sleep_epochs %d" % r.choice([1, 2, 4]))
                else:
                    lines.append("op scan - F - F 0 0")
            lines.append("op hold")
            lines.append("op leave")
    # stalls: (field, kind) pairs of the enter/retire protocol: begin-epoch store (7,1), epoch load (8,0),
    # running CAS (6,2), begin-epoch load (7,0)
    for _ in range(r.choice([0, 1, 1, 2])):
        f, kd = r.choice([(7, 1), (7, 1), (8, 0), (6, 2), (7, 0)])
        lines.append("stall %d %d %d %d %d" % (r.randrange(nthreads), f, kd, r.choice([1, 1, 2]), r.choice([1, 2, 3])))
    return "\n".join(lines) + "\n", pre, {"shape": "epoch", "threads": nthreads, "kind": "epoch"}


def make_session_workload(seed, capacity):
    """more threads than slots entering and leaving"""
    r = random.Random("session/%d/%d" % (seed, capacity))
    lines = ["storage 61", "bg 0", "auto_session 0"]
    nthreads = r.choice([2, 3, 3, 4]) if capacity <= 3 else r.choice([3, 4, 6, 9])
    for t in range(nthreads):
        lines.append("thread %d" % t)
        for _ in range(r.choice([1, 2, 3])):
            lines.append("op enter")
            if r.random() < 0.25:
                # stay open while the (free-running) epoch thread would like to advance twice
                lines.append("op sleep_epochs 2")
                lines.append("op probe")
            elif r.random() < 0.5:
                lines.append("op probe")
            if r.random() < 0.85:
                lines.append("op leave")
    # hold a thread inside enter (at its epoch load / begin-epoch store / running CAS) until the
    # free-running epoch thread has advanced the epoch
    for _ in range(r.choice([0, 1, 1, 2])):
        f, kd = r.choice([(8, 0), (8, 0), (7, 1), (6, 2)])
        lines.append("stall %d %d %d %d %d" % (r.randrange(nthreads), f, kd, r.choice([1, 2, 3]), r.choice([1, 2])))
    return "\n".join(lines) + "\n", {}, {"shape": "sessions", "threads": nthreads, "kind": "session"}


def make_reuse_workload(seed):
    """a reader of k1 against `remove k1; put k2` where the new key k2 takes over k1's slot in the
    same border (and variants: scans/cursors as readers, an update instead of the insert).
    A reader that uses anything loaded after its last validation returns k2's bytes for k1."""
    r = random.Random("reuse/%d" % seed)
    shape = r.choice(["single", "single", "full", "two_level", "layers", "layer_two_level"])
    keys = shape_keys(r, shape)
    if len(keys) > 14 and shape == "full":
        keys = keys[:14]       # leave room: the insert must not split
    lines = ["storage 61", "bg 0"]
    pre = {}
    for k in keys:
        v = b"p" + k[-3:]
        lines.append("pre put %s %s" % (hx(k), hx(v)))
        pre[k] = v.hex()
    live = sorted(pre)
    k1 = r.choice(live)
    k2 = k1 + bytes([r.choice([0x30, 0x00, 0x7a])])
    if k2 in pre:
        k2 = k1 + b"00"
    readers = r.choice([1, 2])
    t = 0
    for _ in range(readers):
        lines.append("thread %d" % t)
        kind = r.choice(["get", "get", "get", "scan", "iscan"])
        for _ in range(r.choice([1, 2])):
            if kind == "get":
                lines.append("op get %s" % hx(k1))
            elif kind == "scan":
                lines.append("op scan %s I %s I 0 0" % (hx(k1), hx(k2)))
            else:
                lines.append("op iscan %s I %s I %d 0 400" % (hx(k1), hx(k2), r.choice([0, 1])))
        t += 1
    lines.append("thread %d" % t)
    lines.append("op remove %s" % hx(k1))
    lines.append("op put %s %s 0" % (hx(k2), hx(b"new%d" % seed)))
    if r.random() < 0.5:
        lines.append("op put %s %s 0" % (hx(k1), hx(b"back%d" % seed)))
    t += 1
    if r.random() < 0.4:
        lines.append("thread %d" % t)
        lines.append("op put %s %s 0" % (hx(r.choice(live)), hx(b"upd%d" % seed)))
        lines.append("op get %s" % hx(k2))
    return "\n".join(lines) + "\n", pre, {"shape": shape, "threads": t + 1, "kind": "reuse"}


def make_storage_workload(seed):
    """concurrent create/create, delete/delete, create/delete on a few names, with data operations"""
    r = random.Random("storage/%d" % seed)
    lines = ["storage 61", "bg 0"]
    names = [b"n1", b"", b"name_longer_than_8", b"n\x00"][: r.choice([1, 2, 3])]
    nthreads = r.choice([2, 3, 3, 4])
    for t in range(nthreads):
        lines.append("thread %d" % t)
        for i in range(r.choice([1, 2, 3])):
            n = r.choice(names)
            # kvs.h: create_storage / delete_storage may run in parallel with each other, but not
            # with find/list or with data operations -- so only these two appear here
            if r.random() < 0.55:
                lines.append("op create %s" % hx(n))
            else:
                lines.append("op delete %s" % hx(n))
    return "\n".join(lines) + "\n", {}, {"shape": "storages", "threads": nthreads, "kind": "storage"}


def make_overwrite_workload(seed):
    """writers overwrite a few keys with values of very different lengths while readers get / scan
    them: a reader must see one put's complete (bytes, length) pair"""
    r = random.Random("overwrite/%d" % seed)
    shape = r.choice(["single", "full", "two_level", "layers"])
    keys = shape_keys(r, shape)
    lines = ["storage 61", "bg 0"]
    pre = {}
    for k in keys:
        v = b"p" + k[-3:]
        lines.append("pre put %s %s" % (hx(k), hx(v)))
        pre[k] = v.hex()
    live = sorted(pre)
    hot = r.sample(live, min(len(live), r.choice([1, 2])))
    lens = [1, 2, 8, 9, 40, 200, 1000]
    same_len = r.random() < 0.4      # every overwrite has the length of the value it replaces (in-place temptation)
    if same_len:
        ln0 = r.choice([4, 9, 40, 200])
        lens = [ln0]
        for k in hot:
            v = (b"pre:" + b"p" * ln0)[:ln0]
            lines.append("pre put %s %s" % (hx(k), hx(v)))
            pre[k] = v.hex()
    nthreads = r.choice([2, 3, 4])
    for t in range(nthreads):
        lines.append("thread %d" % t)
        writer = t % 2 == 0
        for i in range(r.choice([2, 3, 4])):
            k = r.choice(hot)
            if writer:
                ln = r.choice(lens)
                val = (b"%d.%d:" % (t, i) + bytes([0x41 + (t * 7 + i) % 26]) * ln)[:max(ln, 4)]
                lines.append("op put %s %s 0" % (hx(k), hx(val)))
            elif r.random() < 0.7:
                lines.append("op get %s" % hx(k))
            else:
                lines.append("op scan %s I %s I 0 0" % (hx(k), hx(k)))
        if not writer:
            # everything handed out to this session so far must still read the same
            lines.append("op hold")
    return "\n".join(lines) + "\n", pre, {"shape": shape, "threads": nthreads, "kind": "overwrite"}


def make_scanedge_workload(seed):
    """scans (forward, size-limited, right-to-left) against writers that empty and unlink the border
    node at the edge the scan starts from, split or empty a next-layer root the scan descends into,
    or refill a node that has just been emptied"""
    r = random.Random("scanedge/%d" % seed)
    scen = r.choice(["right_edge", "right_edge", "left_edge", "middle", "layer_root_split", "layer_root_delete",
                     "layer_drain", "refill", "absorb", "absorb", "link_border", "link_border"])
    if scen == "link_border":
        # a border that holds one value and a link: the value is removed and the border's version
        # bumped (an out-of-range insert) while the scan is inside the next layer; the re-read of the
        # border then contributes nothing of its own, and a later in-range insert into it must
        # still invalidate the collected node set
        pfx = b"LLLLLLLL"
        nsub = r.choice([1, 5, 20, 40])
        keys = [b"A"] + [pfx + b"s%02d" % i for i in range(nsub)]
        if r.random() < 0.3:
            keys.append(b"Y")
        lines = ["storage 61", "bg 0"]
        pre = {}
        for k in keys:
            lines.append("pre put %s %s" % (hx(k), hx(b"p" + k[-3:])))
            pre[k] = (b"p" + k[-3:]).hex()
        nthreads = r.choice([2, 2, 3])
        lines.append("thread 0")
        for i in range(r.choice([1, 2])):
            if r.random() < 0.6:
                lines.append("op scan %s I %s I 0 0" % (hx(b"A"), hx(b"M")))
            else:
                lines.append("op scan - F - F 0 0")
        lines.append("thread 1")
        lines.append("op remove %s" % hx(b"A"))
        lines.append("op put %s %s 0" % (hx(r.choice([b"Z", b"N", b"Q1"])), hx(b"1out")))
        lines.append("op put %s %s 0" % (hx(r.choice([b"B", b"C", b"A1"])), hx(b"1in")))
        if nthreads == 3:
            lines.append("thread 2")
            for i in range(r.choice([1, 2])):
                lines.append("op put %s %s 0" % (hx(r.choice([b"D", b"E%d" % i, pfx + b"t%d" % i])), hx(b"2x%d" % i)))
        return "\n".join(lines) + "\n", pre, {"shape": "scanedge/link_border", "threads": nthreads, "kind": "scanedge"}
    lines = ["storage 61", "bg 0"]
    pre = {}
    pfx = b"prefix__"
    if scen in ("right_edge", "left_edge", "middle", "refill", "absorb"):
        n = r.choice([16, 32, 48])
        keys = [b"k%02d" % i for i in range(n)]
        keep = set(r.sample(range(8), r.choice([1, 1, 2])))
        for k in keys:
            lines.append("pre put %s %s" % (hx(k), hx(b"p" + k[-3:])))
        for i, k in enumerate(keys):
            if i % 8 in keep:
                pre[k] = (b"p" + k[-3:]).hex()
            else:
                lines.append("pre remove %s" % hx(k))
        live = sorted(pre)
        per = len(keep)
        if scen in ("right_edge", "refill"):
            victims = live[-per:] + (live[-2 * per:-per] if r.random() < 0.3 else [])
        elif scen == "left_edge":
            victims = live[:per] + (live[per:2 * per] if r.random() < 0.3 else [])
        else:
            b = r.randrange(1, max(2, len(live) // per - 1))
            victims = live[b * per:(b + 1) * per]
        fresh = [v + b"x" for v in victims] + [b"k99", b"k000"]
        if scen == "absorb":
            # a border left of the scanner is emptied and unlinked; its key range falls to the right
            # neighbour, which then receives keys smaller than what the scan has already returned
            b = r.randrange(0, max(1, len(live) // per - 1))
            victims = live[b * per:(b + 1) * per]
            fresh = [victims[0][:-1] + bytes([victims[0][-1] - 1]) + b"y", victims[0] + b"y", victims[-1] + b"z"]
    else:
        nsub = {"layer_root_split": 15, "layer_root_delete": 1, "layer_drain": r.choice([2, 16, 20])}[scen]
        keys = [b"a", b"z"] + [pfx + b"s%02d" % i for i in range(nsub)]
        if r.random() < 0.5:
            keys += [b"prefix_2" + b"only"]
        if r.random() < 0.3:
            keys += [pfx]
        for k in keys:
            lines.append("pre put %s %s" % (hx(k), hx(b"p" + k[-3:])))
            pre[k] = (b"p" + k[-3:]).hex()
        live = sorted(pre)
        sub = [k for k in live if len(k) > 8 and k.startswith(pfx)]
        victims = sub if scen != "layer_root_split" else r.sample(sub, 2)
        fresh = [pfx + b"s99", pfx + b"s07x", pfx + b"s000", pfx + b"t", b"prefix_2only"]
    nthreads = r.choice([2, 3, 3, 4])
    order = list(victims)
    if r.random() < 0.5:
        order.reverse()
    for t in range(nthreads):
        lines.append("thread %d" % t)
        if t == 0:
            for i in range(r.choice([1, 2, 2])):
                x = r.random()
                if scen in ("layer_root_split", "layer_root_delete", "layer_drain") and r.random() < 0.4:
                    lk, le, rk, re_ = pfx, "I", pfx + b"\xff", "I"
                else:
                    lk, le, rk, re_ = b"", "F", b"", "F"
                if x < 0.4:
                    lines.append("op scan %s %s %s F 1 1" % (hx(lk), le, hx(rk)))
                elif x < 0.55:
                    lines.append("op scan %s %s %s %s %d 0" % (hx(lk), le, hx(rk), re_, r.choice([1, 2])))
                else:
                    lines.append("op scan %s %s %s %s 0 0" % (hx(lk), le, hx(rk), re_))
        elif t == 1 and scen != "layer_root_split":
            for k in order:
                lines.append("op remove %s" % hx(k))
            if scen in ("refill", "absorb"):
                for k in r.sample(fresh, 2):
                    lines.append("op put %s %s 0" % (hx(k), hx(b"%dr" % t)))
        else:
            for i in range(r.choice([1, 2, 3])):
                x = r.random()
                if x < 0.6 or scen == "layer_root_split":
                    lines.append("op put %s %s 0" % (hx(r.choice(fresh)), hx(b"%dx%d" % (t, i))))
                elif x < 0.8:
                    lines.append("op remove %s" % hx(r.choice(victims)))
                else:
                    lines.append("op get %s" % hx(r.choice(live)))
    return "\n".join(lines) + "\n", pre, {"shape": "scanedge/" + scen, "threads": nthreads, "kind": "scanedge"}


def make_nodeset_scenario(seed):
    """one scenario for the Proto/NodeSet correspondence: (scheddrv workload, model lines).
    1-3 borders (preloaded ascending or shuffled, so that the model's own split rule builds the same
    chain), one scan, 1-2 writers inserting 1-2 fresh keys each (sometimes into a full border)."""
    r = random.Random("nodeset/%d" % seed)
    npre = r.choice([3, 14, 15, 15, 22, 30, 31])
    pre_keys = [10 * (i + 1) for i in range(npre)]
    order = list(pre_keys)
    if r.random() < 0.4:
        r.shuffle(order)
    lines = ["storage 61", "bg 0"]
    model = ["cap 15"]
    for i in range(0, len(order), 10):
        model.append("pre " + " ".join(str(k) for k in order[i:i + 10]))
    for k in order:
        lines.append("pre put %s %s" % (hx(b"k%04d" % k), hx(b"p%04d" % k)))
    lo, hi = 0, 10 * npre + 9
    if r.random() < 0.5:
        a, b = lo, hi + 100
    else:
        a = r.randrange(lo, hi // 2 + 1)
        b = r.randrange(hi // 2 + 1, hi + 20)
    fresh = set()
    nw = r.choice([1, 1, 2])
    writers = []
    for w in range(nw):
        ks = []
        for _ in range(r.choice([1, 2])):
            while True:
                k = r.randrange(1, hi + 15)
                if k % 10 != 0 and k not in fresh:
                    break
            fresh.add(k)
            ks.append(k)
        writers.append(ks)
    model.append("scan %d %d" % (a, b))
    lines += ["thread 0", "op scan %s I %s I 0 0" % (hx(b"k%04d" % a), hx(b"k%04d" % b))]
    for t, ks in enumerate(writers, 1):
        model.append("writer " + " ".join(str(k) for k in ks))
        lines.append("thread %d" % t)
        for k in ks:
            lines.append("op put %s %s 0" % (hx(b"k%04d" % k), hx(b"w%04d" % k)))
    model.append("go")
    return "\n".join(lines) + "\n", model


def make_leaf_scenario(seed):
    """one scenario for the Proto/Leaf correspondence: (scheddrv workload, model lines, nops per thread).
    A single border node (no split: at most 6 preloaded keys + at most 6 inserts), 2-3 threads with
    1-2 point operations each on a few hot keys (present and absent)."""
    r = random.Random("leaf/%d" % seed)
    npre = r.choice([0, 1, 2, 4, 6])
    pre_keys = sorted(r.sample(range(1, 13), npre))
    lines = ["storage 61", "bg 0"]
    model = ["cap 15", "fix 1"]
    val = 100
    for k in pre_keys:
        val += 1
        lines.append("pre put %s %s" % (hx(b"k%02d" % k), hx(b"v%03d" % val)))
        model.append("pre %d %d" % (k, val))
    hot = r.sample(range(1, 13), r.choice([1, 1, 2]))
    if pre_keys and r.random() < 0.7:
        hot[0] = r.choice(pre_keys)
    nthreads = r.choice([2, 2, 3])
    counts = []
    for t in range(nthreads):
        lines.append("thread %d" % t)
        ops = []
        for i in range(r.choice([1, 2, 2]) if nthreads == 2 else r.choice([1, 1, 2])):
            k = r.choice(hot)
            x = r.random()
            if x < 0.35:
                ops.append("get:%d" % k)
                lines.append("op get %s" % hx(b"k%02d" % k))
            elif x < 0.6:
                val += 1
                ops.append("put:%d:%d" % (k, val))
                lines.append("op put %s %s 0" % (hx(b"k%02d" % k), hx(b"v%03d" % val)))
            elif x < 0.75:
                val += 1
                ops.append("uput:%d:%d" % (k, val))
                lines.append("op put %s %s 1" % (hx(b"k%02d" % k), hx(b"v%03d" % val)))
            else:
                ops.append("rem:%d" % k)
                lines.append("op remove %s" % hx(b"k%02d" % k))
        counts.append(len(ops))
        model.append("thread " + " ".join(ops))
    model.append("go")
    return "\n".join(lines) + "\n", model, counts


def absorb_key(n):
    """model key (Nat) -> real key: kNN for multiples of 10, kNNy for NN*10+5"""
    return b"k%02d" % (n // 10) + (b"y" if n % 10 == 5 else b"")


def absorb_num(k):
    return int(k[1:3]) * 10 + (5 if k.endswith(b"y") else 0)


def make_absorb_scenario(seed):
    """one scenario for the Proto/Absorb correspondence: (scheddrv workload, pre, model lines).
    16 or 32 ascending keys give borders of 8 keys with separators k08, k16, k24 under one interior
    node; thinned to 1-2 keys per border; writers empty one border (it is unlinked and its range
    absorbed) and insert keys around it; one forward scan."""
    r = random.Random("absorb/%d" % seed)
    n = r.choice([16, 16, 32])
    nleaf = n // 8
    keep = sorted(r.sample(range(8), r.choice([1, 1, 2])))
    lines = ["storage 61", "bg 0"]
    pre = {}
    for i in range(n):
        lines.append("pre put %s %s" % (hx(b"k%02d" % i), hx(b"p%02d" % i)))
    model = []
    for j in range(nleaf):
        ks = [8 * j + x for x in keep]
        model.append("leaf %d %d %s" % (j, 0 if j == 0 else 80 * j, " ".join(str(10 * k) for k in ks)))
    for i in range(n):
        if i % 8 in keep:
            pre[b"k%02d" % i] = (b"p%02d" % i).hex()
        else:
            lines.append("pre remove %s" % hx(b"k%02d" % i))
    vj = r.randrange(nleaf)                       # the border that is emptied
    victims = [10 * (8 * vj + x) for x in keep]
    if r.random() < 0.5:
        victims.reverse()
    lo_v, hi_v = min(victims), max(victims)
    fresh = [lo_v - 5 if lo_v >= 10 else lo_v + 5, lo_v + 5, hi_v + 5]
    w1 = ["rem:%d" % v for v in victims] + ["ins:%d" % k for k in r.sample(fresh, r.choice([1, 2]))]
    writers = [w1]
    if r.random() < 0.5:
        oj = r.randrange(nleaf)
        ok = 10 * (8 * oj + r.choice(keep))
        writers.append(r.choice([["rem:%d" % ok], ["ins:%d" % (ok + 5)], ["rem:%d" % ok, "ins:%d" % ok]]))
    if r.random() < 0.7:
        a, b = 0, 10 * n + 9
        scan = "op scan - F - F 0 0"
    else:
        a = 10 * r.randrange(0, n // 2)
        b = 10 * r.randrange(n // 2, n)
        scan = "op scan %s I %s I 0 0" % (hx(absorb_key(a)), hx(absorb_key(b)))
    lines += ["thread 0", scan]
    for t, w in enumerate(writers, 1):
        lines.append("thread %d" % t)
        for o in w:
            kind, _, num = o.partition(":")
            k = absorb_key(int(num))
            lines.append("op remove %s" % hx(k) if kind == "rem" else "op put %s %s 0" % (hx(k), hx(b"%dw%s" % (t, num.encode()))))
    model += ["scan %d %d" % (a, b)] + ["writer " + " ".join(w) for w in writers] + ["fix 1", "go"]
    return "\n".join(lines) + "\n", pre, model


def make_collapse_workload(seed):
    """two (or three) sibling borders under one interior node are emptied at the same time, so that
    the interior node collapses and hands the root role to a sibling that is itself being deleted;
    afterwards the surviving node is refilled and emptied again"""
    r = random.Random("collapse/%d" % seed)
    pfx = r.choice([b"", b"", b"prefix__"])
    n = r.choice([16, 16, 24])
    keys = [pfx + b"k%02d" % i for i in range(n)]
    lines = ["storage 61", "bg 0"]
    pre = {}
    if pfx:
        lines.append("pre put %s %s" % (hx(b"a"), hx(b"pa")))
        pre[b"a"] = b"pa".hex()
    for k in keys:
        lines.append("pre put %s %s" % (hx(k), hx(b"p" + k[-3:])))
    keep = set(r.sample(range(8), r.choice([1, 1, 2])))
    for i, k in enumerate(keys):
        if i % 8 in keep:
            pre[k] = (b"p" + k[-3:]).hex()
        else:
            lines.append("pre remove %s" % hx(k))
    live = sorted(k for k in pre if k != b"a")
    per = len(keep)
    groups = [live[i:i + per] for i in range(0, len(live), per)]
    nthreads = r.choice([2, 2, 3, 3])
    busy_sibling = r.random() < 0.4     # one sibling is emptied while the other one only receives writes
    for t in range(nthreads):
        lines.append("thread %d" % t)
        if busy_sibling and t == 1 and len(groups) > 1:
            g = groups[1]
            for i in range(r.choice([2, 3, 4])):
                x = r.random()
                if x < 0.4:
                    lines.append("op put %s %s 0" % (hx(g[0]), hx(b"%dw%d" % (t, i))))
                elif x < 0.8:
                    lines.append("op put %s %s 0" % (hx(g[0] + b"w%d" % (i % 2)), hx(b"%dn%d" % (t, i))))
                else:
                    lines.append("op remove %s" % hx(g[0] + b"w%d" % (i % 2)))
        elif t < len(groups) and t < 2 or (t < len(groups) and r.random() < 0.5):
            g = list(groups[t])
            if r.random() < 0.5:
                g.reverse()
            for k in g:
                lines.append("op remove %s" % hx(k))
            for rep in range(r.choice([0, 1, 1, 2])):
                k = pfx + b"k%02dx%d" % (r.randrange(n), t)
                lines.append("op put %s %s 0" % (hx(k), hx(b"%dv%d" % (t, rep))))
                if r.random() < 0.8:
                    lines.append("op remove %s" % hx(k))
        else:
            for i in range(r.choice([1, 2, 3])):
                x = r.random()
                k = pfx + b"k%02d" % r.randrange(n)
                if x < 0.4:
                    lines.append("op put %s %s 0" % (hx(k + b"y"), hx(b"%dy%d" % (t, i))))
                elif x < 0.6:
                    lines.append("op remove %s" % hx(k + b"y"))
                elif x < 0.8:
                    lines.append("op get %s" % hx(r.choice(live)))
                else:
                    lines.append("op scan - F - F 0 0")
    return "\n".join(lines) + "\n", pre, {"shape": "collapse", "threads": nthreads, "kind": "collapse"}


def make_version_workload(seed):
    """threads using one node_version64 through its public operations: writers (lock, flag, unlock),
    stable-version readers, and non-owners that flip the root / border flags; the initial word puts
    the counters at and next to the 2^29 wrap boundary"""
    r = random.Random("version/%d" % seed)
    top = (1 << 29) - 1
    vi = r.choice([0, 1, 12345, top - 1, top, top])
    vs = r.choice([0, 7, top - 1, top, top])
    word = vi | (vs << 32) | (r.getrandbits(1) << 61) | (r.getrandbits(1) << 62) | (r.getrandbits(1) << 63)
    lines = ["storage 61", "bg 0", "rawver %016x" % word]
    nthreads = r.choice([2, 3, 3, 4])
    for t in range(nthreads):
        lines.append("thread %d" % t)
        role = "writer" if t == 0 else r.choice(["writer", "reader", "reader", "flagger"] if t > 1 else ["reader", "writer"])
        if role == "flagger" and t != nthreads - 1:
            role = "reader"
        for i in range(r.choice([1, 2, 3])):
            if role == "writer":
                fl = r.choice(["", "i", "s", "is", "i", "n", "in"])
                if t == 0 and r.random() < 0.4:
                    fl += r.choice("dD")
                lines.append("op vcs %s" % fl if fl else "op vcs")
            elif role == "reader":
                lines.append("op vstable")
            else:
                lines.append(r.choice(["op vroot 1", "op vroot 0", "op vborder 1", "op vborder 0"]))
    return "\n".join(lines) + "\n", {}, {"shape": "version", "threads": nthreads, "kind": "version"}


def make_toprank_workload(seed):
    """readers look up the highest-ranked keys of one border while writers remove and re-insert
    lower keys of the same border: a lookup must use ONE permutation word (order and count)"""
    r = random.Random("toprank/%d" % seed)
    n = r.choice([3, 6, 12, 14])
    keys = [b"k%02d" % i for i in range(n)]
    lines = ["storage 61", "bg 0"]
    pre = {}
    for k in keys:
        lines.append("pre put %s %s" % (hx(k), hx(b"p" + k[-3:])))
        pre[k] = (b"p" + k[-3:]).hex()
    top = keys[-2:]
    low = keys[:-2] if n > 2 else keys[:1]
    nthreads = r.choice([2, 3, 3])
    for t in range(nthreads):
        lines.append("thread %d" % t)
        if t == 0 or (t == 2 and r.random() < 0.5):
            for i in range(r.choice([2, 3, 4])):
                k = r.choice(top)
                x = r.random()
                if x < 0.7:
                    lines.append("op get %s" % hx(k))
                elif x < 0.85:
                    lines.append("op put %s %s 0" % (hx(k), hx(b"%du%d" % (t, i))))
                else:
                    lines.append("op put %s %s 1" % (hx(k), hx(b"%dq%d" % (t, i))))
        else:
            for i in range(r.choice([2, 3, 4])):
                k = r.choice(low)
                if r.random() < 0.6:
                    lines.append("op remove %s" % hx(k))
                else:
                    lines.append("op put %s %s 0" % (hx(k), hx(b"%dw%d" % (t, i))))
    return "\n".join(lines) + "\n", pre, {"shape": "toprank", "threads": nthreads, "kind": "toprank"}


def make_rmrace_workload(seed):
    """several sessions remove (and re-insert) the SAME keys: the loser of a remove/remove race must
    find the key gone under the lock and leave without touching the node; values inline
    (pointer-sized, the slot is not reset by a remove) or out-of-line"""
    r = random.Random("rmrace/%d" % seed)
    if r.random() < 0.25:
        # an emptied tree (the deleted empty root border stays): several sessions insert the same
        # new key (unique and not), or long keys sharing a new prefix, at once
        lines = ["storage 61", "bg 0"]
        for k in [b"k1", b"k2"]:
            lines.append("pre put %s %s" % (hx(k), hx(b"p" + k)))
        for k in [b"k1", b"k2"]:
            lines.append("pre remove %s" % hx(k))
        hot = r.choice([[b"n1"], [b"n1", b"n2"], [b"prefix__a", b"prefix__b"]])
        nthreads = r.choice([2, 3])
        for t in range(nthreads):
            lines.append("thread %d" % t)
            for i in range(r.choice([1, 2])):
                k = r.choice(hot)
                x = r.random()
                if x < 0.7:
                    lines.append("op put %s %s %d" % (hx(k), hx(b"%dn%d" % (t, i)), 1 if r.random() < 0.6 else 0))
                elif x < 0.85:
                    lines.append("op get %s" % hx(k))
                else:
                    lines.append("op remove %s" % hx(k))
        return "\n".join(lines) + "\n", {}, {"shape": "rmrace/emptied", "threads": nthreads, "kind": "rmrace"}
    shape = r.choice(["single", "single", "full", "two_level", "eight"])
    keys = shape_keys(r, shape)
    if shape == "full":
        keys = keys[:14]
    inline = r.random() < 0.6
    lines = ["storage 61", "bg 0"]
    pre = {}
    for j, k in enumerate(keys):
        if inline:
            lines.append("pre puti %s %x" % (hx(k), 0x700 + j))
            pre[k] = "i%016x" % (0x700 + j)
        else:
            lines.append("pre put %s %s" % (hx(k), hx(b"p" + k[-3:])))
            pre[k] = (b"p" + k[-3:]).hex()
    hot = r.sample(sorted(pre), min(len(pre), r.choice([1, 1, 2])))
    nthreads = r.choice([2, 3, 3])
    for t in range(nthreads):
        lines.append("thread %d" % t)
        for i in range(r.choice([1, 2, 3])):
            k = r.choice(hot)
            x = r.random()
            if x < 0.5:
                lines.append("op remove %s" % hx(k))
            elif x < 0.7:
                if inline:
                    lines.append("op puti %s %x" % (hx(k), 0x2000 + 64 * t + i))
                else:
                    lines.append("op put %s %s 0" % (hx(k), hx(b"%dv%d" % (t, i))))
            else:
                lines.append("op %s %s" % ("geti" if inline else "get", hx(k)))
    return "\n".join(lines) + "\n", pre, {"shape": "rmrace/" + shape, "threads": nthreads, "kind": "rmrace"}


def make_workload(seed, kind, shape=None):
    """returns (text, pre dict, meta)"""
    if kind == "rmrace":
        return make_rmrace_workload(seed)
    if kind == "toprank":
        return make_toprank_workload(seed)
    if kind == "version":
        return make_version_workload(seed)
    if kind == "collapse":
        return make_collapse_workload(seed)
    if kind == "scanedge":
        return make_scanedge_workload(seed)
    if kind == "overwrite":
        return make_overwrite_workload(seed)
    if kind == "storage":
        return make_storage_workload(seed)
    if kind == "reuse":
        return make_reuse_workload(seed)
    if kind.startswith("session"):
        return make_session_workload(seed, int(kind[7:] or 8))
    if kind == "epoch":
        return make_epoch_workload(seed)
    r = random.Random("%s/%d" % (kind, seed))
    shapes = ["empty", "single", "full", "two_level", "layers", "sparse", "three_level", "deep_layers",
              "layer_full", "layer_single", "layer_two_level", "eight", "eight"]
    if shape is None:
        shape = r.choice(shapes)
    keys = shape_keys(r, shape)
    lines = ["storage 61", "bg 0"]
    pre = {}
    for k in keys:
        v = b"p" + k[-3:]
        lines.append("pre put %s %s" % (hx(k), hx(v)))
        pre[k] = v.hex()
    if shape == "sparse":
        # thin the tree out so that single-entry borders exist
        for i, k in enumerate(keys):
            if i % 8 not in (0, 7):
                lines.append("pre remove %s" % hx(k))
                pre.pop(k, None)
    live = sorted(pre)
    # a small alphabet of contended keys: existing ones at node boundaries, absent neighbours
    alpha = []
    if live:
        alpha += [live[0], live[-1], live[len(live) // 2]]
        if len(live) > 8:
            alpha += [live[7], live[8]]
    for k in list(alpha):
        alpha.append(k + b"0")
    alpha += [b"k0", b"prefix__s99", b"prefix__", b"prefix__only", b"prefix__s07x"]
    alpha = list(dict.fromkeys(alpha))
    r.shuffle(alpha)
    alpha = alpha[: r.choice([2, 3, 4, 6])]
    nthreads = r.choice([2, 2, 3, 3, 4])
    inline_vals = kind == "point" and r.random() < 0.3
    if inline_vals:
        # the contended keys start out with inline values too
        for j, k in enumerate(a for a in alpha if a in pre):
            lines.insert(2 + len(keys), "pre puti %s %x" % (hx(k), 0x900 + j))
            pre[k] = "i%016x" % (0x900 + j)
    for t in range(nthreads):
        lines.append("thread %d" % t)
        role = "point"
        if kind == "scan" and t == 0:
            role = "scan"
        elif kind == "cursor" and t == 0:
            role = "cursor"
        elif kind == "nodeset" and t == 0:
            role = "scan_nodes"
        nops = r.choice([1, 2, 3, 4]) if role == "point" else r.choice([1, 2])
        for i in range(nops):
            val = ("%dx%d" % (t, i)).encode()
            if role == "point":
                k = r.choice(alpha)
                x = r.random()
                if kind == "nodeset":
                    # fresh keys only, inserted once: next to existing keys
                    k = r.choice(live if live else [b"k"]) + b"n%d%d" % (t, i)
                    if r.random() < 0.35:
                        # a short fresh key: lands in the root border even when everything else lives in sub-layers
                        k = r.choice([b"a", b"m", b"prefix_", b"pz", b"z", b""]) + b"%d%d" % (t, i)
                    lines.append("op put %s %s 0" % (hx(k), hx(val)))
                elif kind == "split":
                    # inserts that split / removes that empty nodes
                    if x < 0.6:
                        k = r.choice(live if live else [b"k"]) + b"%d%d" % (t, i)
                        lines.append("op put %s %s 0" % (hx(k), hx(val)))
                    elif x < 0.9 and live:
                        lines.append("op remove %s" % hx(r.choice(live)))
                    else:
                        lines.append("op get %s" % hx(r.choice(alpha)))
                elif x < 0.35:
                    if inline_vals and r.random() < 0.6:
                        # a pointer-sized value stored in the slot itself (remove does not reset such a slot)
                        lines.append("op puti %s %x" % (hx(k), 0x1000 + 64 * t + i))
                    else:
                        lines.append("op put %s %s %d" % (hx(k), hx(val), 1 if r.random() < 0.25 else 0))
                elif x < 0.6:
                    lines.append("op remove %s" % hx(k))
                else:
                    lines.append("op get %s" % hx(k))
            elif role in ("scan", "scan_nodes"):
                c = [b""] + alpha + live[:1] + live[-1:]
                lk, rk = r.choice(c), r.choice(c)
                le, re_ = r.choice("EIF"), r.choice("EIF")
                if le != "F" and re_ != "F" and lk > rk:
                    lk, rk = rk, lk
                if le != "F" and re_ != "F" and lk == rk:
                    le = re_ = "I"
                if le == "F" and re_ == "E" and rk == b"":
                    re_ = "I"
                mx, r2l = r.choice([0, 0, 0, 1, 2]), 0
                if r.random() < 0.15:
                    mx, r2l, re_ = 1, 1, "F"
                lines.append("op scan %s %s %s %s %d %d" % (hx(lk), le, hx(rk), re_, mx, r2l))
            else:
                c = [b""] + alpha + live[:1] + live[-1:]
                lk, rk = r.choice(c), r.choice(c)
                le, re_ = r.choice("EIF"), r.choice("EIF")
                if le != "F" and re_ != "F" and lk > rk:
                    lk, rk = rk, lk
                if le != "F" and re_ != "F" and lk == rk:
                    le = re_ = "I"
                if le == "F" and re_ == "E" and rk == b"":
                    re_ = "I"
                lines.append("op iscan %s %s %s %s %d %d %d" % (hx(lk), le, hx(rk), re_, 1 if r.random() < 0.4 else 0,
                                                            1 if r.random() < 0.3 else 0, r.choice([400, 400, 3])))
    return "\n".join(lines) + "\n", pre, {"shape": shape, "threads": nthreads, "kind": kind}


def run_workload(binary, text, runs, seed, policy="random", trace=False, timeout=120):
    fd, path = tempfile.mkstemp(prefix="w_", suffix=".txt", dir=WL_DIR)   # unique even for identical texts
    with os.fdopen(fd, "w") as f:
        f.write(text)
    cmd = [binary, path, str(runs), str(seed), policy] + (["trace"] if trace else [])
    try:
        p = subprocess.run(cmd, capture_output=True, text=True, timeout=timeout)
        rc, out, err = p.returncode, p.stdout, p.stderr
    except subprocess.TimeoutExpired as e:
        rc = -999
        out = e.stdout.decode() if isinstance(e.stdout, bytes) else (e.stdout or "")
        err = "timeout after %ds" % timeout
    finally:
        try:
            os.remove(path)
        except OSError:
            pass
    return rc, out, err


def check_workload(binary, text, pre, runs, seed, classes, policy="random"):
    """returns dict(nruns, steps, failures=[(run header, class, msg, schedule)], crash)"""
    rc, out, err = run_workload(binary, text, runs, seed, policy)
    res = {"nruns": 0, "steps": 0, "failures": [], "crash": None, "ops": 0}
    rr = hist.parse(out)
    res["nruns"] = len(rr)
    for r in rr:
        try:
            res["steps"] += int(r.header.split()[5])
        except (IndexError, ValueError):
            pass
        res["ops"] += len(r.h)
        for cls, msg in hist.check_run(r, pre, classes):
            res["failures"].append((r.header, cls, msg, r.sched))
    if rc != 0:
        res["crash"] = "scheddrv exit %d: %s" % (rc, (err or "")[-1500:])
    return res
