import YakModel.UnitCheck

open Yak

/-- generic transcript loop: `check` returns `.ok` or a message; prints at most 20 diffs. -/
partial def runLines (h : IO.FS.Stream) (check : String → Except String Unit) : IO UInt32 := do
  let mut n := 0
  let mut bad := 0
  repeat
    let line ← h.getLine
    if line.isEmpty then break
    let l := line.trimAscii.toString
    if l.isEmpty then continue
    n := n + 1
    match check l with
    | .ok _ => pure ()
    | .error e =>
      bad := bad + 1
      if bad ≤ 20 then IO.println s!"DIFF line {n}: {l} :: {e}"
  IO.println s!"checked {n} diffs {bad}"
  return (if bad == 0 then 0 else 1)

def main (args : List String) : IO UInt32 := do
  let stdin ← IO.getStdin
  match args with
  | ["unit"] => runLines stdin UnitCheck.checkLine
  | _ => do
    IO.eprintln "usage: yakmodel unit|seq|trace < transcript"
    return 2
