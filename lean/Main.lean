import YakModel.UnitCheck
import YakModel.SeqCheck
import YakModel.SessCheck
import YakModel.EpochCheck
import YakModel.VersCheck
import YakModel.AbsorbCheck
import YakModel.LeafCheck
import YakModel.NodeSetCheck

open Yak

/-- generic transcript loop: `check` returns `.ok` or a message; prints at most 20 diffs. -/
partial def runLines (h : IO.FS.Stream) (check : String → Except String Unit) : IO UInt32 := do
  let mut n := 0
  let mut bad := 0
  repeat
    let line ← h.getLine
    if line.isEmpty then break
    let l := line.trimAscii.toString
    if l.isEmpty then continue
    n := n + 1
    match check l with
    | .ok _ => pure ()
    | .error e =>
      bad := bad + 1
      if bad ≤ 20 then IO.println s!"DIFF line {n}: {l} :: {e}"
  IO.println s!"checked {n} diffs {bad}"
  return (if bad == 0 then 0 else 1)

/-- stateful transcript loop for `seqdrv` transcripts. `focus` = the difference classes that
    count (empty = all). A difference outside the focus is only counted. After a dump mismatch
    inside the focus the model state is no longer meaningful: stop. -/
partial def runSeq (h : IO.FS.Stream) (cfg : Tree.Cfg) (focus : List String) : IO UInt32 := do
  let mut st : SeqCheck.St := { cands := [{ cfg := cfg }] }
  let mut n := 0
  let mut lastOp := ""
  let mut opNo := 0
  let mut bad := 0
  let mut ignored := 0
  repeat
    let line ← h.getLine
    if line.isEmpty then break
    let l := line.trimAscii.toString
    if l.isEmpty then continue
    n := n + 1
    if l.startsWith "> " then
      lastOp := l
      opNo := opNo + 1
    let (st', errs) := SeqCheck.stepLine st l
    st := st'
    for (c, e) in errs do
      if focus.isEmpty || focus.contains c || c == "misc" then
        bad := bad + 1
        if bad ≤ 5 then IO.println s!"DIFF class {c} line {n} op {opNo}: {lastOp} :: {e}"
      else
        ignored := ignored + 1
    if bad > 0 then break
  IO.println ("STATS " ++ String.intercalate " " (st.stats.map (fun (k, v) => s!"{k}={v}")) ++ s!" ignored_diffs={ignored}")
  IO.println s!"checked {n} diffs {bad}"
  return (if bad == 0 then 0 else 1)

/-- session-table acceptor: one run per `RUN` header; capacity from the command line -/
partial def runSess (h : IO.FS.Stream) (n : Nat) : IO UInt32 := do
  let fresh : SessCheck.St := { cfg := { N := n }, s := Proto.Session.init { N := n } }
  let mut st := fresh
  let mut runs := 0
  let mut bad := 0
  let mut events := 0
  let mut enters := 0
  let mut fulls := 0
  let mut casFails := 0
  let mut lineNo := 0
  let mut dead := false
  repeat
    let line ← h.getLine
    if line.isEmpty then break
    let l := line.trimAscii.toString
    lineNo := lineNo + 1
    if l.startsWith "RUN " then
      events := events + st.events; enters := enters + st.enters; fulls := fulls + st.fulls; casFails := casFails + st.casFails
      st := fresh
      runs := runs + 1
      dead := false
    else if l.startsWith "T " && !dead then
      match SessCheck.stepLine st l with
      | .ok st' => st := st'
      | .error e =>
        bad := bad + 1
        dead := true
        if bad ≤ 5 then IO.println s!"DIFF class session run {runs} line {lineNo}: {l} :: {e}"
  events := events + st.events; enters := enters + st.enters; fulls := fulls + st.fulls; casFails := casFails + st.casFails
  IO.println s!"STATS runs={runs} model_events={events} enters={enters} max_sessions={fulls} cas_failures={casFails}"
  IO.println s!"checked {lineNo} diffs {bad}"
  return (if bad == 0 then 0 else 1)

/-- reclamation-protocol monitor: evaluates the proved invariants of Proto/Epoch on real traces -/
partial def runEpoch (h : IO.FS.Stream) : IO UInt32 := do
  let mut st : EpochCheck.St := {}
  let mut runs := 0
  let mut bad := 0
  let mut checks := 0
  let mut retired := 0
  let mut reclaimed := 0
  let mut incs := 0
  let mut lineNo := 0
  let mut dead := false
  repeat
    let line ← h.getLine
    if line.isEmpty then break
    let l := line.trimAscii.toString
    lineNo := lineNo + 1
    if l.startsWith "RUN " then
      checks := checks + st.checks; retired := retired + st.retired; reclaimed := reclaimed + st.reclaimed; incs := incs + st.incs
      st := {}
      runs := runs + 1
      dead := false
    else if (l.startsWith "T " || l.startsWith "EPOCH0") && !dead then
      match EpochCheck.step st l with
      | .ok st' => st := st'
      | .error e =>
        bad := bad + 1
        dead := true
        if bad ≤ 5 then IO.println s!"DIFF class epochmonitor run {runs} line {lineNo}: {l} :: {e}"
  checks := checks + st.checks; retired := retired + st.retired; reclaimed := reclaimed + st.reclaimed; incs := incs + st.incs
  IO.println s!"STATS runs={runs} invariant_checks={checks} retires={retired} reclaims={reclaimed} epoch_increments={incs}"
  IO.println s!"checked {lineNo} diffs {bad}"
  return (if bad == 0 then 0 else 1)

/-- version-word monitor: every successful CAS on a version word is one atomic operation of the
    `Version` model, locks are exclusive, stable reads are clean -/
partial def runVers (h : IO.FS.Stream) : IO UInt32 := do
  let mut st : VersCheck.St := {}
  let mut runs := 0
  let mut bad := 0
  let mut locks := 0
  let mut unlocks := 0
  let mut flags := 0
  let mut incs := 0
  let mut stables := 0
  let mut lineNo := 0
  let mut dead := false
  repeat
    let line ← h.getLine
    if line.isEmpty then break
    let l := line.trimAscii.toString
    lineNo := lineNo + 1
    if l.startsWith "RUN " then
      locks := locks + st.locks; unlocks := unlocks + st.unlocks; flags := flags + st.flags; incs := incs + st.incs; stables := stables + st.stables
      st := {}
      runs := runs + 1
      dead := false
    else if (l.startsWith "V " || l.startsWith "S ") && !dead then
      match VersCheck.step st l with
      | .ok st' => st := st'
      | .error e =>
        bad := bad + 1
        dead := true
        if bad ≤ 5 then IO.println s!"DIFF class versionword run {runs} line {lineNo}: {l} :: {e}"
  locks := locks + st.locks; unlocks := unlocks + st.unlocks; flags := flags + st.flags; incs := incs + st.incs; stables := stables + st.stables
  IO.println s!"STATS runs={runs} lock_transitions={locks} unlock_transitions={unlocks} flag_transitions={flags} counter_increments={incs} stable_reads={stables}"
  IO.println s!"checked {lineNo} diffs {bad}"
  return (if bad == 0 then 0 else 1)

/-- outcome sets of `Proto/Absorb` scenarios (all interleavings of the model) -/
partial def runAbsorb (h : IO.FS.Stream) : IO UInt32 := do
  let mut sc : AbsorbCheck.Scen := {}
  let mut bad := 0
  let mut lineNo := 0
  repeat
    let line ← h.getLine
    if line.isEmpty then break
    lineNo := lineNo + 1
    match AbsorbCheck.stepLine sc line.trimAscii.toString with
    | .ok (sc', out) =>
      sc := sc'
      match out with
      | some o => IO.println o
      | none => pure ()
    | .error e =>
      bad := bad + 1
      IO.println s!"DIFF line {lineNo}: {e}"
  return (if bad == 0 then 0 else 1)

/-- outcome sets of `Proto/Leaf` scenarios (all interleavings of the model); the number of states
    and the time of each scenario go to stderr -/
partial def runLeaf (h : IO.FS.Stream) : IO UInt32 := do
  let out ← IO.getStdout
  let mut sc : LeafCheck.Scen := {}
  let mut bad := 0
  let mut lineNo := 0
  repeat
    let line ← h.getLine
    if line.isEmpty then break
    lineNo := lineNo + 1
    let t0 ← IO.monoMsNow
    match LeafCheck.stepLine sc line.trimAscii.toString with
    | .ok (sc', o) =>
      sc := sc'
      match o with
      | some o =>
        IO.println o.line
        out.flush
        let t1 ← IO.monoMsNow
        IO.eprintln s!"leaf: states={o.states} stuck={o.stuck} ms={t1 - t0}"
      | none => pure ()
    | .error e =>
      bad := bad + 1
      IO.println s!"DIFF line {lineNo}: {e}"
  return (if bad == 0 then 0 else 1)

/-- outcome sets of `Proto/NodeSet` scenarios (all interleavings of the model): the key lists a
    scan can return and the final chains; states, time and self-check counters go to stderr -/
partial def runNodeSet (h : IO.FS.Stream) : IO UInt32 := do
  let out ← IO.getStdout
  let mut sc : NodeSetCheck.Scen := {}
  let mut bad := 0
  let mut lineNo := 0
  repeat
    let line ← h.getLine
    if line.isEmpty then break
    lineNo := lineNo + 1
    let t0 ← IO.monoMsNow
    match NodeSetCheck.stepLine sc line.trimAscii.toString with
    | .ok (sc', o) =>
      sc := sc'
      match o with
      | some o =>
        for l in o.lines do
          IO.println l
        out.flush
        let t1 ← IO.monoMsNow
        IO.eprintln s!"nodeset: states={o.states} ms={t1 - t0} stuck={o.stuck} viol={o.viol}"
      | none => pure ()
    | .error e =>
      bad := bad + 1
      IO.println s!"DIFF line {lineNo}: {e}"
  return (if bad == 0 then 0 else 1)

def cfgOf : String → Tree.Cfg
  | "d2" => { fixD2 := false }
  | "d5" => { fixD5 := false }
  | "d2d5" => { fixD2 := false, fixD5 := false }
  | _ => {}

def main (args : List String) : IO UInt32 := do
  let stdin ← IO.getStdin
  match args with
  | ["unit"] => runLines stdin UnitCheck.checkLine
  | "seq" :: c :: focus => runSeq stdin (cfgOf c) focus
  | ["seq"] => runSeq stdin {} []
  | ["sess", n] => runSess stdin (n.toNat?.getD 8)
  | ["epoch"] => runEpoch stdin
  | ["vers"] => runVers stdin
  | ["absorb"] => runAbsorb stdin
  | ["leaf"] => runLeaf stdin
  | ["nodeset"] => runNodeSet stdin
  | _ => do
    IO.eprintln "usage: yakmodel unit | seq [fixed|d2|d5|d2d5] [focus classes…] < transcript"
    return 2
