import YakModel.UnitCheck
import YakModel.SeqCheck

open Yak

/-- generic transcript loop: `check` returns `.ok` or a message; prints at most 20 diffs. -/
partial def runLines (h : IO.FS.Stream) (check : String → Except String Unit) : IO UInt32 := do
  let mut n := 0
  let mut bad := 0
  repeat
    let line ← h.getLine
    if line.isEmpty then break
    let l := line.trimAscii.toString
    if l.isEmpty then continue
    n := n + 1
    match check l with
    | .ok _ => pure ()
    | .error e =>
      bad := bad + 1
      if bad ≤ 20 then IO.println s!"DIFF line {n}: {l} :: {e}"
  IO.println s!"checked {n} diffs {bad}"
  return (if bad == 0 then 0 else 1)

/-- stateful transcript loop for `seqdrv` transcripts; stops at the first difference (the model
    state is no longer meaningful after one). -/
partial def runSeq (h : IO.FS.Stream) (cfg : Tree.Cfg) : IO UInt32 := do
  let mut st : SeqCheck.St := { cands := [{ cfg := cfg }] }
  let mut n := 0
  let mut lastOp := ""
  let mut opNo := 0
  repeat
    let line ← h.getLine
    if line.isEmpty then break
    let l := line.trimAscii.toString
    if l.isEmpty then continue
    n := n + 1
    if l.startsWith "> " then
      lastOp := l
      opNo := opNo + 1
    let (st', err) := SeqCheck.stepLine st l
    st := st'
    match err with
    | none => pure ()
    | some e =>
      IO.println s!"DIFF line {n} op {opNo}: {lastOp} :: {e}"
      IO.println s!"checked {n} diffs 1"
      return 1
  IO.println ("STATS " ++ String.intercalate " " (st.stats.map (fun (k, v) => s!"{k}={v}")))
  IO.println s!"checked {n} diffs 0"
  return 0

def main (args : List String) : IO UInt32 := do
  let stdin ← IO.getStdin
  match args with
  | ["unit"] => runLines stdin UnitCheck.checkLine
  | ["seq"] => runSeq stdin {}
  | ["seq", "d2"] => runSeq stdin { fixD2 := false }
  | ["seq", "d5"] => runSeq stdin { fixD5 := false }
  | ["seq", "d2d5"] => runSeq stdin { fixD2 := false, fixD5 := false }
  | _ => do
    IO.eprintln "usage: yakmodel unit|seq [d2|d5|d2d5] < transcript"
    return 2
