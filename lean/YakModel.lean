import YakModel.Generated.Constants
import YakModel.Version
import YakModel.Perm
import YakModel.KeyOrder
