import YakModel.Proofs.KeyOrderProofs
/-!
# C18 — All internal key comparisons agree with bytewise lexicographic order
-/
namespace Yak.Props.C18
open Yak

/-- `lexLt` is a strict total order on byte strings (the specification order). -/
theorem lexLt_irrefl (a : Key) : lexLt a a = false := Yak.lexLt_irrefl a
theorem lexLt_trans (a b c : Key) : lexLt a b = true → lexLt b c = true → lexLt a c = true :=
  Yak.lexLt_trans a b c
theorem lexLt_total (a b : Key) : lexLt a b = true ∨ a = b ∨ lexLt b a = true := Yak.lexLt_total a b

/-- `key_tuple::operator<` (with its `memcmp` over `min(len)` bytes of the object representation,
    9 bytes when both are links) is the specification order on well-formed tuples. -/
theorem operatorLt_eq (a b : KT) (ha : a.WF) (hb : b.WF) : KT.lt a b = KT.ltSpec a b :=
  Yak.KT.lt_eq_ltSpec a b ha hb

/-- the specification order on tuples is a strict total order (pairs and triples). -/
theorem ktLt_irrefl (a : KT) : KT.ltSpec a a = false := Yak.KT.ltSpec_irrefl a
theorem ktLt_trans (a b c : KT) : KT.ltSpec a b = true → KT.ltSpec b c = true → KT.ltSpec a c = true :=
  Yak.KT.ltSpec_trans a b c
theorem ktLt_total (a b : KT) (ha : a.WF) (hb : b.WF) :
    KT.ltSpec a b = true ∨ a = b ∨ KT.ltSpec b a = true := Yak.KT.ltSpec_total a b ha hb

/-- leaf lookup test: `hit` iff same tuple (links: same slice), `stop` iff the search key is
    smaller, `next` iff greater. -/
theorem leafProbe_eq (k t : KT) (hk : k.WF) (ht : t.WF) :
    (leafProbe k t = .hit ↔ (k = t)) ∧
    (leafProbe k t = .stop ↔ KT.ltSpec k t = true) ∧
    (leafProbe k t = .next ↔ KT.ltSpec t k = true) := Yak.leafProbe_eq k t hk ht

/-- rank computation in a leaf = number of stored tuples smaller than the key
    (for a sorted leaf that does not contain the key). -/
theorem rankIfInsert_eq (k : KT) (ents : List KT) (hk : k.WF) (he : ∀ t ∈ ents, t.WF)
    (hs : ents.Pairwise (fun a b => KT.ltSpec a b = true)) (hn : k ∉ ents) :
    rankIfInsert k ents = (ents.filter (fun t => KT.ltSpec t k)).length :=
  Yak.rankIfInsert_eq k ents hk he hs hn

/-- interior routing goes left of a separator iff the key is smaller than it. -/
theorem route_eq (k t : KT) (hk : k.WF) (ht : t.WF) : routeLeft k t = KT.ltSpec k t :=
  Yak.routeLeft_eq k t hk ht

/-- interior insertion / interior split side test. -/
theorem interiorLess_eq (k t : KT) (hk : k.WF) (ht : t.WF) : interiorLess k t = KT.ltSpec k t :=
  Yak.interiorLess_eq k t hk ht

/-- border split side decision: for a key distinct from `first`, "lower" iff key < first; the
    fourth disjunct (rank) never changes the decision when `rank` is the key's true rank. -/
theorem borderSplitSide_eq (k first : KT) (rank remaining : Nat) (hk : k.WF) (hf : first.WF)
    (hne : k ≠ first) (hrank : rank < remaining → KT.ltSpec k first = true) :
    borderSplitLower k first rank remaining = KT.ltSpec k first :=
  Yak.borderSplitLower_eq k first rank remaining hk hf hne hrank

/-- re-sorting of a leaf yields the slots in strictly increasing key order. -/
theorem rearrange_sorted (ents : List KT) (he : ∀ t ∈ ents, t.WF) (hd : ents.Nodup) :
    (rearrangeOrder ents).Perm (List.range ents.length) ∧
    ((rearrangeOrder ents).map (fun i => ents[i]!)).Pairwise (fun a b => KT.ltSpec a b = true) :=
  Yak.rearrange_sorted ents he hd

/-- keys are ordered as unsigned byte strings, independent of where the 8-byte slice boundaries
    fall and of zero bytes: the layered (tuple by tuple) comparison equals `lexLt` on full keys. -/
theorem layered_iff_lex (a b : Key) : layeredLt a b = lexLt a b := Yak.layeredLt_eq_lexLt a b

/-- `KT.ofKey` produces well-formed tuples. -/
theorem ofKey_wf (k : Key) : (KT.ofKey k).WF := Yak.KT.ofKey_wf k

-- non-vacuity / the interesting corner: equal padded slices, different lengths, zero bytes
example : KT.lt (KT.ofKey [0x61]) (KT.ofKey [0x61, 0x00]) = true ∧
          KT.lt (KT.ofKey [0x61, 0, 0, 0, 0, 0, 0, 0]) (KT.ofKey [0x61, 0, 0, 0, 0, 0, 0, 0, 0]) = true := by
  decide

end Yak.Props.C18
