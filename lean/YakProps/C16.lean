import YakModel.Proto.Lifecycle
import YakModel.Proofs.LifecycleProofs
/-!
# C16 — init()/fin() can be repeated; destroy() leaves an empty, usable system

Property theorems only (lemmas live in `YakModel/Proofs/LifecycleProofs.lean`), stated over the
model `Yak.Proto.Lifecycle`. `cfgFixed n` is the repaired code (the stop flags are reset when the
threads are started), `cfgD4 n` the code before the repair; `n` is the number of session slots and
is arbitrary. "Reachable" = reachable from process start (`boot`) by *any* sequence of events, so
every statement holds after any number of complete cycles with arbitrary events inside them; the
ghost counter `cycles` counts completed init()…fin() cycles and the `*_reachable` theorems show
that every cycle index actually occurs.
-/
namespace Yak.Props.C16
open Yak.Proto.Lifecycle

theorem reach_is_accepted_trace (c : Cfg) (s : State) :
    Reach c s ↔ ∃ es, exec c (boot c) es = some s :=
  ⟨exec_of_reach, fun ⟨es, h⟩ => reach_exec es Reach.boot h⟩

/-! ## every cycle starts like the first -/

/-- In any reachable state in which the system is down (before the first init() or after any
    fin()), `init` is enabled and yields *exactly* the state the very first init() of the process
    produced (`firstUp`: no storages, all slots free, both threads running, both stop flags clear,
    nothing retired) — up to the value of the epoch, which keeps counting, and the ghost cycle
    counter. -/
theorem cycle_like_first (n : Nat) (s : State) (h : Reach (cfgFixed n) s) (hdown : s.up = false) :
    step? (cfgFixed n) s .init =
      some { firstUp (cfgFixed n) with epoch := s.epoch, cycles := s.cycles } :=
  init_from_down rfl (linv_reach rfl h) hdown

/-- `firstUp` spelled out, and it is what the first init() produces. -/
theorem firstUp_spec (n : Nat) :
    step? (cfgFixed n) (boot (cfgFixed n)) .init = some (firstUp (cfgFixed n)) ∧
    (firstUp (cfgFixed n)).storages = [] ∧
    (firstUp (cfgFixed n)).slots = List.replicate n (false, 0) ∧
    (firstUp (cfgFixed n)).epochThread = .running ∧ (firstUp (cfgFixed n)).gcThread = .running ∧
    (firstUp (cfgFixed n)).epochEnd = false ∧ (firstUp (cfgFixed n)).gcEnd = false ∧
    (firstUp (cfgFixed n)).retired = 0 ∧ (firstUp (cfgFixed n)).up = true :=
  ⟨first_init _, rfl, rfl, rfl, rfl, rfl, rfl, rfl, rfl⟩

/-- non-vacuity, "any number of repetitions": for every `k` a down state with exactly `k`
    completed cycles is reachable, and so is a live state in cycle `k`. -/
theorem down_reachable (n k : Nat) :
    ∃ s, Reach (cfgFixed n) s ∧ s.up = false ∧ s.cycles = k :=
  Yak.Proto.Lifecycle.down_reachable rfl k
theorem live_reachable (n k : Nat) :
    ∃ s, Reach (cfgFixed n) s ∧ s.up = true ∧ s.finishing = false ∧ s.cycles = k :=
  Yak.Proto.Lifecycle.live_reachable rfl k

/-- a down state reached after a cycle that had storages, open sessions and retired objects in it -/
example : ∃ s, exec (cfgFixed 2) (boot (cfgFixed 2))
      [.init, .create "a", .enter 0, .retire, .enter 1, .finBegin, .gcIter, .epochIter, .finEnd]
        = some s ∧ s.up = false ∧ s.cycles = 1 ∧ s.slots = [(true, 1), (true, 1)] := by
  exact ⟨_, rfl, rfl, rfl, rfl⟩

/-! ## the epoch advances and memory is reclaimed in every cycle -/

/-- While the system is live (up, fin() not begun) — in whichever cycle — an iteration of the
    epoch thread is enabled, increases the epoch by one and changes nothing else: in particular
    the thread keeps running and the state stays live, so this holds again for the next iteration. -/
theorem epoch_progress_enabled (n : Nat) (s : State) (h : Reach (cfgFixed n) s)
    (hup : s.up = true) (hnf : s.finishing = false) :
    step? (cfgFixed n) s .epochIter = some { s with epoch := s.epoch + 1 } ∧
    s.epoch < s.epoch + 1 ∧ s.epochThread = .running :=
  ⟨epoch_iter_live (linv_reach rfl h) hup hnf, Nat.lt_succ_self _,
   ((linv_reach rfl h).live hup hnf).1⟩

/-- Likewise an iteration of the gc thread is enabled, reclaims what was retired and changes
    nothing else (the thread keeps running). -/
theorem reclaim_enabled_while_running (n : Nat) (s : State) (h : Reach (cfgFixed n) s)
    (hup : s.up = true) (hnf : s.finishing = false) :
    step? (cfgFixed n) s .gcIter = some { s with retired := 0 } ∧ s.gcThread = .running :=
  ⟨gc_iter_live (linv_reach rfl h) hup hnf, ((linv_reach rfl h).live hup hnf).2.1⟩

/-! ## destroy -/

/-- `destroy` is enabled in every live state, empties the storage table and touches nothing else
    (system still up, threads still running, sessions untouched); afterwards `create` works (given
    a free session slot, which `create_storage` needs in any state) and the new storage is the
    only one. -/
theorem destroy_leaves_usable (n : Nat) (s : State) (h : Reach (cfgFixed n) s)
    (hup : s.up = true) (hnf : s.finishing = false) :
    step? (cfgFixed n) s .destroy = some { s with storages := [] } ∧
    ({ s with storages := [] } : State).up = true ∧
    ({ s with storages := [] } : State).epochThread = .running ∧
    ({ s with storages := [] } : State).gcThread = .running ∧
    (∀ nm, s.hasFreeSlot = true →
      step? (cfgFixed n) { s with storages := [] } (.create nm) = some { s with storages := [nm] }) :=
  ⟨destroy_live _ hup hnf, hup, ((linv_reach rfl h).live hup hnf).1,
   ((linv_reach rfl h).live hup hnf).2.1, fun nm hfree => create_after_destroy _ hup hnf hfree nm⟩

/-- non-vacuity: a live state with storages and a free slot -/
example : ∃ s, exec (cfgFixed 2) (boot (cfgFixed 2)) [.init, .create "a", .create "b", .enter 0]
      = some s ∧ s.up = true ∧ s.finishing = false ∧ s.hasFreeSlot = true ∧
        s.storages = ["b", "a"] := ⟨_, rfl, rfl, rfl, rfl, rfl⟩

/-! ## fin with sessions left open -/

/-- From every live state — whatever the session slots contain, e.g. all of them open — fin()
    runs to completion: after the flags are set one iteration of each thread makes it exit and
    `finEnd` is enabled; the system is down with one more completed cycle (and by
    `cycle_like_first` the next init() frees every slot). -/
theorem open_sessions_do_not_block_fin (n : Nat) (s : State) (h : Reach (cfgFixed n) s)
    (hup : s.up = true) (hnf : s.finishing = false) :
    exec (cfgFixed n) s [.finBegin, .epochIter, .gcIter, .finEnd] =
      some { s with storages := [], epochEnd := true, gcEnd := true, epochThread := .exited,
                    gcThread := .exited, epoch := s.epoch + 1, retired := 0, up := false,
                    finishing := false, cycles := s.cycles + 1 } :=
  fin_from_live (linv_reach rfl h) hup hnf

/-- and from every state inside fin(), in whatever order the threads have been scheduled so far,
    at most three more events complete it. -/
theorem fin_always_completes (n : Nat) (s : State) (h : Reach (cfgFixed n) s)
    (hf : s.finishing = true) :
    ∃ es s', (∀ e ∈ es, e = .epochIter ∨ e = .gcIter ∨ e = .finEnd) ∧ es.length ≤ 3 ∧
      exec (cfgFixed n) s es = some s' ∧ s'.up = false ∧ s'.cycles = s.cycles + 1 :=
  fin_completes (linv_reach rfl h) hf

/-- non-vacuity: a reachable live state with every slot occupied (second cycle) -/
example : ∃ s, exec (cfgFixed 2) (boot (cfgFixed 2)) (emptyCycle ++ [.init, .enter 1, .enter 0])
      = some s ∧ s.up = true ∧ s.finishing = false ∧ s.hasFreeSlot = false ∧ s.cycles = 1 :=
  ⟨_, rfl, rfl, rfl, rfl, rfl⟩

/-! ## the defect D4 (code before the repair) -/

/-- Two cycles on the unrepaired code: after the second init() a single iteration makes the epoch
    thread exit; the system is up, `epochIter` is no longer enabled (the epoch is frozen), and
    likewise the gc thread: an object retired afterwards is not reclaimed while running. -/
theorem D4_counterexample :
    ∃ s, exec (cfgD4 1) (boot (cfgD4 1))
        [.init, .finBegin, .epochIter, .gcIter, .finEnd, .init, .epochIter, .gcIter, .retire] = some s ∧
      s.up = true ∧ s.finishing = false ∧ s.epochThread = .exited ∧ s.gcThread = .exited ∧
      s.retired = 1 ∧ step? (cfgD4 1) s .epochIter = none ∧ step? (cfgD4 1) s .gcIter = none := by
  exact ⟨_, rfl, rfl, rfl, rfl, rfl, rfl, rfl, rfl⟩

/-- the same trace on the repaired code: both threads are still running. -/
example : ∃ s, exec (cfgFixed 1) (boot (cfgFixed 1))
        [.init, .finBegin, .epochIter, .gcIter, .finEnd, .init, .epochIter, .gcIter, .retire] = some s ∧
      s.epochThread = .running ∧ s.gcThread = .running ∧
      (step? (cfgFixed 1) s .epochIter).isSome = true := ⟨_, rfl, rfl, rfl, rfl⟩

/-- D4 in general: on the unrepaired code, in every cycle after the first both stop flags are set
    throughout, so the first iteration of the epoch thread (and of the gc thread) is its last. -/
theorem D4_every_later_cycle (n : Nat) (s s' : State) (h : Reach (cfgD4 n) s)
    (hc : 1 ≤ s.cycles) :
    s.epochEnd = true ∧ s.gcEnd = true ∧
    (step? (cfgD4 n) s .epochIter = some s' → s'.epochThread = .exited) := by
  have := (dinv_reach rfl h).flags (Or.inr hc)
  refine ⟨this.1, this.2, fun hs => ?_⟩
  simp only [step?, this.1] at hs
  split at hs
  · cases hs; rfl
  · cases hs

end Yak.Props.C16
