import YakModel.Proofs.ValueProofs
/-!
# C15 — Values round-trip with exact bytes, length, alignment (layout part)

The byte round-trip through put/get/scan/iscan is part of the sequential refinement (C02/C03/C10:
the model stores the bytes). Here: the block layout arithmetic and the pointer tagging.
-/
namespace Yak.Props.C15
open Yak.Value Yak.Const

/-- the body address is aligned to the requested alignment, for every power-of-two alignment that
    fits the 16-bit header field, given that the allocator honoured the (effective) alignment. -/
theorem body_aligned (base len k : Nat) (hk : k ≤ 15) (hbase : base % effAlign (2^k) = 0) :
    bodyAddr base (mkHeader len (2^k)) % 2^k = 0 := Yak.Value.body_aligned base len k hk hbase

/-- header and body do not overlap and the body lies inside the allocated block. -/
theorem regions (base len k : Nat) (hk : k ≤ 15) (hl : len < 2^32) :
    base + headerBytes ≤ bodyAddr base (mkHeader len (2^k)) ∧
    bodyAddr base (mkHeader len (2^k)) + getLen (mkHeader len (2^k)) ≤ base + totalLen len (2^k) :=
  Yak.Value.regions base len k hk hl

/-- the (size, alignment) handed to sized `operator delete` equal those requested from `new`. -/
theorem gc_size_matches_alloc (len k : Nat) (hk : k ≤ 15) (hl : len < 2^32) :
    gcInfo (mkHeader len (2^k)) = (totalLen len (2^k), effAlign (2^k)) :=
  Yak.Value.gc_size_matches_alloc len k hk hl

/-- length round-trip within the header field width. -/
theorem len_roundtrip (len align : Nat) (hl : len < 2^32) : getLen (mkHeader len align) = len :=
  Yak.Value.len_roundtrip len align hl

/-- tagging round-trip for addresses below 2^62. -/
theorem tag_roundtrip (a : W) (ha : a.toNat < 2^62) :
    untag (tagValue a) = a ∧ isValuePtr (tagValue a) = true ∧
    (a ≠ 0#64 → classify (tagValue a) = .outOfLine a) := Yak.Value.tag_roundtrip a ha

/-- pointer-typed (inline) values are stored and returned by value. -/
theorem inline_by_value (v : W) (hv : v.toNat < 2^62) : classify v = .inlineVal v :=
  Yak.Value.inline_by_value v hv

/-- a next-layer link is recognised as a link and returns the child address. -/
theorem link_roundtrip (c : W) (hc : c.toNat < 2^62) : classify (setNextLayer c) = .link c :=
  Yak.Value.link_roundtrip c hc

end Yak.Props.C15
