import YakModel.Proofs.TreeProofs
/-!
# C12 — put reports exactly the border nodes whose versions its insert changed

Leaves carry their two version counters; `put` returns `modified` / `created` as (layer prefix,
index in the layer's chain). Indices after a split shift by one, which the statement makes
explicit.
-/
namespace Yak.Props.C12
open Yak Yak.Tree

def ver (l : Leaf) : Nat × Nat × Bool := (l.vins, l.vsplit, l.deleted)

/-- An overwrite of an existing key changes no node version (and reports no node). -/
theorem put_update_changes_nothing (t : Tree) (k : Key) (v : Val) (h : Inv t)
    (hk : ((get t k).val).isSome = true) :
    (put t k v false).modified = none ∧ (put t k v false).created = none ∧
    (put t k v false).tree.length = t.length ∧
    ∀ L ∈ t, ∃ L' ∈ (put t k v false).tree, L'.pfx = L.pfx ∧ L'.leaves.map ver = L.leaves.map ver :=
  Yak.Tree.put_update_changes_nothing t k v h hk

/-- An insert reports `modified = (p, i)`; every pre-existing layer other than `p` is untouched;
    in layer `p` either leaf `i` alone changes (its insert counter moves by one; no `created`),
    or leaf `i` is split into two leaves at `i`, `i+1` whose insert *and* split counters both
    moved by one relative to the old leaf, `created = (p, i+1)`, and all other leaves keep
    their versions (those after `i` shift by one position). Layers created for a long key are
    new nodes, not changed ones. -/
theorem put_insert_reports (t : Tree) (k : Key) (v : Val) (uniq : Bool) (h : Inv t)
    (hk : (get t k).val = none) :
    ∃ p i L leaf, (put t k v uniq).modified = some (p, i) ∧ findLayer t p = some L ∧
      L.leaves[i]? = some leaf ∧
      (∀ M ∈ t, M.pfx ≠ p → M ∈ (put t k v uniq).tree) ∧
      ∃ L', findLayer (put t k v uniq).tree p = some L' ∧
        (((put t k v uniq).created = none ∧ ∃ leaf', L'.leaves = L.leaves.set i leaf' ∧
            leaf'.vins = leaf.vins + 1 ∧ leaf'.vsplit = leaf.vsplit ∧ leaf.ents.length < 15) ∨
         ((put t k v uniq).created = some (p, i + 1) ∧ ∃ a b,
            L'.leaves = L.leaves.take i ++ [a, b] ++ L.leaves.drop (i + 1) ∧
            a.vins = leaf.vins + 1 ∧ a.vsplit = leaf.vsplit + 1 ∧
            b.vins = leaf.vins + 1 ∧ b.vsplit = leaf.vsplit + 1 ∧ leaf.ents.length = 15)) :=
  Yak.Tree.put_insert_reports t k v uniq h hk

-- non-vacuity: a full leaf that splits
example : ((List.range 16).foldl (fun t i => (put t [UInt8.ofNat i] ⟨[], 8⟩ false).tree) Tree.empty).head!.leaves.length = 2 := by
  decide +kernel

end Yak.Props.C12
