import YakModel.Proto.Epoch
import YakModel.Proofs.EpochProofs
/-!
# C07 — memory handed out inside a session stays valid until `leave`

"An object unlinked from the tree is never released while any session that was active at the
moment of unlinking is still active."

Model: `YakModel/Proto/Epoch.lean` — any number `N` of session slots, the epoch thread and the gc
thread, interleaved at the granularity of single shared-memory accesses; time is not modelled
(every delay is possible); `witness s obj` is the ghost set of sessions that were active when
`obj` was unlinked and have not called `leave` since.

* `no_premature_free` — the repaired enter (`cfgFixed`: store `begin`, re-read `E`, retry until
  unchanged): in EVERY reachable state every released object has an empty witness set.
* `D3_counterexample` — `assign_thread_info` as it is in `/repo` (`cfgD3`): a reachable state with
  a released object whose witness set still contains an active session (checked by evaluating
  the trace acceptor `step?` on an explicit event list).
* `no_premature_free_partial` — `cfgD3` is safe on all runs in which the epoch is never
  incremented between a worker's load of `E` and its store to `begin` (`ReachAdj`).

Property theorems only; the inductive invariant and the per-event lemmas are in
`YakModel/Proofs/EpochProofs.lean`.
-/
namespace Yak.Props.C07
open Yak.Proto.Epoch

/-- **C07, repaired enter.** For every number of slots and every interleaving of workers, epoch
    thread and gc thread: whenever an object has been released, every session that was active when
    it was unlinked has already called `leave`. -/
theorem no_premature_free (N : Nat) (s : State) (h : Reach cfgFixed (init N) s) :
    ∀ obj ∈ s.freed, witness s obj = [] :=
  fun obj ho => ((inv_reach h).ghost.freedA obj ho).2

/-- the inductive core ("epoch window"): an active session's published `begin` is `E` or `E - 1`,
    and both the gc epoch and the gc thread's private copy of it are strictly below it. -/
theorem epoch_window (N : Nat) (s : State) (h : Reach cfgFixed (init N) s) (i : Nat)
    (ha : s.pc i = .active) :
    1 ≤ s.bg i ∧ s.bg i ≤ s.E ∧ s.E ≤ s.bg i + 1 ∧ s.G < s.bg i ∧
    ∀ g, s.gpc.g? = some g → g < s.bg i := by
  have hs := (inv_reach h).slot i
  obtain ⟨a1, a2, a3, _, a5, _⟩ := hs.2.2.2 ha
  exact ⟨a1, hs.1, a2, a3, a5⟩

/-- every retire tag is recent: at the moment a session retires an object, the tag it attaches
    (its own `begin`) is `≥ E - 1`, and `begin` of every session in the new witness set is
    `≤ tag + 1`. -/
theorem retire_tag_is_recent (N : Nat) (s s' : State) (i obj : Nat)
    (h : Reach cfgFixed (init N) s) (hs : step? cfgFixed s (.unlinkRetire i obj) = some s') :
    s.E ≤ s.bg i + 1 ∧ (s.bg i, obj) ∈ s'.items i ∧
    ∀ j ∈ witness s' obj, s.bg j ≤ s.bg i + 1 := by
  have hI := inv_reach h
  simp only [step?] at hs
  split at hs
  · rename_i hg
    cases hs
    have hE := ((hI.slot i).2.2.2 hg.2.1).2.1
    refine ⟨hE, ?_, ?_⟩
    · simp [State.items, Slot.items, upd, State.bg]
    · intro j hj
      have := (hI.slot j).1
      omega
  · cases hs

/-- no object id is released twice. -/
theorem freed_once (N : Nat) (s : State) (h : Reach cfgFixed (init N) s) : s.freed.Nodup :=
  (inv_distinct_reach h).2.freedNodup

/-- a retired object is in at most one place: the retire lists (queue + cache cell) of all slots
    are duplicate-free, pairwise disjoint, and disjoint from the released objects. -/
theorem retired_distinct (N : Nat) (s : State) (h : Reach cfgFixed (init N) s) :
    (∀ i, (objsOf s.slots i).Nodup) ∧
    (∀ i k o, o ∈ objsOf s.slots i → o ∈ objsOf s.slots k → i = k) ∧
    (∀ i o, o ∈ objsOf s.slots i → o ∉ s.freed) :=
  let d := (inv_distinct_reach h).2
  ⟨d.nodupSlot, d.disj, d.notFreed⟩

/-! ## the unrepaired enter (defect D3) -/

/-- The scenario: slot 0 claims and loads `E = 1`, then stalls; the epoch advances twice
    (`E = 3`, `G = 2`); slot 1 enters normally (`begin = 3`) and is active; slot 0 publishes the
    stale `1`, becomes active, unlinks and retires object 7 with tag 1 while slot 1 is active
    (witness `[0, 1]`); slot 0 leaves; the epoch thread recomputes `G` from slot 1's `begin`
    (`G = 2 > 1`); the gc thread releases object 7 while slot 1's session is still open. -/
def d3Trace : List Event :=
  [ .claim 0, .loadE 0,
    .eLoadCur, .eCheck 0, .eCheck 1, .eInc, .eMinScan 0, .eMinScan 1, .eSetG,
    .eLoadCur, .eCheck 0, .eCheck 1, .eInc, .eMinScan 0, .eMinScan 1, .eSetG,
    .claim 1, .loadE 1, .publish 1,
    .publish 0, .unlinkRetire 0 7,
    .leaveBegin 0, .leaveRunning 0,
    .eLoadCur, .eCheck 0, .eCheck 1, .eInc, .eMinScan 0, .eMinScan 1, .eSetG,
    .gLoadG 0, .gCache 0, .gPop 0 ]

theorem d3Trace_premature : checkRun cfgD3 (init 2) d3Trace prematureB = true := by decide

/-- **D3.** With `assign_thread_info` as it is in the repository, an object can be released while a
    session that was active when it was unlinked is still open. -/
theorem D3_counterexample :
    ∃ s, Reach cfgD3 (init 2) s ∧ ∃ obj ∈ s.freed, witness s obj ≠ [] := by
  obtain ⟨s, hr, hp⟩ := exists_of_checkRun d3Trace_premature
  exact ⟨s, hr, prematureB_spec hp⟩

/-- A shorter variant (found by exhaustive search): ONE session suffices. Slot 0 stalls between its
    load of `E = 1` and its store while the epoch reaches 3 and the min scan passes slot 0; it
    then publishes the stale 1 and retires object 0 with tag 1; `G := E - 1 = 2`; the gc thread
    releases the object while the retiring session itself is still open. -/
def d3TraceShort : List Event :=
  [ .claim 0, .loadE 0,
    .eLoadCur, .eCheck 0, .eInc, .eMinScan 0, .eSetG,
    .eLoadCur, .eCheck 0, .eInc, .eMinScan 0,
    .publish 0, .unlinkRetire 0 0,
    .eSetG, .gLoadG 0, .gCache 0, .gPop 0 ]

theorem D3_counterexample_one_session :
    ∃ s, Reach cfgD3 (init 1) s ∧ ∃ obj ∈ s.freed, witness s obj ≠ [] := by
  have h : checkRun cfgD3 (init 1) d3TraceShort prematureB = true := by decide
  obtain ⟨s, hr, hp⟩ := exists_of_checkRun h
  exact ⟨s, hr, prematureB_spec hp⟩

/-- the repaired enter rejects the stale publication of `d3Trace`: after `publish 0` the session is
    not active, so `unlinkRetire 0 7` is not enabled. -/
example : checkRun cfgFixed (init 2) (d3Trace.take 21) (fun _ => true) = false := by decide

/-- **C07 for the unrepaired enter, partial.** `assign_thread_info` as it is in the repository is
    safe on every run in which the epoch is never incremented while a worker is between its load
    of `E` and its store to `begin` (`ReachAdj`: at every `eInc` no slot is in `loaded`). -/
theorem no_premature_free_partial (N : Nat) (s : State) (h : ReachAdj (init N) s) :
    ∀ obj ∈ s.freed, witness s obj = [] :=
  fun obj ho => ((inv_reachAdj h).1.ghost.freedA obj ho).2

/-- `ReachAdj` runs are runs of `cfgD3`. -/
theorem reachAdj_reach (s0 s : State) (h : ReachAdj s0 s) : Reach cfgD3 s0 s := by
  induction h with
  | refl => exact Reach.refl
  | step _ hs _ ih => exact Reach.step ih hs

/-! ## non-vacuity -/

/-- Slot 0 enters (repaired enter), retires object 5 with tag 1 and leaves; the epoch advances to
    3; slot 1 enters (`begin = 3`); the epoch advances to 4 and `G := 3 - 1 = 2`; the gc thread
    releases object 5 (`1 < 2`) while slot 1's LATER session is open. -/
def okTrace : List Event :=
  [ .claim 0, .loadE 0, .publish 0, .recheck 0, .unlinkRetire 0 5, .leaveBegin 0, .leaveRunning 0,
    .eLoadCur, .eCheck 0, .eCheck 1, .eInc, .eMinScan 0, .eMinScan 1, .eSetG,
    .eLoadCur, .eCheck 0, .eCheck 1, .eInc, .eMinScan 0, .eMinScan 1, .eSetG,
    .claim 1, .loadE 1, .publish 1, .recheck 1,
    .eLoadCur, .eCheck 0, .eCheck 1, .eInc, .eMinScan 0, .eMinScan 1, .eSetG,
    .gLoadG 0, .gCache 0, .gPop 0 ]

/-- `no_premature_free` is not vacuous: objects do get released in the repaired protocol, even
    while (later) sessions are open. -/
example : ∃ s, Reach cfgFixed (init 2) s ∧ s.freed ≠ [] ∧ (∀ obj ∈ s.freed, witness s obj = []) ∧
    s.pc 1 = .active := by
  have h : checkRun cfgFixed (init 2) okTrace (freedSafelyWhileActiveB 1) = true := by decide
  obtain ⟨s, hr, hp⟩ := exists_of_checkRun h
  simp only [freedSafelyWhileActiveB, Bool.and_eq_true, Bool.not_eq_true', List.isEmpty_eq_false_iff,
    List.all_eq_true, List.isEmpty_iff, decide_eq_true_eq] at hp
  exact ⟨s, hr, hp.1.1, hp.1.2, hp.2⟩

/-- a worker that is delayed in the repaired enter retries instead of becoming active with a stale
    epoch: after the re-check fails its pc is `claimed` again. -/
example : checkRun cfgFixed (init 1)
    [.claim 0, .loadE 0, .eLoadCur, .eCheck 0, .eInc, .publish 0, .recheck 0]
    (fun s => decide (s.pc 0 = .claimed ∧ s.bg 0 = 1 ∧ s.E = 2)) = true := by decide

end Yak.Props.C07
