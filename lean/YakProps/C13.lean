import YakModel.Proofs.StorageProofs
/-!
# C13 — Storages are isolated namespaces with map-like create/delete/find/list (sequential part)

The concurrent clause ("of several concurrent creates of one name exactly one reports success")
is `one_winner` below applied to any linearization (C01).
-/
namespace Yak.Props.C13
open Yak Yak.Tree Yak.Storage

/-- names are unique in every reachable directory -/
def WF (s : Stores) : Prop := (s.map (·.1)).Nodup

theorem create_spec (s : Stores) (n : Name) (h : WF s) :
    ((find s n).isSome = true → create s n = (s, Status.WARN_UNIQUE_RESTRICTION)) ∧
    ((find s n) = none → (create s n).2 = Status.OK ∧ WF (create s n).1 ∧
       find (create s n).1 n = some Tree.empty ∧ ∀ m, m ≠ n → find (create s n).1 m = find s m) :=
  Yak.Storage.create_spec s n h

theorem delete_spec (s : Stores) (n : Name) (h : WF s) :
    ((find s n) = none → delete s n = (s, Status.WARN_NOT_EXIST)) ∧
    ((find s n).isSome = true → (delete s n).2 = Status.OK ∧ WF (delete s n).1 ∧
       find (delete s n).1 n = none ∧ ∀ m, m ≠ n → find (delete s n).1 m = find s m) :=
  Yak.Storage.delete_spec s n h

/-- isolation: a data operation on storage `n` (which replaces its tree) is invisible in every
    other storage. -/
theorem isolation (s : Stores) (n m : Name) (t : Tree) (h : m ≠ n) : find (set s n t) m = find s m :=
  Yak.Storage.set_other s n m t h

theorem set_same (s : Stores) (n : Name) (t : Tree) (h : WF s) (he : (find s n).isSome = true) :
    find (set s n t) n = some t ∧ WF (set s n t) := Yak.Storage.set_same s n t h he

/-- list returns all names, each once, in ascending bytewise order. -/
theorem list_sorted (s : Stores) (h : WF s) :
    (list s).Pairwise (fun a b => lexLt a b = true) ∧ ∀ n, n ∈ list s ↔ (find s n).isSome = true :=
  Yak.Storage.list_sorted s h

/-- data operations on an unknown name answer the "missing" result -/
theorem unknown_name {α} (s : Stores) (n : Name) (missing : α) (f : Tree → α) (h : find s n = none) :
    withTree s n missing f = missing := Yak.Storage.withTree_missing s n missing f h

/-- in any sequential order of `k` unique creates of one absent name exactly one succeeds
    (the concurrent clause follows for every linearizable history). -/
theorem one_winner (s : Stores) (n : Name) (h : WF s) (ha : find s n = none) (k : Nat) (hk : 0 < k) :
    let run := (List.range k).foldl
      (fun (acc : Stores × List Status) _ => let r := create acc.1 n; (r.1, acc.2 ++ [r.2])) (s, [])
    run.2.count Status.OK = 1 := Yak.Storage.one_winner s n h ha k hk

end Yak.Props.C13
