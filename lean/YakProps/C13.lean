import YakModel.Proofs.StorageDDLProofs
import YakModel.Proofs.StorageProofs
/-!
# C13 — Storages are isolated namespaces with map-like create/delete/find/list (sequential part)

The concurrent clause ("of several concurrent creates of one name exactly one reports success")
is `one_winner` below applied to any linearization (C01).
-/
namespace Yak.Props.C13
open Yak Yak.Tree Yak.Storage

/-- names are unique in every reachable directory -/
def WF (s : Stores) : Prop := (s.map (·.1)).Nodup

theorem create_spec (s : Stores) (n : Name) (h : WF s) :
    ((find s n).isSome = true → create s n = (s, Status.WARN_UNIQUE_RESTRICTION)) ∧
    ((find s n) = none → (create s n).2 = Status.OK ∧ WF (create s n).1 ∧
       find (create s n).1 n = some Tree.empty ∧ ∀ m, m ≠ n → find (create s n).1 m = find s m) :=
  Yak.Storage.create_spec s n h

theorem delete_spec (s : Stores) (n : Name) (h : WF s) :
    ((find s n) = none → delete s n = (s, Status.WARN_NOT_EXIST)) ∧
    ((find s n).isSome = true → (delete s n).2 = Status.OK ∧ WF (delete s n).1 ∧
       find (delete s n).1 n = none ∧ ∀ m, m ≠ n → find (delete s n).1 m = find s m) :=
  Yak.Storage.delete_spec s n h

/-- isolation: a data operation on storage `n` (which replaces its tree) is invisible in every
    other storage. -/
theorem isolation (s : Stores) (n m : Name) (t : Tree) (h : m ≠ n) : find (set s n t) m = find s m :=
  Yak.Storage.set_other s n m t h

theorem set_same (s : Stores) (n : Name) (t : Tree) (h : WF s) (he : (find s n).isSome = true) :
    find (set s n t) n = some t ∧ WF (set s n t) := Yak.Storage.set_same s n t h he

/-- list returns all names, each once, in ascending bytewise order. -/
theorem list_sorted (s : Stores) (h : WF s) :
    (list s).Pairwise (fun a b => lexLt a b = true) ∧ ∀ n, n ∈ list s ↔ (find s n).isSome = true :=
  Yak.Storage.list_sorted s h

/-- data operations on an unknown name answer the "missing" result -/
theorem unknown_name {α} (s : Stores) (n : Name) (missing : α) (f : Tree → α) (h : find s n = none) :
    withTree s n missing f = missing := Yak.Storage.withTree_missing s n missing f h

/-- in any sequential order of `k` unique creates of one absent name exactly one succeeds
    (the concurrent clause follows for every linearizable history). -/
theorem one_winner (s : Stores) (n : Name) (h : WF s) (ha : find s n = none) (k : Nat) (hk : 0 < k) :
    let run := (List.range k).foldl
      (fun (acc : Stores × List Status) _ => let r := create acc.1 n; (r.1, acc.2 ++ [r.2])) (s, [])
    run.2.count Status.OK = 1 := Yak.Storage.one_winner s n h ha k hk

/-! ### The concurrent clause: create_storage / delete_storage as a protocol (`Proto/StorageDDL`)

Any number of threads run `create_storage` / `delete_storage` on any names; the directory's own
`put_unique` / `get` / `remove` are atomic steps (they are linearizable, C01), everything else of
`storage_impl.h` is a step of its own: the look-up and the remove of `delete_storage` are TWO steps,
and so are the destruction of the root and the clearing of the root pointer. `Cfg.fix` is the
repaired code (commit "fix: delete_storage calls are serialized"). D14 — found on the real code by
the thorough tier — is the counterexample for the unrepaired one. -/

/-- with the repair no tree is destroyed twice and no destroyed root is touched, in every reachable
    state, for any number of threads, names and operations. -/
theorem ddl_no_double_destroy (c : Yak.Proto.StorageDDL.Cfg) (hf : c.fix = true)
    (s : Yak.Proto.StorageDDL.State) (h : Yak.Proto.StorageDDL.Reach c s) :
    s.uaf = false ∧ s.destroyed.Nodup := Yak.Proto.StorageDDL.no_double_destroy_fixed hf h

/-- a tree is destroyed only by a delete that erased ITS entry, and once all operations have
    returned every erased entry's tree has been destroyed ("delete removes the name and all its
    entries" — nothing leaks). -/
theorem ddl_destroy_matches_remove (c : Yak.Proto.StorageDDL.Cfg) (hf : c.fix = true)
    (s : Yak.Proto.StorageDDL.State) (h : Yak.Proto.StorageDDL.Reach c s) :
    (∀ x ∈ s.destroyed, x ∈ s.removedEntries) ∧
    (Yak.Proto.StorageDDL.Quiescent s → ∀ x ∈ s.removedEntries, x ∈ s.destroyed) :=
  ⟨Yak.Proto.StorageDDL.destroy_matches_remove_fixed hf h,
   fun hq => Yak.Proto.StorageDDL.no_leak_at_quiescence_fixed hf h hq⟩

/-- no registered name ever points to a destroyed tree. -/
theorem ddl_directory_trees_live (c : Yak.Proto.StorageDDL.Cfg) (hf : c.fix = true)
    (s : Yak.Proto.StorageDDL.State) (h : Yak.Proto.StorageDDL.Reach c s) :
    ∀ p ∈ s.dir, s.rootLive p.2 = true ∧ s.rootPtrSet p.2 = true :=
  Yak.Proto.StorageDDL.directory_trees_live hf h

/-- at most one entry per name and one name per tree, in every reachable state (any cfg): of
    several concurrent creates of one name exactly one `put_unique` finds it absent. -/
theorem ddl_one_entry_per_name (c : Yak.Proto.StorageDDL.Cfg) (s : Yak.Proto.StorageDDL.State)
    (h : Yak.Proto.StorageDDL.Reach c s) :
    (s.dir.map (·.1)).Nodup ∧ (s.dir.map (·.2)).Nodup := Yak.Proto.StorageDDL.one_winner h

/-- D14 without the repair: `T0: create n; delete n ‖ T1: create n ‖ T2: delete n` reaches a state
    in which tree 0 has been destroyed twice, and another schedule in which the re-created tree is
    leaked without any double destroy. -/
theorem D14_counterexample :
    (∃ s, Yak.Proto.StorageDDL.Reach {fix := false} s ∧ s.uaf = true ∧ ¬ s.destroyed.Nodup ∧
      Yak.Proto.StorageDDL.Quiescent s) ∧
    (∃ s, Yak.Proto.StorageDDL.Reach {fix := false} s ∧ Yak.Proto.StorageDDL.Quiescent s ∧
      (∃ x ∈ s.removedEntries, x ∉ s.destroyed ∧ s.rootLive x = true) ∧ s.uaf = false) := by
  obtain ⟨s, hr, _, hu, hn, hq⟩ := Yak.Proto.StorageDDL.D14_counterexample
  obtain ⟨s', hr', _, hq', hl, hu'⟩ := Yak.Proto.StorageDDL.D14_leak
  exact ⟨⟨s, hr, hu, hn, hq⟩, ⟨s', hr', hq', hl, hu'⟩⟩

end Yak.Props.C13
