import YakModel.Proofs.ScanProofs
/-!
# C03 — Range scan returns exactly the keys of the requested interval, in order

`Tree.scan` mirrors `scan`/`scan_border` (argument validation, truncated initial descent,
relative-left/absolute-right endpoint translation through layers, `max_size`, right-to-left).
`Tree.scanSpec` is the specification: filter the in-order content by the interval, truncate.
-/
namespace Yak.Props.C03
open Yak Yak.Tree

/-- the documented validity of a range: a right INF is always fine; a left INF is fine unless the
    right end is EXCLUSIVE on the empty key; otherwise left < right, or equal keys with both
    ends INCLUSIVE. -/
def DocumentedValid (lk : Key) (le : EP) (rk : Key) (re : EP) : Prop :=
  re = .inf ∨ (re ≠ .inf ∧ le = .inf ∧ ¬(re = .excl ∧ rk = [])) ∨
  (re ≠ .inf ∧ le ≠ .inf ∧ (lexLt lk rk = true ∨ (lk = rk ∧ le = .incl ∧ re = .incl)))

/-- exactly the documented invalid ranges are rejected … -/
theorem range_check_iff (lk : Key) (le : EP) (rk : Key) (re : EP) :
    checkEmptyRange lk le rk re = true ↔ DocumentedValid lk le rk re := by
  unfold checkEmptyRange DocumentedValid
  cases re <;> cases le <;> simp
  all_goals
    rcases Yak.lexLt_total lk rk with h | h | h
    · simp [h]
    · subst h; simp [Yak.lexLt_irrefl]
    · have h2 : lexLt lk rk = false := by
        cases h' : lexLt lk rk
        · rfl
        · exact absurd (Yak.lexLt_trans _ _ _ h' h) (by simp [Yak.lexLt_irrefl])
      have hne : lk ≠ rk := by
        intro e; subst e; simp [Yak.lexLt_irrefl] at h
      simp [h, h2, hne]

theorem scan_status_iff (cfg : Cfg) (t : Tree) (lk : Key) (le : EP) (rk : Key) (re : EP) (max : Nat) (r2l : Bool) :
    (scan cfg t lk le rk re max r2l).status = Status.ERR_BAD_USAGE ↔ scanArgsOk lk le rk re max r2l = false := by
  unfold scan
  split
  · simp_all
  · rename_i h
    have h' : scanArgsOk lk le rk re max r2l = true := by simpa using h
    simp only [h', Bool.true_eq_false, iff_false]
    split
    · simp
    · split <;> (split <;> simp)

/-- … and exactly the documented argument combinations: right-to-left needs `r_end = INF` and
    `max_size = 1`. -/
theorem scan_bad_usage_iff (cfg : Cfg) (t : Tree) (lk : Key) (le : EP) (rk : Key) (re : EP) (max : Nat) (r2l : Bool) :
    (scan cfg t lk le rk re max r2l).status = Status.ERR_BAD_USAGE ↔
      ¬ (DocumentedValid lk le rk re ∧ (r2l = true → re = .inf ∧ max = 1)) := by
  rw [scan_status_iff, ← range_check_iff]
  unfold scanArgsOk
  cases checkEmptyRange lk le rk re <;> cases r2l <;> simp

/-- no border node has the maximal tuple `(0xFF×8, link)` as its lower fence. A split never
    produces such a fence (the fence is the first of at least seven moved entries), but `Inv` does
    not exclude it, and the right-to-left descent — which routes by `(0xFF×8, 8)` — would end one
    leaf too far left (`scan_spec_r2l_needs_fence`). -/
def NoMaxFence (t : Tree) : Prop := ∀ L ∈ t, ∀ l ∈ L.leaves, l.fence ≠ some KT.max

/-- a quiescent scan returns precisely the entries of the interval in ascending order, each with
    its current value, truncated to the first `max` entries (right-to-left with `max = 1`: the
    greatest one). `scanSpec` is the filter of the in-order content (C08: strictly ascending, equal
    to what point lookups see).
    CORRECTED relative to the first draft: right-to-left needs `NoMaxFence`; forward scans need
    nothing beyond `Inv`. -/
theorem scan_spec (t : Tree) (lk : Key) (le : EP) (rk : Key) (re : EP) (max : Nat) (r2l : Bool)
    (h : Inv t) (ha : scanArgsOk lk le rk re max r2l = true) (hm : r2l = true → NoMaxFence t) :
    (scan cfgFixed t lk le rk re max r2l).status = Status.OK ∧
    (scan cfgFixed t lk le rk re max r2l).tuples = scanSpec t lk le rk re max r2l :=
  Yak.Tree.scan_spec t lk le rk re max r2l h ha hm

/-- `NoMaxFence` holds for a fresh storage and is preserved by `put` and `remove`, so every storage
    reached by operations satisfies the hypothesis of `scan_spec`. -/
theorem no_max_fence_reachable :
    NoMaxFence Tree.empty ∧
    (∀ (t : Tree) (k : Key) (v : Val) (u : Bool), Inv t → NoMaxFence t → NoMaxFence (put t k v u).tree) ∧
    (∀ (t : Tree) (k : Key) (dirs : List Bool), NoMaxFence t → NoMaxFence (remove t k dirs).tree) :=
  ⟨Yak.Tree.noMaxFence_empty, Yak.Tree.noMaxFence_put, Yak.Tree.noMaxFence_remove⟩

/-- the forward case on its own (no extra hypothesis). -/
theorem scan_spec_forward (t : Tree) (lk : Key) (le : EP) (rk : Key) (re : EP) (max : Nat)
    (h : Inv t) (ha : scanArgsOk lk le rk re max false = true) :
    (scan cfgFixed t lk le rk re max false).status = Status.OK ∧
    (scan cfgFixed t lk le rk re max false).tuples = scanSpec t lk le rk re max false :=
  Yak.Tree.scan_spec t lk le rk re max false h ha (fun e => by cases e)

/-- the draft statement (right-to-left under `Inv` alone) is false: a well-formed tree whose
    second leaf has the maximal tuple as fence. -/
theorem scan_spec_r2l_needs_fence :
    ∃ t : Tree, Inv t ∧ scanArgsOk [] .inf [] .inf 1 true = true ∧
      (scan cfgFixed t [] .inf [] .inf 1 true).tuples ≠ scanSpec t [] .inf [] .inf 1 true :=
  Yak.Tree.r2l_max_fence_counterexample

/-- an INF endpoint ignores the key passed with it. -/
theorem scan_inf_ignores_key (t : Tree) (lk lk' rk rk' : Key) (le re : EP) (max : Nat) (r2l : Bool) (h : Inv t) :
    (le = .inf → (scan cfgFixed t lk le rk re max r2l).tuples = (scan cfgFixed t lk' le rk re max r2l).tuples) ∧
    (re = .inf → (scan cfgFixed t lk le rk re max r2l).tuples = (scan cfgFixed t lk le rk' re max r2l).tuples) :=
  Yak.Tree.scan_inf_ignores_key t lk lk' rk rk' le re max r2l h

/-- the unrepaired scan does not ignore `l_key` with a left INF: a concrete two-leaf tree. -/
theorem D5_counterexample :
    ∃ (t : Tree) (lk : Key), Inv t ∧
      (scan cfgD5 t lk .inf [] .inf 0 false).tuples ≠ (scan cfgD5 t [] .inf [] .inf 0 false).tuples :=
  Yak.Tree.D5_counterexample

end Yak.Props.C03
