import YakModel.Proofs.TreeProofs
import YakProps.C02
import YakModel.Proofs.RouteProofs
import YakModel.Proofs.BTreeOpsProofs
/-!
# C08 — Tree stays coherent (sequential quantifier)

`Inv` (`YakModel/TreeInv.lean`) is the well-formedness of the layered leaf chains: per leaf the
entries are strictly increasing well-formed tuples inside the leaf's fence interval, fences are
strictly increasing, link entries and layers correspond one to one, only the emptied root of layer
0 may be empty or flagged deleted. It is decidable (`checkInv`) and the same predicate is evaluated
on the implementation's dumps by the correspondence checker (`Shape.checkLayer`, `checkLinks`).
-/
namespace Yak.Props.C08
open Yak Yak.Tree Yak.Props.C02

/-- every state reachable from a fresh storage by any operation sequence is well formed. -/
def runTree (t : Tree) : List C02.Op → Tree
  | [] => t
  | op :: ops => runTree (C02.stepModel t op).1 ops

/-- one step of the model keeps `Inv` and acts on the lookup function like the specification. -/
theorem step_inv (t : Tree) (h : Inv t) (op : C02.Op) :
    Inv (C02.stepModel t op).1 ∧
    ∀ k, C02.lookup (C02.stepModel t op).1 k = (C02.stepSpec (C02.lookup t) op).1 k := by
  cases op with
  | put k v =>
    obtain ⟨_, h2, h3⟩ := C02.put_refines t k v h
    exact ⟨h2, h3⟩
  | uput k v =>
    obtain ⟨ha, hb⟩ := C02.uput_refines t k v h
    simp only [C02.stepModel, C02.stepSpec]
    cases hl : C02.lookup t k with
    | some w =>
      obtain ⟨_, h2⟩ := ha (by rw [hl]; rfl)
      simp only [Option.isSome_some, if_true]
      rw [h2]; exact ⟨h, fun _ => rfl⟩
    | none =>
      obtain ⟨_, h2, h3⟩ := hb hl
      simp only [Option.isSome_none, Bool.false_eq_true, if_false]
      exact ⟨h2, h3⟩
  | get k => exact ⟨h, fun _ => rfl⟩
  | remove k d =>
    obtain ⟨_, h2, h3⟩ := C02.remove_refines t k d h
    exact ⟨h2, h3⟩

theorem inv_run (t : Tree) (h : Inv t) (ops : List C02.Op) : Inv (runTree t ops) := by
  induction ops generalizing t with
  | nil => exact h
  | cons op ops ih => exact ih _ (step_inv t h op).1

/-- the lookup function of the reached state is the map the specification computes. -/
theorem lookup_run (t : Tree) (h : Inv t) (ops : List C02.Op) (k : Key) :
    C02.lookup (runTree t ops) k = C02.runSpecState (C02.lookup t) ops k := by
  induction ops generalizing t with
  | nil => rfl
  | cons op ops ih =>
    obtain ⟨h1, h2⟩ := step_inv t h op
    simp only [runTree, C02.runSpecState]
    rw [ih _ h1, funext h2]

theorem inv_reachable (ops : List C02.Op) : Inv (runTree Tree.empty ops) :=
  inv_run Tree.empty C02.inv_empty.1 ops

/-- `checkInv` decides `Inv`. -/
theorem checkInv_iff (t : Tree) : checkInv t = true ↔ Inv t := Yak.Tree.checkInv_iff t

/-- keys found by point lookup are exactly the keys of the in-order content (what a full forward
    scan lists), with the same values, and the content is strictly ascending. -/
theorem lookup_iff_content (t : Tree) (h : Inv t) (k : Key) (v : Val) :
    C02.lookup t k = some v ↔ (k, v) ∈ content t := Yak.Tree.lookup_iff_content t h k v

theorem content_sorted (t : Tree) (h : Inv t) :
    (content t).Pairwise (fun a b => lexLt a.1 b.1 = true) := Yak.Tree.content_sorted t h

/-- and equal to the keys whose last completed operation was a put (from `run_refines`). -/
theorem content_is_last_put (ops : List C02.Op) (k : Key) (v : Val) :
    (k, v) ∈ content (runTree Tree.empty ops) ↔
      (C02.runSpecState (fun _ => none) ops) k = some v := by
  rw [← lookup_iff_content _ (inv_reachable ops), lookup_run Tree.empty C02.inv_empty.1 ops k,
    funext C02.inv_empty.2]

/-! ### Interior nodes: descending by `get_child_of` = the fence rule of the proof model

The proof model above has no interior nodes: a layer is a chain of leaves with lower fences and a
lookup goes to the last leaf whose fence is `≤` the key. The implementation descends through
interior nodes (`find_border` / `interior_node::get_child_of`, modelled by `routeIdx`). The
correspondence checker compares the implementation's structure dump (a `Shape.BTree`, interior
nodes included) with the model through `chainOf` and evaluates `checkLayer` on it after every
mutation. These theorems close the gap between the two views: on every dump that passes
`checkLayer` — separators strictly increasing, one more child than separators, fences of the
flattened chain strictly increasing — the interior descent arrives at exactly the leaf the fence
rule (and the model's own `Tree.route`) selects. -/

theorem interior_descent_matches_fences (pfx : List UInt8) (t : Yak.Shape.BTree) (k : KT)
    (h : Yak.Shape.checkLayer pfx t = true) (hk : k.WF) :
    Yak.Route.descend t k =
      (Yak.Route.byFence (Yak.Shape.chainOf t none) k).map Yak.Route.leafOut :=
  Yak.Route.checkLayer_routes pfx t k h hk

theorem interior_descent_matches_model_route (pfx : List UInt8) (t : Yak.Shape.BTree)
    (ls : List Tree.Leaf) (k : KT) (h : Yak.Shape.checkLayer pfx t = true)
    (hf : ls.map (·.fence) = (Yak.Shape.chainOf t none).map (·.fence)) (hk : k.WF) :
    Yak.Route.descend t k = ((Yak.Shape.chainOf t none)[Tree.route k ls]?).map Yak.Route.leafOut :=
  Yak.Route.checkLayer_routes_model pfx t ls k h hf hk

/-- the descent never falls off a well-formed dump. -/
theorem interior_descent_total (pfx : List UInt8) (t : Yak.Shape.BTree) (k : KT)
    (h : Yak.Shape.checkLayer pfx t = true) (hk : k.WF) : (Yak.Route.descend t k).isSome = true :=
  Yak.Route.checkLayer_descend_isSome pfx t k h hk

/-! ### Structural evolution with interior nodes (`BTreeOps`)

`BTreeOps.insertB` / `removeB` mirror, at the level of shape, `insert_lv` / `border_split` /
`interior_node::insert` / `interior_split` / new root creation and `border_node::delete_of` /
`interior_node::delete_of` (unlink with the separator rule per child position, collapse). The
correspondence checker evaluates them on every pair of consecutive dumps of the implementation
(difference class `shape`: the new dump must have exactly the shape the model computes from the
previous one). These theorems say that this B+-tree-level model refines the interior-free chain
model used by the proofs above, and preserves the checked well-formedness. -/

open Yak.Shape Yak.Route Yak.BTreeOps in
/-- inserting an absent tuple into a checked tree changes the flattened chain exactly like the
    chain model: the owning leaf (by the fence rule) receives it in order; a full leaf (15) becomes
    two leaves, the left keeps its fence and 8 or 9 entries, the right's fence is its first tuple. -/
theorem insert_refines_chain (pfx : List UInt8) (t : BTree) (e : DEnt)
    (h : checkLayer pfx t = true) (hk : e.kt.WF)
    (habs : ∀ l ∈ chainOf t none, ∀ x ∈ l.ents, x.kt ≠ e.kt) :
    ∃ A l B, chainOf t none = A ++ l :: B ∧ byFence (chainOf t none) e.kt = some l ∧
      (∀ x ∈ B, fenceLe x.fence e.kt = false) ∧
      (∃ a b, l.ents = a ++ b ∧
        insAt l.ents (rankIfInsert e.kt (l.ents.map (·.kt))) e = a ++ e :: b ∧
        (∀ x ∈ a, KT.lt x.kt e.kt = true) ∧ (∀ x ∈ b, KT.lt e.kt x.kt = true)) ∧
      (l.ents.length ≠ 15 → chainOf (insertB t e) none =
        A ++ ⟨l.fence, l.v, insAt l.ents (rankIfInsert e.kt (l.ents.map (·.kt))) e⟩ :: B) ∧
      (l.ents.length = 15 → ∃ L R sep, chainOf (insertB t e) none =
          A ++ ⟨l.fence, l.v, L⟩ :: ⟨some sep, l.v, R⟩ :: B ∧
        L ++ R = insAt l.ents (rankIfInsert e.kt (l.ents.map (·.kt))) e ∧
        (L.length = 8 ∨ L.length = 9) ∧ R.head?.map (·.kt) = some sep) :=
  insertB_chain_checked pfx t e h hk habs

open Yak.Shape Yak.Route Yak.BTreeOps in
/-- removing a tuple: the owning leaf loses it; an emptied leaf that is not the only one disappears,
    and its key range goes to the right neighbour iff it was child 0 of its parent (the only case
    in which a fence moves), to the left neighbour otherwise. -/
theorem remove_refines_chain (pfx : List UInt8) (t : BTree) (kt : KT)
    (h : checkLayer pfx t = true) (hk : kt.WF) :
    ∃ A l B, chainOf t none = A ++ l :: B ∧ byFence (chainOf t none) kt = some l ∧
      (∀ x ∈ B, fenceLe x.fence kt = false) ∧
      (¬ ((∃ x ∈ l.ents, x.kt = kt) ∧ l.ents.length = 1 ∧ (A ≠ [] ∨ B ≠ [])) →
        chainOf (removeB t kt) none =
          A ++ ⟨l.fence, l.v, l.ents.filter (fun x => decide (x.kt ≠ kt))⟩ :: B) ∧
      ((∃ x ∈ l.ents, x.kt = kt) → l.ents.length = 1 → (A ≠ [] ∨ B ≠ []) →
        (leafIdx t kt = some 0 →
          B ≠ [] ∧ chainOf (removeB t kt) none = A ++ setHeadFence l.fence B) ∧
        (leafIdx t kt ≠ some 0 → chainOf (removeB t kt) none = A ++ B)) :=
  removeB_chain_checked pfx t kt h hk

open Yak.Shape Yak.Route Yak.BTreeOps in
/-- both operations keep the interior nodes well formed and the fences strictly increasing. -/
theorem structure_ops_keep_check (pfx : List UInt8) (t : BTree) (h : checkLayer pfx t = true) :
    (∀ e : DEnt, e.kt.WF → (∀ l ∈ chainOf t none, ∀ x ∈ l.ents, x.kt ≠ e.kt) →
      checkInteriors (insertB t e) = true ∧ fencesSorted (chainOf (insertB t e) none)) ∧
    (∀ kt : KT, kt.WF →
      checkInteriors (removeB t kt) = true ∧ fencesSorted (chainOf (removeB t kt) none)) :=
  ⟨fun e hk habs => insertB_keeps_check_checked pfx t e h hk habs,
   fun kt hk => removeB_keeps_check_checked pfx t kt h hk⟩

end Yak.Props.C08
