import YakModel.Proofs.TreeProofs
import YakProps.C02
import YakModel.Proofs.RouteProofs
/-!
# C08 — Tree stays coherent (sequential quantifier)

`Inv` (`YakModel/TreeInv.lean`) is the well-formedness of the layered leaf chains: per leaf the
entries are strictly increasing well-formed tuples inside the leaf's fence interval, fences are
strictly increasing, link entries and layers correspond one to one, only the emptied root of layer
0 may be empty or flagged deleted. It is decidable (`checkInv`) and the same predicate is evaluated
on the implementation's dumps by the correspondence checker (`Shape.checkLayer`, `checkLinks`).
-/
namespace Yak.Props.C08
open Yak Yak.Tree Yak.Props.C02

/-- every state reachable from a fresh storage by any operation sequence is well formed. -/
def runTree (t : Tree) : List C02.Op → Tree
  | [] => t
  | op :: ops => runTree (C02.stepModel t op).1 ops

/-- one step of the model keeps `Inv` and acts on the lookup function like the specification. -/
theorem step_inv (t : Tree) (h : Inv t) (op : C02.Op) :
    Inv (C02.stepModel t op).1 ∧
    ∀ k, C02.lookup (C02.stepModel t op).1 k = (C02.stepSpec (C02.lookup t) op).1 k := by
  cases op with
  | put k v =>
    obtain ⟨_, h2, h3⟩ := C02.put_refines t k v h
    exact ⟨h2, h3⟩
  | uput k v =>
    obtain ⟨ha, hb⟩ := C02.uput_refines t k v h
    simp only [C02.stepModel, C02.stepSpec]
    cases hl : C02.lookup t k with
    | some w =>
      obtain ⟨_, h2⟩ := ha (by rw [hl]; rfl)
      simp only [Option.isSome_some, if_true]
      rw [h2]; exact ⟨h, fun _ => rfl⟩
    | none =>
      obtain ⟨_, h2, h3⟩ := hb hl
      simp only [Option.isSome_none, Bool.false_eq_true, if_false]
      exact ⟨h2, h3⟩
  | get k => exact ⟨h, fun _ => rfl⟩
  | remove k d =>
    obtain ⟨_, h2, h3⟩ := C02.remove_refines t k d h
    exact ⟨h2, h3⟩

theorem inv_run (t : Tree) (h : Inv t) (ops : List C02.Op) : Inv (runTree t ops) := by
  induction ops generalizing t with
  | nil => exact h
  | cons op ops ih => exact ih _ (step_inv t h op).1

/-- the lookup function of the reached state is the map the specification computes. -/
theorem lookup_run (t : Tree) (h : Inv t) (ops : List C02.Op) (k : Key) :
    C02.lookup (runTree t ops) k = C02.runSpecState (C02.lookup t) ops k := by
  induction ops generalizing t with
  | nil => rfl
  | cons op ops ih =>
    obtain ⟨h1, h2⟩ := step_inv t h op
    simp only [runTree, C02.runSpecState]
    rw [ih _ h1, funext h2]

theorem inv_reachable (ops : List C02.Op) : Inv (runTree Tree.empty ops) :=
  inv_run Tree.empty C02.inv_empty.1 ops

/-- `checkInv` decides `Inv`. -/
theorem checkInv_iff (t : Tree) : checkInv t = true ↔ Inv t := Yak.Tree.checkInv_iff t

/-- keys found by point lookup are exactly the keys of the in-order content (what a full forward
    scan lists), with the same values, and the content is strictly ascending. -/
theorem lookup_iff_content (t : Tree) (h : Inv t) (k : Key) (v : Val) :
    C02.lookup t k = some v ↔ (k, v) ∈ content t := Yak.Tree.lookup_iff_content t h k v

theorem content_sorted (t : Tree) (h : Inv t) :
    (content t).Pairwise (fun a b => lexLt a.1 b.1 = true) := Yak.Tree.content_sorted t h

/-- and equal to the keys whose last completed operation was a put (from `run_refines`). -/
theorem content_is_last_put (ops : List C02.Op) (k : Key) (v : Val) :
    (k, v) ∈ content (runTree Tree.empty ops) ↔
      (C02.runSpecState (fun _ => none) ops) k = some v := by
  rw [← lookup_iff_content _ (inv_reachable ops), lookup_run Tree.empty C02.inv_empty.1 ops k,
    funext C02.inv_empty.2]

/-! ### Interior nodes: descending by `get_child_of` = the fence rule of the proof model

The proof model above has no interior nodes: a layer is a chain of leaves with lower fences and a
lookup goes to the last leaf whose fence is `≤` the key. The implementation descends through
interior nodes (`find_border` / `interior_node::get_child_of`, modelled by `routeIdx`). The
correspondence checker compares the implementation's structure dump (a `Shape.BTree`, interior
nodes included) with the model through `chainOf` and evaluates `checkLayer` on it after every
mutation. These theorems close the gap between the two views: on every dump that passes
`checkLayer` — separators strictly increasing, one more child than separators, fences of the
flattened chain strictly increasing — the interior descent arrives at exactly the leaf the fence
rule (and the model's own `Tree.route`) selects. -/

theorem interior_descent_matches_fences (pfx : List UInt8) (t : Yak.Shape.BTree) (k : KT)
    (h : Yak.Shape.checkLayer pfx t = true) (hk : k.WF) :
    Yak.Route.descend t k =
      (Yak.Route.byFence (Yak.Shape.chainOf t none) k).map Yak.Route.leafOut :=
  Yak.Route.checkLayer_routes pfx t k h hk

theorem interior_descent_matches_model_route (pfx : List UInt8) (t : Yak.Shape.BTree)
    (ls : List Tree.Leaf) (k : KT) (h : Yak.Shape.checkLayer pfx t = true)
    (hf : ls.map (·.fence) = (Yak.Shape.chainOf t none).map (·.fence)) (hk : k.WF) :
    Yak.Route.descend t k = ((Yak.Shape.chainOf t none)[Tree.route k ls]?).map Yak.Route.leafOut :=
  Yak.Route.checkLayer_routes_model pfx t ls k h hf hk

/-- the descent never falls off a well-formed dump. -/
theorem interior_descent_total (pfx : List UInt8) (t : Yak.Shape.BTree) (k : KT)
    (h : Yak.Shape.checkLayer pfx t = true) (hk : k.WF) : (Yak.Route.descend t k).isSome = true :=
  Yak.Route.checkLayer_descend_isSome pfx t k h hk

end Yak.Props.C08
