import YakModel.Proofs.TreeProofs
import YakProps.C02
/-!
# C08 — Tree stays coherent (sequential quantifier)

`Inv` (`YakModel/TreeInv.lean`) is the well-formedness of the layered leaf chains: per leaf the
entries are strictly increasing well-formed tuples inside the leaf's fence interval, fences are
strictly increasing, link entries and layers correspond one to one, only the emptied root of layer
0 may be empty or flagged deleted. It is decidable (`checkInv`) and the same predicate is evaluated
on the implementation's dumps by the correspondence checker (`Shape.checkLayer`, `checkLinks`).
-/
namespace Yak.Props.C08
open Yak Yak.Tree Yak.Props.C02

/-- every state reachable from a fresh storage by any operation sequence is well formed. -/
def runTree (t : Tree) : List C02.Op → Tree
  | [] => t
  | op :: ops => runTree (C02.stepModel t op).1 ops

theorem inv_reachable (ops : List C02.Op) : Inv (runTree Tree.empty ops) := by
  sorry -- PROOF TO BE FILLED: induction using inv_empty, put_refines, uput_refines, remove_refines

/-- `checkInv` decides `Inv`. -/
theorem checkInv_iff (t : Tree) : checkInv t = true ↔ Inv t := Yak.Tree.checkInv_iff t

/-- keys found by point lookup are exactly the keys of the in-order content (what a full forward
    scan lists), with the same values, and the content is strictly ascending. -/
theorem lookup_iff_content (t : Tree) (h : Inv t) (k : Key) (v : Val) :
    C02.lookup t k = some v ↔ (k, v) ∈ content t := Yak.Tree.lookup_iff_content t h k v

theorem content_sorted (t : Tree) (h : Inv t) :
    (content t).Pairwise (fun a b => lexLt a.1 b.1 = true) := Yak.Tree.content_sorted t h

/-- and equal to the keys whose last completed operation was a put (from `run_refines`). -/
theorem content_is_last_put (ops : List C02.Op) (k : Key) (v : Val) :
    (k, v) ∈ content (runTree Tree.empty ops) ↔
      (C02.runSpecState (fun _ => none) ops) k = some v := by
  sorry -- PROOF TO BE FILLED from lookup_iff_content, inv_reachable and the refinement theorems

end Yak.Props.C08
