import YakModel.Proofs.CursorProofs
/-!
# C10 — The cursor API enumerates the scan interval in both directions (sequential sentence)

Statements are over an arbitrary list of (key, value) pairs that is strictly ascending by key —
which is what `content t` is for every well-formed tree (C08 `content_sorted`) — so they hold for
every tree content, every interval, both directions and every pause point.
-/
namespace Yak.Props.C10
open Yak Yak.Tree

/-- the cursor rejects exactly the ranges scan's range check rejects. -/
theorem open_rejects_iff (lk : Key) (le : EP) (rk : Key) (re : EP) (r2l : Bool) :
    (Cursor.open? lk le rk re r2l).isNone = true ↔ checkEmptyRange lk le rk re = false :=
  Yak.Tree.Cursor.open_rejects_iff lk le rk re r2l

/-- the entries of the cursor's interval in key order (left INF already normalised by `open?`) -/
def intervalOf (c : Cursor) (t : Tree) : List (Key × Val) :=
  (content t).filter (fun kv => inInterval c.lk c.le c.rk c.re kv.1)

/-- draining a fresh cursor yields exactly the interval's entries: ascending for left-to-right,
    descending for right-to-left, each with its value and full key. -/
theorem drain_enumerates (c : Cursor) (t : Tree) (hfresh : c.last = none)
    (hs : (content t).Pairwise (fun a b => lexLt a.1 b.1 = true)) (n : Nat)
    (hn : (intervalOf c t).length ≤ n) :
    c.drain t n = (if c.r2l then (intervalOf c t).reverse else intervalOf c t) :=
  Yak.Tree.Cursor.drain_enumerates c t hfresh hs n hn

/-- pausing anywhere: taking `i` entries, stopping, and resuming later yields the same overall
    sequence as draining at once (given no modification in between). -/
theorem pause_anywhere (c : Cursor) (t : Tree) (hfresh : c.last = none)
    (hs : (content t).Pairwise (fun a b => lexLt a.1 b.1 = true)) (i n : Nat) :
    c.drain t (i + n) = c.drain t i ++ ((List.range i).foldl (fun c' _ => (c'.next t).2) c).drain t n :=
  Yak.Tree.Cursor.pause_anywhere c t hfresh hs i n

/-- each step returns a key strictly beyond the previous one, inside the interval (monotone). -/
theorem next_monotone (c : Cursor) (t : Tree) (kv : Key × Val) (c' : Cursor)
    (h : c.next t = (some kv, c')) :
    inInterval c.lk c.le c.rk c.re kv.1 = true ∧ kv ∈ content t ∧ c'.last = some kv.1 ∧
    (∀ k, c.last = some k → if c.r2l then lexLt kv.1 k = true else lexLt k kv.1 = true) :=
  Yak.Tree.Cursor.next_monotone c t kv c' h

end Yak.Props.C10
