import YakModel.Proofs.ShapeProofs
/-!
# C20 — mem_usage reports the real shape and footprint of a storage

`Shape.memNode` is `base_node::mem_usage` over one layer's B+-tree as dumped from the
implementation (`BTree`), `memAll`/`memUsage` follow the links into next layers. The statements
are over every `BTree` (any fan-out, depth, occupancy).
-/
namespace Yak.Props.C20
open Yak Yak.Shape

/-- number of nodes of a tree at each relative depth -/
def countAt : BTree → Nat → Nat
  | .border _ _, d => if d = 0 then 1 else 0
  | .interior _ _ cs, d => if d = 0 then 1 else countAtList cs (d - 1)
where countAtList : List BTree → Nat → Nat
  | [], _ => 0
  | c :: cs, d => countAt c d + countAtList cs d

/-- one node is counted per node, at its own level: after `memNode t lvl`, the count of row
    `lvl + d` has grown by the number of nodes of `t` at relative depth `d`. -/
theorem memNode_counts (t : BTree) (lvl d : Nat) (rows : List MemRow) (links : List (List UInt8 × Nat)) :
    ((memNode t lvl (rows, links)).1.getD (lvl + d) ⟨0, 0, 0⟩).count =
      (rows.getD (lvl + d) ⟨0, 0, 0⟩).count + countAt t d :=
  Yak.Shape.memNode_counts countAt countAt.countAtList
    ⟨fun _ _ _ => rfl, fun _ _ _ _ => rfl, fun _ => rfl, fun _ _ _ => rfl⟩ t lvl d rows links

/-- used bytes never exceed reserved bytes, row by row, for nodes with at most 15 entries /
    16 children. -/
theorem used_le_reserved (t : BTree) (lvl : Nat) (rows : List MemRow) (links : List (List UInt8 × Nat))
    (hw : checkInteriors t = true) (h : ∀ r ∈ rows, r.used ≤ r.reserved) :
    ∀ r ∈ (memNode t lvl (rows, links)).1, r.used ≤ r.reserved :=
  Yak.Shape.used_le_reserved t lvl rows links hw h

/-- used bytes of a border node grow with its occupancy (one slot word per occupied entry plus
    the values' allocated sizes); reserved bytes are the node size plus the values' sizes. -/
theorem border_row (v : DVer) (ents : List DEnt) (lvl : Nat) (he : ents.length ≤ 15) :
    let r := (memBorder [] lvl ents).getD lvl ⟨0, 0, 0⟩
    let vals := (ents.filterMap (·.val)).map (fun x => x.len + x.align)
    r.count = 1 ∧ r.reserved = Yak.Const.sizeofBorder + vals.sum ∧
    r.used = Yak.Const.sizeofBorder - (15 - ents.length) * 8 + vals.sum :=
  Yak.Shape.border_row v ents lvl he

/-- next-layer roots are entered one level below the leaf that links them. -/
theorem links_one_below (v : DVer) (ents : List DEnt) (lvl : Nat) (rows : List MemRow) :
    (memNode (.border v ents) lvl (rows, [])).2 =
      ents.filterMap (fun e => match e.val with | none => some (e.kt.slice, lvl + 1) | some _ => none) :=
  Yak.Shape.links_one_below v ents lvl rows

end Yak.Props.C20
