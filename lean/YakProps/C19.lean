import YakModel.Proofs.PermProofs
/-!
# C19 — The leaf permutation word always encodes a valid ordering of occupied slots

All statements are over every 64-bit word whose first `cnk` nibbles are distinct slots `< 15`
(`Valid`); the unused nibbles above are arbitrary garbage.
-/
namespace Yak.Props.C19
open Yak.Perm

/-- inserting at a rank shifts exactly the later ranks by one and places the new slot there. -/
theorem insertRank_spec (w : W) (rank pos : Nat) (hv : Valid w) (hn : cnk w < 15)
    (hr : rank ≤ cnk w) (hp : pos < 15) (hfresh : pos ∉ toList w) :
    toList (insertRank w rank pos) = (toList w).insertIdx rank pos ∧
    cnk (insertRank w rank pos) = cnk w + 1 ∧ Valid (insertRank w rank pos) :=
  Yak.Perm.insertRank_spec w rank pos hv hn hr hp hfresh

/-- deleting a rank closes the gap. -/
theorem deleteRank_spec (w : W) (rank : Nat) (hv : Valid w) (hr : rank < cnk w) :
    toList (deleteRank w rank) = (toList w).eraseIdx rank ∧
    cnk (deleteRank w rank) = cnk w - 1 ∧ Valid (deleteRank w rank) :=
  Yak.Perm.deleteRank_spec w rank hv hr

/-- the reported free slot is never one in use (and is slot 0 for an empty leaf). -/
theorem emptySlot_fresh (w : W) (hv : Valid w) (hn : cnk w < 15) :
    getEmptySlot w < 15 ∧ getEmptySlot w ∉ toList w := Yak.Perm.emptySlot_fresh w hv hn

theorem emptySlot_of_empty (w : W) (h : cnk w = 0) : getEmptySlot w = 0 :=
  Yak.Perm.emptySlot_of_empty w h

/-- the split initialiser produces the identity on the moved entries. -/
theorem splitDest_identity (n : Nat) (hn : n ≤ 15) :
    toList (splitDest n) = List.range n ∧ Valid (splitDest n) := Yak.Perm.splitDest_identity n hn

/-- `ofList` (what `rearrange` stores) round-trips: the word lists exactly the given slots. -/
theorem ofList_toList (l : List Nat) (hl : l.length ≤ 15) (hs : ∀ s ∈ l, s < 15) :
    toList (ofList l) = l := Yak.Perm.ofList_toList l hl hs

/-- `get_index_of_rank` reads the list. -/
theorem indexOfRank_eq (w : W) (r : Nat) (hr : r < cnk w) :
    (toList w)[r]? = some (indexOfRank w r) := Yak.Perm.indexOfRank_eq w r hr

-- non-vacuity: a concrete valid word with garbage above the count
example : Valid (0xabcdef0000052103#64) ∧ cnk (0xabcdef0000052103#64) = 3 := by decide

end Yak.Props.C19
