import YakModel.Proofs.LeafProofs
/-!
# C01 — Point operations (put/get/remove) on a storage are linearizable

Proved on `Proto/Leaf`: one border node, any number of threads, every interleaving of the
single-access steps of `get`, `put` (upsert and unique-insert) and `remove`, including same-key
races, slot reuse after a remove, and weak validation (removes do not bump the version).
The multi-node part (descent, splits, layers) is covered by the scheduler-driven history checks on
the real code and is not claimed as a theorem.
-/
namespace Yak.Props.C01
open Yak.Proto.Leaf

/-- every reachable state's history is linearizable w.r.t. the map specification:
    a get returns OK with exactly the value of the latest preceding put on that key or
    WARN_NOT_EXIST, remove returns OK iff the key was present, unique-insert returns
    WARN_UNIQUE_RESTRICTION iff it was — in an order consistent with real-time precedence. -/
theorem leaf_linearizable (s : State) (h : Reach cfgFixed s) : Linearizable s :=
  Yak.Proto.Leaf.leaf_linearizable s h

/-- an OK get never yields the cleared (null) value. -/
theorem leaf_get_nonnull (s : State) (h : Reach cfgFixed s) :
    ∀ t k i j, (t, OpKind.get k, Res.ok none, i, j) ∉ s.hist :=
  Yak.Proto.Leaf.leaf_get_nonnull s h

/-- writers exclude each other: at most one thread is between lock and unlock, and the abstract
    map changes only at a writer's publishing step. -/
theorem writers_serialized (s : State) (h : Reach cfgFixed s) :
    ∀ t1 t2, Yak.Proto.Leaf.holdsLock s t1 → Yak.Proto.Leaf.holdsLock s t2 → t1 = t2 :=
  Yak.Proto.Leaf.writers_serialized s h

/-- the unrepaired reader (no re-fetch on a cleared cell) is NOT linearizable: a concrete
    two-thread trace in which a get returns OK with the null value. -/
theorem leaf_D1_counterexample :
    ∃ s, Reach cfgD1 s ∧ ∃ t k i j, (t, OpKind.get k, Res.ok none, i, j) ∈ s.hist :=
  Yak.Proto.Leaf.leaf_D1_counterexample

end Yak.Props.C01
