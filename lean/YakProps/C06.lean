import YakModel.Proto.NodeSet
import YakModel.Proofs.NodeSetProofs
/-!
# C06 — A concurrent insert is seen by the scan or invalidates its node-version set

Property theorems only; the model is `YakModel/Proto/NodeSet.lean` (a chain of border nodes with
fences, any number of inserting writers including splits, any number of scanners that collect
`(leaf, vins, vsplit)` triples), the proofs are in `YakModel/Proofs/NodeSet*.lean`. All statements
quantify over every reachable state, i.e. every interleaving of every number of writers and
scanners, for every capacity. Removes are not part of the model (the property is about inserts).

Vocabulary: `s.sc t = .fin a b keys nodes` — scanner `t` has returned from its scan of `[a, b]`
with result `keys` and collected set `nodes`; `k ∈ s.completed` — an insert of `k` has done its
last unlock; `Stale s nodes` — some collected triple differs from the counters its leaf has now;
`Present s k` — `k` is stored in the chain.
-/
namespace Yak.Props.C06
open Yak.Proto.NodeSet

/-- once a scan and an insert of a key of the scanned interval have both completed, the key is in
    the scan's result or at least one collected (version, node) pair is stale. -/
theorem scan_insert_seen_or_stale (c : Cfg) (s : State) (h : Reach c s) (t a b : Nat)
    (keys : List Nat) (nodes : List NodeRec) (hfin : s.sc t = .fin a b keys nodes) (k : Nat)
    (hk : k ∈ s.completed) (ha : a ≤ k) (hb : k ≤ b) : k ∈ keys ∨ Stale s nodes :=
  Yak.Proto.NodeSet.scan_insert_seen_or_stale h hfin hk ha hb

/-- the same for every stored key that no writer is still publishing (a completed insert is the
    special case; so is a key whose split has unlocked the leaf but not yet its new sibling). -/
theorem scan_present_seen_or_stale (c : Cfg) (s : State) (h : Reach c s) (t a b : Nat)
    (keys : List Nat) (nodes : List NodeRec) (hfin : s.sc t = .fin a b keys nodes) (k : Nat)
    (hp : Present s k) (hnf : ∀ t', ¬ (s.w t').inFlight k) (ha : a ≤ k) (hb : k ≤ b) :
    k ∈ keys ∨ Stale s nodes :=
  Yak.Proto.NodeSet.scan_present_seen_or_stale h hfin hp hnf ha hb

/-- counters only grow: every leaf persists (same id, same fence) with counters at least as large
    in every later state. -/
theorem counters_monotone (c : Cfg) (s s' : State) (h : Reach c s) (h' : ReachFrom c s s') :
    ∀ L ∈ s.chain, ∃ L' ∈ s'.chain,
      L'.id = L.id ∧ L'.lo = L.lo ∧ L.vins ≤ L'.vins ∧ L.vsplit ≤ L'.vsplit :=
  Yak.Proto.NodeSet.counters_monotone h h'

/-- hence "stale now" is "stale ever after", and the finished scan keeps its result: a later
    re-validation of the collected pairs cannot miss the change. -/
theorem stale_forever (c : Cfg) (s s' : State) (h : Reach c s) (h' : ReachFrom c s s') (t a b : Nat)
    (keys : List Nat) (nodes : List NodeRec) (hfin : s.sc t = .fin a b keys nodes)
    (hst : Stale s nodes) : s'.sc t = .fin a b keys nodes ∧ Stale s' nodes :=
  ⟨Yak.Proto.NodeSet.fin_persistent h' hfin, Yak.Proto.NodeSet.stale_forever h h' hfin hst⟩

/-- every collected triple names a leaf of the chain and is not ahead of it. -/
theorem records_sound (c : Cfg) (s : State) (h : Reach c s) (t a b : Nat)
    (keys : List Nat) (nodes : List NodeRec) (hfin : s.sc t = .fin a b keys nodes) :
    ∀ r ∈ nodes, ∃ L ∈ s.chain, L.id = r.1 ∧ r.2.1 ≤ L.vins ∧ r.2.2 ≤ L.vsplit :=
  Yak.Proto.NodeSet.records_sound h hfin

/-- "Consequently": a transaction that re-validates the collected pairs, finds them all unchanged
    and finds no collected leaf in the middle of a modification has read exactly the keys of the
    interval that exist. -/
theorem validated_scan_is_exact (c : Cfg) (s : State) (h : Reach c s) (t a b : Nat)
    (keys : List Nat) (nodes : List NodeRec) (hfin : s.sc t = .fin a b keys nodes)
    (hns : ¬ Stale s nodes)
    (hclean : ∀ r ∈ nodes, ∀ L ∈ s.chain, L.id = r.1 → L.dirty = false) :
    ∀ k, k ∈ keys ↔ (a ≤ k ∧ k ≤ b ∧ Present s k) :=
  Yak.Proto.NodeSet.validated_scan_is_exact h hfin hns hclean

/-! ## non-vacuity: concrete runs (capacity 3) -/

/-- 2 is inserted, a scan of [1, 4] runs to completion, then 3 is inserted. -/
def missedRun : List Event :=
  [.wLock 0 2 0, .wInsert 0, .wUnlock 0,
   .sStart 0 1 4, .sEnter 0 0, .sLoadVer 0, .sSnapshot 0, .sValidate 0,
   .wLock 1 3 0, .wInsert 1, .wUnlock 1]

/-- the scan returned `[2]` with the pair `(leaf 0, vins 1, vsplit 0)`; the later insert of 3 has
    completed, is not in the result, and leaf 0 now has `vins = 2`: the pair is stale. -/
example : (exec ⟨3⟩ init missedRun).map (fun s => (s.sc 0, s.completed, s.chain)) =
    some (.fin 1 4 [2] [(0, 1, 0)], [3, 2], [⟨0, 0, [2, 3], 2, 0, false, false⟩]) := by decide

/-- four inserts (the fourth finds leaf 0 full at capacity 3 and splits it), then a scan of [1, 6]
    that walks both leaves while nothing else runs. -/
def exactRun : List Event :=
  [.wLock 0 1 0, .wInsert 0, .wUnlock 0, .wLock 0 3 0, .wInsert 0, .wUnlock 0,
   .wLock 0 5 0, .wInsert 0, .wUnlock 0, .wLock 1 4 0, .wSplit 1, .wUnlockL 1, .wUnlockR 1,
   .sStart 0 1 6, .sEnter 0 0, .sLoadVer 0, .sSnapshot 0, .sValidate 0,
   .sLoadVer 0, .sSnapshot 0, .sValidate 0]

/-- both leaves are collected with their current counters and the result is exactly the stored
    keys of the interval. -/
example : (exec ⟨3⟩ init exactRun).map (fun s => (s.sc 0, s.chain)) =
    some (.fin 1 6 [1, 3, 4, 5] [(0, 4, 1), (1, 4, 1)],
      [⟨0, 0, [1, 3, 4], 4, 1, false, false⟩, ⟨1, 5, [5], 4, 1, false, false⟩]) := by decide

/-- a scan overtaken by a split: the scanner has collected leaf 0 (the only leaf), then an insert
    of 6 splits it. -/
def splitRun : List Event :=
  [.wLock 0 1 0, .wInsert 0, .wUnlock 0, .wLock 0 3 0, .wInsert 0, .wUnlock 0,
   .wLock 0 5 0, .wInsert 0, .wUnlock 0,
   .sStart 0 1 6, .sEnter 0 0, .sLoadVer 0, .sSnapshot 0, .sValidate 0,
   .wLock 1 6 0, .wSplit 1, .wUnlockL 1, .wUnlockR 1]

/-- the result `[1, 3, 5]` misses the completed insert of 6, which went into the new leaf 1 that
    was never collected; the collected pair of leaf 0 says `vsplit 0`, the leaf now has
    `vsplit 1`. -/
example : (exec ⟨3⟩ init splitRun).map (fun s => (s.sc 0, s.completed, s.chain)) =
    some (.fin 1 6 [1, 3, 5] [(0, 3, 0)], [6, 5, 3, 1],
      [⟨0, 0, [1, 3], 4, 1, false, false⟩, ⟨1, 5, [5, 6], 4, 1, false, false⟩]) := by decide

/-- the hypotheses of `scan_insert_seen_or_stale` are satisfiable with the key absent from the
    result: the `Stale` disjunct cannot be dropped. -/
theorem stale_disjunct_needed : ∃ s, Reach ⟨3⟩ s ∧ ∃ keys nodes,
    s.sc 0 = .fin 1 6 keys nodes ∧ 6 ∈ s.completed ∧ 6 ∉ keys := by
  cases h : exec ⟨3⟩ init splitRun with
  | none =>
    have : (exec ⟨3⟩ init splitRun).isSome = true := by decide
    rw [h] at this; cases this
  | some s =>
    have hv : (exec ⟨3⟩ init splitRun).map (fun s => (s.sc 0, s.completed)) =
        some (.fin 1 6 [1, 3, 5] [(0, 3, 0)], [6, 5, 3, 1]) := by decide
    rw [h] at hv
    simp only [Option.map_some, Option.some.injEq, Prod.mk.injEq] at hv
    exact ⟨s, reach_exec Reach.init _ h, [1, 3, 5], [(0, 3, 0)], hv.1, by rw [hv.2]; decide, by decide⟩

/-- the hypotheses of `validated_scan_is_exact` are satisfiable by a scan that collected two
    leaves. -/
theorem exact_hypotheses_satisfiable : ∃ s, Reach ⟨3⟩ s ∧ ∃ keys nodes,
    s.sc 0 = .fin 1 6 keys nodes ∧ nodes.length = 2 ∧ ¬ Stale s nodes ∧
    (∀ r ∈ nodes, ∀ L ∈ s.chain, L.id = r.1 → L.dirty = false) := by
  cases h : exec ⟨3⟩ init exactRun with
  | none =>
    have : (exec ⟨3⟩ init exactRun).isSome = true := by decide
    rw [h] at this; cases this
  | some s =>
    have hv : (exec ⟨3⟩ init exactRun).map (fun s => (s.sc 0, s.chain)) =
        some (.fin 1 6 [1, 3, 4, 5] [(0, 4, 1), (1, 4, 1)],
          [⟨0, 0, [1, 3, 4], 4, 1, false, false⟩, ⟨1, 5, [5], 4, 1, false, false⟩]) := by decide
    rw [h] at hv
    simp only [Option.map_some, Option.some.injEq, Prod.mk.injEq] at hv
    refine ⟨s, reach_exec Reach.init _ h, [1, 3, 4, 5], [(0, 4, 1), (1, 4, 1)], hv.1, rfl, ?_, ?_⟩
    · unfold Stale
      rw [hv.2]
      decide
    · rw [hv.2]
      decide

end Yak.Props.C06
