import YakModel.Proto.NodeSet
import YakModel.Proofs.NodeSetC04
import YakModel.Proofs.NodeSetWitness
import YakModel.Proofs.AbsorbProofs
/-!
# C04 — Concurrent scans are per-key consistent and never lose a stable key

Property theorems on the `NodeSet` model (`YakModel/Proto/NodeSet.lean`: a chain of border nodes,
any number of inserting writers including splits, any number of scanners, every interleaving,
every capacity); proofs in `YakModel/Proofs/NodeSetC04.lean`. The model has no removes and no
value updates, so a key that is stored when the scan is invoked is "present with an unchanged
binding for the whole duration of the scan", and a key that is not stored at that instant "was
absent at some instant of the scan". The scan is identified by its `sStart t a b` step
`s0 → s1`; `ReachFrom c s1 s` is any continuation, `s.sc t = .fin a b keys nodes` its return.
-/
namespace Yak.Props.C04
open Yak.Proto.NodeSet

/-- the result is strictly ascending and inside the requested interval. -/
theorem scan_sorted_in_interval (c : Cfg) (s : State) (h : Reach c s) (t a b : Nat)
    (keys : List Nat) (nodes : List NodeRec) (hfin : s.sc t = .fin a b keys nodes) :
    keys.Pairwise (· < ·) ∧ ∀ k ∈ keys, a ≤ k ∧ k ≤ b :=
  Yak.Proto.NodeSet.scan_sorted_in_interval h hfin

/-- every reported key is stored in the chain (keys are never removed: it was stored when it was
    read and in every later state). -/
theorem scan_result_was_present (c : Cfg) (s : State) (h : Reach c s) (t a b : Nat)
    (keys : List Nat) (nodes : List NodeRec) (hfin : s.sc t = .fin a b keys nodes) :
    ∀ k ∈ keys, Present s k :=
  Yak.Proto.NodeSet.scan_result_was_present h hfin

/-- no stable key is lost: every key of the interval that was stored when the scan was invoked is
    in its result — whatever inserts, splits, retries and restarts happen meanwhile, and without
    any staleness proviso. -/
theorem scan_keeps_stable_keys (c : Cfg) (s0 s1 s : State) (h0 : Reach c s0) (t a b : Nat)
    (hstart : step? c s0 (.sStart t a b) = some s1) (hr : ReachFrom c s1 s)
    (keys : List Nat) (nodes : List NodeRec) (hfin : s.sc t = .fin a b keys nodes) (k : Nat)
    (hp : Present s0 k) (ha : a ≤ k) (hb : k ≤ b) : k ∈ keys :=
  Yak.Proto.NodeSet.scan_keeps_stable_keys h0 hstart hr hfin hp ha hb

/-- every key of the interval reported absent was absent at an instant of the scan, namely at
    its invocation. -/
theorem scan_absent_was_absent (c : Cfg) (s0 s1 s : State) (h0 : Reach c s0) (t a b : Nat)
    (hstart : step? c s0 (.sStart t a b) = some s1) (hr : ReachFrom c s1 s)
    (keys : List Nat) (nodes : List NodeRec) (hfin : s.sc t = .fin a b keys nodes) (k : Nat)
    (ha : a ≤ k) (hb : k ≤ b) (hk : k ∉ keys) : ¬ Present s0 k :=
  fun hp => hk (Yak.Proto.NodeSet.scan_keeps_stable_keys h0 hstart hr hfin hp ha hb)

/-! ## non-vacuity: concrete runs (capacity 3) -/

/-- keys 1, 3, 5 are stored -/
def prefixRun : List Event :=
  [.wLock 0 1 0, .wInsert 0, .wUnlock 0, .wLock 0 3 0, .wInsert 0, .wUnlock 0,
   .wLock 0 5 0, .wInsert 0, .wUnlock 0]

/-- a scan of [1, 6] reads leaf 0; before it validates, an insert of 4 splits the leaf; the
    validation sees the split counter, the scan restarts from find_border, reads leaf 0 again,
    moves to the new leaf 1; after leaf 1 is validated an insert of 6 goes into it. -/
def overtakenRun : List Event :=
  [.sEnter 0 0, .sLoadVer 0, .sSnapshot 0,
   .wLock 1 4 0, .wSplit 1, .wUnlockL 1, .wUnlockR 1,
   .sValidate 0,
   .sEnter 0 0, .sLoadVer 0, .sSnapshot 0, .sValidate 0,
   .sLoadVer 0, .sSnapshot 0, .sValidate 0,
   .wLock 1 6 1, .wInsert 1, .wUnlock 1]

/-- the hypotheses of `scan_keeps_stable_keys` / `scan_absent_was_absent` are satisfiable: the
    stable keys 1, 3, 5 are returned although the scan was overtaken by a split and restarted; 4
    (inserted during the scan) happens to be returned too; 6 is stored at the end, is not in the
    result, and indeed was not stored at the invocation. -/
theorem stable_keys_witness : ∃ s0 s1 s, Reach ⟨3⟩ s0 ∧ step? ⟨3⟩ s0 (.sStart 0 1 6) = some s1 ∧
    ReachFrom ⟨3⟩ s1 s ∧ s.sc 0 = .fin 1 6 [1, 3, 4, 5] [(0, 4, 1), (1, 4, 1)] ∧
    Present s0 1 ∧ Present s0 3 ∧ Present s0 5 ∧ ¬ Present s0 6 ∧ Present s 6 := by
  -- every intermediate state is a literal and every step a small `rfl`
  -- (`YakModel/Proofs/NodeSetWitness.lean`); no whole-run evaluation in the kernel
  have h0 : exec ⟨3⟩ init prefixRun = some Witness.pre9 := Witness.pre_exec
  have h2 : exec ⟨3⟩ Witness.ovt10 overtakenRun = some Witness.ovt28 := Witness.ovt_exec
  refine ⟨Witness.pre9, Witness.ovt10, Witness.ovt28, reach_exec Reach.init _ h0,
    Witness.ovt10_step, reachFrom_exec _ h2, rfl, ?_, ?_, ?_, ?_, ?_⟩ <;>
  · unfold Present
    decide

/-! ### Removes that empty and unlink leaves (`Proto/Absorb`)

`NodeSet` has no removes. `Proto/Absorb` is the complementary model: a chain of fenced leaves under
inserts, splits and removes that **unlink an emptied leaf, whose key range is absorbed by a
neighbour** (the parent drops one child and one separator; separators are never recomputed), with
scanners whose visit of a leaf is one validated read. `Cfg.fix` selects the repaired `scan_border`
(commit "fix: a forward scan skips keys that are not greater than what earlier nodes contributed"):
entries `≤` the last key collected before the current leaf are skipped. With the repair the result
is strictly ascending and no stable key is lost; without it `D13_counterexample` is the execution
found on the real code (`corpus/C04/d13_absorbed_range.json`: `k03 k02y k11`). -/

/-- with the repair, every partial and final result is strictly ascending and inside the interval,
    whatever inserts, splits, removes and unlinks (either absorb direction) interleave. -/
theorem absorb_scan_sorted (c : Yak.Proto.Absorb.Cfg) (hf : c.fix = true) (s : Yak.Proto.Absorb.State)
    (h : Yak.Proto.Absorb.Reach c s) (t a b : Nat) (res : List Nat) (cur : Nat)
    (hs : s.sc t = Yak.Proto.Absorb.SPc.at a b res cur ∨ s.sc t = Yak.Proto.Absorb.SPc.fin a b res) :
    res.Pairwise (· < ·) ∧ ∀ r ∈ res, a ≤ r ∧ r ≤ b := Yak.Proto.Absorb.scan_sorted_fixed hf h hs

/-- the repair loses nothing: a key of the interval that is stored when the scan returns and was
    neither inserted nor removed since the scan was invoked (so it was stored throughout) is in
    the result. -/
theorem absorb_stable_key_returned (c : Yak.Proto.Absorb.Cfg) (hf : c.fix = true)
    (s : Yak.Proto.Absorb.State) (h : Yak.Proto.Absorb.Reach c s)
    (t a b : Nat) (res : List Nat) (hs : s.sc t = Yak.Proto.Absorb.SPc.fin a b res) (k : Nat)
    (ha : a ≤ k) (hb : k ≤ b) (hk : Yak.Proto.Absorb.Stable s t k) : k ∈ res :=
  Yak.Proto.Absorb.stable_key_returned_fixed hf h hs ha hb hk

/-- every reported key was stored at some moment of the scan (any cfg). -/
theorem absorb_result_was_present (c : Yak.Proto.Absorb.Cfg) (hist : List Yak.Proto.Absorb.State)
    (s : Yak.Proto.Absorb.State) (h : Yak.Proto.Absorb.Hist c hist s)
    (t a b : Nat) (res : List Nat) (hs : Yak.Proto.Absorb.Holds s t a b res) :
    ∀ r ∈ res, ∃ s1 ∈ hist, (∃ res1 cur1, s1.sc t = Yak.Proto.Absorb.SPc.at a b res1 cur1) ∧
      Yak.Proto.Absorb.Present s1 r :=
  Yak.Proto.Absorb.scan_result_was_present h hs

/-- D13 on the unrepaired scan: the left leaf is emptied and unlinked behind the scanner, its right
    neighbour absorbs the range and receives a smaller key: the result is `[3, 2, 11]`. -/
theorem D13_counterexample :
    Yak.Proto.Absorb.scanOutcome {fix := false} Yak.Proto.Absorb.D13_evs 0 =
      some (Yak.Proto.Absorb.SPc.fin 0 100 [3, 2, 11]) ∧ ¬ [3, 2, 11].Pairwise (· < ·) :=
  ⟨Yak.Proto.Absorb.D13_counterexample, Yak.Proto.Absorb.D13_not_sorted⟩

/-- the same schedule under the repair (non-vacuity of the two theorems above: the absorbing
    scenario is reachable with `fix`, the stable key 11 is reported, the late key 2 is not). -/
theorem D13_fixed_run :
    Yak.Proto.Absorb.scanOutcome {fix := true} Yak.Proto.Absorb.D13_evs 0 =
      some (Yak.Proto.Absorb.SPc.fin 0 100 [3, 11]) :=
  Yak.Proto.Absorb.D13_fixed_run

end Yak.Props.C04
