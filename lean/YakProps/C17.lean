import YakModel.Proofs.VersionProofs
import YakModel.Proto.VSys
import YakModel.Proofs.VSysProofs
import YakModel.Proofs.VersCheckProofs
/-!
# C17 — The node version word obeys the lock / dirty-bit / counter protocol

Property theorems only (helper lemmas live in `YakModel/Proofs/`). Statements quantify over all
2^64 words and, for the concurrent part, over every reachable state of `VSys` (any number of
threads, weak CAS that may fail spuriously, any interleaving).
-/
namespace Yak.Props.C17
open Yak.Version

/-- the eight bit-fields tile the 64-bit word: `encode`/`decode` are inverse bijections. -/
theorem layout_partition_left (b : Body) : decode (encode b) = b := Yak.Version.decode_encode b
theorem layout_partition_right (w : W) : encode (decode w) = w := Yak.Version.encode_decode w

/-- unlock clears the lock and both dirty bits, on every word. -/
theorem unlock_clears (w : W) :
    (decode (unlockW w)).locked = false ∧ (decode (unlockW w)).inserting = false ∧
    (decode (unlockW w)).splitting = false := Yak.Version.unlock_clears w

/-- unlock increments the insert counter iff an insert was flagged — modulo 2^29 inside its own
    field (`BitVec 29` addition) — and the split counter iff a split was flagged. -/
theorem unlock_counters (w : W) :
    (decode (unlockW w)).vinsert =
      (if (decode w).inserting then (decode w).vinsert + 1 else (decode w).vinsert) ∧
    (decode (unlockW w)).vsplit =
      (if (decode w).splitting then (decode w).vsplit + 1 else (decode w).vsplit) :=
  Yak.Version.unlock_counters w

/-- unlock leaves every other field untouched. -/
theorem unlock_others (w : W) :
    (decode (unlockW w)).deleted = (decode w).deleted ∧ (decode (unlockW w)).root = (decode w).root ∧
    (decode (unlockW w)).border = (decode w).border := Yak.Version.unlock_others w

/-- the field view and plain 64-bit arithmetic agree: no carry ever leaves a counter field. -/
theorem unlock_word_arith (w : W) : unlockW w = unlockArith w := Yak.Version.unlockW_eq_arith w

/-- wrap-around boundary: from counter 2^29-1 an insert-flagged unlock yields counter 0 and does
    not disturb the neighbouring bits. -/
theorem unlock_wraps (b : Body) (h : b.vinsert = BitVec.ofNat 29 (2^29 - 1)) (hi : b.inserting = true) :
    (decode (unlockW (encode b))).vinsert = 0 ∧ (decode (unlockW (encode b))).vsplit =
      (if b.splitting then b.vsplit + 1 else b.vsplit) := Yak.Version.unlock_wraps b h hi

/-- each flag setter changes exactly its own field. -/
theorem setters_local (w : W) (tf : Bool) :
    decode (setRootW w tf) = { decode w with root := tf } ∧
    decode (setBorderW w tf) = { decode w with border := tf } ∧
    decode (setDeletedW w tf) = { decode w with deleted := tf } ∧
    decode (setInsertingW w tf) = { decode w with inserting := tf } ∧
    decode (setSplittingW w tf) = { decode w with splitting := tf } ∧
    decode (lockW w) = { decode w with locked := true } := Yak.Version.setters_local w tf

open Yak.Proto.VSys in
/-- lock is mutually exclusive: in every reachable state at most one thread holds the lock, and
    while one does the word's lock bit is set. -/
theorem lock_mutex (b0 : Body) (hb : b0.locked = false) (s : State) (h : Reach (init b0) s) :
    (∀ t1 t2, s.holds t1 = true → s.holds t2 = true → t1 = t2) ∧
    (∀ t, s.holds t = true → s.word.locked = true) := Yak.Proto.VSys.lock_mutex b0 hb s h

open Yak.Proto.VSys in
/-- a stable version is never returned while the node is locked or dirty. -/
theorem stable_is_clean (s : State) (t : Nat) (b : Body) (s' : State)
    (h : Step s (.stableRead t b) s') : b.locked = false ∧ b.inserting = false ∧ b.splitting = false :=
  Yak.Proto.VSys.stable_is_clean s t b s' h

open Yak.Proto.VSys in
/-- the counters count completions: in every reachable state the insert counter equals its initial
    value plus the number of completed insert-flagged unlocks (and explicit increments), mod 2^29;
    likewise the split counter. -/
theorem counter_is_count (b0 : Body) (hb : b0.locked = false) (s : State) (h : Reach (init b0) s) :
    s.word.vinsert = b0.vinsert + BitVec.ofNat 29 s.nIns ∧
    s.word.vsplit = b0.vsplit + BitVec.ofNat 29 s.nSplit := Yak.Proto.VSys.counter_is_count b0 hb s h

open Yak.Proto.VSys in
/-- "Hence": two equal stable versions taken at different times prove that no insert or split
    completed in between — under the explicit bound that fewer than 2^29 completions happened
    (the counters wrap; `equal_stable_wrap_witness` shows the bound is tight). -/
theorem equal_stable_no_completion (b0 : Body) (hb : b0.locked = false) (s1 s2 : State)
    (h1 : Reach (init b0) s1) (h12 : Reach s1 s2)
    (hs1 : s1.word.stable = true) (hs2 : s2.word.stable = true) (heq : s1.word = s2.word)
    (hI : s2.nIns - s1.nIns < 2^29) (hS : s2.nSplit - s1.nSplit < 2^29) :
    s2.nIns = s1.nIns ∧ s2.nSplit = s1.nSplit :=
  Yak.Proto.VSys.equal_stable_no_completion b0 hb s1 s2 h1 h12 hs1 hs2 heq hI hS

open Yak.Proto.VSys in
/-- tightness of the bound: exactly 2^29 completions give equal stable versions. -/
theorem equal_stable_wrap_witness (b : Body) :
    b.vinsert + BitVec.ofNat 29 (2^29) = b.vinsert := Yak.Proto.VSys.wrap_witness b

/-! ### What the trace monitor's acceptance means (`yakmodel vers`, run on every traced schedule)

The monitor classifies each successful compare-exchange the real code performed on a version word.
An accepted transition did exactly what its class says — so a stale CAS retry that also reverts
another thread's flag, or a lock bit written back by a non-owner, cannot be accepted. -/

open Yak.VersCheck in
theorem monitor_lock_step {o n : W} (h : classify o n = some .lock) :
    (decode o).locked = false ∧ decode n = { decode o with locked := true } := classify_lock h

open Yak.VersCheck in
theorem monitor_unlock_step {o n : W} (h : classify o n = some .unlock) :
    (decode o).locked = true ∧ decode n = (decode o).unlock := classify_unlock h

open Yak.VersCheck in
theorem monitor_flag_step {o n : W} (h : classify o n = some .flag) :
    ∃ tf : Bool, decode n = { decode o with root := tf } ∨ decode n = { decode o with border := tf } ∨
      decode n = { decode o with deleted := tf } ∨ decode n = { decode o with inserting := tf } ∨
      decode n = { decode o with splitting := tf } := classify_flag h

open Yak.VersCheck in
theorem monitor_lock_bit {o n : W} {k : Kind} (h : classify o n = some k) (hk : k = .flag ∨ k = .same) :
    (decode n).locked = (decode o).locked := lock_bit_changes_only_by_lock_unlock h hk

/-- non-vacuity: the stale-retry transition of seeded change C09_m1 (deleted set, root lost) is
    rejected, an honest `atomic_set_deleted` is accepted -/
example : Yak.VersCheck.classify 0xc000000120000010#64 0xa000000120000010#64 = none := by decide
example : Yak.VersCheck.classify 0xc000000120000010#64 0xe000000120000010#64 = some .flag := by decide

end Yak.Props.C17
