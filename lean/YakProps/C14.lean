import YakModel.Proto.Session
import YakModel.Proofs.SessionProofs
/-!
# C14 — sessions: distinct tokens, capacity, WARN_MAX_SESSIONS, slot reuse, epoch accounting

Property theorems only (lemmas live in `YakModel/Proofs/SessionProofs.lean`). Everything is stated
over the protocol model `Yak.Proto.Session`: any number of threads (thread ids are arbitrary
naturals), every interleaving of the single shared-memory accesses of `enter`/`leave`, weak CAS
that may fail spuriously, an epoch thread that bumps the global epoch at any time, and every
capacity `N = c.N` (no lower bound on `N` is needed by any theorem; `N = 1` and `N = 2` instances
are exhibited in the examples).

`s.held t` is ghost state: the tokens `enter` has returned to thread `t` and `t` has not yet passed
to `leave` — the *open sessions* of `t` (`open_window` pins this down). A thread may hold several.
-/
namespace Yak.Props.C14
open Yak.Proto.Session

/-! ## the model: acceptor = relation, reachable = accepted trace from `init` -/

theorem acceptor_is_step (c : Cfg) (s s' : State) (e : Event) :
    step? c s e = some s' ↔ Step c s e s' := step?_iff

theorem reach_is_accepted_trace (c : Cfg) (s : State) :
    Reach c s ↔ ∃ es, exec c (init c) es = some s := reach_iff_exec

/-- `held` is exactly "returned by enter, not yet given to leave": `enterRet t (some i)` adds `i`
    to `held t`, `leaveCall t i` requires `i ∈ held t` and removes it, and no other step of any
    thread changes `held t`. -/
theorem open_window (c : Cfg) (s s' : State) :
    (∀ t i, Step c s (.enterRet t (some i)) s' → s'.held t = i :: s.held t) ∧
    (∀ t i, Step c s (.leaveCall t i) s' → i ∈ s.held t ∧ s'.held t = (s.held t).erase i) ∧
    (∀ e t, Step c s e s' → e.thread? ≠ some t → s'.held t = s.held t) :=
  held_window c s s'

/-! ## 1. tokens are distinct -/

/-- Two open sessions never share a slot: a slot is held by at most one thread, and no thread
    holds the same slot twice. -/
theorem tokens_distinct (c : Cfg) (s : State) (h : Reach c s) :
    (∀ t1 t2 i, i ∈ s.held t1 → i ∈ s.held t2 → t1 = t2) ∧ (∀ t, (s.held t).Nodup) :=
  Yak.Proto.Session.tokens_distinct h

/-! ## 2. at most `N` sessions are open -/

/-- Every token is a slot index `< N` whose `running` flag is set, and the number of sessions held
    by any finite set `ts` of distinct threads is at most `N`. -/
theorem open_le_capacity (c : Cfg) (s : State) (h : Reach c s) :
    (∀ t i, i ∈ s.held t → i < c.N ∧ s.running i = true) ∧
    (∀ ts : List Nat, ts.Nodup → (ts.map (fun t => (s.held t).length)).sum ≤ c.N) := by
  refine ⟨fun t i hi => held_lt_running h hi, fun ts hts => ?_⟩
  rw [sum_length_eq_flatMap]
  exact Yak.Proto.Session.open_le_capacity h ts hts

/-! ## 3. a quiescent `enter` succeeds iff there is room -/

/-- `s` is reachable and quiescent (no enter/leave in progress in any thread). Thread `t` runs one
    `enter` alone: `es` are its accesses (spurious CAS failures allowed, the epoch thread may
    interleave), followed by the return `enterRet t tok`. Then the call succeeds iff some slot is
    held by nobody, it returns the lowest such slot, and it returns `none` iff all `N` slots are
    held. -/
theorem quiescent_enter_iff_room (c : Cfg) (s : State) (h : Reach c s)
    (hq : ∀ t', s.pc t' = .idle) (t : Nat) (es : List Event) (tok : Option Nat) (s' : State)
    (hsolo : ∀ e ∈ es, e.isEnterStepOf t = true ∨ e = .epochInc)
    (hrun : exec c s (es ++ [.enterRet t tok]) = some s') :
    ((∃ i, tok = some i) ↔ ∃ i, i < c.N ∧ ∀ t', i ∉ s.held t') ∧
    (tok = none ↔ ∀ i, i < c.N → ∃ t', i ∈ s.held t') ∧
    (∀ i, tok = some i → i < c.N ∧ (∀ t', i ∉ s.held t') ∧ (∀ j, j < i → ∃ t', j ∈ s.held t') ∧
      s'.held t = i :: s.held t ∧ s'.running i = true) ∧
    (∀ t', s'.pc t' = .idle) :=
  quiescent_enter_room h hq hsolo hrun

/-- the same in terms of the *number* of open sessions: with `ts` a duplicate-free list of threads
    containing every thread that holds a session, the quiescent `enter` succeeds iff fewer than `N`
    sessions are open. -/
theorem quiescent_enter_iff_count (c : Cfg) (s : State) (h : Reach c s)
    (hq : ∀ t', s.pc t' = .idle) (t : Nat) (es : List Event) (tok : Option Nat) (s' : State)
    (hsolo : ∀ e ∈ es, e.isEnterStepOf t = true ∨ e = .epochInc)
    (hrun : exec c s (es ++ [.enterRet t tok]) = some s')
    (ts : List Nat) (hts : ts.Nodup) (hcover : ∀ t', t' ∉ ts → s.held t' = []) :
    (∃ i, tok = some i) ↔ (ts.map (fun t => (s.held t).length)).sum < c.N := by
  rw [sum_length_eq_flatMap, open_count_lt_iff_free h ts hts hcover]
  exact (quiescent_enter_iff_room c s h hq t es tok s' hsolo hrun).1

/-- such a solo run exists from every state in which `t` is idle: left alone, `enter` returns. -/
theorem quiescent_enter_returns (c : Cfg) (s : State) (t : Nat) (hidle : s.pc t = .idle) :
    ∃ es tok s', (∀ e ∈ es, e.isEnterStepOf t = true) ∧
      exec c s (es ++ [.enterRet t tok]) = some s' := solo_enter_exists c s t hidle

/-! ## 4. WARN_MAX_SESSIONS only after seeing every slot occupied -/

/-- In any accepted trace (from the initial state, or from any state `s0` in which `t` is idle)
    that ends with `t`'s `enter` returning `none`: for every slot `j < N` the trace contains a step
    `e` of `t` — a load of `running[j]` that returned `true`, or a failed CAS on `running[j]`
    (whose refresh of `expected` therefore read `true`) — taken in a state `s1` with
    `running[j] = true`, and `t` did not return from any `enter` between `e` and the end: `e`
    belongs to the very call that gives up. -/
theorem max_sessions_only_if_each_slot_seen_occupied (c : Cfg) (s0 : State) (t : Nat)
    (h0 : s0.pc t = .idle) (es : List Event) (s' : State)
    (hrun : exec c s0 (es ++ [.enterRet t none]) = some s') :
    ∀ j, j < c.N →
      ∃ es1 e es2 s1, es = es1 ++ e :: es2 ∧ exec c s0 es1 = some s1 ∧ s1.running j = true ∧
        (e = .ldRunning t j true ∨ e = .casRunning t j false) ∧
        ∀ e' ∈ es2, ∀ k, e' ≠ .enterRet t k :=
  max_sessions_observed h0 hrun

/-- `init c` satisfies the hypothesis `h0` for every thread. -/
example (c : Cfg) (t : Nat) : (init c).pc t = .idle := rfl

/-! ## 5. a slot released by leave can be acquired again -/

/-- From a reachable quiescent state in which `t` holds token `i`: `leave(i)` runs to completion
    (its four events are accepted), afterwards `running[i] = false`, nobody holds `i`, the state is
    quiescent, and every subsequent solo `enter` by any thread `t2` succeeds with a slot `k ≤ i` —
    exactly `i` when all lower slots are occupied. -/
theorem slot_reusable_after_leave (c : Cfg) (s : State) (h : Reach c s)
    (hq : ∀ t', s.pc t' = .idle) (t i : Nat) (hi : i ∈ s.held t) :
    ∃ s2, exec c s [.leaveCall t i, .stBegin t i 0, .stRunning t i false, .leaveRet t] = some s2 ∧
      s2.running i = false ∧ (∀ t', i ∉ s2.held t') ∧ (∀ t', s2.pc t' = .idle) ∧
      ∀ (t2 : Nat) (es : List Event) (tok : Option Nat) (s3 : State),
        (∀ e ∈ es, e.isEnterStepOf t2 = true ∨ e = .epochInc) →
        exec c s2 (es ++ [.enterRet t2 tok]) = some s3 →
        ∃ k, tok = some k ∧ k ≤ i ∧ ((∀ j, j < i → s.running j = true) → k = i) :=
  slot_reusable h hq hi

/-- under concurrency: the store `running[i] := false` of `leave` frees the slot at that instant,
    `begin[i]` is already 0, and no thread holds or is acquiring/releasing slot `i` any more. -/
theorem leave_store_frees (c : Cfg) (s s' : State) (h : Reach c s) (t i : Nat)
    (hs : Step c s (.stRunning t i false) s') :
    s'.running i = false ∧ ∀ t', i ∉ claims s' t' :=
  stRunning_frees h hs

/-! ## 6. an open session is visible to the epoch thread -/

/-- With the global epoch initialised to a value ≥ 1 (it is 1 in a fresh process and never
    decreases), every open session — from `enterRet` to `leaveCall`, see `open_window` — has
    `begin[slot] ≠ 0`, so the epoch thread's scan (`check_epoch != 0`) counts it; moreover the
    value is an epoch that the global epoch has reached, and `running[slot]` is set. -/
theorem counted_from_return_to_leave (c : Cfg) (h0 : 1 ≤ c.epoch0) (s : State) (h : Reach c s)
    (t i : Nat) (hi : i ∈ s.held t) :
    s.begin i ≠ 0 ∧ s.begin i ≤ s.epoch ∧ s.running i = true := by
  have := (binv_reach h0 h).begun t i (Or.inr hi)
  exact ⟨by omega, this.2, (held_lt_running h hi).2⟩

theorem epoch_ge_one (c : Cfg) (h0 : 1 ≤ c.epoch0) (s : State) (h : Reach c s) : 1 ≤ s.epoch :=
  epoch_pos_reach h0 h

/-! ## non-vacuity: concrete accepted traces (run through the executable acceptor) -/

/-- N = 2, threads 1 and 2 race for slot 0: both load `false`, 1 wins the CAS, 2's CAS fails and
    refreshes `expected = true`, so 2 moves on and takes slot 1. -/
def raceTrace : List Event :=
  [.ldRunning 1 0 false, .ldRunning 2 0 false, .casRunning 1 0 true, .casRunning 2 0 false,
   .ldRunning 2 1 false, .ldEpoch 1 1, .epochInc, .casRunning 2 1 true, .ldEpoch 2 2,
   .stBegin 2 1 2, .stBegin 1 0 1, .enterRet 2 (some 1), .enterRet 1 (some 0)]

example : (exec ⟨2, 1⟩ (init ⟨2, 1⟩) raceTrace).map (fun s => s.view ⟨2, 1⟩ 3) =
    some ([(true, 1), (true, 2)], 2, [(.idle, []), (.idle, [0]), (.idle, [1])]) := by decide

/-- N = 1, the loser of the race finds the only slot occupied and returns WARN_MAX_SESSIONS; later
    the winner leaves and the loser's retry gets slot 0 again (reuse). -/
def fullTrace : List Event :=
  [.ldRunning 1 0 false, .ldRunning 2 0 false, .casRunning 1 0 true, .casRunning 2 0 false,
   .enterRet 2 none, .ldEpoch 1 1, .stBegin 1 0 1, .enterRet 1 (some 0),
   .ldRunning 2 0 true, .enterRet 2 none,
   .leaveCall 1 0, .stBegin 1 0 0, .stRunning 1 0 false, .leaveRet 1,
   .ldRunning 2 0 false, .casRunning 2 0 false, .casRunning 2 0 true, .epochInc, .ldEpoch 2 2,
   .stBegin 2 0 2, .enterRet 2 (some 0)]

example : (exec ⟨1, 1⟩ (init ⟨1, 1⟩) fullTrace).map (fun s => s.view ⟨1, 1⟩ 3) =
    some ([(true, 2)], 2, [(.idle, []), (.idle, []), (.idle, [0])]) := by decide

/-- the acceptor rejects: a second successful CAS on an occupied slot, and a token handed out twice -/
example : exec ⟨1, 1⟩ (init ⟨1, 1⟩)
    [.ldRunning 1 0 false, .ldRunning 2 0 false, .casRunning 1 0 true, .casRunning 2 0 true] = none := by
  decide
example : (exec ⟨1, 1⟩ (init ⟨1, 1⟩)
    [.ldRunning 1 0 false, .casRunning 1 0 true, .ldEpoch 1 1, .stBegin 1 0 1, .enterRet 1 (some 0),
     .ldRunning 2 0 false]).isSome = false := by decide

/-- a reachable, quiescent state with an open session (hypotheses of theorems 3, 5, 6), N = 2 -/
example : ∃ s, Reach ⟨2, 1⟩ s ∧ (∀ t, s.pc t = .idle) ∧ 0 ∈ s.held 1 := by
  refine ⟨_, reach_exec [.ldRunning 1 0 false, .casRunning 1 0 true, .ldEpoch 1 1, .stBegin 1 0 1,
    .enterRet 1 (some 0)] Reach.init rfl, ?_, ?_⟩
  · intro t
    by_cases h : t = 1
    · subst h; rfl
    · simp [upd, h, init]
  · simp [upd]

end Yak.Props.C14
