import YakModel.Proofs.LockOrderProofs
import YakModel.Proofs.CollapseProofs
/-!
# C09 — Operations always complete: no deadlock and no lock left held (safety core)

`Proto/LockOrder` is the abstract lock discipline: mutual exclusion plus "a thread waits only for a
lock that lies above everything it holds in one strict order". yakushima's order is: node before
its previous sibling, child before parent (before the root lock), lower layer before upper layer;
the correspondence check derives the order from the acquisitions it observes on real traces
(lock-order graph must be acyclic) and checks that every lock is released when the operations
return. Liveness under fairness is argued from this (a waiting thread always waits on a lock
whose holder can run) and is not a Lean theorem here.
-/
namespace Yak.Props.C09
open Yak.Proto.LockOrder

/-- with a strict order on locks that every wait respects, a non-empty finite set of blocked
    threads always contains one whose awaited lock is held by a thread that is not blocked (or is
    free): the system is never deadlocked. -/
theorem no_deadlock {L : Type} [DecidableEq L] (lt : L → L → Prop)
    (irrefl : ∀ a, ¬ lt a a) (trans : ∀ a b c, lt a b → lt b c → lt a c)
    (s : Sys L) (wf : s.WellFormed) (disc : s.Ordered lt) (hne : s.blocked ≠ []) :
    ∃ t ∈ s.blocked, ∀ l, s.waits t = some l → ∀ u, s.holder l = some u → u ∉ s.blocked :=
  Yak.Proto.LockOrder.no_deadlock lt irrefl trans s wf disc hne

/-- readers hold nothing: a thread that holds no lock never blocks another thread. -/
theorem lock_free_threads_block_nobody {L : Type} [DecidableEq L] (s : Sys L) (t : Nat)
    (h : ∀ l, s.holder l ≠ some t) : ∀ u l, s.waits u = some l → s.holder l ≠ some t :=
  Yak.Proto.LockOrder.lock_free_threads_block_nobody s t h

/-! ### The root-collapse protocol, step by step (`Proto/Collapse`)

One concrete instance of the structural change the quantifier of C09 singles out ("the root-lock
hand-over when the root changes while a thread is waiting for its parent lock"): a root interior
node with one separator over two border nodes `A`, `B`, each holding one key; thread `t0` removes
`A`'s key and `t1` removes `B`'s, at the granularity of `border_node::delete_of`,
`base_node::lock_parent` and `interior_node::delete_of` (one model step per lock attempt, read or
group of stores; 173 reachable states, enumerated and checked by the kernel, no `native_decide`).
**These are theorems about this finite instance, for all of its interleavings — not about arbitrary
tree shapes.** `Cfg.fix` selects the repaired code (commit "fix: a border node that survives as the
empty deleted root drops its sibling links"); D12 is the counterexample for the unrepaired one and
was first observed on the real code (`corpus/C09/d12_*.json`). -/

/-- no lock left held: once both removers are done (or never started), every node lock and the
    root lock is free — with or without the repair. -/
theorem collapse_no_lock_left_held (cfg : Yak.Proto.Collapse.Cfg) (s : Yak.Proto.Collapse.State)
    (hr : Yak.Proto.Collapse.Reach cfg s) (hq : Yak.Proto.Collapse.quiescent s) :
    s.a.lock = none ∧ s.b.lock = none ∧ s.i.lock = none ∧ s.rootLock = none :=
  Yak.Proto.Collapse.no_lock_left_held hr hq

/-- no deadlock: as long as some thread has started and not finished, a started thread can move. -/
theorem collapse_no_deadlock (cfg : Yak.Proto.Collapse.Cfg) (s : Yak.Proto.Collapse.State)
    (hr : Yak.Proto.Collapse.Reach cfg s) (ha : ∃ t, (s.pc t).active = true) :
    ∃ t, (s.pc t).active = true ∧ (Yak.Proto.Collapse.step? cfg s (.step t)).isSome = true :=
  Yak.Proto.Collapse.no_deadlock_started hr ha

/-- locks are exclusive in every reachable state. -/
theorem collapse_mutual_exclusion (cfg : Yak.Proto.Collapse.Cfg) (s : Yak.Proto.Collapse.State)
    (hr : Yak.Proto.Collapse.Reach cfg s) (l : Yak.Proto.Collapse.LockId) (t t' : Yak.Proto.Collapse.Tid)
    (h : l ∈ s.held t) (h' : l ∈ s.held t') : t = t' := Yak.Proto.Collapse.mutual_exclusion hr l t t' h h'

/-- with the repair, no node that is still in the tree links to a retired sibling at quiescence
    (so a later remove cannot spin on a deleted neighbour while holding its own lock, and a scan
    cannot walk into a retired node). -/
theorem collapse_no_dangling_link (cfg : Yak.Proto.Collapse.Cfg) (hfix : cfg.fix = true)
    (s : Yak.Proto.Collapse.State) (hr : Yak.Proto.Collapse.Reach cfg s)
    (hq : Yak.Proto.Collapse.quiescent s) :
    ∀ L : Yak.Proto.Collapse.Leaf, s.leafRetired L = false →
      (∀ M, (s.leaf L).next = some M → s.leafRetired M = false) ∧
      (∀ M, (s.leaf L).prev = some M → s.leafRetired M = false) :=
  Yak.Proto.Collapse.no_dangling_link_fixed hfix hr hq

/-- D12: without the repair both stale links are reachable — the surviving root `A` with
    `next = B` retired, and the surviving root `B` with `prev = A` retired. -/
theorem D12_counterexample :
    (∃ s, Yak.Proto.Collapse.Reach { fix := false } s ∧ Yak.Proto.Collapse.quiescent s ∧
      s.rootPtr = .A ∧ s.retA = false ∧ s.a.next = some .B ∧ s.retB = true) ∧
    (∃ s, Yak.Proto.Collapse.Reach { fix := false } s ∧ Yak.Proto.Collapse.quiescent s ∧
      s.rootPtr = .B ∧ s.retB = false ∧ s.b.prev = some .A ∧ s.retA = true) :=
  Yak.Proto.Collapse.D12_counterexample

/-- the outcome when both removes are done: the interior node and exactly one leaf are retired, the
    other leaf is the root (deleted, flagged root, no parent) — "remain empty deleted root node". -/
theorem collapse_final_shape (cfg : Yak.Proto.Collapse.Cfg) (s : Yak.Proto.Collapse.State)
    (hr : Yak.Proto.Collapse.Reach cfg s) (hd : Yak.Proto.Collapse.bothDone s) :
    s.retI = true ∧ s.i.deleted = true ∧ s.i.root = false ∧
    ∃ L : Yak.Proto.Collapse.Leaf, s.leafRetired L = true ∧ s.leafRetired L.other = false ∧
      s.rootPtr = L.other.node ∧ (s.leaf L.other).deleted = true ∧
      (s.leaf L.other).root = true ∧ (s.leaf L.other).parent = false ∧
      (s.leaf L).root = false := Yak.Proto.Collapse.both_done_shape hr hd

/-- "operations always complete" in this instance: from every reachable state some continuation of
    at most 20 steps finishes both removes (no reachable state is a trap — the retry loops can
    always be left). An existence statement: no scheduler or fairness assumption. -/
theorem collapse_can_always_finish (cfg : Yak.Proto.Collapse.Cfg) (s : Yak.Proto.Collapse.State)
    (hr : Yak.Proto.Collapse.Reach cfg s) :
    ∃ es s', Yak.Proto.Collapse.exec cfg s es = some s' ∧ Yak.Proto.Collapse.bothDone s' ∧
      es.length ≤ 20 := Yak.Proto.Collapse.can_finish_both hr

/-- "a reader/writer never waits on something that only itself could change": a thread that runs
    alone stops within 12 steps, either done or waiting for a lock THE OTHER thread holds. -/
theorem collapse_solo_run_halts (cfg : Yak.Proto.Collapse.Cfg) (s : Yak.Proto.Collapse.State)
    (hr : Yak.Proto.Collapse.Reach cfg s) (t : Yak.Proto.Collapse.Tid) :
    ∃ n s', n ≤ 12 ∧
      Yak.Proto.Collapse.exec cfg s (List.replicate n (.step t)) = some s' ∧
      Yak.Proto.Collapse.step? cfg s' (.step t) = none ∧
      (s'.pc t = .done ∨ ∃ l, (s'.pc t).wants t.own = some l ∧ s'.lockOf l = some t.other) :=
  Yak.Proto.Collapse.solo_run_halts hr t

/-- a retry edge (line 5→3, 8'→7, …) is taken only after the other thread has passed line 9'
    (released its own node and started collapsing the interior node): retries need interference. -/
theorem collapse_retry_needs_interference (cfg : Yak.Proto.Collapse.Cfg)
    (s s' : Yak.Proto.Collapse.State) (hr : Yak.Proto.Collapse.Reach cfg s)
    (t : Yak.Proto.Collapse.Tid) (h : Yak.Proto.Collapse.step? cfg s (.step t) = some s')
    (he : Yak.Proto.Collapse.retryEdge (s.pc t) (s'.pc t) = true) :
    s.pc t.other = .intDel ∨ s.pc t.other = .intRootLock ∨ s.pc t.other = .promote ∨
    s.pc t.other = .done := Yak.Proto.Collapse.retry_only_after_leave hr t h he

end Yak.Props.C09
