import YakModel.Proofs.LockOrderProofs
/-!
# C09 — Operations always complete: no deadlock and no lock left held (safety core)

`Proto/LockOrder` is the abstract lock discipline: mutual exclusion plus "a thread waits only for a
lock that lies above everything it holds in one strict order". yakushima's order is: node before
its previous sibling, child before parent (before the root lock), lower layer before upper layer;
the correspondence check derives the order from the acquisitions it observes on real traces
(lock-order graph must be acyclic) and checks that every lock is released when the operations
return. Liveness under fairness is argued from this (a waiting thread always waits on a lock
whose holder can run) and is not a Lean theorem here.
-/
namespace Yak.Props.C09
open Yak.Proto.LockOrder

/-- with a strict order on locks that every wait respects, a non-empty finite set of blocked
    threads always contains one whose awaited lock is held by a thread that is not blocked (or is
    free): the system is never deadlocked. -/
theorem no_deadlock {L : Type} [DecidableEq L] (lt : L → L → Prop)
    (irrefl : ∀ a, ¬ lt a a) (trans : ∀ a b c, lt a b → lt b c → lt a c)
    (s : Sys L) (wf : s.WellFormed) (disc : s.Ordered lt) (hne : s.blocked ≠ []) :
    ∃ t ∈ s.blocked, ∀ l, s.waits t = some l → ∀ u, s.holder l = some u → u ∉ s.blocked :=
  Yak.Proto.LockOrder.no_deadlock lt irrefl trans s wf disc hne

/-- readers hold nothing: a thread that holds no lock never blocks another thread. -/
theorem lock_free_threads_block_nobody {L : Type} [DecidableEq L] (s : Sys L) (t : Nat)
    (h : ∀ l, s.holder l ≠ some t) : ∀ u l, s.waits u = some l → s.holder l ≠ some t :=
  Yak.Proto.LockOrder.lock_free_threads_block_nobody s t h

end Yak.Props.C09
