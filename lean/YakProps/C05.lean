import YakModel.Proofs.ScanProofs
/-!
# C05 — Node-version sets from reads detect every later insert into the read range

On the sequential model: a read (get miss / scan) returns node references `(layer, index,
counters)`; an insert of an absent key reports the leaf it modified (C12) and that leaf's
counters move. The theorems connect the two: the modified leaf of any absent key of the covered
interval is among the references the read returned, with the counters it had at the read.
-/
namespace Yak.Props.C05
open Yak Yak.Tree

/-- the leaf an insert of the absent key `k` lands in, as `put` reports it -/
def landing (t : Tree) (k : Key) (v : Val) : Option (List UInt8 × Nat) := (put t k v false).modified

/-- an insert changes the counters of its landing leaf (insert counter +1, and the split counter
    as well when the leaf splits). -/
theorem insert_bumps_landing (t : Tree) (k : Key) (v : Val) (h : Inv t) (hk : (get t k).val = none) :
    ∃ p i L L' l l', landing t k v = some (p, i) ∧ findLayer t p = some L ∧ L.leaves[i]? = some l ∧
      findLayer (put t k v false).tree p = some L' ∧ L'.leaves[i]? = some l' ∧ l'.vins = l.vins + 1 :=
  Yak.Tree.insert_bumps_landing t k v h hk

/-- a get that misses reports exactly the leaf a later insert of that key modifies, with the
    counters that leaf has now. -/
theorem get_miss_reports_landing (t : Tree) (k : Key) (v : Val) (h : Inv t) (hk : (get t k).val = none) :
    ∃ r, (get t k).node = some r ∧ landing t k v = some (r.pfx, r.idx) ∧
      ∃ L l, findLayer t r.pfx = some L ∧ L.leaves[r.idx]? = some l ∧ r.vins = l.vins ∧ r.vsplit = l.vsplit :=
  Yak.Tree.get_miss_reports_landing t k v h hk

/-- the collected set is never empty for an existing storage (valid arguments). -/
theorem scan_nodes_nonempty (t : Tree) (lk : Key) (le : EP) (rk : Key) (re : EP) (max : Nat) (r2l : Bool)
    (h : Inv t) (ha : scanArgsOk lk le rk re max r2l = true) :
    (scan cfgFixed t lk le rk re max r2l).nodes ≠ [] := Yak.Tree.scan_nodes_nonempty t lk le rk re max r2l h ha

/-- the interval a scan covered: the whole interval, or — when it stopped because `max` entries
    were produced — from its start to the last produced key. -/
def covered (lk : Key) (le : EP) (rk : Key) (re : EP) (max : Nat) (res : List (Key × Val)) (k : Key) : Bool :=
  inInterval lk le rk re k &&
  (if max != 0 && res.length ≥ max then
     (match res.getLast? with | some (last, _) => !lexLt last k | none => false)
   else true)

/-- forward scans: every absent key of the covered interval lands in a leaf the scan recorded,
    and the recorded counters are that leaf's current ones — so inserting it makes the pair stale
    (`insert_bumps_landing`). -/
theorem scan_nodes_cover (t : Tree) (lk : Key) (le : EP) (rk : Key) (re : EP) (max : Nat) (k : Key) (v : Val)
    (h : Inv t) (ha : scanArgsOk lk le rk re max false = true) (hk : (get t k).val = none)
    (hc : covered lk le rk re max (scan cfgFixed t lk le rk re max false).tuples k = true) :
    ∃ r ∈ (scan cfgFixed t lk le rk re max false).nodes, landing t k v = some (r.pfx, r.idx) ∧
      ∃ L l, findLayer t r.pfx = some L ∧ L.leaves[r.idx]? = some l ∧ r.vins = l.vins ∧ r.vsplit = l.vsplit :=
  Yak.Tree.scan_nodes_cover t lk le rk re max k v h ha hk hc

/-- the unrepaired scan (no record at the early returns of the link branch) violates this:
    a concrete tree and scan whose node set is empty. -/
theorem D2_counterexample :
    ∃ (t : Tree) (lk rk : Key) (le re : EP), Inv t ∧ scanArgsOk lk le rk re 0 false = true ∧
      (scan cfgD2 t lk le rk re 0 false).nodes = [] := Yak.Tree.D2_counterexample

end Yak.Props.C05
