import YakModel.Proofs.TreeProofs
/-!
# C02 — Single-threaded behaviour equals an ordered byte-string map

The model (`YakModel/Tree.lean`) mirrors put / unique-put / get / remove on the layered leaf-chain
structure (leaf splits, new layers, unlink of emptied leaves with either absorb direction, removal
of emptied layers, the kept-and-revived deleted root). The specification is the simplest possible
one: a function `Key → Option Val`. Every theorem quantifies over all keys (arbitrary bytes, any
length), all values, all reachable trees and — for remove — all absorb directions.
-/
namespace Yak.Props.C02
open Yak Yak.Tree

/-- the abstraction: what a point lookup sees -/
def lookup (t : Tree) (k : Key) : Option Val := (get t k).val

theorem inv_empty : Inv Tree.empty ∧ ∀ k, lookup Tree.empty k = none := Yak.Tree.inv_empty

/-- get: OK with the bound value, or WARN_NOT_EXIST. -/
theorem get_refines (t : Tree) (k : Key) (h : Inv t) :
    (get t k).status = (if (lookup t k).isSome then Status.OK else Status.WARN_NOT_EXIST) :=
  Yak.Tree.get_refines t k h

/-- put (upsert): always OK, the tree stays well formed, and it is exactly a map update. -/
theorem put_refines (t : Tree) (k : Key) (v : Val) (h : Inv t) :
    (put t k v false).status = Status.OK ∧ Inv (put t k v false).tree ∧
    ∀ k', lookup (put t k v false).tree k' = if k' = k then some v else lookup t k' :=
  Yak.Tree.put_refines t k v h

/-- unique put: WARN_UNIQUE_RESTRICTION iff the key was present (and then nothing changes);
    otherwise an insert. -/
theorem uput_refines (t : Tree) (k : Key) (v : Val) (h : Inv t) :
    ((lookup t k).isSome = true → (put t k v true).status = Status.WARN_UNIQUE_RESTRICTION ∧ (put t k v true).tree = t) ∧
    (lookup t k = none → (put t k v true).status = Status.OK ∧ Inv (put t k v true).tree ∧
      ∀ k', lookup (put t k v true).tree k' = if k' = k then some v else lookup t k') :=
  Yak.Tree.uput_refines t k v h

/-- remove: OK iff the key was present, OK_NOT_FOUND otherwise; well-formedness is kept and the
    result is exactly a map erase — whatever direction each unlinked leaf's range is absorbed in. -/
theorem remove_refines (t : Tree) (k : Key) (dirs : List Bool) (h : Inv t) :
    (remove t k dirs).status = (if (lookup t k).isSome then Status.OK else Status.OK_NOT_FOUND) ∧
    Inv (remove t k dirs).tree ∧
    ∀ k', lookup (remove t k dirs).tree k' = if k' = k then none else lookup t k' :=
  Yak.Tree.remove_refines t k dirs h

/-! ### whole histories -/

inductive Op
  | put (k : Key) (v : Val)
  | uput (k : Key) (v : Val)
  | get (k : Key)
  | remove (k : Key) (dirs : List Bool)

abbrev Out := Status × Option Val
abbrev Spec := Key → Option Val

def stepModel (t : Tree) : Op → Tree × Out
  | .put k v => let o := Tree.put t k v false; (o.tree, (o.status, none))
  | .uput k v => let o := Tree.put t k v true; (o.tree, (o.status, none))
  | .get k => let o := Tree.get t k; (t, (o.status, o.val))
  | .remove k d => let o := Tree.remove t k d; (o.tree, (o.status, none))

def stepSpec (m : Spec) : Op → Spec × Out
  | .put k v => (fun k' => if k' = k then some v else m k', (Status.OK, none))
  | .uput k v =>
    if (m k).isSome then (m, (Status.WARN_UNIQUE_RESTRICTION, none))
    else (fun k' => if k' = k then some v else m k', (Status.OK, none))
  | .get k => (m, (if (m k).isSome then Status.OK else Status.WARN_NOT_EXIST, m k))
  | .remove k _ => (fun k' => if k' = k then none else m k',
                    (if (m k).isSome then Status.OK else Status.OK_NOT_FOUND, none))

def runModel (t : Tree) : List Op → List Out
  | [] => []
  | op :: ops => (stepModel t op).2 :: runModel (stepModel t op).1 ops

def runSpec (m : Spec) : List Op → List Out
  | [] => []
  | op :: ops => (stepSpec m op).2 :: runSpec (stepSpec m op).1 ops

/-- the map a sequence leaves behind -/
def runSpecState (m : Spec) : List Op → Spec
  | [] => m
  | op :: ops => runSpecState (stepSpec m op).1 ops

/-- any operation sequence on any well-formed tree answers exactly like the map it denotes. -/
theorem run_refines_from (t : Tree) (h : Inv t) (ops : List Op) :
    runModel t ops = runSpec (lookup t) ops := by
  induction ops generalizing t with
  | nil => rfl
  | cons op ops ih =>
    cases op with
    | put k v =>
      obtain ⟨h1, h2, h3⟩ := put_refines t k v h
      simp only [runModel, runSpec, stepModel, stepSpec]
      rw [ih _ h2, h1, funext h3]
    | uput k v =>
      obtain ⟨ha, hb⟩ := uput_refines t k v h
      simp only [runModel, runSpec, stepModel, stepSpec]
      cases hl : lookup t k with
      | some w =>
        obtain ⟨h1, h2⟩ := ha (by rw [hl]; rfl)
        simp only [Option.isSome_some, if_true]
        rw [h2, ih _ h, h1]
      | none =>
        obtain ⟨h1, h2, h3⟩ := hb hl
        simp only [Option.isSome_none, Bool.false_eq_true, if_false]
        rw [ih _ h2, h1, funext h3]
    | get k =>
      simp only [runModel, runSpec, stepModel, stepSpec]
      rw [ih _ h, get_refines t k h]
      rfl
    | remove k d =>
      obtain ⟨h1, h2, h3⟩ := remove_refines t k d h
      simp only [runModel, runSpec, stepModel, stepSpec]
      rw [ih _ h2, h1, funext h3]

/-- from a fresh storage: every reachable state, every sequence. -/
theorem run_refines (ops : List Op) : runModel Tree.empty ops = runSpec (fun _ => none) ops := by
  have h := run_refines_from Tree.empty inv_empty.1 ops
  have e : lookup Tree.empty = fun _ => none := funext inv_empty.2
  rw [e] at h; exact h

/-- "Removing every key and re-inserting, in any order, behaves the same as on a fresh storage":
    outputs depend only on the denoted map, not on the physical shape (kept deleted root, stale
    fences, version counters). -/
theorem outputs_depend_on_content (t1 t2 : Tree) (h1 : Inv t1) (h2 : Inv t2)
    (heq : ∀ k, lookup t1 k = lookup t2 k) (ops : List Op) : runModel t1 ops = runModel t2 ops := by
  rw [run_refines_from t1 h1, run_refines_from t2 h2, funext heq]

theorem emptied_behaves_fresh (t : Tree) (h : Inv t) (he : ∀ k, lookup t k = none) (ops : List Op) :
    runModel t ops = runModel Tree.empty ops :=
  outputs_depend_on_content t Tree.empty h inv_empty.1 (fun k => by rw [he k, inv_empty.2 k]) ops

end Yak.Props.C02
