import YakModel.Proto.Ledger
import YakModel.Proofs.LedgerProofs
/-!
# C11 — everything the library allocates is released at the latest by fin(), exactly once

Property theorems only (lemmas live in `YakModel/Proofs/LedgerProofs.lean`), stated over the
ownership ledger `Yak.Proto.Ledger` (see its header for the map from events to the `new` /
`delete` / `push_*_container` sites of `/repo/include`). "Reachable" = reachable from process start
(`boot`) by *any* accepted sequence of events, i.e. any number of init()…fin() cycles with any
interleaving of puts, removes, splits, gc passes, storage creation/deletion, destroy and cursors in
them. `live` is the set of heap objects the process holds on behalf of the library; it is updated
on `new` and `delete` only, independently of the four places (`spec`, `linked`, `retired`,
`cursors`) an object can be in.
-/
namespace Yak.Props.C11
open Yak.Proto.Ledger

theorem reach_is_accepted_trace (s : State) : Reach s ↔ ∃ es, exec boot es = some s :=
  ⟨exec_of_reach, fun ⟨es, h⟩ => reach_exec es Reach.boot h⟩

/-! ## the ledger is balanced -/

/-- Every live object is in exactly one place and every object in a place is live: `live` is a
    permutation of `spec ++ linked ++ retired ++ cursors`, without duplicates (so the places are
    duplicate-free and pairwise disjoint), and nothing live has been freed. -/
theorem ledger_inv (s : State) (h : Reach s) :
    s.live.Perm (s.spec ++ s.linked ++ s.retired ++ s.cursors) ∧ s.live.Nodup ∧
    (s.spec ++ s.linked ++ s.retired ++ s.cursors).Nodup ∧ (∀ o ∈ s.live, o ∉ s.freed) :=
  have hi := linv_reach h
  ⟨live_perm hi, live_nodup hi, places_nodup hi, fun _ ho => live_not_freed hi ho⟩

/-- Nothing is lost and nothing is invented: the ids handed out so far (`< next`) are exactly the
    ones that are live or freed, and each of them is live or freed exactly once in total. -/
theorem ledger_total (s : State) (h : Reach s) (o : Nat) :
    (o < s.next ↔ (o ∈ s.live ∨ o ∈ s.freed)) ∧
    (o < s.next → s.live.count o + s.freed.count o = 1) ∧
    (s.next ≤ o → o ∉ s.live ∧ o ∉ s.freed) :=
  have hi := linv_reach h
  ⟨allocated_iff hi o, hi.total o, fun hle =>
    ⟨fun hm => by have := hi.fresh o hle; have := count_mem hm; omega,
     fun hm => by have := hi.fresh o hle; have := count_mem hm; omega⟩⟩

/-- While the library is down (before init(), after fin()) it owns nothing but the cursors the
    caller has not closed. -/
theorem down_owns_only_cursors (s : State) (h : Reach s) (hd : s.up = false) :
    s.spec = [] ∧ s.linked = [] ∧ s.retired = [] ∧ s.live.Perm s.cursors := by
  have hi := linv_reach h
  obtain ⟨h1, h2, h3⟩ := hi.down hd
  refine ⟨h1, h2, h3, ?_⟩
  have := live_perm hi
  simpa [h1, h2, h3] using this

/-! ## no double free -/

/-- Each object is released at most once: the list of all frees ever performed has no duplicates;
    the tagged log is that list, so a freed object has exactly one freeing event kind. -/
theorem no_double_free (s : State) (h : Reach s) :
    s.freed.Nodup ∧ s.log.map Prod.fst = s.freed ∧
    (∀ o ∈ s.freed, ∃ c, (o, c) ∈ s.log ∧ ∀ c', (o, c') ∈ s.log → c' = c) :=
  have hi := linv_reach h
  ⟨freed_nodup hi, hi.log, fun _ ho =>
    let ⟨c, hc⟩ := cause_exists hi ho
    ⟨c, hc, fun _ hc' => cause_unique hi hc' hc⟩⟩

/-- Freed is final: a freed id stays freed along every continuation, is in no place, and every
    event that would touch it again — a second `gcFree`/`discard`/`dropFree`/`closeCursor`, or a
    `publish`/`unlinkRetire` of dangling memory — is rejected. (Ids are never reused, so this is not
    an artefact of address recycling.) -/
theorem freed_is_final (s : State) (h : Reach s) (o : Nat) (hf : o ∈ s.freed)
    (es : List Event) (s' : State) (he : exec s es = some s') :
    o ∈ s'.freed ∧ o ∉ s'.live ∧ o ∉ s'.spec ∧ o ∉ s'.linked ∧ o ∉ s'.retired ∧ o ∉ s'.cursors ∧
    step? s' (.publish o) = none ∧ step? s' (.discard o) = none ∧
    step? s' (.unlinkRetire o) = none ∧ step? s' (.gcFree o) = none ∧
    step? s' (.dropFree o) = none ∧ step? s' (.closeCursor o) = none := by
  have hi' := linv_reach (reach_exec es h he)
  have hf' : o ∈ s'.freed := (exec_freed_suffix es he).subset hf
  obtain ⟨a, b, c, d, e⟩ := freed_no_place hi' hf'
  exact ⟨hf', a, b, c, d, e, freed_rejected hi' hf'⟩

/-- `freed` only grows, by prepending. -/
theorem freed_grows (s : State) (es : List Event) (s' : State) (he : exec s es = some s') :
    s.freed <:+ s'.freed := exec_freed_suffix es he

/-! ## retired objects -/

/-- An object that was ever handed to `push_node_container` / `push_value_container` is, in every
    reachable state, either still waiting in a retire queue — once, and not freed — or freed —
    once, by `gcFree` or by the drain in `fin`, and by exactly one of the two. -/
theorem retired_freed_exactly_once (s : State) (h : Reach s) (o : Nat) (he : o ∈ s.everRetired) :
    (o ∈ s.retired ∧ s.retired.count o = 1 ∧ o ∉ s.freed) ∨
    (o ∉ s.retired ∧ s.freed.count o = 1 ∧
      ∃ c, (o, c) ∈ s.log ∧ (c = .gc ∨ c = .finRetired) ∧ ∀ c', (o, c') ∈ s.log → c' = c) :=
  ever_retired_cases (linv_reach h) he

/-- Conversely the gc and the drain in `fin` free nothing but retired objects, and the direct
    release paths (`discard`, `dropFree`, `destroy`, the tree part of `fin`, `closeCursor`) never
    free an object that is or was in a retire queue. -/
theorem gc_frees_only_retired (s : State) (h : Reach s) (o : Nat) (c : Cause)
    (hl : (o, c) ∈ s.log) : (c = .gc ∨ c = .finRetired) ↔ o ∈ s.everRetired :=
  (linv_reach h).cause o c hl

/-- Everything in a retire queue has been retired (ghost sanity), is live, and is not linked:
    a retired object is unreachable from every storage root. -/
theorem retired_unlinked (s : State) (h : Reach s) (o : Nat) (hr : o ∈ s.retired) :
    o ∈ s.everRetired ∧ o ∈ s.live ∧ o ∉ s.linked ∧ o ∉ s.spec ∧ o ∉ s.cursors ∧ o ∉ s.freed := by
  have hi := linv_reach h
  have h1 := count_mem hr
  have h2 := hi.bal o
  have h3 := hi.once o
  have hl : o ∈ s.live := place_live hi (Or.inr (Or.inr (Or.inl hr)))
  refine ⟨hi.retEver o hr, hl, ?_, ?_, ?_, live_not_freed hi hl⟩ <;>
    (intro hm; have := count_mem hm; omega)

/-- After fin() no retired object is left: every object ever retired has been freed exactly once. -/
theorem retired_all_freed_by_fin (s s' : State) (h : Reach s) (hs : Step s .fin s') (o : Nat)
    (he : o ∈ s'.everRetired) : s'.freed.count o = 1 ∧ o ∉ s'.live := by
  have hr' := Reach.step h hs
  have hi' := linv_reach hr'
  have hret : s'.retired = [] := (fin_spec (linv_reach h) hs).2.2.2.2.1
  rcases ever_retired_cases hi' he with ⟨hm, _⟩ | ⟨_, hc, _⟩
  · rw [hret] at hm; cases hm
  · refine ⟨hc, fun hl => ?_⟩
    have := count_mem hl; have := hi'.once o; omega

/-! ## fin releases everything -/

/-- `fin` is enabled whenever the library is up and no operation is in flight. -/
theorem fin_enabled (s : State) (hup : s.up = true) (hspec : s.spec = []) :
    ∃ s', step? s .fin = some s' := Yak.Proto.Ledger.fin_enabled hup hspec

/-- After fin() — following any sequence of operations — the library-owned live objects are
    exactly the cursors the caller still holds open; no tree node, value, storage root or retired
    object is left, and everything that was linked or retired is now freed. -/
theorem fin_releases_all (s s' : State) (h : Reach s) (hs : Step s .fin s') :
    s'.live = s'.cursors ∧ s'.cursors = s.cursors ∧ s'.spec = [] ∧ s'.linked = [] ∧
    s'.retired = [] ∧ s'.up = false ∧
    (∀ o, o ∈ s.linked ∨ o ∈ s.retired → o ∈ s'.freed ∧ o ∉ s'.live) := by
  obtain ⟨h1, h2, h3, h4, h5, h6, _, h8⟩ := fin_spec (linv_reach h) hs
  refine ⟨h1, h2, h3, h4, h5, h6, fun o ho => ?_⟩
  have hf : o ∈ s'.freed := by
    rw [h8]
    rcases ho with ho | ho
    · exact List.mem_append_right _ (List.mem_append_left _ ho)
    · exact List.mem_append_left _ ho
  exact ⟨hf, fun hl => live_not_freed (linv_reach (Reach.step h hs)) hl hf⟩

/-- In particular, with no cursor open, the process holds after fin() exactly what it holds after
    a fin() that followed no operations at all (`[init, fin]`): nothing. -/
theorem fin_like_empty_cycle (s s' : State) (h : Reach s) (hs : Step s .fin s')
    (hc : s.cursors = []) :
    ∃ s₀, exec boot [.init, .fin] = some s₀ ∧ s'.live = s₀.live ∧ s'.live = [] := by
  obtain ⟨h1, h2, _⟩ := fin_releases_all s s' h hs
  exact ⟨_, rfl, by rw [h1, h2, hc]; rfl, by rw [h1, h2, hc]⟩

/-- With cursors open, closing them (legal after fin) brings `live` to the empty-cycle level. -/
theorem fin_then_close_cursors (s s' : State) (h : Reach s) (hs : Step s .fin s') :
    ∃ s'', exec s' (s'.cursors.map .closeCursor) = some s'' ∧ s''.live = [] ∧ s''.cursors = [] ∧
      s''.up = false := by
  obtain ⟨h1, _, _, _, _, h6, _⟩ := fin_releases_all s s' h hs
  exact close_all s'.cursors h1 rfl h6

/-! ## failed speculation -/

/-- A speculative allocation that is not published (unique-insert that finds the key after having
    built a root, `create_storage` whose directory put fails) is released on the spot: `alloc`
    followed by `discard` of that object is accepted in every up state and leaves `live` and every
    place unchanged — only a fresh id is consumed and recorded as freed. -/
theorem failed_speculation_balanced (s : State) (hup : s.up = true) :
    ∃ s', exec s [.alloc, .discard s.next] = some s' ∧
      s'.live = s.live ∧ s'.spec = s.spec ∧ s'.linked = s.linked ∧ s'.retired = s.retired ∧
      s'.cursors = s.cursors ∧ s'.freed = s.next :: s.freed ∧ s'.up = true :=
  ⟨_, alloc_discard hup, rfl, rfl, rfl, rfl, rfl, rfl, hup⟩

/-- the lost root CAS of `put`: speculative border *and* its value, both released -/
theorem failed_root_cas_balanced (s : State) (hup : s.up = true) :
    ∃ s', exec s [.alloc, .alloc, .discard (s.next + 1), .discard s.next] = some s' ∧
      s'.live = s.live ∧ s'.spec = s.spec ∧ s'.linked = s.linked ∧ s'.retired = s.retired ∧
      s'.cursors = s.cursors :=
  ⟨_, alloc2_discard2 hup, rfl, rfl, rfl, rfl, rfl⟩

/-- A speculative object cannot leak past fin(): fin is not enabled while one exists, and the
    only ways out of `spec` are `publish` (→ linked) and `discard` (→ freed). -/
theorem spec_blocks_fin (s : State) (o : Nat) (ho : o ∈ s.spec) : step? s .fin = none := by
  have : s.spec ≠ [] := fun h => by rw [h] at ho; cases ho
  simp [step?, this]

/-! ## delete_storage and destroy release the trees they drop -/

/-- `destroy` is enabled in every up state, frees every linked object and nothing else. -/
theorem destroy_releases (s s' : State) (h : Reach s) (hs : Step s .destroy s') :
    s'.linked = [] ∧ (∀ o ∈ s.linked, o ∉ s'.live ∧ o ∈ s'.freed) ∧
    s'.spec = s.spec ∧ s'.retired = s.retired ∧ s'.cursors = s.cursors ∧ s'.up = s.up ∧
    (∀ o, o ∈ s'.live ↔ (o ∈ s.live ∧ o ∉ s.linked)) :=
  destroy_spec (linv_reach h) hs

theorem destroy_enabled (s : State) (hup : s.up = true) : ∃ s', step? s .destroy = some s' := by
  simp [step?, hup]

/-- `delete_storage`: for any set `T` of linked objects (the dropped tree: its nodes, values and
    lower layers), freeing them one by one in any order is accepted, afterwards none of them is
    live or linked, all are freed, the rest of the linked set and every other place are
    untouched. -/
theorem delete_and_destroy_release (s : State) (h : Reach s) (hup : s.up = true) (T : List Nat)
    (hnd : T.Nodup) (hT : ∀ o ∈ T, o ∈ s.linked) :
    ∃ s', exec s (T.map .dropFree) = some s' ∧
      (∀ o ∈ T, o ∉ s'.live ∧ o ∉ s'.linked ∧ o ∈ s'.freed) ∧
      (∀ o, o ∈ s'.linked ↔ (o ∈ s.linked ∧ o ∉ T)) ∧
      s'.spec = s.spec ∧ s'.retired = s.retired ∧ s'.cursors = s.cursors :=
  let ⟨s', he, _, _, r⟩ := dropFree_tree T (linv_reach h) hup hnd hT
  ⟨s', he, r⟩

/-! ## non-vacuity -/

/-- One cycle with a storage creation, puts, a border split, an overwrite, a gc pass, a remove
    that empties a border, an open cursor — and fin.

```
alloc 0,1,2      create_storage: root border of the new storage; root border + value of the
                 directory entry (first put into the directory tree: root creation)
publish 1,2,0    root CAS won, storage visible
alloc 3; publish 3          put k1 (value)
alloc 4,5,6; publish 5,6,4  put k2: border full -> new border 5, new interior root 6, value 4
alloc 7; publish 7; unlinkRetire 3   overwrite k1: old value retired
openCursor (8)
gcFree 3                    gc pass
unlinkRetire 4, 5           remove k2: value retired, emptied border retired
fin
```
-/
def demo : List Event :=
  [.init, .alloc, .alloc, .alloc, .publish 1, .publish 2, .publish 0,
   .alloc, .publish 3,
   .alloc, .alloc, .alloc, .publish 5, .publish 6, .publish 4,
   .alloc, .publish 7, .unlinkRetire 3,
   .openCursor,
   .gcFree 3,
   .unlinkRetire 4, .unlinkRetire 5]

example : ∃ s, exec boot demo = some s ∧ s.up = true ∧ s.spec = [] ∧
    s.live = [8, 7, 6, 5, 4, 2, 1, 0] ∧ s.linked = [7, 6, 0, 2, 1] ∧ s.retired = [4, 5] ∧
    s.cursors = [8] ∧ s.freed = [3] ∧ s.log = [(3, .gc)] ∧ s.everRetired = [5, 4, 3] :=
  ⟨_, rfl, rfl, rfl, rfl, rfl, rfl, rfl, rfl, rfl, rfl⟩

example : ∃ s, exec boot (demo ++ [.fin]) = some s ∧ s.up = false ∧
    s.live = [8] ∧ s.cursors = [8] ∧ s.linked = [] ∧ s.retired = [] ∧
    s.log = [(4, .finRetired), (5, .finRetired), (7, .finLinked), (6, .finLinked), (0, .finLinked),
             (2, .finLinked), (1, .finLinked), (3, .gc)] :=
  ⟨_, rfl, rfl, rfl, rfl, rfl, rfl, rfl⟩

/-- … and after the caller closes its cursor the ledger is where `[init, fin]` leaves it. -/
example : ∃ s s₀, exec boot (demo ++ [.fin, .closeCursor 8]) = some s ∧
    exec boot emptyCycle = some s₀ ∧ s.live = s₀.live ∧ s.live = [] :=
  ⟨_, _, rfl, rfl, rfl, rfl⟩

/-- a second cycle after the first, with a failed create_storage and a delete_storage in it -/
example : ∃ s, exec boot (demo ++ [.fin, .init, .alloc, .alloc, .alloc, .publish 10, .publish 11,
      .publish 9, .alloc, .discard 12, .dropFree 9, .dropFree 11, .unlinkRetire 10, .fin]) = some s ∧
    s.live = [8] ∧ s.next = 13 ∧ s.freed.length = 12 :=
  ⟨_, rfl, rfl, rfl, rfl⟩

/-- the acceptor rejects a double free, a free of a linked object through the gc, a discard of a
    published object, and fin with an operation in flight -/
example : exec boot (demo ++ [.gcFree 3]) = none := rfl
example : exec boot (demo ++ [.gcFree 7]) = none := rfl
example : exec boot (demo ++ [.discard 7]) = none := rfl
example : exec boot (demo ++ [.dropFree 4]) = none := rfl
example : exec boot (demo ++ [.alloc, .fin]) = none := rfl
example : exec boot (demo ++ [.fin, .alloc]) = none := rfl
example : exec boot (demo ++ [.closeCursor 8, .closeCursor 8]) = none := rfl

end Yak.Props.C11
