import YakModel.KeyOrder
/-!
# Sequential model of one storage: layers of fenced leaf chains

A storage is a table of *layers* keyed by the key prefix they serve (a multiple of 8 bytes). A
layer is the in-order chain of its border nodes ("leaves"); each leaf carries the lower fence the
interior nodes above it route by (`none` = −∞ for the leftmost leaf), its two version counters, the
`deleted` flag and its entries in rank order. An entry is a key tuple with either a value or a link
(`none`) to the layer with prefix `pfx ++ slice`.

Interior nodes are not represented: their only observable effect on this level is routing, i.e.
the fences, and the direction in which the range of an unlinked leaf is absorbed (a parameter of
`remove`, resolved by the correspondence checker against the implementation's dump).
-/
namespace Yak.Tree
open Yak

structure Val where
  bytes : List UInt8
  align : Nat
deriving DecidableEq, Repr, Inhabited

structure Ent where
  kt : KT
  val : Option Val      -- `none` = link to the next layer
deriving DecidableEq, Repr, Inhabited

structure Leaf where
  fence : Option KT
  vins : Nat
  vsplit : Nat
  deleted : Bool
  ents : List Ent
deriving DecidableEq, Repr, Inhabited

structure Layer where
  pfx : List UInt8
  leaves : List Leaf
deriving DecidableEq, Repr, Inhabited

abbrev Tree := List Layer

/-- configuration: which repairs of known defects are in effect (see DESIGN.md). -/
structure Cfg where
  fixD2 : Bool := true   -- scan records the enclosing leaf at the early returns in the link branch
  fixD5 : Bool := true   -- scan ignores l_key when l_end is INF
deriving DecidableEq, Repr, Inhabited

def cfgFixed : Cfg := {}
def cfgD2 : Cfg := { fixD2 := false }
def cfgD5 : Cfg := { fixD5 := false }

inductive Status
  | OK | WARN_NOT_EXIST | WARN_UNIQUE_RESTRICTION | OK_NOT_FOUND | OK_ROOT_IS_NULL
  | ERR_BAD_USAGE | WARN_STORAGE_NOT_EXIST | OK_SCAN_END | ERR_MODEL
deriving DecidableEq, Repr, Inhabited

/-- a fresh storage: `create_storage` installs an empty root border (`init_border()`). -/
def emptyLeaf : Leaf := ⟨none, 0, 0, false, []⟩
def empty : Tree := [⟨[], [emptyLeaf]⟩]

def findLayer (t : Tree) (p : List UInt8) : Option Layer := t.find? (fun L => L.pfx == p)

def setLayer (t : Tree) (L : Layer) : Tree :=
  if t.any (fun M => M.pfx == L.pfx) then t.map (fun M => if M.pfx == L.pfx then L else M)
  else t ++ [L]

def eraseLayer (t : Tree) (p : List UInt8) : Tree := t.filter (fun L => !(L.pfx == p))

/-- routing by fences with the interior node's own comparison (`routeLeft`): index of the last
    leaf whose fence is not greater than the key. The first leaf's fence is ignored (−∞). -/
def routeFrom (k : KT) : List Leaf → Nat
  | [] => 0
  | l :: ls =>
    match l.fence with
    | none => routeFrom k ls + 1      -- only the first leaf has no fence; kept total
    | some f => if routeLeft k f then 0 else routeFrom k ls + 1

def route (k : KT) (leaves : List Leaf) : Nat :=
  match leaves with
  | [] => 0
  | _ :: ls => routeFrom k ls

def leafKeys (l : Leaf) : List KT := l.ents.map (·.kt)

/-- reference to a border node: layer prefix, index in the chain, and the version it had. -/
structure NodeRef where
  pfx : List UInt8
  idx : Nat
  vins : Nat
  vsplit : Nat
  deleted : Bool
  root : Bool
deriving DecidableEq, Repr, Inhabited

def mkRef (L : Layer) (i : Nat) : NodeRef :=
  let l := L.leaves.getD i emptyLeaf
  ⟨L.pfx, i, l.vins, l.vsplit, l.deleted, L.leaves.length == 1⟩

/-! ### get -/

structure GetOut where
  status : Status
  val : Option Val := none
  node : Option NodeRef := none     -- `checked_version` on a miss
deriving Repr, Inhabited

def getAt (t : Tree) (p : List UInt8) (rest : Key) : GetOut :=
  match findLayer t p with
  | none => { status := .ERR_MODEL }
  | some L =>
    let kt := KT.ofKey rest
    let i := route kt L.leaves
    let leaf := L.leaves.getD i emptyLeaf
    match leafLookup kt (leafKeys leaf) with
    | none => { status := .WARN_NOT_EXIST, node := some (mkRef L i) }
    | some r =>
      if h : rest.length > 8 then
        getAt t (p ++ rest.take 8) (rest.drop 8)
      else
        match (leaf.ents.getD r default).val with
        | some v => { status := .OK, val := some v }
        | none => { status := .ERR_MODEL }
termination_by rest.length
decreasing_by
  have : (List.drop 8 rest).length = rest.length - 8 := List.length_drop
  omega

def get (t : Tree) (k : Key) : GetOut := getAt t [] k

/-! ### put -/

def leaf1 (e : Ent) : Leaf := ⟨none, 1, 0, false, [e]⟩

/-- the chain of fresh single-entry layers `insert_lv_at` creates for a key longer than 8 bytes. -/
def freshLayers (p : List UInt8) (rest : Key) (v : Val) : List Layer :=
  if h : rest.length > 8 then
    ⟨p, [leaf1 ⟨KT.ofKey rest, none⟩]⟩ :: freshLayers (p ++ rest.take 8) (rest.drop 8) v
  else [⟨p, [leaf1 ⟨KT.ofKey rest, some v⟩]⟩]
termination_by rest.length
decreasing_by
  have : (List.drop 8 rest).length = rest.length - 8 := List.length_drop
  omega

structure PutOut where
  tree : Tree
  status : Status
  modified : Option (List UInt8 × Nat) := none
  created : Option (List UInt8 × Nat) := none
deriving Repr, Inhabited

def insertIdx' {α} (l : List α) (i : Nat) (x : α) : List α := l.take i ++ x :: l.drop i

/-- `insert_lv` on leaf `i` of layer `L` for a key that is not present. -/
def insertInto (t : Tree) (L : Layer) (i : Nat) (rest : Key) (v : Val) : PutOut :=
  let kt := KT.ofKey rest
  let leaf := L.leaves.getD i emptyLeaf
  let rank := rankIfInsert kt (leafKeys leaf)
  let long := rest.length > 8
  let e : Ent := if long then ⟨kt, none⟩ else ⟨kt, some v⟩
  let sub : List Layer := if long then freshLayers (L.pfx ++ rest.take 8) (rest.drop 8) v else []
  if leaf.ents.length < Yak.Const.keySliceLength then
    let leaf' : Leaf := { leaf with ents := insertIdx' leaf.ents rank e, vins := leaf.vins + 1, deleted := false }
    let L' : Layer := { L with leaves := L.leaves.set i leaf' }
    { tree := setLayer t L' ++ sub, status := .OK, modified := some (L.pfx, i) }
  else
    -- border_split: keep `remaining` entries, move the rest, decide the side, both versions bump
    let rem := Yak.Const.borderRemaining
    let lo := leaf.ents.take rem
    let hi := leaf.ents.drop rem
    let first : KT := (hi.headD default).kt
    let lower := borderSplitLower kt first rank rem
    let lo' := if lower then insertIdx' lo rank e else lo
    let hi' := if lower then hi else insertIdx' hi (rank - rem) e
    let left : Leaf := { leaf with ents := lo', vins := leaf.vins + 1, vsplit := leaf.vsplit + 1, deleted := false }
    let right : Leaf := ⟨some first, leaf.vins + 1, leaf.vsplit + 1, false, hi'⟩
    let L' : Layer := { L with leaves := L.leaves.take i ++ [left, right] ++ L.leaves.drop (i + 1) }
    { tree := setLayer t L' ++ sub, status := .OK, modified := some (L.pfx, i), created := some (L.pfx, i + 1) }

def putAt (t : Tree) (p : List UInt8) (rest : Key) (v : Val) (unique : Bool) : PutOut :=
  match findLayer t p with
  | none => { tree := t, status := .ERR_MODEL }
  | some L =>
    let kt := KT.ofKey rest
    let i := route kt L.leaves
    let leaf := L.leaves.getD i emptyLeaf
    match leafLookup kt (leafKeys leaf) with
    | none => insertInto t L i rest v
    | some r =>
      if h : rest.length > 8 then
        putAt t (p ++ rest.take 8) (rest.drop 8) v unique
      else if unique then { tree := t, status := .WARN_UNIQUE_RESTRICTION }
      else
        let e := leaf.ents.getD r default
        let leaf' : Leaf := { leaf with ents := leaf.ents.set r { e with val := some v } }
        { tree := setLayer t { L with leaves := L.leaves.set i leaf' }, status := .OK }
termination_by rest.length
decreasing_by
  have : (List.drop 8 rest).length = rest.length - 8 := List.length_drop
  omega

def put (t : Tree) (k : Key) (v : Val) (unique : Bool := false) : PutOut := putAt t [] k v unique

/-! ### remove -/

structure RemOut where
  tree : Tree
  status : Status
  /-- number of absorb-direction choices consumed (middle leaves unlinked) -/
  choices : Nat := 0
deriving Repr, Inhabited

/-- leaf `i` of the layer with prefix `p` has just become empty. `dirs`: for each unlinked *middle*
    leaf, `true` = the right neighbour absorbs its range. `n` bounds the cascade (layer depth). -/
def handleEmpty (t : Tree) (p : List UInt8) (i : Nat) (dirs : List Bool) (used : Nat) : Nat → Tree × Nat
  | 0 => (t, used)
  | n + 1 =>
    match findLayer t p with
    | none => (t, used)
    | some L =>
      if L.leaves.length ≤ 1 then
        if p.isEmpty then
          -- the tree's root border stays, empty and flagged deleted
          let leaf := L.leaves.getD 0 emptyLeaf
          (setLayer t { L with leaves := [{ leaf with deleted := true }] }, used)
        else
          -- the layer disappears together with its link in the upper layer
          let up := p.take (p.length - 8)
          let slice := p.drop (p.length - 8)
          let t1 := eraseLayer t p
          match findLayer t1 up with
          | none => (t1, used)
          | some U =>
            let kt : KT := ⟨slice, 9⟩
            let j := route kt U.leaves
            let leaf := U.leaves.getD j emptyLeaf
            let ents' := leaf.ents.filter (fun e => !(e.kt == kt))
            let t2 := setLayer t1 { U with leaves := U.leaves.set j { leaf with ents := ents' } }
            if ents'.isEmpty then handleEmpty t2 up j dirs used n else (t2, used)
      else
        -- unlink leaf i from the chain
        let last := L.leaves.length - 1
        let (right, dirs', used') :=
          if i == 0 then (true, dirs, used)
          else if i == last then (false, dirs, used)
          else (dirs.headD false, dirs.tail, used + 1)
        let gone := L.leaves.getD i emptyLeaf
        let leaves1 :=
          if right then
            match L.leaves[i + 1]? with
            | some nx => L.leaves.set (i + 1) { nx with fence := gone.fence }
            | none => L.leaves
          else L.leaves
        let _ := dirs'
        (setLayer t { L with leaves := leaves1.eraseIdx i }, used')

def removeAt (t : Tree) (p : List UInt8) (rest : Key) (dirs : List Bool) : RemOut :=
  match findLayer t p with
  | none => { tree := t, status := .ERR_MODEL }
  | some L =>
    let kt := KT.ofKey rest
    let i := route kt L.leaves
    let leaf := L.leaves.getD i emptyLeaf
    match leafLookup kt (leafKeys leaf) with
    | none => { tree := t, status := .OK_NOT_FOUND }
    | some r =>
      if h : rest.length > 8 then
        removeAt t (p ++ rest.take 8) (rest.drop 8) dirs
      else
        let ents' := leaf.ents.eraseIdx r
        let t1 := setLayer t { L with leaves := L.leaves.set i { leaf with ents := ents' } }
        if ents'.isEmpty then
          let (t2, used) := handleEmpty t1 p i dirs 0 (p.length / 8 + 1)
          { tree := t2, status := .OK, choices := used }
        else { tree := t1, status := .OK }
termination_by rest.length
decreasing_by
  have : (List.drop 8 rest).length = rest.length - 8 := List.length_drop
  omega

def remove (t : Tree) (k : Key) (dirs : List Bool := []) : RemOut := removeAt t [] k dirs

/-! ### in-order content (the abstraction used by scan/iscan specifications) -/

/-- all (full key, value) pairs below layer `p`, in key order; `fuel` bounds the layer depth. -/
def contentFrom (t : Tree) : Nat → List UInt8 → List (Key × Val)
  | 0, _ => []
  | fuel + 1, p =>
    match findLayer t p with
    | none => []
    | some L =>
      L.leaves.flatMap fun leaf =>
        leaf.ents.flatMap fun e =>
          match e.val with
          | some v => [(p ++ e.kt.bytes, v)]
          | none => contentFrom t fuel (p ++ e.kt.slice)

def content (t : Tree) : List (Key × Val) := contentFrom t (t.length + 1) []

end Yak.Tree
