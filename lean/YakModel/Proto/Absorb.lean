/-!
# `Absorb`: range absorption after a leaf is unlinked, under a forward range scan (D13)

The leaf level of one B+-tree layer: a list of leaves in key order. A leaf has an inclusive lower
fence `lo` (the first leaf has `lo = 0`) and owns the keys in `[lo, next.lo)`. Leaves have stable
identities `id` allocated from a counter. Sources: `scan_border` (`/repo/include/scan_helper.h`),
`border_node::delete_of` (`/repo/include/border_node.h`), `interior_node::delete_of`
(`/repo/include/interior_helper.h`).

When the last key of a leaf is removed, the leaf is unlinked from the chain and retired; the
parent drops one child and one separator and never recomputes separators, so the key range of
the unlinked leaf is ABSORBED by a neighbour: by the left one if the leaf was the rightmost child
(nothing changes here except that the leaf disappears), otherwise by the RIGHT one, whose fence
becomes the fence of the unlinked leaf. Later inserts of small keys land in the right neighbour.

```
ins k          insert k (absent) into the leaf that owns k (greatest fence ≤ k)
split i        leaf i (≥ 2 keys) splits: the upper half goes to a new leaf right after it, whose
               fence is its first key. Scanners standing on leaf i restart (vsplit changed).
rem k d        remove k (present). If the leaf becomes empty and is not the only leaf it is
               unlinked: d = right needs a right neighbour, which takes over the fence; d = left
               needs a left neighbour (no fence changes). A middle leaf may use either (it may or
               may not be the rightmost child of its parent). A single remaining leaf stays,
               empty. If the leaf does not become empty `d` is ignored.
               Scanners standing on the unlinked leaf restart (deleted bit).
sStart t a b   idle → want a b; the ghost list `touched t` is reset
sEnter t       find_border: arrive at the leaf that owns `a`
sVisit t       atomic validated read of the current leaf (snapshot + final version check in one
               step): append its keys inside [a, b] — with `cfg.fix`, only those greater than the
               last key collected before this leaf — then move to the successor if there is one
               and its fence is ≤ b, else finish
```

`touched t` (ghost): the keys inserted or removed since scanner `t` started.
A thread scans at most once (`fin` is terminal), which is enough for the statements.

No Mathlib. `step?` is the executable trace acceptor; `Reach` = reachable from `init` by `step?`.
-/
namespace Yak.Proto.Absorb

structure Cfg where
  /-- the repaired scan: skip keys `≤` the last key collected before this leaf -/
  fix : Bool := true
deriving DecidableEq, Repr

structure Leaf where
  id : Nat
  /-- inclusive lower fence -/
  lo : Nat
  keys : List Nat
deriving DecidableEq, Repr

/-- which neighbour absorbs the range of an unlinked leaf -/
inductive Dir
  | left
  | right
deriving DecidableEq, Repr

inductive SPc
  | idle
  | want (a b : Nat)                                  -- invoked, before find_border
  | at (a b : Nat) (res : List Nat) (cur : Nat)       -- standing on leaf `cur`, results so far
  | fin (a b : Nat) (res : List Nat)                  -- returned
deriving DecidableEq, Repr

structure State where
  /-- live leaves in key order -/
  chain : List Leaf
  /-- ids of unlinked leaves -/
  retired : List Nat
  nextId : Nat
  sc : Nat → SPc
  /-- ghost, per scanner thread: keys removed or inserted since that scanner's `sStart` -/
  touched : Nat → List Nat

def init : State := ⟨[⟨0, 0, []⟩], [], 1, fun _ => .idle, fun _ => []⟩

def upd {α} (f : Nat → α) (t : Nat) (v : α) : Nat → α := fun i => if i = t then v else f i

/-- every scanner gets `k` appended to its ghost list -/
def touch (tc : Nat → List Nat) (k : Nat) : Nat → List Nat := fun t => k :: tc t

/-- every scanner standing on leaf `i` goes back to `want` (retry from the root) -/
def restart (sc : Nat → SPc) (i : Nat) : Nat → SPc := fun t =>
  match sc t with
  | .at a b res cur => if cur = i then .want a b else .at a b res cur
  | p => p

/-- the chain seen from the leaf with id `i`: (leaves before it, the leaf, leaves after it) -/
def splitAtId : List Leaf → Nat → Option (List Leaf × Leaf × List Leaf)
  | [], _ => none
  | L :: rest, i =>
    if L.id = i then some ([], L, rest)
    else
      match splitAtId rest i with
      | some (p, M, q) => some (L :: p, M, q)
      | none => none

/-- the chain seen from the owner of `k`: the last leaf whose fence is `≤ k` -/
def splitOwner : List Leaf → Nat → Option (List Leaf × Leaf × List Leaf)
  | [], _ => none
  | L :: rest, k =>
    match splitOwner rest k with
    | some (p, M, q) => some (L :: p, M, q)
    | none => if L.lo ≤ k then some ([], L, rest) else none

def insertSorted (k : Nat) (l : List Nat) : List Nat :=
  l.filter (fun x => decide (x < k)) ++ k :: l.filter (fun x => decide (k < x))

def removeKey (k : Nat) (l : List Nat) : List Nat := l.filter (fun x => decide (x ≠ k))

/-- does the scan with results `res` so far report key `k` of the leaf it visits? -/
def passes (c : Cfg) (a b : Nat) (res : List Nat) (k : Nat) : Bool :=
  decide (a ≤ k) && decide (k ≤ b) &&
    (!c.fix ||
      match res.getLast? with
      | none => true
      | some r => decide (r < k))

inductive Event
  | ins (k : Nat)
  | split (i : Nat)
  | rem (k : Nat) (d : Dir)
  | sStart (t a b : Nat)
  | sEnter (t : Nat)
  | sVisit (t : Nat)
deriving DecidableEq, Repr

/-- one step; `none` = not enabled. -/
def step? (c : Cfg) (s : State) : Event → Option State
  | .ins k =>
    match splitOwner s.chain k with
    | some (pre, L, post) =>
      if L.keys.contains k then none
      else
        some { s with chain := pre ++ { L with keys := insertSorted k L.keys } :: post
                      touched := touch s.touched k }
    | none => none
  | .split i =>
    match splitAtId s.chain i with
    | some (pre, L, post) =>
      if 2 ≤ L.keys.length then
        match L.keys.drop (L.keys.length / 2) with
        | [] => none
        | p :: up =>
          some { s with chain := pre ++ { L with keys := L.keys.take (L.keys.length / 2) }
                                    :: ⟨s.nextId, p, p :: up⟩ :: post
                        nextId := s.nextId + 1
                        sc := restart s.sc i }
      else none
    | none => none
  | .rem k d =>
    match splitOwner s.chain k with
    | some (pre, L, post) =>
      if L.keys.contains k then
        if (removeKey k L.keys).isEmpty && !(pre.isEmpty && post.isEmpty) then
          -- the leaf is emptied and is not the only one: unlink it
          match d, post with
          | .right, R :: post' =>
            some { s with chain := pre ++ { R with lo := L.lo } :: post'
                          retired := L.id :: s.retired
                          sc := restart s.sc L.id
                          touched := touch s.touched k }
          | .right, [] => none
          | .left, _ =>
            if pre.isEmpty then none
            else
              some { s with chain := pre ++ post
                            retired := L.id :: s.retired
                            sc := restart s.sc L.id
                            touched := touch s.touched k }
        else
          some { s with chain := pre ++ { L with keys := removeKey k L.keys } :: post
                        touched := touch s.touched k }
      else none
    | none => none
  | .sStart t a b =>
    match s.sc t with
    | .idle => some { s with sc := upd s.sc t (.want a b), touched := upd s.touched t [] }
    | _ => none
  | .sEnter t =>
    match s.sc t with
    | .want a b =>
      match splitOwner s.chain a with
      | some (_, L, _) => some { s with sc := upd s.sc t (.at a b [] L.id) }
      | none => none
    | _ => none
  | .sVisit t =>
    match s.sc t with
    | .at a b res cur =>
      match splitAtId s.chain cur with
      | some (_, C, post) =>
        let res' := res ++ C.keys.filter (passes c a b res)
        match post with
        | [] => some { s with sc := upd s.sc t (.fin a b res') }
        | N :: _ =>
          if N.lo ≤ b then some { s with sc := upd s.sc t (.at a b res' N.id) }
          else some { s with sc := upd s.sc t (.fin a b res') }
      | none => none
    | _ => none

inductive Reach (c : Cfg) : State → Prop
  | init : Reach c init
  | step {s s' e} : Reach c s → step? c s e = some s' → Reach c s'

/-- reachability that remembers the states passed through (most recent first, the current state
    not included) -/
inductive Hist (c : Cfg) : List State → State → Prop
  | init : Hist c [] init
  | step {h s s' e} : Hist c h s → step? c s e = some s' → Hist c (s :: h) s'

/-- run a list of events (trace acceptor) -/
def exec (c : Cfg) : State → List Event → Option State
  | s, [] => some s
  | s, e :: es => (step? c s e).bind (fun s' => exec c s' es)

/-! ## vocabulary of the statements -/

/-- `k` is stored in the chain -/
def PresentC (ch : List Leaf) (k : Nat) : Prop := ∃ L ∈ ch, k ∈ L.keys

def Present (s : State) (k : Nat) : Prop := PresentC s.chain k

/-- `k` was stored during the whole scan of thread `t` (so far): it is stored now and has been
    neither inserted nor removed since `sStart t`. -/
def Stable (s : State) (t k : Nat) : Prop := Present s k ∧ k ∉ s.touched t

/-- the scenario of defect D13: scanner 0 has collected 3 from leaf 0 and stands on leaf 1; leaf 0
    is emptied and unlinked, leaf 1 absorbs its range; 2 is inserted (into leaf 1); the scanner
    reads leaf 1. -/
def D13_evs : List Event :=
  [.ins 3, .ins 11, .split 0, .sStart 0 0 100, .sEnter 0, .sVisit 0, .rem 3 .right, .ins 2, .sVisit 0]

/-- the same, and 3 is inserted again before the scanner reads leaf 1 (a duplicate without the repair) -/
def D13_dup_evs : List Event :=
  [.ins 3, .ins 11, .split 0, .sStart 0 0 100, .sEnter 0, .sVisit 0, .rem 3 .right, .ins 2, .ins 3, .sVisit 0]

/-- the result of scanner `t` after running `evs` from `init` -/
def scanOutcome (c : Cfg) (evs : List Event) (t : Nat) : Option SPc :=
  (exec c init evs).map (fun s => s.sc t)

end Yak.Proto.Absorb
