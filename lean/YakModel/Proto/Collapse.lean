/-!
# `Collapse`: two concurrent removes that empty the two leaves under a one-separator root

A FINITE INSTANCE, not a model of arbitrary trees. The tree is

```
            I   (interior, root, ONE separator, two children, parent = null)
           / \
          A ⇄ B        A.next = B, B.prev = A, A.prev = B.next = null, each leaf holds one key
```

Thread `t0` removes the only key of `A`, thread `t1` the only key of `B`; either may also never
start. A remove that empties a leaf `X` runs the code after `if (cnk == 1)` in
`border_node::delete_of<bool>` (`/repo/include/border_node.h:142-198`), which calls
`base_node::lock_parent` (`/repo/include/base_node.h:216-233`) and, when `X` has a parent, the
`n_key == 1` branch of `interior_node::delete_of` (`/repo/include/interior_helper.h:189-217`).
One `step t` event = one line below (`X` = the thread's own leaf):

```
idle          1   lock X                              (CAS, enabled only when X is unlocked)
markDel       2   X.deleted := true                   border_node.h:141-143 (delete_at + set_version_deleted)
readPrev      3   p := X.prev                         :149
lockPrev p    4   lock p                              :151 (enabled only when p is unlocked)
chkPrev p     5   if p.deleted ∨ p ≠ X.prev: unlock p; goto 3            :152-154
                  else p.next := X.next; if X.next ≠ null: X.next.prev := p; unlock p   :156-160
noPrev        5'  if X.next ≠ null: X.next.prev := null                  :162-163 (no lock on X.next)
readParent    6   q := X.parent                       base_node.h:217
acqParent q   7   q = null: root_lock                 :221   | q = I: lock I          :227
chkParent q   8   q = null: if root_ptr = X then PN := null (goto 9)    :222-223
                            else root_unlock; goto 7 (q stays null)     :224-225
              8'  q = I:    if X.parent = I then PN := I (goto 9')      :228-229
                            else unlock I; q := X.parent; goto 7        :230-231
stayRoot      9   [cfg.fix: X.next := null; X.prev := null]; root_unlock   border_node.h:175-177
stayUnlock    9b  unlock X; done                                           :178-179
leave         9'  X.root := false; unlock X                                :186-187
intDel        10' I.deleted := true; S := the other child of I    interior_helper.h:191-193
intRootLock   11' lock_parent(I): I.parent = null, so root_lock   base_node.h:217-221
promote       12' if root_ptr ≠ I: root_unlock; goto 11'          base_node.h:222-225
                  else I.root := false; S.root := true; root_ptr := S; S.parent := null;
                       root_unlock; unlock I; retire I; retire X; done
                                   interior_helper.h:196-200, 214-217; border_node.h:195-198
```

`cfg.fix = true` is the code as it stands (the two stores at `border_node.h:175-176`, commit
"fix: a border node that survives as the empty deleted root drops its sibling links");
`cfg.fix = false` is the code before that commit.

Locks record their holder (`Option Tid`). Unlock steps just store `none`; that the unlocking
thread is the holder is a theorem (`lock_owner_agrees` in `Proofs/CollapseProofs.lean`), not a guard.
`S.root := true` is `atomic_set_version_root` on `S`'s version word and does not need `S`'s lock.
"retire" = `push_node_container` into the thread-local GC list; the node's memory stays readable
(epoch-based reclamation), which is why a retired `I` may still be locked and inspected by the
other thread at 7/8'.

No Mathlib, no function-typed fields: states are compared and enumerated by the kernel.
`step?` is the executable acceptor, `Reach` = reachable from `init` via `step?`.
-/
namespace Yak.Proto.Collapse

structure Cfg where
  /-- `true`: step 9 clears the sibling links of the surviving empty root (current code) -/
  fix : Bool := true
deriving DecidableEq, Repr

/-- the two removers -/
inductive Tid
  | t0 | t1
deriving DecidableEq, Repr

/-- the two border nodes -/
inductive Leaf
  | A | B
deriving DecidableEq, Repr

/-- all three nodes (the possible values of `root_ptr`) -/
inductive Node
  | I | A | B
deriving DecidableEq, Repr

/-- the things that can be locked: a leaf's version lock, `I`'s version lock, the tree's root lock -/
inductive LockId
  | leaf (l : Leaf) | int | root
deriving DecidableEq, Repr

/-- the leaf whose only key thread `t` removes -/
def Tid.own : Tid → Leaf
  | .t0 => .A
  | .t1 => .B

def Leaf.other : Leaf → Leaf
  | .A => .B
  | .B => .A

def Leaf.node : Leaf → Node
  | .A => .A
  | .B => .B

structure LeafSt where
  lock : Option Tid
  deleted : Bool
  root : Bool
  next : Option Leaf
  prev : Option Leaf
  /-- `true`: `parent_ = I`; `false`: `parent_ = nullptr` -/
  parent : Bool
deriving DecidableEq, Repr

structure IntSt where
  lock : Option Tid
  deleted : Bool
  root : Bool
deriving DecidableEq, Repr

/-- program counter of a remover, with its live locals (`p`, `q`; `PN` is implied by the pc) -/
inductive PC
  | idle                   -- not started; next: 1
  | markDel                -- next: 2
  | readPrev               -- next: 3
  | lockPrev (p : Leaf)    -- next: 4
  | chkPrev (p : Leaf)     -- next: 5
  | noPrev                 -- next: 5'
  | readParent             -- next: 6
  | acqParent (q : Bool)   -- next: 7   (`q = true`: `I`, `q = false`: null)
  | chkParent (q : Bool)   -- next: 8 / 8'
  | stayRoot               -- next: 9   (PN = null)
  | stayUnlock             -- next: 9b
  | leave                  -- next: 9'  (PN = I)
  | intDel                 -- next: 10'
  | intRootLock            -- next: 11'
  | promote                -- next: 12'
  | done
deriving DecidableEq, Repr

structure State where
  a : LeafSt
  b : LeafSt
  i : IntSt
  rootPtr : Node
  rootLock : Option Tid
  retA : Bool
  retB : Bool
  retI : Bool
  t0 : PC
  t1 : PC
deriving DecidableEq, Repr

def init : State :=
  { a := { lock := none, deleted := false, root := false, next := some .B, prev := none, parent := true }
    b := { lock := none, deleted := false, root := false, next := none, prev := some .A, parent := true }
    i := { lock := none, deleted := false, root := true }
    rootPtr := .I
    rootLock := none
    retA := false
    retB := false
    retI := false
    t0 := .idle
    t1 := .idle }

/-! ### accessors -/

def State.leaf (s : State) : Leaf → LeafSt
  | .A => s.a
  | .B => s.b

def State.modLeaf (s : State) (l : Leaf) (f : LeafSt → LeafSt) : State :=
  match l with
  | .A => { s with a := f s.a }
  | .B => { s with b := f s.b }

def State.pc (s : State) : Tid → PC
  | .t0 => s.t0
  | .t1 => s.t1

def State.setPc (s : State) (t : Tid) (pc : PC) : State :=
  match t with
  | .t0 => { s with t0 := pc }
  | .t1 => { s with t1 := pc }

def State.leafRetired (s : State) : Leaf → Bool
  | .A => s.retA
  | .B => s.retB

def State.retireLeaf (s : State) : Leaf → State
  | .A => { s with retA := true }
  | .B => { s with retB := true }

def State.lockOf (s : State) : LockId → Option Tid
  | .leaf l => (s.leaf l).lock
  | .int => s.i.lock
  | .root => s.rootLock

def State.setILock (s : State) (v : Option Tid) : State := { s with i := { s.i with lock := v } }

inductive Event
  | step (t : Tid)     -- thread `t` performs its next line, if enabled
deriving DecidableEq, Repr

/-- the next line of thread `t`; `none` = blocked on a lock, or finished -/
def stepT (cfg : Cfg) (s : State) (t : Tid) : Option State :=
  let X := t.own
  let x := s.leaf X
  match s.pc t with
  | .idle =>
    if x.lock = none then some ((s.modLeaf X fun l => { l with lock := some t }).setPc t .markDel)
    else none
  | .markDel => some ((s.modLeaf X fun l => { l with deleted := true }).setPc t .readPrev)
  | .readPrev =>
    match x.prev with
    | some p => some (s.setPc t (.lockPrev p))
    | none => some (s.setPc t .noPrev)
  | .lockPrev p =>
    if (s.leaf p).lock = none then
      some ((s.modLeaf p fun l => { l with lock := some t }).setPc t (.chkPrev p))
    else none
  | .chkPrev p =>
    if (s.leaf p).deleted = true ∨ x.prev ≠ some p then
      some ((s.modLeaf p fun l => { l with lock := none }).setPc t .readPrev)
    else
      let s1 := s.modLeaf p fun l => { l with next := x.next }
      let s2 := match x.next with
        | some n => s1.modLeaf n fun l => { l with prev := some p }
        | none => s1
      some ((s2.modLeaf p fun l => { l with lock := none }).setPc t .readParent)
  | .noPrev =>
    let s1 := match x.next with
      | some n => s.modLeaf n fun l => { l with prev := none }
      | none => s
    some (s1.setPc t .readParent)
  | .readParent => some (s.setPc t (.acqParent x.parent))
  | .acqParent true =>
    if s.i.lock = none then some ((s.setILock (some t)).setPc t (.chkParent true)) else none
  | .acqParent false =>
    if s.rootLock = none then some ({ s with rootLock := some t }.setPc t (.chkParent false))
    else none
  | .chkParent true =>
    if x.parent = true then some (s.setPc t .leave)
    else some ((s.setILock none).setPc t (.acqParent x.parent))
  | .chkParent false =>
    if s.rootPtr = X.node then some (s.setPc t .stayRoot)
    else some ({ s with rootLock := none }.setPc t (.acqParent false))
  | .stayRoot =>
    let s1 := if cfg.fix then s.modLeaf X fun l => { l with next := none, prev := none } else s
    some ({ s1 with rootLock := none }.setPc t .stayUnlock)
  | .stayUnlock => some ((s.modLeaf X fun l => { l with lock := none }).setPc t .done)
  | .leave => some ((s.modLeaf X fun l => { l with root := false, lock := none }).setPc t .intDel)
  | .intDel => some ({ s with i := { s.i with deleted := true } }.setPc t .intRootLock)
  | .intRootLock =>
    if s.rootLock = none then some ({ s with rootLock := some t }.setPc t .promote) else none
  | .promote =>
    if s.rootPtr = .I then
      let S := X.other
      let s1 : State :=
        { s with i := { s.i with root := false, lock := none }, rootPtr := S.node, rootLock := none, retI := true }
      let s2 := s1.modLeaf S fun l => { l with root := true, parent := false }
      some ((s2.retireLeaf X).setPc t .done)
    else some ({ s with rootLock := none }.setPc t .intRootLock)
  | .done => none

/-- executable acceptor: `none` = the event is not enabled in `s` -/
def step? (cfg : Cfg) (s : State) : Event → Option State
  | .step t => stepT cfg s t

inductive Reach (cfg : Cfg) : State → Prop
  | init : Reach cfg init
  | step {s s' e} : Reach cfg s → step? cfg s e = some s' → Reach cfg s'

/-- run a list of events (trace acceptor) -/
def exec (cfg : Cfg) : State → List Event → Option State
  | s, [] => some s
  | s, e :: es => (step? cfg s e).bind (fun s' => exec cfg s' es)

/-! ### vocabulary of the statements -/

/-- not started (before line 1) or finished -/
def PC.quiet : PC → Bool
  | .idle | .done => true
  | _ => false

/-- started and not finished -/
def PC.active (pc : PC) : Bool := !pc.quiet

/-- every thread is either not started or done -/
def quiescent (s : State) : Prop := s.t0.quiet = true ∧ s.t1.quiet = true

instance (s : State) : Decidable (quiescent s) := by unfold quiescent; exact inferInstance

def bothDone (s : State) : Prop := s.t0 = .done ∧ s.t1 = .done

instance (s : State) : Decidable (bothDone s) := by unfold bothDone; exact inferInstance

/-- the locks the protocol text says a thread owning leaf `X` holds at program point `pc`
    (read off the listing in the header: acquired at 1, 4, 7, 11'; released at 5, 8, 9, 9b, 9', 12') -/
def PC.holds (X : Leaf) : PC → List LockId
  | .idle | .done => []
  | .markDel | .readPrev | .lockPrev _ | .noPrev | .readParent | .acqParent _ | .stayUnlock => [.leaf X]
  | .chkPrev p => [.leaf X, .leaf p]
  | .chkParent true | .leave => [.leaf X, .int]
  | .chkParent false | .stayRoot => [.leaf X, .root]
  | .intDel | .intRootLock => [.int]
  | .promote => [.int, .root]

/-- the locks thread `t` holds in `s` according to its program counter -/
def State.held (s : State) (t : Tid) : List LockId := (s.pc t).holds t.own

end Yak.Proto.Collapse
