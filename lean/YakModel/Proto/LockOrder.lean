/-!
# `LockOrder`: the abstract lock discipline behind C09

A snapshot of who holds and who waits for which lock. `WellFormed`: a thread waits for at most one
lock, only for a lock somebody else holds, and `blocked` lists exactly the waiting threads.
`Ordered lt`: every lock a waiting thread holds is below the lock it waits for.
-/
namespace Yak.Proto.LockOrder

structure Sys (L : Type) where
  holder : L → Option Nat          -- mutual exclusion by construction: one holder per lock
  waits : Nat → Option L
  blocked : List Nat

variable {L : Type}

def Sys.WellFormed (s : Sys L) : Prop :=
  s.blocked.Nodup ∧
  (∀ t, t ∈ s.blocked ↔ ∃ l, s.waits t = some l) ∧
  (∀ t l, s.waits t = some l → ∃ u, s.holder l = some u ∧ u ≠ t)

def Sys.Ordered (s : Sys L) (lt : L → L → Prop) : Prop :=
  ∀ t l, s.waits t = some l → ∀ h, s.holder h = some t → lt h l

end Yak.Proto.LockOrder
