/-!
# `NodeSet`: a chain of border nodes under inserting writers and version-collecting scanners (C06)

The leaf level of one B+-tree layer: a list of leaves in key order. A leaf has an inclusive lower
fence `lo` (the first leaf has `lo = 0`) and owns the keys in `[lo, next.lo)`. Leaves have stable
identities `id` (the node address in the code) allocated from a counter, because positions shift
when a leaf splits. Granularity: one event per protocol phase of `insert_lv` / `border_split`
(`/repo/include/border_helper.h`) and of `scan_border` (`/repo/include/scan_helper.h`).

```
writer (put of a new key k):
  wLock t k i    lock leaf i (only if unlocked). The code locks, then re-validates under the lock
                 that the leaf still owns k and that k is absent (otherwise it unlocks without a
                 dirty bit, hence without a counter change, and retries): merged into the guard.
  wInsert t      leaf not full:  set the inserting bit, write the entry, publish the permutation
                 (one step; the dirty window spans it because only `wUnlock` clears the bit)
  wUnlock t      version_unlock: clears lock and dirty bit, vins + 1; the insert is complete
  wSplit t       leaf full (≥ cap keys): set inserting + splitting, move the upper half (from
                 position `splitPoint`) to a new leaf placed right after it; the new leaf starts
                 with a copy of the locked, dirty version (same counters); k goes to its side
  wUnlockL t     unlock the old (left) leaf: vins + 1, vsplit + 1     (the code's order:
  wUnlockR t     unlock the new (right) leaf: vins + 1, vsplit + 1     left first); complete

scanner (scan of [a, b] collecting node versions):
  sStart t a b   invoke
  sEnter t i     find_border: arrive at the leaf that owns `a` by the fences of that moment
  sLoadVer t     get_stable_version (enabled only when the leaf is neither locked nor dirty)
  sSnapshot t    read the permutation and the entries: the keys of the leaf inside [a, b]
  sValidate t    scan_check_retry (needs a stable word): counters unchanged → record
                 (id, vins, vsplit) and the snapshot, go to the next leaf of the chain as it is
                 now, or finish when there is none or its fence is > b; vsplit changed → drop
                 everything, start over from find_border; only vins changed → redo this leaf with
                 the version just read
```

Abstractions, all on the safe side of the code: the code reads `next` before the snapshot and the
next leaf's stable version before the final check of the current leaf (i.e. earlier than the model,
so the code validates a longer window); it records one `(version, node)` pair per reported key
instead of one per leaf; it detects the right end by meeting a key `> b` instead of looking at a
fence. Removes are NOT part of this model: the property (C06) is about inserts, and removes are not
tracked by the version counters. `completed` is a ghost list of the keys whose insert has unlocked.

No Mathlib. `step?` is the executable trace acceptor; `Reach` = reachable from `init` by `step?`.
-/
namespace Yak.Proto.NodeSet

structure Cfg where
  /-- `key_slice_length`: a leaf with this many keys splits on the next insert -/
  cap : Nat := 15
deriving DecidableEq, Repr

structure Leaf where
  id : Nat
  lo : Nat
  keys : List Nat
  vins : Nat
  vsplit : Nat
  locked : Bool
  dirty : Bool
deriving DecidableEq, Repr, Hashable

/-- a collected pair: `(leaf id, vins, vsplit)` -/
abbrev NodeRec := Nat × Nat × Nat

inductive WPc
  | idle
  | held (k i : Nat)            -- leaf `i` locked for the insert of `k`, nothing written yet
  | published (k i : Nat)       -- `k` written into leaf `i`, dirty, unlock next
  | splitDone (k i j : Nat)     -- leaf `i` split, new leaf `j`, both locked and dirty
  | splitHalf (k j : Nat)       -- left leaf unlocked, right leaf `j` still held
deriving DecidableEq, Repr, Hashable

inductive Phase
  | fresh                                        -- at the leaf, no version read yet
  | loaded (vi vs : Nat)                         -- stable version read (`v_at_fb`)
  | snapped (vi vs : Nat) (snap : List Nat)      -- entries read
deriving DecidableEq, Repr, Hashable

inductive SPc
  | idle
  | want (a b : Nat)                                                         -- before find_border
  | run (a b : Nat) (keys : List Nat) (nodes : List NodeRec) (cur : Nat) (ph : Phase)
  | fin (a b : Nat) (keys : List Nat) (nodes : List NodeRec)                 -- returned
deriving DecidableEq, Repr, Hashable

structure State where
  chain : List Leaf
  nextId : Nat
  w : Nat → WPc
  sc : Nat → SPc
  /-- ghost: keys whose insert has finished (last unlock done) -/
  completed : List Nat

def init : State :=
  ⟨[⟨0, 0, [], 0, 0, false, false⟩], 1, fun _ => .idle, fun _ => .idle, []⟩

def upd {α} (f : Nat → α) (t : Nat) (v : α) : Nat → α := fun i => if i = t then v else f i

def findLeaf (ch : List Leaf) (i : Nat) : Option Leaf := ch.find? (fun L => L.id == i)

/-- `L` owns `k`: its fence is the greatest one that is `≤ k`. -/
def ownsB (ch : List Leaf) (L : Leaf) (k : Nat) : Bool :=
  decide (L.lo ≤ k) && ch.all (fun M => decide (M.lo ≤ L.lo) || decide (k < M.lo))

/-- replace the leaf that has the id of `L'` by `L'` -/
def setLeaf (ch : List Leaf) (L' : Leaf) : List Leaf :=
  ch.map (fun M => if M.id = L'.id then L' else M)

/-- insert `R` right after the leaf with id `i` -/
def insAfter : List Leaf → Nat → Leaf → List Leaf
  | [], _, _ => []
  | L :: rest, i, R => if L.id = i then L :: R :: rest else L :: insAfter rest i R

/-- the successor of leaf `i` in the chain (`get_next`) -/
def nextOf : List Leaf → Nat → Option Leaf
  | [], _ => none
  | L :: rest, i => if L.id = i then rest.head? else nextOf rest i

def insertSorted (k : Nat) (l : List Nat) : List Nat :=
  l.filter (fun x => decide (x < k)) ++ k :: l.filter (fun x => decide (k < x))

def inRange (a b k : Nat) : Bool := decide (a ≤ k) && decide (k ≤ b)

/-- number of keys that stay in the old leaf (`remaining_size`; `cap/2 + 1` for odd `cap`, 8 for
    the code's 15) -/
def splitPoint (c : Cfg) : Nat := max 1 ((c.cap + 1) / 2)

inductive Event
  | wLock (t k i : Nat)
  | wInsert (t : Nat)
  | wUnlock (t : Nat)
  | wSplit (t : Nat)
  | wUnlockL (t : Nat)
  | wUnlockR (t : Nat)
  | sStart (t a b : Nat)
  | sEnter (t i : Nat)
  | sLoadVer (t : Nat)
  | sSnapshot (t : Nat)
  | sValidate (t : Nat)
deriving DecidableEq, Repr

/-- one step; `none` = not enabled. -/
def step? (c : Cfg) (s : State) : Event → Option State
  | .wLock t k i =>
    match s.w t, findLeaf s.chain i with
    | .idle, some L =>
      if !L.locked && ownsB s.chain L k && !L.keys.contains k then
        some { s with chain := setLeaf s.chain { L with locked := true }
                      w := upd s.w t (.held k i) }
      else none
    | _, _ => none
  | .wInsert t =>
    match s.w t with
    | .held k i =>
      match findLeaf s.chain i with
      | some L =>
        if L.keys.length < c.cap then
          some { s with chain := setLeaf s.chain { L with dirty := true, keys := insertSorted k L.keys }
                        w := upd s.w t (.published k i) }
        else none
      | none => none
    | _ => none
  | .wUnlock t =>
    match s.w t with
    | .published k i =>
      match findLeaf s.chain i with
      | some L =>
        some { s with chain := setLeaf s.chain { L with locked := false, dirty := false, vins := L.vins + 1 }
                      w := upd s.w t .idle
                      completed := k :: s.completed }
      | none => none
    | _ => none
  | .wSplit t =>
    match s.w t with
    | .held k i =>
      match findLeaf s.chain i with
      | some L =>
        if c.cap ≤ L.keys.length then
          match L.keys.drop (splitPoint c) with
          | [] => none
          | p :: up =>
            let lower := L.keys.take (splitPoint c)
            let L' : Leaf := { L with dirty := true, keys := if k < p then insertSorted k lower else lower }
            let R : Leaf :=
              { id := s.nextId, lo := p, keys := if k < p then p :: up else insertSorted k (p :: up)
                vins := L.vins, vsplit := L.vsplit, locked := true, dirty := true }
            some { s with chain := insAfter (setLeaf s.chain L') i R
                          nextId := s.nextId + 1
                          w := upd s.w t (.splitDone k i s.nextId) }
        else none
      | none => none
    | _ => none
  | .wUnlockL t =>
    match s.w t with
    | .splitDone k i j =>
      match findLeaf s.chain i with
      | some L =>
        some { s with chain := setLeaf s.chain { L with locked := false, dirty := false, vins := L.vins + 1, vsplit := L.vsplit + 1 }
                      w := upd s.w t (.splitHalf k j) }
      | none => none
    | _ => none
  | .wUnlockR t =>
    match s.w t with
    | .splitHalf k j =>
      match findLeaf s.chain j with
      | some L =>
        some { s with chain := setLeaf s.chain { L with locked := false, dirty := false, vins := L.vins + 1, vsplit := L.vsplit + 1 }
                      w := upd s.w t .idle
                      completed := k :: s.completed }
      | none => none
    | _ => none
  | .sStart t a b =>
    match s.sc t with
    | .idle => some { s with sc := upd s.sc t (.want a b) }
    | _ => none
  | .sEnter t i =>
    match s.sc t, findLeaf s.chain i with
    | .want a b, some L =>
      if ownsB s.chain L a then some { s with sc := upd s.sc t (.run a b [] [] i .fresh) } else none
    | _, _ => none
  | .sLoadVer t =>
    match s.sc t with
    | .run a b ks ns cur .fresh =>
      match findLeaf s.chain cur with
      | some L =>
        if !L.locked && !L.dirty then
          some { s with sc := upd s.sc t (.run a b ks ns cur (.loaded L.vins L.vsplit)) }
        else none
      | none => none
    | _ => none
  | .sSnapshot t =>
    match s.sc t with
    | .run a b ks ns cur (.loaded vi vs) =>
      match findLeaf s.chain cur with
      | some L =>
        some { s with sc := upd s.sc t (.run a b ks ns cur (.snapped vi vs (L.keys.filter (inRange a b)))) }
      | none => none
    | _ => none
  | .sValidate t =>
    match s.sc t with
    | .run a b ks ns cur (.snapped vi vs snap) =>
      match findLeaf s.chain cur with
      | some L =>
        if L.locked || L.dirty then none
        else if L.vsplit ≠ vs then some { s with sc := upd s.sc t (.want a b) }
        else if L.vins ≠ vi then
          some { s with sc := upd s.sc t (.run a b ks ns cur (.loaded L.vins L.vsplit)) }
        else
          match nextOf s.chain cur with
          | none => some { s with sc := upd s.sc t (.fin a b (ks ++ snap) (ns ++ [(cur, vi, vs)])) }
          | some n =>
            if b < n.lo then
              some { s with sc := upd s.sc t (.fin a b (ks ++ snap) (ns ++ [(cur, vi, vs)])) }
            else
              some { s with sc := upd s.sc t (.run a b (ks ++ snap) (ns ++ [(cur, vi, vs)]) n.id .fresh) }
      | none => none
    | _ => none

inductive Reach (c : Cfg) : State → Prop
  | init : Reach c init
  | step {s s' e} : Reach c s → step? c s e = some s' → Reach c s'

/-- `s'` is reachable from `s` -/
inductive ReachFrom (c : Cfg) (s : State) : State → Prop
  | refl : ReachFrom c s s
  | step {s' s'' e} : ReachFrom c s s' → step? c s' e = some s'' → ReachFrom c s s''

/-- run a list of events (trace acceptor) -/
def exec (c : Cfg) : State → List Event → Option State
  | s, [] => some s
  | s, e :: es => (step? c s e).bind (fun s' => exec c s' es)

/-! ## vocabulary of the C06 statements -/

/-- `k` is stored in the chain -/
def Present (s : State) (k : Nat) : Prop := ∃ L ∈ s.chain, k ∈ L.keys

/-- some collected pair no longer matches the counters of its leaf -/
def Stale (s : State) (nodes : List NodeRec) : Prop :=
  ∃ r ∈ nodes, ∃ L ∈ s.chain, L.id = r.1 ∧ (L.vins, L.vsplit) ≠ (r.2.1, r.2.2)

/-- writer pc is between the publication of `k` and its last unlock -/
def WPc.inFlight : WPc → Nat → Prop
  | .published k' _, k | .splitDone k' _ _, k | .splitHalf k' _, k => k' = k
  | _, _ => False

end Yak.Proto.NodeSet
