/-!
# `Session`: the session table (`thread_info_table`) shared by any number of threads

`enter` = `thread_info_table::assign_thread_info`, `leave` = `leave_thread_info`
(`/repo/include/thread_info_table.h`, `thread_info.h`). The model works at the granularity of single
shared-memory accesses, i.e. exactly the accesses announced by the verification hooks:

```
enter:  for i in 0 .. N-1:
          expected := running[i].load                      -- ldRunning t i v
          loop: if expected then next slot
                if running[i].CAS_weak(expected, true)     -- casRunning t i ok
                then e := epoch.load                       -- ldEpoch t e
                     begin[i].store(e)                     -- stBegin t i e
                     return token i                        -- enterRet t (some i)
                -- a failed weak CAS refreshes `expected` with the current value and re-tests it
        return WARN_MAX_SESSIONS                           -- enterRet t none
leave(i):                                                  -- leaveCall t i
        begin[i].store(0)                                  -- stBegin t i 0
        running[i].store(false)                            -- stRunning t i false
        return                                             -- leaveRet t
```

The epoch thread may bump the global epoch at any time (`epochInc`).

A thread may hold several sessions at once (`storage::create_storage` enters a session of its own
while its caller may already own one), so the set of open sessions of a thread is a list
`held t`. Caller discipline (checked on real traces, not proved): `leave(i)` is only called by a
thread on a token that `enter` returned to it and that it has not yet left — the guard of
`leaveCall`.

There is no `enterCall` event (the code has no hook there): the first `ldRunning t 0 _` issued by
an idle thread starts the call; `scanIdx` treats `idle` as "about to load slot 0".

No Mathlib; `step?` is the executable trace acceptor, `Step`/`Reach` the relational presentation
(`YakModel/Proofs/SessionProofs.lean` proves `step? c s e = some s' ↔ Step c s e s'`).
-/
namespace Yak.Proto.Session

structure Cfg where
  /-- `YAKUSHIMA_MAX_PARALLEL_SESSIONS` -/
  N : Nat
  /-- value of the global epoch when the table is initialised (1 in a fresh process) -/
  epoch0 : Nat := 1
deriving DecidableEq, Repr

inductive Pc
  | idle                        -- not inside enter/leave
  | scan (i : Nat)              -- inside enter, about to load `running[i]` (or to give up if `i ≥ N`)
  | cas (i : Nat)               -- `expected = false`, about to CAS `running[i]`
  | won (i : Nat)               -- CAS succeeded, about to load the global epoch
  | gotEpoch (i e : Nat)        -- about to store `begin[i] := e`
  | ret (i : Nat)               -- about to return token `i`
  | lvBegin (i : Nat)           -- inside leave(i), about to store `begin[i] := 0`
  | lvRun (i : Nat)             -- about to store `running[i] := false`
  | lvRet (i : Nat)             -- about to return from leave(i)
deriving DecidableEq, Repr

structure State where
  running : Nat → Bool
  begin : Nat → Nat
  epoch : Nat
  pc : Nat → Pc
  /-- ghost: tokens returned by `enter` to thread `t` and not yet passed to `leave` -/
  held : Nat → List Nat

def init (c : Cfg) : State :=
  ⟨fun _ => false, fun _ => 0, c.epoch0, fun _ => .idle, fun _ => []⟩

def upd {α} (f : Nat → α) (t : Nat) (v : α) : Nat → α := fun i => if i = t then v else f i

inductive Event
  | ldRunning (t i : Nat) (v : Bool)      -- `running[i].load()` returned `v`
  | casRunning (t i : Nat) (ok : Bool)    -- `running[i].compare_exchange_weak(false, true)`
  | ldEpoch (t e : Nat)                   -- global epoch load returned `e`
  | stBegin (t i e : Nat)                 -- `begin[i].store(e)`
  | enterRet (t : Nat) (tok : Option Nat) -- enter returns OK/token or WARN_MAX_SESSIONS
  | leaveCall (t i : Nat)
  | stRunning (t i : Nat) (v : Bool)      -- `running[i].store(v)`
  | leaveRet (t : Nat)
  | epochInc                              -- the epoch thread's `fetch_add(1)`
deriving DecidableEq, Repr

/-- slot index the enter loop of a thread is about to load (`idle` = a fresh call, slot 0) -/
def scanIdx : Pc → Option Nat
  | .idle => some 0
  | .scan i => some i
  | _ => none

/-- where the slot loop goes once `expected` holds the value `v` of `running[i]` -/
def afterTest (i : Nat) (v : Bool) : Pc := if v then .scan (i + 1) else .cas i

/-- executable acceptor: `none` = the event is not enabled in `s` -/
def step? (c : Cfg) (s : State) : Event → Option State
  | .ldRunning t i v =>
    if scanIdx (s.pc t) = some i ∧ i < c.N ∧ v = s.running i then
      some { s with pc := upd s.pc t (afterTest i (s.running i)) }
    else none
  | .casRunning t i ok =>
    if s.pc t = .cas i then
      if ok then
        if s.running i = false then
          some { s with running := upd s.running i true, pc := upd s.pc t (.won i) }
        else none
      else some { s with pc := upd s.pc t (afterTest i (s.running i)) }
    else none
  | .ldEpoch t e =>
    match s.pc t with
    | .won i => if e = s.epoch then some { s with pc := upd s.pc t (.gotEpoch i s.epoch) } else none
    | _ => none
  | .stBegin t i e =>
    if s.pc t = .gotEpoch i e then
      some { s with begin := upd s.begin i e, pc := upd s.pc t (.ret i) }
    else if s.pc t = .lvBegin i ∧ e = 0 then
      some { s with begin := upd s.begin i 0, pc := upd s.pc t (.lvRun i) }
    else none
  | .enterRet t (some i) =>
    if s.pc t = .ret i then
      some { s with pc := upd s.pc t .idle, held := upd s.held t (i :: s.held t) }
    else none
  | .enterRet t none =>
    match scanIdx (s.pc t) with
    | some i => if c.N ≤ i then some { s with pc := upd s.pc t .idle } else none
    | none => none
  | .leaveCall t i =>
    if s.pc t = .idle ∧ i ∈ s.held t then
      some { s with pc := upd s.pc t (.lvBegin i), held := upd s.held t ((s.held t).erase i) }
    else none
  | .stRunning t i v =>
    if s.pc t = .lvRun i ∧ v = false then
      some { s with running := upd s.running i false, pc := upd s.pc t (.lvRet i) }
    else none
  | .leaveRet t =>
    match s.pc t with
    | .lvRet _ => some { s with pc := upd s.pc t .idle }
    | _ => none
  | .epochInc => some { s with epoch := s.epoch + 1 }

/-- run a whole trace -/
def exec (c : Cfg) : State → List Event → Option State
  | s, [] => some s
  | s, e :: es =>
    match step? c s e with
    | some s' => exec c s' es
    | none => none

/-- relational presentation of `step?`, one constructor per kind of access -/
inductive Step (c : Cfg) : State → Event → State → Prop
  | ldRunning (s : State) (t i : Nat) (hpc : scanIdx (s.pc t) = some i) (hi : i < c.N) :
      Step c s (.ldRunning t i (s.running i))
        { s with pc := upd s.pc t (afterTest i (s.running i)) }
  | casOk (s : State) (t i : Nat) (hpc : s.pc t = .cas i) (hfree : s.running i = false) :
      Step c s (.casRunning t i true)
        { s with running := upd s.running i true, pc := upd s.pc t (.won i) }
  /-- failure (spurious or not) refreshes `expected` from memory and re-tests it -/
  | casFail (s : State) (t i : Nat) (hpc : s.pc t = .cas i) :
      Step c s (.casRunning t i false)
        { s with pc := upd s.pc t (afterTest i (s.running i)) }
  | ldEpoch (s : State) (t i : Nat) (hpc : s.pc t = .won i) :
      Step c s (.ldEpoch t s.epoch) { s with pc := upd s.pc t (.gotEpoch i s.epoch) }
  | stBeginEnter (s : State) (t i e : Nat) (hpc : s.pc t = .gotEpoch i e) :
      Step c s (.stBegin t i e) { s with begin := upd s.begin i e, pc := upd s.pc t (.ret i) }
  | enterRetOk (s : State) (t i : Nat) (hpc : s.pc t = .ret i) :
      Step c s (.enterRet t (some i))
        { s with pc := upd s.pc t .idle, held := upd s.held t (i :: s.held t) }
  | enterRetFull (s : State) (t i : Nat) (hpc : scanIdx (s.pc t) = some i) (hi : c.N ≤ i) :
      Step c s (.enterRet t none) { s with pc := upd s.pc t .idle }
  | leaveCall (s : State) (t i : Nat) (hpc : s.pc t = .idle) (hown : i ∈ s.held t) :
      Step c s (.leaveCall t i)
        { s with pc := upd s.pc t (.lvBegin i), held := upd s.held t ((s.held t).erase i) }
  | stBeginLeave (s : State) (t i : Nat) (hpc : s.pc t = .lvBegin i) :
      Step c s (.stBegin t i 0) { s with begin := upd s.begin i 0, pc := upd s.pc t (.lvRun i) }
  | stRunning (s : State) (t i : Nat) (hpc : s.pc t = .lvRun i) :
      Step c s (.stRunning t i false)
        { s with running := upd s.running i false, pc := upd s.pc t (.lvRet i) }
  | leaveRet (s : State) (t i : Nat) (hpc : s.pc t = .lvRet i) :
      Step c s (.leaveRet t) { s with pc := upd s.pc t .idle }
  | epochInc (s : State) : Step c s .epochInc { s with epoch := s.epoch + 1 }

inductive Reach (c : Cfg) : State → Prop
  | init : Reach c (init c)
  | step {s s' e} : Reach c s → Step c s e s' → Reach c s'

/-- events of thread `t` that belong to an `enter` call, except its return -/
def Event.isEnterStepOf (t : Nat) : Event → Bool
  | .ldRunning t' _ _ | .casRunning t' _ _ | .ldEpoch t' _ | .stBegin t' _ _ => t' == t
  | _ => false

/-! ### derived notions used in theorem statements -/

/-- the thread that performs an event (`none` for the epoch thread) -/
def Event.thread? : Event → Option Nat
  | .ldRunning t _ _ | .casRunning t _ _ | .ldEpoch t _ | .stBegin t _ _ | .enterRet t _
  | .leaveCall t _ | .stRunning t _ _ | .leaveRet t => some t
  | .epochInc => none

/-- the slot a thread's call in progress has acquired (CAS done) and not yet released
    (`running := false` not yet stored) -/
def pcClaim : Pc → List Nat
  | .won i | .gotEpoch i _ | .ret i | .lvBegin i | .lvRun i => [i]
  | _ => []

/-- all slots claimed by thread `t`: by its call in progress and by its open sessions -/
def claims (s : State) (t : Nat) : List Nat := pcClaim (s.pc t) ++ s.held t

/-- observable summary of a state over the first `n` threads and all `c.N` slots
    (for printing and for comparing states in tests) -/
def State.view (c : Cfg) (s : State) (nThreads : Nat) :
    List (Bool × Nat) × Nat × List (Pc × List Nat) :=
  ((List.range c.N).map (fun i => (s.running i, s.begin i)), s.epoch,
   (List.range nThreads).map (fun t => (s.pc t, s.held t)))

end Yak.Proto.Session
