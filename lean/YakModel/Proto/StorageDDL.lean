/-!
# `StorageDDL`: `create_storage` / `delete_storage` run by any number of threads (D14)

Source: `/repo/include/storage_impl.h`. The storage directory maps a name to an entry that holds a
tree (`tree_instance`, a root pointer). The directory operations (`put` with the unique
restriction, `get`, `remove`) are linearizable; each is ONE atomic step here.

```
create_storage(n):  c1  t := fresh tree id (allocate the root)                         alloc
                    c2  put_unique(n, t): n absent → dir[n] := t, OK; else UNIQUE      put
                    c3  result ≠ OK → free the speculative root of t; return result    cfin
delete_storage(n):  d0  [cfg.fix only] acquire the delete mutex (enabled when free)    lock
                    d1  get(n): absent → return NOT_EXIST; else r := dir[n]            get
                    d2  remove(n): n present → erase dir[n] (WHATEVER entry is there   remove
                        now, not necessarily r), ok; else return CONCURRENT
                    d3  x := root pointer of tree r                                    load
                    d4a x ≠ null: destroy x                                            destroy
                    d4b            root pointer of r := null                           storeNull
                        (release the mutex) return                                     dret
```

`destroy` and `storeNull` are two steps: another thread can load the root pointer of `r` between
them. A destroy (or a speculative free) of a root that is not live any more is the use-after-free /
double destroy; the step stays enabled and raises the ghost flag `uaf`.

Threads are `Nat`s, any number of them; an idle thread may `invoke` any operation, so every thread
runs an arbitrary sequence of operations. Per-thread and per-tree state are lists (association
list `pcs`, the sets `live` and `ptrSet`), never functions, so that closed runs are evaluated by
`decide`/`rfl` cheaply.

No Mathlib. `step?` is the executable trace acceptor; `Reach` = reachable from `init` by `step?`.
-/
namespace Yak.Proto.StorageDDL

abbrev Name := Nat
abbrev TreeId := Nat
abbrev Tid := Nat

structure Cfg where
  /-- the repaired code ("fix: delete_storage calls are serialized"): `delete_storage` holds a
      global mutex from before its look-up until it returns -/
  fix : Bool := true
deriving DecidableEq, Repr

inductive Op
  | create (n : Name)
  | delete (n : Name)
deriving DecidableEq, Repr

/-- `status` values returned by the two operations -/
inductive Res
  | ok
  | unique       -- WARN_UNIQUE_RESTRICTION (create: the name exists)
  | notExist     -- WARN_NOT_EXIST (delete: look-up failed)
  | concurrent   -- WARN_CONCURRENT_OPERATIONS (delete: the remove found nothing)
deriving DecidableEq, Repr

inductive Pc
  | idle
  | c1 (n : Name)                          -- create invoked, about to allocate the root
  | c2 (n : Name) (tr : TreeId)            -- about to `put_unique (n, tr)`
  | c3 (n : Name) (tr : TreeId) (ok : Bool) -- put done; about to clean up and return
  | d0 (n : Name)                          -- delete invoked (fix), about to take the mutex
  | d1 (n : Name)                          -- about to `get n`
  | d2 (n : Name) (r : TreeId)             -- look-up found tree `r`; about to `remove n`
  | d3 (n : Name) (r : TreeId)             -- remove erased an entry; about to load the root of `r`
  | d4a (n : Name) (r : TreeId)            -- root pointer was non-null; about to destroy the root
  | d4b (n : Name) (r : TreeId)            -- about to store null into the root pointer of `r`
  | dret (n : Name) (res : Res)            -- about to (release the mutex and) return `res`
deriving DecidableEq, Repr

/-! ## association lists keyed by `Nat` (own definitions: transparent for `decide` and proofs) -/

def find? {α} : List (Nat × α) → Nat → Option α
  | [], _ => none
  | (k, v) :: l, a => if k = a then some v else find? l a

/-- drop every binding of `a` -/
def del {α} (l : List (Nat × α)) (a : Nat) : List (Nat × α) := l.filter (fun p => decide (p.1 ≠ a))

/-- remove `x` from a set of ids -/
def without (l : List Nat) (x : Nat) : List Nat := l.filter (fun y => decide (y ≠ x))

def pcOf' (pcs : List (Tid × Pc)) (t : Tid) : Pc := (find? pcs t).getD .idle

/-- idle threads are not stored: a quiescent state has `pcs = []` -/
def setPc (pcs : List (Tid × Pc)) (t : Tid) (p : Pc) : List (Tid × Pc) :=
  if p = .idle then del pcs t else (t, p) :: del pcs t

structure State where
  /-- the storage directory -/
  dir : List (Name × TreeId) := []
  /-- tree ids whose root object exists (allocated, not destroyed / freed) -/
  live : List TreeId := []
  /-- tree ids whose `tree_instance` root pointer is non-null -/
  ptrSet : List TreeId := []
  /-- ghost: one entry per destroy ACTION of `delete_storage` (a double destroy is a duplicate) -/
  destroyed : List TreeId := []
  /-- ghost: speculative roots freed by a `create_storage` that lost -/
  freedSpeculative : List TreeId := []
  /-- ghost: tree ids whose directory entry was erased by a `delete_storage` -/
  removedEntries : List TreeId := []
  /-- program counters with locals, idle threads omitted -/
  pcs : List (Tid × Pc) := []
  /-- the delete mutex (only used when `cfg.fix`) -/
  mutex : Option Tid := none
  nextTree : Nat := 0
  /-- ghost: some root was destroyed / freed while not live -/
  uaf : Bool := false
  /-- ghost: returned operations, most recent first -/
  log : List (Tid × Op × Res) := []
deriving DecidableEq, Repr

def init : State := {}

def pcOf (s : State) (t : Tid) : Pc := pcOf' s.pcs t

/-- the root object of tree `x` exists -/
def State.rootLive (s : State) (x : TreeId) : Bool := decide (x ∈ s.live)

/-- the root pointer of tree `x` is non-null -/
def State.rootPtrSet (s : State) (x : TreeId) : Bool := decide (x ∈ s.ptrSet)

inductive Event
  | invoke (t : Tid) (op : Op)
  | alloc (t : Tid)       -- c1
  | put (t : Tid)         -- c2
  | cfin (t : Tid)        -- c3
  | lock (t : Tid)        -- d0
  | get (t : Tid)         -- d1
  | remove (t : Tid)      -- d2
  | load (t : Tid)        -- d3
  | destroy (t : Tid)     -- d4a
  | storeNull (t : Tid)   -- d4b
  | dret (t : Tid)        -- release + return
deriving DecidableEq, Repr

/-- one atomic step; `none` = not enabled -/
def step? (c : Cfg) (s : State) : Event → Option State
  | .invoke t op =>
    match pcOf s t with
    | .idle =>
      match op with
      | .create n => some { s with pcs := setPc s.pcs t (.c1 n) }
      | .delete n => some { s with pcs := setPc s.pcs t (if c.fix then .d0 n else .d1 n) }
    | _ => none
  | .alloc t =>
    match pcOf s t with
    | .c1 n =>
      some { s with live := s.nextTree :: s.live
                    ptrSet := s.nextTree :: s.ptrSet
                    nextTree := s.nextTree + 1
                    pcs := setPc s.pcs t (.c2 n s.nextTree) }
    | _ => none
  | .put t =>
    match pcOf s t with
    | .c2 n tr =>
      match find? s.dir n with
      | none => some { s with dir := (n, tr) :: s.dir, pcs := setPc s.pcs t (.c3 n tr true) }
      | some _ => some { s with pcs := setPc s.pcs t (.c3 n tr false) }
    | _ => none
  | .cfin t =>
    match pcOf s t with
    | .c3 n _ true =>
      some { s with pcs := setPc s.pcs t .idle, log := (t, .create n, .ok) :: s.log }
    | .c3 n tr false =>
      some { s with uaf := s.uaf || !s.rootLive tr
                    live := without s.live tr
                    freedSpeculative := tr :: s.freedSpeculative
                    pcs := setPc s.pcs t .idle
                    log := (t, .create n, .unique) :: s.log }
    | _ => none
  | .lock t =>
    match pcOf s t with
    | .d0 n =>
      match s.mutex with
      | none => some { s with mutex := some t, pcs := setPc s.pcs t (.d1 n) }
      | some _ => none
    | _ => none
  | .get t =>
    match pcOf s t with
    | .d1 n =>
      match find? s.dir n with
      | none => some { s with pcs := setPc s.pcs t (.dret n .notExist) }
      | some r => some { s with pcs := setPc s.pcs t (.d2 n r) }
    | _ => none
  | .remove t =>
    match pcOf s t with
    | .d2 n r =>
      match find? s.dir n with
      | none => some { s with pcs := setPc s.pcs t (.dret n .concurrent) }
      | some r' =>
        -- the entry erased is the one present NOW (`r'`); the tree remembered is `r`
        some { s with dir := del s.dir n
                      removedEntries := r' :: s.removedEntries
                      pcs := setPc s.pcs t (.d3 n r) }
    | _ => none
  | .load t =>
    match pcOf s t with
    | .d3 n r =>
      if r ∈ s.ptrSet then some { s with pcs := setPc s.pcs t (.d4a n r) }
      else some { s with pcs := setPc s.pcs t (.dret n .ok) }
    | _ => none
  | .destroy t =>
    match pcOf s t with
    | .d4a n r =>
      some { s with uaf := s.uaf || !s.rootLive r
                    live := without s.live r
                    destroyed := r :: s.destroyed
                    pcs := setPc s.pcs t (.d4b n r) }
    | _ => none
  | .storeNull t =>
    match pcOf s t with
    | .d4b n r => some { s with ptrSet := without s.ptrSet r, pcs := setPc s.pcs t (.dret n .ok) }
    | _ => none
  | .dret t =>
    match pcOf s t with
    | .dret n res =>
      some { s with mutex := none, pcs := setPc s.pcs t .idle, log := (t, .delete n, res) :: s.log }
    | _ => none

inductive Reach (c : Cfg) : State → Prop
  | init : Reach c init
  | step {s s' e} : Reach c s → step? c s e = some s' → Reach c s'

/-- run a list of events (trace acceptor) -/
def exec (c : Cfg) : State → List Event → Option State
  | s, [] => some s
  | s, e :: es =>
    match step? c s e with
    | some s' => exec c s' es
    | none => none

/-! ## vocabulary of the statements -/

/-- all threads idle -/
def Quiescent (s : State) : Prop := ∀ t, pcOf s t = .idle

/-- tree ids the directory points to -/
def State.dirTrees (s : State) : List TreeId := s.dir.map (·.2)

/-- the speculative tree a creator owns (allocated, not in the directory, not yet freed) -/
def spec : Pc → Option TreeId
  | .c2 _ tr => some tr
  | .c3 _ tr false => some tr
  | _ => none

/-- the tree a deleter is about to destroy (its entry is erased, the destroy not yet done) -/
def victim : Pc → Option TreeId
  | .d3 _ r => some r
  | .d4a _ r => some r
  | _ => none

/-- inside the critical section of `delete_storage` -/
def inCS : Pc → Bool
  | .d1 _ | .d2 _ _ | .d3 _ _ | .d4a _ _ | .d4b _ _ | .dret _ _ => true
  | _ => false

/-! ## the D14 scenario: `T0: create 7; delete 7`, `T1: create 7`, `T2: delete 7` -/

/-- Without the mutex. T0 and T2 both look the name up and remember tree 0. T0 erases the entry
    and loads the root. T1 re-creates the name (tree 1). T2's remove erases the NEW entry. T0
    destroys root 0 (d4a); T2 loads the root pointer of tree 0 BEFORE T0 stores null (d4b) and
    destroys root 0 a second time. Tree 1 is never destroyed. -/
def D14_events : List Event :=
  [ .invoke 0 (.create 7), .alloc 0, .put 0, .cfin 0,          -- dir = [(7, 0)]
    .invoke 0 (.delete 7), .get 0,                             -- T0 remembers tree 0
    .invoke 2 (.delete 7), .get 2,                             -- T2 remembers tree 0
    .remove 0, .load 0,                                        -- T0 erases (7,0), loads root 0
    .invoke 1 (.create 7), .alloc 1, .put 1, .cfin 1,          -- T1: dir = [(7, 1)]
    .remove 2,                                                 -- T2 erases (7,1), the NEW entry
    .destroy 0,                                                -- T0 d4a: root 0 destroyed
    .load 2,                                                   -- T2 d3: pointer of tree 0 still set
    .storeNull 0, .dret 0,                                     -- T0 d4b, returns OK
    .destroy 2,                                                -- T2 d4a: root 0 destroyed AGAIN
    .storeNull 2, .dret 2 ]

/-- The same, but T2 loads the root pointer of tree 0 AFTER T0 stored null: no second destroy,
    T2 returns OK having destroyed nothing; tree 1 (whose entry T2 erased) is leaked. -/
def D14_leak_events : List Event :=
  [ .invoke 0 (.create 7), .alloc 0, .put 0, .cfin 0,
    .invoke 0 (.delete 7), .get 0,
    .invoke 2 (.delete 7), .get 2,
    .remove 0, .load 0,
    .invoke 1 (.create 7), .alloc 1, .put 1, .cfin 1,
    .remove 2,
    .destroy 0, .storeNull 0, .dret 0,
    .load 2,                                                   -- null: nothing to destroy
    .dret 2 ]

/-- The same operations with the mutex, as close as the mutex allows: T2 has invoked its delete
    but cannot pass `lock` until T0 has returned; it then looks up tree 1 and destroys tree 1. -/
def D14_fixed_events : List Event :=
  [ .invoke 0 (.create 7), .alloc 0, .put 0, .cfin 0,
    .invoke 0 (.delete 7), .lock 0, .get 0,
    .invoke 2 (.delete 7),                                     -- T2 waits at d0
    .remove 0, .load 0,
    .invoke 1 (.create 7), .alloc 1, .put 1, .cfin 1,          -- T1: dir = [(7, 1)]
    .destroy 0, .storeNull 0, .dret 0,
    .lock 2, .get 2, .remove 2, .load 2, .destroy 2, .storeNull 2, .dret 2 ]

end Yak.Proto.StorageDDL
