/-!
# `Epoch`: the epoch-based reclamation protocol of yakushima (property C07)

An executable, sequentially consistent interleaving model. Every transition is ONE access to
shared memory (or one operation on a per-session retire queue) by one of

* a **worker** bound to session slot `i` (`thread_info_table::assign_thread_info`,
  `leave_thread_info`, and the retire call sites `border_node::delete_at` / `delete_of`,
  `interior_helper`, `interface_put`, which all push `(ti->get_begin_epoch(), object)`),
* the **epoch thread** (`epoch_manager::epoch_thread`): check scan, `epoch_inc`, min scan,
  `set_gc_epoch`,
* the **gc thread** (`epoch_manager::gc_thread` → `thread_info_table::gc` →
  `garbage_collection::gc_node` / `gc_value`).

Time is not modelled: every `sleepMs` is a point where arbitrarily many steps of the other threads
may happen (and so is every other point).

`Cfg.fixD3 = false` is `assign_thread_info` as it is in `/repo` (load `E`, store `begin`, done);
`Cfg.fixD3 = true` is the repaired enter (store `begin`, re-read `E`, repeat until unchanged).

Modelling decisions
* The CAS in `gain_the_right` is one step `claim`, enabled only when `running = false`.
* The epoch thread's last `get_epoch()` (the `min_epoch == UINT64_MAX` branch) is merged with the
  `set_gc_epoch` store into `eSetG`: the epoch thread is the only writer of `E`, so the value it
  reads there is the value it holds anyway.
* One kind of retired object (the code runs the same loop once for nodes and once for values per
  slot, each with a fresh load of `G`; in the model that is two consecutive visits).
* `unlinkRetire` is one step although the code unlinks first (under the node lock) and pushes to
  the retire queue a little later, reading its own `begin` in between. Sound: `begin[i]` is
  written only by the worker itself and is constant during its session; and the sessions that
  were active at the unlink and have not left are still active at the push, so the witness set
  recorded at the push is a superset of the one the property speaks about.
* The retire queue push/pop are atomic (TBB `concurrent_queue`); the cache cell is private to the
  gc thread.
* Ghost state: `allocd` (object ids already used — an unlinked object is a fresh id), `wit`
  (object ↦ slots whose session was ACTIVE, i.e. `enter` had returned, when the object was
  unlinked; `leave` removes the slot from every list: the session has ended, a later session on
  the same slot is a different one), `freed` (in order of release).
-/
namespace Yak.Proto.Epoch

structure Cfg where
  fixD3 : Bool
deriving DecidableEq, Repr

def cfgFixed : Cfg := ⟨true⟩
def cfgD3 : Cfg := ⟨false⟩

/-- program counter of the worker that owns a slot -/
inductive WPc
  | idle                  -- no session on this slot
  | claimed               -- `running` set; about to load `E`
  | loaded (e : Nat)      -- `e = E` loaded; about to store `begin := e`
  | published (e : Nat)   -- (`fixD3` only) `begin = e` stored; about to re-read `E`
  | active                -- `enter` returned: the session may read the tree and retire objects
  | leaving               -- `begin := 0` stored; about to clear `running`
deriving DecidableEq, Repr

structure Slot where
  running : Bool := false
  begin : Nat := 0                      -- 0 = not in a session
  queue : List (Nat × Nat) := []        -- (tag, object), oldest first
  cache : Option (Nat × Nat) := none    -- the gc thread's one-element look-ahead
  pc : WPc := .idle
deriving DecidableEq, Repr

/-- program counter and locals of the epoch thread -/
inductive EPc
  | loadCur                               -- about to load `cur := E`
  | check (cur j : Nat)                   -- about to load `begin[j]` (`j = n`: about to `epoch_inc`)
  | minScan (m : Option Nat) (j : Nat)    -- `none` = UINT64_MAX; `j = n`: about to `set_gc_epoch`
deriving DecidableEq, Repr

/-- program counter and locals of the gc thread -/
inductive GPc
  | loadG (j : Nat)       -- about to load `G` for slot `j`
  | cache (j g : Nat)     -- about to look at the cache cell of slot `j`
  | pop (j g : Nat)       -- about to pop the queue of slot `j`
deriving DecidableEq, Repr

structure State where
  n : Nat
  E : Nat
  G : Nat
  slots : Nat → Slot
  epc : EPc
  gpc : GPc
  freed : List Nat
  allocd : List Nat
  wit : Nat → List Nat

def init (N : Nat) : State :=
  { n := N, E := 1, G := 0, slots := fun _ => {}, epc := .loadCur, gpc := .loadG 0,
    freed := [], allocd := [], wit := fun _ => [] }

def upd {α} (f : Nat → α) (t : Nat) (v : α) : Nat → α := fun i => if i = t then v else f i

/-- ghost: the sessions that may hold a pointer to `obj` obtained before it was unlinked -/
def witness (s : State) (obj : Nat) : List Nat := s.wit obj

def State.pc (s : State) (i : Nat) : WPc := (s.slots i).pc
def State.bg (s : State) (i : Nat) : Nat := (s.slots i).begin

/-- retired and not yet released objects of a slot, oldest first -/
def Slot.items (sl : Slot) : List (Nat × Nat) := sl.cache.toList ++ sl.queue
def State.items (s : State) (i : Nat) : List (Nat × Nat) := (s.slots i).items

def State.setSlot (s : State) (i : Nat) (sl : Slot) : State := { s with slots := upd s.slots i sl }

def activeSlots (s : State) : List Nat :=
  (List.range s.n).filter (fun j => decide (s.pc j = .active))

/-- the slot the gc thread visits after `j` -/
def nextSlot (s : State) (j : Nat) : Nat := if j + 1 < s.n then j + 1 else 0

inductive Event
  | claim (i : Nat)                 -- CAS running[i] false→true
  | loadE (i : Nat)                 -- e := load E
  | publish (i : Nat)               -- begin[i] := e
  | recheck (i : Nat)               -- (fixD3) e' := load E; e = e' ? active : retry
  | leaveBegin (i : Nat)            -- begin[i] := 0
  | leaveRunning (i : Nat)          -- running[i] := false
  | unlinkRetire (i obj : Nat)      -- unlink obj; push (begin[i], obj)
  | eLoadCur                        -- cur := load E
  | eCheck (j : Nat)                -- b := load begin[j]; b ≠ 0 ∧ b ≠ cur ? restart : next
  | eInc                            -- E.fetch_add(1)
  | eMinScan (j : Nat)              -- b := load begin[j]; b ≠ 0 → m := min m b
  | eSetG                           -- G := (m ≠ ∞ ? m - 1 : load E - 1)
  | gLoadG (j : Nat)                -- g := load G
  | gCache (j : Nat)                -- examine cache cell of slot j
  | gPop (j : Nat)                  -- pop queue head of slot j
deriving DecidableEq, Repr

/-- One transition; `none` = the event is not enabled in `s`. Doubles as a trace acceptor. -/
def step? (cfg : Cfg) (s : State) : Event → Option State
  | .claim i =>
    if i < s.n ∧ (s.slots i).running = false ∧ s.pc i = .idle then
      some (s.setSlot i { s.slots i with running := true, pc := .claimed })
    else none
  | .loadE i =>
    if i < s.n ∧ s.pc i = .claimed then
      some (s.setSlot i { s.slots i with pc := .loaded s.E })
    else none
  | .publish i =>
    match s.pc i with
    | .loaded e =>
      if i < s.n then
        some (s.setSlot i { s.slots i with
          begin := e, pc := if cfg.fixD3 then .published e else .active })
      else none
    | _ => none
  | .recheck i =>
    match s.pc i with
    | .published e =>
      if i < s.n then
        some (s.setSlot i { s.slots i with pc := if s.E = e then .active else .claimed })
      else none
    | _ => none
  | .leaveBegin i =>
    if i < s.n ∧ s.pc i = .active then
      some { s with
        slots := upd s.slots i { s.slots i with begin := 0, pc := .leaving }
        wit := fun o => (s.wit o).filter (fun j => decide (j ≠ i)) }
    else none
  | .leaveRunning i =>
    if i < s.n ∧ s.pc i = .leaving then
      some (s.setSlot i { s.slots i with running := false, pc := .idle })
    else none
  | .unlinkRetire i obj =>
    if i < s.n ∧ s.pc i = .active ∧ obj ∉ s.allocd then
      some { s with
        slots := upd s.slots i { s.slots i with queue := (s.slots i).queue ++ [(s.bg i, obj)] }
        allocd := obj :: s.allocd
        wit := upd s.wit obj (activeSlots s) }
    else none
  | .eLoadCur =>
    match s.epc with
    | .loadCur => some { s with epc := .check s.E 0 }
    | _ => none
  | .eCheck j =>
    match s.epc with
    | .check cur j' =>
      if j = j' ∧ j < s.n then
        if s.bg j ≠ 0 ∧ s.bg j ≠ cur then some { s with epc := .loadCur }
        else some { s with epc := .check cur (j + 1) }
      else none
    | _ => none
  | .eInc =>
    match s.epc with
    | .check _ j => if j = s.n then some { s with E := s.E + 1, epc := .minScan none 0 } else none
    | _ => none
  | .eMinScan j =>
    match s.epc with
    | .minScan m j' =>
      if j = j' ∧ j < s.n then
        if s.bg j ≠ 0 then
          some { s with epc := .minScan (some (match m with | none => s.bg j | some v => min v (s.bg j))) (j + 1) }
        else some { s with epc := .minScan m (j + 1) }
      else none
    | _ => none
  | .eSetG =>
    match s.epc with
    | .minScan m j =>
      if j = s.n then some { s with G := (match m with | none => s.E | some v => v) - 1, epc := .loadCur }
      else none
    | _ => none
  | .gLoadG j =>
    match s.gpc with
    | .loadG j' => if j = j' ∧ j < s.n then some { s with gpc := .cache j s.G } else none
    | _ => none
  | .gCache j =>
    match s.gpc with
    | .cache j' g =>
      if j = j' then
        match (s.slots j).cache with
        | none => some { s with gpc := .pop j g }
        | some (t, o) =>
          if g ≤ t then some { s with gpc := .loadG (nextSlot s j) }
          else some { s with
            slots := upd s.slots j { s.slots j with cache := none }
            freed := s.freed ++ [o]
            gpc := .pop j g }
      else none
    | _ => none
  | .gPop j =>
    match s.gpc with
    | .pop j' g =>
      if j = j' then
        match (s.slots j).queue with
        | [] => some { s with gpc := .loadG (nextSlot s j) }
        | (t, o) :: rest =>
          if g ≤ t then
            some { s with
              slots := upd s.slots j { s.slots j with queue := rest, cache := some (t, o) }
              gpc := .loadG (nextSlot s j) }
          else
            some { s with
              slots := upd s.slots j { s.slots j with queue := rest }
              freed := s.freed ++ [o] }
      else none
    | _ => none

inductive Reach (cfg : Cfg) (s0 : State) : State → Prop
  | refl : Reach cfg s0 s0
  | step {s s' e} : Reach cfg s0 s → step? cfg s e = some s' → Reach cfg s0 s'

/-- run a whole event list (trace acceptor) -/
def run (cfg : Cfg) : State → List Event → Option State
  | s, [] => some s
  | s, e :: es =>
    match step? cfg s e with
    | some s' => run cfg s' es
    | none => none

theorem Reach.trans {cfg} {a b c : State} (h1 : Reach cfg a b) (h2 : Reach cfg b c) :
    Reach cfg a c := by
  induction h2 with
  | refl => exact h1
  | step _ hs ih => exact Reach.step ih hs

theorem reach_of_run {cfg} : ∀ (evs : List Event) (s s' : State), run cfg s evs = some s' → Reach cfg s s'
  | [], s, s', h => by
    simp only [run, Option.some.injEq] at h
    subst h
    exact Reach.refl
  | e :: es, s, s', h => by
    simp only [run] at h
    cases hst : step? cfg s e with
    | none => rw [hst] at h; cases h
    | some s1 =>
      rw [hst] at h
      exact Reach.trans (Reach.step Reach.refl hst) (reach_of_run es s1 s' h)

end Yak.Proto.Epoch
