/-!
# `Ledger`: who owns every heap object of the library, from `new` to `delete`

Abstract model of the allocation and release sites of `/repo/include`. Objects are `Nat` ids
(fresh ids are never reused, so "freed twice" and "used after free" are expressible). Every
library-owned heap object is in exactly one *place*:

```
spec      allocated, not yet published (private to the allocating thread)
            interface_put.h   root creation: `new border_node` + `create_value`, before the root CAS
                              `create_value` right before `insert_lv` / `set_value` (lock held)
            border_helper.h   `new border_node` / `new interior_node` (split, new root of a layer)
            border_node.h     `new border_node` (new layer)
            interior_helper.h `new interior_node` (interior split, new root)
            storage_impl.h    create_storage: `new border_node` (root of the new storage)
linked    reachable from a storage root (incl. the storage roots and the directory tree)
retired   unlinked, waiting in a session's `garbage_collection` queue or cache slot
            border_node.h     delete_at: out-of-line value  -> push_value_container
                              emptied border                -> push_node_container
            interior_helper.h collapsed interior            -> push_node_container
            interface_put.h   overwritten out-of-line value -> push_value_container
cursors   `new iscan_context` (interface_iscan.h: iscan_open), owned by the caller until iscan_close
```

and leaves its place towards `freed` by exactly one of

```
discard       interface_put.h: root CAS lost -> `new_border->destroy(); delete new_border`
              storage_impl.h:  unique put of the directory entry failed -> `delete new_border`
              (the unique-restriction path of `put` returns *before* `create_value`: it allocates
               nothing, so there is nothing to discard)
gcFree        garbage_collection.h: gc_node / gc_value free queue heads older than the gc epoch
dropFree      storage_impl.h: delete_storage: `tables_root->destroy(); delete tables_root`
              interface_destroy.h: the same for every storage and for the directory tree
              (`destroy()` walks the tree and deletes each node/value directly; legal only when the
               caller owns the dropped tree exclusively)
destroy       interface_destroy.h: everything linked, at once
fin           interface_helper.h: destroy() (all linked), stop + join threads,
              thread_info_table::fin() -> garbage_collection::fin() (cache slot + queues: all retired)
closeCursor   interface_iscan.h: iscan_close: `delete context`
```

`live` is maintained *independently* of the places (insert on `new`, remove on `delete`); that it
always equals the union of the places is the theorem, not the definition.

Ghost components (not in the C++ state): `freed` (every id ever freed), `log` (the same, tagged with
the event kind that freed it) and `everRetired` (every id that ever entered a retire queue).

What is abstracted: which epoch a retired object carries (any retired object may be picked by
`gcFree`; the real gc frees a subset, later — the epoch condition is property C09/C10), the tree
shape (which objects form "a tree" is a parameter of the statements), threads (events of different
threads interleave arbitrarily; an operation in flight is visible as a non-empty `spec`).
`fin` requires `spec = []`: no operation is in flight (caller discipline of `fin()`).

No Mathlib; every component of the state is decidable data, `step?` is the executable acceptor.
-/
namespace Yak.Proto.Ledger

/-- which release site freed an object -/
inductive Cause
  | discard | gc | drop | destroy | finLinked | finRetired | close
deriving DecidableEq, Repr

structure State where
  live : List Nat        -- allocated, not yet freed
  linked : List Nat      -- reachable from some storage root
  retired : List Nat     -- unlinked, waiting in a gc queue / cache slot
  cursors : List Nat     -- open iscan contexts
  spec : List Nat        -- speculatively allocated, not yet published
  freed : List Nat       -- ghost: every id ever freed (newest first)
  next : Nat             -- next fresh id
  up : Bool              -- between init() and fin()
  log : List (Nat × Cause)   -- ghost: `freed`, tagged with the freeing event kind
  everRetired : List Nat     -- ghost: every id ever passed to push_*_container
deriving DecidableEq, Repr

/-- process start -/
def boot : State :=
  { live := [], linked := [], retired := [], cursors := [], spec := [], freed := [], next := 0,
    up := false, log := [], everRetired := [] }

inductive Event
  | init
  | alloc
  | publish (o : Nat)
  | discard (o : Nat)
  | unlinkRetire (o : Nat)
  | gcFree (o : Nat)
  | dropFree (o : Nat)
  | destroy
  | openCursor
  | closeCursor (o : Nat)
  | fin
deriving DecidableEq, Repr

/-- `delete` of the objects `os` for reason `c`: ghost bookkeeping only -/
def State.recordFree (s : State) (os : List Nat) (c : Cause) : State :=
  { s with freed := os ++ s.freed, log := os.map (fun o => (o, c)) ++ s.log }

def step? (s : State) : Event → Option State
  | .init =>
    if s.up = false then some { s with up := true } else none
  | .alloc =>
    if s.up = true then
      some { s with live := s.next :: s.live, spec := s.next :: s.spec, next := s.next + 1 }
    else none
  | .publish o =>
    if s.up = true ∧ o ∈ s.spec then
      some { s with spec := s.spec.erase o, linked := o :: s.linked }
    else none
  | .discard o =>
    if s.up = true ∧ o ∈ s.spec then
      some ({ s with spec := s.spec.erase o, live := s.live.erase o }.recordFree [o] .discard)
    else none
  | .unlinkRetire o =>
    if s.up = true ∧ o ∈ s.linked then
      some { s with linked := s.linked.erase o, retired := s.retired ++ [o],
                    everRetired := o :: s.everRetired }
    else none
  | .gcFree o =>
    if s.up = true ∧ o ∈ s.retired then
      some ({ s with retired := s.retired.erase o, live := s.live.erase o }.recordFree [o] .gc)
    else none
  | .dropFree o =>
    if s.up = true ∧ o ∈ s.linked then
      some ({ s with linked := s.linked.erase o, live := s.live.erase o }.recordFree [o] .drop)
    else none
  | .destroy =>
    if s.up = true then
      some ({ s with linked := [],
                     live := s.live.filter (fun o => decide (o ∉ s.linked)) }.recordFree
              s.linked .destroy)
    else none
  | .openCursor =>
    if s.up = true then
      some { s with live := s.next :: s.live, cursors := s.next :: s.cursors, next := s.next + 1 }
    else none
  | .closeCursor o =>
    -- `delete context` touches no library state: legal also after fin()
    if o ∈ s.cursors then
      some ({ s with cursors := s.cursors.erase o, live := s.live.erase o }.recordFree [o] .close)
    else none
  | .fin =>
    if s.up = true ∧ s.spec = [] then
      some (({ s with linked := [], retired := [], up := false,
                      live := s.live.filter (fun o => decide (o ∉ s.linked ∧ o ∉ s.retired)) }.recordFree
              s.linked .finLinked).recordFree s.retired .finRetired)
    else none

def exec : State → List Event → Option State
  | s, [] => some s
  | s, e :: es =>
    match step? s e with
    | some s' => exec s' es
    | none => none

def Step (s : State) (e : Event) (s' : State) : Prop := step? s e = some s'

inductive Reach : State → Prop
  | boot : Reach boot
  | step {s s' e} : Reach s → Step s e s' → Reach s'

/-- a cycle with nothing inside -/
def emptyCycle : List Event := [.init, .fin]

end Yak.Proto.Ledger
