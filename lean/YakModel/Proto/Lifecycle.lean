/-!
# `Lifecycle`: `init()` / `fin()` / `destroy()` and the two background threads

Abstract model of `/repo/include/interface_helper.h` (`init`, `fin`), `manager_thread.h`
(`epoch_thread`, `gc_thread`, the stop flags `kEpochThreadEnd` / `kGCThreadEnd`),
`interface_destroy.h` and `thread_info_table::init`.

```
init():  thread_info_table::init()          -- every slot: begin := 0, running := false
         invoke_epoch_thread()              -- [fix D4] kEpochThreadEnd := false; start thread
         invoke_gc_thread()                 -- [fix D4] kGCThreadEnd := false;    start thread
fin():   destroy()                          -- finBegin: storages := []
         set_epoch_thread_end(); set_gc_thread_end()   -- finBegin: both flags := true
         join both threads                  -- finEnd is enabled only when both have exited
         thread_info_table::fin()           -- finEnd: every slot's retire queue is drained
epoch thread, one iteration (epochIter): wait until no session lags (escaped when the stop flag
         is set, so sessions left open cannot block it; here: never blocked), epoch += 1,
         then `if (kEpochThreadEnd) break`
gc thread, one iteration (gcIter): reclaim what may be reclaimed (here: everything retired),
         then `if (kGCThreadEnd) break`
```

`fixD4 = false` is the code before the repair (the flags are never cleared), `fixD4 = true` the
repaired code. Sessions are abstracted to atomic `enter k` / `leave k` on slot `k` (the fine-grained
protocol is `Yak.Proto.Session`). `create`/`delete` of a storage enter a session of their own
(`storage_impl.h`: `while (status::OK != enter(token)) _mm_pause();`), hence need a free slot.
API calls are only made while the system is up and `fin()` has not started (caller discipline).

No Mathlib; every component of the state is decidable data, `step?` is the executable acceptor.
-/
namespace Yak.Proto.Lifecycle

abbrev Name := String

structure Cfg where
  /-- the repair of defect D4: `invoke_*_thread` reset the stop flags -/
  fixD4 : Bool
  /-- `YAKUSHIMA_MAX_PARALLEL_SESSIONS` -/
  nSlots : Nat
deriving DecidableEq, Repr

def cfgFixed (n : Nat) : Cfg := ⟨true, n⟩
def cfgD4 (n : Nat) : Cfg := ⟨false, n⟩

inductive ThreadSt
  | notStarted | running | exited
deriving DecidableEq, Repr

structure State where
  epochEnd : Bool                 -- kEpochThreadEnd
  gcEnd : Bool                    -- kGCThreadEnd
  epochThread : ThreadSt
  gcThread : ThreadSt
  slots : List (Bool × Nat)       -- (running, begin_epoch) of every session slot
  storages : List Name
  epoch : Nat
  retired : Nat                   -- retired but not yet reclaimed objects
  up : Bool                       -- between init() and the end of fin()
  finishing : Bool                -- inside fin(): flags set, waiting for the threads
  cycles : Nat                    -- ghost: completed init()…fin() cycles
deriving DecidableEq, Repr

def freeSlots (n : Nat) : List (Bool × Nat) := List.replicate n (false, 0)

/-- process start: static initialisers of the library -/
def boot (c : Cfg) : State :=
  { epochEnd := false, gcEnd := false, epochThread := .notStarted, gcThread := .notStarted,
    slots := freeSlots c.nSlots, storages := [], epoch := 1, retired := 0, up := false,
    finishing := false, cycles := 0 }

/-- the state right after the very first `init()` of the process -/
def firstUp (c : Cfg) : State :=
  { epochEnd := false, gcEnd := false, epochThread := .running, gcThread := .running,
    slots := freeSlots c.nSlots, storages := [], epoch := 1, retired := 0, up := true,
    finishing := false, cycles := 0 }

inductive Event
  | init
  | epochIter
  | gcIter
  | create (n : Name)
  | delete (n : Name)
  | enter (k : Nat)
  | leave (k : Nat)
  | retire
  | destroy
  | finBegin
  | finEnd
deriving DecidableEq, Repr

/-- API calls are legal while up and not inside fin() -/
def State.live (s : State) : Bool := s.up && !s.finishing

def State.hasFreeSlot (s : State) : Bool := s.slots.any (fun x => !x.1)

def step? (c : Cfg) (s : State) : Event → Option State
  | .init =>
    if s.up = false ∧ s.finishing = false then
      some { s with
        slots := freeSlots c.nSlots
        epochEnd := if c.fixD4 then false else s.epochEnd
        gcEnd := if c.fixD4 then false else s.gcEnd
        epochThread := .running
        gcThread := .running
        up := true }
    else none
  | .epochIter =>
    if s.epochThread = .running then
      some { s with epoch := s.epoch + 1
                    epochThread := if s.epochEnd then .exited else .running }
    else none
  | .gcIter =>
    if s.gcThread = .running then
      some { s with retired := 0
                    gcThread := if s.gcEnd then .exited else .running }
    else none
  | .create n =>
    if s.live = true ∧ s.hasFreeSlot = true then
      some { s with storages := if n ∈ s.storages then s.storages else n :: s.storages }
    else none
  | .delete n =>
    if s.live = true ∧ s.hasFreeSlot = true then
      some { s with storages := s.storages.erase n }
    else none
  | .enter k =>
    if s.live = true then
      match s.slots[k]? with
      | some (false, _) => some { s with slots := s.slots.set k (true, s.epoch) }
      | _ => none
    else none
  | .leave k =>
    if s.live = true then
      match s.slots[k]? with
      | some (true, _) => some { s with slots := s.slots.set k (false, 0) }
      | _ => none
    else none
  | .retire => if s.live = true then some { s with retired := s.retired + 1 } else none
  | .destroy => if s.live = true then some { s with storages := [] } else none
  | .finBegin =>
    if s.live = true then
      some { s with storages := [], epochEnd := true, gcEnd := true, finishing := true }
    else none
  | .finEnd =>
    if s.finishing = true ∧ s.epochThread = .exited ∧ s.gcThread = .exited then
      some { s with retired := 0, up := false, finishing := false, cycles := s.cycles + 1 }
    else none

def exec (c : Cfg) : State → List Event → Option State
  | s, [] => some s
  | s, e :: es =>
    match step? c s e with
    | some s' => exec c s' es
    | none => none

def Step (c : Cfg) (s : State) (e : Event) (s' : State) : Prop := step? c s e = some s'

inductive Reach (c : Cfg) : State → Prop
  | boot : Reach c (boot c)
  | step {s s' e} : Reach c s → Step c s e s' → Reach c s'

/-- one complete cycle with nothing inside -/
def emptyCycle : List Event := [.init, .finBegin, .epochIter, .gcIter, .finEnd]

end Yak.Proto.Lifecycle
