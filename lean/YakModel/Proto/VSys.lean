import YakModel.Version
/-!
# `VSys`: one `node_version64` shared by any number of threads

Every public mutator of `node_version64` is "load `expected`; loop { `desired := f expected`;
weak CAS }". A weak CAS either succeeds (the word equalled `expected`; it becomes `desired`) or
fails (spuriously or not) and reloads `expected`. `lock()` additionally re-reads while the loaded
word is locked. The events below are exactly the shared-memory accesses (`ld`, `cas+`, `cas-`) the
verification hooks report for the version word, plus the ghost event `stableRead` for a returning
`get_stable_version`.

Discipline assumed of callers (W4 in DESIGN.md, checked on real traces): `unlock`,
`set_inserting_deleting`, `set_splitting` are issued only by the current lock holder. `set_root`,
`set_border`, `set_deleted`, `atomic_inc_vinsert` may come from any thread (the code sets the root
flag of a sibling it has not locked).
-/
namespace Yak.Proto.VSys
open Yak.Version

inductive Op
  | lock | unlock | incV
  | setIns (tf : Bool) | setSplit (tf : Bool) | setDeleted (tf : Bool)
  | setRoot (tf : Bool) | setBorder (tf : Bool)
deriving DecidableEq, Repr

def Op.apply : Op → Body → Body
  | .lock, b => b.lock
  | .unlock, b => b.unlock
  | .incV, b => b.incVinsert
  | .setIns tf, b => b.setInserting tf
  | .setSplit tf, b => b.setSplitting tf
  | .setDeleted tf, b => b.setDeleted tf
  | .setRoot tf, b => b.setRoot tf
  | .setBorder tf, b => b.setBorder tf

/-- ops reserved to the lock holder -/
def Op.holderOnly : Op → Bool
  | .unlock | .setIns _ | .setSplit _ => true
  | _ => false

inductive Pc
  | idle
  | pending (op : Op) (exp : Body)   -- `expected` loaded, CAS not yet attempted
deriving DecidableEq, Repr

structure State where
  word : Body
  pc : Nat → Pc
  holds : Nat → Bool
  /-- ghost: completed insert-counter increments / split-counter increments -/
  nIns : Nat
  nSplit : Nat

def init (b0 : Body) : State := ⟨b0, fun _ => .idle, fun _ => false, 0, 0⟩

def upd {α} (f : Nat → α) (t : Nat) (v : α) : Nat → α := fun i => if i = t then v else f i

inductive Event
  | load (t : Nat) (op : Op)          -- first `get_body()` of a mutator
  | casOk (t : Nat)                   -- successful compare_exchange_weak
  | casFail (t : Nat)                 -- failed (possibly spuriously) compare_exchange_weak
  | stableRead (t : Nat) (b : Body)   -- get_stable_version returns b
deriving Repr

/-- ghost counter updates caused by applying `op` to `b` -/
def insDelta (op : Op) (b : Body) : Nat :=
  match op with
  | .unlock => if b.inserting then 1 else 0
  | .incV => 1
  | _ => 0
def splitDelta (op : Op) (b : Body) : Nat :=
  match op with
  | .unlock => if b.splitting then 1 else 0
  | _ => 0

inductive Step : State → Event → State → Prop
  /-- start a mutator: load `expected`. `lock()` only proceeds to its CAS when the loaded word is
      unlocked (otherwise it stays in its re-read loop: no state change). Holder-only ops need the
      lock. A thread that holds the lock does not call `lock()` again. -/
  | load (s : State) (t : Nat) (op : Op)
      (hidle : s.pc t = .idle)
      (hdisc : op.holderOnly = true → s.holds t = true)
      (hlock : op = .lock → s.word.locked = false ∧ s.holds t = false) :
      Step s (.load t op) { s with pc := upd s.pc t (.pending op s.word) }
  | casOk (s : State) (t : Nat) (op : Op) (exp : Body)
      (hpc : s.pc t = .pending op exp) (heq : s.word = exp) :
      Step s (.casOk t)
        { word := op.apply exp
          pc := upd s.pc t .idle
          holds := upd s.holds t (match op with | .lock => true | .unlock => false | _ => s.holds t)
          nIns := s.nIns + insDelta op exp
          nSplit := s.nSplit + splitDelta op exp }
  /-- failure reloads `expected`; `lock()` goes back to its outer re-read loop (modelled as idle) -/
  | casFail (s : State) (t : Nat) (op : Op) (exp : Body)
      (hpc : s.pc t = .pending op exp) :
      Step s (.casFail t)
        { s with pc := upd s.pc t (if op = .lock then .idle else .pending op s.word) }
  | stableRead (s : State) (t : Nat)
      (hst : s.word.stable = true) :
      Step s (.stableRead t s.word) s

inductive Reach (s0 : State) : State → Prop
  | refl : Reach s0 s0
  | step {s s' e} : Reach s0 s → Step s e s' → Reach s0 s'

end Yak.Proto.VSys
