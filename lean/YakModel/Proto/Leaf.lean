/-!
# `Leaf`: one border node under optimistic readers and locking writers

The protocol of `get` / `put` (upsert and unique) / `remove` on a single border node
(`interface_get.h`, `interface_put.h`, `interface_remove.h`, `border_node.h`), at the granularity
of single shared-memory accesses, any number of threads. No split (at most `cap` entries are ever
inserted; the split protocol is covered by `Chain`), out-of-line values (the kind that is cleared
on remove).

Shared state: the version word (`vins`, `locked`, `ins` — the split counter and flags play no role
on one node), the permutation (one atomic word: the slots in key order), per slot a key cell and a
value cell (`none` = the cleared pattern `kValPtrFlag`).

`cfg.fixD1 = true` is the repaired reader: a cleared value cell makes `get` re-fetch.
-/
namespace Yak.Proto.Leaf

abbrev Key := Nat
abbrev Val := Nat
abbrev Slot := Nat

structure Cfg where
  fixD1 : Bool := true
  cap : Nat := 15
deriving DecidableEq, Repr

def cfgFixed : Cfg := {}
def cfgD1 : Cfg := { fixD1 := false }

structure Ver where
  vins : Nat
  locked : Bool
  ins : Bool
deriving DecidableEq, Repr

def Ver.stable (v : Ver) : Bool := !v.locked && !v.ins

inductive OpKind
  | get (k : Key)
  | put (k : Key) (v : Val) (unique : Bool)
  | remove (k : Key)
deriving DecidableEq, Repr

inductive Res
  | ok (v : Option Val)        -- get: the value; put/remove: `none`
  | notExist                   -- get miss (WARN_NOT_EXIST)
  | notFound                   -- remove miss (OK_NOT_FOUND)
  | uniqueRestriction
deriving DecidableEq, Repr

/-- program counter of a thread inside an operation. `v1` = stable version at fetch
    (`v_at_fetch_lv`), `p` = permutation snapshot, `hit` = slot found by the lookup over `p`. -/
inductive Pc
  | idle
  | start (op : OpKind)                                   -- invoked, nothing read yet
  | haveV (op : OpKind) (v1 : Nat)                        -- stable version read
  | haveP (op : OpKind) (v1 : Nat) (p : List Slot)        -- permutation read
  | looked (op : OpKind) (v1 : Nat) (hit : Option Slot)   -- key cells read, lookup done
  | valid (op : OpKind) (v1 : Nat) (hit : Option Slot)    -- second stable version equal to v1
  | gotVal (op : OpKind) (v1 : Nat) (x : Option Val)      -- (get) value cell loaded
  | locked (op : OpKind) (hit : Option Slot)              -- (writers) lock taken, counters validated
  | relooked (op : OpKind) (hit : Option Slot)            -- (writers) re-lookup under the lock done
  | insFlag (op : OpKind)                                 -- (insert) inserting flag set
  | keyed (op : OpKind) (s : Slot)                        -- (insert) key cell written
  | valued (op : OpKind) (s : Slot)                       -- (insert) value cell written
  | published (op : OpKind) (r : Res)                     -- permutation / value published; unlock next
  | cleared (op : OpKind) (s : Slot)                      -- (remove) value cell cleared
  | done (op : OpKind) (r : Res)                          -- unlocked (or nothing to unlock): return next
deriving DecidableEq, Repr

structure State where
  ver : Ver
  perm : List Slot
  keys : Slot → Option Key
  vals : Slot → Option Val
  pc : Nat → Pc
  /-- ghost: logical clock, bumped by every step -/
  now : Nat
  /-- ghost: completed operations `(thread, op, result, invoked at, returned at)` -/
  hist : List (Nat × OpKind × Res × Nat × Nat)
  /-- ghost: invocation time of the operation each thread is running -/
  inv : Nat → Nat
  /-- ghost: threads that are inside an operation -/
  running : List Nat

def init : State :=
  ⟨⟨0, false, false⟩, [], fun _ => none, fun _ => none, fun _ => .idle, 0, [], fun _ => 0, []⟩

def upd {α} (f : Nat → α) (t : Nat) (v : α) : Nat → α := fun i => if i = t then v else f i

/-- the abstract map the node denotes: a key is bound iff one of the listed slots holds it with a
    value that is not the cleared pattern. -/
def lookupIn (keys : Slot → Option Key) (p : List Slot) (k : Key) : Option Slot :=
  p.find? (fun s => keys s == some k)

def abs (s : State) (k : Key) : Option Val :=
  match lookupIn s.keys s.perm k with
  | some sl => s.vals sl
  | none => none

def freeSlot (s : State) (cap : Nat) : Option Slot :=
  (List.range cap).find? (fun i => !s.perm.contains i)

def opKey : OpKind → Key
  | .get k => k | .put k _ _ => k | .remove k => k

/-- insertion position keeping the permutation sorted by key -/
def insertSorted (keys : Slot → Option Key) (p : List Slot) (sl : Slot) (k : Key) : List Slot :=
  let (a, b) := p.span (fun s => match keys s with | some k' => k' < k | none => true)
  a ++ sl :: b

inductive Event
  | invoke (t : Nat) (op : OpKind)
  | ldVer (t : Nat)            -- get_stable_version (enabled only when the word is stable)
  | ldPerm (t : Nat)
  | ldKeys (t : Nat)           -- the key cells of the snapshot (one step: cells of listed slots
                               -- can only change under an insert, which the counters expose)
  | ldVer2 (t : Nat)           -- second stable version of get_lv_of: equal → go on, else refetch
  | ldVal (t : Nat)
  | ldVer3 (t : Nat)           -- final check of get / not-found check of remove
  | lock (t : Nat)             -- successful lock CAS followed by the counter re-validation
  | relook (t : Nat)           -- get_lv_of_without_lock
  | setIns (t : Nat)
  | stKey (t : Nat)
  | stVal (t : Nat)
  | stPerm (t : Nat)
  | clearVal (t : Nat)
  | unlock (t : Nat)
  | ret (t : Nat)
deriving DecidableEq, Repr

/-- one step; `none` = not enabled. -/
def step? (c : Cfg) (s : State) (e : Event) : Option State :=
  let tick (s' : State) : State := { s' with now := s.now + 1 }
  match e with
  | .invoke t op =>
    match s.pc t with
    | .idle => some (tick { s with pc := upd s.pc t (.start op), inv := upd s.inv t s.now, running := t :: s.running })
    | _ => none
  | .ldVer t =>
    match s.pc t with
    | .start op => if s.ver.stable then some (tick { s with pc := upd s.pc t (.haveV op s.ver.vins) }) else none
    | _ => none
  | .ldPerm t =>
    match s.pc t with
    | .haveV op v1 => some (tick { s with pc := upd s.pc t (.haveP op v1 s.perm) })
    | _ => none
  | .ldKeys t =>
    match s.pc t with
    | .haveP op v1 p => some (tick { s with pc := upd s.pc t (.looked op v1 (lookupIn s.keys p (opKey op))) })
    | _ => none
  | .ldVer2 t =>
    match s.pc t with
    | .looked op v1 hit =>
      if !s.ver.stable then none
      else if s.ver.vins == v1 then some (tick { s with pc := upd s.pc t (.valid op v1 hit) })
      else some (tick { s with pc := upd s.pc t (.haveV op s.ver.vins) })      -- `v = v_check`, loop
    | _ => none
  | .ldVal t =>
    match s.pc t with
    | .valid (.get k) v1 (some sl) =>
      -- repaired reader: a cleared cell (concurrent remove) makes it re-fetch at once
      if c.fixD1 && (s.vals sl).isNone then some (tick { s with pc := upd s.pc t (.start (.get k)) })
      else some (tick { s with pc := upd s.pc t (.gotVal (.get k) v1 (s.vals sl)) })
    | _ => none
  | .ldVer3 t =>
    match s.pc t with
    -- get, miss: answered from the validated lookup (no further check in the code)
    | .valid (.get k) _ none => some (tick { s with pc := upd s.pc t (.done (.get k) .notExist) })
    -- get, hit: final check
    | .gotVal (.get k) v1 x =>
      if !s.ver.stable then none
      else if s.ver.vins != v1 then some (tick { s with pc := upd s.pc t (.start (.get k)) })
      else some (tick { s with pc := upd s.pc t (.done (.get k) (.ok x)) })
    -- remove, miss: final check that no insert completed
    | .valid (.remove k) v1 none =>
      if !s.ver.stable then none
      else if s.ver.vins != v1 then some (tick { s with pc := upd s.pc t (.start (.remove k)) })
      else some (tick { s with pc := upd s.pc t (.done (.remove k) .notFound) })
    -- unique put on a present key answers without locking
    | .valid (.put k v true) _ (some _) =>
      some (tick { s with pc := upd s.pc t (.done (.put k v true) .uniqueRestriction) })
    | _ => none
  | .lock t =>
    match s.pc t with
    | .valid op v1 hit =>
      let wants := match op, hit with
        | .put _ _ true, some _ => false
        | .put _ _ _, _ => true
        | .remove _, some _ => true
        | _, _ => false
      if !wants || s.ver.locked then none
      else if s.ver.vins != v1 then
        -- lock, see the counter moved, unlock, refetch: net effect is a refetch
        some (tick { s with pc := upd s.pc t (.start op) })
      else some (tick { s with ver := { s.ver with locked := true }, pc := upd s.pc t (.locked op hit) })
    | _ => none
  | .relook t =>
    match s.pc t with
    -- only the hit paths look again (removes are not tracked by the counters)
    | .locked op (some _) => some (tick { s with pc := upd s.pc t (.relooked op (lookupIn s.keys s.perm (opKey op))) })
    | _ => none
  | .setIns t =>
    match s.pc t with
    -- the miss path inserts straight after the counter validation
    | .locked (.put k v u) none =>
      if s.perm.length < c.cap then
        some (tick { s with ver := { s.ver with ins := true }, pc := upd s.pc t (.insFlag (.put k v u)) })
      else none
    | _ => none
  | .stKey t =>
    match s.pc t with
    | .insFlag (.put k v u) =>
      match freeSlot s c.cap with
      | some sl => some (tick { s with keys := upd s.keys sl (some k), pc := upd s.pc t (.keyed (.put k v u) sl) })
      | none => none
    | _ => none
  | .stVal t =>
    match s.pc t with
    | .keyed (.put k v u) sl =>
      some (tick { s with vals := upd s.vals sl (some v), pc := upd s.pc t (.valued (.put k v u) sl) })
    -- update of an existing key: one store of the value word
    | .relooked (.put k v false) (some sl) =>
      some (tick { s with vals := upd s.vals sl (some v), pc := upd s.pc t (.published (.put k v false) (.ok none)) })
    | _ => none
  | .stPerm t =>
    match s.pc t with
    | .valued (.put k v u) sl =>
      some (tick { s with perm := insertSorted s.keys s.perm sl k, pc := upd s.pc t (.published (.put k v u) (.ok none)) })
    | .cleared (.remove k) sl =>
      some (tick { s with perm := s.perm.filter (· != sl), pc := upd s.pc t (.published (.remove k) (.ok none)) })
    | _ => none
  | .clearVal t =>
    match s.pc t with
    | .relooked (.remove k) (some sl) =>
      some (tick { s with vals := upd s.vals sl none, pc := upd s.pc t (.cleared (.remove k) sl) })
    | _ => none
  | .unlock t =>
    match s.pc t with
    | .published op r =>
      some (tick { s with ver := { vins := if s.ver.ins then s.ver.vins + 1 else s.ver.vins, locked := false, ins := false },
                           pc := upd s.pc t (.done op r) })
    -- nothing to do after the re-lookup: a put that lost its key retries, a remove reports not found
    | .relooked (.remove k) none =>
      some (tick { s with ver := { s.ver with locked := false }, pc := upd s.pc t (.done (.remove k) .notFound) })
    -- an upsert whose key was removed meanwhile: unlock and fetch again
    | .relooked (.put k v false) none =>
      some (tick { s with ver := { s.ver with locked := false }, pc := upd s.pc t (.start (.put k v false)) })
    | _ => none
  | .ret t =>
    match s.pc t with
    | .done op r =>
      some (tick { s with pc := upd s.pc t .idle, hist := s.hist ++ [(t, op, r, s.inv t, s.now)],
                           running := s.running.filter (· != t) })
    | _ => none

inductive Reach (c : Cfg) : State → Prop
  | init : Reach c init
  | step {s s' e} : Reach c s → step? c s e = some s' → Reach c s'

/-- run a list of events (trace acceptor) -/
def exec (c : Cfg) : State → List Event → Option State
  | s, [] => some s
  | s, e :: es => (step? c s e).bind (fun s' => exec c s' es)

end Yak.Proto.Leaf
