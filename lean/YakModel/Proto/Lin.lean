import YakModel.Proto.Leaf
/-!
# Linearizability of `Leaf` histories against the map specification

A history is the list of completed operations (with logical invocation / response times) plus the
operations still pending. It is linearizable when the completed operations, together with some of
the pending ones (each given a result), can be put in a total order that respects real-time
precedence and replays correctly on a sequential map (standard definition, Herlihy & Wing).
-/
namespace Yak.Proto.Leaf

abbrev Spec := Key → Option Val

/-- the sequential map: what each operation answers and how it changes the map -/
def specStep (m : Spec) : OpKind → Spec × Res
  | .get k => (m, match m k with | some v => .ok (some v) | none => .notExist)
  | .put k v uniq =>
    if uniq && (m k).isSome then (m, .uniqueRestriction)
    else (fun k' => if k' = k then some v else m k', .ok none)
  | .remove k =>
    if (m k).isSome then (fun k' => if k' = k then none else m k', .ok none) else (m, .notFound)

structure Rec where
  t : Nat
  op : OpKind
  res : Res
  inv : Nat
  ret : Option Nat      -- `none`: still pending (its effect may or may not have happened)
deriving DecidableEq, Repr

def replay : Spec → List Rec → Prop
  | _, [] => True
  | m, r :: rs => (specStep m r.op).2 = r.res ∧ replay (specStep m r.op).1 rs

/-- `a` must come before `b` if `a` returned before `b` was invoked -/
def precedes (a b : Rec) : Prop := match a.ret with | some ra => ra < b.inv | none => False

def completedOf (s : State) : List Rec := s.hist.map (fun (t, op, r, i, j) => ⟨t, op, r, i, some j⟩)

/-- a pending operation of thread `t`, with whatever result it will have -/
def IsPendingRec (s : State) (r : Rec) : Prop :=
  r.t ∈ s.running ∧ r.ret = none ∧ r.inv = s.inv r.t ∧
  (match s.pc r.t with
    | .idle => False
    | .start op | .haveV op _ | .haveP op _ _ | .looked op _ _ | .valid op _ _ | .gotVal op _ _
    | .locked op _ | .relooked op _ | .insFlag op | .keyed op _ | .valued op _ | .published op _
    | .cleared op _ | .done op _ => r.op = op)

def Linearizable (s : State) : Prop :=
  ∃ (extra l : List Rec),
    (∀ r ∈ extra, IsPendingRec s r) ∧ (extra.map (·.t)).Nodup ∧
    l.Perm (completedOf s ++ extra) ∧
    l.Pairwise (fun a b => ¬ precedes b a) ∧
    replay (fun _ => none) l

end Yak.Proto.Leaf
