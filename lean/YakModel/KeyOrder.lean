import YakModel.Generated.Constants
/-!
# Key slices, key tuples and every hand-written comparison site

`Key = List UInt8`. A key tuple `KT` is what a node stores per entry: an 8-byte slice (bytes in
memory order, zero padded) and a length `0..8`, or `9` = "the key continues in the next layer".
Each comparison site of the C++ is its own function here, written with the same `memcmp`
length and the same order of tests.
-/
namespace Yak

abbrev Key := List UInt8

/-- `memcmp(a, b, n)` on byte lists (missing bytes read as 0; callers keep `n` in range). -/
def memcmp : List UInt8 → List UInt8 → Nat → Int
  | _, _, 0 => 0
  | a, b, n + 1 =>
    let x := a.headD 0
    let y := b.headD 0
    if x < y then -1 else if x > y then 1 else memcmp a.tail b.tail n

/-- strict lexicographic order on byte strings, proper prefix first (the specification order). -/
def lexLt : List UInt8 → List UInt8 → Bool
  | [], [] => false
  | [], _ :: _ => true
  | _ :: _, [] => false
  | x :: xs, y :: ys => if x < y then true else if x > y then false else lexLt xs ys

/-- zero-pad / truncate to exactly `n` bytes. -/
def padTo (n : Nat) (l : List UInt8) : List UInt8 := (l.take n) ++ List.replicate (n - l.length) 0

structure KT where
  slice : List UInt8   -- 8 bytes, memory order
  len : Nat            -- 0..8 terminal, 9 link
deriving DecidableEq, Repr, Inhabited, BEq

namespace KT

/-- `key_tuple(std::string_view)` and the identical slicing code in put/get/remove. -/
def ofKey (k : Key) : KT :=
  if k.length > 8 then ⟨k.take 8, 9⟩ else ⟨padTo 8 k, k.length⟩

def min : KT := ⟨List.replicate 8 0, 0⟩
def max : KT := ⟨List.replicate 8 255, 9⟩

/-- the key bytes this tuple contributes to a full key. -/
def bytes (a : KT) : List UInt8 := a.slice.take (Nat.min a.len 8)

def isLink (a : KT) : Bool := a.len > 8

/-- well-formedness: 8 slice bytes, length at most 9, zero padding after a terminal key. -/
def WF (a : KT) : Prop := a.slice.length = 8 ∧ a.len ≤ 9 ∧ a.slice.drop a.len = List.replicate (8 - a.len) 0

instance (a : KT) : Decidable a.WF := by unfold WF; infer_instance

/-- the object representation `memcmp(&key_slice_, …, n)` reads: 8 slice bytes then the length
    byte (n can be 9 when both lengths are 9). -/
def repr9 (a : KT) : List UInt8 := a.slice ++ [UInt8.ofNat a.len]

/-- `key_tuple::operator<`. -/
def lt (l r : KT) : Bool :=
  if r.len == 0 then false
  else if l.len == 0 then true
  else
    let ret := memcmp l.repr9 r.repr9 (if l.len < r.len then l.len else r.len)
    if ret < 0 then true
    else if ret == 0 then l.len < r.len
    else false

def gt (l r : KT) : Bool := lt r l
def ge (l r : KT) : Bool := !lt l r
def le (l r : KT) : Bool := !gt l r

/-- the specification order on tuples: compare the contributed bytes, then the length
    (so `(s,8)` sorts before the link `(s,9)`). -/
def ltSpec (a b : KT) : Bool :=
  lexLt a.bytes b.bytes || (a.bytes == b.bytes && a.len < b.len)

end KT

/-- result of the per-entry test in `get_lv_of` / `get_lv_of_without_lock`. -/
inductive LeafCmp | hit | stop | next
deriving DecidableEq, Repr

/-- one iteration of the lookup loop of `border_node::get_lv_of` for search key `(ks,kl)`
    against the stored `(ts,tl)`. -/
def leafProbe (k t : KT) : LeafCmp :=
  if k.len == 0 && t.len == 0 then .hit
  else
    let ret := memcmp k.slice t.slice 8
    if ret == 0 then
      if (k.len > 8 && t.len > 8) || k.len == t.len then .hit
      else if k.len < t.len then .stop
      else .next
    else if ret < 0 then .stop
    else .next

/-- `get_lv_of` over the entries in rank order: index (rank) of the hit, if any. -/
def leafLookup (k : KT) : List KT → Option Nat
  | [] => none
  | t :: ts =>
    match leafProbe k t with
    | .hit => some 0
    | .stop => none
    | .next => (leafLookup k ts).map (· + 1)

/-- `get_lv_of_without_lock`: same tests but a hit does not end the loop (the last hit wins). -/
def leafLookupNoBreak (k : KT) (ents : List KT) : Option Nat :=
  let rec go : List KT → Nat → Option Nat → Option Nat
    | [], _, acc => acc
    | t :: ts, i, acc =>
      match leafProbe k t with
      | .hit => go ts (i + 1) (some i)
      | .stop => acc
      | .next => go ts (i + 1) acc
  go ents 0 none

/-- `compute_rank_if_insert` (precondition: the key is not in the node). The two "unexpected
    path" branches return 0 as the C++ does. -/
def rankIfInsert (k : KT) (ents : List KT) : Nat :=
  let rec go : List KT → Nat → Nat
    | [], i => i
    | t :: ts, i =>
      if k.len == 0 && t.len == 0 then 0
      else
        let ret := memcmp k.slice t.slice 8
        if ret == 0 then
          if (k.len > 8 && t.len > 8) || k.len == t.len then 0
          else if k.len < t.len then i
          else go ts (i + 1)
        else if ret < 0 then i
        else go ts (i + 1)
  go ents 0

/-- the per-separator test of `interior_node::get_child_of`: go left of separator `t`? -/
def routeLeft (k t : KT) : Bool :=
  let comp := if k.len < t.len then k.len else t.len
  let ret := memcmp k.slice t.slice (if comp > 8 then 8 else comp)
  ret < 0 || (ret == 0 && k.len < t.len)

/-- `get_child_of`: index of the chosen child among `keys.length + 1` children. -/
def routeIdx (k : KT) : List KT → Nat
  | [] => 0
  | t :: ts => if routeLeft k t then 0 else routeIdx k ts + 1

/-- the per-separator test of `interior_node::insert` and of the side decision in
    `interior_split` (both-links special case: compare 8 bytes). -/
def interiorLess (k t : KT) : Bool :=
  let comp := if k.len > 8 && t.len > 8 then 8 else (if k.len < t.len then k.len else t.len)
  let ret := memcmp k.slice t.slice comp
  ret < 0 || (ret == 0 && k.len < t.len)

/-- `interior_node::insert`: position at which the new separator is placed. -/
def interiorInsertPos (k : KT) : List KT → Nat
  | [] => 0
  | t :: ts => if interiorLess k t then 0 else interiorInsertPos k ts + 1

/-- side decision of `border_split`: does the new key go to the lower (old) node?
    `first` is the first key of the new right node, `rank` the rank computed before the split,
    `remaining` the number of entries kept on the left. -/
def borderSplitLower (k first : KT) (rank remaining : Nat) : Bool :=
  let n := Nat.min (Nat.min k.len first.len) 8
  let ret := memcmp k.slice first.slice n
  k.len == 0 || ret < 0 || (ret == 0 && k.len < first.len) || (ret == 0 && rank < remaining)

/-- insertion sort by `KT.lt` on (tuple, index) pairs — the order `std::sort` in `rearrange`
    produces on distinct tuples (tuple compare: first component, then index). -/
def pairLt (a b : KT × Nat) : Bool :=
  KT.lt a.1 b.1 || (!(KT.lt b.1 a.1) && a.2 < b.2)

def insertSorted (x : KT × Nat) : List (KT × Nat) → List (KT × Nat)
  | [] => [x]
  | y :: ys => if pairLt x y then x :: y :: ys else y :: insertSorted x ys

def sortPairs (l : List (KT × Nat)) : List (KT × Nat) := l.foldr insertSorted []

/-- `permutation::rearrange`: slots `0..n-1` hold `ents`; result = slot indices in key order. -/
def rearrangeOrder (ents : List KT) : List Nat :=
  (sortPairs (ents.zipIdx)).map (·.2)

/-! ### full keys through layers -/

/-- the sequence of tuples a key visits, one per layer. -/
def chunks (k : Key) : List KT :=
  if h : k.length > 8 then KT.ofKey k :: chunks (k.drop 8) else [KT.ofKey k]
termination_by k.length
decreasing_by
  have : (List.drop 8 k).length = k.length - 8 := List.length_drop
  omega

/-- layered comparison of two keys: compare tuple by tuple (what the tree does). -/
def layeredLt (a b : Key) : Bool :=
  let rec go : List KT → List KT → Bool
    | [], _ => false
    | _, [] => false
    | x :: xs, y :: ys => if KT.lt x y then true else if KT.lt y x then false else go xs ys
  go (chunks a) (chunks b)

end Yak
