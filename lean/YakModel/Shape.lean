import YakModel.Tree
import YakModel.Util
/-!
# The implementation's structure dump as a Lean value

`seqdrv`'s walker prints every layer's B+-tree in pre-order. `BTree` is that tree (with interior
nodes); `chainOf` flattens it into the fenced leaf chain the model works on, computing each leaf's
lower fence from the separators on its path exactly as routing would; `checkLayer` is the
executable well-formedness predicate (C08) evaluated on the *implementation's* dump; `memUsage` is
`mem_usage` computed from the dump (C20).
-/
namespace Yak.Shape
open Yak Yak.Tree Yak.Util

/-- a dumped value: length, FNV-1a hash of the bytes, alignment of the block -/
structure DVal where
  len : Nat
  hash : Nat
  align : Nat
deriving DecidableEq, Repr, Inhabited

structure DEnt where
  kt : KT
  val : Option DVal     -- none = link
deriving DecidableEq, Repr, Inhabited

structure DVer where
  vins : Nat
  vsplit : Nat
  flags : Nat           -- locked 1, inserting 2, splitting 4, deleted 8, root 16, border 32
deriving DecidableEq, Repr, Inhabited

inductive BTree
  | border (v : DVer) (ents : List DEnt)
  | interior (v : DVer) (keys : List KT) (children : List BTree)
deriving Repr, Inhabited

/-! ### parsing the pre-order token stream -/

def parseKT? (s : String) : Option KT :=
  match s.splitOn "/" with
  | [h, l] => do
    let bs ← hexBytes? h
    let n ← l.toNat?
    if bs.length == 8 then some ⟨bs, n⟩ else none
  | _ => none

def parseEnts : Nat → List String → Option (List DEnt × List String)
  | 0, ts => some ([], ts)
  | n + 1, k :: "L" :: ts => do
    let kt ← parseKT? k
    let (es, r) ← parseEnts n ts
    some (⟨kt, none⟩ :: es, r)
  | n + 1, k :: "V" :: len :: h :: al :: ts => do
    let kt ← parseKT? k
    let len ← len.toNat?
    let h ← hexToNat? h
    let al ← al.toNat?
    let (es, r) ← parseEnts n ts
    some (⟨kt, some ⟨len, h, al⟩⟩ :: es, r)
  | _, _ => none

def parseKTs : Nat → List String → Option (List KT × List String)
  | 0, ts => some ([], ts)
  | n + 1, k :: ts => do
    let kt ← parseKT? k
    let (ks, r) ← parseKTs n ts
    some (kt :: ks, r)
  | _, _ => none

mutual
/-- `fuel` bounds the recursion (the token count suffices). -/
def parseNode : Nat → List String → Option (BTree × List String)
  | 0, _ => none
  | fuel + 1, "B" :: vi :: vs :: fl :: n :: ts => do
    let vi ← vi.toNat?; let vs ← vs.toNat?; let fl ← fl.toNat?; let n ← n.toNat?
    let (es, r) ← parseEnts n ts
    some (.border ⟨vi, vs, fl⟩ es, r)
  | fuel + 1, "I" :: vi :: vs :: fl :: n :: ts => do
    let vi ← vi.toNat?; let vs ← vs.toNat?; let fl ← fl.toNat?; let n ← n.toNat?
    let (ks, r) ← parseKTs n ts
    let (cs, r2) ← parseChildren fuel (n + 1) r
    some (.interior ⟨vi, vs, fl⟩ ks cs, r2)
  | _, _ => none

def parseChildren : Nat → Nat → List String → Option (List BTree × List String)
  | 0, _, _ => none
  | _ + 1, 0, ts => some ([], ts)
  | fuel + 1, n + 1, ts => do
    let (c, r) ← parseNode fuel ts
    let (cs, r2) ← parseChildren fuel n r
    some (c :: cs, r2)
end

/-- one `Y <prefix> <tokens>` line -/
def parseLayerLine (ws : List String) : Option (List UInt8 × BTree) :=
  match ws with
  | "Y" :: p :: ts => do
    let pfx ← hexBytes? p
    let (t, rest) ← parseNode (ts.length + 1) ts
    if rest.isEmpty then some (pfx, t) else none
  | _ => none

/-! ### flattening to the fenced chain -/

structure DLeaf where
  fence : Option KT
  v : DVer
  ents : List DEnt
deriving DecidableEq, Repr, Inhabited

mutual
def chainOf : BTree → Option KT → List DLeaf
  | .border v ents, lo => [⟨lo, v, ents⟩]
  | .interior _ keys children, lo => chainOfChildren children keys lo

/-- child `0` inherits the lower bound; child `i+1` starts at separator `i`. -/
def chainOfChildren : List BTree → List KT → Option KT → List DLeaf
  | [], _, _ => []
  | c :: cs, keys, lo => chainOf c lo ++ chainOfChildren cs keys.tail (keys.head?)
end

/-! ### well-formedness of a dumped layer (C08) -/

def ktLt (a b : KT) : Bool := KT.lt a b

def sortedKTs : List KT → Bool
  | [] => true
  | [_] => true
  | a :: b :: rest => ktLt a b && sortedKTs (b :: rest)

def entWF (e : DEnt) : Bool :=
  decide e.kt.WF && (match e.val with | none => e.kt.len == 9 | some _ => e.kt.len ≤ 8)

/-- every leaf: entries strictly increasing, well-formed, at or above its fence and below the next
    leaf's fence; fences strictly increasing; no lock/dirty bit; non-root leaves non-empty. -/
def checkChain (pfxEmpty : Bool) : List DLeaf → Bool
  | [] => false
  | leaves =>
    let n := leaves.length
    let pairs := leaves.zip (leaves.tail.map (·.fence) ++ [none])
    pairs.all fun (l, hi) =>
      sortedKTs (l.ents.map (·.kt)) &&
      l.ents.all entWF &&
      (l.v.flags % 8 == 0) &&
      (match l.fence with
        | none => true
        | some f => l.ents.all (fun e => !ktLt e.kt f) && decide f.WF && f.len != 0) &&
      (match hi with
        | none => true
        | some h => l.ents.all (fun e => ktLt e.kt h) &&
                    (match l.fence with | some f => ktLt f h | none => true)) &&
      ((n == 1 && pfxEmpty) || !l.ents.isEmpty) &&
      -- deleted only on the kept empty root of layer 0
      ((l.v.flags / 8) % 2 == 0 || (n == 1 && pfxEmpty && l.ents.isEmpty)) &&
      -- root flag iff the leaf is the layer root
      (((l.v.flags / 16) % 2 == 1) == (n == 1))

mutual
/-- interior nodes: 1..15 separators, strictly increasing, one more child than separators. -/
def checkInteriors : BTree → Bool
  | .border _ ents => ents.length ≤ 15
  | .interior v keys children =>
    1 ≤ keys.length && keys.length ≤ 15 && children.length == keys.length + 1 &&
    sortedKTs keys && keys.all (fun k => decide k.WF && k.len != 0) && (v.flags % 16 == 0) &&
    checkInteriorsList children
def checkInteriorsList : List BTree → Bool
  | [] => true
  | c :: cs => checkInteriors c && checkInteriorsList cs
end

def checkLayer (pfx : List UInt8) (t : BTree) : Bool :=
  checkInteriors t && checkChain pfx.isEmpty (chainOf t none)

/-- links and layers agree: every link entry has its layer, every non-root layer has its link. -/
def checkLinks (layers : List (List UInt8 × BTree)) : Bool :=
  let pfxs := layers.map (·.1)
  let linkTargets := layers.flatMap fun (p, t) =>
    (chainOf t none).flatMap fun l => l.ents.filterMap fun e =>
      match e.val with | none => some (p ++ e.kt.slice) | some _ => none
  linkTargets.all (fun q => pfxs.contains q) &&
  pfxs.all (fun p => p.isEmpty || linkTargets.contains p) &&
  pfxs.eraseDups.length == pfxs.length && linkTargets.eraseDups.length == linkTargets.length

/-! ### `mem_usage` from the dump (C20) -/

structure MemRow where
  count : Nat
  used : Nat
  reserved : Nat
deriving DecidableEq, Repr, Inhabited

def addAt (rows : List MemRow) (lvl : Nat) (c u r : Nat) : List MemRow :=
  let rows := if rows.length ≤ lvl then rows ++ List.replicate (lvl + 1 - rows.length) ⟨0, 0, 0⟩ else rows
  rows.modify lvl (fun x => ⟨x.count + c, x.used + u, x.reserved + r⟩)

/-- effect of one node (without its children) on the per-level table; returns the levels at which
    next layers hang (for border nodes). -/
def memBorder (rows : List MemRow) (lvl : Nat) (ents : List DEnt) : List MemRow :=
  let cnk := ents.length
  let rows := addAt rows lvl 1
    (Yak.Const.sizeofBorder - (Yak.Const.keySliceLength - cnk) * Yak.Const.sizeofLinkOrValue)
    Yak.Const.sizeofBorder
  ents.foldl (fun rows e =>
    match e.val with
    | some v => let sz := v.len + v.align; addAt rows lvl 0 sz sz
    | none => rows) rows

mutual
/-- `mem_usage(level, stat)` over one layer's B+-tree. Next layers are not entered here: their
    (slice, level) pairs are collected in the second component, in order. -/
def memNode : BTree → Nat → List MemRow × List (List UInt8 × Nat) → List MemRow × List (List UInt8 × Nat)
  | .border _ ents, lvl, (rows, links) =>
    (memBorder rows lvl ents,
     links ++ ents.filterMap (fun e => match e.val with | none => some (e.kt.slice, lvl + 1) | some _ => none))
  | .interior _ keys children, lvl, (rows, links) =>
    let n := keys.length + 1
    let rows := addAt rows lvl 1
      (Yak.Const.sizeofInterior - (Yak.Const.keySliceLength + 1 - n) * Yak.Const.sizeofUintptr)
      Yak.Const.sizeofInterior
    memChildren children (lvl + 1) (rows, links)

def memChildren : List BTree → Nat → List MemRow × List (List UInt8 × Nat) → List MemRow × List (List UInt8 × Nat)
  | [], _, acc => acc
  | c :: cs, lvl, acc => memChildren cs lvl (memNode c lvl acc)
end

/-- process a worklist of (layer prefix, level of its root); `fuel` bounds the number of layers. -/
def memAll (layers : List (List UInt8 × BTree)) : Nat → List (List UInt8 × Nat) → List MemRow → List MemRow
  | 0, _, rows => rows
  | _, [], rows => rows
  | fuel + 1, (p, lvl) :: work, rows =>
    match layers.find? (fun x => x.1 == p) with
    | none => memAll layers fuel work rows
    | some (_, t) =>
      let (rows', links) := memNode t lvl (rows, [])
      memAll layers fuel (links.map (fun (s, l) => (p ++ s, l)) ++ work) rows'

/-- `mem_usage(storage)` computed from the dump. (Row order is by level, so the traversal order of
    the worklist does not matter for the sums.) -/
def memUsage (layers : List (List UInt8 × BTree)) : List MemRow :=
  memAll layers (layers.length + 1) [([], 0)] []

end Yak.Shape
