import YakModel.Util
import YakModel.Version
/-!
# Version-word monitor on real traces (`yakmodel vers`)

`scheddrv` records, for every successful compare-exchange on a node's version word, the word it
replaced and the word it installed (`V tid obj old new`), and for the raw version-object workloads
every word returned by `get_stable_version` (`S tid obj word`).

The monitor accepts a `V` line iff the transition is one atomic operation of the model of
`YakModel/Version.lean` — the functions the theorems of `YakProps/C17.lean` are about:
`lockW` (from an unlocked word), `unlockW` (from a locked word), one of the five flag setters, or
`incVinsertW`. It also runs the lock-ownership bookkeeping of `Proto/VSys` (`lock_mutex`): a lock is
taken only when nobody holds it, and released only by its holder. An `S` line is accepted iff the
word is clean (`stableW`), the statement of `stable_is_clean`.
-/
namespace Yak.VersCheck
open Yak.Util Yak.Version

inductive Kind where
  | lock | unlock | flag | inc | same
  deriving Repr, DecidableEq

/-- which atomic model operation (if any) turns `old` into `new` -/
def classify (old new : W) : Option Kind :=
  if !(decode old).locked && new == lockW old then some .lock
  else if (decode old).locked && new == unlockW old then some .unlock
  else if new == old then some .same
  else if new == setBorderW old true || new == setBorderW old false
       || new == setDeletedW old true || new == setDeletedW old false
       || new == setInsertingW old true || new == setInsertingW old false
       || new == setRootW old true || new == setRootW old false
       || new == setSplittingW old true || new == setSplittingW old false then some .flag
  else if new == incVinsertW old then some .inc
  else none

structure St where
  holder : List (String × Nat) := []     -- object ↦ thread that took its lock by a CAS
  locks : Nat := 0
  unlocks : Nat := 0
  flags : Nat := 0
  incs : Nat := 0
  stables : Nat := 0

def holderOf (st : St) (o : String) : Option Nat := (st.holder.find? (·.1 == o)).map (·.2)

def step (st : St) (line : String) : Except String St :=
  match words line with
  | ["V", tid, obj, old, new] =>
    match tid.toNat?, hexW? old, hexW? new with
    | some t, some o, some n =>
      match classify o n with
      | none => .error s!"illegal version-word transition {wHex o} -> {wHex n} by thread {t}: not lock, unlock, a single flag update or a counter increment"
      | some .lock =>
        match holderOf st obj with
        | some h => .error s!"thread {t} took the lock of {obj} while thread {h} holds it"
        | none => .ok { st with holder := (obj, t) :: st.holder, locks := st.locks + 1 }
      | some .unlock =>
        match holderOf st obj with
        | some h =>
          if h == t then .ok { st with holder := st.holder.filter (·.1 != obj), unlocks := st.unlocks + 1 }
          else .error s!"thread {t} released the lock of {obj} held by thread {h}"
        -- a node created locked by a split (plain store of the sibling's word) has no recorded holder
        | none => .ok { st with unlocks := st.unlocks + 1 }
      | some .flag => .ok { st with flags := st.flags + 1 }
      | some .inc => .ok { st with incs := st.incs + 1 }
      | some .same => .ok st
    | _, _, _ => .error "bad-line"
  | ["S", tid, _, w] =>
    match tid.toNat?, hexW? w with
    | some t, some w =>
      if stableW w then .ok { st with stables := st.stables + 1 }
      else .error s!"get_stable_version returned the locked or dirty word {wHex w} to thread {t}"
    | _, _ => .error "bad-line"
  | _ => .ok st

end Yak.VersCheck
