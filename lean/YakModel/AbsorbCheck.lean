import YakModel.Util
import YakModel.Proto.Absorb
/-!
# Outcome enumeration for `Proto/Absorb` scenarios (`yakmodel absorb`)

The correspondence check of the `Absorb` model: for a small scenario — a chain of fenced leaves, one
forward scan `[a, b]`, and writer threads each with a short sequence of inserts / removes — this
enumerates **every interleaving** of the model's events and prints the set of results the scan can
return. `tools/check.py` runs the same scenario on the real code under many schedules and requires
every observed result to be in this set.

The absorb direction of an unlink is the one the code takes when all leaves hang under one interior
node: the leftmost child (index 0) is absorbed by its right neighbour (the first separator is
dropped), every other child by its left neighbour (the separator below it is dropped)
(`interior_node::delete_of`). An insert of a stored key (an overwrite in the code) and a
remove of an absent key leave the structure alone.
-/
namespace Yak.AbsorbCheck
open Yak.Util Yak.Proto.Absorb

inductive WOp
  | ins (k : Nat)
  | rem (k : Nat)
  deriving Repr

def dirFor (s : State) (k : Nat) : Dir :=
  match splitOwner s.chain k with
  | some ([], _, _) => .right
  | _ => .left

def wEvent (s : State) : WOp → Event
  | .ins k => .ins k
  | .rem k => .rem k (dirFor s k)

def scanEvent (s : State) (a b : Nat) : Option Event :=
  match s.sc 0 with
  | .idle => some (.sStart 0 a b)
  | .want _ _ => some (.sEnter 0)
  | .at _ _ _ _ => some (.sVisit 0)
  | .fin _ _ _ => none

def addOutcome (acc : List (List Nat)) (r : List Nat) : List (List Nat) :=
  if acc.contains r then acc else r :: acc

/-- all ways to pick one writer with remaining operations: (its first op, the writers afterwards) -/
def picks : List (List WOp) → List (WOp × List (List WOp))
  | [] => []
  | [] :: rest => (picks rest).map (fun (o, ws) => (o, [] :: ws))
  | (o :: os) :: rest => (o, os :: rest) :: (picks rest).map (fun (o', ws) => (o', (o :: os) :: ws))

partial def explore (c : Cfg) (a b : Nat) (s : State) (ws : List (List WOp)) (acc : List (List Nat)) :
    List (List Nat) :=
  match s.sc 0 with
  | .fin _ _ res => addOutcome acc res
  | _ =>
    let acc :=
      match scanEvent s a b with
      | some e =>
        match step? c s e with
        | some s' => explore c a b s' ws acc
        | none => acc
      | none => acc
    (picks ws).foldl (fun acc (o, ws') =>
      match step? c s (wEvent s o) with
      | some s' => explore c a b s' ws' acc
      | none => explore c a b s ws' acc) acc

structure Scen where
  leaves : List Leaf := []
  a : Nat := 0
  b : Nat := 0
  writers : List (List WOp) := []
  fix : Bool := true

def parseOp (w : String) : Option WOp :=
  match w.splitOn ":" with
  | ["ins", k] => k.toNat?.map .ins
  | ["rem", k] => k.toNat?.map .rem
  | _ => none

def lt : List Nat → List Nat → Bool
  | [], [] => false
  | [], _ => true
  | _, [] => false
  | x :: xs, y :: ys => if x < y then true else if y < x then false else lt xs ys

def insertSortedL (r : List Nat) : List (List Nat) → List (List Nat)
  | [] => [r]
  | x :: xs => if lt r x then r :: x :: xs else x :: insertSortedL r xs

def render (outs : List (List Nat)) : String :=
  let sorted := outs.foldl (fun acc r => insertSortedL r acc) []
  "AOUT " ++ String.intercalate "|" (sorted.map (fun r => if r.isEmpty then "-" else String.intercalate "," (r.map toString)))

/-- one input line; `go` yields the outcome line -/
def stepLine (sc : Scen) (line : String) : Except String (Scen × Option String) :=
  match words line with
  | "leaf" :: id :: lo :: ks =>
    match id.toNat?, lo.toNat?, ks.mapM (·.toNat?) with
    | some i, some l, some ks => .ok ({ sc with leaves := sc.leaves ++ [⟨i, l, ks⟩] }, none)
    | _, _, _ => .error "bad-line"
  | ["scan", a, b] =>
    match a.toNat?, b.toNat? with
    | some a, some b => .ok ({ sc with a := a, b := b }, none)
    | _, _ => .error "bad-line"
  | "writer" :: ops =>
    match ops.mapM parseOp with
    | some os => .ok ({ sc with writers := sc.writers ++ [os] }, none)
    | none => .error "bad-line"
  | ["fix", f] => .ok ({ sc with fix := f == "1" }, none)
  | ["go"] =>
    let s0 : State := ⟨sc.leaves, [], sc.leaves.foldl (fun m L => max m (L.id + 1)) 0, fun _ => .idle, fun _ => []⟩
    let outs := explore { fix := sc.fix } sc.a sc.b s0 sc.writers []
    .ok ({}, some (render outs))
  | [] => .ok (sc, none)
  | _ => .error "bad-line"

end Yak.AbsorbCheck
