import YakModel.Tree
/-!
# `scan` (interface_scan.h, scan_helper.h) on the layered leaf-chain model

Mirrors the quiescent control flow of `scan` / `scan_border`: argument validation, the initial
descent with the left key's length truncated to 8 bits, the per-entry endpoint tests (left key
relative to the layer, right key absolute), recursion into next layers, `max_size`,
right-to-left, and the collection of (version, node) pairs with `tuple_pushed_num`.
-/
namespace Yak.Tree
open Yak

inductive EP | excl | incl | inf
deriving DecidableEq, Repr, Inhabited

structure ScanOut where
  status : Status
  tuples : List (Key × Val) := []
  nodes : List NodeRef := []
deriving Repr, Inhabited

/-- `check_empty_scan_range`. `compare` is `std::string_view::compare` (bytewise, then length). -/
def checkEmptyRange (lk : Key) (le : EP) (rk : Key) (re : EP) : Bool :=   -- true = OK
  if re == .inf then true
  else if le == .inf then !(re == .excl && rk.isEmpty)
  else if lexLt lk rk then true
  else if lexLt rk lk then false
  else le == .incl && re == .incl

/-- the whole argument check of `scan` (null `data()` with non-zero size is not expressible here). -/
def scanArgsOk (lk : Key) (le : EP) (rk : Key) (re : EP) (max : Nat) (r2l : Bool) : Bool :=
  checkEmptyRange lk le rk re && !(r2l && (re != .inf || max != 1))

/-- the tuple the initial descent routes by: slice = first 8 bytes (zero padded), length = size
    truncated to 8 bits; right-to-left uses (0xFF×8, 8). -/
def descentKT (lk : Key) (r2l : Bool) : KT :=
  if r2l then ⟨List.replicate 8 255, 8⟩ else ⟨padTo 8 lk, lk.length % 256⟩

/-- `memcmp(a, b, min(|a|,|b|))` on byte strings -/
def memcmpMin (a b : List UInt8) : Int := memcmp a b (Nat.min a.length b.length)

structure Acc where
  tuples : List (Key × Val)
  nodes : List NodeRef
deriving Repr, Inhabited

inductive Flow | cont | stop
deriving DecidableEq, Repr

/-- sub-range handed to a next layer, or skip / stop -/
inductive LinkArgs
  | skip
  | stop
  | go (lk : Key) (le : EP) (rk : Key) (re : EP)

def linkArgs (lk : Key) (le : EP) (rk : Key) (re : EP) (ks : List UInt8) (fullKey : Key) : LinkArgs :=
  let left : Option (Key × EP) :=
    if le == .inf then some ([], .inf)
    else
      let c := memcmp (padTo 8 lk) ks 8
      if c < 0 then some ([], .inf)
      else if c == 0 then some (if lk.length > 8 then lk.drop 8 else [], le)
      else none
  match left with
  | none => .skip
  | some (alk, ale) =>
    if re == .inf then .go alk ale [] .inf
    else
      let c := memcmpMin rk fullKey
      if c < 0 then .stop
      else if c == 0 then
        if rk.length ≤ fullKey.length then .stop else .go alk ale rk re
      else .go alk ale [] .inf

/-- is a terminal entry `(ks,kl)` with full key `fk` before the left endpoint? -/
def beforeLeft (lk : Key) (le : EP) (ks : List UInt8) (kl : Nat) : Bool :=
  if le == .inf then false
  else
    let c := memcmp (padTo 8 lk) ks 8
    c > 0 || (c == 0 && (lk.length > kl || (lk.length == kl && le == .excl)))

def withinRight (rk : Key) (re : EP) (fk : Key) : Bool :=
  if re == .inf then true
  else
    let c := memcmpMin rk fk
    c > 0 || (c == 0 && (rk.length > fk.length || (rk.length == fk.length && re == .incl)))

mutual
/-- `scan(root, …)` for the layer with prefix `p`, starting at the leaf the descent finds. -/
def scanLayer (cfg : Cfg) (t : Tree) (fuel : Nat) (p : List UInt8) (lk : Key) (le : EP) (rk : Key) (re : EP)
    (max : Nat) (r2l : Bool) (acc : Acc) : Acc × Flow :=
  match findLayer t p with
  | none => (acc, .stop)
  | some L =>
    let start := route (descentKT lk r2l) L.leaves
    scanLeaves cfg t fuel L start (L.leaves.drop start) lk le rk re max r2l acc
termination_by (fuel, 2, 0)

/-- walk the chain from leaf index `i` (`rest` = the leaves from there on). -/
def scanLeaves (cfg : Cfg) (t : Tree) (fuel : Nat) (L : Layer) (i : Nat) (rest : List Leaf)
    (lk : Key) (le : EP) (rk : Key) (re : EP) (max : Nat) (r2l : Bool) (acc : Acc) : Acc × Flow :=
  match rest with
  | [] => (acc, .stop)
  | leaf :: more =>
    let ents := if r2l then leaf.ents.reverse else leaf.ents
    let (acc1, pushed, flow) := scanEnts cfg t fuel L i ents lk le rk re max r2l acc false
    match flow with
    | .stop => (acc1, .stop)
    | .cont =>
      let acc2 := if pushed then acc1 else { acc1 with nodes := acc1.nodes ++ [mkRef L i] }
      if more.isEmpty then (acc2, .stop)       -- `next == nullptr`: OK_SCAN_END
      else scanLeaves cfg t fuel L (i + 1) more lk le rk re max r2l acc2
termination_by (fuel, 1, rest.length)

/-- `scan_border`'s loop over the entries of leaf `i`. Returns (acc, tuple_pushed_num, flow);
    `flow = stop` means the function returned OK_SCAN_END from inside the loop. -/
def scanEnts (cfg : Cfg) (t : Tree) (fuel : Nat) (L : Layer) (i : Nat) (ents : List Ent)
    (lk : Key) (le : EP) (rk : Key) (re : EP) (max : Nat) (r2l : Bool) (acc : Acc) (pushed : Bool) :
    Acc × Bool × Flow :=
  match ents with
  | [] => (acc, pushed, .cont)
  | e :: es =>
    let ks := e.kt.slice
    let kl := e.kt.len
    let fk : Key := L.pfx ++ ks.take (Nat.min kl 8)
    let recordIfFix (a : Acc) : Acc :=
      if cfg.fixD2 && !pushed then { a with nodes := a.nodes ++ [mkRef L i] } else a
    match e.val with
    | none =>
      match linkArgs lk le rk re ks fk with
      | .skip => scanEnts cfg t fuel L i es lk le rk re max r2l acc pushed
      | .stop => (recordIfFix acc, pushed, .stop)
      | .go alk ale ark are =>
        match fuel with
        | 0 => (acc, pushed, .stop)     -- out of fuel: deeper than the number of layers (unreachable)
        | f + 1 =>
          let (acc1, _) := scanLayer cfg t f fk alk ale ark are max r2l acc
          if max != 0 && acc1.tuples.length ≥ max then (recordIfFix acc1, pushed, .stop)
          else scanEnts cfg t (f + 1) L i es lk le rk re max r2l acc1 pushed
    | some v =>
      let inRange (a : Acc) : Acc :=
        { tuples := a.tuples ++ [(fk, v)], nodes := a.nodes ++ [mkRef L i] }
      if beforeLeft lk le ks kl then scanEnts cfg t fuel L i es lk le rk re max r2l acc pushed
      else if withinRight rk re fk then
        let acc1 := inRange acc
        if max != 0 && acc1.tuples.length ≥ max then (acc1, true, .stop)
        else scanEnts cfg t fuel L i es lk le rk re max r2l acc1 true
      else
        -- passed the right endpoint
        let acc1 := if pushed then acc else { acc with nodes := acc.nodes ++ [mkRef L i] }
        (acc1, pushed, .stop)
termination_by (fuel, 0, ents.length)
end

/-- the public `scan` on an existing storage. -/
def scan (cfg : Cfg) (t : Tree) (lk : Key) (le : EP) (rk : Key) (re : EP) (max : Nat) (r2l : Bool) : ScanOut :=
  if !scanArgsOk lk le rk re max r2l then { status := .ERR_BAD_USAGE }
  else
    let lk := if cfg.fixD5 && le == .inf then [] else lk
    match findLayer t [] with
    | none => { status := .OK_ROOT_IS_NULL }
    | some L =>
      let start := route (descentKT lk r2l) L.leaves
      let leaf := L.leaves.getD start emptyLeaf
      if leaf.deleted && L.leaves.length == 1 then
        { status := .OK, nodes := [mkRef L start] }
      else
        let (acc, _) := scanLayer cfg t (t.length + 1) [] lk le rk re max r2l ⟨[], []⟩
        { status := .OK, tuples := acc.tuples, nodes := acc.nodes }

/-! ### specification side -/

def inInterval (lk : Key) (le : EP) (rk : Key) (re : EP) (k : Key) : Bool :=
  (match le with
    | .inf => true
    | .incl => !lexLt k lk
    | .excl => lexLt lk k) &&
  (match re with
    | .inf => true
    | .incl => !lexLt rk k
    | .excl => lexLt k rk)

/-- what a scan must return, computed from the in-order content. -/
def scanSpec (t : Tree) (lk : Key) (le : EP) (rk : Key) (re : EP) (max : Nat) (r2l : Bool) : List (Key × Val) :=
  let l := (content t).filter (fun kv => inInterval lk le rk re kv.1)
  if r2l then (match l.getLast? with | some x => [x] | none => [])
  else if max == 0 then l else l.take max

end Yak.Tree
