import YakModel.Generated.Constants
/-!
# Value blocks and the tagged pointer word (`value.h`, `link_or_value.h`)

Addresses are natural numbers `< 2^64`; a block is `[base, base + total)`.
-/
namespace Yak.Value
open Yak.Const

/-- `create_value<false>`: alignment actually requested from `operator new`. -/
def effAlign (align : Nat) : Nat := if align < minAlign then minAlign else align

/-- bytes requested from `operator new`. -/
def totalLen (len align : Nat) : Nat := len + effAlign align

/-- header as stored by the `value` constructor (field widths from the source). -/
structure Header where
  len : Nat     -- uint32
  align : Nat   -- uint16
  needDelete : Bool
deriving DecidableEq, Repr

def mkHeader (len align : Nat) : Header :=
  ⟨len % 2 ^ valueLenBits, effAlign align % 2 ^ valueAlignBits, true⟩

/-- `get_body` of an out-of-line value: `base + align_`. -/
def bodyAddr (base : Nat) (h : Header) : Nat := base + h.align
/-- `get_len`. -/
def getLen (h : Header) : Nat := h.len
/-- `get_gc_info`: (size, align) handed to sized `operator delete`. -/
def gcInfo (h : Header) : Nat × Nat := (h.len + h.align, h.align)

/-- sizeof the header that lives at the start of the block. -/
def headerBytes : Nat := 8

/-! ### tagged words -/

abbrev W := BitVec 64

def valPtrFlag : W := 1#64 <<< valPtrFlagBit
def childFlag : W := 1#64 <<< childFlagBit

/-- `create_value<false>` tags the block address. -/
def tagValue (addr : W) : W := addr ||| valPtrFlag
/-- `remove_ptr_flag`. -/
def untag (w : W) : W := w &&& ~~~valPtrFlag
/-- `is_value_ptr`. -/
def isValuePtr (w : W) : Bool := (w &&& valPtrFlag) != 0#64

inductive Slot
  | empty                 -- the cleared pattern `kValPtrFlag`
  | link (child : W)
  | outOfLine (block : W)
  | inlineVal (v : W)
deriving DecidableEq, Repr

/-- how `link_or_value::get_next_layer` / `get_value` / `value::get_body` classify the word. -/
def classify (w : W) : Slot :=
  if (w &&& childFlag) != 0#64 then .link (w &&& ~~~childFlag)
  else if w == valPtrFlag then .empty
  else if isValuePtr w then .outOfLine (untag w)
  else .inlineVal w

def setNextLayer (child : W) : W := child ||| childFlag

end Yak.Value
