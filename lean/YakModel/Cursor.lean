import YakModel.Scan
/-!
# The cursor API (`iscan_open` / `iscan_next`) at the level of its sequential contract

A cursor remembers its interval, its direction and the last key it returned; `next` returns the
nearest entry of the interval beyond that key in the *current* tree. (The implementation's stack of
per-layer positions is an optimisation of exactly this; the correspondence check compares the two
on every step, including steps interleaved with modifications by the same thread.)
-/
namespace Yak.Tree
open Yak

structure Cursor where
  lk : Key
  le : EP
  rk : Key
  re : EP
  r2l : Bool
  last : Option Key
deriving Repr, Inhabited, DecidableEq

/-- `iscan_open`'s argument handling: same range check as scan (no right-to-left restriction);
    a left INF is treated as `("", INCLUSIVE)`. `none` = ERR_BAD_USAGE. -/
def Cursor.open? (lk : Key) (le : EP) (rk : Key) (re : EP) (r2l : Bool) : Option Cursor :=
  if !checkEmptyRange lk le rk re then none
  else
    let (lk, le) := if le == .inf then (([] : Key), EP.incl) else (lk, le)
    some ⟨lk, le, rk, re, r2l, none⟩

/-- entries of the interval not yet passed, in key order -/
def Cursor.remaining (c : Cursor) (t : Tree) : List (Key × Val) :=
  let l := (content t).filter (fun kv => inInterval c.lk c.le c.rk c.re kv.1)
  match c.last with
  | none => l
  | some k => if c.r2l then l.filter (fun (kv : Key × Val) => lexLt kv.1 k)
              else l.filter (fun (kv : Key × Val) => lexLt k kv.1)

/-- one step: the next entry (or `none` = OK_SCAN_END) and the advanced cursor -/
def Cursor.next (c : Cursor) (t : Tree) : Option (Key × Val) × Cursor :=
  let r := c.remaining t
  match (if c.r2l then r.getLast? else r.head?) with
  | some kv => (some kv, { c with last := some kv.1 })
  | none => (none, c)

/-- call `next` until the end; `fuel` bounds the number of steps -/
def Cursor.drain (c : Cursor) (t : Tree) : Nat → List (Key × Val)
  | 0 => []
  | n + 1 =>
    match c.next t with
    | (some kv, c') => kv :: c'.drain t n
    | (none, _) => []

end Yak.Tree
