import YakModel.Generated.Constants
/-!
# The permutation word (`permutation.h`)

64-bit word: low nibble = current number of keys (`cnk`), nibble `r+1` = slot index of rank `r`.
Each function mirrors the C++ shift by shift, including the special cases that avoid a shift by
64 bits (undefined in C++, defined as 0 on `BitVec`; the special cases keep the two apart).
-/
namespace Yak.Perm
open Yak.Const

abbrev W := BitVec 64

def cnkW (w : W) : W := w &&& 15#64
def cnk (w : W) : Nat := (cnkW w).toNat

/-- `get_index_of_rank`. -/
def indexOfRank (w : W) (rank : Nat) : Nat :=
  let per := w >>> 4
  let per := if rank != 0 then per >>> (4 * rank) else per
  (per &&& 15#64).toNat

def lowestKeyPos (w : W) : Nat := ((w >>> 4) &&& 15#64).toNat

/-- `delete_rank`. -/
def deleteRank (w : W) (rank : Nat) : W :=
  let c := cnkW w
  let left : W :=
    if BitVec.ofNat 64 rank == c - 1#64 || rank == keySliceLength - 1 then 0#64
    else (w >>> (4 * (rank + 2))) <<< (4 * (rank + 1))
  let right : W :=
    if rank == 0 then 0#64
    else (w <<< (4 * (keySliceLength - rank))) >>> (4 * (keySliceLength - rank))
  let fin := (left ||| right) &&& ~~~(15#64)
  fin ||| (c - 1#64)

/-- `insert_rank`. -/
def insertRank (w : W) (rank pos : Nat) : W :=
  let c := cnkW w + 1#64
  let target : W := (BitVec.ofNat 64 pos) <<< (4 * (rank + 1))
  let left : W :=
    if BitVec.ofNat 64 rank == c - 1#64 then 0#64
    else (w >>> (4 * (rank + 1))) <<< (4 * (rank + 2))
  let right : W :=
    if rank == 0 then 0#64
    else (w <<< (4 * (keySliceLength - rank))) >>> (4 * (keySliceLength - rank))
  let fin := (left ||| target ||| right) &&& ~~~(15#64)
  fin ||| c

/-- `get_empty_slot`: first slot in `0..14` not among the first `cnk` nibbles. -/
def usedSlots (w : W) : List Nat := (List.range (cnk w)).map (indexOfRank w)

def getEmptySlot (w : W) : Nat :=
  if cnk w == 0 then 0
  else match (List.range 15).find? (fun i => !(usedSlots w).contains i) with
    | some i => i
    | none => 0

/-- `split_dest(num)`. -/
def splitDest (num : Nat) : W :=
  let body := (List.range num).foldl
    (fun (b : W) i => if i == 0 then b else b ||| ((BitVec.ofNat 64 i) <<< (4 * (i + 1)))) 0#64
  body ||| BitVec.ofNat 64 num

/-- `set_cnk`. -/
def setCnk (w : W) (c : Nat) : W := (w &&& ~~~(15#64)) ||| BitVec.ofNat 64 c

/-- build the word from a list of slots in rank order (the `rearrange` loop does exactly this:
    it ors in the slot of the highest rank first and shifts left by one nibble each time). -/
def ofList (l : List Nat) : W :=
  (l.reverse.foldl (fun (b : W) s => (b ||| BitVec.ofNat 64 s) <<< 4) 0#64) |||
    BitVec.ofNat 64 l.length

/-- abstraction: the slots in rank order. -/
def toList (w : W) : List Nat := (List.range (cnk w)).map (indexOfRank w)

/-- a word is valid when `cnk ≤ 15` and the listed slots are distinct and `< 15`. -/
def Valid (w : W) : Prop := cnk w ≤ 15 ∧ (toList w).Nodup ∧ ∀ s ∈ toList w, s < 15

instance (w : W) : Decidable (Valid w) := by unfold Valid; infer_instance

end Yak.Perm
