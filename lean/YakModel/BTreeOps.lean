import YakModel.Shape
/-!
# Structural insert / remove on the dumped B+-tree (interior nodes included)

The sequential proof model (`Tree.lean`) works on the flattened leaf chain. This file mirrors, at the
level of *shape* (which key tuples sit in which border node in which order, which separators sit in
which interior node, the child order), what the C++ does to ONE layer's B+-tree. Version counters,
flags and values are carried along unchanged (`shapeOf` forgets them).

Rules read off the source (`/repo/include`):

* **insert** (`insertB`): `find_border` descends by `get_child_of` (`routeIdx`);
  `put` hands `compute_rank_if_insert` to `insert_lv` (interface_put.h:154-158);
  - `insert_lv` (border_helper.h:105): `cnk == key_slice_length` (15) → `border_split`, else
    `insert_lv_at(…, rank)` (border_helper.h:122-137);
  - `border_split` (border_helper.h:142): `remaining_size = 15/2+1 = 8` (l.174); the entries of rank
    `8..14` move, in rank order, to slots `0..6` of the new right node (l.177-198); the new key goes
    left iff `key_length == 0 ∨ ret < 0 ∨ (ret == 0 ∧ key_length < len(first)) ∨ (ret == 0 ∧
    rank < 8)` (`borderSplitLower`, l.215-226), at `rank` resp. `rank - 8` (l.230-238), always into
    the first EMPTY slot — so slot `0` of the new node stays the first moved entry, and the
    separator handed up is `new_border->get_key_*_at(0)` (l.76, l.307-308, l.316-317) = that entry;
    on sorted nodes it is also the first tuple of the right node after the new key was placed
    (proved: `leafIns_spec`);
  - no parent / parent is a border of the layer above → new interior root with one separator and the
    two halves (`create_interior_parent_of_border`, border_helper.h:60-89, 241-289);
  - parent interior not full → `interior_node::insert` (interior_node.h:189-232): the separator at the
    first position whose key is greater (`interiorInsertPos`), the child one further right;
  - parent interior full (15 separators) → `interior_split` (interior_helper.h:62): `pivot_key_pos =
    15/2 = 7` (l.76): separators `0..6` and children `0..7` stay, separator `7` is the pivot that
    moves up, separators `8..14` and children `8..15` go to the new right node (l.77-85); the pending
    pair is inserted into the left node iff `interiorLess key pivot` (l.98-112), into the right one
    otherwise; then the same one level up (l.165-176) or a new root
    (`create_interior_parent_of_interior`, l.26-53, l.114-137).
* **remove** (`removeB`): `border_node::delete_of<…>` (border_node.h:126): the entry matching
  `(len == 0 ∧ len' == 0) ∨ (len == len' ∧ memcmp 8 == 0)` (l.137-140) is taken out of the
  permutation (`delete_at`, l.38-60); if it was the only one (`cnk == 1`, l.142) the node is unlinked
  unless it has no parent — then it stays, empty (l.168-180); for the root border of a layer below
  the first the parent is a border and the whole layer goes with its link (l.188-190), which is a
  removal in the layer above;
  - `interior_node::delete_of(child)` (interior_helper.h:181): `n_key == 1` → the node disappears and
    `children[1-i]` takes its place in the grandparent (`swap_child`) or as the layer root
    (l.189-217); otherwise child `0` goes with separator `0` (l.219-222: keys and children shift left
    from 1), a middle child `i` with separator `i-1` (l.226-230: keys shift left from `i`, children
    from `i+1`), the last child with the last separator (l.223-225, l.231) — so only the unlink of
    child `0` moves a fence (the right neighbour inherits the lower bound); in all other cases the
    left neighbour absorbs the range.

`stepCheck` / `stepMatches` is the differential check used by `SeqCheck.finishDump`: two consecutive
dumps of the same layer must be related by exactly the step the model computes.
The theorems about `insertB` / `removeB` are in `Proofs/BTreeOpsProofs.lean`.
-/
namespace Yak.BTreeOps
open Yak Yak.Shape

/-! ### shapes -/

inductive Shape
  | border (kts : List KT)
  | interior (keys : List KT) (children : List Shape)
deriving Repr, Inhabited

mutual
def Shape.decEq : (a b : Shape) → Decidable (a = b)
  | .border x, .border y =>
    if h : x = y then isTrue (by rw [h]) else isFalse (fun e => h (by cases e; rfl))
  | .border _, .interior _ _ => isFalse (fun e => by cases e)
  | .interior _ _, .border _ => isFalse (fun e => by cases e)
  | .interior k1 c1, .interior k2 c2 =>
    if h : k1 = k2 then
      match Shape.decEqList c1 c2 with
      | isTrue hc => isTrue (by rw [h, hc])
      | isFalse hc => isFalse (fun e => hc (by cases e; rfl))
    else isFalse (fun e => h (by cases e; rfl))
def Shape.decEqList : (a b : List Shape) → Decidable (a = b)
  | [], [] => isTrue rfl
  | [], _ :: _ => isFalse (fun e => by cases e)
  | _ :: _, [] => isFalse (fun e => by cases e)
  | x :: xs, y :: ys =>
    match Shape.decEq x y, Shape.decEqList xs ys with
    | isTrue h1, isTrue h2 => isTrue (by rw [h1, h2])
    | isFalse h1, _ => isFalse (fun e => h1 (by cases e; rfl))
    | _, isFalse h2 => isFalse (fun e => h2 (by cases e; rfl))
end

instance : DecidableEq Shape := Shape.decEq

mutual
def shapeOf: BTree → Shape
  | .border _ ents => .border (ents.map (·.kt))
  | .interior _ keys children => .interior keys (shapeOfList children)
def shapeOfList : List BTree → List Shape
  | [] => []
  | c :: cs => shapeOf c :: shapeOfList cs
end

/-- `permutation::insert_rank` / the shifts of `interior_node::insert`: place `x` at position `i`
    (same definition as `Tree.insertIdx'`). -/
def insAt {α} (l : List α) (i : Nat) (x : α) : List α := l.take i ++ x :: l.drop i

/-! ### insert -/

/-- what a subtree hands to its parent after an insert: itself, or (after a split) itself, the
    separator and the new right sibling. -/
inductive InsRes
  | one (t : BTree)
  | split (l : BTree) (sep : KT) (r : BTree)
deriving Repr, Inhabited

/-- `insert_lv` on a border node: `compute_rank_if_insert`, then either `insert_lv_at` or
    `border_split`. In the split the entries of rank `≥ remaining_size` move to the new node (slot
    `0` of the new node is the entry of old rank `remaining_size`), the side of the new key is
    `borderSplitLower`, and the separator is `new_border->get_key_*_at(0)`: slot `0`, i.e. the
    first MOVED entry (the new key goes to the first empty slot, never slot `0`). -/
def insBorder (v : DVer) (ents : List DEnt) (e : DEnt) : InsRes :=
  let rank := rankIfInsert e.kt (ents.map (·.kt))
  if ents.length == Yak.Const.keySliceLength then
    let rem := Yak.Const.borderRemaining
    let lo := ents.take rem
    let hi := ents.drop rem
    let first : KT := (hi.headD default).kt
    if borderSplitLower e.kt first rank rem then
      .split (.border v (insAt lo rank e)) first (.border v hi)
    else
      .split (.border v lo) first (.border v (insAt hi (rank - rem) e))
  else
    .one (.border v (insAt ents rank e))

/-- `interior_node::insert(child, pivot_key)`: the separator goes to `interiorInsertPos`, the child
    one position further right. -/
def interiorInsert (keys : List KT) (cs : List BTree) (sep : KT) (r : BTree) :
    List KT × List BTree :=
  let p := interiorInsertPos sep keys
  (insAt keys p sep, insAt cs (p + 1) r)

/-- an interior node receives a pending (separator, child) from below: `interior_node::insert` if
    there is room, else `interior_split`: separators `0..pivot-1` and children `0..pivot` stay,
    separator `pivot` moves up, the rest go to the new right node, and the pending pair is inserted
    left or right by `interiorLess` against the pivot. -/
def interiorAdd (v : DVer) (keys : List KT) (cs : List BTree) (sep : KT) (r : BTree) : InsRes :=
  if keys.length == Yak.Const.keySliceLength then
    let pp := Yak.Const.interiorPivot
    let lk := keys.take pp
    let pivot : KT := (keys.drop pp).headD default
    let rk := keys.drop (pp + 1)
    let lc := cs.take (pp + 1)
    let rc := cs.drop (pp + 1)
    if interiorLess sep pivot then
      let (lk', lc') := interiorInsert lk lc sep r
      .split (.interior v lk' lc') pivot (.interior v rk rc)
    else
      let (rk', rc') := interiorInsert rk rc sep r
      .split (.interior v lk lc) pivot (.interior v rk' rc')
  else
    let (k', c') := interiorInsert keys cs sep r
    .one (.interior v k' c')

mutual
/-- insert below `t`; the caller deals with a split. -/
def ins : BTree → DEnt → InsRes
  | .border v ents, e => insBorder v ents e
  | .interior v keys children, e =>
    match insChild children (routeIdx e.kt keys) e with
    | (cs', none) => .one (.interior v keys cs')
    | (cs', some (sep, r)) => interiorAdd v keys cs' sep r

/-- insert below child `i`; a split child is replaced by its left half, the pending
    (separator, right half) is returned. -/
def insChild : List BTree → Nat → DEnt → List BTree × Option (KT × BTree)
  | [], _, _ => ([], none)
  | c :: cs, 0, e =>
    match ins c e with
    | .one c' => (c' :: cs, none)
    | .split l sep r => (l :: cs, some (sep, r))
  | c :: cs, i + 1, e =>
    let (cs', p) := insChild cs i e
    (c :: cs', p)
end

/-- version word of an interior node created as a new root (flags: root) — ignored by `shapeOf`. -/
def newRootVer : DVer := ⟨0, 0, 16⟩

/-- insert the (absent) entry `e` into the layer with root `t`; a split of the root creates a new
    interior root (`create_interior_parent_of_border` / `_of_interior`). -/
def insertB (t : BTree) (e : DEnt) : BTree :=
  match ins t e with
  | .one t' => t'
  | .split l sep r => .interior newRootVer [sep] [l, r]

/-! ### remove -/

/-- the per-entry test of `border_node::delete_of<…>` -/
def delMatch (k t : KT) : Bool :=
  (k.len == 0 && t.len == 0) || (k.len == t.len && memcmp k.slice t.slice 8 == 0)

/-- remove the first entry matching `kt` (`delete_at` → `permutation::delete_rank`) -/
def delEnt (kt : KT) : List DEnt → List DEnt
  | [] => []
  | e :: es => if delMatch kt e.kt then es else e :: delEnt kt es

/-- what a subtree hands to its parent after a remove: itself (possibly changed, possibly replaced
    by a promoted grandchild) or nothing (the border node became empty and asks to be unlinked). -/
inductive RemRes
  | kept (t : BTree)
  | gone
deriving Repr, Inhabited

/-- `border_node::delete_of` on a non-root border: `cnk == 1` (before the deletion) → unlink. -/
def remBorder (v : DVer) (ents : List DEnt) (kt : KT) : RemRes :=
  if ents.any (fun e => delMatch kt e.kt) then
    if ents.length == 1 then .gone else .kept (.border v (delEnt kt ents))
  else .kept (.border v ents)

/-- `interior_node::delete_of(child)` for the child at index `i`: with one separator the node
    disappears and the sibling `children[1-i]` takes its place; otherwise child `0` goes together
    with separator `0`, child `i > 0` (middle or last) together with separator `i-1`. -/
def interiorDel (v : DVer) (keys : List KT) (cs : List BTree) (i : Nat) : BTree :=
  if keys.length == 1 then cs.getD (1 - i) (.border v [])
  else if i == 0 then .interior v (keys.drop 1) (cs.drop 1)
  else .interior v (keys.eraseIdx (i - 1)) (cs.eraseIdx i)

mutual
def rem : BTree → KT → RemRes
  | .border v ents, kt => remBorder v ents kt
  | .interior v keys children, kt =>
    let i := routeIdx kt keys
    match remChild children i kt with
    | (cs', false) => .kept (.interior v keys cs')
    | (_, true) => .kept (interiorDel v keys children i)

/-- remove below child `i`: the new child list, and whether child `i` asked to be unlinked -/
def remChild : List BTree → Nat → KT → List BTree × Bool
  | [], _, _ => ([], false)
  | c :: cs, 0, kt =>
    match rem c kt with
    | .kept c' => (c' :: cs, false)
    | .gone => (c :: cs, true)
  | c :: cs, i + 1, kt =>
    let (cs', g) := remChild cs i kt
    (c :: cs', g)
end

/-- remove the tuple `kt` from the layer with root `t`. A root border stays, even empty
    (`pn == nullptr` branch of `border_node::delete_of`; for a layer below the first the whole layer
    then disappears with its link, which is a removal in the layer above). -/
def removeB (t : BTree) (kt : KT) : BTree :=
  match t with
  | .border v ents => .border v (delEnt kt ents)
  | t =>
    match rem t kt with
    | .kept t' => t'
    | .gone => t

/-! ### the differential check -/

mutual
def entsOf : BTree → List DEnt
  | .border _ ents => ents
  | .interior _ _ children => entsOfList children
def entsOfList : List BTree → List DEnt
  | [] => []
  | c :: cs => entsOf c ++ entsOfList cs
end

mutual
def nodeCount : BTree → Nat
  | .border _ _ => 1
  | .interior _ _ children => 1 + nodeCountList children
def nodeCountList : List BTree → Nat
  | [] => 0
  | c :: cs => nodeCount c + nodeCountList cs
end

def eraseFirst (k : KT) : List KT → List KT
  | [] => []
  | x :: xs => if decide (x = k) then xs else x :: eraseFirst k xs

/-- multiset difference `a − b` on tuples -/
def msDiff (a b : List KT) : List KT := b.foldl (fun acc k => eraseFirst k acc) a

def ktStr (k : KT) : String := s!"{Yak.Util.bytesHex k.slice}/{k.len}"

mutual
def shapeStr : Shape → String
  | .border kts => "B[" ++ " ".intercalate (kts.map ktStr) ++ "]"
  | .interior keys cs => "I[" ++ " ".intercalate (keys.map ktStr) ++ "](" ++ shapeStrList cs ++ ")"
def shapeStrList : List Shape → String
  | [] => ""
  | c :: cs => shapeStr c ++ (if cs.isEmpty then "" else " ") ++ shapeStrList cs
end

/-- the nodes on the descent path of `k`, from the root down, with the child index taken -/
def pathOf : Nat → BTree → KT → List (BTree × Nat)
  | 0, _, _ => []
  | _, .border v ents, _ => [(.border v ents, 0)]
  | fuel + 1, .interior v keys cs, k =>
    let i := routeIdx k keys
    (.interior v keys cs, i) :: (match cs[i]? with | some c => pathOf fuel c k | none => [])

def nodeFull : BTree → Bool
  | .border _ ents => ents.length == Yak.Const.keySliceLength
  | .interior _ keys _ => keys.length == Yak.Const.keySliceLength

/-- statistics labels for an insert step (what the algorithm exercised) -/
def insEvents (old : BTree) (k : KT) : List String :=
  let path := (pathOf (nodeCount old + 1) old k).reverse   -- leaf first
  let fulls := path.takeWhile (fun p => nodeFull p.1)
  let nsplit := fulls.length
  (if nsplit ≥ 1 then ["shape_border_splits"] else []) ++
  List.replicate (nsplit - 1) "shape_interior_splits" ++
  -- which node of `interior_split` received the pending (separator, child): the split child's
  -- index decides (index ≤ pivot position ⇔ separator < pivot on a well-formed node)
  (fulls.drop 1).map (fun p =>
    if p.2 ≤ Yak.Const.interiorPivot then "shape_interior_splits_left" else "shape_interior_splits_right") ++
  (if nsplit ≥ 1 && nsplit == path.length then ["shape_new_roots"] else [])

/-- statistics labels for a remove step -/
def remEvents (old : BTree) (k : KT) : List String :=
  let path := (pathOf (nodeCount old + 1) old k).reverse
  match path with
  | (.border _ ents, _) :: (.interior _ keys _, i) :: up =>
    if ents.length == 1 && ents.any (fun e => delMatch k e.kt) then
      if keys.length == 1 then
        [if up.isEmpty then "shape_collapses_root" else "shape_collapses_inner"]
      else if i == 0 then ["shape_unlinks_first"]
      else if i == keys.length then ["shape_unlinks_last"]
      else ["shape_unlinks_middle"]
    else []
  | [(.border _ ents, _)] =>
    if ents.length == 1 && ents.any (fun e => delMatch k e.kt) then ["shape_root_emptied"] else []
  | _ => []

/-- verdict on one layer step: `none` = no verdict (more than one tuple changed);
    `some (labels, err)`: the statistics labels of the step and the mismatch, if any. -/
def stepCheck (old new : BTree) : Option (List String × Option String) :=
  let eo := entsOf old
  let en := entsOf new
  let ko := eo.map (·.kt)
  let kn := en.map (·.kt)
  let added := msDiff kn ko
  let removed := msDiff ko kn
  let verdict (label : String) (events : List String) (expect : Shape) :=
    let got := shapeOf new
    let events := label :: events ++ (if nodeCount old != nodeCount new then ["shape_splits"] else [])
    if got = expect then some (events, none)
    else some (events, some s!"{label}: implementation {shapeStr got} model {shapeStr expect} (before: {shapeStr (shapeOf old)})")
  match added, removed with
  | [], [] => verdict "shape_same" [] (shapeOf old)
  | [k], [] =>
    match en.find? (fun e => decide (e.kt = k)) with
    | some e => verdict "shape_inserts" (insEvents old k) (shapeOf (insertB old e))
    | none => none
  | [], [k] => verdict "shape_removes" (remEvents old k) (shapeOf (removeB old k))
  | _, _ => none

/-- the differential check proper: `some msg` iff the step got a verdict and the shapes differ. -/
def stepMatches (old new : BTree) : Option String :=
  match stepCheck old new with
  | some (_, some msg) => some msg
  | _ => none

end Yak.BTreeOps
