import YakModel.Proto.VSys
/-!
# Invariants of `VSys`

`Inv` is the inductive invariant behind lock mutual exclusion; `CountInv` says the two counters
equal their initial value plus the ghost completion counts; `nIns`/`nSplit` are monotone along
`Reach`, which turns equality of two stable versions into "no completion in between" under the
explicit `< 2^29` bound.
-/
namespace Yak.Proto.VSys
open Yak.Version

theorem upd_same {α} (f : Nat → α) (t : Nat) (v : α) : upd f t v t = v := by simp [upd]
theorem upd_other {α} (f : Nat → α) (t : Nat) (v : α) (i : Nat) (h : i ≠ t) : upd f t v i = f i := by
  simp [upd, h]

theorem Reach.trans {a b c : State} (h1 : Reach a b) (h2 : Reach b c) : Reach a c := by
  induction h2 with
  | refl => exact h1
  | step _ hs ih => exact Reach.step ih hs

/-! ## mutual exclusion -/

structure Inv (s : State) : Prop where
  locked_of_holds : ∀ t, s.holds t = true → s.word.locked = true
  unique : ∀ t1 t2, s.holds t1 = true → s.holds t2 = true → t1 = t2
  holder : ∀ t op exp, s.pc t = .pending op exp → op.holderOnly = true → s.holds t = true
  locker : ∀ t exp, s.pc t = .pending .lock exp → exp.locked = false ∧ s.holds t = false

theorem inv_init (b0 : Body) : Inv (init b0) := by
  constructor <;> simp [init]

theorem apply_locked (op : Op) (b : Body) (h1 : op ≠ .lock) (h2 : op ≠ .unlock) :
    (op.apply b).locked = b.locked := by
  cases op <;> simp_all [Op.apply, Body.incVinsert, Body.setInserting, Body.setSplitting,
    Body.setDeleted, Body.setRoot, Body.setBorder]

theorem unlock_locked (b : Body) : b.unlock.locked = false := by
  unfold Body.unlock
  simp

theorem upd_self {α} (f : Nat → α) (t : Nat) : upd f t (f t) = f := by
  funext i
  by_cases h : i = t
  · subst h; exact upd_same _ _ _
  · exact upd_other _ _ _ _ h

theorem inv_other (s : State) (t : Nat) (w' : Body) (n1 n2 : Nat)
    (hw : w'.locked = s.word.locked) (hinv : Inv s) :
    Inv { word := w', pc := upd s.pc t .idle, holds := s.holds, nIns := n1, nSplit := n2 } := by
  obtain ⟨I1, I2, I3, I4⟩ := hinv
  refine ⟨?_, I2, ?_, ?_⟩
  · intro t' h
    show w'.locked = true
    rw [hw]
    exact I1 t' h
  · intro t' op' exp' hpc' hho
    by_cases ht : t' = t
    · subst ht; simp only [upd_same] at hpc'; cases hpc'
    · simp only [upd_other _ _ _ _ ht] at hpc'
      exact I3 t' op' exp' hpc' hho
  · intro t' exp' hpc'
    by_cases ht : t' = t
    · subst ht; simp only [upd_same] at hpc'; cases hpc'
    · simp only [upd_other _ _ _ _ ht] at hpc'
      exact I4 t' exp' hpc'

theorem inv_step {s s' : State} {e : Event} (hinv : Inv s) (hs : Step s e s') : Inv s' := by
  obtain ⟨I1, I2, I3, I4⟩ := hinv
  cases hs with
  | load t op hidle hdisc hlock =>
    refine ⟨I1, I2, ?_, ?_⟩
    · intro t' op' exp' hpc hh
      by_cases ht : t' = t
      · subst ht
        simp only [upd_same] at hpc
        injection hpc with e1 e2
        subst e1
        exact hdisc hh
      · simp only [upd_other _ _ _ _ ht] at hpc
        exact I3 t' op' exp' hpc hh
    · intro t' exp' hpc
      by_cases ht : t' = t
      · subst ht
        simp only [upd_same] at hpc
        injection hpc with e1 e2
        subst e1 e2
        exact hlock rfl
      · simp only [upd_other _ _ _ _ ht] at hpc
        exact I4 t' exp' hpc
  | casOk t op exp hpc heq =>
    subst heq
    by_cases hl : op = .lock
    · -- lock acquired: nobody held it before
      subst hl
      have hunl : s.word.locked = false := (I4 t _ hpc).1
      have nohold : ∀ t', s.holds t' = false := by
        intro t'
        cases h : s.holds t' with
        | false => rfl
        | true => have := I1 t' h; rw [hunl] at this; cases this
      refine ⟨?_, ?_, ?_, ?_⟩
      · intro _ _; rfl
      · intro t1 t2 h1 h2
        have e1 : t1 = t := by
          by_cases ht : t1 = t
          · exact ht
          · simp only [upd_other _ _ _ _ ht, nohold] at h1; cases h1
        have e2 : t2 = t := by
          by_cases ht : t2 = t
          · exact ht
          · simp only [upd_other _ _ _ _ ht, nohold] at h2; cases h2
        rw [e1, e2]
      · intro t' op' exp' hpc' hh
        by_cases ht : t' = t
        · subst ht; simp only [upd_same] at hpc'; cases hpc'
        · simp only [upd_other _ _ _ _ ht] at hpc'
          have := I3 t' op' exp' hpc' hh
          rw [nohold] at this; cases this
      · intro t' exp' hpc'
        by_cases ht : t' = t
        · subst ht; simp only [upd_same] at hpc'; cases hpc'
        · simp only [upd_other _ _ _ _ ht] at hpc' ⊢
          exact I4 t' exp' hpc'
    by_cases hu : op = .unlock
    · -- unlock by the holder: nobody holds afterwards
      subst hu
      have hh : s.holds t = true := I3 t _ _ hpc rfl
      have nohold : ∀ t', upd s.holds t false t' = false := by
        intro t'
        by_cases ht : t' = t
        · subst ht; exact upd_same _ _ _
        · rw [upd_other _ _ _ _ ht]
          cases h : s.holds t' with
          | false => rfl
          | true => exact absurd (I2 t' t h hh) ht
      refine ⟨?_, ?_, ?_, ?_⟩
      · intro t' h; simp only [nohold] at h; cases h
      · intro t1 t2 h1; simp only [nohold] at h1; cases h1
      · intro t' op' exp' hpc' hho
        by_cases ht : t' = t
        · subst ht; simp only [upd_same] at hpc'; cases hpc'
        · simp only [upd_other _ _ _ _ ht] at hpc'
          exact absurd (I2 t' t (I3 t' op' exp' hpc' hho) hh) ht
      · intro t' exp' hpc'
        by_cases ht : t' = t
        · subst ht; simp only [upd_same] at hpc'; cases hpc'
        · simp only [upd_other _ _ _ _ ht] at hpc'
          exact ⟨(I4 t' exp' hpc').1, nohold t'⟩
    · -- any other op: lock bit and holder map unchanged
      have hw : (op.apply s.word).locked = s.word.locked := apply_locked op _ hl hu
      have key := inv_other s t (op.apply s.word) (s.nIns + insDelta op s.word)
        (s.nSplit + splitDelta op s.word) hw ⟨I1, I2, I3, I4⟩
      cases op with
      | lock => exact absurd rfl hl
      | unlock => exact absurd rfl hu
      | _ => rw [← upd_self s.holds t] at key; exact key
  | casFail t op exp hpc =>
    refine ⟨I1, I2, ?_, ?_⟩
    · intro t' op' exp' hpc' hh
      by_cases ht : t' = t
      · subst ht
        simp only [upd_same] at hpc'
        by_cases hl : op = .lock
        · simp [hl] at hpc'
        · simp only [hl, if_false] at hpc'
          injection hpc' with e1 e2
          subst e1
          exact I3 _ _ _ hpc hh
      · simp only [upd_other _ _ _ _ ht] at hpc'
        exact I3 t' op' exp' hpc' hh
    · intro t' exp' hpc'
      by_cases ht : t' = t
      · subst ht
        simp only [upd_same] at hpc'
        by_cases hl : op = .lock
        · simp [hl] at hpc'
        · simp only [hl, if_false] at hpc'
          injection hpc' with e1 e2
          exact absurd e1 hl
      · simp only [upd_other _ _ _ _ ht] at hpc'
        exact I4 t' exp' hpc'
  | stableRead t hst => exact ⟨I1, I2, I3, I4⟩


theorem inv_reach {s0 s : State} (h0 : Inv s0) (h : Reach s0 s) : Inv s := by
  induction h with
  | refl => exact h0
  | step _ hs ih => exact inv_step ih hs

theorem lock_mutex (b0 : Body) (_hb : b0.locked = false) (s : State) (h : Reach (init b0) s) :
    (∀ t1 t2, s.holds t1 = true → s.holds t2 = true → t1 = t2) ∧
    (∀ t, s.holds t = true → s.word.locked = true) :=
  have hi := inv_reach (inv_init b0) h
  ⟨hi.unique, hi.locked_of_holds⟩

/-! ## stable reads -/

theorem stable_is_clean (s : State) (t : Nat) (b : Body) (s' : State)
    (h : Step s (.stableRead t b) s') : b.locked = false ∧ b.inserting = false ∧ b.splitting = false := by
  cases h with
  | stableRead _ hst =>
    unfold Body.stable at hst
    cases h1 : s.word.locked <;> cases h2 : s.word.inserting <;> cases h3 : s.word.splitting <;>
      simp_all

/-! ## counters -/

theorem apply_vinsert (op : Op) (b : Body) :
    (op.apply b).vinsert = b.vinsert + BitVec.ofNat 29 (insDelta op b) := by
  cases op <;> simp [Op.apply, insDelta, Body.lock, Body.incVinsert, Body.setInserting,
    Body.setSplitting, Body.setDeleted, Body.setRoot, Body.setBorder]
  unfold Body.unlock
  cases h1 : b.inserting <;> cases h2 : b.splitting <;> simp [h1, h2]

theorem apply_vsplit (op : Op) (b : Body) :
    (op.apply b).vsplit = b.vsplit + BitVec.ofNat 29 (splitDelta op b) := by
  cases op <;> simp [Op.apply, splitDelta, Body.lock, Body.incVinsert, Body.setInserting,
    Body.setSplitting, Body.setDeleted, Body.setRoot, Body.setBorder]
  unfold Body.unlock
  cases h1 : b.inserting <;> cases h2 : b.splitting <;> simp [h1, h2]

def CountInv (b0 : Body) (s : State) : Prop :=
  s.word.vinsert = b0.vinsert + BitVec.ofNat 29 s.nIns ∧
  s.word.vsplit = b0.vsplit + BitVec.ofNat 29 s.nSplit

theorem count_step {b0 : Body} {s s' : State} {e : Event} (hinv : CountInv b0 s)
    (hs : Step s e s') : CountInv b0 s' := by
  cases hs with
  | load t op hidle hdisc hlock => exact hinv
  | casOk t op exp hpc heq =>
    subst heq
    obtain ⟨h1, h2⟩ := hinv
    constructor
    · show (op.apply s.word).vinsert = b0.vinsert + BitVec.ofNat 29 (s.nIns + insDelta op s.word)
      rw [apply_vinsert, h1, BitVec.ofNat_add, BitVec.add_assoc]
    · show (op.apply s.word).vsplit = b0.vsplit + BitVec.ofNat 29 (s.nSplit + splitDelta op s.word)
      rw [apply_vsplit, h2, BitVec.ofNat_add, BitVec.add_assoc]
  | casFail t op exp hpc => exact hinv
  | stableRead t hst => exact hinv

theorem counter_is_count (b0 : Body) (_hb : b0.locked = false) (s : State) (h : Reach (init b0) s) :
    s.word.vinsert = b0.vinsert + BitVec.ofNat 29 s.nIns ∧
    s.word.vsplit = b0.vsplit + BitVec.ofNat 29 s.nSplit := by
  show CountInv b0 s
  induction h with
  | refl => constructor <;> simp [init]
  | step _ hs ih => exact count_step ih hs

/-! ## equal stable versions -/

theorem step_mono {s s' : State} {e : Event} (hs : Step s e s') :
    s.nIns ≤ s'.nIns ∧ s.nSplit ≤ s'.nSplit := by
  cases hs with
  | load t op hidle hdisc hlock => exact ⟨Nat.le_refl _, Nat.le_refl _⟩
  | casOk t op exp hpc heq => exact ⟨Nat.le_add_right _ _, Nat.le_add_right _ _⟩
  | casFail t op exp hpc => exact ⟨Nat.le_refl _, Nat.le_refl _⟩
  | stableRead t hst => exact ⟨Nat.le_refl _, Nat.le_refl _⟩

theorem reach_mono {s1 s2 : State} (h : Reach s1 s2) :
    s1.nIns ≤ s2.nIns ∧ s1.nSplit ≤ s2.nSplit := by
  induction h with
  | refl => exact ⟨Nat.le_refl _, Nat.le_refl _⟩
  | step _ hs ih =>
    have := step_mono hs
    exact ⟨Nat.le_trans ih.1 this.1, Nat.le_trans ih.2 this.2⟩

theorem ofNat29_inj_of_close {a b : Nat} (hab : a ≤ b) (hlt : b - a < 2^29)
    (h : BitVec.ofNat 29 a = BitVec.ofNat 29 b) : b = a := by
  have := congrArg BitVec.toNat h
  rw [BitVec.toNat_ofNat, BitVec.toNat_ofNat] at this
  omega

theorem add_ofNat_cancel (x : BitVec 29) {a b : Nat}
    (h : x + BitVec.ofNat 29 a = x + BitVec.ofNat 29 b) : BitVec.ofNat 29 a = BitVec.ofNat 29 b := by
  exact (BitVec.add_right_inj x).mp h

theorem equal_stable_no_completion (b0 : Body) (hb : b0.locked = false) (s1 s2 : State)
    (h1 : Reach (init b0) s1) (h12 : Reach s1 s2)
    (_hs1 : s1.word.stable = true) (_hs2 : s2.word.stable = true) (heq : s1.word = s2.word)
    (hI : s2.nIns - s1.nIns < 2^29) (hS : s2.nSplit - s1.nSplit < 2^29) :
    s2.nIns = s1.nIns ∧ s2.nSplit = s1.nSplit := by
  have c1 := counter_is_count b0 hb s1 h1
  have c2 := counter_is_count b0 hb s2 (Reach.trans h1 h12)
  have m := reach_mono h12
  rw [← heq] at c2
  constructor
  · exact ofNat29_inj_of_close m.1 hI (add_ofNat_cancel _ (c1.1.symm.trans c2.1))
  · exact ofNat29_inj_of_close m.2 hS (add_ofNat_cancel _ (c1.2.symm.trans c2.2))

theorem wrap_witness (b : Body) : b.vinsert + BitVec.ofNat 29 (2^29) = b.vinsert := by
  have e : BitVec.ofNat 29 (2^29) = 0#29 := by decide
  rw [e, BitVec.add_zero]

end Yak.Proto.VSys
