import YakModel.Proofs.NodeSetProofs
/-!
# `NodeSet`: the C04 facts (per-key consistency of a scan)

Two more invariants on top of `Inv`: `SortPc` — the result collected so far is strictly ascending
and lies below the fence of the current leaf; `StabPc K` — every key of a fixed set `K` of stored
keys that lies in the interval and below the fence of the current leaf is in the result. Keys are
never removed in this model, so a key stored when the scan was invoked is stored with an unchanged
binding for the whole duration of the scan.
-/
namespace Yak.Proto.NodeSet

/-- stored keys stay stored -/
theorem present_step {c : Cfg} {s s' : State} (hi : Inv s) (hs : Step c s s') :
    ∀ y, PresentC s.chain y → PresentC s'.chain y := by
  have hc := hi.chain
  cases hs with
  | wLock t k L hw hL hul hown hk => exact pres_setLeaf hc hL rfl (fun y hy => hy)
  | wInsert t k L hw hL =>
    refine pres_setLeaf hc hL rfl (fun y hy => ?_)
    by_cases e : y = k
    · exact mem_insertSorted.mpr (Or.inl e)
    · exact mem_insertSorted.mpr (Or.inr ⟨hy, e⟩)
  | wUnlock t k L hw hL => exact pres_setLeaf hc hL rfl (fun y hy => hy)
  | wSplit t k L h p up hw hL hh hdrop =>
    exact fun y hy => present_split hc (splitOf_step hc hL hh hdrop) y (Or.inl hy)
  | wUnlockL t k j L hw hL => exact pres_setLeaf hc hL rfl (fun y hy => hy)
  | wUnlockR t k L hw hL => exact pres_setLeaf hc hL rfl (fun y hy => hy)
  | sStart => exact fun _ h => h
  | sEnter => exact fun _ h => h
  | sLoadVer => exact fun _ h => h
  | sSnapshot => exact fun _ h => h
  | sRestart => exact fun _ h => h
  | sRedo => exact fun _ h => h
  | sFinish => exact fun _ h => h
  | sAdvance => exact fun _ h => h

theorem present_reachFrom {c : Cfg} {s s' : State} (hi : Inv s) (h : ReachFrom c s s') :
    ∀ y, PresentC s.chain y → PresentC s'.chain y := by
  induction h with
  | refl => exact fun _ h => h
  | step h1 hs ih =>
    exact fun y hy => present_step (inv_reachFrom hi h1) (step?_sound hs) y (ih y hy)

/-- at a successful validation the snapshot is the current content of the leaf -/
theorem snap_eq_of_inv {s : State} (hi : Inv s) {t a b : Nat} {ks : List Nat} {ns : List NodeRec}
    {vi vs : Nat} {snap : List Nat} {L : Leaf}
    (h : s.sc t = .run a b ks ns L.id (.snapped vi vs snap)) (hL : L ∈ s.chain)
    (hd : L.dirty = false) (hv : L.vins = vi) (hs : L.vsplit = vs) :
    snap = L.keys.filter (inRange a b) := by
  have := hi.scan t
  rw [h] at this
  obtain ⟨Lc, hLc, hid, _, hp⟩ := this
  have : Lc = L := hi.chain.eq_of_id hLc hL hid
  subst this
  exact hp.2.2 hv hs hd

/-- a stored key between the fence of `L` and the next fence is stored in `L` -/
theorem stored_in_leaf {ch : List Leaf} {nid : Nat} (hc : ChainInv ch nid) {L M : Leaf}
    (hL : L ∈ ch) (hM : M ∈ ch) {k f' : Nat} (hk : k ∈ M.keys) (hlo : L.lo ≤ k) (hf : k < f')
    (hf' : ∀ M' ∈ ch, L.lo < M'.lo → f' ≤ M'.lo) : M = L := by
  have hown := hc.keysIn M hM k hk
  rcases Nat.lt_trichotomy M.lo L.lo with hlt | heq | hgt
  · have := hown.2 L hL hlt; omega
  · exact hc.eq_of_lo hM hL heq
  · have := hf' M hM hgt; have := hown.1; omega

theorem next_fence {s : State} (hi : Inv s) {L : Leaf} (hL : L ∈ s.chain) {b : Nat}
    (hnext : ∀ n, nextOf s.chain L.id = some n → b < n.lo) :
    ∀ M ∈ s.chain, L.lo < M.lo → b + 1 ≤ M.lo := by
  intro M hM hlt
  obtain ⟨n1, n2⟩ := nextOf_spec hi.chain.sorted hi.chain.ids hL
  cases hn : nextOf s.chain L.id with
  | none => have := n1 hn M hM; omega
  | some n =>
    have := (n2 n hn).2.2 M hM hlt
    have := hnext n hn
    omega

/-! ## ascending result -/

def SortPc (ch : List Leaf) : SPc → Prop
  | .idle => True
  | .want _ _ => True
  | .run _ _ keys _ cur _ => keys.Pairwise (· < ·) ∧ ∃ L ∈ ch, L.id = cur ∧ ∀ k ∈ keys, k < L.lo
  | .fin _ _ keys _ => keys.Pairwise (· < ·)

theorem sortPc_grow {ch ch' : List Leaf} (hg : Grow ch ch') {pc : SPc} (h : SortPc ch pc) :
    SortPc ch' pc := by
  cases pc with
  | idle => trivial
  | want a b => trivial
  | run a b keys nodes cur ph =>
    obtain ⟨h1, L, hL, hid, h2⟩ := h
    obtain ⟨L', hL', e1, e2, _, _⟩ := hg L hL
    exact ⟨h1, L', hL', by rw [e1, hid], by rw [e2]; exact h2⟩
  | fin a b keys nodes => exact h

theorem pc_upd {P : SPc → Prop} {sc : Nat → SPc} (h : ∀ t, P (sc t)) (t : Nat) (pc : SPc)
    (hpc : P pc) : ∀ t', P (upd sc t pc t') := by
  intro t'
  by_cases ht : t' = t
  · subst ht; rw [upd_same]; exact hpc
  · rw [upd_other _ _ _ _ ht]; exact h t'

/-- appending a validated snapshot keeps the result ascending -/
theorem sorted_append_snap {s : State} (hi : Inv s) {L : Leaf} (hL : L ∈ s.chain) {a b : Nat}
    {ks : List Nat} (h1 : ks.Pairwise (· < ·)) (h2 : ∀ k ∈ ks, k < L.lo) :
    (ks ++ L.keys.filter (inRange a b)).Pairwise (· < ·) := by
  rw [List.pairwise_append]
  refine ⟨h1, (hi.chain.ksorted L hL).filter _, ?_⟩
  intro x hx y hy
  have := h2 x hx
  have := (hi.chain.keysIn L hL y (List.mem_filter.mp hy).1).1
  omega

theorem sort_step {c : Cfg} {s s' : State} (hi : Inv s) (hs : Step c s s')
    (h : ∀ t, SortPc s.chain (s.sc t)) : ∀ t, SortPc s'.chain (s'.sc t) := by
  have hg := grow_step hi hs
  cases hs with
  | wLock => exact fun t => sortPc_grow hg (h t)
  | wInsert => exact fun t => sortPc_grow hg (h t)
  | wUnlock => exact fun t => sortPc_grow hg (h t)
  | wSplit => exact fun t => sortPc_grow hg (h t)
  | wUnlockL => exact fun t => sortPc_grow hg (h t)
  | wUnlockR => exact fun t => sortPc_grow hg (h t)
  | sStart t a b h0 => exact pc_upd (P := SortPc s.chain) h t _ trivial
  | sEnter t a b L h0 hL hown =>
    exact pc_upd (P := SortPc s.chain) h t _
      ⟨List.Pairwise.nil, L, hL, rfl, fun k hk => by cases hk⟩
  | sLoadVer t a b ks ns L h0 hL hst =>
    refine pc_upd (P := SortPc s.chain) h t _ ?_
    have := h t; rw [h0] at this; exact this
  | sSnapshot t a b ks ns vi vs L h0 hL =>
    refine pc_upd (P := SortPc s.chain) h t _ ?_
    have := h t; rw [h0] at this; exact this
  | sRestart t a b ks ns vi vs snap L h0 hL hst hne =>
    exact pc_upd (P := SortPc s.chain) h t _ trivial
  | sRedo t a b ks ns vi vs snap L h0 hL hst hs hne =>
    refine pc_upd (P := SortPc s.chain) h t _ ?_
    have := h t; rw [h0] at this; exact this
  | sFinish t a b ks ns vi vs snap L h0 hL hst hs hv hnext =>
    refine pc_upd (P := SortPc s.chain) h t _ ?_
    have := h t; rw [h0] at this
    obtain ⟨h1, Lc, hLc, hid, h2⟩ := this
    have : Lc = L := hi.chain.eq_of_id hLc hL hid
    subst this
    rw [snap_eq_of_inv hi h0 hLc hst.2 hv hs]
    exact sorted_append_snap hi hLc h1 h2
  | sAdvance t a b ks ns vi vs snap L n h0 hL hst hs hv hnext hle =>
    refine pc_upd (P := SortPc s.chain) h t _ ?_
    have := h t; rw [h0] at this
    obtain ⟨h1, Lc, hLc, hid, h2⟩ := this
    have : Lc = L := hi.chain.eq_of_id hLc hL hid
    subst this
    obtain ⟨_, n2⟩ := nextOf_spec hi.chain.sorted hi.chain.ids hLc
    obtain ⟨hn, hlt, _⟩ := n2 n hnext
    rw [snap_eq_of_inv hi h0 hLc hst.2 hv hs]
    refine ⟨sorted_append_snap hi hLc h1 h2, n, hn, rfl, ?_⟩
    intro k hk
    rcases List.mem_append.mp hk with hk' | hk'
    · have := h2 k hk'; omega
    · exact (hi.chain.keysIn Lc hLc k (List.mem_filter.mp hk').1).2 n hn hlt

theorem sort_reach {c : Cfg} {s : State} (h : Reach c s) : ∀ t, SortPc s.chain (s.sc t) := by
  induction h with
  | init => exact fun _ => trivial
  | step h1 hs ih => exact sort_step (inv_reach h1) (step?_sound hs) ih

/-! ## keys stored at invocation are returned -/

def StabPc (K : Nat → Prop) (ch : List Leaf) : SPc → Prop
  | .idle => True
  | .want _ _ => True
  | .run a b keys _ cur _ =>
    ∃ L ∈ ch, L.id = cur ∧ ∀ k, K k → a ≤ k → k ≤ b → k < L.lo → k ∈ keys
  | .fin a b keys _ => ∀ k, K k → a ≤ k → k ≤ b → k ∈ keys

structure StabInv (K : Nat → Prop) (t : Nat) (s : State) : Prop where
  pres : ∀ k, K k → PresentC s.chain k
  pc : StabPc K s.chain (s.sc t)

theorem stabPc_grow {K : Nat → Prop} {ch ch' : List Leaf} (hg : Grow ch ch') {pc : SPc}
    (h : StabPc K ch pc) : StabPc K ch' pc := by
  cases pc with
  | idle => trivial
  | want a b => trivial
  | run a b keys nodes cur ph =>
    obtain ⟨L, hL, hid, h2⟩ := h
    obtain ⟨L', hL', e1, e2, _, _⟩ := hg L hL
    exact ⟨L', hL', by rw [e1, hid], by rw [e2]; exact h2⟩
  | fin a b keys nodes => exact h

theorem one_upd {P : SPc → Prop} {sc : Nat → SPc} {t : Nat} (h : P (sc t)) (t0 : Nat) (pc : SPc)
    (hpc : t = t0 → P pc) : P (upd sc t0 pc t) := by
  by_cases ht : t = t0
  · subst ht; rw [upd_same]; exact hpc rfl
  · rw [upd_other _ _ _ _ ht]; exact h

/-- a validated snapshot contains every stored key of the interval between the fence of the leaf
    and the new frontier -/
theorem stab_validate {K : Nat → Prop} {s : State} (hi : Inv s) (hpres : ∀ k, K k → PresentC s.chain k)
    {L : Leaf} (hL : L ∈ s.chain) {a b f' : Nat} {ks : List Nat}
    (hold : ∀ k, K k → a ≤ k → k ≤ b → k < L.lo → k ∈ ks)
    (hf' : ∀ M ∈ s.chain, L.lo < M.lo → f' ≤ M.lo) :
    ∀ k, K k → a ≤ k → k ≤ b → k < f' → k ∈ ks ++ L.keys.filter (inRange a b) := by
  intro k hK ha hb hf
  by_cases hlt : k < L.lo
  · exact List.mem_append_left _ (hold k hK ha hb hlt)
  · obtain ⟨M, hM, hk⟩ := hpres k hK
    have : M = L := stored_in_leaf hi.chain hL hM hk (by omega) hf hf'
    subst this
    exact List.mem_append_right _ (List.mem_filter.mpr ⟨hk, by simp [inRange, ha, hb]⟩)

theorem stab_step {K : Nat → Prop} {t : Nat} {c : Cfg} {s s' : State} (hi : Inv s)
    (hs : Step c s s') (h : StabInv K t s) : StabInv K t s' := by
  have hg := grow_step hi hs
  have hp := present_step hi hs
  refine ⟨fun k hk => hp k (h.pres k hk), ?_⟩
  have hpc := h.pc
  cases hs with
  | wLock => exact stabPc_grow hg hpc
  | wInsert => exact stabPc_grow hg hpc
  | wUnlock => exact stabPc_grow hg hpc
  | wSplit => exact stabPc_grow hg hpc
  | wUnlockL => exact stabPc_grow hg hpc
  | wUnlockR => exact stabPc_grow hg hpc
  | sStart t0 a b h0 => exact one_upd (P := StabPc K s.chain) hpc t0 _ (fun _ => trivial)
  | sEnter t0 a b L h0 hL hown =>
    refine one_upd (P := StabPc K s.chain) hpc t0 _ (fun _ => ⟨L, hL, rfl, ?_⟩)
    intro k _ ha _ hlt
    have := hown.1
    omega
  | sLoadVer t0 a b ks ns L h0 hL hst =>
    refine one_upd (P := StabPc K s.chain) hpc t0 _ (fun e => ?_)
    subst e; rw [h0] at hpc; exact hpc
  | sSnapshot t0 a b ks ns vi vs L h0 hL =>
    refine one_upd (P := StabPc K s.chain) hpc t0 _ (fun e => ?_)
    subst e; rw [h0] at hpc; exact hpc
  | sRestart t0 a b ks ns vi vs snap L h0 hL hst hne =>
    exact one_upd (P := StabPc K s.chain) hpc t0 _ (fun _ => trivial)
  | sRedo t0 a b ks ns vi vs snap L h0 hL hst hs hne =>
    refine one_upd (P := StabPc K s.chain) hpc t0 _ (fun e => ?_)
    subst e; rw [h0] at hpc; exact hpc
  | sFinish t0 a b ks ns vi vs snap L h0 hL hst hs hv hnext =>
    refine one_upd (P := StabPc K s.chain) hpc t0 _ (fun e => ?_)
    subst e
    rw [h0] at hpc
    obtain ⟨Lc, hLc, hid, hold⟩ := hpc
    have : Lc = L := hi.chain.eq_of_id hLc hL hid
    subst this
    rw [snap_eq_of_inv hi h0 hLc hst.2 hv hs]
    intro k hK ha hb
    exact stab_validate hi h.pres hLc hold (next_fence hi hLc hnext) k hK ha hb (by omega)
  | sAdvance t0 a b ks ns vi vs snap L n h0 hL hst hs hv hnext hle =>
    refine one_upd (P := StabPc K s.chain) hpc t0 _ (fun e => ?_)
    subst e
    rw [h0] at hpc
    obtain ⟨Lc, hLc, hid, hold⟩ := hpc
    have : Lc = L := hi.chain.eq_of_id hLc hL hid
    subst this
    obtain ⟨_, n2⟩ := nextOf_spec hi.chain.sorted hi.chain.ids hLc
    obtain ⟨hn, _, hmin⟩ := n2 n hnext
    rw [snap_eq_of_inv hi h0 hLc hst.2 hv hs]
    exact ⟨n, hn, rfl, stab_validate hi h.pres hLc hold hmin⟩

theorem stab_reachFrom {K : Nat → Prop} {t : Nat} {c : Cfg} {s s' : State} (hi : Inv s)
    (h : StabInv K t s) (hr : ReachFrom c s s') : StabInv K t s' := by
  induction hr with
  | refl => exact h
  | step h1 hs ih => exact stab_step (inv_reachFrom hi h1) (step?_sound hs) ih

/-! ## the C04 theorems -/

theorem scan_sorted_in_interval {c : Cfg} {s : State} (h : Reach c s) {t a b : Nat}
    {keys : List Nat} {nodes : List NodeRec} (hfin : s.sc t = .fin a b keys nodes) :
    keys.Pairwise (· < ·) ∧ ∀ k ∈ keys, a ≤ k ∧ k ≤ b := by
  have h1 := sort_reach h t
  have h2 := (inv_reach h).scan t
  rw [hfin] at h1 h2
  exact ⟨h1, fun k hk => ⟨(h2.sub k hk).1, (h2.sub k hk).2.1⟩⟩

theorem scan_result_was_present {c : Cfg} {s : State} (h : Reach c s) {t a b : Nat}
    {keys : List Nat} {nodes : List NodeRec} (hfin : s.sc t = .fin a b keys nodes) :
    ∀ k ∈ keys, Present s k := by
  have h2 := (inv_reach h).scan t
  rw [hfin] at h2
  exact fun k hk => (h2.sub k hk).2.2

/-- the state right after `sStart` satisfies the stability invariant for the keys stored then -/
theorem stab_start {c : Cfg} {s0 s1 : State} {t a b : Nat}
    (hstart : step? c s0 (.sStart t a b) = some s1) :
    s1.chain = s0.chain ∧ s1.sc t = .want a b := by
  simp only [step?] at hstart
  split at hstart
  · cases hstart
    exact ⟨rfl, upd_same _ _ _⟩
  · cases hstart

theorem scan_keeps_stable_keys {c : Cfg} {s0 s1 s : State} (h0 : Reach c s0) {t a b : Nat}
    (hstart : step? c s0 (.sStart t a b) = some s1) (hr : ReachFrom c s1 s)
    {keys : List Nat} {nodes : List NodeRec} (hfin : s.sc t = .fin a b keys nodes) {k : Nat}
    (hp : Present s0 k) (ha : a ≤ k) (hb : k ≤ b) : k ∈ keys := by
  obtain ⟨e1, e2⟩ := stab_start hstart
  have hi1 : Inv s1 := inv_reach (Reach.step h0 hstart)
  have hst : StabInv (Present s0) t s1 := ⟨fun k hk => by rw [e1]; exact hk, by rw [e2]; trivial⟩
  have := (stab_reachFrom hi1 hst hr).pc
  rw [hfin] at this
  exact this k hp ha hb

/-! ## trace acceptor and `ReachFrom` -/

theorem ReachFrom.head {c : Cfg} {s s1 s' : State} {e : Event} (h : step? c s e = some s1)
    (hr : ReachFrom c s1 s') : ReachFrom c s s' := by
  induction hr with
  | refl => exact ReachFrom.step ReachFrom.refl h
  | step _ hs ih => exact ReachFrom.step ih hs

theorem reachFrom_exec {c : Cfg} {s s' : State} (es : List Event) (he : exec c s es = some s') :
    ReachFrom c s s' := by
  induction es generalizing s with
  | nil => simp [exec] at he; subst he; exact ReachFrom.refl
  | cons e es ih =>
    simp only [exec] at he
    cases hs : step? c s e with
    | none => rw [hs] at he; simp at he
    | some s1 =>
      rw [hs] at he
      exact ReachFrom.head hs (ih he)

end Yak.Proto.NodeSet
