import YakModel.Proofs.LeafLin
/-!
# `Leaf`: the theorems behind C01
-/
namespace Yak.Proto.Leaf
open Event OpKind

/-- put 1; T1 starts `get 1` and validates its lookup; T2 removes key 1 up to the clear; T1 loads the
    cleared cell; T2 finishes (no counter bump); T1's final check passes: OK with the null value. -/
def d1Trace : List Event :=
  [invoke 0 (put 1 7 false), ldVer 0, ldPerm 0, ldKeys 0, ldVer2 0, lock 0, setIns 0, stKey 0, stVal 0,
   stPerm 0, unlock 0, ret 0,
   invoke 1 (get 1), ldVer 1, ldPerm 1, ldKeys 1, ldVer2 1,
   invoke 2 (remove 1), ldVer 2, ldPerm 2, ldKeys 2, ldVer2 2, lock 2, relook 2, clearVal 2,
   ldVal 1,
   stPerm 2, unlock 2, ret 2,
   ldVer3 1, ret 1]

theorem d1_hist : (exec cfgD1 init d1Trace).map (·.hist) =
    some [(0, .put 1 7 false, .ok none, 0, 11), (2, .remove 1, .ok none, 17, 28),
          (1, .get 1, .ok none, 12, 30)] := by
  decide

theorem leaf_D1_counterexample :
    ∃ s, Reach cfgD1 s ∧ ∃ t k i j, (t, OpKind.get k, Res.ok none, i, j) ∈ s.hist := by
  have h := d1_hist
  cases hs : exec cfgD1 init d1Trace with
  | none => rw [hs] at h; simp at h
  | some s =>
    rw [hs] at h
    simp only [Option.map_some, Option.some.injEq] at h
    exact ⟨s, reach_exec Reach.init _ _ hs, 1, 1, 12, 30, by rw [h]; simp⟩

/-- everything the induction over `Reach` carries: the state invariants, a history `H` of abstract
    maps with the hindsight facts, and a time-indexed linearization of the recorded history -/
def Good (c : Cfg) (s : State) : Prop :=
  Inv1 c s ∧ ∃ H Seg extra, Inv2 s H ∧ Inv3 s H Seg extra

theorem good_reach {c : Cfg} (hfix : c.fixD1 = true) {s : State} (h : Reach c s) : Good c s := by
  refine reach_induction (P := Good c) ?_ ?_ s h
  · exact ⟨inv1_init c, _, _, _, inv2_init, inv3_init⟩
  · rintro s t s' _ ⟨I, H, Seg, extra, J, K⟩ hs
    have I' := inv1_step I hs
    obtain ⟨Seg', extra', K'⟩ := inv3_step hfix I I' J K hs
    exact ⟨I', _, Seg', extra', inv2_step I J hs, K'⟩

/-- C01: with the repaired reader every reachable history is linearizable. Linearization points:
    insert = the permutation store, update = the value store, remove = the clear of the value cell,
    every answer that leaves the map unchanged (get, remove miss, unique-insert hit) = an instant
    inside the call at which the validated snapshot was current (known in hindsight). -/
theorem leaf_linearizable (s : State) (h : Reach cfgFixed s) : Linearizable s := by
  obtain ⟨_, H, Seg, extra, _, K⟩ := good_reach (c := cfgFixed) rfl h
  exact K.linearizable

end Yak.Proto.Leaf
