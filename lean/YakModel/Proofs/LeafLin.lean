import YakModel.Proofs.LeafHind
/-!
# `Leaf`: building the linearization (`Inv3`)

The witness is kept as a time-indexed family `Seg : Nat → List Rec`: `Seg q` holds the operations
linearized at instant `q` (the writer whose step produced the `q`-th state first, then readers that
observed that state, in hindsight). The linearization is `Seg 0 ++ Seg 1 ++ … ++ Seg now`.
-/
namespace Yak.Proto.Leaf

/-! ### sequential replay -/

def run (m : Spec) : List Rec → Spec
  | [] => m
  | r :: rs => run (specStep m r.op).1 rs

def ReplayTo (m : Spec) (l : List Rec) (m' : Spec) : Prop := replay m l ∧ run m l = m'

theorem replayTo_nil (m : Spec) : ReplayTo m [] m := ⟨trivial, rfl⟩

theorem replayTo_append {m m1 m2 : Spec} {l1 l2 : List Rec} (h1 : ReplayTo m l1 m1)
    (h2 : ReplayTo m1 l2 m2) : ReplayTo m (l1 ++ l2) m2 := by
  induction l1 generalizing m with
  | nil => obtain ⟨_, e⟩ := h1; simp only [run] at e; subst e; exact h2
  | cons r rs ih =>
    obtain ⟨⟨a, b⟩, e⟩ := h1
    have := ih (m := (specStep m r.op).1) ⟨b, e⟩
    exact ⟨⟨a, this.1⟩, this.2⟩

theorem replayTo_single {m m' : Spec} {r : Rec} (h : specStep m r.op = (m', r.res)) :
    ReplayTo m [r] m' := by
  refine ⟨⟨by rw [h], trivial⟩, ?_⟩
  simp only [run, h]

theorem replayTo_map {m m' : Spec} {l : List Rec} (f : Rec → Rec)
    (hf : ∀ x, (f x).op = x.op ∧ (f x).res = x.res) (h : ReplayTo m l m') :
    ReplayTo m (l.map f) m' := by
  induction l generalizing m with
  | nil => exact h
  | cons r rs ih =>
    obtain ⟨⟨a, b⟩, e⟩ := h
    have := ih (m := (specStep m r.op).1) ⟨b, e⟩
    simp only [List.map_cons, ReplayTo, replay, run, (hf r).1, (hf r).2]
    exact ⟨⟨a, this.1⟩, this.2⟩

/-! ### the flattened timeline -/

def lin (Seg : Nat → List Rec) (n : Nat) : List Rec := (List.range (n + 1)).flatMap Seg

theorem lin_zero (Seg : Nat → List Rec) : lin Seg 0 = Seg 0 := by
  simp [lin]

theorem lin_succ (Seg : Nat → List Rec) (n : Nat) : lin Seg (n + 1) = lin Seg n ++ Seg (n + 1) := by
  simp only [lin]
  rw [List.range_succ, List.flatMap_append]
  simp

theorem mem_lin {Seg : Nat → List Rec} {n : Nat} {r : Rec} : r ∈ lin Seg n ↔ ∃ q, q ≤ n ∧ r ∈ Seg q := by
  simp only [lin, List.mem_flatMap, List.mem_range]
  constructor
  · rintro ⟨q, h1, h2⟩; exact ⟨q, by omega, h2⟩
  · rintro ⟨q, h1, h2⟩; exact ⟨q, by omega, h2⟩

theorem lin_congr {Seg Seg' : Nat → List Rec} {n : Nat} (h : ∀ q, q ≤ n → Seg' q = Seg q) :
    lin Seg' n = lin Seg n := by
  induction n with
  | zero => rw [lin_zero, lin_zero, h 0 (Nat.le_refl _)]
  | succ n ih =>
    rw [lin_succ, lin_succ, h (n + 1) (Nat.le_refl _), ih (fun q hq => h q (by omega))]

theorem lin_map (Seg : Nat → List Rec) (f : Rec → Rec) (n : Nat) :
    lin (fun q => (Seg q).map f) n = (lin Seg n).map f := by
  simp only [lin, List.map_flatMap]

theorem lin_insert (Seg : Nat → List Rec) (r : Rec) {q0 n : Nat} (h : q0 ≤ n) :
    (lin (upd Seg q0 (Seg q0 ++ [r])) n).Perm (r :: lin Seg n) := by
  induction n with
  | zero =>
    have : q0 = 0 := by omega
    subst this
    rw [lin_zero, lin_zero, upd_same]
    exact List.perm_append_singleton _ _
  | succ n ih =>
    rw [lin_succ, lin_succ]
    by_cases hq : q0 ≤ n
    · rw [upd_other _ _ _ _ (by omega : n + 1 ≠ q0)]
      exact (ih hq).append_right _
    · have : q0 = n + 1 := by omega
      subst this
      rw [upd_same, lin_congr (Seg := Seg) (fun q hq' => upd_other _ _ _ _ (by omega))]
      rw [← List.append_assoc]
      exact List.perm_append_singleton _ _

theorem replay_lin {Seg : Nat → List Rec} {H : Nat → Spec} {m0 : Spec} {n : Nat}
    (hz : ReplayTo m0 (Seg 0) (H 0))
    (hs : ∀ q, q < n → ReplayTo (H q) (Seg (q + 1)) (H (q + 1))) : ReplayTo m0 (lin Seg n) (H n) := by
  induction n with
  | zero => rw [lin_zero]; exact hz
  | succ n ih =>
    rw [lin_succ]
    exact replayTo_append (ih (fun q hq => hs q (by omega))) (hs n (Nat.lt_succ_self _))

theorem pairwise_of_forall {α} {R : α → α → Prop} {l : List α} (h : ∀ a ∈ l, ∀ b ∈ l, R a b) :
    l.Pairwise R := by
  induction l with
  | nil => exact List.Pairwise.nil
  | cons x xs ih =>
    refine List.pairwise_cons.mpr ⟨fun b hb => h x (List.mem_cons_self ..) b (List.mem_cons_of_mem _ hb), ?_⟩
    exact ih (fun a ha b hb => h a (List.mem_cons_of_mem _ ha) b (List.mem_cons_of_mem _ hb))

theorem pairwise_lin {Seg : Nat → List Rec} {R : Rec → Rec → Prop} {n : Nat}
    (h : ∀ q1 q2, q1 ≤ q2 → q2 ≤ n → ∀ a ∈ Seg q1, ∀ b ∈ Seg q2, R a b) : (lin Seg n).Pairwise R := by
  induction n with
  | zero =>
    rw [lin_zero]
    exact pairwise_of_forall (fun a ha b hb => h 0 0 (Nat.le_refl _) (Nat.le_refl _) a ha b hb)
  | succ n ih =>
    rw [lin_succ, List.pairwise_append]
    refine ⟨ih (fun q1 q2 h1 h2 => h q1 q2 h1 (by omega)), ?_, ?_⟩
    · exact pairwise_of_forall (fun a ha b hb => h _ _ (Nat.le_refl _) (Nat.le_refl _) a ha b hb)
    · intro a ha b hb
      obtain ⟨q, hq, ha'⟩ := mem_lin.mp ha
      exact h q (n + 1) (by omega) (Nat.le_refl _) a ha' b hb


/-! ### pending operations that are past their linearization point -/

def Pc.op? : Pc → Option OpKind
  | .idle => none
  | .start op | .haveV op _ | .haveP op _ _ | .looked op _ _ | .valid op _ _ | .gotVal op _ _
  | .locked op _ | .relooked op _ | .insFlag op | .keyed op _ | .valued op _ | .published op _
  | .cleared op _ | .done op _ => some op

/-- a writer that has taken effect (update stored / insert published / cell cleared) and not yet
    returned -/
def Pc.pastLP : Pc → Bool
  | .published _ _ | .cleared _ _ => true
  | .done op (.ok none) => !op.isGet
  | _ => false

theorem isPendingRec_iff (s : State) (r : Rec) :
    IsPendingRec s r ↔ r.t ∈ s.running ∧ r.ret = none ∧ r.inv = s.inv r.t ∧ (s.pc r.t).op? = some r.op := by
  unfold IsPendingRec
  cases s.pc r.t <;> simp [Pc.op?, eq_comm]

theorem pastLP_ne_idle {p : Pc} (h : p.pastLP = true) : p ≠ .idle := by
  intro e; rw [e] at h; cases h

structure Inv3 (s : State) (H : Nat → Spec) (Seg : Nat → List Rec) (extra : List Rec) : Prop where
  perm : (lin Seg s.now).Perm (completedOf s ++ extra)
  ext_pend : ∀ r ∈ extra, IsPendingRec s r ∧ (s.pc r.t).pastLP = true ∧ r.res = .ok none
  ext_nodup : (extra.map (·.t)).Nodup
  ext_cover : ∀ t, (s.pc t).pastLP = true → ∃ r ∈ extra, r.t = t
  seg_time : ∀ q, ∀ r ∈ Seg q, r.inv < q ∧ q ≤ s.now ∧ ∀ j, r.ret = some j → q ≤ j
  h0 : H 0 = fun _ => none
  seg_replay : ∀ q, q < s.now → ReplayTo (H q) (Seg (q + 1)) (H (q + 1))

theorem inv3_init : Inv3 init (fun _ _ => none) (fun _ => []) [] := by
  constructor
  · simp [lin, completedOf, init]
  · intro r h; cases h
  · exact List.nodup_nil
  · intro t h; simp [init, Pc.pastLP] at h
  · intro q r h; cases h
  · rfl
  · intro q h; simp [init] at h

theorem Inv3.seg_empty {s H Seg extra} (K : Inv3 s H Seg extra) (q : Nat) (hq : s.now < q) : Seg q = [] := by
  cases h : Seg q with
  | nil => rfl
  | cons r rs =>
    have := (K.seg_time q r (by rw [h]; exact List.mem_cons_self ..)).2.1
    omega

theorem Inv3.linearizable {s H Seg extra} (K : Inv3 s H Seg extra) : Linearizable s := by
  refine ⟨extra, lin Seg s.now, fun r hr => (K.ext_pend r hr).1, K.ext_nodup, K.perm, ?_, ?_⟩
  · apply pairwise_lin
    intro q1 q2 h12 _ a ha b hb
    have h1 := K.seg_time q1 a ha
    have h2 := K.seg_time q2 b hb
    unfold precedes
    cases hr : b.ret with
    | none => exact fun h => h
    | some j =>
      have := h2.2.2 j hr
      show ¬ (j < a.inv)
      omega
  · have hz : Seg 0 = [] := by
      cases h : Seg 0 with
      | nil => rfl
      | cons r rs =>
        have := (K.seg_time 0 r (by rw [h]; exact List.mem_cons_self ..)).1
        omega
    have := replay_lin (Seg := Seg) (H := H) (m0 := fun _ => none) (n := s.now)
      (by rw [hz, K.h0]; exact replayTo_nil _) K.seg_replay
    exact this.1

/-! ### how the witness evolves: four kinds of steps -/

theorem replay_extend {H : Nat → Spec} {Seg' : Nat → List Rec} {n : Nat} {m : Spec}
    (hold : ∀ q, q < n → ReplayTo (H q) (Seg' (q + 1)) (H (q + 1)))
    (hnew : ReplayTo (H n) (Seg' (n + 1)) m) :
    ∀ q, q < n + 1 → ReplayTo (upd H (n + 1) m q) (Seg' (q + 1)) (upd H (n + 1) m (q + 1)) := by
  intro q hq
  rw [upd_other _ _ _ _ (by omega : q ≠ n + 1)]
  by_cases h : q < n
  · rw [upd_other _ _ _ _ (by omega : q + 1 ≠ n + 1)]; exact hold q h
  · have : q = n := by omega
    subst this
    rw [upd_same]; exact hnew

theorem completedOf_hist {s s' : State} (h : s'.hist = s.hist) : completedOf s' = completedOf s := by
  simp only [completedOf, h]

theorem completedOf_ret {s s' : State} {t op res i j} (h : s'.hist = s.hist ++ [(t, op, res, i, j)]) :
    completedOf s' = completedOf s ++ [⟨t, op, res, i, some j⟩] := by
  simp only [completedOf, h, List.map_append, List.map_cons, List.map_nil]

theorem mem_completedOf_ret {s : State} {r : Rec} (h : r ∈ completedOf s) : r.ret ≠ none := by
  simp only [completedOf, List.mem_map] at h
  obtain ⟨⟨t, op, res, i, j⟩, _, e⟩ := h
  rw [← e]; simp

/-- transport of a pending record across a step that leaves its thread's operation running -/
theorem pending_transfer {s s' : State} {r : Rec} (h : IsPendingRec s r)
    (hpc : (s'.pc r.t).op? = (s.pc r.t).op?) (hinv : s'.inv r.t = s.inv r.t)
    (hrun : r.t ∈ s'.running) : IsPendingRec s' r := by
  rw [isPendingRec_iff] at h ⊢
  exact ⟨hrun, h.2.1, by rw [hinv]; exact h.2.2.1, by rw [hpc]; exact h.2.2.2⟩

theorem inv3_neutral {s s' : State} {t : Nat} {H Seg extra} (K : Inv3 s H Seg extra)
    (hH : H s.now = abs s) (hnow : s'.now = s.now + 1)
    (hother : ∀ t', t' ≠ t → s'.pc t' = s.pc t')
    (hinv : ∀ t', s.pc t' ≠ .idle → s'.inv t' = s.inv t')
    (hrun : ∀ t', s'.pc t' ≠ .idle → t' ∈ s'.running)
    (habs : abs s' = abs s) (hhist : s'.hist = s.hist)
    (hpl : (s'.pc t).pastLP = (s.pc t).pastLP)
    (hop : (s.pc t).pastLP = true → (s'.pc t).op? = (s.pc t).op?) :
    Inv3 s' (upd H s'.now (abs s')) Seg extra := by
  have hpl' : ∀ t', (s'.pc t').pastLP = (s.pc t').pastLP := by
    intro t'; by_cases e : t' = t
    · rw [e]; exact hpl
    · rw [hother t' e]
  have hop' : ∀ t', (s.pc t').pastLP = true → (s'.pc t').op? = (s.pc t').op? := by
    intro t' h; by_cases e : t' = t
    · subst e; exact hop h
    · rw [hother t' e]
  constructor
  · rw [hnow, lin_succ, K.seg_empty (s.now + 1) (Nat.lt_succ_self _), List.append_nil,
      completedOf_hist hhist]
    exact K.perm
  · intro r hr
    obtain ⟨h1, h2, h3⟩ := K.ext_pend r hr
    have h2' : (s'.pc r.t).pastLP = true := by rw [hpl']; exact h2
    exact ⟨pending_transfer h1 (hop' _ h2) (hinv _ (pastLP_ne_idle h2)) (hrun _ (pastLP_ne_idle h2')),
      h2', h3⟩
  · exact K.ext_nodup
  · intro t' h; rw [hpl'] at h; exact K.ext_cover t' h
  · intro q r hr
    obtain ⟨h1, h2, h3⟩ := K.seg_time q r hr
    exact ⟨h1, by omega, h3⟩
  · rw [upd_other _ _ _ _ (by omega : (0 : Nat) ≠ s'.now)]; exact K.h0
  · rw [hnow]
    apply replay_extend K.seg_replay
    rw [K.seg_empty (s.now + 1) (Nat.lt_succ_self _), habs, hH]
    exact replayTo_nil _

theorem inv3_writer {s s' : State} {t : Nat} {H Seg extra} {op : OpKind} (K : Inv3 s H Seg extra)
    (hH : H s.now = abs s) (hnow : s'.now = s.now + 1)
    (hother : ∀ t', t' ≠ t → s'.pc t' = s.pc t')
    (hinv : ∀ t', s.pc t' ≠ .idle → s'.inv t' = s.inv t')
    (hrun : ∀ t', s'.pc t' ≠ .idle → t' ∈ s'.running)
    (hhist : s'.hist = s.hist)
    (hold : (s.pc t).pastLP = false) (hnew : (s'.pc t).pastLP = true)
    (hop : (s'.pc t).op? = some op) (hne : s.pc t ≠ .idle) (hlt : s.inv t < s.now)
    (hspec : specStep (abs s) op = (abs s', .ok none)) :
    Inv3 s' (upd H s'.now (abs s')) (upd Seg s'.now [⟨t, op, .ok none, s.inv t, none⟩])
      (extra ++ [⟨t, op, .ok none, s.inv t, none⟩]) := by
  have hne_t : ∀ r ∈ extra, r.t ≠ t := by
    intro r hr e
    have := (K.ext_pend r hr).2.1
    rw [e, hold] at this; cases this
  constructor
  · rw [hnow, lin_succ, upd_same, lin_congr (Seg := Seg) (fun q hq => upd_other _ _ _ _ (by omega)),
      completedOf_hist hhist, ← List.append_assoc]
    exact K.perm.append_right _
  · intro r hr
    rcases List.mem_append.mp hr with hr | hr
    · obtain ⟨h1, h2, h3⟩ := K.ext_pend r hr
      have e := hne_t r hr
      have h2' : (s'.pc r.t).pastLP = true := by rw [hother _ e]; exact h2
      exact ⟨pending_transfer h1 (by rw [hother _ e]) (hinv _ (pastLP_ne_idle h2))
        (hrun _ (pastLP_ne_idle h2')), h2', h3⟩
    · simp only [List.mem_singleton] at hr
      subst hr
      refine ⟨?_, hnew, rfl⟩
      rw [isPendingRec_iff]
      exact ⟨hrun _ (pastLP_ne_idle hnew), rfl, (hinv _ hne).symm, hop⟩
  · rw [List.map_append, List.nodup_append]
    refine ⟨K.ext_nodup, by simp, ?_⟩
    intro a ha b hb
    simp only [List.map_cons, List.map_nil, List.mem_singleton] at hb
    obtain ⟨r, hr, e⟩ := List.mem_map.mp ha
    rw [hb, ← e]; exact hne_t r hr
  · intro t' h
    by_cases e : t' = t
    · exact ⟨_, List.mem_append_right _ (List.mem_singleton_self _), e.symm⟩
    · rw [hother _ e] at h
      obtain ⟨r, hr, e'⟩ := K.ext_cover t' h
      exact ⟨r, List.mem_append_left _ hr, e'⟩
  · intro q r hr
    by_cases e : q = s'.now
    · subst e
      rw [upd_same, List.mem_singleton] at hr
      subst hr
      exact ⟨by show s.inv t < s'.now; omega, Nat.le_refl _, fun j h => by cases h⟩
    · rw [upd_other _ _ _ _ e] at hr
      obtain ⟨h1, h2, h3⟩ := K.seg_time q r hr
      exact ⟨h1, by omega, h3⟩
  · rw [upd_other _ _ _ _ (by omega : (0 : Nat) ≠ s'.now)]; exact K.h0
  · rw [hnow]
    apply replay_extend
    · intro q hq
      rw [upd_other _ _ _ _ (by omega : q + 1 ≠ s.now + 1)]
      exact K.seg_replay q hq
    · rw [upd_same, hH]
      exact replayTo_single hspec

theorem inv3_ret_reader {s s' : State} {t : Nat} {H Seg extra} {op : OpKind} {res : Res}
    (K : Inv3 s H Seg extra) (hH : H s.now = abs s) (hnow : s'.now = s.now + 1)
    (hother : ∀ t', t' ≠ t → s'.pc t' = s.pc t')
    (hinv : ∀ t', s.pc t' ≠ .idle → s'.inv t' = s.inv t')
    (hrun : ∀ t', s'.pc t' ≠ .idle → t' ∈ s'.running)
    (hhist : s'.hist = s.hist ++ [(t, op, res, s.inv t, s.now)]) (habs : abs s' = abs s)
    (hold : (s.pc t).pastLP = false) (hnew : s'.pc t = .idle)
    {q0 : Nat} (h1 : s.inv t < q0) (h2 : q0 ≤ s.now) (hspec : specStep (H q0) op = (H q0, res)) :
    Inv3 s' (upd H s'.now (abs s'))
      (upd Seg q0 (Seg q0 ++ [⟨t, op, res, s.inv t, some s.now⟩])) extra := by
  have hne_t : ∀ r ∈ extra, r.t ≠ t := by
    intro r hr e
    have := (K.ext_pend r hr).2.1
    rw [e, hold] at this; cases this
  have hemp := K.seg_empty (s.now + 1) (Nat.lt_succ_self _)
  constructor
  · rw [hnow, lin_succ, upd_other _ _ _ _ (by omega : s.now + 1 ≠ q0), hemp, List.append_nil,
      completedOf_ret hhist]
    refine (lin_insert Seg _ h2).trans ?_
    refine (List.Perm.cons _ K.perm).trans ?_
    rw [List.append_assoc]
    exact (List.perm_middle (l₁ := completedOf s) (l₂ := extra)).symm
  · intro r hr
    obtain ⟨h1', h2', h3'⟩ := K.ext_pend r hr
    have e := hne_t r hr
    have h2'' : (s'.pc r.t).pastLP = true := by rw [hother _ e]; exact h2'
    exact ⟨pending_transfer h1' (by rw [hother _ e]) (hinv _ (pastLP_ne_idle h2'))
      (hrun _ (pastLP_ne_idle h2'')), h2'', h3'⟩
  · exact K.ext_nodup
  · intro t' h
    by_cases e : t' = t
    · rw [e, hnew] at h; cases h
    · rw [hother _ e] at h; exact K.ext_cover t' h
  · intro q r hr
    by_cases e : q = q0
    · subst e
      rw [upd_same] at hr
      rcases List.mem_append.mp hr with hr | hr
      · obtain ⟨a, b, c⟩ := K.seg_time q r hr
        exact ⟨a, by omega, c⟩
      · rw [List.mem_singleton] at hr
        subst hr
        exact ⟨h1, by omega, fun j hj => by cases hj; exact h2⟩
    · rw [upd_other _ _ _ _ e] at hr
      obtain ⟨a, b, c⟩ := K.seg_time q r hr
      exact ⟨a, by omega, c⟩
  · rw [upd_other _ _ _ _ (by omega : (0 : Nat) ≠ s'.now)]; exact K.h0
  · rw [hnow]
    apply replay_extend
    · intro q hq
      by_cases e : q + 1 = q0
      · subst e
        rw [upd_same]
        exact replayTo_append (K.seg_replay q hq) (replayTo_single hspec)
      · rw [upd_other _ _ _ _ e]
        exact K.seg_replay q hq
    · rw [upd_other _ _ _ _ (by omega : s.now + 1 ≠ q0), hemp, habs, hH]
      exact replayTo_nil _

theorem inj_of_nodup_map {α β} (f : α → β) {l : List α} (h : (l.map f).Nodup) {a b : α}
    (ha : a ∈ l) (hb : b ∈ l) (e : f a = f b) : a = b := by
  induction l with
  | nil => cases ha
  | cons x xs ih =>
    rw [List.map_cons, List.nodup_cons] at h
    rcases List.mem_cons.mp ha with ha' | ha' <;> rcases List.mem_cons.mp hb with hb' | hb'
    · rw [ha', hb']
    · rw [ha'] at e; exact absurd (e ▸ List.mem_map_of_mem hb') h.1
    · rw [hb'] at e; exact absurd (e ▸ List.mem_map_of_mem ha') h.1
    · exact ih h.2 ha' hb'

theorem nodup_of_nodup_map {α β} (f : α → β) {l : List α} (h : (l.map f).Nodup) : l.Nodup := by
  induction l with
  | nil => exact List.nodup_nil
  | cons x xs ih =>
    rw [List.map_cons, List.nodup_cons] at h
    exact List.nodup_cons.mpr ⟨fun hx => h.1 (List.mem_map_of_mem hx), ih h.2⟩

theorem inv3_ret_writer {s s' : State} {t : Nat} {H Seg extra} {op : OpKind}
    (K : Inv3 s H Seg extra) (hH : H s.now = abs s) (hnow : s'.now = s.now + 1)
    (hother : ∀ t', t' ≠ t → s'.pc t' = s.pc t')
    (hinv : ∀ t', s.pc t' ≠ .idle → s'.inv t' = s.inv t')
    (hrun : ∀ t', s'.pc t' ≠ .idle → t' ∈ s'.running)
    (hhist : s'.hist = s.hist ++ [(t, op, .ok none, s.inv t, s.now)]) (habs : abs s' = abs s)
    (hold : (s.pc t).pastLP = true) (hop : (s.pc t).op? = some op) (hnew : s'.pc t = .idle) :
    ∃ Seg' extra', Inv3 s' (upd H s'.now (abs s')) Seg' extra' := by
  obtain ⟨r0, hr0, et⟩ := K.ext_cover t hold
  obtain ⟨hp0, _, hres0⟩ := K.ext_pend r0 hr0
  rw [isPendingRec_iff, et, hop] at hp0
  obtain ⟨_, hret0, hinv0, hop0⟩ := hp0
  have er0 : r0 = ⟨t, op, .ok none, s.inv t, none⟩ := by
    cases r0; simp only at et hret0 hinv0 hop0 hres0; simp [et, hret0, hinv0, Option.some.inj hop0, hres0]
  subst er0
  let r0 : Rec := ⟨t, op, .ok none, s.inv t, none⟩
  let r' : Rec := ⟨t, op, .ok none, s.inv t, some s.now⟩
  let f : Rec → Rec := fun x => if x = r0 then r' else x
  have hf_ne : ∀ x, x ≠ r0 → f x = x := fun x hx => by simp only [f, hx, if_false]
  have hf_r0 : f r0 = r' := by simp only [f, if_true]
  have hf_pres : ∀ x, (f x).op = x.op ∧ (f x).res = x.res := by
    intro x; by_cases e : x = r0
    · subst e; rw [hf_r0]; exact ⟨rfl, rfl⟩
    · rw [hf_ne x e]; exact ⟨rfl, rfl⟩
  have hnd : extra.Nodup := nodup_of_nodup_map _ K.ext_nodup
  have hne_t : ∀ x ∈ extra, x ≠ r0 → x.t ≠ t := by
    intro x hx hne e
    exact hne (inj_of_nodup_map (·.t) K.ext_nodup hx hr0 e)
  have hemp := K.seg_empty (s.now + 1) (Nat.lt_succ_self _)
  refine ⟨fun q => (Seg q).map f, extra.erase r0, ?_⟩
  constructor
  · rw [hnow, lin_succ, hemp, List.map_nil, List.append_nil, lin_map, completedOf_ret hhist]
    have h1 : ((completedOf s).map f) = completedOf s := by
      rw [List.map_congr_left (g := id) ?_, List.map_id]
      intro x hx
      exact hf_ne x (fun e => mem_completedOf_ret hx (by rw [e]))
    have h2 : (extra.map f).Perm (r' :: extra.erase r0) := by
      refine ((List.perm_cons_erase hr0).map f).trans ?_
      rw [List.map_cons, hf_r0]
      refine List.Perm.cons _ ?_
      rw [List.map_congr_left (g := id) ?_, List.map_id]
      intro x hx
      exact hf_ne x ((hnd.mem_erase_iff.mp hx).1)
    refine (K.perm.map f).trans ?_
    rw [List.map_append, h1, List.append_assoc]
    exact (List.Perm.append_left _ h2)
  · intro x hx
    have hx' := List.mem_of_mem_erase hx
    have hxne := (hnd.mem_erase_iff.mp hx).1
    obtain ⟨h1', h2', h3'⟩ := K.ext_pend x hx'
    have e := hne_t x hx' hxne
    have h2'' : (s'.pc x.t).pastLP = true := by rw [hother _ e]; exact h2'
    exact ⟨pending_transfer h1' (by rw [hother _ e]) (hinv _ (pastLP_ne_idle h2'))
      (hrun _ (pastLP_ne_idle h2'')), h2'', h3'⟩
  · exact K.ext_nodup.sublist ((List.erase_sublist).map _)
  · intro t' h
    by_cases e : t' = t
    · rw [e, hnew] at h; cases h
    · rw [hother _ e] at h
      obtain ⟨x, hx, ex⟩ := K.ext_cover t' h
      refine ⟨x, (hnd.mem_erase_iff).mpr ⟨?_, hx⟩, ex⟩
      intro e'; rw [e'] at ex; exact e ex.symm
  · intro q x hx
    obtain ⟨y, hy, ey⟩ := List.mem_map.mp hx
    obtain ⟨a, b, c⟩ := K.seg_time q y hy
    by_cases e : y = r0
    · rw [e, hf_r0] at ey
      subst ey
      rw [e] at a
      exact ⟨a, by omega, fun j hj => by cases hj; exact b⟩
    · rw [hf_ne y e] at ey
      subst ey
      exact ⟨a, by omega, c⟩
  · rw [upd_other _ _ _ _ (by omega : (0 : Nat) ≠ s'.now)]; exact K.h0
  · rw [hnow]
    apply replay_extend (Seg' := fun q => (Seg q).map f)
    · intro q hq
      exact replayTo_map f hf_pres (K.seg_replay q hq)
    · show ReplayTo _ ((Seg (s.now + 1)).map f) _
      rw [hemp, habs, hH]
      exact replayTo_nil _

/-! ### every step is one of the four kinds -/

theorem spec_stValUpd {s s' : State} {sl k v} (hp : s'.perm = s.perm) (hk : s'.keys = s.keys)
    (hv : s'.vals = upd s.vals sl (some v)) (hl : lookupIn s.keys s.perm k = some sl) :
    specStep (abs s) (.put k v false) = (abs s', .ok none) := by
  rw [abs_stVal hp hk hv hl]
  simp [specStep]

theorem spec_stPermIns {s s' : State} {sl k v u} (hp : s'.perm = insertSorted s.keys s.perm sl k)
    (hk : s'.keys = s.keys) (hv : s'.vals = s.vals) (hks : s.keys sl = some k)
    (hn : lookupIn s.keys s.perm k = none) (hvs : s.vals sl = some v) :
    specStep (abs s) (.put k v u) = (abs s', .ok none) := by
  rw [abs_stPermIns hp hk hv hks hn hvs]
  have : abs s k = none := by simp only [abs]; rw [hn]
  simp [specStep, this]

theorem spec_clearVal {s s' : State} {sl k} (hp : s'.perm = s.perm) (hk : s'.keys = s.keys)
    (hv : s'.vals = upd s.vals sl none) (hl : lookupIn s.keys s.perm k = some sl)
    (hsome : (abs s k).isSome = true) :
    specStep (abs s) (.remove k) = (abs s', .ok none) := by
  rw [abs_stVal hp hk hv hl]
  simp [specStep, hsome]


theorem inv3_step {c : Cfg} {s s' : State} {t : Nat} {H Seg extra} (hfix : c.fixD1 = true)
    (I : Inv1 c s) (I' : Inv1 c s') (J : Inv2 s H) (K : Inv3 s H Seg extra) (h : Step c s t s') :
    ∃ Seg' extra', Inv3 s' (upd H s'.now (abs s')) Seg' extra' := by
  have hH := J.h_now
  have hnow := h.now_eq
  have hother := h.pc_other
  have hinv := h.inv_eq
  have hrun := I'.run_mem
  have hok := I.pc_ok t
  have neutral : abs s' = abs s → s'.hist = s.hist → (s'.pc t).pastLP = (s.pc t).pastLP →
      ((s.pc t).pastLP = true → (s'.pc t).op? = (s.pc t).op?) →
      ∃ Seg' extra', Inv3 s' (upd H s'.now (abs s')) Seg' extra' := fun a b c d =>
    ⟨_, _, inv3_neutral K hH hnow hother hinv hrun a b c d⟩
  have retReader : ∀ op r, s'.hist = s.hist ++ [(t, op, r, s.inv t, s.now)] → abs s' = abs s →
      s'.pc t = .idle → (s.pc t).pastLP = false →
      ∀ q0, s.inv t < q0 → q0 ≤ s.now → specStep (H q0) op = (H q0, r) →
      ∃ Seg' extra', Inv3 s' (upd H s'.now (abs s')) Seg' extra' := fun op r a b c d q0 h1 h2 h3 =>
    ⟨_, _, inv3_ret_reader (op := op) (res := r) K hH hnow hother hinv hrun a b d c h1 h2 h3⟩
  cases h
  case invoke op hpc =>
    apply neutral rfl rfl
    · dsimp only; rw [upd_same, hpc]; rfl
    · rw [hpc]; intro e; cases e
  case stValUpd k v sl hpc =>
    rw [hpc] at hok
    have hl : lookupIn s.keys s.perm k = some sl := hok.2.symm
    refine ⟨_, _, inv3_writer (op := .put k v false) K hH hnow hother hinv hrun rfl (by rw [hpc]; rfl)
      (by dsimp only; rw [upd_same]; rfl) (by dsimp only; rw [upd_same]; rfl)
      (by rw [hpc]; intro e; cases e) (I.inv_lt t (by rw [hpc]; intro e; cases e)) ?_⟩
    exact spec_stValUpd rfl rfl rfl hl
  case stPermIns k v u sl hpc =>
    rw [hpc] at hok
    obtain ⟨_, hn, _, hk, hv⟩ := hok
    refine ⟨_, _, inv3_writer (op := .put k v u) K hH hnow hother hinv hrun rfl (by rw [hpc]; rfl)
      (by dsimp only; rw [upd_same]; rfl) (by dsimp only; rw [upd_same]; rfl)
      (by rw [hpc]; intro e; cases e) (I.inv_lt t (by rw [hpc]; intro e; cases e)) ?_⟩
    exact spec_stPermIns rfl rfl rfl hk hn (hv k v u rfl)
  case clearVal k sl hpc =>
    rw [hpc] at hok
    have hl : lookupIn s.keys s.perm k = some sl := hok.2.symm
    have hsome : (abs s k).isSome = true := by
      simp only [abs, hl]
      cases hv : s.vals sl with
      | some v => rfl
      | none =>
        obtain ⟨t', op', hc'⟩ := I.val_listed sl (lookupIn_some hl).1 hv
        have := holder_eq I (t := t) (t' := t') (by rw [hpc]; rfl) (by rw [hc']; rfl)
        subst this; rw [hpc] at hc'; cases hc'
    refine ⟨_, _, inv3_writer (op := .remove k) K hH hnow hother hinv hrun rfl (by rw [hpc]; rfl)
      (by dsimp only; rw [upd_same]; rfl) (by dsimp only; rw [upd_same]; rfl)
      (by rw [hpc]; intro e; cases e) (I.inv_lt t (by rw [hpc]; intro e; cases e)) ?_⟩
    exact spec_clearVal rfl rfl rfl hl hsome
  case ret op r hpc =>
    have hd := J.pc2 t
    rw [hpc] at hok hd
    simp only [Pc2, PcOk] at hok hd
    by_cases hp : (Pc.done op r).pastLP = true
    · have hr : r = .ok none := by
        cases r <;> try (simp [Pc.pastLP] at hp; done)
        rename_i x; cases x <;> simp [Pc.pastLP] at hp ⊢
      subst hr
      exact inv3_ret_writer (op := op) K hH hnow hother hinv hrun rfl rfl (by rw [hpc]; exact hp)
        (by rw [hpc]; rfl) (by dsimp only; rw [upd_same])
    · have hp' : (s.pc t).pastLP = false := by rw [hpc]; simpa using hp
      have fin := retReader op r rfl rfl (by dsimp only; rw [upd_same]) hp'
      cases op <;> cases r <;> simp only [DoneOk] at hd <;> try (exact hd.elim)
      case get.ok k x =>
        have hx : x ≠ none := by have := hok x rfl; simpa [OpKind.isGet, hfix] using this
        obtain ⟨q0, h1, h2, h3⟩ := hd hx
        apply fin q0 h1 h2
        cases x with
        | none => exact absurd rfl hx
        | some v => simp [specStep, h3]
      case get.notExist k =>
        obtain ⟨q0, h1, h2, h3⟩ := hd
        exact fin q0 h1 h2 (by simp [specStep, h3])
      case remove.notFound k =>
        obtain ⟨q0, h1, h2, h3⟩ := hd
        exact fin q0 h1 h2 (by simp [specStep, h3])
      case remove.ok k x => subst hd; simp [Pc.pastLP, OpKind.isGet] at hp
      case put.ok k v u x => subst hd; simp [Pc.pastLP, OpKind.isGet] at hp
      case put.uniqueRestriction k v u =>
        obtain ⟨hu, q0, h1, h2, h3⟩ := hd
        exact fin q0 h1 h2 (by simp [specStep, hu, h3])
  case stKey k v u sl hfree hpc =>
    apply neutral (abs_stKey rfl rfl rfl (freeSlot_not_mem hfree)) rfl
    · dsimp only; rw [upd_same, hpc]; rfl
    · rw [hpc]; intro e; cases e
  case stValIns k v u sl hpc =>
    rw [hpc] at hok
    apply neutral (abs_stValIns rfl rfl rfl hok.2.2.1) rfl
    · dsimp only; rw [upd_same, hpc]; rfl
    · rw [hpc]; intro e; cases e
  case stPermRem k sl hpc =>
    rw [hpc] at hok
    apply neutral (abs_stPermRem rfl rfl rfl I.keys_inj hok.2.1 hok.2.2.1 hok.2.2.2) rfl
    · dsimp only; rw [upd_same, hpc]; rfl
    · intro _; dsimp only; rw [upd_same, hpc]; rfl
  case getOk k v1 x hst hv hpc =>
    apply neutral rfl rfl
    · dsimp only; rw [upd_same, hpc]; cases x <;> rfl
    · rw [hpc]; intro e; cases e
  case unlockPub op r hpc =>
    rw [hpc] at hok
    apply neutral rfl rfl
    · dsimp only; rw [upd_same, hpc, hok.1]; simp [Pc.pastLP, hok.2]
    · intro _; dsimp only; rw [upd_same, hpc]; rfl
  all_goals rename_i hpc
  all_goals apply neutral rfl rfl
  all_goals first
    | (dsimp only; rw [upd_same, hpc]; rfl)
    | (rw [hpc]; intro e; cases e)
end Yak.Proto.Leaf
