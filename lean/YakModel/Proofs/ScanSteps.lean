import YakModel.Scan
/-!
# Defining equations of the mutually recursive scan functions, in a form convenient for proofs
-/
namespace Yak.Tree
open Yak

/-- `max_size` reached -/
def full (max n : Nat) : Bool := max != 0 && decide (n ≥ max)

theorem scanLayer_some {cfg : Cfg} {t : Tree} {fuel : Nat} {p : List UInt8} {L : Layer}
    (hL : findLayer t p = some L) (lk : Key) (le : EP) (rk : Key) (re : EP) (max : Nat) (r2l : Bool) (acc : Acc) :
    scanLayer cfg t fuel p lk le rk re max r2l acc =
      scanLeaves cfg t fuel L (route (descentKT lk r2l) L.leaves)
        (L.leaves.drop (route (descentKT lk r2l) L.leaves)) lk le rk re max r2l acc := by
  rw [scanLayer, hL]

theorem scanLayer_none {cfg : Cfg} {t : Tree} {fuel : Nat} {p : List UInt8}
    (hL : findLayer t p = none) (lk : Key) (le : EP) (rk : Key) (re : EP) (max : Nat) (r2l : Bool) (acc : Acc) :
    scanLayer cfg t fuel p lk le rk re max r2l acc = (acc, .stop) := by
  rw [scanLayer, hL]

theorem scanLeaves_nil (cfg : Cfg) (t : Tree) (fuel : Nat) (L : Layer) (i : Nat)
    (lk : Key) (le : EP) (rk : Key) (re : EP) (max : Nat) (r2l : Bool) (acc : Acc) :
    scanLeaves cfg t fuel L i [] lk le rk re max r2l acc = (acc, .stop) := by
  rw [scanLeaves]

theorem scanLeaves_cons (cfg : Cfg) (t : Tree) (fuel : Nat) (L : Layer) (i : Nat) (leaf : Leaf) (more : List Leaf)
    (lk : Key) (le : EP) (rk : Key) (re : EP) (max : Nat) (r2l : Bool) (acc : Acc) :
    scanLeaves cfg t fuel L i (leaf :: more) lk le rk re max r2l acc =
      match scanEnts cfg t fuel L i (if r2l then leaf.ents.reverse else leaf.ents) lk le rk re max r2l acc false with
      | (acc1, _, .stop) => (acc1, .stop)
      | (acc1, pushed, .cont) =>
        if more.isEmpty then ((if pushed then acc1 else { acc1 with nodes := acc1.nodes ++ [mkRef L i] }), .stop)
        else scanLeaves cfg t fuel L (i + 1) more lk le rk re max r2l
          (if pushed then acc1 else { acc1 with nodes := acc1.nodes ++ [mkRef L i] }) := by
  rw [scanLeaves]
  rcases scanEnts cfg t fuel L i (if r2l then leaf.ents.reverse else leaf.ents) lk le rk re max r2l acc false with ⟨a, b, c⟩
  cases c <;> rfl

theorem scanEnts_nil (cfg : Cfg) (t : Tree) (fuel : Nat) (L : Layer) (i : Nat)
    (lk : Key) (le : EP) (rk : Key) (re : EP) (max : Nat) (r2l : Bool) (acc : Acc) (pushed : Bool) :
    scanEnts cfg t fuel L i [] lk le rk re max r2l acc pushed = (acc, pushed, .cont) := by
  rw [scanEnts]

def recFix (cfg : Cfg) (L : Layer) (i : Nat) (pushed : Bool) (a : Acc) : Acc :=
  if cfg.fixD2 && !pushed then { a with nodes := a.nodes ++ [mkRef L i] } else a

theorem scanEnts_val (cfg : Cfg) (t : Tree) (fuel : Nat) (L : Layer) (i : Nat) (e : Ent) (es : List Ent) (v : Val)
    (hv : e.val = some v)
    (lk : Key) (le : EP) (rk : Key) (re : EP) (max : Nat) (r2l : Bool) (acc : Acc) (pushed : Bool) :
    scanEnts cfg t fuel L i (e :: es) lk le rk re max r2l acc pushed =
      if beforeLeft lk le e.kt.slice e.kt.len then scanEnts cfg t fuel L i es lk le rk re max r2l acc pushed
      else if withinRight rk re (L.pfx ++ e.kt.slice.take (Nat.min e.kt.len 8)) then
        if full max (acc.tuples ++ [(L.pfx ++ e.kt.slice.take (Nat.min e.kt.len 8), v)]).length then
          (⟨acc.tuples ++ [(L.pfx ++ e.kt.slice.take (Nat.min e.kt.len 8), v)], acc.nodes ++ [mkRef L i]⟩, true, .stop)
        else scanEnts cfg t fuel L i es lk le rk re max r2l
          ⟨acc.tuples ++ [(L.pfx ++ e.kt.slice.take (Nat.min e.kt.len 8), v)], acc.nodes ++ [mkRef L i]⟩ true
      else ((if pushed then acc else { acc with nodes := acc.nodes ++ [mkRef L i] }), pushed, .stop) := by
  rw [scanEnts]
  simp only [hv]
  rfl

theorem scanEnts_link (cfg : Cfg) (t : Tree) (fuel : Nat) (L : Layer) (i : Nat) (e : Ent) (es : List Ent)
    (hv : e.val = none)
    (lk : Key) (le : EP) (rk : Key) (re : EP) (max : Nat) (r2l : Bool) (acc : Acc) (pushed : Bool) :
    scanEnts cfg t fuel L i (e :: es) lk le rk re max r2l acc pushed =
      match linkArgs lk le rk re e.kt.slice (L.pfx ++ e.kt.slice.take (Nat.min e.kt.len 8)) with
      | .skip => scanEnts cfg t fuel L i es lk le rk re max r2l acc pushed
      | .stop => (recFix cfg L i pushed acc, pushed, .stop)
      | .go alk ale ark are =>
        match fuel with
        | 0 => (acc, pushed, .stop)
        | f + 1 =>
          if full max (scanLayer cfg t f (L.pfx ++ e.kt.slice.take (Nat.min e.kt.len 8)) alk ale ark are max r2l acc).1.tuples.length then
            (recFix cfg L i pushed (scanLayer cfg t f (L.pfx ++ e.kt.slice.take (Nat.min e.kt.len 8)) alk ale ark are max r2l acc).1, pushed, .stop)
          else scanEnts cfg t (f + 1) L i es lk le rk re max r2l
            (scanLayer cfg t f (L.pfx ++ e.kt.slice.take (Nat.min e.kt.len 8)) alk ale ark are max r2l acc).1 pushed := by
  rw [scanEnts]
  simp only [hv]
  cases linkArgs lk le rk re e.kt.slice (L.pfx ++ e.kt.slice.take (Nat.min e.kt.len 8)) with
  | skip => rfl
  | stop => rfl
  | go alk ale ark are =>
    cases fuel with
    | zero => rfl
    | succ f => rfl

end Yak.Tree
