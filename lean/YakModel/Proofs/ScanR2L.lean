import YakModel.Proofs.ScanSpec
/-!
# Right-to-left scans (`max_size = 1`, right end INF) return the greatest key of the interval

The descent routes by the tuple `(0xFF×8, 8)`, which is below the link tuple `(0xFF×8, 9)`: if a
fence equals that maximal tuple the descent ends one leaf too far left. `Inv` alone does not
exclude such a fence (a split never produces it), hence the extra hypothesis `NoMaxFence`.
-/
namespace Yak.Tree
open Yak

/-- no border node of the storage has the maximal tuple `(0xFF×8, link)` as its lower fence -/
def NoMaxFence (t : Tree) : Prop := ∀ L ∈ t, ∀ l ∈ L.leaves, l.fence ≠ some KT.max

def lastOpt {α : Type} (l : List α) : List α :=
  match l.getLast? with
  | some x => [x]
  | none => []

theorem lastOpt_nil {α : Type} : lastOpt ([] : List α) = [] := rfl

theorem lastOpt_eq_nil {α : Type} {l : List α} : lastOpt l = [] ↔ l = [] := by
  unfold lastOpt
  cases h : l.getLast? with
  | none => simp [List.getLast?_eq_none_iff.mp h]
  | some x =>
    simp only [List.cons_ne_self, false_iff]
    intro e; subst e; simp at h

theorem lastOpt_append_nil {α : Type} (a : List α) : lastOpt (a ++ []) = lastOpt a := by rw [List.append_nil]

theorem lastOpt_append_of_ne {α : Type} (a : List α) {b : List α} (h : b ≠ []) : lastOpt (a ++ b) = lastOpt b := by
  unfold lastOpt
  rw [List.getLast?_append]
  cases hb : b.getLast? with
  | none => exact absurd (List.getLast?_eq_none_iff.mp hb) h
  | some x => rfl

theorem lastOpt_singleton {α : Type} (x : α) : lastOpt [x] = [x] := rfl

theorem lastOpt_length_le {α : Type} (l : List α) : (lastOpt l).length ≤ 1 := by
  unfold lastOpt; split <;> simp

/-! ### the descent of a right-to-left scan ends in the last leaf -/

theorem lexLt_ff_false : ∀ (n : Nat) (b : List UInt8), b.length ≤ n → lexLt (List.replicate n 255) b = false
  | 0, b, h => by
    have : b = [] := List.eq_nil_of_length_eq_zero (by omega)
    subst this; rfl
  | n + 1, [], _ => by rw [lexLt_nil_right]
  | n + 1, y :: ys, h => by
    rw [List.replicate_succ, lexLt_cons]
    have h1 : ¬ (255 : UInt8) < y := by
      rw [UInt8.lt_iff_toNat_lt]
      have := y.toNat_lt
      simp only [UInt8.toNat_ofNat]
      omega
    rw [if_neg h1]
    by_cases h2 : (255 : UInt8) > y
    · rw [if_pos h2]
    · rw [if_neg h2]; exact lexLt_ff_false n ys (by simpa using h)

theorem r2lKT_wf : (descentKT [] true).WF := by decide

theorem descentKT_r2l (lk : Key) : descentKT lk true = ⟨List.replicate 8 255, 8⟩ := rfl

theorem ltSpec_r2l_false {f : KT} (hf : f.WF) (hne : f ≠ KT.max) :
    KT.ltSpec ⟨List.replicate 8 255, 8⟩ f = false := by
  unfold KT.ltSpec
  have hb : (⟨List.replicate 8 255, 8⟩ : KT).bytes = List.replicate 8 255 := by decide
  rw [hb]
  have hlen : f.bytes.length ≤ 8 := by
    unfold KT.bytes
    simp only [List.length_take]
    have : Nat.min f.len 8 ≤ 8 := Nat.min_le_right _ _
    omega
  rw [lexLt_ff_false 8 f.bytes hlen]
  simp only [Bool.false_or, Bool.and_eq_false_iff, beq_eq_false_iff_ne, ne_eq, decide_eq_false_iff_not]
  by_cases h9 : f.len = 9
  · left
    intro e
    apply hne
    have hs : f.bytes = f.slice := bytes_of_link hf h9
    rw [hs] at e
    cases f with
    | mk s l =>
      simp only at e h9
      rw [← e, h9]; rfl
  · right
    have := hf.2.1
    omega

theorem routeFrom_all (k : KT) : ∀ (ls : List Leaf), (∀ l ∈ ls, ∃ f, l.fence = some f ∧ routeLeft k f = false) →
    routeFrom k ls = ls.length
  | [], _ => rfl
  | l :: ls, h => by
    obtain ⟨f, hf, hr⟩ := h l (by simp)
    simp only [routeFrom, hf, hr, Bool.false_eq_true, if_false, List.length_cons]
    rw [routeFrom_all k ls (fun x hx => h x (by simp [hx]))]

theorem route_r2l {leaves : List Leaf} (hc : LayerCore leaves) (hm : ∀ l ∈ leaves, l.fence ≠ some KT.max)
    (lk : Key) : route (descentKT lk true) leaves = leaves.length - 1 := by
  cases leaves with
  | nil => rfl
  | cons c ls =>
    simp only [route, List.length_cons, Nat.add_sub_cancel]
    apply routeFrom_all
    intro l hl
    obtain ⟨f, hf, hfw, _⟩ := hc.1.tail_fence l (by simpa using hl)
    refine ⟨f, hf, ?_⟩
    rw [descentKT_r2l, routeLeft_eq _ _ (by decide) hfw]
    apply ltSpec_r2l_false hfw
    intro e
    exact hm l (by simp [hl]) (by rw [hf, e])

/-! ### every entry contributes at least one key -/

theorem entContent_ne_nil {t : Tree} (hF : FCore (lay t)) (hE : FEmpt (lay t)) : ∀ (fuel : Nat) (p : List UInt8)
    (ls : List Leaf) (e : Ent), lay t p = some ls → e ∈ layerEnts ls → t.length ≤ fuel + p.length / 8 →
    entContent t fuel p e ≠ [] := by
  intro fuel
  induction fuel with
  | zero =>
    intro p ls e hlay he hA
    obtain ⟨hw, hv⟩ := layerEnts_wf (hF.core _ _ hlay) he
    cases hval : e.val with
    | some v => rw [entContent_val hval]; simp
    | none =>
      exfalso
      have hdown := hF.down _ _ hlay e he (hv.mp hval)
      have := depth_bound hF hdown
      simp only [List.length_append, hw.1] at this
      omega
  | succ f ih =>
    intro p ls e hlay he hA
    obtain ⟨hw, hv⟩ := layerEnts_wf (hF.core _ _ hlay) he
    cases hval : e.val with
    | some v => rw [entContent_val hval]; simp
    | none =>
      rw [entContent_link hval]
      have hdown := hF.down _ _ hlay e he (hv.mp hval)
      cases hL : findLayer t (p ++ e.kt.slice) with
      | none => rw [lay_isSome, hL] at hdown; cases hdown
      | some L' =>
        have hlay' := lay_of_findLayer hL
        rw [contentFrom_succ hL]
        have hc' := hF.core _ _ hlay'
        -- the first leaf of a non-root layer is not empty
        cases hlv : L'.leaves with
        | nil => rw [hlv] at hc'; cases hc'.1
        | cons l0 rest =>
          have hne : l0.ents ≠ [] := by
            intro e0
            have := (hE _ _ hlay' l0 (by rw [hlv]; simp)).1 e0
            have hp : (p ++ e.kt.slice).isEmpty = false := by
              cases p <;> cases hs : e.kt.slice <;> simp_all [KT.WF]
            rw [hp] at this
            cases this.1
          cases hl0 : l0.ents with
          | nil => exact absurd hl0 hne
          | cons e' es =>
            have he' : e' ∈ layerEnts L'.leaves := by
              rw [hlv, layerEnts_cons, hl0]; simp
            have := ih (p ++ e.kt.slice) L'.leaves e' hlay' he' (by
              simp only [List.length_append, hw.1]; omega)
            intro hnil
            rw [List.flatMap_eq_nil_iff] at hnil
            exact this (hnil e' (by rw [← hlv]; exact he'))

/-! ### the traversal -/

theorem linkArgs_go_inf {lk : Key} {le : EP} {rk : Key} {ks : List UInt8} {F : Key}
    {alk : Key} {ale : EP} {ark : Key} {are : EP}
    (h : linkArgs lk le rk .inf ks F = .go alk ale ark are) : are = .inf := by
  rw [linkArgs_eq] at h
  cases hl : linkLeft lk le ks with
  | none => rw [hl] at h; cases h
  | some x =>
    obtain ⟨a, b⟩ := x
    rw [hl] at h
    have e : (EP.inf == EP.inf) = true := rfl
    simp only [e, if_true, LinkArgs.go.injEq] at h
    exact h.2.2.2.symm

theorem full_one {n : Nat} : full 1 n = decide (n ≥ 1) := by simp [full]

def SubR (cfg : Cfg) (t : Tree) (fuel : Nat) (p : List UInt8) : Prop :=
  ∀ f, fuel = f + 1 → ∀ (q : List UInt8) (alk : Key) (ale : EP) (ark : Key) (acc : Acc),
    (lay t q).isSome → q.length = p.length + 8 → acc.tuples = [] →
    (scanLayer cfg t f q alk ale ark .inf 1 true acc).1.tuples =
      lastOpt ((contentFrom t (f + 1) q).filter (Jf q alk ale ark .inf))

theorem scanEnts_r2l {cfg : Cfg} {t : Tree} {fuel : Nat} {p : List UInt8} {L : Layer} (c : LCtx t fuel p L)
    (IH : SubR cfg t fuel p) (i : Nat) (lk : Key) (le : EP) (rk : Key) :
    ∀ (ents : List Ent) (acc : Acc) (pushed : Bool),
      (∀ e ∈ ents, e ∈ layerEnts L.leaves) → acc.tuples = [] →
      (scanEnts cfg t fuel L i ents lk le rk .inf 1 true acc pushed).1.tuples =
        lastOpt (ents.reverse.flatMap (Xe t fuel p lk le rk .inf)) := by
  intro ents
  induction ents with
  | nil =>
    intro acc pushed _ hacc
    rw [scanEnts_nil]
    simpa [lastOpt] using hacc
  | cons e es ih =>
    intro acc pushed hsub hacc
    have he : e ∈ layerEnts L.leaves := hsub e (by simp)
    obtain ⟨hw, hv9⟩ := layerEnts_wf c.core he
    have hsub' : ∀ x ∈ es, x ∈ layerEnts L.leaves := fun x hx => hsub x (by simp [hx])
    rw [List.reverse_cons, List.flatMap_append, List.flatMap_singleton]
    cases hval : e.val with
    | some v =>
      have h8 : e.kt.len ≤ 8 := by
        have : e.kt.len ≠ 9 := fun h => by rw [hv9.mpr h] at hval; cases hval
        have := hw.2.1; omega
      have hfk : L.pfx ++ e.kt.slice.take (Nat.min e.kt.len 8) = p ++ e.kt.bytes := by rw [c.pfx]; rfl
      rw [scanEnts_val cfg t fuel L i e es v hval, hfk, beforeLeft_eq hw h8, withinRight_eq]
      have hX := Xe_val (t := t) (fuel := fuel) (p := p) (lk := lk) (le := le) (rk := rk) (re := .inf) hval
      have hr : inRight rk .inf (p ++ e.kt.bytes) = true := rfl
      rw [hr] at hX ⊢
      cases hl : inLeft lk le e.kt.bytes with
      | false =>
        rw [hl] at hX
        simp only [Bool.false_and, Bool.false_eq_true, if_false] at hX
        simp only [Bool.not_false, if_true]
        rw [hX, List.append_nil]
        exact ih acc pushed hsub' hacc
      | true =>
        rw [hl] at hX
        simp only [Bool.and_self, if_true] at hX
        simp only [Bool.not_true, Bool.false_eq_true, if_false, if_true]
        have hfull : full 1 (acc.tuples ++ [(p ++ e.kt.bytes, v)]).length = true := by
          rw [full_one, hacc]; rfl
        rw [hfull]
        simp only [if_true]
        rw [hX, lastOpt_append_of_ne _ (by simp), hacc]
        rfl
    | none =>
      have h9 : e.kt.len = 9 := hv9.mp hval
      have hb : e.kt.bytes = e.kt.slice := bytes_of_link hw h9
      have hs8 : e.kt.slice.length = 8 := hw.1
      have hfk : L.pfx ++ e.kt.slice.take (Nat.min e.kt.len 8) = p ++ e.kt.slice := by
        rw [c.pfx]
        show p ++ e.kt.bytes = _
        rw [hb]
      rw [scanEnts_link cfg t fuel L i e es hval, hfk]
      cases hla : linkArgs lk le rk .inf e.kt.slice (p ++ e.kt.slice) with
      | skip =>
        simp only
        have hX : Xe t fuel p lk le rk .inf e = [] := by
          apply Xe_nil_of
          intro kv hkv
          obtain ⟨r', _, h2, _⟩ := c.keys he hkv
          have := linkArgs_skip hs8 hla r'
          simp [Jf, h2, hb, this]
        rw [hX, List.append_nil]
        exact ih acc pushed hsub' hacc
      | stop => exact absurd rfl (linkArgs_stop hla).1
      | go alk ale ark are =>
        have hare := linkArgs_go_inf hla
        subst hare
        have hdown : (lay t (p ++ e.kt.slice)).isSome := c.hF.down _ _ c.lay e he h9
        cases fuel with
        | zero =>
          exfalso
          have h1 := depth_bound c.hF hdown
          have h2 := c.hA
          simp only [List.length_append, hs8] at h1
          omega
        | succ f =>
          simp only
          obtain ⟨_, hgo⟩ := linkArgs_go hs8 hla
          have hS := IH f rfl (p ++ e.kt.slice) alk ale ark acc hdown (by simp [hs8]) hacc
          have hcongr : (contentFrom t (f + 1) (p ++ e.kt.slice)).filter (Jf (p ++ e.kt.slice) alk ale ark .inf) =
              Xe t (f + 1) p lk le rk .inf e := by
            unfold Xe
            rw [entContent_link hval]
            apply List.filter_congr
            intro kv hkv
            have hkv' : kv ∈ entContent t (f + 1) p e := by rw [entContent_link hval]; exact hkv
            obtain ⟨r', h1, h2, h3⟩ := c.keys he hkv'
            rcases h3 with ⟨h8, _⟩ | ⟨_, _, _, hr'⟩
            · omega
            · obtain ⟨g1, g2⟩ := hgo r' hr'
              have h1' : kv.1 = (p ++ e.kt.slice) ++ r' := by rw [h1, hb, List.append_assoc]
              have hd : kv.1.drop (p ++ e.kt.slice).length = r' := by rw [h1']; simp
              unfold Jf
              rw [hd, h2, hb, g1, h1', g2]
          rw [hcongr] at hS
          cases hfull : full 1 (scanLayer cfg t f (p ++ e.kt.slice) alk ale ark .inf 1 true acc).1.tuples.length with
          | true =>
            simp only [if_true]
            rw [recFix_tuples, hS]
            have hne : Xe t (f + 1) p lk le rk .inf e ≠ [] := by
              intro e0
              rw [hS, e0, lastOpt_nil, full_one] at hfull
              simp at hfull
            rw [lastOpt_append_of_ne _ hne]
          | false =>
            simp only [Bool.false_eq_true, if_false]
            have hnil : (scanLayer cfg t f (p ++ e.kt.slice) alk ale ark .inf 1 true acc).1.tuples = [] := by
              rw [full_one] at hfull
              apply List.eq_nil_of_length_eq_zero
              simpa using hfull
            have hX : Xe t (f + 1) p lk le rk .inf e = [] := by
              rw [hS] at hnil
              exact lastOpt_eq_nil.mp hnil
            rw [hX, List.append_nil]
            exact ih _ pushed hsub' hnil

/-- the last leaf decides: if it contributes nothing, no earlier leaf does -/
theorem last_leaf_covers {t : Tree} {fuel : Nat} {p : List UInt8} {L : Layer} (c : LCtx t fuel p L)
    (hE : FEmpt (lay t)) (lk : Key) (le : EP) (rk : Key) {init : List Leaf} {last : Leaf}
    (hsplit : L.leaves = init ++ [last])
    (hnil : last.ents.flatMap (Xe t fuel p lk le rk .inf) = []) :
    (layerEnts init).flatMap (Xe t fuel p lk le rk .inf) = [] := by
  cases hin : init with
  | nil => rfl
  | cons i0 irest =>
    have hlen : L.leaves.length ≠ 1 := by rw [hsplit, hin]; simp
    have hne : last.ents ≠ [] := by
      intro e0
      have := (hE _ _ c.lay last (by rw [hsplit]; simp)).1 e0
      exact hlen this.2
    cases hl : last.ents with
    | nil => exact absurd hl hne
    | cons e1 es =>
      have he1 : e1 ∈ layerEnts L.leaves := by
        rw [hsplit, layerEnts_append, layerEnts_cons, hl]; simp
      have hcne := entContent_ne_nil c.hF hE fuel p L.leaves e1 c.lay he1 c.hA
      cases hc1 : entContent t fuel p e1 with
      | nil => exact absurd hc1 hcne
      | cons kv1 rest1 =>
        have hX1 : Xe t fuel p lk le rk .inf e1 = [] := by
          rw [hl, List.flatMap_cons] at hnil
          exact (List.append_eq_nil_iff.mp hnil).1
        have hJ1 : Jf p lk le rk .inf kv1 = false := by
          unfold Xe at hX1
          rw [List.filter_eq_nil_iff] at hX1
          have := hX1 kv1 (by rw [hc1]; simp)
          simpa using this
        have hL1 : inLeft lk le (kv1.1.drop p.length) = false := by
          unfold Jf at hJ1
          have : inRight rk .inf kv1.1 = true := rfl
          rw [this, Bool.and_true] at hJ1
          exact hJ1
        have hleinf : le ≠ .inf := by
          intro e0; subst e0; cases hL1
        -- order between entries of earlier leaves and `e1`
        have hsorted := sorted_contentFrom c.hF (fuel + 1) p (by rw [c.lay]; rfl) (by have := c.hA; omega)
        rw [contentFrom_succ c.hL, List.pairwise_flatMap, hsplit, layerEnts_append, List.pairwise_append] at hsorted
        have hcross := hsorted.2.2.2
        rw [← hin]
        apply flatMap_nil_of
        intro e' he'
        apply Xe_nil_of
        intro kv hkv
        have hlt : lexLt kv.1 kv1.1 = true :=
          hcross e' he' e1 (by rw [layerEnts_cons, hl]; simp) kv hkv kv1 (by rw [hc1]; simp)
        have he'in : e' ∈ layerEnts L.leaves := by
          rw [hsplit, layerEnts_append]; exact List.mem_append_left _ he'
        obtain ⟨r', h1, hd, _⟩ := c.keys he'in hkv
        obtain ⟨r1, h11, hd1, _⟩ := c.keys he1 (by rw [hc1]; simp : kv1 ∈ entContent t fuel p e1)
        rw [h1, h11, lexLt_append_left] at hlt
        rw [hd1] at hL1
        have : inLeft lk le (kv.1.drop p.length) = false := by
          rw [hd]
          cases le with
          | inf => exact absurd rfl hleinf
          | incl =>
            simp only [inLeft, Bool.not_eq_false'] at hL1 ⊢
            simp [lexLt_trans _ _ _ hlt hL1]
          | excl =>
            simp only [inLeft] at hL1 ⊢
            cases h' : lexLt lk (e'.kt.bytes ++ r') with
            | false => rfl
            | true => rw [lexLt_trans _ _ _ h' hlt] at hL1; cases hL1
        simp [Jf, this]

theorem scanLayer_r2l {cfg : Cfg} {t : Tree} (hF : FCore (lay t)) (hE : FEmpt (lay t))
    (hm : ∀ q ls, lay t q = some ls → ∀ l ∈ ls, l.fence ≠ some KT.max) :
    ∀ (fuel : Nat) (p : List UInt8) (lk : Key) (le : EP) (rk : Key) (acc : Acc),
      (lay t p).isSome → t.length ≤ fuel + p.length / 8 → acc.tuples = [] →
      (scanLayer cfg t fuel p lk le rk .inf 1 true acc).1.tuples =
        lastOpt ((contentFrom t (fuel + 1) p).filter (Jf p lk le rk .inf)) := by
  intro fuel
  induction fuel with
  | zero =>
    intro p lk le rk acc hp hA hacc
    exact layer_step hF hE hm 0 (fun _ _ f h => absurd h (by omega)) p lk le rk acc hp hA hacc
  | succ n ih =>
    intro p lk le rk acc hp hA hacc
    refine layer_step hF hE hm (n + 1) ?_ p lk le rk acc hp hA hacc
    intro p' hA' f hf q alk ale ark acc' hq hlen hacc'
    have : f = n := by omega
    subst this
    exact ih q alk ale ark acc' hq (by omega) hacc'
where
  layer_step {cfg : Cfg} {t : Tree} (hF : FCore (lay t)) (hE : FEmpt (lay t))
      (hm : ∀ q ls, lay t q = some ls → ∀ l ∈ ls, l.fence ≠ some KT.max) (fuel : Nat)
      (IH : ∀ p, t.length ≤ fuel + p.length / 8 → SubR cfg t fuel p)
      (p : List UInt8) (lk : Key) (le : EP) (rk : Key) (acc : Acc)
      (hp : (lay t p).isSome) (hA : t.length ≤ fuel + p.length / 8) (hacc : acc.tuples = []) :
      (scanLayer cfg t fuel p lk le rk .inf 1 true acc).1.tuples =
        lastOpt ((contentFrom t (fuel + 1) p).filter (Jf p lk le rk .inf)) := by
    cases hL : findLayer t p with
    | none => rw [lay_isSome, hL] at hp; cases hp
    | some L =>
      have c : LCtx t fuel p L := ⟨hF, hL, hA⟩
      rw [scanLayer_some hL, contentFrom_succ hL, List.filter_flatMap, route_r2l c.core (hm p _ c.lay)]
      have hne : L.leaves ≠ [] := by
        intro e
        have := c.core.1
        rw [e] at this; cases this
      obtain ⟨init, last, hsplit⟩ : ∃ init last, L.leaves = init ++ [last] :=
        ⟨L.leaves.dropLast, L.leaves.getLast hne, (List.dropLast_concat_getLast hne).symm⟩
      have hdrop : L.leaves.drop (L.leaves.length - 1) = [last] := by
        rw [hsplit]
        simp
      rw [hdrop, scanLeaves_cons]
      simp only [if_true]
      have hsub : ∀ e ∈ last.ents.reverse, e ∈ layerEnts L.leaves := by
        intro e he
        rw [hsplit, layerEnts_append, layerEnts_cons]
        exact List.mem_append_right _ (List.mem_append_left _ (List.mem_reverse.mp he))
      have hEn := scanEnts_r2l c (IH p hA) (L.leaves.length - 1) lk le rk last.ents.reverse acc false hsub hacc
      rw [List.reverse_reverse] at hEn
      have hres : (layerEnts L.leaves).flatMap (fun e => (entContent t fuel p e).filter (Jf p lk le rk .inf)) =
          (layerEnts init).flatMap (Xe t fuel p lk le rk .inf) ++ last.ents.flatMap (Xe t fuel p lk le rk .inf) := by
        rw [hsplit, layerEnts_append, List.flatMap_append, layerEnts_cons]
        simp only [layerEnts, List.flatMap_nil, List.append_nil]
        rfl
      rw [hres]
      have hfin : lastOpt ((layerEnts init).flatMap (Xe t fuel p lk le rk .inf) ++
          last.ents.flatMap (Xe t fuel p lk le rk .inf)) = lastOpt (last.ents.flatMap (Xe t fuel p lk le rk .inf)) := by
        by_cases hnil : last.ents.flatMap (Xe t fuel p lk le rk .inf) = []
        · rw [hnil, List.append_nil, last_leaf_covers c hE lk le rk hsplit hnil]
        · exact lastOpt_append_of_ne _ hnil
      rw [hfin, ← hEn]
      rcases hr : scanEnts cfg t fuel L (L.leaves.length - 1) last.ents.reverse lk le rk .inf 1 true acc false
        with ⟨acc1, pushed, flow⟩
      cases flow with
      | stop => rfl
      | cont =>
        simp only [List.isEmpty_nil, if_true]
        split <;> rfl

theorem scan_spec_r2l (t : Tree) (lk : Key) (le : EP) (rk : Key) (re : EP) (max : Nat)
    (h : Inv t) (ha : scanArgsOk lk le rk re max true = true) (hm : NoMaxFence t) :
    (scan cfgFixed t lk le rk re max true).tuples = scanSpec t lk le rk re max true := by
  obtain ⟨_, hF, hE⟩ := (inv_iff t).mp h
  have hargs : re = .inf ∧ max = 1 := by
    unfold scanArgsOk at ha
    simp only [Bool.true_and, Bool.and_eq_true, Bool.not_eq_true', Bool.or_eq_false_iff, bne_eq_false_iff_eq] at ha
    exact ⟨by simpa using ha.2.1, by simpa using ha.2.2⟩
  obtain ⟨rfl, rfl⟩ := hargs
  have hm' : ∀ q ls, lay t q = some ls → ∀ l ∈ ls, l.fence ≠ some KT.max := by
    intro q ls hq l hl
    have := findLayer_some (findLayer_of_lay hq)
    exact hm _ this.2 l hl
  cases hL : findLayer t [] with
  | none => have := hF.root; rw [lay_isSome, hL] at this; cases this
  | some L =>
    rw [scan_unfold hL lk le rk .inf 1 true ha]
    generalize hlk0 : (if (le == EP.inf) = true then [] else lk) = lk0
    split
    · rename_i hd
      have := content_of_deleted_root h hL hd
      unfold scanSpec
      rw [this]
      simp
    · simp only
      rw [scanLayer_r2l hF hE hm' (t.length + 1) [] lk0 le rk ⟨[], []⟩ hF.root (by simp) rfl]
      rw [contentFrom_fuel hF (t.length + 1) [] hF.root (by simp)]
      unfold scanSpec content
      have hJ : Jf [] lk0 le rk .inf = fun kv => inInterval lk le rk .inf kv.1 := by
        funext kv
        unfold Jf
        rw [inInterval_eq, List.length_nil, List.drop_zero, ← hlk0, inLeft_inf_key]
      rw [hJ]
      simp only [if_true]
      unfold lastOpt
      cases (List.filter (fun kv => inInterval lk le rk EP.inf kv.fst) (contentFrom t (t.length + 1) [])).getLast? <;> rfl

/-- C03, main statement (see the header for `NoMaxFence`). -/
theorem scan_spec (t : Tree) (lk : Key) (le : EP) (rk : Key) (re : EP) (max : Nat) (r2l : Bool)
    (h : Inv t) (ha : scanArgsOk lk le rk re max r2l = true) (hm : r2l = true → NoMaxFence t) :
    (scan cfgFixed t lk le rk re max r2l).status = Status.OK ∧
    (scan cfgFixed t lk le rk re max r2l).tuples = scanSpec t lk le rk re max r2l := by
  refine ⟨scan_status_ok t lk le rk re max r2l h ha, ?_⟩
  cases r2l with
  | false => exact scan_spec_fwd t lk le rk re max h ha
  | true => exact scan_spec_r2l t lk le rk re max h ha (hm rfl)

end Yak.Tree
