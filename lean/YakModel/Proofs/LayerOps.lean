import YakModel.Proofs.LayerLemmas
/-!
# Single-layer modifications preserve `LayerCore`

replace one leaf's entries, split a leaf, unlink a leaf (either absorb direction), and the
position arithmetic of `insertInto` (rank, split side).
-/
namespace Yak.Tree
open Yak

/-! ### `FencesOK` only looks at the fences -/

theorem FencesOK_congr {l1 l2 : List Leaf} (hm : l1.map (·.fence) = l2.map (·.fence))
    (h : FencesOK l1) : FencesOK l2 := by
  cases l1 with
  | nil => cases h
  | cons a as =>
    cases l2 with
    | nil => simp at hm
    | cons b bs =>
      simp only [List.map_cons, List.cons.injEq] at hm
      refine ⟨by rw [← hm.1]; exact h.1, ?_⟩
      intro l' hl'
      have : l'.fence ∈ bs.map (·.fence) := List.mem_map.mpr ⟨l', hl', rfl⟩
      rw [← hm.2] at this
      obtain ⟨l, hl, hlf⟩ := List.mem_map.mp this
      rw [← hlf]
      exact h.2 l hl

/-! ### replacing the entries of one leaf -/

theorem LayerCore.replace {pre post : List Leaf} {leaf leaf' : Leaf}
    (h : LayerCore (pre ++ leaf :: post)) (hf : leaf'.fence = leaf.fence) (hok : LeafOK leaf')
    (hhi : ∀ b ∈ post, ∀ f ∈ b.fence, ∀ e ∈ leaf'.ents, KT.ltSpec e.kt f = true) :
    LayerCore (pre ++ leaf' :: post) := by
  obtain ⟨hF, hP, hL⟩ := h
  refine ⟨FencesOK_congr (by simp [hf]) hF, ?_, ?_⟩
  · rw [List.pairwise_append, List.pairwise_cons] at hP ⊢
    refine ⟨hP.1, ⟨?_, hP.2.1.2⟩, ?_⟩
    · intro b hb f hfb
      refine ⟨?_, hhi b hb f hfb⟩
      rw [hf]; exact (hP.2.1.1 b hb f hfb).1
    · intro a ha b hb
      rcases List.mem_cons.mp hb with e | hb'
      · subst e
        intro f hfb
        rw [hf] at hfb
        exact hP.2.2 a ha leaf (by simp) f hfb
      · exact hP.2.2 a ha b (by simp [hb'])
  · intro l hl
    rw [List.mem_append, List.mem_cons] at hl
    rcases hl with hl | hl | hl
    · exact hL l (by simp [hl])
    · subst hl; exact hok
    · exact hL l (by simp [hl])

/-! ### splitting a leaf -/

theorem LayerCore.split {pre post : List Leaf} {leaf left right : Leaf} {first : KT}
    (h : LayerCore (pre ++ leaf :: post)) (hfl : left.fence = leaf.fence)
    (hfr : right.fence = some first) (hokl : LeafOK left) (hokr : LeafOK right)
    (hw : first.WF) (h0 : first.len ≠ 0)
    (hg : ∀ g ∈ leaf.fence, KT.ltSpec g first = true)
    (hlf : ∀ e ∈ left.ents, KT.ltSpec e.kt first = true)
    (hhi : ∀ b ∈ post, ∀ f ∈ b.fence, KT.ltSpec first f = true ∧
      ∀ e ∈ left.ents ++ right.ents, KT.ltSpec e.kt f = true) :
    LayerCore (pre ++ left :: right :: post) := by
  have hpb := h.pre_before
  have hmid := fun hp => h.mid_fence (pre := pre) hp
  obtain ⟨hF, hP, hL⟩ := h
  refine ⟨?_, ?_, ?_⟩
  · cases pre with
    | nil =>
      refine ⟨by rw [hfl]; exact hF.1, ?_⟩
      intro l' hl'
      rcases List.mem_cons.mp hl' with e | hl''
      · subst e; exact ⟨first, hfr, hw, h0⟩
      · exact hF.2 l' hl''
    | cons p ps =>
      rw [List.cons_append] at hF ⊢
      refine ⟨hF.1, ?_⟩
      intro l' hl'
      simp only [List.mem_append, List.mem_cons] at hl'
      rcases hl' with hl' | hl' | hl' | hl'
      · exact hF.2 l' (by simp [hl'])
      · subst hl'; rw [hfl]; exact hF.2 leaf (by simp)
      · subst hl'; exact ⟨first, hfr, hw, h0⟩
      · exact hF.2 l' (by simp [hl'])
  · rw [List.pairwise_append, List.pairwise_cons] at hP
    rw [List.pairwise_append, List.pairwise_cons, List.pairwise_cons]
    refine ⟨hP.1, ⟨?_, ?_, hP.2.1.2⟩, ?_⟩
    · intro b hb
      rcases List.mem_cons.mp hb with e | hb'
      · subst e
        intro f hf
        rw [hfr] at hf
        have : first = f := Option.some.inj hf
        subst this
        exact ⟨by rw [hfl]; exact hg, hlf⟩
      · intro f hf
        refine ⟨?_, fun e he => (hhi b hb' f hf).2 e (by simp [he])⟩
        rw [hfl]; exact (hP.2.1.1 b hb' f hf).1
    · intro b hb f hf
      refine ⟨?_, fun e he => (hhi b hb f hf).2 e (by simp [he])⟩
      intro g hg'
      rw [hfr] at hg'
      have : first = g := Option.some.inj hg'
      subst this
      exact (hhi b hb f hf).1
    · intro a ha b hb
      simp only [List.mem_cons] at hb
      rcases hb with e | e | hb'
      · subst e
        intro f hf; rw [hfl] at hf
        exact hP.2.2 a ha leaf (by simp) f hf
      · subst e
        intro f hf
        rw [hfr] at hf
        have : first = f := Option.some.inj hf
        subst this
        have hp : pre ≠ [] := by intro e; subst e; cases ha
        obtain ⟨g, hgf, _, _⟩ := hmid hp
        have hb := hpb a ha g hgf
        have hgl := hg g hgf
        exact ⟨fun g' hg' => KT.ltSpec_trans _ _ _ (hb.1 g' hg') hgl,
          fun e he => KT.ltSpec_trans _ _ _ (hb.2 e he) hgl⟩
      · exact hP.2.2 a ha b (by simp [hb'])
  · intro l hl
    simp only [List.mem_append, List.mem_cons] at hl
    rcases hl with hl | hl | hl | hl
    · exact hL l (by simp [hl])
    · subst hl; exact hokl
    · subst hl; exact hokr
    · exact hL l (by simp [hl])

/-! ### unlinking a leaf -/

/-- the left neighbour absorbs the range (needs a left neighbour). -/
theorem LayerCore.unlink_left {pre post : List Leaf} {leaf : Leaf}
    (h : LayerCore (pre ++ leaf :: post)) (hp : pre ≠ []) : LayerCore (pre ++ post) := by
  obtain ⟨hF, hP, hL⟩ := h
  have hsub : (pre ++ post).Sublist (pre ++ leaf :: post) :=
    List.Sublist.append_left (List.sublist_cons_self leaf post) pre
  refine ⟨?_, hP.sublist hsub, fun l hl => hL l (hsub.subset hl)⟩
  cases pre with
  | nil => exact absurd rfl hp
  | cons p ps =>
    rw [List.cons_append] at hF ⊢
    refine ⟨hF.1, ?_⟩
    intro l' hl'
    apply hF.2 l'
    simp only [List.mem_append, List.mem_cons] at hl' ⊢
    rcases hl' with h | h
    · exact Or.inl h
    · exact Or.inr (Or.inr h)

/-- the right neighbour absorbs the range: it takes over the unlinked leaf's fence. -/
theorem LayerCore.unlink_right {pre post : List Leaf} {leaf nx : Leaf}
    (h : LayerCore (pre ++ leaf :: nx :: post)) :
    LayerCore (pre ++ { nx with fence := leaf.fence } :: post) := by
  have hbp := h.before_post
  obtain ⟨hF, hP, hL⟩ := h
  have hnx : LeafOK nx := hL nx (by simp)
  refine ⟨?_, ?_, ?_⟩
  · cases pre with
    | nil =>
      refine ⟨hF.1, ?_⟩
      intro l' hl'
      exact hF.2 l' (by simp [hl'])
    | cons p ps =>
      rw [List.cons_append] at hF ⊢
      refine ⟨hF.1, ?_⟩
      intro l' hl'
      simp only [List.mem_append, List.mem_cons] at hl'
      rcases hl' with hl' | hl' | hl'
      · exact hF.2 l' (by simp [hl'])
      · subst hl'; exact hF.2 leaf (by simp)
      · exact hF.2 l' (by simp [hl'])
  · rw [List.pairwise_append, List.pairwise_cons, List.pairwise_cons] at hP
    rw [List.pairwise_append, List.pairwise_cons]
    refine ⟨hP.1, ⟨?_, hP.2.1.2.2⟩, ?_⟩
    · intro b hb f hf
      exact ⟨(hP.2.1.1 b (by simp [hb]) f hf).1, (hP.2.1.2.1 b hb f hf).2⟩
    · intro a ha b hb
      rcases List.mem_cons.mp hb with e | hb'
      · subst e
        exact hP.2.2 a ha leaf (by simp)
      · exact hP.2.2 a ha b (by simp [hb'])
  · intro l hl
    simp only [List.mem_append, List.mem_cons] at hl
    rcases hl with hl | hl | hl
    · exact hL l (by simp [hl])
    · subst hl
      refine ⟨hnx.1, hnx.2.1, hnx.2.2.1, ?_⟩
      intro g hg e he
      obtain ⟨f, hf, hfw, _⟩ := hF.tail_fence nx (by cases pre <;> simp)
      have h1 := (hbp nx (by simp) f hf).1 g hg
      have h2 := hnx.2.2.2 f hf e he
      cases h3 : KT.ltSpec e.kt g with
      | false => rfl
      | true => rw [KT.ltSpec_trans _ _ _ h3 h1] at h2; cases h2
    · exact hL l (by simp [hl])

/-! ### where a new key goes inside a sorted leaf -/

theorem sorted_insert_decomp {k : KT} (hk : k.WF) : ∀ (ents : List Ent),
    (∀ e ∈ ents, e.kt.WF) → ents.Pairwise (fun a b => KT.ltSpec a.kt b.kt = true) →
    (∀ e ∈ ents, e.kt ≠ k) →
    ∃ a b, ents = a ++ b ∧ (∀ x ∈ a, KT.ltSpec x.kt k = true) ∧ (∀ x ∈ b, KT.ltSpec k x.kt = true)
  | [], _, _, _ => ⟨[], [], rfl, by simp, by simp⟩
  | x :: xs, hw, hs, hn => by
    rw [List.pairwise_cons] at hs
    rcases KT.ltSpec_total x.kt k (hw x (by simp)) hk with h | h | h
    · obtain ⟨a, b, h1, h2, h3⟩ := sorted_insert_decomp hk xs (fun e he => hw e (by simp [he])) hs.2
        (fun e he => hn e (by simp [he]))
      refine ⟨x :: a, b, by rw [h1]; rfl, ?_, h3⟩
      intro y hy
      rcases List.mem_cons.mp hy with e | hy'
      · subst e; exact h
      · exact h2 y hy'
    · exact absurd h (hn x (by simp))
    · refine ⟨[], x :: xs, rfl, by simp, ?_⟩
      intro y hy
      rcases List.mem_cons.mp hy with e | hy'
      · subst e; exact h
      · exact KT.ltSpec_trans _ _ _ h (hs.1 y hy')

theorem rank_eq_of_decomp {k : KT} (hk : k.WF) {ents a b : List Ent} (h0 : ents = a ++ b)
    (hw : ∀ e ∈ ents, e.kt.WF) (hs : ents.Pairwise (fun a b => KT.ltSpec a.kt b.kt = true))
    (ha : ∀ x ∈ a, KT.ltSpec x.kt k = true) (hb : ∀ x ∈ b, KT.ltSpec k x.kt = true) :
    rankIfInsert k (ents.map (·.kt)) = a.length := by
  have hn : k ∉ ents.map (·.kt) := by
    intro hm
    obtain ⟨e, he, hek⟩ := List.mem_map.mp hm
    rw [h0, List.mem_append] at he
    rcases he with he | he
    · exact lt_ne (ha e he) hek
    · exact lt_ne (hb e he) hek.symm
  rw [rankIfInsert_eq k _ hk (by
      intro t ht; obtain ⟨e, he, rfl⟩ := List.mem_map.mp ht; exact hw e he)
    (by rw [List.pairwise_map]; exact hs) hn]
  rw [h0, List.map_append, List.filter_append, List.length_append]
  have e1 : (a.map (·.kt)).filter (fun t => KT.ltSpec t k) = a.map (·.kt) := by
    rw [List.filter_eq_self]
    intro t ht; obtain ⟨e, he, rfl⟩ := List.mem_map.mp ht; exact ha e he
  have e2 : (b.map (·.kt)).filter (fun t => KT.ltSpec t k) = [] := by
    rw [List.filter_eq_nil_iff]
    intro t ht; obtain ⟨e, he, rfl⟩ := List.mem_map.mp ht
    rw [lt_asymm (hb e he)]; simp
  rw [e1, e2]; simp

theorem insertIdx'_append {α} (a b : List α) (x : α) : insertIdx' (a ++ b) a.length x = a ++ x :: b := by
  simp [insertIdx']

/-- the result `a ++ e :: b` of inserting into a sorted list is sorted, etc. -/
theorem sorted_insert {a b : List Ent} {e : Ent}
    (hs : (a ++ b).Pairwise (fun x y => KT.ltSpec x.kt y.kt = true))
    (ha : ∀ x ∈ a, KT.ltSpec x.kt e.kt = true) (hb : ∀ x ∈ b, KT.ltSpec e.kt x.kt = true) :
    (a ++ e :: b).Pairwise (fun x y => KT.ltSpec x.kt y.kt = true) := by
  rw [List.pairwise_append] at hs ⊢
  rw [List.pairwise_cons]
  refine ⟨hs.1, ⟨hb, hs.2.1⟩, ?_⟩
  intro x hx y hy
  rcases List.mem_cons.mp hy with h | h
  · subst h; exact ha x hx
  · exact hs.2.2 x hx y h

/-- the shape of a split: which entries end up left and right. -/
theorem split_shape {ents a b : List Ent} {e : Ent} {first : KT} (h0 : ents = a ++ b)
    (hlen : ents.length = 15) (hfirst : first = ((ents.drop 8).headD default).kt)
    (hew : e.kt.WF) (hw : ∀ x ∈ ents, x.kt.WF)
    (ha : ∀ x ∈ a, KT.ltSpec x.kt e.kt = true) (hb : ∀ x ∈ b, KT.ltSpec e.kt x.kt = true) :
    ∃ lo' hi' h hs,
      (if borderSplitLower e.kt first a.length 8 then
          insertIdx' (ents.take 8) a.length e else ents.take 8) = lo' ∧
      (if borderSplitLower e.kt first a.length 8 then
          ents.drop 8 else insertIdx' (ents.drop 8) (a.length - 8) e) = hi' ∧
      hi' = h :: hs ∧ h.kt = first ∧ h ∈ ents ∧ lo' ≠ [] ∧
      lo' ++ hi' = a ++ e :: b ∧ lo'.length ≤ 9 ∧ hi'.length ≤ 8 := by
  have hsplit : ents = ents.take 8 ++ ents.drop 8 := (List.take_append_drop 8 ents).symm
  have hlo : (ents.take 8).length = 8 := by simp [hlen]
  have hhi : (ents.drop 8).length = 7 := by simp [hlen]
  generalize hlo' : ents.take 8 = lo at *
  generalize hhi' : ents.drop 8 = hi at *
  cases hi with
  | nil => simp at hhi
  | cons h hs =>
    have hh : h ∈ ents := by rw [hsplit]; simp
    have hhw : h.kt.WF := hw h hh
    have hfe : first = h.kt := by rw [hfirst]; rfl
    subst hfe
    have hab : a ++ b = lo ++ h :: hs := by rw [← h0]; exact hsplit
    have hne : e.kt ≠ h.kt := by
      intro ee
      rw [h0, List.mem_append] at hh
      rcases hh with hh | hh
      · exact lt_ne (ha h hh) ee.symm
      · exact lt_ne (hb h hh) ee
    rcases List.append_eq_append_iff.mp hab with ⟨c, h1, h2⟩ | ⟨c, h1, h2⟩
    · -- lo = a ++ c, b = c ++ h :: hs : the new key is below `first`
      have hlt : KT.ltSpec e.kt h.kt = true := hb h (by rw [h2]; simp)
      have hlow : borderSplitLower e.kt h.kt a.length 8 = true := by
        rw [borderSplitLower_eq _ _ _ _ hew hhw hne (fun _ => hlt)]; exact hlt
      rw [if_pos hlow, if_pos hlow]
      refine ⟨a ++ e :: c, h :: hs, h, hs, ?_, rfl, rfl, rfl, hh, by simp, ?_, ?_, by simp [hhi]⟩
      · rw [h1, insertIdx'_append]
      · rw [h2]; simp
      · have : a.length + c.length = 8 := by rw [← hlo, h1]; simp
        simp only [List.length_append, List.length_cons]; omega
    · -- a = lo ++ c, h :: hs = c ++ b
      cases c with
      | nil =>
        simp only [List.append_nil, List.nil_append] at h1 h2
        have hlt : KT.ltSpec e.kt h.kt = true := hb h (by rw [← h2]; simp)
        have hlow : borderSplitLower e.kt h.kt a.length 8 = true := by
          rw [borderSplitLower_eq _ _ _ _ hew hhw hne (fun _ => hlt)]; exact hlt
        rw [if_pos hlow, if_pos hlow]
        refine ⟨a ++ [e], h :: hs, h, hs, ?_, rfl, rfl, rfl, hh, by simp, ?_, ?_, by simp [hhi]⟩
        · rw [← h1]
          have := insertIdx'_append a [] e
          simpa using this
        · rw [← h2]; simp
        · rw [h1]; simp [hlo]
      | cons c0 cs =>
        simp only [List.cons_append, List.cons.injEq] at h2
        have hc0 : c0 = h := h2.1.symm
        subst hc0
        have hgt : KT.ltSpec c0.kt e.kt = true := ha c0 (by rw [h1]; simp)
        have hlow : borderSplitLower e.kt c0.kt a.length 8 = false := by
          rw [borderSplitLower_eq _ _ _ _ hew hhw hne (by
            intro hr; rw [h1] at hr; simp [hlo] at hr; omega)]
          exact lt_asymm hgt
        rw [hlow]
        simp only [Bool.false_eq_true, if_false]
        refine ⟨lo, c0 :: cs ++ e :: b, c0, cs ++ e :: b, rfl, ?_, rfl, rfl, hh, ?_, ?_, by omega, ?_⟩
        · have hl : a.length - 8 = (c0 :: cs).length := by rw [h1]; simp [hlo]
          rw [hl, h2.2]
          exact insertIdx'_append (c0 :: cs) b e
        · intro e0; rw [e0] at hlo; simp at hlo
        · rw [h1]; simp
        · have : (c0 :: cs ++ b).length = 7 := by
            rw [← hhi, h2.2]; simp
          simp only [List.length_append, List.length_cons] at this ⊢
          omega

end Yak.Tree
