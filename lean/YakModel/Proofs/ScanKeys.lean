import YakModel.Scan
import YakModel.Proofs.ContentProofs
/-!
# Endpoint handling of `scan`: `memcmp` on padded slices / full keys versus `lexLt`
-/
namespace Yak.Tree
open Yak

/-! ### the two halves of an interval -/

def inLeft (lk : Key) (le : EP) (r : Key) : Bool :=
  match le with
  | .inf => true
  | .incl => !lexLt r lk
  | .excl => lexLt lk r

def inRight (rk : Key) (re : EP) (k : Key) : Bool :=
  match re with
  | .inf => true
  | .incl => !lexLt rk k
  | .excl => lexLt k rk

theorem inInterval_eq (lk : Key) (le : EP) (rk : Key) (re : EP) (k : Key) :
    inInterval lk le rk re k = (inLeft lk le k && inRight rk re k) := by
  cases le <;> cases re <;> rfl

theorem lexLt_nil_right (a : Key) : lexLt a [] = false := by cases a <;> rfl

theorem lexLt_false_of_lt {a b : Key} (h : lexLt a b = true) : lexLt b a = false := lexLt_asymm a b h

/-- `a ≤ b < c` -/
theorem lexLt_of_le_of_lt {a b c : Key} (h1 : lexLt b a = false) (h2 : lexLt b c = true) : lexLt a c = true := by
  rcases lexLt_total a b with h | h | h
  · exact lexLt_trans _ _ _ h h2
  · rw [h]; exact h2
  · rw [h] at h1; cases h1

/-- `a < b ≤ c` -/
theorem lexLt_of_lt_of_le {a b c : Key} (h1 : lexLt a b = true) (h2 : lexLt c b = false) : lexLt a c = true := by
  rcases lexLt_total b c with h | h | h
  · exact lexLt_trans _ _ _ h1 h
  · rw [← h]; exact h1
  · rw [h] at h2; cases h2

/-- the right half is downward closed -/
theorem inRight_mono {rk : Key} {re : EP} {k k' : Key} (h : lexLt k k' = true) (hr : inRight rk re k = false) :
    inRight rk re k' = false := by
  cases re with
  | inf => cases hr
  | incl =>
    simp only [inRight, Bool.not_eq_false'] at hr
    simp [inRight, lexLt_trans _ _ _ hr h]
  | excl =>
    simp only [inRight] at hr ⊢
    cases h' : lexLt k' rk with
    | false => rfl
    | true => rw [lexLt_trans _ _ _ h h'] at hr; cases hr

/-- everything above a key that is not below the right end is outside -/
theorem inRight_false_of_le {rk : Key} {re : EP} {F k' : Key} (hre : re ≠ .inf) (h : lexLt F rk = false)
    (hk : lexLt F k' = true) : inRight rk re k' = false := by
  have hlt : lexLt rk k' = true := lexLt_of_le_of_lt h hk
  cases re with
  | inf => exact absurd rfl hre
  | incl => simp [inRight, hlt]
  | excl => simp only [inRight]; exact lexLt_asymm _ _ hlt

/-- the left half is upward closed -/
theorem inLeft_false_of_lt {lk : Key} {le : EP} {r : Key} (hle : le ≠ .inf) (h : lexLt r lk = true) :
    inLeft lk le r = false := by
  cases le with
  | inf => exact absurd rfl hle
  | incl => simp [inLeft, h]
  | excl => simp only [inLeft]; exact lexLt_asymm _ _ h

theorem inLeft_true_of_lt {lk : Key} {le : EP} {r : Key} (h : lexLt lk r = true) :
    inLeft lk le r = true := by
  cases le with
  | inf => rfl
  | incl => simp [inLeft, lexLt_asymm _ _ h]
  | excl => exact h

/-! ### `memcmp` -/

theorem memcmp_zero_n (a b : List UInt8) : memcmp a b 0 = 0 := by simp [memcmp]

theorem memcmp_cons (x y : UInt8) (a b : List UInt8) (n : Nat) :
    memcmp (x :: a) (y :: b) (n + 1) = if x < y then -1 else if y < x then 1 else memcmp a b n := by
  simp [memcmp]

theorem memcmp_succ (a b : List UInt8) (n : Nat) :
    memcmp a b (n + 1) = if a.headD 0 < b.headD 0 then -1 else if b.headD 0 < a.headD 0 then 1
      else memcmp a.tail b.tail n := rfl

theorem u8_asymm {x y : UInt8} (h : x < y) : ¬ y < x := by
  rw [UInt8.lt_iff_toNat_lt] at *; omega

theorem u8_eq_of_not_lt {x y : UInt8} (h1 : ¬ x < y) (h2 : ¬ y < x) : x = y := by
  rw [UInt8.lt_iff_toNat_lt] at *; apply UInt8.toNat_inj.mp; omega

theorem u8_not_lt_zero (x : UInt8) : ¬ x < 0 := by
  rw [UInt8.lt_iff_toNat_lt]; simp

theorem memcmp_swap : ∀ (n : Nat) (a b : List UInt8), memcmp b a n = - memcmp a b n
  | 0, _, _ => by simp [memcmp]
  | n + 1, a, b => by
    rw [memcmp_succ, memcmp_succ]
    by_cases h1 : a.headD 0 < b.headD 0
    · rw [if_pos h1, if_neg (u8_asymm h1), if_pos h1]; omega
    · by_cases h2 : b.headD 0 < a.headD 0
      · rw [if_pos h2, if_neg h1, if_pos h2]
      · rw [if_neg h2, if_neg h1, if_neg h1, if_neg h2]
        exact memcmp_swap n a.tail b.tail

/-- a negative `memcmp` is a mismatch inside the compared prefix: what follows is irrelevant -/
theorem memcmp_neg_append : ∀ (n : Nat) (a b x y : List UInt8), n ≤ a.length → n ≤ b.length →
    memcmp a b n < 0 → lexLt (a ++ x) (b ++ y) = true
  | 0, _, _, _, _, _, _, h => by simp [memcmp] at h
  | n + 1, [], _, _, _, h, _, _ => by simp at h
  | n + 1, _ :: _, [], _, _, _, h, _ => by simp at h
  | n + 1, u :: a, w :: b, x, y, ha, hb, h => by
    rw [memcmp_cons] at h
    rw [List.cons_append, List.cons_append, lexLt_cons]
    by_cases h1 : u < w
    · rw [if_pos h1]
    · rw [if_neg h1] at h ⊢
      by_cases h2 : w < u
      · rw [if_pos h2] at h; omega
      · rw [if_neg h2] at h
        rw [if_neg (by simpa using h2)]
        exact memcmp_neg_append n a b x y (by simpa using ha) (by simpa using hb) h

/-- on two strings of the compared length `memcmp` is the lexicographic comparison -/
theorem memcmp_lt_iff {n : Nat} {a b : List UInt8} (ha : a.length = n) (hb : b.length = n) :
    memcmp a b n < 0 ↔ lexLt a b = true := by
  have := lexLt_take n n a b (by omega) (by omega)
  rw [List.take_of_length_le (by omega), List.take_of_length_le (by omega), Nat.min_self] at this
  rw [this]
  simp

theorem memcmp_eq_iff {n : Nat} {a b : List UInt8} (ha : a.length = n) (hb : b.length = n) :
    memcmp a b n = 0 ↔ a = b := by
  have := take_eq_take n n a b (by omega) (by omega)
  rw [List.take_of_length_le (by omega), List.take_of_length_le (by omega), Nat.min_self] at this
  rw [this]
  simp

theorem memcmp_gt_iff {n : Nat} {a b : List UInt8} (ha : a.length = n) (hb : b.length = n) :
    memcmp a b n > 0 ↔ lexLt b a = true := by
  rw [← memcmp_lt_iff hb ha, memcmp_swap n a b]
  omega

/-! ### zero padding -/

theorem padTo_length (n : Nat) (l : List UInt8) : (padTo n l).length = n := by
  unfold padTo
  simp only [List.length_append, List.length_take, List.length_replicate]
  omega

theorem padTo_nil (n : Nat) : padTo n [] = List.replicate n 0 := by simp [padTo]

theorem padTo_cons (n : Nat) (x : UInt8) (xs : List UInt8) : padTo (n + 1) (x :: xs) = x :: padTo n xs := by
  simp [padTo]

theorem padTo_of_ge {n : Nat} {l : List UInt8} (h : n ≤ l.length) : padTo n l = l.take n := by
  unfold padTo
  have : n - l.length = 0 := by omega
  rw [this]; simp

theorem padTo_of_le {n : Nat} {l : List UInt8} (h : l.length ≤ n) :
    padTo n l = l ++ List.replicate (n - l.length) 0 := by
  unfold padTo
  rw [List.take_of_length_le h]

theorem lexLt_zeros_false : ∀ (n : Nat) (ks : List UInt8), ks.length = n → lexLt ks (List.replicate n 0) = false
  | 0, [], _ => rfl
  | 0, _ :: _, h => by simp at h
  | n + 1, [], h => by simp at h
  | n + 1, y :: ys, h => by
    rw [List.replicate_succ, lexLt_cons, if_neg (u8_not_lt_zero y)]
    by_cases h2 : y > 0
    · rw [if_pos h2]
    · rw [if_neg h2]; exact lexLt_zeros_false n ys (by simpa using h)

/-- padded left key below the slice: the left key is below everything under the slice -/
theorem lexLt_of_padTo_lt : ∀ (n : Nat) (lk ks r : List UInt8), ks.length = n →
    lexLt (padTo n lk) ks = true → lexLt lk (ks ++ r) = true
  | n, [], ks, r, _, h => by
    cases ks with
    | nil => rw [lexLt_nil_right] at h; cases h
    | cons y ys => rfl
  | 0, _ :: _, ks, r, hk, h => by
    have : ks = [] := List.eq_nil_of_length_eq_zero hk
    subst this; rw [lexLt_nil_right] at h; cases h
  | n + 1, x :: xs, [], r, hk, _ => by simp at hk
  | n + 1, x :: xs, y :: ys, r, hk, h => by
    rw [padTo_cons, lexLt_cons] at h
    rw [List.cons_append, lexLt_cons]
    by_cases h1 : x < y
    · rw [if_pos h1]
    · rw [if_neg h1] at h ⊢
      by_cases h2 : x > y
      · rw [if_pos h2] at h; cases h
      · rw [if_neg h2] at h ⊢
        exact lexLt_of_padTo_lt n xs ys r (by simpa using hk) h

/-- slice below the padded left key: everything under the slice is below the left key -/
theorem lexLt_of_lt_padTo : ∀ (n : Nat) (lk ks r : List UInt8), ks.length = n →
    lexLt ks (padTo n lk) = true → lexLt (ks ++ r) lk = true
  | n, [], ks, r, hk, h => by
    rw [padTo_nil, lexLt_zeros_false n ks hk] at h; cases h
  | 0, _ :: _, ks, r, hk, h => by
    have : ks = [] := List.eq_nil_of_length_eq_zero hk
    subst this
    simp [padTo] at h
  | n + 1, x :: xs, [], r, hk, _ => by simp at hk
  | n + 1, x :: xs, y :: ys, r, hk, h => by
    rw [padTo_cons, lexLt_cons] at h
    rw [List.cons_append, lexLt_cons]
    by_cases h1 : y < x
    · rw [if_pos h1]
    · rw [if_neg h1] at h ⊢
      by_cases h2 : y > x
      · rw [if_pos h2] at h; cases h
      · rw [if_neg h2] at h ⊢
        exact lexLt_of_lt_padTo n xs ys r (by simpa using hk) h

/-! ### comparing a short string with a long one -/

theorem lexLt_short_long : ∀ (b x y : List UInt8), b.length ≤ x.length → y ≠ [] →
    lexLt b (x ++ y) = (lexLt b x || b == x)
  | [], [], y, _, hy => by
    cases y with
    | nil => exact absurd rfl hy
    | cons _ _ => rfl
  | [], _ :: _, _, _, _ => rfl
  | _ :: _, [], _, h, _ => by simp at h
  | w :: b, u :: x, y, h, hy => by
    rw [List.cons_append, lexLt_cons, lexLt_cons]
    by_cases h1 : w < u
    · simp [h1]
    · by_cases h2 : w > u
      · have hne : w ≠ u := by intro e; subst e; exact h1 h2
        simp [h1, h2, hne]
      · have he : w = u := u8_eq_of_not_lt h1 (by simpa using h2)
        subst he
        simp only [h1, if_false]
        rw [lexLt_short_long b x y (by simpa using h) hy]
        simp

theorem lexLt_long_short : ∀ (b x y : List UInt8), b.length ≤ x.length →
    lexLt (x ++ y) b = lexLt x b
  | [], x, y, _ => by rw [lexLt_nil_right, lexLt_nil_right]
  | _ :: _, [], _, h => by simp at h
  | w :: b, u :: x, y, h => by
    rw [List.cons_append, lexLt_cons, lexLt_cons, lexLt_long_short b x y (by simpa using h)]

end Yak.Tree
