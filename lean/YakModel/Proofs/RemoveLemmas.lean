import YakModel.Proofs.PutReports
/-!
# Single-layer facts for `remove`: erasing one entry, unlinking an emptied leaf
-/
namespace Yak.Tree
open Yak

theorem erase_layer {pre post : List Leaf} {leaf leaf' : Leaf} {a b : List Ent} {e : Ent}
    (hc : LayerCore (pre ++ leaf :: post)) (h3 : leaf.ents = a ++ e :: b)
    (hf : leaf'.fence = leaf.fence) (he : leaf'.ents = a ++ b) :
    LayerCore (pre ++ leaf' :: post) ∧
    ∀ x, x ∈ layerEnts (pre ++ leaf' :: post) ↔ (x ∈ layerEnts (pre ++ leaf :: post) ∧ x.kt ≠ e.kt) := by
  have hl : LeafOK leaf := hc.leafOK
  have hsub : ∀ x ∈ leaf'.ents, x ∈ leaf.ents := by
    intro x hx; rw [he] at hx; rw [h3]
    simp only [List.mem_append, List.mem_cons] at hx ⊢
    rcases hx with h | h
    · exact Or.inl h
    · exact Or.inr (Or.inr h)
  refine ⟨?_, ?_⟩
  · refine hc.replace hf ⟨?_, fun x hx => hl.2.1 x (hsub x hx), ?_, ?_⟩ ?_
    · have := hl.1
      rw [h3] at this; rw [he]
      simp only [List.length_append, List.length_cons] at this ⊢; omega
    · have := hl.2.2.1
      rw [h3] at this; rw [he]
      exact this.sublist (List.Sublist.append_left (List.sublist_cons_self e b) a)
    · intro f hf' x hx
      rw [hf] at hf'
      exact hl.2.2.2 f hf' x (hsub x hx)
    · intro b' hb' f hf' x hx
      exact (hc.before_post b' hb' f hf').2 x (hsub x hx)
  · intro x
    have hs := layerEnts_sorted hc
    have e1 : layerEnts (pre ++ leaf :: post) = (layerEnts pre ++ a) ++ e :: (b ++ layerEnts post) := by
      rw [layerEnts_split, h3]; simp
    have e2 : layerEnts (pre ++ leaf' :: post) = (layerEnts pre ++ a) ++ (b ++ layerEnts post) := by
      rw [layerEnts_split, he]; simp
    rw [e1] at hs
    rw [e1, e2]
    exact mem_erase_sorted hs x

theorem kt_beq_iff (a b : KT) : (a == b) = true ↔ a = b := by
  cases a with | mk s1 l1 => cases b with | mk s2 l2 =>
  show (Yak.instBEqKT.beq _ _) = true ↔ _
  simp [Yak.instBEqKT.beq]

theorem kt_beq_false {a b : KT} (h : a ≠ b) : (a == b) = false := by
  cases hb : (a == b) with
  | false => rfl
  | true => exact absurd ((kt_beq_iff a b).mp hb) h

theorem kt_beq_self (a : KT) : (a == a) = true := (kt_beq_iff a a).mpr rfl

theorem filter_erase {a b : List Ent} {e : Ent}
    (hs : (a ++ e :: b).Pairwise (fun x y => KT.ltSpec x.kt y.kt = true)) :
    (a ++ e :: b).filter (fun x => !(x.kt == e.kt)) = a ++ b := by
  obtain ⟨h1, h2⟩ := sorted_split_ne hs
  rw [List.filter_append, List.filter_cons]
  have e1 : a.filter (fun x => !(x.kt == e.kt)) = a := by
    rw [List.filter_eq_self]; intro x hx; simp [kt_beq_false (h1 x hx)]
  have e2 : b.filter (fun x => !(x.kt == e.kt)) = b := by
    rw [List.filter_eq_self]; intro x hx; simp [kt_beq_false (h2 x hx)]
  rw [e1, e2]; simp [kt_beq_self]

/-- `leaves1.eraseIdx i` of `handleEmpty`, for an empty leaf at position `pre.length`. -/
theorem unlink_spec {pre post : List Leaf} {l : Leaf} (hc : LayerCore (pre ++ l :: post))
    (hl : l.ents = []) (hfull : AllFull (pre ++ post)) (right : Bool)
    (hr0 : pre = [] → right = true ∧ post ≠ []) (hrl : post = [] → right = false) :
    ∃ res, (if right = true then
        match (pre ++ l :: post)[pre.length + 1]? with
        | some nx => (pre ++ l :: post).set (pre.length + 1)
            { fence := ((pre ++ l :: post).getD pre.length emptyLeaf).fence, vins := nx.vins,
              vsplit := nx.vsplit, deleted := nx.deleted, ents := nx.ents }
        | none => pre ++ l :: post
      else pre ++ l :: post).eraseIdx pre.length = res ∧
      LayerCore res ∧ AllFull res ∧ ∀ x, x ∈ layerEnts res ↔ x ∈ layerEnts (pre ++ l :: post) := by
  have hgetD : (pre ++ l :: post).getD pre.length emptyLeaf = l := by
    rw [List.getD_eq_getElem?_getD]; simp
  rw [hgetD]
  have hents : ∀ x, x ∈ layerEnts (pre ++ l :: post) ↔ x ∈ layerEnts (pre ++ post) := by
    intro x
    rw [layerEnts_split, hl]
    simp [layerEnts, List.flatMap_append]
  cases right with
  | false =>
    have hp : pre ≠ [] := by intro e; have := (hr0 e).1; cases this
    refine ⟨pre ++ post, ?_, hc.unlink_left hp, hfull, fun x => (hents x).symm⟩
    rw [if_neg (by simp), List.eraseIdx_eq_take_drop_succ]; simp
  | true =>
    cases post with
    | nil => have := hrl rfl; cases this
    | cons nx post' =>
      have hnx : (pre ++ l :: nx :: post')[pre.length + 1]? = some nx := by
        rw [List.getElem?_append_right (by omega)]; simp
      rw [if_pos rfl, hnx]
      dsimp only
      have hset : (pre ++ l :: nx :: post').set (pre.length + 1)
          { fence := l.fence, vins := nx.vins, vsplit := nx.vsplit, deleted := nx.deleted, ents := nx.ents } =
          pre ++ l :: { nx with fence := l.fence } :: post' := by
        rw [List.set_append_right _ _ (by omega)]; simp
      rw [hset]
      refine ⟨pre ++ { nx with fence := l.fence } :: post', ?_, hc.unlink_right, ?_, ?_⟩
      · rw [List.eraseIdx_eq_take_drop_succ]; simp
      · have h1 : AllFull (pre ++ post') := by
          intro y hy; apply hfull y
          rw [List.mem_append] at hy ⊢
          rcases hy with h | h
          · exact Or.inl h
          · exact Or.inr (by simp [h])
        have h2 := hfull nx (by simp)
        exact h1.insert (leaf := { nx with fence := l.fence }) h2.1 h2.2
      · intro x
        rw [hents, layerEnts_split, layerEnts_split]

end Yak.Tree
