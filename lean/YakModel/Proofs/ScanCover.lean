import YakModel.Proofs.ScanNodes
import YakModel.Proofs.ScanLanding
/-!
# Forward scans record the landing leaf of every absent key of the covered interval (C05)
-/
namespace Yak.Tree
open Yak

/-- the scan did not stop on `max_size` before reaching `k` -/
def Cov (max : Nat) (ts : List (Key × Val)) (k : Key) : Prop :=
  full max ts.length = false ∨ ∃ last, ts.getLast? = some last ∧ lexLt last.1 k = false

/-- the leaf an insert of `p ++ rest` (descending from layer `p`) modifies is among `nodes` -/
def Hit (t : Tree) (p : List UInt8) (rest : Key) (v : Val) (nodes : List NodeRef) : Prop :=
  ∃ q Lq i, findLayer t q = some Lq ∧ i < Lq.leaves.length ∧
    (putAt t p rest v false).modified = some (q, i) ∧ mkRef Lq i ∈ nodes

theorem Hit.mono {t : Tree} {p : List UInt8} {rest : Key} {v : Val} {a b x : List NodeRef}
    (h : Hit t p rest v a) (hb : b = a ++ x) : Hit t p rest v b := by
  obtain ⟨q, Lq, i, h1, h2, h3, h4⟩ := h
  exact ⟨q, Lq, i, h1, h2, h3, by rw [hb]; exact List.mem_append_left _ h4⟩

/-- the last tuple of a scan that filled up comes from the candidates it was offered -/
theorem last_mem_of_full {α : Type} {max : Nat} {A B : List α} {x : α}
    (hA : full max A.length = false) (hf : full max (lim max (A ++ B)).length = true)
    (hl : (lim max (A ++ B)).getLast? = some x) : x ∈ B := by
  obtain ⟨h0, h1⟩ := full_true_iff.mp hf
  rcases full_false_iff.mp hA with h | hlt
  · exact absurd h h0
  · unfold lim at hl h1
    rw [if_neg h0] at hl h1
    rw [List.take_append] at hl h1
    rw [List.take_of_length_le (by omega)] at hl h1
    have hne : List.take (max - A.length) B ≠ [] := by
      intro e
      rw [e, List.append_nil] at h1
      omega
    rw [List.getLast?_append] at hl
    cases hb : (List.take (max - A.length) B).getLast? with
    | none => exact absurd (List.getLast?_eq_none_iff.mp hb) hne
    | some y =>
      rw [hb] at hl
      simp only [Option.some_or, Option.some.injEq] at hl
      subst hl
      exact List.mem_of_mem_take (List.mem_of_getLast? hb)

/-! ### `put` along the path -/

theorem putAt_miss {t : Tree} {p : List UInt8} {L : Layer} (hL : findLayer t p = some L) {rest : Key}
    (v : Val) (u : Bool)
    (h : leafLookup (KT.ofKey rest) (leafKeys (L.leaves.getD (route (KT.ofKey rest) L.leaves) emptyLeaf)) = none) :
    (putAt t p rest v u).modified = some (L.pfx, route (KT.ofKey rest) L.leaves) := by
  rw [putAt, hL]
  simp only [h]
  exact insertInto_modified _ _ _ _ _

theorem putAt_descend {t : Tree} {p : List UInt8} {L : Layer} (hL : findLayer t p = some L)
    (hc : LayerCore L.leaves) {rest : Key} {e0 : Ent} (he0 : e0 ∈ layerEnts L.leaves)
    (hk : e0.kt = KT.ofKey rest) (hl : rest.length > 8) (v : Val) (u : Bool) :
    putAt t p rest v u = putAt t (p ++ rest.take 8) (rest.drop 8) v u := by
  have hg := (layerGet_some_iff hc (KT.ofKey_wf rest) e0).mpr ⟨he0, hk⟩
  unfold layerGet leafGet at hg
  rw [Option.map_eq_some_iff] at hg
  obtain ⟨r, hr, _⟩ := hg
  rw [putAt, hL]
  simp only [hr, dif_pos hl]

/-! ### keys under a smaller tuple are smaller -/

theorem LCtx.keys_lt {t fuel p L} (c : LCtx t fuel p L) {e : Ent} (he : e ∈ layerEnts L.leaves) {rest : Key}
    (hlt : KT.ltSpec e.kt (KT.ofKey rest) = true) :
    lexLt (p ++ e.kt.bytes) (p ++ rest) = true ∧
    ∀ kv ∈ entContent t fuel p e, lexLt kv.1 (p ++ rest) = true := by
  have hw := (layerEnts_wf c.core he).1
  obtain ⟨g1, g2⟩ := keys_lt_of_ltSpec_ofKey hw hlt
  have h9 := hw.2.1
  constructor
  · rw [lexLt_append_left]
    by_cases h8 : e.kt.len ≤ 8
    · exact g1 h8
    · have h9' : e.kt.len = 9 := by omega
      have := g2 h9' []
      rw [List.append_nil] at this
      rw [bytes_of_link hw h9']; exact this
  · intro kv hkv
    obtain ⟨r', h1, _, h3⟩ := c.keys he hkv
    rw [h1, lexLt_append_left]
    rcases h3 with ⟨h8, rfl⟩ | ⟨h9', hb, _, _⟩
    · rw [List.append_nil]; exact g1 h8
    · rw [hb]; exact g2 h9' r'

theorem subOK_of {cfg : Cfg} {t fuel p L} (c : LCtx t fuel p L) (max : Nat) : SubOK cfg t fuel p max := by
  intro f hf q alk ale ark are acc hq hlen h0 hpre
  exact scanLayer_tuples c.hF f q alk ale ark are acc hq (by have := c.hA; omega) h0 hpre

/-! ### a visited leaf is recorded -/

theorem recFix_fixed_mem {L : Layer} {i : Nat} {pushed : Bool} {a : Acc} (h : pushed = true → mkRef L i ∈ a.nodes) :
    mkRef L i ∈ (recFix cfgFixed L i pushed a).nodes := by
  unfold recFix
  cases pushed with
  | true => simpa [cfgFixed] using h rfl
  | false => simp [cfgFixed]

theorem mem_of_append {α : Type} {a b x : List α} {y : α} (h : b = a ++ x) (ha : y ∈ a) : y ∈ b := by
  rw [h]; exact List.mem_append_left _ ha

theorem scanEnts_records {t : Tree} {fuel : Nat} {p : List UInt8} {L : Layer} (c : LCtx t fuel p L)
    (max : Nat) (i : Nat) (lk : Key) (le : EP) (rk : Key) (re : EP) :
    ∀ (ents : List Ent) (acc : Acc) (pushed : Bool), (∀ e ∈ ents, e ∈ layerEnts L.leaves) →
      (pushed = true → mkRef L i ∈ acc.nodes) →
      ((scanEnts cfgFixed t fuel L i ents lk le rk re max false acc pushed).2.2 = .stop →
        mkRef L i ∈ (scanEnts cfgFixed t fuel L i ents lk le rk re max false acc pushed).1.nodes) ∧
      ((scanEnts cfgFixed t fuel L i ents lk le rk re max false acc pushed).2.1 = true →
        mkRef L i ∈ (scanEnts cfgFixed t fuel L i ents lk le rk re max false acc pushed).1.nodes) := by
  intro ents
  induction ents with
  | nil =>
    intro acc pushed _ hp
    rw [scanEnts_nil]
    exact ⟨fun h => (by cases h), hp⟩
  | cons e es ih =>
    intro acc pushed hsub hp
    have he : e ∈ layerEnts L.leaves := hsub e (by simp)
    have hsub' : ∀ x ∈ es, x ∈ layerEnts L.leaves := fun x hx => hsub x (by simp [hx])
    cases hval : e.val with
    | some v =>
      rw [scanEnts_val cfgFixed t fuel L i e es v hval]
      split
      · exact ih acc pushed hsub' hp
      · split
        · split
          · exact ⟨fun _ => by simp, fun _ => by simp⟩
          · exact ih _ true hsub' (fun _ => by simp)
        · refine ⟨fun _ => ?_, fun h => ?_⟩
          · cases pushed with
            | true => simpa using hp rfl
            | false => simp
          · simp only at h
            subst h
            simpa using hp rfl
    | none =>
      rw [scanEnts_link cfgFixed t fuel L i e es hval]
      cases linkArgs lk le rk re e.kt.slice (L.pfx ++ e.kt.slice.take (Nat.min e.kt.len 8)) with
      | skip => exact ih acc pushed hsub' hp
      | stop =>
        simp only
        exact ⟨fun _ => recFix_fixed_mem hp, fun h => by subst h; exact recFix_fixed_mem hp⟩
      | go alk ale ark are =>
        obtain ⟨hw, hv9⟩ := layerEnts_wf c.core he
        have h9 := hv9.mp hval
        have hdown : (lay t (p ++ e.kt.slice)).isSome := c.hF.down _ _ c.lay e he h9
        cases fuel with
        | zero =>
          exfalso
          have h1 := depth_bound c.hF hdown
          have h2 := c.hA
          simp only [List.length_append, hw.1] at h1
          omega
        | succ f =>
          simp only
          obtain ⟨y, hy⟩ := scanLayer_mono cfgFixed t max false f
            (L.pfx ++ e.kt.slice.take (Nat.min e.kt.len 8)) alk ale ark are acc
          have hp' : pushed = true → mkRef L i ∈
              (scanLayer cfgFixed t f (L.pfx ++ e.kt.slice.take (Nat.min e.kt.len 8)) alk ale ark are max false acc).1.nodes :=
            fun h => mem_of_append hy (hp h)
          split
          · exact ⟨fun _ => recFix_fixed_mem hp', fun h => by subst h; exact recFix_fixed_mem hp'⟩
          · exact ih _ pushed hsub' hp'

/-! ### the entries of one leaf -/

def SubN (t : Tree) (fuel : Nat) (p : List UInt8) (max : Nat) (v : Val) : Prop :=
  ∀ f, fuel = f + 1 → ∀ (q : List UInt8) (alk : Key) (ale : EP) (ark : Key) (are : EP) (acc : Acc),
    (lay t q).isSome → q.length = p.length + 8 → (ale = .inf → alk = []) →
    full max acc.tuples.length = false →
    ∀ rest' : Key, walkM (lookF (lay t)) q rest' = none → inLeft alk ale rest' = true →
      inRight ark are (q ++ rest') = true →
      Cov max (scanLayer cfgFixed t f q alk ale ark are max false acc).1.tuples (q ++ rest') →
      Hit t q rest' v (scanLayer cfgFixed t f q alk ale ark are max false acc).1.nodes

theorem scanEnts_cover {t : Tree} {fuel : Nat} {p : List UInt8} {L : Layer} (c : LCtx t fuel p L)
    {max : Nat} {v : Val} (IHn : SubN t fuel p max v) (i : Nat) (lk : Key) (le : EP) (rk : Key) (re : EP)
    (rest : Key) (hin : inLeft lk le rest = true) (hir : inRight rk re (p ++ rest) = true)
    (habs : walkM (lookF (lay t)) p rest = none) :
    ∀ (ents : List Ent) (acc : Acc) (pushed : Bool),
      (∀ e ∈ ents, e ∈ layerEnts L.leaves) →
      ents.Pairwise (fun a b => KT.ltSpec a.kt b.kt = true) →
      full max acc.tuples.length = false →
      Cov max (scanEnts cfgFixed t fuel L i ents lk le rk re max false acc pushed).1.tuples (p ++ rest) →
      ((∃ e0 ∈ ents, e0.kt = KT.ofKey rest) →
        Hit t p rest v (scanEnts cfgFixed t fuel L i ents lk le rk re max false acc pushed).1.nodes) ∧
      ((∀ e ∈ ents, KT.ltSpec e.kt (KT.ofKey rest) = true) →
        (scanEnts cfgFixed t fuel L i ents lk le rk re max false acc pushed).2.2 = .cont) := by
  intro ents
  induction ents with
  | nil =>
    intro acc pushed _ _ _ _
    rw [scanEnts_nil]
    exact ⟨fun ⟨e0, h, _⟩ => (by cases h), fun _ => rfl⟩
  | cons e es ih =>
    intro acc pushed hsub hsorted hpre
    have he : e ∈ layerEnts L.leaves := hsub e (by simp)
    obtain ⟨hw, hv9⟩ := layerEnts_wf c.core he
    have hsub' : ∀ x ∈ es, x ∈ layerEnts L.leaves := fun x hx => hsub x (by simp [hx])
    rw [List.pairwise_cons] at hsorted
    obtain ⟨hlater, hsorted'⟩ := hsorted
    have hkw := KT.ofKey_wf rest
    rcases KT.ltSpec_total e.kt (KT.ofKey rest) hw hkw with hlt | heq | hgt
    · -- the entry is below the key's tuple: the scan passes it or the key is not covered
      obtain ⟨hlb, hkeys⟩ := c.keys_lt he hlt
      have hne : e.kt ≠ KT.ofKey rest := lt_ne hlt
      have tail : ∀ (acc' : Acc) (pushed' : Bool), full max acc'.tuples.length = false →
          Cov max (scanEnts cfgFixed t fuel L i es lk le rk re max false acc' pushed').1.tuples (p ++ rest) →
          ((∃ e0 ∈ e :: es, e0.kt = KT.ofKey rest) →
            Hit t p rest v (scanEnts cfgFixed t fuel L i es lk le rk re max false acc' pushed').1.nodes) ∧
          ((∀ e' ∈ e :: es, KT.ltSpec e'.kt (KT.ofKey rest) = true) →
            (scanEnts cfgFixed t fuel L i es lk le rk re max false acc' pushed').2.2 = .cont) := by
        intro acc' pushed' hpre' hcov
        obtain ⟨g1, g2⟩ := ih acc' pushed' hsub' hsorted' hpre' hcov
        refine ⟨fun ⟨e0, h0, hk0⟩ => g1 ⟨e0, ?_, hk0⟩, fun h => g2 (fun x hx => h x (by simp [hx]))⟩
        rcases List.mem_cons.mp h0 with h0 | h0
        · subst h0; exact absurd hk0 hne
        · exact h0
      cases hval : e.val with
      | some v' =>
        have h8 : e.kt.len ≤ 8 := by
          have : e.kt.len ≠ 9 := fun h => by rw [hv9.mpr h] at hval; cases hval
          have := hw.2.1; omega
        have hfk : L.pfx ++ e.kt.slice.take (Nat.min e.kt.len 8) = p ++ e.kt.bytes := by rw [c.pfx]; rfl
        rw [scanEnts_val cfgFixed t fuel L i e es v' hval, hfk, withinRight_eq]
        split
        · exact tail acc pushed hpre
        · cases hr : inRight rk re (p ++ e.kt.bytes) with
          | true =>
            simp only [if_true]
            cases hfull : full max (acc.tuples ++ [(p ++ e.kt.bytes, v')]).length with
            | true =>
              simp only [if_true]
              intro hcov
              exfalso
              rcases hcov with hcov | ⟨last, h1, h2⟩
              · rw [hfull] at hcov; cases hcov
              · rw [List.getLast?_append] at h1
                simp only [List.getLast?_singleton, Option.some_or, Option.some.injEq] at h1
                subst h1
                rw [hlb] at h2; cases h2
            | false =>
              simp only [Bool.false_eq_true, if_false]
              exact tail _ true hfull
          | false =>
            exfalso
            rw [inRight_mono hlb hr] at hir
            cases hir
      | none =>
        have h9 : e.kt.len = 9 := hv9.mp hval
        have hb : e.kt.bytes = e.kt.slice := bytes_of_link hw h9
        have hs8 : e.kt.slice.length = 8 := hw.1
        have hfk : L.pfx ++ e.kt.slice.take (Nat.min e.kt.len 8) = p ++ e.kt.slice := by
          rw [c.pfx]
          show p ++ e.kt.bytes = _
          rw [hb]
        rw [scanEnts_link cfgFixed t fuel L i e es hval, hfk]
        rw [hb] at hlb
        cases hla : linkArgs lk le rk re e.kt.slice (p ++ e.kt.slice) with
        | skip => exact tail acc pushed hpre
        | stop =>
          exfalso
          obtain ⟨hre, hF⟩ := linkArgs_stop hla
          rw [inRight_false_of_le hre hF hlb] at hir
          cases hir
        | go alk ale ark are =>
          have hdown : (lay t (p ++ e.kt.slice)).isSome := c.hF.down _ _ c.lay e he h9
          cases fuel with
          | zero =>
            exfalso
            have h1 := depth_bound c.hF hdown
            have h2 := c.hA
            simp only [List.length_append, hs8] at h1
            omega
          | succ f =>
            simp only
            obtain ⟨h0, _⟩ := linkArgs_go hs8 hla
            have hS := subOK_of (cfg := cfgFixed) c max f rfl (p ++ e.kt.slice) alk ale ark are acc hdown
              (by simp [hs8]) h0 hpre
            cases hfull : full max (scanLayer cfgFixed t f (p ++ e.kt.slice) alk ale ark are max false acc).1.tuples.length with
            | true =>
              simp only [if_true]
              intro hcov
              exfalso
              rw [recFix_tuples] at hcov
              rcases hcov with hcov | ⟨last, h1, h2⟩
              · rw [hfull] at hcov; cases hcov
              · rw [hS] at h1 hfull
                have hmem := last_mem_of_full hpre hfull h1
                have hmem' : last ∈ entContent t (f + 1) p e := by
                  rw [entContent_link hval]
                  exact (List.mem_filter.mp hmem).1
                rw [hkeys last hmem'] at h2
                cases h2
            | false =>
              simp only [Bool.false_eq_true, if_false]
              exact tail _ pushed hfull
    · -- the key's tuple is this (link) entry: the scan descends
      intro hcov
      refine ⟨fun _ => ?_, fun h => ?_⟩
      · have hlook : lookF (lay t) p (KT.ofKey rest) = some e :=
          (lookF_some_iff c.lay c.core hkw e).mpr ⟨he, heq⟩
        have hlong : rest.length > 8 := by
          by_cases hl : rest.length > 8
          · exact hl
          · rw [walkM_short hlook hl] at habs
            exact absurd habs (val_of_lookF_short c.hF hlook hl)
        have habs' : walkM (lookF (lay t)) (p ++ rest.take 8) (rest.drop 8) = none := by
          rw [← walkM_long hlook hlong]; exact habs
        have h9 : e.kt.len = 9 := by rw [heq, ofKey_len_long hlong]
        have hval : e.val = none := hv9.mpr h9
        have hsl : e.kt.slice = rest.take 8 := by rw [heq, ofKey_slice_long hlong]
        have hb : e.kt.bytes = e.kt.slice := bytes_of_link hw h9
        have hs8 : e.kt.slice.length = 8 := hw.1
        have hrest : e.kt.slice ++ rest.drop 8 = rest := by rw [hsl, List.take_append_drop]
        have hd8 : rest.drop 8 ≠ [] := drop8_ne_nil hlong
        have hfk : L.pfx ++ e.kt.slice.take (Nat.min e.kt.len 8) = p ++ e.kt.slice := by
          rw [c.pfx]
          show p ++ e.kt.bytes = _
          rw [hb]
        have hput : putAt t p rest v false = putAt t (p ++ e.kt.slice) (rest.drop 8) v false := by
          rw [hsl]; exact putAt_descend c.hL c.core he heq hlong v false
        have hitup : ∀ nodes, Hit t (p ++ e.kt.slice) (rest.drop 8) v nodes → Hit t p rest v nodes := by
          rintro nodes ⟨q, Lq, j, h1, h2, h3, h4⟩
          exact ⟨q, Lq, j, h1, h2, by rw [hput]; exact h3, h4⟩
        have hkeq : p ++ rest = (p ++ e.kt.slice) ++ rest.drop 8 := by
          rw [List.append_assoc, hrest]
        rw [scanEnts_link cfgFixed t fuel L i e es hval, hfk] at hcov ⊢
        cases hla : linkArgs lk le rk re e.kt.slice (p ++ e.kt.slice) with
        | skip =>
          exfalso
          have := linkArgs_skip hs8 hla (rest.drop 8)
          rw [hrest, hin] at this; cases this
        | stop =>
          exfalso
          obtain ⟨hre, hF⟩ := linkArgs_stop hla
          have : lexLt (p ++ e.kt.slice) (p ++ rest) = true := by
            rw [hkeq]; exact lexLt_append_self _ _ hd8
          rw [inRight_false_of_le hre hF this] at hir
          cases hir
        | go alk ale ark are =>
          rw [hla] at hcov
          have hdown : (lay t (p ++ e.kt.slice)).isSome := c.hF.down _ _ c.lay e he h9
          cases fuel with
          | zero =>
            exfalso
            have h1 := depth_bound c.hF hdown
            have h2 := c.hA
            simp only [List.length_append, hs8] at h1
            omega
          | succ f =>
            simp only at hcov ⊢
            obtain ⟨h0, hgo⟩ := linkArgs_go hs8 hla
            obtain ⟨g1, g2⟩ := hgo (rest.drop 8) hd8
            rw [hrest, hin] at g1
            rw [← hkeq, hir] at g2
            have hsub := IHn f rfl (p ++ e.kt.slice) alk ale ark are acc hdown (by simp [hs8]) h0 hpre
              (rest.drop 8) (by rw [hsl]; exact habs') g1 (by rw [← hkeq]; exact g2)
            rw [← hkeq] at hsub
            apply hitup
            cases hfull : full max (scanLayer cfgFixed t f (p ++ e.kt.slice) alk ale ark are max false acc).1.tuples.length with
            | true =>
              rw [hfull] at hcov
              simp only [if_true] at hcov ⊢
              rw [recFix_tuples] at hcov
              obtain ⟨x, hx⟩ := recFix_nodes cfgFixed L i pushed
                (scanLayer cfgFixed t f (p ++ e.kt.slice) alk ale ark are max false acc).1
              exact (hsub hcov).mono hx
            | false =>
              simp only [Bool.false_eq_true, if_false]
              obtain ⟨x, hx⟩ := scanEnts_mono (subMono cfgFixed t (f + 1) max false) L i lk le rk re es
                (scanLayer cfgFixed t f (p ++ e.kt.slice) alk ale ark are max false acc).1 pushed
              exact (hsub (Or.inl hfull)).mono hx
      · have := h e (by simp)
        rw [heq, KT.ltSpec_irrefl] at this
        cases this
    · -- the entry is above the key's tuple: nothing to show
      intro _
      refine ⟨fun ⟨e0, h0, hk0⟩ => ?_, fun h => ?_⟩
      · exfalso
        rcases List.mem_cons.mp h0 with h0 | h0
        · subst h0; rw [hk0, KT.ltSpec_irrefl] at hgt; cases hgt
        · have := hlater e0 h0
          rw [hk0, lt_asymm hgt] at this
          cases this
      · have := h e (by simp)
        rw [lt_asymm hgt] at this
        cases this

/-! ### the chain of one layer -/

theorem scanLeaves_cover {t : Tree} {fuel : Nat} {p : List UInt8} {L : Layer} (c : LCtx t fuel p L)
    {max : Nat} {v : Val} (IHn : SubN t fuel p max v) (lk : Key) (le : EP) (rk : Key) (re : EP)
    (rest : Key) (hin : inLeft lk le rest = true) (hir : inRight rk re (p ++ rest) = true)
    (habs : walkM (lookF (lay t)) p rest = none) {pre' post' : List Leaf} {leafj : Leaf}
    (hr : Routed L.leaves (KT.ofKey rest) pre' leafj post') :
    ∀ (restLeaves pre : List Leaf) (acc : Acc), L.leaves = pre ++ restLeaves → pre.length ≤ pre'.length →
      full max acc.tuples.length = false →
      Cov max (scanLeaves cfgFixed t fuel L pre.length restLeaves lk le rk re max false acc).1.tuples (p ++ rest) →
      Hit t p rest v (scanLeaves cfgFixed t fuel L pre.length restLeaves lk le rk re max false acc).1.nodes := by
  intro restLeaves
  induction restLeaves with
  | nil =>
    intro pre acc hdec hle _ _
    exfalso
    have := congrArg List.length hr.eq
    rw [hdec] at this
    simp only [List.append_nil, List.length_append, List.length_cons] at this
    omega
  | cons leaf more ih =>
    intro pre acc hdec hle hpre
    have hkw := KT.ofKey_wf rest
    have hleafin : leaf ∈ L.leaves := by rw [hdec]; simp
    have hsubm : ∀ e ∈ leaf.ents, e ∈ layerEnts L.leaves := fun e he => mem_layerEnts.mpr ⟨leaf, hleafin, he⟩
    have hsub : ∀ e ∈ leaf.ents ++ layerEnts more, e ∈ layerEnts L.leaves := by
      intro e he
      rw [hdec, layerEnts_append, layerEnts_cons]
      exact List.mem_append_right _ he
    have hsorted : (leaf.ents ++ layerEnts more).Pairwise (fun a b => KT.ltSpec a.kt b.kt = true) := by
      have := layerEnts_sorted c.core
      rw [hdec, layerEnts_append, layerEnts_cons, List.pairwise_append] at this
      exact this.2.1
    have hsorted1 : leaf.ents.Pairwise (fun a b => KT.ltSpec a.kt b.kt = true) :=
      (List.pairwise_append.mp hsorted).1
    have hE := scanEnts_tuples c (subOK_of (cfg := cfgFixed) c max) pre.length lk le rk re leaf.ents
      (layerEnts more) acc false hsub hsorted hpre
    have hN := scanEnts_cover c IHn pre.length lk le rk re rest hin hir habs leaf.ents acc false hsubm hsorted1 hpre
    have hV := scanEnts_records c max pre.length lk le rk re leaf.ents acc false hsubm (fun h => by cases h)
    rw [scanLeaves_cons]
    simp only [Bool.false_eq_true, if_false]
    rcases hres : scanEnts cfgFixed t fuel L pre.length leaf.ents lk le rk re max false acc false
      with ⟨acc1, pushed, flow⟩
    rw [hres] at hE hN hV
    simp only at hE hN hV
    -- the accumulator handed on after a leaf that was left normally
    have hacc2t : (if pushed = true then acc1 else { acc1 with nodes := acc1.nodes ++ [mkRef L pre.length] }).tuples =
        acc1.tuples := by split <;> rfl
    have hacc2n : ∃ x, (if pushed = true then acc1 else { acc1 with nodes := acc1.nodes ++ [mkRef L pre.length] }).nodes =
        acc1.nodes ++ x := by
      split
      · exact ⟨[], by simp⟩
      · exact ⟨_, rfl⟩
    -- the overall result extends the result of this leaf
    have hfinal : ∀ (P : List NodeRef → Prop), (∀ a x, P a → P (a ++ x)) → P acc1.nodes →
        P (match (acc1, pushed, flow) with
          | (acc1, _, .stop) => (acc1, Flow.stop)
          | (acc1, pushed, .cont) =>
            if more.isEmpty then ((if pushed = true then acc1 else { acc1 with nodes := acc1.nodes ++ [mkRef L pre.length] }), Flow.stop)
            else scanLeaves cfgFixed t fuel L (pre.length + 1) more lk le rk re max false
              (if pushed = true then acc1 else { acc1 with nodes := acc1.nodes ++ [mkRef L pre.length] })).1.nodes := by
      intro P hP h1
      cases flow with
      | stop => exact h1
      | cont =>
        simp only
        obtain ⟨x, hx⟩ := hacc2n
        split
        · rw [hx]; exact hP _ _ h1
        · obtain ⟨y, hy⟩ := scanLeaves_mono (subMono cfgFixed t fuel max false) L lk le rk re more (pre.length + 1)
            (if pushed = true then acc1 else { acc1 with nodes := acc1.nodes ++ [mkRef L pre.length] })
          rw [hy, hx]; exact hP _ _ (hP _ _ h1)
    -- coverage by the overall result implies coverage by this leaf's result
    have hcov1 : Cov max (match (acc1, pushed, flow) with
          | (acc1, _, .stop) => (acc1, Flow.stop)
          | (acc1, pushed, .cont) =>
            if more.isEmpty then ((if pushed = true then acc1 else { acc1 with nodes := acc1.nodes ++ [mkRef L pre.length] }), Flow.stop)
            else scanLeaves cfgFixed t fuel L (pre.length + 1) more lk le rk re max false
              (if pushed = true then acc1 else { acc1 with nodes := acc1.nodes ++ [mkRef L pre.length] })).1.tuples (p ++ rest) →
        Cov max acc1.tuples (p ++ rest) := by
      intro h
      cases flow with
      | stop => exact h
      | cont => exact Or.inl (hE.1 rfl).2
    intro hcov
    obtain ⟨hN1, hN2⟩ := hN (hcov1 hcov)
    by_cases hij : pre.length = pre'.length
    · -- the key's tuple belongs to this leaf
      have heq := hr.eq
      rw [hdec] at heq
      obtain ⟨hpp, hll⟩ := List.append_inj heq hij
      have hlj : leaf = leafj := (List.cons.inj hll).1
      subst hlj
      cases hlk : leafLookup (KT.ofKey rest) (leafKeys (L.leaves.getD (route (KT.ofKey rest) L.leaves) emptyLeaf)) with
      | none =>
        -- the insert lands in this leaf
        have hmod := putAt_miss c.hL v false hlk
        rw [← hr.len, ← hij] at hmod
        have hmem : mkRef L pre.length ∈ (if pushed = true then acc1 else { acc1 with nodes := acc1.nodes ++ [mkRef L pre.length] }).nodes ∨
            flow = .stop ∧ mkRef L pre.length ∈ acc1.nodes := by
          cases flow with
          | stop => exact Or.inr ⟨rfl, hV.1 rfl⟩
          | cont =>
            left
            cases pushed with
            | true => simpa using hV.2 rfl
            | false => simp
        refine ⟨L.pfx, L, pre.length, by rw [c.pfx]; exact c.hL, by rw [hdec]; simp, hmod, ?_⟩
        cases flow with
        | stop =>
          rcases hmem with h | ⟨_, h⟩
          · cases pushed with
            | true => simpa using h
            | false => exact hV.1 rfl
          · exact h
        | cont =>
          rcases hmem with h | ⟨h, _⟩
          · simp only
            split
            · exact h
            · obtain ⟨y, hy⟩ := scanLeaves_mono (subMono cfgFixed t fuel max false) L lk le rk re more (pre.length + 1)
                (if pushed = true then acc1 else { acc1 with nodes := acc1.nodes ++ [mkRef L pre.length] })
              rw [hy]; exact List.mem_append_left _ h
          · cases h
      | some r =>
        -- the tuple is a link entry of this leaf: the scan went down
        rw [hr.getD] at hlk
        have hok : LeafOK leaf := c.core.2.2 leaf hleafin
        obtain ⟨a, e0, b, h3, _, h5, _⟩ := leafLookup_split hok hkw hlk
        have := hN1 ⟨e0, by rw [h3]; simp, h5⟩
        exact hfinal (fun ns => Hit t p rest v ns) (fun a x h => h.mono rfl) this
    · -- the key's tuple belongs to a later leaf: this leaf is passed
      have hlt : pre.length < pre'.length := by omega
      have hleafpre : leaf ∈ pre' := by
        have h1 : L.leaves[pre.length]? = some leaf := by rw [hdec]; simp
        rw [hr.eq, List.getElem?_append_left hlt] at h1
        exact List.mem_of_getElem? h1
      have hc := c.core
      rw [hr.eq] at hc
      have hpne : pre' ≠ [] := by intro e; subst e; cases hleafpre
      obtain ⟨f, hf, hfw, _⟩ := hc.mid_fence hpne
      have hall : ∀ e ∈ leaf.ents, KT.ltSpec e.kt (KT.ofKey rest) = true := by
        intro e he
        have h1 := (hc.pre_before leaf hleafpre f hf).2 e he
        have h2 := hr.lo f hf
        exact lt_le_trans (layerEnts_wf c.core (hsubm e he)).1 hkw h1 h2
      have hcont := hN2 hall
      subst hcont
      have hmne : more ≠ [] := by
        intro e; subst e
        have := congrArg List.length hr.eq
        rw [hdec] at this
        simp only [List.length_append, List.length_cons, List.length_nil] at this
        omega
      simp only at hcov ⊢
      cases more with
      | nil => exact absurd rfl hmne
      | cons m ms =>
        simp only [List.isEmpty_cons, Bool.false_eq_true, if_false] at hcov ⊢
        have hlen : (pre ++ [leaf]).length = pre.length + 1 := by simp
        rw [← hlen] at hcov ⊢
        exact ih (pre ++ [leaf]) _ (by rw [hdec]; simp) (by rw [hlen]; omega)
          (by rw [hacc2t]; exact (hE.1 rfl).2) hcov

/-! ### the start leaf is not to the right of the key's leaf -/

theorem ofKey_mono {rest lk : Key} (h : lexLt rest lk = false) :
    KT.ltSpec (KT.ofKey rest) (KT.ofKey lk) = false := by
  cases hs : KT.ltSpec (KT.ofKey rest) (KT.ofKey lk) with
  | false => rfl
  | true =>
    exfalso
    obtain ⟨g1, g2⟩ := keys_lt_of_ltSpec_ofKey (KT.ofKey_wf rest) hs
    by_cases hl : rest.length > 8
    · have := g2 (ofKey_len_long hl) (rest.drop 8)
      rw [ofKey_slice_long hl, List.take_append_drop, h] at this
      cases this
    · have := g1 (by rw [ofKey_len_short hl]; omega)
      rw [bytes_ofKey_short hl, h] at this
      cases this

theorem start_le_route {t : Tree} {fuel : Nat} {p : List UInt8} {L : Layer} (c : LCtx t fuel p L)
    {lk : Key} {le : EP} (hle : le = .inf → lk = []) {rest : Key} (hin : inLeft lk le rest = true)
    {pre' post' : List Leaf} {leafj : Leaf} (hr : Routed L.leaves (KT.ofKey rest) pre' leafj post') :
    route (descentKT lk false) L.leaves ≤ pre'.length := by
  by_cases hinf : le = .inf
  · rw [hle hinf, route_nil_key c.core.1]; exact Nat.zero_le _
  · rcases Nat.lt_or_ge pre'.length (route (descentKT lk false) L.leaves) with hlt | hge
    · exfalso
      have hc := c.core
      have hkw := KT.ofKey_wf rest
      cases hlv : L.leaves with
      | nil => rw [hlv] at hc; cases hc.1
      | cons c0 ls =>
        obtain ⟨pre, leaf, post, h1, h2, _, h4, _⟩ := routeFrom_decomp (descentKT lk false) ls c0
        have hstart : route (descentKT lk false) L.leaves = pre.length := by rw [hlv]; exact h2.symm
        rw [hstart] at hlt
        have hpne : pre ≠ [] := by intro e; subst e; simp at hlt
        rw [hlv, h1] at hc
        obtain ⟨f, hf, hfw, _⟩ := hc.mid_fence hpne
        have hrl : routeLeft (descentKT lk false) f = false := by
          apply h4 leaf _ f hf
          cases pre with
          | nil => exact absurd rfl hpne
          | cons x xs => simp
        have hlo := descent_left hfw hrl
        -- that leaf is to the right of the key's leaf
        have hget : L.leaves[pre.length]? = some leaf := by rw [hlv, h1]; simp
        rw [hr.eq, List.getElem?_append_right (by omega)] at hget
        have hpost : leaf ∈ post' := by
          cases hd : pre.length - pre'.length with
          | zero => omega
          | succ n =>
            rw [hd, List.getElem?_cons_succ] at hget
            exact List.mem_of_getElem? hget
        have hkf := hr.hi leaf hpost f hf
        have hmono : KT.ltSpec (KT.ofKey rest) (KT.ofKey lk) = false := by
          apply ofKey_mono
          cases le with
          | inf => exact absurd rfl hinf
          | incl => simpa [inLeft] using hin
          | excl => exact lexLt_asymm _ _ hin
        have := le_lt_trans (KT.ofKey_wf lk) hfw hmono hkf
        rw [hlo] at this
        cases this
    · exact hge

theorem scanLayer_cover {t : Tree} (hF : FCore (lay t)) {max : Nat} (v : Val) :
    ∀ (fuel : Nat) (p : List UInt8) (lk : Key) (le : EP) (rk : Key) (re : EP) (acc : Acc),
      (lay t p).isSome → t.length ≤ fuel + p.length / 8 → (le = .inf → lk = []) →
      full max acc.tuples.length = false →
      ∀ rest : Key, walkM (lookF (lay t)) p rest = none → inLeft lk le rest = true →
        inRight rk re (p ++ rest) = true →
        Cov max (scanLayer cfgFixed t fuel p lk le rk re max false acc).1.tuples (p ++ rest) →
        Hit t p rest v (scanLayer cfgFixed t fuel p lk le rk re max false acc).1.nodes := by
  intro fuel
  induction fuel with
  | zero =>
    intro p lk le rk re acc hp hA hle hpre rest habs hin hir
    exact layer_step hF v 0 (fun _ _ f h => absurd h (by omega)) p lk le rk re acc hp hA hle hpre rest habs hin hir
  | succ n ih =>
    intro p lk le rk re acc hp hA hle hpre rest habs hin hir
    refine layer_step hF v (n + 1) ?_ p lk le rk re acc hp hA hle hpre rest habs hin hir
    intro p' hA' f hf q alk ale ark are acc' hq hlen h0 hpre' rest' habs' hin' hir'
    have : f = n := by omega
    subst this
    exact ih q alk ale ark are acc' hq (by omega) h0 hpre' rest' habs' hin' hir'
where
  layer_step {t : Tree} (hF : FCore (lay t)) {max : Nat} (v : Val) (fuel : Nat)
      (IH : ∀ p, t.length ≤ fuel + p.length / 8 → SubN t fuel p max v)
      (p : List UInt8) (lk : Key) (le : EP) (rk : Key) (re : EP) (acc : Acc)
      (hp : (lay t p).isSome) (hA : t.length ≤ fuel + p.length / 8) (hle : le = .inf → lk = [])
      (hpre : full max acc.tuples.length = false)
      (rest : Key) (habs : walkM (lookF (lay t)) p rest = none) (hin : inLeft lk le rest = true)
      (hir : inRight rk re (p ++ rest) = true) :
      Cov max (scanLayer cfgFixed t fuel p lk le rk re max false acc).1.tuples (p ++ rest) →
      Hit t p rest v (scanLayer cfgFixed t fuel p lk le rk re max false acc).1.nodes := by
    cases hL : findLayer t p with
    | none => rw [lay_isSome, hL] at hp; cases hp
    | some L =>
      have c : LCtx t fuel p L := ⟨hF, hL, hA⟩
      obtain ⟨pre', leafj, post', hr⟩ := route_decomp c.core (KT.ofKey_wf rest)
      have hs := start_le_route c hle hin hr
      have hne : L.leaves ≠ [] := by
        intro e
        have := c.core.1
        rw [e] at this; cases this
      have hlt := route_lt hne (descentKT lk false)
      have hlen : (L.leaves.take (route (descentKT lk false) L.leaves)).length =
          route (descentKT lk false) L.leaves := by
        rw [List.length_take]; omega
      rw [scanLayer_some hL]
      have := scanLeaves_cover c (IH p hA) lk le rk re rest hin hir habs hr
        (L.leaves.drop (route (descentKT lk false) L.leaves))
        (L.leaves.take (route (descentKT lk false) L.leaves)) acc
        (List.take_append_drop _ _).symm (by rw [hlen]; exact hs) hpre
      rw [hlen] at this
      exact this

/-! ### the public statement -/

theorem Hit.final {t : Tree} {k : Key} {v : Val} {nodes : List NodeRef} (h : Hit t [] k v nodes) :
    ∃ r ∈ nodes, (put t k v false).modified = some (r.pfx, r.idx) ∧
      ∃ L l, findLayer t r.pfx = some L ∧ L.leaves[r.idx]? = some l ∧ r.vins = l.vins ∧ r.vsplit = l.vsplit := by
  obtain ⟨q, Lq, i, hL, hi, hp, hm⟩ := h
  have hLp : Lq.pfx = q := (findLayer_some hL).1
  refine ⟨mkRef Lq i, hm, ?_, Lq, Lq.leaves[i], ?_, ?_, ?_, ?_⟩
  · show (putAt t [] k v false).modified = some (Lq.pfx, i)
    rw [hp, hLp]
  · show findLayer t Lq.pfx = some Lq
    rw [hLp]; exact hL
  · show Lq.leaves[i]? = some Lq.leaves[i]
    exact List.getElem?_eq_getElem hi
  · show (Lq.leaves.getD i emptyLeaf).vins = _
    rw [List.getD_eq_getElem?_getD, List.getElem?_eq_getElem hi]; rfl
  · show (Lq.leaves.getD i emptyLeaf).vsplit = _
    rw [List.getD_eq_getElem?_getD, List.getElem?_eq_getElem hi]; rfl

theorem scan_nodes_cover (t : Tree) (lk : Key) (le : EP) (rk : Key) (re : EP) (max : Nat) (k : Key) (v : Val)
    (h : Inv t) (ha : scanArgsOk lk le rk re max false = true) (hk : (get t k).val = none)
    (hc : (inInterval lk le rk re k &&
      (if max != 0 && (scan cfgFixed t lk le rk re max false).tuples.length ≥ max then
         (match (scan cfgFixed t lk le rk re max false).tuples.getLast? with
          | some (last, _) => !lexLt last k
          | none => false)
       else true)) = true) :
    ∃ r ∈ (scan cfgFixed t lk le rk re max false).nodes, (put t k v false).modified = some (r.pfx, r.idx) ∧
      ∃ L l, findLayer t r.pfx = some L ∧ L.leaves[r.idx]? = some l ∧ r.vins = l.vins ∧ r.vsplit = l.vsplit := by
  obtain ⟨_, hF, hE⟩ := (inv_iff t).mp h
  unfold get at hk
  rw [getAt_val] at hk
  rw [Bool.and_eq_true] at hc
  obtain ⟨hint, hcv⟩ := hc
  have hcov : Cov max (scan cfgFixed t lk le rk re max false).tuples ([] ++ k) := by
    by_cases hf : full max (scan cfgFixed t lk le rk re max false).tuples.length = true
    · right
      have hf' : (max != 0 && decide ((scan cfgFixed t lk le rk re max false).tuples.length ≥ max)) = true := hf
      rw [if_pos hf'] at hcv
      cases hl : (scan cfgFixed t lk le rk re max false).tuples.getLast? with
      | none => rw [hl] at hcv; cases hcv
      | some last =>
        rw [hl] at hcv
        obtain ⟨lkey, lval⟩ := last
        exact ⟨(lkey, lval), rfl, by simpa using hcv⟩
    · left
      simpa using hf
  apply Hit.final
  cases hL : findLayer t [] with
  | none => have := hF.root; rw [lay_isSome, hL] at this; cases this
  | some L =>
    rw [scan_unfold hL lk le rk re max false ha] at hcov ⊢
    generalize hlk0 : (if (le == EP.inf) = true then [] else lk) = lk0 at hcov ⊢
    rw [inInterval_eq, Bool.and_eq_true] at hint
    obtain ⟨hin, hir⟩ := hint
    have hin' : inLeft lk0 le k = true := by rw [← hlk0, inLeft_inf_key]; exact hin
    by_cases hd : ((L.leaves.getD (route (descentKT lk0 false) L.leaves) emptyLeaf).deleted &&
        L.leaves.length == 1) = true
    · -- deleted single root border: the only leaf is recorded, and every insert lands there
      rw [if_pos hd]
      simp only [Bool.and_eq_true, beq_iff_eq] at hd
      obtain ⟨hd1, hd2⟩ := hd
      cases hlv : L.leaves with
      | nil => rw [hlv] at hd2; cases hd2
      | cons l ls =>
        rw [hlv] at hd2 hd1
        have hls : ls = [] := List.eq_nil_of_length_eq_zero (by simpa using hd2)
        subst hls
        have hr0 : ∀ kt, route kt L.leaves = 0 := by intro kt; rw [hlv]; rfl
        have hl0 : ([l] : List Leaf).getD (route (descentKT lk0 false) [l]) emptyLeaf = l := rfl
        rw [hl0] at hd1
        have hents : l.ents = [] := (hE [] _ (lay_of_findLayer hL) l (by rw [hlv]; simp)).2 hd1
        have hlk : leafLookup (KT.ofKey k) (leafKeys (L.leaves.getD (route (KT.ofKey k) L.leaves) emptyLeaf)) = none := by
          rw [hr0, hlv]
          show leafLookup (KT.ofKey k) (leafKeys l) = none
          rw [leafKeys, hents]; rfl
        have hmod := putAt_miss hL v false hlk
        rw [hr0] at hmod
        refine ⟨L.pfx, L, 0, by rw [(findLayer_some hL).1]; exact hL, by rw [hlv]; simp, hmod, ?_⟩
        show mkRef L 0 ∈ [mkRef L (route (descentKT lk0 false) [l])]
        exact List.mem_singleton.mpr rfl
    · rw [if_neg hd] at hcov ⊢
      simp only at hcov ⊢
      have hpre : full max (⟨[], []⟩ : Acc).tuples.length = false := by
        apply full_false_iff.mpr
        simp only [List.length_nil]
        omega
      have := scanLayer_cover hF v (t.length + 1) [] lk0 le rk re ⟨[], []⟩ hF.root (by simp)
        (by intro e; rw [← hlk0, e]; rfl) hpre k hk hin' (by simpa using hir) hcov
      exact this

end Yak.Tree
