import YakModel.Proofs.WalkLemmas
/-!
# `put`: invariant preservation and map-update semantics
-/
namespace Yak.Tree
open Yak

/-- what a successful `putAt t p rest v` must establish about the new tree `t'` -/
structure PutGood (t t' : Tree) (p : List UInt8) (rest : Key) (v : Val) : Prop where
  nodup : (t'.map (·.pfx)).Nodup
  core : FCore (lay t')
  empt : FEmpt (lay t')
  frame : ∀ q, ¬ p <+: q → lay t' q = lay t q
  walk : ∀ rest', walkM (lookF (lay t')) p rest' =
    if rest' = rest then some v else walkM (lookF (lay t)) p rest'

/-! ### insert of a missing tuple -/

theorem lay_subOf_dom {p : List UInt8} {rest : Key} {v : Val} {q : List UInt8} {x : List Leaf}
    (h : lay (subOf p rest v) q = some x) :
    rest.length > 8 ∧ p ++ rest.take 8 <+: q := by
  unfold subOf at h
  by_cases hl : rest.length > 8
  · rw [if_pos hl] at h
    have hr' : rest.drop 8 ≠ [] := by
      intro e
      have := congrArg List.length e
      simp only [List.length_drop, List.length_nil] at this; omega
    exact ⟨hl, ((fresh_ok _ _ v hr').dom _ _ h).1⟩
  · rw [if_neg hl] at h; cases h

theorem put_insert_tree {t : Tree} (hnd : (t.map (·.pfx)).Nodup) (hF : FCore (lay t))
    (hE : FEmpt (lay t)) {p : List UInt8} {L : Layer} (hL : findLayer t p = some L) {rest : Key}
    (hmiss : layerGet L.leaves (KT.ofKey rest) = none) (hpr : p = [] ∨ rest ≠ []) (v : Val) :
    PutGood t (setLayer t { L with leaves := insLeaves L.leaves (KT.ofKey rest) (entOf rest v) } ++
      subOf L.pfx rest v) p rest v := by
  have hLp : L.pfx = p := (findLayer_some hL).1
  have hlay : lay t p = some L.leaves := lay_of_findLayer hL
  have hc : LayerCore L.leaves := hF.core _ _ hlay
  have hkw : (KT.ofKey rest).WF := KT.ofKey_wf rest
  have hno : ∀ x ∈ layerEnts L.leaves, x.kt ≠ (entOf rest v).kt := by
    rw [entOf_kt]; exact (layerGet_none_iff hc hkw).mp hmiss
  have hspec := insLeaves_spec hc (hE _ _ hlay) (e := entOf rest v) (by rw [entOf_kt]; exact hkw)
    (entOf_val rest v) hno
  rw [entOf_kt] at hspec hno
  obtain ⟨hc', hE', hmem⟩ := hspec
  generalize hls' : insLeaves L.leaves (KT.ofKey rest) (entOf rest v) = ls' at *
  rw [hLp]
  -- the view of the new tree
  have hview : ∀ q, lay (setLayer t { pfx := p, leaves := ls' } ++ subOf p rest v) q =
      if q = p then some ls' else (lay t q).or (lay (subOf p rest v) q) := by
    intro q
    rw [lay_append, lay_setLayer]
    unfold upd
    by_cases e : q = p
    · simp [e]
    · simp [e]
  have hdisj : rest.length > 8 → ∀ q, p ++ rest.take 8 <+: q → lay t q = none := by
    intro hl q hq
    refine hF.none_below hlay (by simp only [List.length_take]; omega) ?_ q.length q rfl hq
    intro x hx
    rw [← ofKey_long hl]; exact hno x hx
  have hG_none : ∀ q, ¬ (rest.length > 8 ∧ p ++ rest.take 8 <+: q) → lay (subOf p rest v) q = none := by
    intro q hq
    cases hx : lay (subOf p rest v) q with
    | none => rfl
    | some x => exact absurd (lay_subOf_dom hx) hq
  have hview_off : ∀ q, q ≠ p → ¬ (rest.length > 8 ∧ p ++ rest.take 8 <+: q) →
      lay (setLayer t { pfx := p, leaves := ls' } ++ subOf p rest v) q = lay t q := by
    intro q hq hq2
    rw [hview, if_neg hq, hG_none q hq2]; simp
  refine ⟨?_, ?_, ?_, ?_, ?_⟩
  · -- nodup
    apply nodup_append_tree
    · rw [pfx_setLayer_of_mem (by simp only; rw [hL]; rfl)]; exact hnd
    · unfold subOf
      by_cases hl : rest.length > 8
      · rw [if_pos hl]
        apply fresh_nodup
        intro e
        have := congrArg List.length e
        simp only [List.length_drop, List.length_nil] at this; omega
      · rw [if_neg hl]; simp
    · intro q hq
      rw [← lay_isSome] at hq
      cases hx : lay (subOf p rest v) q with
      | none => rw [hx] at hq; cases hq
      | some x =>
        obtain ⟨hl, hpq⟩ := lay_subOf_dom hx
        have hqp : q ≠ p := by
          intro e; subst e
          exact not_prefix_append_self _ _ (ne_nil_of_len8 (by simp only [List.length_take]; omega)) hpq
        rw [findLayer_setLayer, if_neg hqp]
        have := hdisj hl q hpq
        unfold lay at this
        cases hf : findLayer t q with
        | none => rfl
        | some y => rw [hf] at this; cases this
  · -- FCore
    by_cases hl : rest.length > 8
    · have hr' : rest.drop 8 ≠ [] := by
        intro e
        have := congrArg List.length e
        simp only [List.length_drop, List.length_nil] at this; omega
      have hfun : lay (setLayer t { pfx := p, leaves := ls' } ++ subOf p rest v) =
          fun q => if q = p then some ls' else (lay t q).or (lay (subOf p rest v) q) := funext hview
      rw [hfun]
      have hsub : subOf p rest v = freshLayers (p ++ rest.take 8) (rest.drop 8) v := by
        unfold subOf; rw [if_pos hl]
      rw [hsub]
      refine hF.insertLong (e := entOf rest v) hlay hc' (by simp only [List.length_take]; omega) ?_ hmem
        (fresh_ok _ _ v hr') (hdisj hl)
      rw [entOf_kt]; exact ofKey_long hl
    · have hfun : lay (setLayer t { pfx := p, leaves := ls' } ++ subOf p rest v) =
          upd (lay t) p (some ls') := by
        funext q
        rw [hview]
        unfold upd
        by_cases e : q = p
        · rw [if_pos e, if_pos e]
        · rw [if_neg e, if_neg e, hG_none q (fun h => hl h.1)]; simp
      rw [hfun]
      refine hF.update hlay hc' ?_ ?_
      · intro x hx
        rcases (hmem x).mp hx with h | h
        · subst h
          right
          rw [entOf_kt]
          refine ⟨ofKey_len_ne9 hl, ?_⟩
          intro hp
          rcases hpr with h | h
          · exact absurd h hp
          · rw [ofKey_len_short hl]
            exact fun e => h (List.eq_nil_of_length_eq_zero e)
        · exact Or.inl h
      · intro x hx _; exact (hmem x).mpr (Or.inr hx)
  · -- FEmpt
    intro q x hq
    rw [hview] at hq
    by_cases e : q = p
    · rw [if_pos e] at hq
      rw [e, ← Option.some.inj hq]; exact hE'
    · rw [if_neg e] at hq
      cases hfq : lay t q with
      | some y =>
        rw [hfq] at hq
        have hq : some y = some x := hq
        rw [← Option.some.inj hq]; exact hE _ _ hfq
      | none =>
        rw [hfq] at hq
        have hq : lay (subOf p rest v) q = some x := by simpa using hq
        obtain ⟨hl, _⟩ := lay_subOf_dom hq
        have hr' : rest.drop 8 ≠ [] := by
          intro e
          have := congrArg List.length e
          simp only [List.length_drop, List.length_nil] at this; omega
        unfold subOf at hq
        rw [if_pos hl] at hq
        obtain ⟨e', rfl, _, _, _, _⟩ := (fresh_ok _ _ v hr').single _ _ hq
        apply AllFull.emptOK
        intro l hl'
        rw [List.mem_singleton] at hl'; subst hl'
        exact ⟨by simp [leaf1], rfl⟩
  · -- frame
    intro q hq
    apply hview_off q
    · intro e; subst e; exact hq (List.prefix_refl _)
    · intro h; exact hq (List.IsPrefix.trans (List.prefix_append _ _) h.2)
  · -- walk
    intro rest'
    have hp' : lay (setLayer t { pfx := p, leaves := ls' } ++ subOf p rest v) p = some ls' := by
      rw [hview, if_pos rfl]
    by_cases hk : KT.ofKey rest' = KT.ofKey rest
    · have hnew : lookF (lay (setLayer t { pfx := p, leaves := ls' } ++ subOf p rest v)) p
          (KT.ofKey rest') = some (entOf rest v) := by
        rw [lookF_some_iff hp' hc' (KT.ofKey_wf rest')]
        exact ⟨(hmem _).mpr (Or.inl rfl), by rw [entOf_kt, hk]⟩
      have hold : lookF (lay t) p (KT.ofKey rest') = none := by
        rw [hk]; unfold lookF; rw [hlay]; exact hmiss
      rw [walkM_none hold]
      by_cases hl : rest.length > 8
      · obtain ⟨hl', htake⟩ := ofKey_eq_long hl hk
        have hr' : rest.drop 8 ≠ [] := by
          intro e
          have := congrArg List.length e
          simp only [List.length_drop, List.length_nil] at this; omega
        rw [walkM_long hnew hl', htake]
        rw [walk_fresh v _ (rest.drop 8) (p ++ rest.take 8) hr' ?_ (rest'.drop 8)]
        · have : rest' = rest ↔ rest'.drop 8 = rest.drop 8 := by
            constructor
            · intro e; rw [e]
            · intro e
              rw [← List.take_append_drop 8 rest', ← List.take_append_drop 8 rest, htake, e]
          by_cases e : rest' = rest
          · rw [if_pos e, if_pos (this.mp e)]
          · rw [if_neg e, if_neg (fun h => e (this.mpr h))]
        · intro q k hq _
          apply lookF_congr_lay
          have hqp : q ≠ p := by
            intro e; subst e
            exact not_prefix_append_self _ _ (ne_nil_of_len8 (by simp only [List.length_take]; omega)) hq
          rw [hview, if_neg hqp, hdisj hl q hq]
          unfold subOf; rw [if_pos hl]; rfl
      · have e := ofKey_eq_short hl hk
        subst e
        rw [walkM_short hnew hl, if_pos rfl]
        unfold entOf; rw [if_neg hl]
    · have hne : rest' ≠ rest := fun e => hk (by rw [e])
      rw [if_neg hne]
      refine walk_other hlay hp' hc hc' (k := KT.ofKey rest) ?_ ?_ hk
      · intro x hx
        rw [hmem]
        constructor
        · rintro (h | h)
          · subst h; exact absurd (entOf_kt rest v) hx
          · exact h
        · exact Or.inr
      · intro s' hs' hs'k q hq
        apply hview_off
        · intro e; subst e; exact not_prefix_append_self _ _ (ne_nil_of_len8 hs') hq
        · rintro ⟨hl, hq2⟩
          refine not_prefix_of_slice_ne (by simp only [List.length_take]; omega) hs' ?_ hq hq2
          intro e; apply hs'k; rw [e, ofKey_long hl]

/-! ### overwrite of a present tuple -/

theorem LeafOK_same_kts {leaf leaf' : Leaf} (hf : leaf'.fence = leaf.fence)
    (hk : leaf'.ents.map (·.kt) = leaf.ents.map (·.kt))
    (hv : ∀ e ∈ leaf'.ents, e.val = none ↔ e.kt.len = 9) (h : LeafOK leaf) : LeafOK leaf' := by
  have hmem : ∀ e ∈ leaf'.ents, ∃ e0 ∈ leaf.ents, e0.kt = e.kt := by
    intro e he
    have : e.kt ∈ leaf'.ents.map (·.kt) := List.mem_map.mpr ⟨e, he, rfl⟩
    rw [hk] at this
    exact List.mem_map.mp this
  refine ⟨?_, ?_, ?_, ?_⟩
  · have := congrArg List.length hk
    simp only [List.length_map] at this
    rw [this]; exact h.1
  · intro e he
    obtain ⟨e0, he0, hek⟩ := hmem e he
    exact ⟨hek ▸ (h.2.1 e0 he0).1, hv e he⟩
  · have h1 : (leaf.ents.map (·.kt)).Pairwise (fun a b => KT.ltSpec a b = true) :=
      List.pairwise_map.mpr h.2.2.1
    rw [← hk] at h1
    exact List.pairwise_map.mp h1
  · intro f hf' e he
    rw [hf] at hf'
    obtain ⟨e0, he0, hek⟩ := hmem e he
    rw [← hek]; exact h.2.2.2 f hf' e0 he0

theorem sorted_split_ne {P Q : List Ent} {e : Ent}
    (hs : (P ++ e :: Q).Pairwise (fun a b => KT.ltSpec a.kt b.kt = true)) :
    (∀ x ∈ P, x.kt ≠ e.kt) ∧ (∀ x ∈ Q, x.kt ≠ e.kt) := by
  rw [List.pairwise_append, List.pairwise_cons] at hs
  exact ⟨fun x hx => lt_ne (hs.2.2 x hx e (by simp)), fun x hx => lt_ne' (hs.2.1.1 x hx)⟩

theorem mem_replace_sorted {P Q : List Ent} {e e' : Ent}
    (hs : (P ++ e :: Q).Pairwise (fun a b => KT.ltSpec a.kt b.kt = true)) (x : Ent) :
    x ∈ P ++ e' :: Q ↔ x = e' ∨ (x ∈ P ++ e :: Q ∧ x.kt ≠ e.kt) := by
  obtain ⟨h1, h2⟩ := sorted_split_ne hs
  simp only [List.mem_append, List.mem_cons]
  constructor
  · rintro (h | h | h)
    · exact Or.inr ⟨Or.inl h, h1 x h⟩
    · exact Or.inl h
    · exact Or.inr ⟨Or.inr (Or.inr h), h2 x h⟩
  · rintro (h | ⟨h | h | h, hk⟩)
    · exact Or.inr (Or.inl h)
    · exact Or.inl h
    · subst h; exact absurd rfl hk
    · exact Or.inr (Or.inr h)

theorem mem_erase_sorted {P Q : List Ent} {e : Ent}
    (hs : (P ++ e :: Q).Pairwise (fun a b => KT.ltSpec a.kt b.kt = true)) (x : Ent) :
    x ∈ P ++ Q ↔ (x ∈ P ++ e :: Q ∧ x.kt ≠ e.kt) := by
  obtain ⟨h1, h2⟩ := sorted_split_ne hs
  simp only [List.mem_append, List.mem_cons]
  constructor
  · rintro (h | h)
    · exact ⟨Or.inl h, h1 x h⟩
    · exact ⟨Or.inr (Or.inr h), h2 x h⟩
  · rintro ⟨h | h | h, hk⟩
    · exact Or.inl h
    · subst h; exact absurd rfl hk
    · exact Or.inr h

theorem put_update_tree {t : Tree} (hnd : (t.map (·.pfx)).Nodup) (hF : FCore (lay t))
    (hE : FEmpt (lay t)) {p : List UInt8} {L : Layer} (hL : findLayer t p = some L) {rest : Key}
    (hshort : ¬ rest.length > 8) {r : Nat} {leaf0 : Leaf} {e0 : Ent}
    (hleaf0 : L.leaves.getD (route (KT.ofKey rest) L.leaves) emptyLeaf = leaf0)
    (he0 : leaf0.ents.getD r default = e0)
    (hlk : leafLookup (KT.ofKey rest) (leafKeys leaf0) = some r) (v : Val) :
    PutGood t (setLayer t { L with leaves := (L.leaves.set (route (KT.ofKey rest) L.leaves)
      { leaf0 with ents := leaf0.ents.set r { e0 with val := some v } }) }) p rest v ∧
    (L.leaves.set (route (KT.ofKey rest) L.leaves)
      { leaf0 with ents := leaf0.ents.set r { e0 with val := some v } }).map
        (fun l => (l.vins, l.vsplit, l.deleted)) =
      L.leaves.map (fun l => (l.vins, l.vsplit, l.deleted)) := by
  subst he0
  have hLp : L.pfx = p := (findLayer_some hL).1
  have hlay : lay t p = some L.leaves := lay_of_findLayer hL
  have hc : LayerCore L.leaves := hF.core _ _ hlay
  have hkw : (KT.ofKey rest).WF := KT.ofKey_wf rest
  obtain ⟨pre, leaf, post, hr⟩ := route_decomp hc hkw
  rw [hr.getD] at hleaf0
  subst hleaf0
  rw [hr.set]
  have heq := hr.eq
  have hl : LeafOK leaf := by rw [heq] at hc; exact hc.leafOK
  obtain ⟨a, e, b, h3, h4, h5, h6⟩ := leafLookup_split hl hkw hlk
  rw [h6, h3, ← h4]
  have hset : (a ++ e :: b).set a.length { kt := e.kt, val := some v } =
      a ++ { kt := e.kt, val := some v } :: b := by simp
  rw [hset, hLp]
  generalize hleaf' : ({ leaf with ents := a ++ { kt := e.kt, val := some v } :: b } : Leaf) = leaf'
  have hents' : leaf'.ents = a ++ { kt := e.kt, val := some v } :: b := by rw [← hleaf']
  have hfence' : leaf'.fence = leaf.fence := by rw [← hleaf']
  have hdel' : leaf'.deleted = leaf.deleted := by rw [← hleaf']
  have h9 : e.kt.len ≠ 9 := by rw [h5]; exact ofKey_len_ne9 hshort
  have hok' : LeafOK leaf' := by
    refine LeafOK_same_kts hfence' (by rw [hents', h3]; simp) ?_ hl
    intro x hx
    rw [hents'] at hx
    simp only [List.mem_append, List.mem_cons] at hx
    rcases hx with hx | hx | hx
    · exact (hl.2.1 x (by rw [h3]; simp [hx])).2
    · subst hx; simp [h9]
    · exact (hl.2.1 x (by rw [h3]; simp [hx])).2
  have hc0 : LayerCore (pre ++ leaf :: post) := heq ▸ hc
  have hc' : LayerCore (pre ++ leaf' :: post) := by
    refine hc0.replace hfence' hok' ?_
    intro b' hb' f hf x hx
    have : x.kt ∈ leaf.ents.map (·.kt) := by
      rw [h3]; rw [hents'] at hx
      simp only [List.mem_append, List.mem_cons] at hx
      simp only [List.map_append, List.map_cons, List.mem_append, List.mem_cons, List.mem_map]
      rcases hx with hx | hx | hx
      · exact Or.inl ⟨x, hx, rfl⟩
      · subst hx; exact Or.inr (Or.inl rfl)
      · exact Or.inr (Or.inr ⟨x, hx, rfl⟩)
    obtain ⟨x0, hx0, hxk⟩ := List.mem_map.mp this
    have := (hc0.before_post b' hb' f hf).2 x0 hx0
    rw [← hxk]; exact this
  have hmem : ∀ x, x ∈ layerEnts (pre ++ leaf' :: post) ↔
      x = { kt := e.kt, val := some v } ∨ (x ∈ layerEnts L.leaves ∧ x.kt ≠ KT.ofKey rest) := by
    intro x
    have hs := layerEnts_sorted hc0
    have e1 : layerEnts (pre ++ leaf :: post) = (layerEnts pre ++ a) ++ e :: (b ++ layerEnts post) := by
      rw [layerEnts_split, h3]; simp
    have e2 : layerEnts (pre ++ leaf' :: post) =
        (layerEnts pre ++ a) ++ { kt := e.kt, val := some v } :: (b ++ layerEnts post) := by
      rw [layerEnts_split, hents']; simp
    rw [e1] at hs
    rw [heq, e1, e2, ← h5]
    exact mem_replace_sorted hs x
  have hview : lay (setLayer t { pfx := p, leaves := pre ++ leaf' :: post }) =
      upd (lay t) p (some (pre ++ leaf' :: post)) := lay_setLayer _ _
  have hEl := hE _ _ hlay
  have hnz : p ≠ [] → e.kt.len ≠ 0 := by
    intro hp
    exact hF.nz _ _ hlay hp e (by rw [heq, layerEnts_split, h3]; simp)
  have hp' : upd (lay t) p (some (pre ++ leaf' :: post)) p = some (pre ++ leaf' :: post) := upd_same _ _ _
  refine ⟨⟨?_, ?_, ?_, ?_, ?_⟩, ?_⟩
  · rw [pfx_setLayer_of_mem (by simp only; rw [hL]; rfl)]; exact hnd
  · rw [hview]
    refine hF.update hlay hc' ?_ ?_
    · intro x hx
      rcases (hmem x).mp hx with h | h
      · subst h; exact Or.inr ⟨h9, hnz⟩
      · exact Or.inl h.1
    · intro x hx hx9
      refine (hmem x).mpr (Or.inr ⟨hx, ?_⟩)
      intro hk; rw [hk] at hx9; exact ofKey_len_ne9 hshort hx9
  · rw [hview]
    apply hE.update
    rw [heq] at hEl
    have hfull := hEl.allFull (leaf := leaf) (by rw [h3]; simp)
    have h1 := hfull.others
    have hd : leaf.deleted = false := (hfull leaf (by simp)).2
    exact (h1.insert (leaf := leaf') (by rw [hents']; simp) (by rw [hdel', hd])).emptOK _
  · intro q hq
    rw [hview, upd_other]
    intro e; subst e; exact hq (List.prefix_refl _)
  · intro rest'
    rw [hview]
    by_cases hk : KT.ofKey rest' = KT.ofKey rest
    · have e' := ofKey_eq_short hshort hk
      subst e'
      rw [if_pos rfl]
      have hnew : lookF (upd (lay t) p (some (pre ++ leaf' :: post))) p (KT.ofKey rest') =
          some { kt := e.kt, val := some v } := by
        rw [lookF_some_iff hp' hc' (KT.ofKey_wf rest')]
        exact ⟨(hmem _).mpr (Or.inl rfl), h5⟩
      rw [walkM_short hnew hshort]
    · have hne : rest' ≠ rest := fun e => hk (by rw [e])
      rw [if_neg hne]
      refine walk_other hlay hp' hc hc' (k := KT.ofKey rest) ?_ ?_ hk
      · intro x hx
        rw [hmem]
        constructor
        · rintro (h | h)
          · subst h; exact absurd h5 hx
          · exact h.1
        · intro h; exact Or.inr ⟨h, hx⟩
      · intro s' hs' _ q hq
        apply upd_other
        intro e; subst e; exact not_prefix_append_self _ _ (ne_nil_of_len8 hs') hq
  · rw [heq]
    simp only [List.map_append, List.map_cons]
    rw [← hleaf']

end Yak.Tree
