import YakModel.Proto.Absorb
/-!
# `Absorb`: proofs (D13, range absorption under a forward scan)

1. `inv_reach` / `chain_inv`  the chain invariant `Inv` holds in every reachable state (any cfg)
2. `scan_sorted_fixed`        with the repair the keys a scanner holds are strictly ascending and
                              inside the interval
3. `D13_counterexample`, `D13_fixed_run` (+ `D13_dup_*`, `D13_reachable`, `D13_fixed_state`)
                              the defect without the repair, the same run with it
4. `stable_key_returned_fixed` the repair loses nothing: every key of the interval that is stored
                              and was neither inserted nor removed since `sStart` is reported
                              (full statement, `split` unrestricted)
5. `visit_appends_present`, `scan_result_was_present`
                              reported keys were stored at the moment they were read; the second
                              one over `Hist` (runs that remember the states passed through)

Method: every chain operation of `step?` is a rewrite of a zipper `pre ++ L :: post` obtained from
`splitAtId` / `splitOwner`; `step_*` invert `step?` once, the invariants are then proved per shape
(`inv_setKeys`, `inv_split`, `inv_unlinkR`, `inv_unlinkL`, and the same four for `ScOK`).
The scanner invariant `ScOK` is phrased with the FENCE of the current leaf, not with positions:
keys below the fence are done, collected keys are below every stable key from the fence on. The
absorbing step lowers the fence over a range that holds no stored key, so both parts survive.
-/
namespace Yak.Proto.Absorb

/-! ## basics -/

theorem upd_same {α} (f : Nat → α) (t : Nat) (v : α) : upd f t v t = v := by simp [upd]
theorem upd_other {α} (f : Nat → α) (t t' : Nat) (v : α) (h : t' ≠ t) : upd f t v t' = f t' := by
  simp [upd, h]

theorem splitAtId_some {ch : List Leaf} {i : Nat} {pre : List Leaf} {L : Leaf} {post : List Leaf}
    (h : splitAtId ch i = some (pre, L, post)) :
    ch = pre ++ L :: post ∧ L.id = i ∧ ∀ M ∈ pre, M.id ≠ i := by
  induction ch generalizing pre with
  | nil => simp [splitAtId] at h
  | cons X rest ih =>
    simp only [splitAtId] at h
    split at h
    · next hid =>
      simp only [Option.some.injEq, Prod.mk.injEq] at h
      obtain ⟨rfl, rfl, rfl⟩ := h
      simp [hid]
    · next hid =>
      split at h
      · next p M q heq =>
        simp only [Option.some.injEq, Prod.mk.injEq] at h
        obtain ⟨rfl, rfl, rfl⟩ := h
        obtain ⟨h1, h2, h3⟩ := ih heq
        refine ⟨by simp [h1], h2, ?_⟩
        intro N hN
        rcases List.mem_cons.1 hN with rfl | hN
        · exact hid
        · exact h3 N hN
      · simp at h

theorem splitOwner_none {ch : List Leaf} {k : Nat} (h : splitOwner ch k = none) :
    ∀ M ∈ ch, k < M.lo := by
  induction ch with
  | nil => simp
  | cons X rest ih =>
    simp only [splitOwner] at h
    split at h
    · simp at h
    · next heq =>
      split at h
      · simp at h
      · next hlo =>
        intro M hM
        rcases List.mem_cons.1 hM with rfl | hM
        · omega
        · exact ih heq M hM

theorem splitOwner_some {ch : List Leaf} {k : Nat} {pre : List Leaf} {L : Leaf} {post : List Leaf}
    (h : splitOwner ch k = some (pre, L, post)) :
    ch = pre ++ L :: post ∧ L.lo ≤ k ∧ ∀ M ∈ post, k < M.lo := by
  induction ch generalizing pre with
  | nil => simp [splitOwner] at h
  | cons X rest ih =>
    simp only [splitOwner] at h
    split at h
    · next p M q heq =>
      simp only [Option.some.injEq, Prod.mk.injEq] at h
      obtain ⟨rfl, rfl, rfl⟩ := h
      obtain ⟨h1, h2, h3⟩ := ih heq
      exact ⟨by simp [h1], h2, h3⟩
    · next heq =>
      split at h
      · next hlo =>
        simp only [Option.some.injEq, Prod.mk.injEq] at h
        obtain ⟨rfl, rfl, rfl⟩ := h
        exact ⟨by simp, hlo, splitOwner_none heq⟩
      · simp at h

theorem pw_zip {α} {R : α → α → Prop} {pre : List α} {L : α} {post : List α} :
    (pre ++ L :: post).Pairwise R ↔
      pre.Pairwise R ∧ post.Pairwise R ∧ (∀ M ∈ pre, R M L) ∧ (∀ M ∈ post, R L M) ∧
        (∀ M ∈ pre, ∀ N ∈ post, R M N) := by
  simp only [List.pairwise_append, List.pairwise_cons, List.mem_cons]
  constructor
  · rintro ⟨h1, ⟨h2, h3⟩, h4⟩
    exact ⟨h1, h3, fun M hM => h4 M hM L (Or.inl rfl), h2, fun M hM N hN => h4 M hM N (Or.inr hN)⟩
  · rintro ⟨h1, h2, h3, h4, h5⟩
    refine ⟨h1, ⟨h4, h2⟩, ?_⟩
    intro M hM N hN
    rcases hN with rfl | hN
    · exact h3 M hM
    · exact h5 M hM N hN

theorem mem_insertSorted {k x : Nat} {l : List Nat} :
    x ∈ insertSorted k l ↔ x = k ∨ (x ∈ l ∧ x ≠ k) := by
  simp only [insertSorted, List.mem_append, List.mem_filter, List.mem_cons, decide_eq_true_eq]
  constructor
  · rintro (⟨h1, h2⟩ | rfl | ⟨h1, h2⟩)
    · exact Or.inr ⟨h1, by omega⟩
    · exact Or.inl rfl
    · exact Or.inr ⟨h1, by omega⟩
  · rintro (rfl | ⟨h1, h2⟩)
    · exact Or.inr (Or.inl rfl)
    · rcases Nat.lt_or_gt_of_ne h2 with h | h
      · exact Or.inl ⟨h1, h⟩
      · exact Or.inr (Or.inr ⟨h1, h⟩)

theorem insertSorted_pairwise {k : Nat} {l : List Nat} (h : l.Pairwise (· < ·)) :
    (insertSorted k l).Pairwise (· < ·) := by
  simp only [insertSorted, List.pairwise_append, List.pairwise_cons, List.mem_filter, List.mem_cons,
    decide_eq_true_eq]
  refine ⟨h.filter _, ⟨fun y hy => hy.2, h.filter _⟩, ?_⟩
  intro x hx y hy
  rcases hy with rfl | hy
  · exact hx.2
  · omega

theorem mem_removeKey {k x : Nat} {l : List Nat} : x ∈ removeKey k l ↔ x ∈ l ∧ x ≠ k := by
  simp [removeKey]

theorem removeKey_pairwise {k : Nat} {l : List Nat} (h : l.Pairwise (· < ·)) :
    (removeKey k l).Pairwise (· < ·) := h.filter _

theorem take_lt_drop {l : List Nat} (h : l.Pairwise (· < ·)) (n : Nat) :
    ∀ x ∈ l.take n, ∀ y ∈ l.drop n, x < y := by
  have h' := h
  rw [← List.take_append_drop n l, List.pairwise_append] at h'
  exact h'.2.2


/-! ## the chain invariant -/

/-- `L` precedes `M` in the chain -/
def Before (L M : Leaf) : Prop := L.id ≠ M.id ∧ L.lo < M.lo ∧ ∀ k ∈ L.keys, k < M.lo

def LeafOK (L : Leaf) : Prop := (∀ k ∈ L.keys, L.lo ≤ k) ∧ L.keys.Pairwise (· < ·)

structure Inv (s : State) : Prop where
  zero : ∃ L ∈ s.chain, L.lo = 0
  order : s.chain.Pairwise Before
  leaf : ∀ L ∈ s.chain, LeafOK L
  fresh : ∀ L ∈ s.chain, L.id < s.nextId
  retiredFresh : ∀ i ∈ s.retired, i < s.nextId
  retiredGone : ∀ i ∈ s.retired, ∀ L ∈ s.chain, L.id ≠ i

theorem inv_init : Inv init := by
  refine ⟨⟨⟨0, 0, []⟩, by simp [init], rfl⟩, by simp [init], ?_, ?_, by simp [init], by simp [init]⟩
  · intro L hL
    simp only [init, List.mem_singleton] at hL
    subst hL
    simp [LeafOK]
  · intro L hL
    simp only [init, List.mem_singleton] at hL
    subst hL
    simp [init]

/-- replacing the keys of one leaf, within its range -/
theorem inv_setKeys {s : State} (hi : Inv s) {pre post : List Leaf} {L : Leaf} {ks : List Nat}
    (hch : s.chain = pre ++ L :: post) (hlo : ∀ k ∈ ks, L.lo ≤ k) (hs : ks.Pairwise (· < ·))
    (hup : ∀ k ∈ ks, ∀ M ∈ post, k < M.lo) (tc : Nat → List Nat) :
    Inv { s with chain := pre ++ { L with keys := ks } :: post, touched := tc } := by
  obtain ⟨hz, ho, hl, hf, hrf, hrg⟩ := hi
  rw [hch] at hz hl hf hrg
  rw [hch, pw_zip] at ho
  obtain ⟨ho1, ho2, ho3, ho4, ho5⟩ := ho
  simp only [List.mem_append, List.mem_cons] at hz hl hf hrg
  refine ⟨?_, ?_, ?_, ?_, hrf, ?_⟩
  · obtain ⟨Z, hZ, hZ0⟩ := hz
    simp only [List.mem_append, List.mem_cons]
    rcases hZ with hZ | rfl | hZ
    · exact ⟨Z, Or.inl hZ, hZ0⟩
    · exact ⟨_, Or.inr (Or.inl rfl), hZ0⟩
    · exact ⟨Z, Or.inr (Or.inr hZ), hZ0⟩
  · show (pre ++ _ :: post).Pairwise Before
    rw [pw_zip]
    refine ⟨ho1, ho2, ?_, ?_, ho5⟩
    · intro M hM
      exact ho3 M hM
    · intro M hM
      exact ⟨(ho4 M hM).1, (ho4 M hM).2.1, fun k hk => hup k hk M hM⟩
  · intro M hM
    simp only [List.mem_append, List.mem_cons] at hM
    rcases hM with hM | rfl | hM
    · exact hl M (Or.inl hM)
    · exact ⟨hlo, hs⟩
    · exact hl M (Or.inr (Or.inr hM))
  · intro M hM
    simp only [List.mem_append, List.mem_cons] at hM
    rcases hM with hM | rfl | hM
    · exact hf M (Or.inl hM)
    · exact hf L (Or.inr (Or.inl rfl))
    · exact hf M (Or.inr (Or.inr hM))
  · intro i hi M hM
    simp only [List.mem_append, List.mem_cons] at hM
    rcases hM with hM | rfl | hM
    · exact hrg i hi M (Or.inl hM)
    · exact hrg i hi L (Or.inr (Or.inl rfl))
    · exact hrg i hi M (Or.inr (Or.inr hM))


theorem inv_split {s : State} (hi : Inv s) {pre post : List Leaf} {L : Leaf} {p : Nat} {up : List Nat}
    (hch : s.chain = pre ++ L :: post) {n : Nat} (hd : L.keys.drop n = p :: up)
    (hne : L.keys.take n ≠ []) (sc : Nat → SPc) :
    Inv { s with chain := pre ++ { L with keys := L.keys.take n } :: ⟨s.nextId, p, p :: up⟩ :: post
                 nextId := s.nextId + 1, sc := sc } := by
  obtain ⟨hz, ho, hl, hf, hrf, hrg⟩ := hi
  rw [hch] at hz hl hf hrg
  rw [hch, pw_zip] at ho
  obtain ⟨ho1, ho2, ho3, ho4, ho5⟩ := ho
  simp only [List.mem_append, List.mem_cons] at hz hl hf hrg
  have hL := hl L (Or.inr (Or.inl rfl))
  have hpm : ∀ x ∈ p :: up, x ∈ L.keys := fun x hx => List.mem_of_mem_drop (hd ▸ hx)
  have hp : p ∈ L.keys := hpm p (by simp)
  have htd := take_lt_drop hL.2 n
  rw [hd] at htd
  refine ⟨?_, ?_, ?_, ?_, ?_, ?_⟩
  · obtain ⟨Z, hZ, hZ0⟩ := hz
    simp only [List.mem_append, List.mem_cons]
    rcases hZ with hZ | rfl | hZ
    · exact ⟨Z, Or.inl hZ, hZ0⟩
    · exact ⟨_, Or.inr (Or.inl rfl), hZ0⟩
    · exact ⟨Z, Or.inr (Or.inr (Or.inr hZ)), hZ0⟩
  · show (pre ++ _ :: _ :: post).Pairwise Before
    rw [pw_zip]
    refine ⟨ho1, ?_, ?_, ?_, ?_⟩
    · rw [List.pairwise_cons]
      refine ⟨?_, ho2⟩
      intro M hM
      refine ⟨?_, ?_, ?_⟩
      · have := hf M (Or.inr (Or.inr hM))
        show s.nextId ≠ M.id
        omega
      · exact (ho4 M hM).2.2 p hp
      · intro x hx
        exact (ho4 M hM).2.2 x (hpm x hx)
    · intro M hM
      exact ho3 M hM
    · intro M hM
      rcases List.mem_cons.1 hM with rfl | hM
      · refine ⟨?_, ?_, ?_⟩
        · have := hf L (Or.inr (Or.inl rfl))
          show L.id ≠ s.nextId
          omega
        · have := hL.1 p hp
          obtain ⟨x, hx⟩ := List.exists_mem_of_ne_nil _ hne
          have := htd x hx p (by simp)
          have := hL.1 x (List.mem_of_mem_take hx)
          show L.lo < p
          omega
        · intro x hx
          exact htd x hx p (by simp)
      · exact ⟨(ho4 M hM).1, (ho4 M hM).2.1, fun x hx => (ho4 M hM).2.2 x (List.mem_of_mem_take hx)⟩
    · intro M hM N hN
      rcases List.mem_cons.1 hN with rfl | hN
      · refine ⟨?_, ?_, ?_⟩
        · have := hf M (Or.inl hM)
          show M.id ≠ s.nextId
          omega
        · have := (ho3 M hM).2.1
          have := hL.1 p hp
          show M.lo < p
          omega
        · intro x hx
          have := (ho3 M hM).2.2 x hx
          have := hL.1 p hp
          show x < p
          omega
      · exact ho5 M hM N hN
  · intro M hM
    simp only [List.mem_append, List.mem_cons] at hM
    rcases hM with hM | rfl | rfl | hM
    · exact hl M (Or.inl hM)
    · exact ⟨fun x hx => hL.1 x (List.mem_of_mem_take hx), hL.2.sublist (List.take_sublist _ _)⟩
    · refine ⟨?_, ?_⟩
      · intro x hx
        rcases List.mem_cons.1 hx with rfl | hx'
        · exact Nat.le_refl _
        · have := (List.pairwise_cons.1 (hd ▸ hL.2.sublist (List.drop_sublist n _))).1 x hx'
          show p ≤ x
          omega
      · exact hd ▸ hL.2.sublist (List.drop_sublist n _)
    · exact hl M (Or.inr (Or.inr hM))
  · intro M hM
    simp only [List.mem_append, List.mem_cons] at hM
    show M.id < s.nextId + 1
    rcases hM with hM | rfl | rfl | hM
    · exact Nat.lt_succ_of_lt (hf M (Or.inl hM))
    · exact Nat.lt_succ_of_lt (hf L (Or.inr (Or.inl rfl)))
    · exact Nat.lt_succ_self _
    · exact Nat.lt_succ_of_lt (hf M (Or.inr (Or.inr hM)))
  · intro i hi
    exact Nat.lt_succ_of_lt (hrf i hi)
  · intro i hi M hM
    simp only [List.mem_append, List.mem_cons] at hM
    rcases hM with hM | rfl | rfl | hM
    · exact hrg i hi M (Or.inl hM)
    · exact hrg i hi L (Or.inr (Or.inl rfl))
    · have := hrf i hi
      show s.nextId ≠ i
      omega
    · exact hrg i hi M (Or.inr (Or.inr hM))


/-- unlink `E`, its right neighbour `R` takes over the fence -/
theorem inv_unlinkR {s : State} (hi : Inv s) {pre post : List Leaf} {E R : Leaf}
    (hch : s.chain = pre ++ E :: R :: post) (sc : Nat → SPc) (tc : Nat → List Nat) :
    Inv { s with chain := pre ++ { R with lo := E.lo } :: post, retired := E.id :: s.retired
                 sc := sc, touched := tc } := by
  obtain ⟨hz, ho, hl, hf, hrf, hrg⟩ := hi
  rw [hch] at hz hl hf hrg
  rw [hch, pw_zip] at ho
  obtain ⟨ho1, ho2, ho3, ho4, ho5⟩ := ho
  rw [List.pairwise_cons] at ho2
  simp only [List.mem_append, List.mem_cons] at hz hl hf hrg ho4 ho5
  have hER := ho4 R (Or.inl rfl)
  have hR := hl R (Or.inr (Or.inr (Or.inl rfl)))
  refine ⟨?_, ?_, ?_, ?_, ?_, ?_⟩
  · obtain ⟨Z, hZ, hZ0⟩ := hz
    simp only [List.mem_append, List.mem_cons]
    rcases hZ with hZ | rfl | rfl | hZ
    · exact ⟨Z, Or.inl hZ, hZ0⟩
    · exact ⟨_, Or.inr (Or.inl rfl), hZ0⟩
    · have := hER.2.1
      omega
    · exact ⟨Z, Or.inr (Or.inr hZ), hZ0⟩
  · show (pre ++ _ :: post).Pairwise Before
    rw [pw_zip]
    refine ⟨ho1, ho2.2, ?_, ?_, ?_⟩
    · intro M hM
      exact ⟨(ho5 M hM R (Or.inl rfl)).1, (ho3 M hM).2.1, (ho3 M hM).2.2⟩
    · intro M hM
      exact ⟨(ho2.1 M hM).1, (ho4 M (Or.inr hM)).2.1, (ho2.1 M hM).2.2⟩
    · intro M hM N hN
      exact ho5 M hM N (Or.inr hN)
  · intro M hM
    simp only [List.mem_append, List.mem_cons] at hM
    rcases hM with hM | rfl | hM
    · exact hl M (Or.inl hM)
    · refine ⟨?_, hR.2⟩
      intro k hk
      have := hR.1 k hk
      have := hER.2.1
      show E.lo ≤ k
      omega
    · exact hl M (Or.inr (Or.inr (Or.inr hM)))
  · intro M hM
    simp only [List.mem_append, List.mem_cons] at hM
    rcases hM with hM | rfl | hM
    · exact hf M (Or.inl hM)
    · exact hf R (Or.inr (Or.inr (Or.inl rfl)))
    · exact hf M (Or.inr (Or.inr (Or.inr hM)))
  · intro i hi
    rcases List.mem_cons.1 hi with rfl | hi
    · exact hf E (Or.inr (Or.inl rfl))
    · exact hrf i hi
  · intro i hi M hM
    simp only [List.mem_append, List.mem_cons] at hM
    rcases List.mem_cons.1 hi with rfl | hi
    · rcases hM with hM | rfl | hM
      · exact (ho3 M hM).1
      · exact fun h => hER.1 h.symm
      · exact fun h => (ho4 M (Or.inr hM)).1 h.symm
    · rcases hM with hM | rfl | hM
      · exact hrg i hi M (Or.inl hM)
      · exact hrg i hi R (Or.inr (Or.inr (Or.inl rfl)))
      · exact hrg i hi M (Or.inr (Or.inr (Or.inr hM)))

/-- unlink `E`, its left neighbour absorbs the range: no fence changes -/
theorem inv_unlinkL {s : State} (hi : Inv s) {pre post : List Leaf} {E : Leaf}
    (hch : s.chain = pre ++ E :: post) (hpre : pre ≠ []) (sc : Nat → SPc) (tc : Nat → List Nat) :
    Inv { s with chain := pre ++ post, retired := E.id :: s.retired, sc := sc, touched := tc } := by
  obtain ⟨hz, ho, hl, hf, hrf, hrg⟩ := hi
  rw [hch] at hz hl hf hrg
  rw [hch, pw_zip] at ho
  obtain ⟨ho1, ho2, ho3, ho4, ho5⟩ := ho
  simp only [List.mem_append, List.mem_cons] at hz hl hf hrg
  refine ⟨?_, ?_, ?_, ?_, ?_, ?_⟩
  · obtain ⟨Z, hZ, hZ0⟩ := hz
    simp only [List.mem_append]
    rcases hZ with hZ | rfl | hZ
    · exact ⟨Z, Or.inl hZ, hZ0⟩
    · obtain ⟨P, hP⟩ := List.exists_mem_of_ne_nil _ hpre
      have := (ho3 P hP).2.1
      omega
    · exact ⟨Z, Or.inr hZ, hZ0⟩
  · show (pre ++ post).Pairwise Before
    rw [List.pairwise_append]
    exact ⟨ho1, ho2, ho5⟩
  · intro M hM
    rcases List.mem_append.1 hM with hM | hM
    · exact hl M (Or.inl hM)
    · exact hl M (Or.inr (Or.inr hM))
  · intro M hM
    rcases List.mem_append.1 hM with hM | hM
    · exact hf M (Or.inl hM)
    · exact hf M (Or.inr (Or.inr hM))
  · intro i hi
    rcases List.mem_cons.1 hi with rfl | hi
    · exact hf E (Or.inr (Or.inl rfl))
    · exact hrf i hi
  · intro i hi M hM
    rcases List.mem_cons.1 hi with rfl | hi
    · rcases List.mem_append.1 hM with hM | hM
      · exact (ho3 M hM).1
      · exact fun h => (ho4 M hM).1 h.symm
    · rcases List.mem_append.1 hM with hM | hM
      · exact hrg i hi M (Or.inl hM)
      · exact hrg i hi M (Or.inr (Or.inr hM))


/-! ## inversion of `step?` -/

theorem step_ins {c : Cfg} {s s' : State} {k : Nat} (h : step? c s (.ins k) = some s') :
    ∃ pre L post, splitOwner s.chain k = some (pre, L, post) ∧ k ∉ L.keys ∧
      s' = { s with chain := pre ++ { L with keys := insertSorted k L.keys } :: post
                    touched := touch s.touched k } := by
  simp only [step?] at h
  split at h
  · next pre L post heq =>
    split at h
    · simp at h
    · next hk =>
      simp only [Option.some.injEq] at h
      exact ⟨pre, L, post, heq, by simpa using hk, h.symm⟩
  · simp at h

theorem step_split {c : Cfg} {s s' : State} {i : Nat} (h : step? c s (.split i) = some s') :
    ∃ pre L post p up, splitAtId s.chain i = some (pre, L, post) ∧ 2 ≤ L.keys.length ∧
      L.keys.drop (L.keys.length / 2) = p :: up ∧
      s' = { s with chain := pre ++ { L with keys := L.keys.take (L.keys.length / 2) }
                                :: ⟨s.nextId, p, p :: up⟩ :: post
                    nextId := s.nextId + 1
                    sc := restart s.sc i } := by
  simp only [step?] at h
  split at h
  · next pre L post heq =>
    split at h
    · next hlen =>
      split at h
      · simp at h
      · next p up hd =>
        simp only [Option.some.injEq] at h
        exact ⟨pre, L, post, p, up, heq, hlen, hd, h.symm⟩
    · simp at h
  · simp at h

theorem step_rem {c : Cfg} {s s' : State} {k : Nat} {d : Dir} (h : step? c s (.rem k d) = some s') :
    ∃ pre L post, splitOwner s.chain k = some (pre, L, post) ∧ k ∈ L.keys ∧
      (s' = { s with chain := pre ++ { L with keys := removeKey k L.keys } :: post
                     touched := touch s.touched k } ∨
       (∃ R post', post = R :: post' ∧
          s' = { s with chain := pre ++ { R with lo := L.lo } :: post'
                        retired := L.id :: s.retired
                        sc := restart s.sc L.id
                        touched := touch s.touched k }) ∨
       (pre ≠ [] ∧
          s' = { s with chain := pre ++ post
                        retired := L.id :: s.retired
                        sc := restart s.sc L.id
                        touched := touch s.touched k })) := by
  simp only [step?] at h
  split at h
  · next pre L post heq =>
    split at h
    · next hk =>
      refine ⟨pre, L, post, heq, by simpa using hk, ?_⟩
      split at h
      · split at h
        · simp only [Option.some.injEq] at h
          exact Or.inr (Or.inl ⟨_, _, rfl, h.symm⟩)
        · simp at h
        · split at h
          · simp at h
          · next hpre =>
            simp only [Option.some.injEq] at h
            exact Or.inr (Or.inr ⟨by simpa using hpre, h.symm⟩)
      · simp only [Option.some.injEq] at h
        exact Or.inl h.symm
    · simp at h
  · simp at h

theorem step_sStart {c : Cfg} {s s' : State} {t a b : Nat} (h : step? c s (.sStart t a b) = some s') :
    s.sc t = .idle ∧ s' = { s with sc := upd s.sc t (.want a b), touched := upd s.touched t [] } := by
  simp only [step?] at h
  split at h
  · next heq =>
    simp only [Option.some.injEq] at h
    exact ⟨heq, h.symm⟩
  · simp at h

theorem step_sEnter {c : Cfg} {s s' : State} {t : Nat} (h : step? c s (.sEnter t) = some s') :
    ∃ a b pre L post, s.sc t = .want a b ∧ splitOwner s.chain a = some (pre, L, post) ∧
      s' = { s with sc := upd s.sc t (.at a b [] L.id) } := by
  simp only [step?] at h
  split at h
  · next a b heq =>
    split at h
    · next pre L post ho =>
      simp only [Option.some.injEq] at h
      exact ⟨a, b, pre, L, post, heq, ho, h.symm⟩
    · simp at h
  · simp at h

theorem step_sVisit {c : Cfg} {s s' : State} {t : Nat} (h : step? c s (.sVisit t) = some s') :
    ∃ a b res cur pre C post, s.sc t = .at a b res cur ∧ splitAtId s.chain cur = some (pre, C, post) ∧
      ((∃ N post', post = N :: post' ∧ N.lo ≤ b ∧
          s' = { s with sc := upd s.sc t (.at a b (res ++ C.keys.filter (passes c a b res)) N.id) }) ∨
       ((∀ N ∈ post.head?, b < N.lo) ∧
          s' = { s with sc := upd s.sc t (.fin a b (res ++ C.keys.filter (passes c a b res))) })) := by
  simp only [step?] at h
  split at h
  · next a b res cur heq =>
    split at h
    · next pre C post hs =>
      refine ⟨a, b, res, cur, pre, C, post, heq, hs, ?_⟩
      split at h
      · simp only [Option.some.injEq] at h
        exact Or.inr ⟨by simp, h.symm⟩
      · next N post' =>
        split at h
        · next hlo =>
          simp only [Option.some.injEq] at h
          exact Or.inl ⟨N, post', rfl, hlo, h.symm⟩
        · next hlo =>
          simp only [Option.some.injEq] at h
          exact Or.inr ⟨by simpa using hlo, h.symm⟩
    · simp at h
  · simp at h


/-! ## `Inv` holds in every reachable state -/

theorem inv_frame {s s' : State} (hi : Inv s) (h1 : s'.chain = s.chain) (h2 : s'.retired = s.retired)
    (h3 : s'.nextId = s.nextId) : Inv s' := by
  obtain ⟨hz, ho, hl, hf, hrf, hrg⟩ := hi
  refine ⟨?_, ?_, ?_, ?_, ?_, ?_⟩ <;> simp only [h1, h2, h3] <;> assumption

theorem inv_step {c : Cfg} {s s' : State} {e : Event} (hi : Inv s) (h : step? c s e = some s') :
    Inv s' := by
  cases e with
  | ins k =>
    obtain ⟨pre, L, post, ho, hk, rfl⟩ := step_ins h
    obtain ⟨hch, hlo, hpost⟩ := splitOwner_some ho
    have hL : LeafOK L := hi.leaf L (by rw [hch]; simp)
    have hord := hi.order
    rw [hch, pw_zip] at hord
    refine inv_setKeys hi hch ?_ (insertSorted_pairwise hL.2) ?_ _
    · intro x hx
      rcases mem_insertSorted.1 hx with rfl | ⟨hx, _⟩
      · exact hlo
      · exact hL.1 x hx
    · intro x hx M hM
      rcases mem_insertSorted.1 hx with rfl | ⟨hx, _⟩
      · exact hpost M hM
      · exact (hord.2.2.2.1 M hM).2.2 x hx
  | split i =>
    obtain ⟨pre, L, post, p, up, ho, hlen, hd, rfl⟩ := step_split h
    obtain ⟨hch, _, _⟩ := splitAtId_some ho
    refine inv_split hi hch hd ?_ _
    intro hnil
    rw [List.take_eq_nil_iff] at hnil
    rcases hnil with h0 | h0
    · omega
    · rw [h0] at hlen
      simp at hlen
  | rem k d =>
    obtain ⟨pre, L, post, ho, hk, hs'⟩ := step_rem h
    obtain ⟨hch, hlo, hpost⟩ := splitOwner_some ho
    rcases hs' with rfl | ⟨R, post', rfl, rfl⟩ | ⟨hpre, rfl⟩
    · have hL : LeafOK L := hi.leaf L (by rw [hch]; simp)
      have hord := hi.order
      rw [hch, pw_zip] at hord
      refine inv_setKeys hi hch ?_ (removeKey_pairwise hL.2) ?_ _
      · intro x hx
        exact hL.1 x (mem_removeKey.1 hx).1
      · intro x hx M hM
        exact (hord.2.2.2.1 M hM).2.2 x (mem_removeKey.1 hx).1
    · exact inv_unlinkR hi hch _ _
    · exact inv_unlinkL hi hch hpre _ _
  | sStart t a b =>
    obtain ⟨_, rfl⟩ := step_sStart h
    exact inv_frame hi rfl rfl rfl
  | sEnter t =>
    obtain ⟨a, b, pre, L, post, _, _, rfl⟩ := step_sEnter h
    exact inv_frame hi rfl rfl rfl
  | sVisit t =>
    obtain ⟨a, b, res, cur, pre, C, post, _, _, hs'⟩ := step_sVisit h
    rcases hs' with ⟨N, post', _, _, rfl⟩ | ⟨_, rfl⟩
    · exact inv_frame hi rfl rfl rfl
    · exact inv_frame hi rfl rfl rfl

/-- **1.** the chain invariant holds in every reachable state, for either scan. -/
theorem inv_reach {c : Cfg} {s : State} (h : Reach c s) : Inv s := by
  induction h with
  | init => exact inv_init
  | step _ hs ih => exact inv_step ih hs


/-- **1'.** the invariant spelled out: the chain is non-empty, leaf ids are distinct, fences are
    strictly ascending and the first one is 0, the keys of a leaf are strictly ascending, at least
    its fence and below the fence of the next leaf. -/
theorem chain_inv {c : Cfg} {s : State} (h : Reach c s) :
    s.chain ≠ [] ∧ (s.chain.map (·.id)).Nodup ∧ s.chain.Pairwise (fun L M => L.lo < M.lo) ∧
      (∀ L rest, s.chain = L :: rest → L.lo = 0) ∧
      (∀ L ∈ s.chain, ∀ k ∈ L.keys, L.lo ≤ k) ∧
      (∀ pre L N post, s.chain = pre ++ L :: N :: post → ∀ k ∈ L.keys, k < N.lo) ∧
      (∀ L ∈ s.chain, L.keys.Pairwise (· < ·)) := by
  have hi := inv_reach h
  refine ⟨?_, ?_, ?_, ?_, ?_, ?_, ?_⟩
  · obtain ⟨Z, hZ, _⟩ := hi.zero
    exact List.ne_nil_of_mem hZ
  · rw [List.Nodup, List.pairwise_map]
    exact hi.order.imp (fun h => h.1)
  · exact hi.order.imp (fun h => h.2.1)
  · intro L rest hch
    obtain ⟨Z, hZ, hZ0⟩ := hi.zero
    have ho := hi.order
    rw [hch] at hZ ho
    rcases List.mem_cons.1 hZ with rfl | hZ
    · exact hZ0
    · have := ((List.pairwise_cons.1 ho).1 Z hZ).2.1
      omega
  · exact fun L hL => (hi.leaf L hL).1
  · intro pre L N post hch k hk
    have ho := hi.order
    rw [hch, pw_zip] at ho
    exact (ho.2.2.2.1 N (by simp)).2.2 k hk
  · exact fun L hL => (hi.leaf L hL).2

/-! ## how one step changes a scanner -/

theorem restart_at {sc : Nat → SPc} {i t a b : Nat} {res : List Nat} {cur : Nat}
    (h : restart sc i t = .at a b res cur) : sc t = .at a b res cur ∧ cur ≠ i := by
  simp only [restart] at h
  split at h
  · next a' b' res' cur' heq =>
    split at h
    · simp at h
    · next hne =>
      simp only [SPc.at.injEq] at h
      obtain ⟨rfl, rfl, rfl, rfl⟩ := h
      exact ⟨heq, hne⟩
  · next hna => exact absurd h (hna a b res cur)

theorem restart_cases (sc : Nat → SPc) (i t : Nat) :
    restart sc i t = sc t ∨ ∃ a b, restart sc i t = .want a b := by
  simp only [restart]
  split
  · next a b res cur heq =>
    split
    · exact Or.inr ⟨a, b, rfl⟩
    · exact Or.inl heq.symm
  · exact Or.inl rfl

/-- what a step does to scanner `t`: nothing, a restart, an arrival with no results, or a visit -/
theorem sc_step {c : Cfg} {s s' : State} {e : Event} (h : step? c s e = some s') (t : Nat) :
    s'.sc t = s.sc t ∨ (∃ a b, s'.sc t = .want a b) ∨ (∃ a b cur, s'.sc t = .at a b [] cur) ∨
      ∃ a b res cur pre C post, s.sc t = .at a b res cur ∧
        splitAtId s.chain cur = some (pre, C, post) ∧
        ((∃ n, s'.sc t = .at a b (res ++ C.keys.filter (passes c a b res)) n) ∨
          s'.sc t = .fin a b (res ++ C.keys.filter (passes c a b res))) := by
  have hupd : ∀ (t' : Nat) (v : SPc), t ≠ t' → upd s.sc t' v t = s.sc t := fun t' v hne =>
    upd_other _ _ _ _ hne
  cases e with
  | ins k =>
    obtain ⟨pre, L, post, ho, hk, rfl⟩ := step_ins h
    exact Or.inl rfl
  | split i =>
    obtain ⟨pre, L, post, p, up, ho, hlen, hd, rfl⟩ := step_split h
    rcases restart_cases s.sc i t with h1 | h1
    · exact Or.inl h1
    · exact Or.inr (Or.inl h1)
  | rem k d =>
    obtain ⟨pre, L, post, ho, hk, hs'⟩ := step_rem h
    rcases hs' with rfl | ⟨R, post', rfl, rfl⟩ | ⟨hpre, rfl⟩
    · exact Or.inl rfl
    · rcases restart_cases s.sc L.id t with h1 | h1
      · exact Or.inl h1
      · exact Or.inr (Or.inl h1)
    · rcases restart_cases s.sc L.id t with h1 | h1
      · exact Or.inl h1
      · exact Or.inr (Or.inl h1)
  | sStart t' a b =>
    obtain ⟨_, rfl⟩ := step_sStart h
    by_cases ht : t = t'
    · subst ht
      exact Or.inr (Or.inl ⟨a, b, upd_same _ _ _⟩)
    · exact Or.inl (hupd _ _ ht)
  | sEnter t' =>
    obtain ⟨a, b, pre, L, post, _, _, rfl⟩ := step_sEnter h
    by_cases ht : t = t'
    · subst ht
      exact Or.inr (Or.inr (Or.inl ⟨a, b, L.id, upd_same _ _ _⟩))
    · exact Or.inl (hupd _ _ ht)
  | sVisit t' =>
    obtain ⟨a, b, res, cur, pre, C, post, hsc, hsp, hs'⟩ := step_sVisit h
    by_cases ht : t = t'
    · subst ht
      refine Or.inr (Or.inr (Or.inr ⟨a, b, res, cur, pre, C, post, hsc, hsp, ?_⟩))
      rcases hs' with ⟨N, post', _, _, rfl⟩ | ⟨_, rfl⟩
      · exact Or.inl ⟨N.id, upd_same _ _ _⟩
      · exact Or.inr (upd_same _ _ _)
    · rcases hs' with ⟨N, post', _, _, rfl⟩ | ⟨_, rfl⟩
      · exact Or.inl (hupd _ _ ht)
      · exact Or.inl (hupd _ _ ht)


/-! ## 2. the repaired scan reports strictly ascending keys inside the interval -/

def ResOK (a b : Nat) (res : List Nat) : Prop := res.Pairwise (· < ·) ∧ ∀ r ∈ res, a ≤ r ∧ r ≤ b

/-- the results held by scanner `t` (while standing on a leaf, or returned) -/
def Holds (s : State) (t a b : Nat) (res : List Nat) : Prop :=
  (∃ cur, s.sc t = .at a b res cur) ∨ s.sc t = .fin a b res

theorem le_getLast_of_sorted {l : List Nat} (h : l.Pairwise (· < ·)) {r : Nat}
    (hr : l.getLast? = some r) : ∀ x ∈ l, x ≤ r := by
  obtain ⟨l', rfl⟩ := List.getLast?_eq_some_iff.1 hr
  rw [List.pairwise_append] at h
  intro x hx
  rcases List.mem_append.1 hx with hx | hx
  · exact Nat.le_of_lt (h.2.2 x hx r (by simp))
  · simp only [List.mem_singleton] at hx
    omega

theorem passes_range {c : Cfg} {a b : Nat} {res : List Nat} {k : Nat} (h : passes c a b res k = true) :
    a ≤ k ∧ k ≤ b := by
  simp only [passes, Bool.and_eq_true, decide_eq_true_eq] at h
  exact h.1

theorem passes_fix {c : Cfg} (hfix : c.fix = true) {a b : Nat} {res : List Nat} {k r : Nat}
    (h : passes c a b res k = true) (hr : res.getLast? = some r) : r < k := by
  simp only [passes, hfix, hr, Bool.not_true, Bool.false_or, Bool.and_eq_true, decide_eq_true_eq] at h
  exact h.2

theorem resOK_visit {c : Cfg} (hfix : c.fix = true) {a b : Nat} {res ks : List Nat}
    (hr : ResOK a b res) (hks : ks.Pairwise (· < ·)) :
    ResOK a b (res ++ ks.filter (passes c a b res)) := by
  refine ⟨?_, ?_⟩
  · rw [List.pairwise_append]
    refine ⟨hr.1, hks.filter _, ?_⟩
    intro x hx y hy
    have hy' := (List.mem_filter.1 hy).2
    cases hl : res.getLast? with
    | none =>
      rw [List.getLast?_eq_none_iff] at hl
      subst hl
      simp at hx
    | some r =>
      have := passes_fix hfix hy' hl
      have := le_getLast_of_sorted hr.1 hl x hx
      omega
  · intro r hr'
    rcases List.mem_append.1 hr' with h | h
    · exact hr.2 r h
    · exact passes_range (List.mem_filter.1 h).2

theorem sorted_step {c : Cfg} (hfix : c.fix = true) {s s' : State} {e : Event} (hi : Inv s)
    (h : step? c s e = some s') (t : Nat)
    (hs : ∀ a b res, Holds s t a b res → ResOK a b res) :
    ∀ a b res, Holds s' t a b res → ResOK a b res := by
  intro a b res hh
  rcases sc_step h t with h1 | ⟨a', b', h1⟩ | ⟨a', b', cur', h1⟩ |
      ⟨a', b', res', cur', pre, C, post, h0, hsp, h1⟩
  · exact hs a b res (by simpa only [Holds, h1] using hh)
  · simp [Holds, h1] at hh
  · simp only [Holds, h1, SPc.at.injEq, reduceCtorEq, or_false] at hh
    obtain ⟨_, _, _, rfl, _⟩ := hh
    exact ⟨List.Pairwise.nil, by simp⟩
  · have hC : C ∈ s.chain := by rw [(splitAtId_some hsp).1]; simp
    have hok := resOK_visit (c := c) hfix (hs a' b' res' (Or.inl ⟨cur', h0⟩)) (hi.leaf C hC).2
    rcases h1 with ⟨n, h1⟩ | h1
    · simp only [Holds, h1, SPc.at.injEq, reduceCtorEq, or_false] at hh
      obtain ⟨_, rfl, rfl, rfl, _⟩ := hh
      exact hok
    · simp only [Holds, h1, reduceCtorEq, exists_false, SPc.fin.injEq, false_or] at hh
      obtain ⟨rfl, rfl, rfl⟩ := hh
      exact hok

theorem sorted_reach {c : Cfg} (hfix : c.fix = true) {s : State} (h : Reach c s) (t : Nat) :
    ∀ a b res, Holds s t a b res → ResOK a b res := by
  induction h with
  | init => intro a b res hh; simp [Holds, init] at hh
  | step hr hs ih => exact sorted_step hfix (inv_reach hr) hs t ih

/-- **2.** with the repair, the keys a scanner holds are strictly ascending and inside `[a, b]`. -/
theorem scan_sorted_fixed {c : Cfg} (hfix : c.fix = true) {s : State} (h : Reach c s)
    {t a b : Nat} {res : List Nat} {cur : Nat}
    (hsc : s.sc t = .at a b res cur ∨ s.sc t = .fin a b res) :
    res.Pairwise (· < ·) ∧ ∀ r ∈ res, a ≤ r ∧ r ≤ b :=
  sorted_reach hfix h t a b res (hsc.imp (fun h => ⟨cur, h⟩) id)


/-! ## 5. reported keys were stored at some moment of the scan -/

/-- **5 (local).** a visit appends only keys that are stored in the chain at that moment (and lie
    in the interval); this holds for either scan. -/
theorem visit_appends_present {c : Cfg} {s s' : State} {t : Nat}
    (h : step? c s (.sVisit t) = some s') :
    ∃ a b res new, (∃ cur, s.sc t = .at a b res cur) ∧ Holds s' t a b (res ++ new) ∧
      ∀ r ∈ new, Present s r ∧ a ≤ r ∧ r ≤ b := by
  obtain ⟨a, b, res, cur, pre, C, post, hsc, hsp, hs'⟩ := step_sVisit h
  have hC : C ∈ s.chain := by rw [(splitAtId_some hsp).1]; simp
  refine ⟨a, b, res, C.keys.filter (passes c a b res), ⟨cur, hsc⟩, ?_, ?_⟩
  · rcases hs' with ⟨N, post', _, _, rfl⟩ | ⟨_, rfl⟩
    · exact Or.inl ⟨N.id, upd_same _ _ _⟩
    · exact Or.inr (upd_same _ _ _)
  · intro r hr
    rw [List.mem_filter] at hr
    exact ⟨⟨C, hC, hr.1⟩, passes_range hr.2⟩

theorem reach_iff_hist {c : Cfg} {s : State} : Reach c s ↔ ∃ h, Hist c h s := by
  constructor
  · intro hr
    induction hr with
    | init => exact ⟨[], .init⟩
    | step _ hs ih =>
      obtain ⟨h, hh⟩ := ih
      exact ⟨_, .step hh hs⟩
  · rintro ⟨h, hh⟩
    induction hh with
    | init => exact .init
    | step _ hs ih => exact .step ih hs

/-- every state of a history is reachable -/
theorem hist_reach {c : Cfg} {h : List State} {s : State} (hh : Hist c h s) :
    ∀ s1 ∈ h, Reach c s1 := by
  induction hh with
  | init => simp
  | step hh' _ ih =>
    intro s1 hs1
    rcases List.mem_cons.1 hs1 with rfl | hs1
    · exact reach_iff_hist.2 ⟨_, hh'⟩
    · exact ih s1 hs1

/-- **5.** every key a scanner holds (in particular every key of a finished scan) was stored in the
    chain in some earlier state `s1` of the run in which this scanner was already standing on a
    leaf with the same interval, that is: at some moment between its `sStart` and now (a thread
    scans at most once in this model, so there is no other scan of `t` to confuse it with). Holds
    for either scan. -/
theorem scan_result_was_present {c : Cfg} {h : List State} {s : State} (hh : Hist c h s)
    {t a b : Nat} {res : List Nat} (hsc : Holds s t a b res) :
    ∀ r ∈ res, ∃ s1 ∈ h, (∃ res1 cur1, s1.sc t = .at a b res1 cur1) ∧ Present s1 r := by
  induction hh generalizing a b res with
  | init => simp [Holds, init] at hsc
  | @step h s s' e hh' hs ih =>
    intro r hr
    rcases sc_step hs t with h1 | ⟨a', b', h1⟩ | ⟨a', b', cur', h1⟩ |
        ⟨a', b', res', cur', pre, C, post, h0, hsp, h1⟩
    · obtain ⟨s1, hs1, hat, hp⟩ := ih (by simpa only [Holds, h1] using hsc) r hr
      exact ⟨s1, List.mem_cons_of_mem _ hs1, hat, hp⟩
    · simp [Holds, h1] at hsc
    · simp only [Holds, h1, SPc.at.injEq, reduceCtorEq, or_false] at hsc
      obtain ⟨_, _, _, rfl, _⟩ := hsc
      simp at hr
    · have hC : C ∈ s.chain := by rw [(splitAtId_some hsp).1]; simp
      have hres : a = a' ∧ b = b' ∧ res = res' ++ C.keys.filter (passes c a' b' res') := by
        rcases h1 with ⟨n, h1⟩ | h1
        · simp only [Holds, h1, SPc.at.injEq, reduceCtorEq, or_false] at hsc
          obtain ⟨_, rfl, rfl, rfl, _⟩ := hsc
          exact ⟨rfl, rfl, rfl⟩
        · simp only [Holds, h1, reduceCtorEq, exists_false, SPc.fin.injEq, false_or] at hsc
          obtain ⟨rfl, rfl, rfl⟩ := hsc
          exact ⟨rfl, rfl, rfl⟩
      obtain ⟨rfl, rfl, rfl⟩ := hres
      rcases List.mem_append.1 hr with hr | hr
      · obtain ⟨s1, hs1, hat, hp⟩ := ih (Or.inl ⟨cur', h0⟩) r hr
        exact ⟨s1, List.mem_cons_of_mem _ hs1, hat, hp⟩
      · exact ⟨s, List.mem_cons_self, ⟨res', cur', h0⟩, C, hC, (List.mem_filter.1 hr).1⟩


/-! ## 4. the repair loses nothing: stable keys are reported -/

/-- the scanner invariant. Standing on leaf `C`: every stable key of the interval below the fence
    of `C` has been collected, and everything collected is below every stable key from the fence
    of `C` on (so the repaired visit never skips a stable key). Returned: every stable key of the
    interval has been collected. -/
def ScOK (s : State) (t : Nat) : Prop :=
  (∀ a b res cur, s.sc t = .at a b res cur → ∃ C ∈ s.chain, C.id = cur ∧
      (∀ k, Stable s t k → k < C.lo → a ≤ k → k ≤ b → k ∈ res) ∧
      (∀ r ∈ res, ∀ k, Stable s t k → C.lo ≤ k → r < k)) ∧
  (∀ a b res, s.sc t = .fin a b res → ∀ k, Stable s t k → a ≤ k → k ≤ b → k ∈ res)

/-- frame rule: the stable keys only shrink, the scanner is untouched or restarted, and the leaf it
    stands on keeps its id while its fence can only move down over a range without stable keys. -/
theorem scOK_frame {s s' : State} {t : Nat} (h : ScOK s t)
    (hst : ∀ k, Stable s' t k → Stable s t k)
    (hsc : s'.sc t = s.sc t ∨ ∃ a b, s'.sc t = .want a b)
    (hC : ∀ a b res cur, s'.sc t = .at a b res cur → ∀ C ∈ s.chain, C.id = cur →
        ∃ C' ∈ s'.chain, C'.id = cur ∧ C'.lo ≤ C.lo ∧ ∀ k, Stable s' t k → C'.lo ≤ k → C.lo ≤ k) :
    ScOK s' t := by
  rcases hsc with hsc | ⟨a', b', hsc⟩
  · refine ⟨?_, ?_⟩
    · intro a b res cur hat
      obtain ⟨C, hCm, hid, h2, h3⟩ := h.1 a b res cur (hsc ▸ hat)
      obtain ⟨C', hC'm, hid', hlo, hgap⟩ := hC a b res cur hat C hCm hid
      refine ⟨C', hC'm, hid', ?_, ?_⟩
      · intro k hk hlt
        exact h2 k (hst k hk) (by omega)
      · intro r hr k hk hle
        exact h3 r hr k (hst k hk) (hgap k hk hle)
    · intro a b res hfin k hk
      exact h.2 a b res (hsc ▸ hfin) k (hst k hk)
  · refine ⟨?_, ?_⟩
    · intro a b res cur hat
      rw [hsc] at hat
      cases hat
    · intro a b res hfin
      rw [hsc] at hfin
      cases hfin

theorem mem_zip {α} {x : α} {pre : List α} {L : α} {post : List α} :
    x ∈ pre ++ L :: post ↔ x ∈ pre ∨ x = L ∨ x ∈ post := by simp

/-- the chain keeps its leaves (ids and fences) and only the keys of one leaf change -/
theorem scOK_setKeys {s : State} {t : Nat} (h : ScOK s t) {pre post : List Leaf} {L : Leaf}
    {ks : List Nat} (hch : s.chain = pre ++ L :: post) (k : Nat)
    (hks : ∀ x ∈ ks, x ≠ k → x ∈ L.keys) :
    ScOK { s with chain := pre ++ { L with keys := ks } :: post, touched := touch s.touched k } t := by
  refine scOK_frame h ?_ (Or.inl rfl) ?_
  · rintro x ⟨⟨M, hM, hx⟩, hxt⟩
    have hxk : x ≠ k ∧ x ∉ s.touched t := by simpa [touch] using hxt
    refine ⟨?_, hxk.2⟩
    rcases mem_zip.1 hM with hM | rfl | hM
    · exact ⟨M, by rw [hch]; exact mem_zip.2 (Or.inl hM), hx⟩
    · exact ⟨L, by rw [hch]; exact mem_zip.2 (Or.inr (Or.inl rfl)), hks x hx hxk.1⟩
    · exact ⟨M, by rw [hch]; exact mem_zip.2 (Or.inr (Or.inr hM)), hx⟩
  · intro a b res cur _ C hCm hid
    rw [hch] at hCm
    rcases mem_zip.1 hCm with hCm | rfl | hCm
    · exact ⟨C, mem_zip.2 (Or.inl hCm), hid, Nat.le_refl _, fun _ _ h => h⟩
    · exact ⟨_, mem_zip.2 (Or.inr (Or.inl rfl)), hid, Nat.le_refl _, fun _ _ h => h⟩
    · exact ⟨C, mem_zip.2 (Or.inr (Or.inr hCm)), hid, Nat.le_refl _, fun _ _ h => h⟩


theorem scOK_split {s : State} {t : Nat} (h : ScOK s t) {pre post : List Leaf} {L : Leaf}
    (hch : s.chain = pre ++ L :: post) {n p : Nat} {up : List Nat} (hd : L.keys.drop n = p :: up) :
    ScOK { s with chain := pre ++ { L with keys := L.keys.take n } :: ⟨s.nextId, p, p :: up⟩ :: post
                  nextId := s.nextId + 1, sc := restart s.sc L.id } t := by
  refine scOK_frame h ?_ (restart_cases _ _ _) ?_
  · rintro x ⟨⟨M, hM, hx⟩, hxt⟩
    refine ⟨?_, hxt⟩
    have hL : L ∈ s.chain := by rw [hch]; exact mem_zip.2 (Or.inr (Or.inl rfl))
    rcases mem_zip.1 hM with hM | rfl | hM
    · exact ⟨M, by rw [hch]; exact mem_zip.2 (Or.inl hM), hx⟩
    · exact ⟨L, hL, List.mem_of_mem_take hx⟩
    · rcases List.mem_cons.1 hM with rfl | hM
      · exact ⟨L, hL, List.mem_of_mem_drop (hd ▸ hx)⟩
      · exact ⟨M, by rw [hch]; exact mem_zip.2 (Or.inr (Or.inr hM)), hx⟩
  · intro a b res cur hat C hCm hid
    have hne := (restart_at hat).2
    rw [hch] at hCm
    rcases mem_zip.1 hCm with hCm | rfl | hCm
    · exact ⟨C, mem_zip.2 (Or.inl hCm), hid, Nat.le_refl _, fun _ _ h => h⟩
    · exact absurd hid hne.symm
    · exact ⟨C, mem_zip.2 (Or.inr (Or.inr (List.mem_cons_of_mem _ hCm))), hid, Nat.le_refl _,
        fun _ _ h => h⟩

/-- the absorbing step: the fence of `R` moves down to the fence of `E`; no stored key is left in
    between, so a scanner standing on `R` keeps its invariant. -/
theorem scOK_unlinkR {s : State} (hi : Inv s) {t : Nat} (h : ScOK s t) {pre post : List Leaf}
    {E R : Leaf} (hch : s.chain = pre ++ E :: R :: post) (k : Nat) :
    ScOK { s with chain := pre ++ { R with lo := E.lo } :: post, retired := E.id :: s.retired
                  sc := restart s.sc E.id, touched := touch s.touched k } t := by
  have ho := hi.order
  have hl := hi.leaf
  rw [hch] at hl
  rw [hch, pw_zip, List.pairwise_cons] at ho
  obtain ⟨-, ⟨hoR, -⟩, ho3, ho4, -⟩ := ho
  refine scOK_frame h ?_ (restart_cases _ _ _) ?_
  · rintro x ⟨⟨M, hM, hx⟩, hxt⟩
    have hxk : x ≠ k ∧ x ∉ s.touched t := by simpa [touch] using hxt
    refine ⟨?_, hxk.2⟩
    rcases mem_zip.1 hM with hM | rfl | hM
    · exact ⟨M, by rw [hch]; exact mem_zip.2 (Or.inl hM), hx⟩
    · exact ⟨R, by rw [hch]; simp, hx⟩
    · exact ⟨M, by rw [hch]; simp [hM], hx⟩
  · intro a b res cur hat C hCm hid
    have hne := (restart_at hat).2
    rw [hch] at hCm
    rcases mem_zip.1 hCm with hCm | rfl | hCm
    · exact ⟨C, mem_zip.2 (Or.inl hCm), hid, Nat.le_refl _, fun _ _ h => h⟩
    · exact absurd hid hne.symm
    · rcases List.mem_cons.1 hCm with rfl | hCm
      · refine ⟨_, mem_zip.2 (Or.inr (Or.inl rfl)), hid, Nat.le_of_lt (ho4 C (by simp)).2.1, ?_⟩
        rintro x ⟨⟨M, hM, hx⟩, -⟩ hle
        rcases mem_zip.1 hM with hM | rfl | hM
        · have := (ho3 M hM).2.2 x hx
          exact absurd hle (by show ¬ E.lo ≤ x; omega)
        · exact (hl C (by simp)).1 x hx
        · have := (hoR M hM).2.1
          have := (hl M (by simp [hM])).1 x hx
          omega
      · exact ⟨C, mem_zip.2 (Or.inr (Or.inr hCm)), hid, Nat.le_refl _, fun _ _ h => h⟩

theorem scOK_unlinkL {s : State} {t : Nat} (h : ScOK s t) {pre post : List Leaf}
    {E : Leaf} (hch : s.chain = pre ++ E :: post) (k : Nat) :
    ScOK { s with chain := pre ++ post, retired := E.id :: s.retired
                  sc := restart s.sc E.id, touched := touch s.touched k } t := by
  refine scOK_frame h ?_ (restart_cases _ _ _) ?_
  · rintro x ⟨⟨M, hM, hx⟩, hxt⟩
    have hxk : x ≠ k ∧ x ∉ s.touched t := by simpa [touch] using hxt
    refine ⟨?_, hxk.2⟩
    rcases List.mem_append.1 hM with hM | hM
    · exact ⟨M, by rw [hch]; exact mem_zip.2 (Or.inl hM), hx⟩
    · exact ⟨M, by rw [hch]; exact mem_zip.2 (Or.inr (Or.inr hM)), hx⟩
  · intro a b res cur hat C hCm hid
    have hne := (restart_at hat).2
    rw [hch] at hCm
    rcases mem_zip.1 hCm with hCm | rfl | hCm
    · exact ⟨C, List.mem_append.2 (Or.inl hCm), hid, Nat.le_refl _, fun _ _ h => h⟩
    · exact absurd hid hne.symm
    · exact ⟨C, List.mem_append.2 (Or.inr hCm), hid, Nat.le_refl _, fun _ _ h => h⟩


theorem scOK_other {s s' : State} {t : Nat} (h : ScOK s t) (hch : s'.chain = s.chain)
    (hsc : s'.sc t = s.sc t) (htc : s'.touched t = s.touched t) : ScOK s' t := by
  simp only [ScOK, Stable, Present, hch, hsc, htc]
  exact h

theorem scOK_want {s : State} {t a b : Nat} (h : s.sc t = .want a b) : ScOK s t := by
  refine ⟨?_, ?_⟩
  · intro a' b' res cur hat
    rw [h] at hat
    cases hat
  · intro a' b' res hfin
    rw [h] at hfin
    cases hfin

theorem scOK_enter {s : State} {t a b : Nat} {pre post : List Leaf} {L : Leaf}
    (ho : splitOwner s.chain a = some (pre, L, post)) :
    ScOK { s with sc := upd s.sc t (.at a b [] L.id) } t := by
  obtain ⟨hch, hlo, -⟩ := splitOwner_some ho
  refine ⟨?_, ?_⟩
  · intro a' b' res cur hat
    simp only [upd_same, SPc.at.injEq] at hat
    obtain ⟨rfl, rfl, rfl, rfl⟩ := hat
    refine ⟨L, ?_, rfl, ?_, ?_⟩
    · show L ∈ s.chain
      rw [hch]
      exact mem_zip.2 (Or.inr (Or.inl rfl))
    · intro k _ h1 h2
      omega
    · intro r hr
      simp at hr
  · intro a' b' res hfin
    simp only [upd_same, reduceCtorEq] at hfin

/-- the visit: with the repair, every stable key of the visited leaf inside the interval passes the
    filter, because everything collected so far is below it. -/
theorem scOK_visit {c : Cfg} (hfix : c.fix = true) {s : State} (hi : Inv s) {t : Nat} (h : ScOK s t)
    {a b : Nat} {res : List Nat} {cur : Nat} {pre post : List Leaf} {C : Leaf}
    (hsc : s.sc t = .at a b res cur) (hsp : splitAtId s.chain cur = some (pre, C, post)) :
    (∀ N post', post = N :: post' → N.lo ≤ b →
      ScOK { s with sc := upd s.sc t (.at a b (res ++ C.keys.filter (passes c a b res)) N.id) } t) ∧
    ((∀ N ∈ post.head?, b < N.lo) →
      ScOK { s with sc := upd s.sc t (.fin a b (res ++ C.keys.filter (passes c a b res))) } t) := by
  obtain ⟨hch, hid, hpre⟩ := splitAtId_some hsp
  have ho := hi.order
  have hl := hi.leaf
  rw [hch] at hl
  rw [hch, pw_zip] at ho
  obtain ⟨-, hopost, ho3, ho4, -⟩ := ho
  obtain ⟨C0, hC0m, hC0id, h2, h3⟩ := h.1 a b res cur hsc
  -- the leaf of the invariant is the leaf found
  have hC0 : C0 = C := by
    rw [hch] at hC0m
    rcases mem_zip.1 hC0m with hm | rfl | hm
    · exact absurd hC0id (hpre C0 hm)
    · rfl
    · exact absurd (hid.trans hC0id.symm) (ho4 C0 hm).1
  subst hC0
  -- a stored key from the fence of `C0` on is in `C0` or in a later leaf
  have hK : ∀ x, Present s x → C0.lo ≤ x → x ∈ C0.keys ∨ ∃ N ∈ post, N.lo ≤ x := by
    rintro x ⟨M, hM, hx⟩ hle
    rw [hch] at hM
    rcases mem_zip.1 hM with hM | rfl | hM
    · have := (ho3 M hM).2.2 x hx
      omega
    · exact Or.inl hx
    · exact Or.inr ⟨M, hM, (hl M (mem_zip.2 (Or.inr (Or.inr hM)))).1 x hx⟩
  -- a stable key of `C0` inside the interval is appended
  have hnew : ∀ x, Stable s t x → x ∈ C0.keys → a ≤ x → x ≤ b →
      x ∈ C0.keys.filter (passes c a b res) := by
    intro x hx hxC h1 h2'
    rw [List.mem_filter]
    refine ⟨hxC, ?_⟩
    have hlo := (hl C0 (mem_zip.2 (Or.inr (Or.inl rfl)))).1 x hxC
    simp only [passes, hfix, Bool.not_true, Bool.false_or, Bool.and_eq_true, decide_eq_true_eq]
    refine ⟨⟨h1, h2'⟩, ?_⟩
    cases hg : res.getLast? with
    | none => rfl
    | some r =>
      have hr : r ∈ res := List.mem_of_getLast? hg
      simpa using h3 r hr x hx hlo
  refine ⟨?_, ?_⟩
  · rintro N post' rfl hNb
    rw [List.pairwise_cons] at hopost
    refine ⟨?_, ?_⟩
    · intro a' b' res' cur' hat
      simp only [upd_same, SPc.at.injEq] at hat
      obtain ⟨rfl, rfl, rfl, rfl⟩ := hat
      refine ⟨N, ?_, rfl, ?_, ?_⟩
      · show N ∈ s.chain
        rw [hch]
        simp
      · intro x hx hlt h1 h2'
        have hx' : Stable s t x := hx
        rw [List.mem_append]
        by_cases hxl : x < C0.lo
        · exact Or.inl (h2 x hx' hxl h1 h2')
        · rcases hK x hx'.1 (by omega) with hxC | ⟨N', hN', hle⟩
          · exact Or.inr (hnew x hx' hxC h1 h2')
          · rcases List.mem_cons.1 hN' with rfl | hN'
            · omega
            · have := (hopost.1 N' hN').2.1
              omega
      · intro r hr x hx hle
        have hx' : Stable s t x := hx
        rcases List.mem_append.1 hr with hr | hr
        · have := (ho4 N (by simp)).2.1
          exact h3 r hr x hx' (by omega)
        · have := (ho4 N (by simp)).2.2 r (List.mem_filter.1 hr).1
          omega
    · intro a' b' res' hfin
      simp only [upd_same, reduceCtorEq] at hfin
  · intro hend
    refine ⟨?_, ?_⟩
    · intro a' b' res' cur' hat
      simp only [upd_same, reduceCtorEq] at hat
    · intro a' b' res' hfin x hx h1 h2'
      simp only [upd_same, SPc.fin.injEq] at hfin
      obtain ⟨rfl, rfl, rfl⟩ := hfin
      have hx' : Stable s t x := hx
      rw [List.mem_append]
      by_cases hxl : x < C0.lo
      · exact Or.inl (h2 x hx' hxl h1 h2')
      · rcases hK x hx'.1 (by omega) with hxC | ⟨N', hN', hle⟩
        · exact Or.inr (hnew x hx' hxC h1 h2')
        · cases post with
          | nil => simp at hN'
          | cons N post' =>
            have hb := hend N (by simp)
            rw [List.pairwise_cons] at hopost
            rcases List.mem_cons.1 hN' with rfl | hN'
            · omega
            · have := (hopost.1 N' hN').2.1
              omega


theorem scOK_step {c : Cfg} (hfix : c.fix = true) {s s' : State} {e : Event} (hi : Inv s)
    (h : step? c s e = some s') {t : Nat} (hs : ScOK s t) : ScOK s' t := by
  cases e with
  | ins k =>
    obtain ⟨pre, L, post, ho, hk, rfl⟩ := step_ins h
    refine scOK_setKeys hs (splitOwner_some ho).1 k ?_
    intro x hx hne
    rcases mem_insertSorted.1 hx with rfl | ⟨hx, _⟩
    · exact absurd rfl hne
    · exact hx
  | split i =>
    obtain ⟨pre, L, post, p, up, ho, hlen, hd, rfl⟩ := step_split h
    obtain ⟨hch, rfl, -⟩ := splitAtId_some ho
    exact scOK_split hs hch hd
  | rem k d =>
    obtain ⟨pre, L, post, ho, hk, hs'⟩ := step_rem h
    have hch := (splitOwner_some ho).1
    rcases hs' with rfl | ⟨R, post', rfl, rfl⟩ | ⟨hpre, rfl⟩
    · exact scOK_setKeys hs hch k (fun x hx _ => (mem_removeKey.1 hx).1)
    · exact scOK_unlinkR hi hs hch k
    · exact scOK_unlinkL hs hch k
  | sStart t' a b =>
    obtain ⟨_, rfl⟩ := step_sStart h
    by_cases ht : t = t'
    · subst ht
      exact scOK_want (a := a) (b := b) (upd_same _ _ _)
    · exact scOK_other hs rfl (upd_other _ _ _ _ ht) (upd_other _ _ _ _ ht)
  | sEnter t' =>
    obtain ⟨a, b, pre, L, post, _, ho, rfl⟩ := step_sEnter h
    by_cases ht : t = t'
    · subst ht
      exact scOK_enter ho
    · exact scOK_other hs rfl (upd_other _ _ _ _ ht) rfl
  | sVisit t' =>
    obtain ⟨a, b, res, cur, pre, C, post, hsc, hsp, hs'⟩ := step_sVisit h
    by_cases ht : t = t'
    · subst ht
      have hv := scOK_visit hfix hi hs hsc hsp
      rcases hs' with ⟨N, post', hpost, hNb, rfl⟩ | ⟨hend, rfl⟩
      · exact hv.1 N post' hpost hNb
      · exact hv.2 hend
    · rcases hs' with ⟨N, post', _, _, rfl⟩ | ⟨_, rfl⟩
      · exact scOK_other hs rfl (upd_other _ _ _ _ ht) rfl
      · exact scOK_other hs rfl (upd_other _ _ _ _ ht) rfl

theorem scOK_reach {c : Cfg} (hfix : c.fix = true) {s : State} (h : Reach c s) (t : Nat) :
    ScOK s t := by
  induction h with
  | init =>
    refine ⟨?_, ?_⟩
    · intro a b res cur hat
      simp [init] at hat
    · intro a b res hfin
      simp [init] at hfin
  | step hr hs ih => exact scOK_step hfix (inv_reach hr) hs ih

/-- **4.** the repair loses nothing: a finished repaired scan of `[a, b]` reports every key of the
    interval that is stable for it, i.e. stored now and neither inserted nor removed since the
    scan started (so it was stored during the whole scan). `split` is unrestricted. -/
theorem stable_key_returned_fixed {c : Cfg} (hfix : c.fix = true) {s : State} (h : Reach c s)
    {t a b : Nat} {res : List Nat} (hsc : s.sc t = .fin a b res)
    {k : Nat} (ha : a ≤ k) (hb : k ≤ b) (hk : Stable s t k) : k ∈ res :=
  (scOK_reach hfix h t).2 a b res hsc k hk ha hb

/-- the same with `Stable` unfolded -/
theorem stable_key_returned_fixed' {c : Cfg} (hfix : c.fix = true) {s : State} (h : Reach c s)
    {t a b : Nat} {res : List Nat} (hsc : s.sc t = .fin a b res)
    {k : Nat} (ha : a ≤ k) (hb : k ≤ b) (hnt : k ∉ s.touched t) {L : Leaf} (hL : L ∈ s.chain)
    (hkL : k ∈ L.keys) : k ∈ res :=
  stable_key_returned_fixed hfix h hsc ha hb ⟨⟨L, hL, hkL⟩, hnt⟩

/-! ## 3. the defect and the repaired run, as closed computations -/

/-- **3.** without the repair the scenario of D13 returns a list that is not ascending. -/
theorem D13_counterexample :
    scanOutcome { fix := false } D13_evs 0 = some (.fin 0 100 [3, 2, 11]) := by decide

/-- the result of `D13_counterexample` is indeed not ascending -/
theorem D13_not_sorted : ¬ [3, 2, 11].Pairwise (· < ·) := by decide

/-- **3'.** the same events are accepted by the repaired model (so it does go through the
    absorbing scenario) and the result is ascending. -/
theorem D13_fixed_run :
    scanOutcome { fix := true } D13_evs 0 = some (.fin 0 100 [3, 11]) := by decide

/-- and when 3 is re-inserted before the second visit it is reported twice without the repair,
    once with it. -/
theorem D13_dup_counterexample :
    scanOutcome { fix := false } D13_dup_evs 0 = some (.fin 0 100 [3, 2, 3, 11]) := by decide

theorem D13_dup_fixed_run :
    scanOutcome { fix := true } D13_dup_evs 0 = some (.fin 0 100 [3, 11]) := by decide

/-- the traces above are runs of the model: their end states are reachable -/
theorem exec_reach {c : Cfg} {s : State} (hs : Reach c s) {evs : List Event} {s' : State}
    (h : exec c s evs = some s') : Reach c s' := by
  induction evs generalizing s with
  | nil =>
    simp only [exec, Option.some.injEq] at h
    exact h ▸ hs
  | cons e es ih =>
    simp only [exec] at h
    cases he : step? c s e with
    | none => simp [he] at h
    | some s1 =>
      rw [he] at h
      exact ih (.step hs he) h

/-- **3 (as a statement about `Reach`).** without the repair a state is reachable in which a
    finished scan holds a list that is not ascending: `scan_sorted_fixed` fails for `fix := false`. -/
theorem D13_reachable :
    ∃ s, Reach { fix := false } s ∧ s.sc 0 = .fin 0 100 [3, 2, 11] := by
  have h := D13_counterexample
  simp only [scanOutcome, Option.map_eq_some_iff] at h
  obtain ⟨s, hs, hsc⟩ := h
  exact ⟨s, exec_reach .init hs, hsc⟩

/-- non-vacuity of `stable_key_returned_fixed` on that run: at the end 11 is stable for scanner 0
    (stored, untouched) and reported; 3 and 2 were touched. -/
theorem D13_fixed_state :
    (exec { fix := true } init D13_evs).map (fun s => (s.chain, s.retired, s.touched 0, s.sc 0)) =
      some ([⟨1, 0, [2, 11]⟩], [0], [2, 3], .fin 0 100 [3, 11]) := by decide

end Yak.Proto.Absorb
