import YakModel.Scan
import YakModel.Proofs.TreeProofs
/-!
# C05, point reads: the leaf a missing `get` reports is the leaf a later insert modifies
-/
namespace Yak.Tree
open Yak

theorem insertInto_modified (t : Tree) (L : Layer) (i : Nat) (rest : Key) (v : Val) :
    (insertInto t L i rest v).modified = some (L.pfx, i) := by
  unfold insertInto
  dsimp only
  split <;> rfl

/-- `get` and `put` walk the same path: on a miss, `get` reports `mkRef L i` for exactly the
    layer/leaf `put` reports as modified. -/
theorem getAt_miss_report {t : Tree} (hF : FCore (lay t)) (v : Val) (u : Bool) :
    ∀ (rest : Key) (p : List UInt8), (lay t p).isSome → walkM (lookF (lay t)) p rest = none →
    ∃ q L i, findLayer t q = some L ∧ i < L.leaves.length ∧
      (getAt t p rest).node = some (mkRef L i) ∧ (putAt t p rest v u).modified = some (q, i) := by
  intro rest
  induction hn : rest.length using Nat.strongRecOn generalizing rest with
  | _ n ih =>
    intro p hp hw
    cases hL : findLayer t p with
    | none => rw [lay_isSome, hL] at hp; cases hp
    | some L =>
      have hLp : L.pfx = p := (findLayer_some hL).1
      rw [putAt, getAt, hL]
      dsimp only
      cases hlk : leafLookup (KT.ofKey rest)
          (leafKeys (L.leaves.getD (route (KT.ofKey rest) L.leaves) emptyLeaf)) with
      | none =>
        dsimp only
        have hc := hF.core _ _ (lay_of_findLayer hL)
        obtain ⟨pre, leaf, post, hr⟩ := route_decomp hc (KT.ofKey_wf rest)
        refine ⟨p, L, route (KT.ofKey rest) L.leaves, hL, ?_, rfl, ?_⟩
        · rw [← hr.len, hr.eq]; simp
        · rw [insertInto_modified, hLp]
      | some r =>
        have hg := layerGet_of_lookup hlk
        have hlook := (lookF_lay hL (KT.ofKey rest)).trans hg
        dsimp only
        by_cases hl : rest.length > 8
        · rw [dif_pos hl, dif_pos hl]
          rw [walkM_long hlook hl] at hw
          exact ih (rest.drop 8).length (by simp only [List.length_drop]; omega) (rest.drop 8) rfl
            (p ++ rest.take 8) (down_of_lookF hF hlook hl) hw
        · rw [walkM_short hlook hl] at hw
          exact absurd hw (val_of_lookF_short hF hlook hl)

theorem insert_bumps_landing (t : Tree) (k : Key) (v : Val) (h : Inv t) (hk : (get t k).val = none) :
    ∃ p i L L' l l', (put t k v false).modified = some (p, i) ∧ findLayer t p = some L ∧
      L.leaves[i]? = some l ∧
      findLayer (put t k v false).tree p = some L' ∧ L'.leaves[i]? = some l' ∧ l'.vins = l.vins + 1 := by
  obtain ⟨p, i, L, leaf, h1, h2, h3, _, L', h5, h6⟩ := put_insert_reports t k v false h hk
  have hi : i < L.leaves.length := by
    rcases Nat.lt_or_ge i L.leaves.length with h | h
    · exact h
    · rw [List.getElem?_eq_none h] at h3; cases h3
  rcases h6 with ⟨_, leaf', e1, e2, _⟩ | ⟨_, a, b, e1, e2, _⟩
  · refine ⟨p, i, L, L', leaf, leaf', h1, h2, h3, h5, ?_, e2⟩
    rw [e1]; simp [hi]
  · refine ⟨p, i, L, L', leaf, a, h1, h2, h3, h5, ?_, e2⟩
    rw [e1]
    have hlen : (L.leaves.take i).length = i := by simp only [List.length_take]; omega
    rw [List.append_assoc, List.getElem?_append_right (by omega), hlen]
    simp

theorem get_miss_reports_landing (t : Tree) (k : Key) (v : Val) (h : Inv t) (hk : (get t k).val = none) :
    ∃ r, (get t k).node = some r ∧ (put t k v false).modified = some (r.pfx, r.idx) ∧
      ∃ L l, findLayer t r.pfx = some L ∧ L.leaves[r.idx]? = some l ∧ r.vins = l.vins ∧
        r.vsplit = l.vsplit := by
  obtain ⟨_, hF, _⟩ := (inv_iff t).mp h
  unfold get at hk
  rw [getAt_val] at hk
  obtain ⟨q, L, i, hL, hi, hg, hp⟩ := getAt_miss_report hF v false k [] hF.root hk
  have hLp : L.pfx = q := (findLayer_some hL).1
  refine ⟨mkRef L i, hg, ?_, L, L.leaves[i], ?_, ?_, ?_, ?_⟩
  · show (putAt t [] k v false).modified = some (L.pfx, i)
    rw [hp, hLp]
  · show findLayer t L.pfx = some L
    rw [hLp]; exact hL
  · show L.leaves[i]? = some L.leaves[i]
    exact List.getElem?_eq_getElem hi
  · show (L.leaves.getD i emptyLeaf).vins = _
    rw [List.getD_eq_getElem?_getD, List.getElem?_eq_getElem hi]; rfl
  · show (L.leaves.getD i emptyLeaf).vsplit = _
    rw [List.getD_eq_getElem?_getD, List.getElem?_eq_getElem hi]; rfl

end Yak.Tree
