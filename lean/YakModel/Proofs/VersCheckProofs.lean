import YakModel.VersCheck
import YakModel.Proofs.VersionProofs
/-!
# What the version-word monitor's acceptance means

`VersCheck.classify old new = some k` is the monitor's acceptance of one observed compare-exchange.
These lemmas say, in terms of the decoded fields, what an accepted transition can have done:
nothing but the operation it was classified as.
-/
namespace Yak.VersCheck
open Yak.Version

theorem classify_lock {o n : W} (h : classify o n = some .lock) :
    (decode o).locked = false ∧ decode n = { decode o with locked := true } := by
  unfold classify at h
  split at h
  · rename_i hc
    simp only [Bool.and_eq_true, Bool.not_eq_eq_eq_not, Bool.not_true, beq_iff_eq] at hc
    refine ⟨hc.1, ?_⟩
    rw [hc.2]
    exact (setters_local o true).2.2.2.2.2
  · split at h
    · simp at h
    · split at h
      · simp at h
      · split at h
        · simp at h
        · split at h <;> simp at h

theorem classify_unlock {o n : W} (h : classify o n = some .unlock) :
    (decode o).locked = true ∧ decode n = (decode o).unlock := by
  unfold classify at h
  split at h
  · simp at h
  · split at h
    · rename_i hc
      simp only [Bool.and_eq_true, beq_iff_eq] at hc
      exact ⟨hc.1, by rw [hc.2]; exact decode_unlockW o⟩
    · split at h
      · simp at h
      · split at h
        · simp at h
        · split at h <;> simp at h

/-- an accepted flag update changed exactly one of the five flag fields and nothing else: in
    particular not the lock bit and not the counters -/
theorem classify_flag {o n : W} (h : classify o n = some .flag) :
    ∃ tf : Bool, decode n = { decode o with root := tf } ∨ decode n = { decode o with border := tf } ∨
      decode n = { decode o with deleted := tf } ∨ decode n = { decode o with inserting := tf } ∨
      decode n = { decode o with splitting := tf } := by
  unfold classify at h
  split at h
  · simp at h
  · split at h
    · simp at h
    · split at h
      · simp at h
      · split at h
        · rename_i hc
          simp only [Bool.or_eq_true, beq_iff_eq] at hc
          have S := fun tf => setters_local o tf
          rcases hc with ((((((((( e | e) | e) | e) | e) | e) | e) | e) | e) | e)
          · exact ⟨true, .inr (.inl (by rw [e]; exact (S true).2.1))⟩
          · exact ⟨false, .inr (.inl (by rw [e]; exact (S false).2.1))⟩
          · exact ⟨true, .inr (.inr (.inl (by rw [e]; exact (S true).2.2.1)))⟩
          · exact ⟨false, .inr (.inr (.inl (by rw [e]; exact (S false).2.2.1)))⟩
          · exact ⟨true, .inr (.inr (.inr (.inl (by rw [e]; exact (S true).2.2.2.1))))⟩
          · exact ⟨false, .inr (.inr (.inr (.inl (by rw [e]; exact (S false).2.2.2.1))))⟩
          · exact ⟨true, .inl (by rw [e]; exact (S true).1)⟩
          · exact ⟨false, .inl (by rw [e]; exact (S false).1)⟩
          · exact ⟨true, .inr (.inr (.inr (.inr (by rw [e]; exact (S true).2.2.2.2.1))))⟩
          · exact ⟨false, .inr (.inr (.inr (.inr (by rw [e]; exact (S false).2.2.2.2.1))))⟩
        · split at h <;> simp at h

/-- an accepted transition never takes a lock that is held and never drops one by anything but an
    unlock: the lock bit changes only in the `lock` and `unlock` classes -/
theorem lock_bit_changes_only_by_lock_unlock {o n : W} {k : Kind} (h : classify o n = some k)
    (hk : k = .flag ∨ k = .same) : (decode n).locked = (decode o).locked := by
  rcases hk with rfl | rfl
  · obtain ⟨tf, e | e | e | e | e⟩ := classify_flag h <;> rw [e]
  · unfold classify at h
    split at h
    · simp at h
    · split at h
      · simp at h
      · split at h
        · rename_i hc; simp only [beq_iff_eq] at hc; rw [hc]
        · split at h
          · simp at h
          · split at h <;> simp at h

end Yak.VersCheck
