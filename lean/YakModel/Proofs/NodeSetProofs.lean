import YakModel.Proofs.NodeSetInv
/-!
# `NodeSet`: every step keeps the invariant; the C06 theorems

`Inv` = chain shape + lock discipline + completion bookkeeping + the scanner invariant of every
scanner. `inv_step` goes through the relational steps; the theorems of `YakProps/C06.lean` are
read off the invariant of a finished scanner.
-/
namespace Yak.Proto.NodeSet

structure Inv (s : State) : Prop where
  chain : ChainInv s.chain s.nextId
  wr : WInv s.chain s.w
  comp : CInv s.chain s.w s.completed
  scan : ∀ t, ScInv s.chain s.w (s.sc t)

theorem inv_init : Inv init := by
  refine ⟨⟨?_, ?_, ?_, ?_, ?_⟩, ⟨?_, ?_, ?_, ?_, ?_⟩, ⟨?_, ?_, ?_, ?_⟩, ?_⟩
  · simp [init]
  · simp [init]
  · intro L hL; simp [init] at hL; subst hL; decide
  · intro L hL k hk; simp [init] at hL; subst hL; cases hk
  · intro L hL; simp [init] at hL; subst hL; exact List.Pairwise.nil
  · intro t i h; exact h.elim
  · intro t1 t2 i h; exact h.elim
  · intro t k i h; cases h
  · intro t k i h; cases h
  · intro t k i j h; cases h
  · intro k hk; cases hk
  · intro t k h; exact h.elim
  · intro t k h; exact h.elim
  · intro t1 t2 k h; exact h.elim
  · intro t; trivial

/-! ## transfer lemmas for writer steps -/

theorem scinv_transfer {ch ch' : List Leaf} {w w' : Nat → WPc}
    (hS : ∀ a b f keys nodes, SInv ch w a b f keys nodes → SInv ch' w' a b f keys nodes)
    (hP : ∀ Lc ∈ ch, ∃ Lc' ∈ ch', Lc'.id = Lc.id ∧ Lc'.lo = Lc.lo ∧
      ∀ a b ph, PhInv a b Lc ph → PhInv a b Lc' ph)
    {pc : SPc} (h : ScInv ch w pc) : ScInv ch' w' pc := by
  cases pc with
  | idle => trivial
  | want a b => trivial
  | run a b keys nodes cur ph =>
    obtain ⟨Lc, hLc, hid, hs, hp⟩ := h
    obtain ⟨Lc', hLc', e1, e2, e3⟩ := hP Lc hLc
    exact ⟨Lc', hLc', by rw [e1, hid], by rw [e2]; exact hS _ _ _ _ _ hs, e3 _ _ _ hp⟩
  | fin a b keys nodes => exact hS _ _ _ _ _ h

theorem hP_setLeaf {ch : List Leaf} {nid : Nat} (hc : ChainInv ch nid) {L L' : Leaf} (hL : L ∈ ch)
    (hid : L'.id = L.id) (hlo : L'.lo = L.lo) (hv : L.vins ≤ L'.vins) (hs : L.vsplit ≤ L'.vsplit)
    (hd : L'.dirty = false → (L.dirty = false ∧ L'.keys = L.keys) ∨ L.vins < L'.vins) :
    ∀ Lc ∈ ch, ∃ Lc' ∈ setLeaf ch L', Lc'.id = Lc.id ∧ Lc'.lo = Lc.lo ∧
      ∀ a b ph, PhInv a b Lc ph → PhInv a b Lc' ph := by
  intro Lc hLc
  by_cases h : Lc.id = L.id
  · have : Lc = L := hc.eq_of_id hLc hL h
    subst this
    exact ⟨L', (mem_setLeaf hL hid).mpr (Or.inl rfl), hid, hlo, fun a b ph hp => ph_setLeaf hv hs hd hp⟩
  · exact ⟨Lc, (mem_setLeaf hL hid).mpr (Or.inr ⟨hLc, h⟩), rfl, rfl, fun _ _ _ hp => hp⟩

theorem keep_setLeaf {ch : List Leaf} {L L' : Leaf} (hL : L ∈ ch)
    (hid : L'.id = L.id) (hlo : L'.lo = L.lo) :
    ∀ M ∈ ch, M.id ≠ L.id → M ∈ setLeaf ch L' ∧ ∀ y, Owns ch M y → Owns (setLeaf ch L') M y := by
  intro M hM hne
  exact ⟨(mem_setLeaf hL hid).mpr (Or.inr ⟨hM, hne⟩),
    fun y ho => ho.of_los rfl (setLeaf_los hL hid hlo)⟩

theorem pres_setLeaf {ch : List Leaf} {nid : Nat} (hc : ChainInv ch nid) {L L' : Leaf} (hL : L ∈ ch)
    (hid : L'.id = L.id) (hk : ∀ y ∈ L.keys, y ∈ L'.keys) :
    ∀ y, PresentC ch y → PresentC (setLeaf ch L') y := by
  rintro y ⟨M, hM, hy⟩
  by_cases h : M.id = L.id
  · have : M = L := hc.eq_of_id hM hL h
    subst this
    exact ⟨L', (mem_setLeaf hL hid).mpr (Or.inl rfl), hk y hy⟩
  · exact ⟨M, (mem_setLeaf hL hid).mpr (Or.inr ⟨hM, h⟩), hy⟩

theorem hoth_of_holds {ch : List Leaf} {w : Nat → WPc} (hw : WInv ch w) {t i0 : Nat}
    (h : (w t).Holds i0) : ∀ t' i, t' ≠ t → (w t').Holds i → i ≠ i0 := by
  intro t' i ht h' e
  subst e
  exact ht (hw.mutex t' t i h' h)

theorem scan_upd {ch : List Leaf} {w : Nat → WPc} {sc : Nat → SPc} (h : ∀ t, ScInv ch w (sc t))
    (t : Nat) (pc : SPc) (hpc : ScInv ch w pc) : ∀ t', ScInv ch w (upd sc t pc t') := by
  intro t'
  by_cases ht : t' = t
  · subst ht; rw [upd_same]; exact hpc
  · rw [upd_other _ _ _ _ ht]; exact h t'

/-! ## writer steps -/

theorem inv_wLock {s : State} (hi : Inv s) (t k : Nat) (L L' : Leaf) (hw : s.w t = .idle)
    (hL : L ∈ s.chain) (hul : L.locked = false) (hown : Owns s.chain L k) (hk : k ∉ L.keys)
    (hid : L'.id = L.id) (hlo : L'.lo = L.lo) (hks : L'.keys = L.keys) (hvi : L'.vins = L.vins)
    (hvs : L'.vsplit = L.vsplit) (hlk : L'.locked = true) (hdi : L'.dirty = L.dirty) :
    Inv ⟨setLeaf s.chain L', s.nextId, upd s.w t (.held k L.id), s.sc, s.completed⟩ := by
  obtain ⟨hc, hwr, hci, hsc⟩ := hi
  have hnohold : ∀ t' i, (s.w t').Holds i → i ≠ L.id := by
    intro t' i h e
    obtain ⟨M, hM, hid, hl⟩ := hwr.locked t' i h
    have : M = L := hc.eq_of_id hM hL (by rw [hid, e])
    subst this
    rw [hul] at hl; cases hl
  have hL' : L' ∈ setLeaf s.chain L' := (mem_setLeaf hL hid).mpr (Or.inl rfl)
  have hkeys2 : ∀ y ∈ L.keys, y ∈ L'.keys := fun y hy => by rw [hks]; exact hy
  refine ⟨?_, ?_, ?_, ?_⟩
  · exact chainInv_setLeaf hc hL hid hlo (fun y hy => hc.keysIn L hL y (by rw [← hks]; exact hy))
      (by rw [hks]; exact hc.ksorted L hL)
  · refine winv_frame hwr t _ L.id (keep_setLeaf hL hid hlo) (fun t' i _ h => hnohold t' i h)
      ?_ ?_ ?_ ?_ ?_
    · intro t' i _ hx h'
      exact hnohold t' i h' hx
    · intro i hx
      exact ⟨L', hL', by rw [hid]; exact hx.symm, hlk⟩
    · intro k' i' e
      cases e
      exact ⟨L', hL', hid, hown.of_los hlo (setLeaf_los hL hid hlo), by rw [hks]; exact hk⟩
    · intro k' i' e; cases e
    · intro k' i' j' e; cases e
  · refine cinv_step hci t _ (pres_setLeaf hc hL hid hkeys2) ?_ (fun k hk => Or.inl hk)
    intro k' h; exact h.elim
  · intro tt
    refine scinv_transfer ?_ (hP_setLeaf hc hL hid hlo (Nat.le_of_eq hvi.symm) (Nat.le_of_eq hvs.symm)
      (fun hd => Or.inl ⟨by rw [← hdi]; exact hd, hks⟩)) (hsc tt)
    intro a b f keys nodes h
    exact sinv_setLeaf hc hwr hL hid hlo (Nat.le_of_eq hvi.symm) (Nat.le_of_eq hvs.symm) t _
      (fun y hy => Or.inl (by rw [← hks]; exact hy)) hkeys2
      (fun k i e => by rw [hw] at e; cases e) (fun k i j e => by rw [hw] at e; cases e) h

theorem inv_wInsert {s : State} (hi : Inv s) (t k : Nat) (L L' : Leaf) (hw : s.w t = .held k L.id)
    (hL : L ∈ s.chain)
    (hid : L'.id = L.id) (hlo : L'.lo = L.lo) (hks : L'.keys = insertSorted k L.keys)
    (hvi : L'.vins = L.vins) (hvs : L'.vsplit = L.vsplit) (hlk : L'.locked = L.locked)
    (hdi : L'.dirty = true) :
    Inv ⟨setLeaf s.chain L', s.nextId, upd s.w t (.published k L.id), s.sc, s.completed⟩ := by
  obtain ⟨hc, hwr, hci, hsc⟩ := hi
  have hholds : (s.w t).Holds L.id := by rw [hw]; exact rfl
  obtain ⟨M, hM, hMid, hown, hk⟩ := hwr.held t k L.id hw
  have : M = L := hc.eq_of_id hM hL hMid
  subst this
  have hlocked : M.locked = true := by
    obtain ⟨M2, hM2, hid2, hlk2⟩ := hwr.locked t M.id hholds
    have : M2 = M := hc.eq_of_id hM2 hM hid2
    subst this; exact hlk2
  have hL' : L' ∈ setLeaf s.chain L' := (mem_setLeaf hM hid).mpr (Or.inl rfl)
  have hnp := not_present_of_owner hc hM hown hk
  have hkeys2 : ∀ y ∈ M.keys, y ∈ L'.keys := by
    intro y hy
    rw [hks]
    by_cases e : y = k
    · exact mem_insertSorted.mpr (Or.inl e)
    · exact mem_insertSorted.mpr (Or.inr ⟨hy, e⟩)
  have hkL' : k ∈ L'.keys := by rw [hks]; exact mem_insertSorted.mpr (Or.inl rfl)
  refine ⟨?_, ?_, ?_, ?_⟩
  · refine chainInv_setLeaf hc hM hid hlo ?_ (by rw [hks]; exact pairwise_insertSorted (hc.ksorted M hM))
    intro y hy
    rw [hks] at hy
    rcases mem_insertSorted.mp hy with rfl | ⟨hy', _⟩
    · exact hown
    · exact hc.keysIn M hM y hy'
  · refine winv_frame hwr t _ M.id (keep_setLeaf hM hid hlo) (hoth_of_holds hwr hholds)
      ?_ ?_ ?_ ?_ ?_
    · intro t' i ht hx h'
      have hx' : i = M.id := hx
      subst hx'
      exact ht (hwr.mutex t' t _ h' hholds)
    · intro i hx
      exact ⟨L', hL', by rw [hid]; exact hx.symm, by rw [hlk]; exact hlocked⟩
    · intro k' i' e; cases e
    · intro k' i' e
      cases e
      exact ⟨L', hL', hid, hdi⟩
    · intro k' i' j' e; cases e
  · refine cinv_step hci t _ (pres_setLeaf hc hM hid hkeys2) ?_ (fun k hk => Or.inl hk)
    intro k' h
    have : k = k' := h
    subst this
    exact ⟨⟨L', hL', hkL'⟩, Or.inr hnp⟩
  · intro tt
    refine scinv_transfer ?_ (hP_setLeaf hc hM hid hlo (Nat.le_of_eq hvi.symm) (Nat.le_of_eq hvs.symm)
      (fun hd => by rw [hdi] at hd; cases hd)) (hsc tt)
    intro a b f keys nodes h
    refine sinv_setLeaf hc hwr hM hid hlo (Nat.le_of_eq hvi.symm) (Nat.le_of_eq hvs.symm) t _ ?_ hkeys2
      (fun k i e => by rw [hw] at e; cases e) (fun k i j e => by rw [hw] at e; cases e) h
    intro y hy
    rw [hks] at hy
    rcases mem_insertSorted.mp hy with rfl | ⟨hy', _⟩
    · exact Or.inr ⟨hown, rfl, hholds, fun k i j e => by rw [hw] at e; cases e⟩
    · exact Or.inl hy'

/-- the three unlock steps: leaf `L` held by `t` gets `vins + 1` (and maybe `vsplit + 1`) -/
theorem inv_unlock {s : State} (hi : Inv s) (t : Nat) (L L' : Leaf) (hL : L ∈ s.chain)
    (hholds : (s.w t).Holds L.id) (x : WPc) (comp' : List Nat)
    (hid : L'.id = L.id) (hlo : L'.lo = L.lo) (hks : L'.keys = L.keys)
    (hvi : L'.vins = L.vins + 1) (hvs : L.vsplit ≤ L'.vsplit)
    (hxh : ∀ i, x.Holds i → (s.w t).Holds i ∧ i ≠ L.id)
    (hxne : (∀ k i, x ≠ .held k i) ∧ (∀ k i, x ≠ .published k i) ∧ (∀ k i j, x ≠ .splitDone k i j))
    (hxf : ∀ k, x.inFlight k → (s.w t).inFlight k)
    (hcomp : ∀ k ∈ comp', k ∈ s.completed ∨ ((s.w t).inFlight k ∧ ∀ k', ¬ x.inFlight k'))
    (hwit1 : ∀ k i, s.w t = .published k i → i = L.id)
    (hwit2 : ∀ k i j, s.w t = .splitDone k i j → i = L.id) :
    Inv ⟨setLeaf s.chain L', s.nextId, upd s.w t x, s.sc, comp'⟩ := by
  obtain ⟨hc, hwr, hci, hsc⟩ := hi
  have hkeys2 : ∀ y ∈ L.keys, y ∈ L'.keys := fun y hy => by rw [hks]; exact hy
  have hlt : L.vins < L'.vins := by omega
  refine ⟨?_, ?_, ?_, ?_⟩
  · exact chainInv_setLeaf hc hL hid hlo (fun y hy => hc.keysIn L hL y (by rw [← hks]; exact hy))
      (by rw [hks]; exact hc.ksorted L hL)
  · refine winv_frame hwr t _ L.id (keep_setLeaf hL hid hlo) (hoth_of_holds hwr hholds)
      ?_ ?_ ?_ ?_ ?_
    · intro t' i ht hx h'
      exact ht (hwr.mutex t' t i h' (hxh i hx).1)
    · intro i hx
      obtain ⟨h1, h2⟩ := hxh i hx
      obtain ⟨M, hM, hMid, hl⟩ := hwr.locked t i h1
      exact ⟨M, (mem_setLeaf hL hid).mpr (Or.inr ⟨hM, by rw [hMid]; exact h2⟩), hMid, hl⟩
    · intro k' i' e; exact absurd e (hxne.1 k' i')
    · intro k' i' e; exact absurd e (hxne.2.1 k' i')
    · intro k' i' j' e; exact absurd e (hxne.2.2 k' i' j')
  · refine cinv_step hci t _ (pres_setLeaf hc hL hid hkeys2) ?_ hcomp
    intro k' h
    have h' := hxf k' h
    exact ⟨pres_setLeaf hc hL hid hkeys2 k' (hci.flightPresent t k' h'), Or.inl h'⟩
  · intro tt
    refine scinv_transfer ?_ (hP_setLeaf hc hL hid hlo (Nat.le_of_lt hlt) hvs
      (fun _ => Or.inr hlt)) (hsc tt)
    intro a b f keys nodes h
    exact sinv_setLeaf hc hwr hL hid hlo (Nat.le_of_lt hlt) hvs t _
      (fun y hy => Or.inl (by rw [← hks]; exact hy)) hkeys2
      (fun k i e => ⟨hwit1 k i e, hlt⟩)
      (fun k i j e => ⟨hwit2 k i j e, hlt⟩) h

theorem inv_wSplit {s : State} (hi : Inv s) (t k : Nat) (L L' R : Leaf)
    (hw : s.w t = .held k L.id) (hL : L ∈ s.chain) (sp : SplitOf s.chain s.nextId L L' R k) :
    Inv ⟨insAfter (setLeaf s.chain L') L.id R, s.nextId + 1,
         upd s.w t (.splitDone k L.id s.nextId), s.sc, s.completed⟩ := by
  obtain ⟨hc, hwr, hci, hsc⟩ := hi
  have hholds : (s.w t).Holds L.id := by rw [hw]; exact rfl
  obtain ⟨M, hM, hMid, hown, hk⟩ := hwr.held t k L.id hw
  have : M = L := hc.eq_of_id hM hL hMid
  subst this
  have hlocked : M.locked = true := by
    obtain ⟨M2, hM2, hid2, hlk⟩ := hwr.locked t M.id hholds
    have : M2 = M := hc.eq_of_id hM2 hM hid2
    subst this; exact hlk
  have hnp := not_present_of_owner hc hM hown hk
  have hfresh : ∀ X ∈ s.chain, X.id ≠ s.nextId := fun X hX e => by
    have := hc.idlt X hX; omega
  have hL'mem : L' ∈ insAfter (setLeaf s.chain L') M.id R := (mem_split sp).mpr (Or.inr (Or.inl rfl))
  have hRmem : R ∈ insAfter (setLeaf s.chain L') M.id R := (mem_split sp).mpr (Or.inl rfl)
  refine ⟨?_, ?_, ?_, ?_⟩
  · exact chainInv_split hc sp hown
  · refine winv_frame hwr t _ M.id ?_ (hoth_of_holds hwr hholds) ?_ ?_ ?_ ?_ ?_
    · intro X hX hne
      exact ⟨(mem_split sp).mpr (Or.inr (Or.inr ⟨hX, hne⟩)), fun y ho => ho.split_other hc sp hX hne⟩
    · intro t' i ht hx h'
      rcases hx with rfl | rfl
      · exact ht (hwr.mutex t' t _ h' hholds)
      · obtain ⟨X, hX, hXid, _⟩ := hwr.locked t' _ h'
        exact hfresh X hX hXid
    · intro i hx
      rcases hx with rfl | rfl
      · exact ⟨L', hL'mem, sp.id', by rw [sp.locked']; exact hlocked⟩
      · exact ⟨R, hRmem, sp.rid, sp.rlocked⟩
    · intro k' i' e; cases e
    · intro k' i' e; cases e
    · intro k' i' j' e
      cases e
      exact ⟨hfresh M hM, L', hL'mem, sp.id', sp.dirty'⟩
  · refine cinv_step hci t _ (fun y hy => present_split hc sp y (Or.inl hy)) ?_ (fun k hk => Or.inl hk)
    intro k' h
    have : k = k' := h
    subst this
    exact ⟨present_split hc sp k (Or.inr rfl), Or.inr hnp⟩
  · intro tt
    refine scinv_transfer (fun a b f keys nodes h => sinv_split hc hwr sp hown t hw h) ?_ (hsc tt)
    intro Lc hLc
    by_cases hid : Lc.id = M.id
    · have : Lc = M := hc.eq_of_id hLc hM hid
      subst this
      refine ⟨L', hL'mem, sp.id', sp.lo', fun a b ph hp => ?_⟩
      exact ph_setLeaf (Nat.le_of_eq sp.vins'.symm) (Nat.le_of_eq sp.vsplit'.symm)
        (fun hd => by rw [sp.dirty'] at hd; cases hd) hp
    · exact ⟨Lc, (mem_split sp).mpr (Or.inr (Or.inr ⟨hLc, hid⟩)), rfl, rfl, fun _ _ _ hp => hp⟩

/-! ## all steps -/

theorem inv_step {c : Cfg} {s s' : State} (hi : Inv s) (hs : Step c s s') : Inv s' := by
  cases hs with
  | wLock t k L hw hL hul hown hk =>
    exact inv_wLock hi t k L _ hw hL hul hown hk rfl rfl rfl rfl rfl rfl rfl
  | wInsert t k L hw hL =>
    exact inv_wInsert hi t k L _ hw hL rfl rfl rfl rfl rfl rfl rfl
  | wUnlock t k L hw hL =>
    refine inv_unlock hi t L _ hL (by rw [hw]; exact rfl) .idle _ rfl rfl rfl rfl (Nat.le_refl _)
      (fun i h => h.elim) ⟨fun _ _ e => (by cases e), fun _ _ e => (by cases e), fun _ _ _ e => (by cases e)⟩
      (fun k' h => h.elim) ?_ (fun k' i e => by rw [hw] at e; cases e; rfl)
      (fun k' i j e => by rw [hw] at e; cases e)
    intro k' hk'
    rcases List.mem_cons.mp hk' with rfl | h
    · exact Or.inr ⟨by rw [hw]; exact rfl, fun _ h => h.elim⟩
    · exact Or.inl h
  | wSplit t k L h p up hw hL hh hdrop =>
    exact inv_wSplit hi t k L _ _ hw hL (splitOf_step hi.chain hL hh hdrop)
  | wUnlockL t k j L hw hL =>
    have hne : L.id ≠ j := (hi.wr.splDirty t k L.id j hw).1
    refine inv_unlock hi t L _ hL (by rw [hw]; exact Or.inl rfl) (.splitHalf k j) _ rfl rfl rfl rfl
      (Nat.le_succ _) ?_ ⟨fun _ _ e => (by cases e), fun _ _ e => (by cases e), fun _ _ _ e => (by cases e)⟩
      (fun k' h => by rw [hw]; exact h) (fun k' hk' => Or.inl hk')
      (fun k' i e => by rw [hw] at e; cases e)
      (fun k' i j' e => by rw [hw] at e; cases e; rfl)
    intro i h
    have : i = j := h
    subst this
    exact ⟨by rw [hw]; exact Or.inr rfl, fun e => hne e.symm⟩
  | wUnlockR t k L hw hL =>
    refine inv_unlock hi t L _ hL (by rw [hw]; exact rfl) .idle _ rfl rfl rfl rfl (Nat.le_succ _)
      (fun i h => h.elim) ⟨fun _ _ e => (by cases e), fun _ _ e => (by cases e), fun _ _ _ e => (by cases e)⟩
      (fun k' h => h.elim) ?_ (fun k' i e => by rw [hw] at e; cases e)
      (fun k' i j e => by rw [hw] at e; cases e)
    intro k' hk'
    rcases List.mem_cons.mp hk' with rfl | h
    · exact Or.inr ⟨by rw [hw]; exact rfl, fun _ h => h.elim⟩
    · exact Or.inl h
  | sStart t a b h =>
    exact ⟨hi.chain, hi.wr, hi.comp, scan_upd hi.scan t _ trivial⟩
  | sEnter t a b L h hL hown =>
    exact ⟨hi.chain, hi.wr, hi.comp, scan_upd hi.scan t _ ⟨L, hL, rfl, sinv_enter hL hown, trivial⟩⟩
  | sLoadVer t a b ks ns L h hL hst =>
    refine ⟨hi.chain, hi.wr, hi.comp, scan_upd hi.scan t _ ?_⟩
    have := hi.scan t
    rw [h] at this
    obtain ⟨Lc, hLc, hid, hsi, _⟩ := this
    have : Lc = L := hi.chain.eq_of_id hLc hL hid
    subst this
    exact ⟨Lc, hLc, rfl, hsi, Nat.le_refl _, Nat.le_refl _⟩
  | sSnapshot t a b ks ns vi vs L h hL =>
    refine ⟨hi.chain, hi.wr, hi.comp, scan_upd hi.scan t _ ?_⟩
    have := hi.scan t
    rw [h] at this
    obtain ⟨Lc, hLc, hid, hsi, hp⟩ := this
    have : Lc = L := hi.chain.eq_of_id hLc hL hid
    subst this
    exact ⟨Lc, hLc, rfl, hsi, hp.1, hp.2, fun _ _ _ => rfl⟩
  | sRestart t a b ks ns vi vs snap L h hL hst hne =>
    exact ⟨hi.chain, hi.wr, hi.comp, scan_upd hi.scan t _ trivial⟩
  | sRedo t a b ks ns vi vs snap L h hL hst hs hne =>
    refine ⟨hi.chain, hi.wr, hi.comp, scan_upd hi.scan t _ ?_⟩
    have := hi.scan t
    rw [h] at this
    obtain ⟨Lc, hLc, hid, hsi, _⟩ := this
    have : Lc = L := hi.chain.eq_of_id hLc hL hid
    subst this
    exact ⟨Lc, hLc, rfl, hsi, Nat.le_refl _, Nat.le_refl _⟩
  | sFinish t a b ks ns vi vs snap L h hL hst hs hv hnext =>
    refine ⟨hi.chain, hi.wr, hi.comp, scan_upd hi.scan t _ ?_⟩
    have := hi.scan t
    rw [h] at this
    obtain ⟨Lc, hLc, hid, hsi, hp⟩ := this
    have : Lc = L := hi.chain.eq_of_id hLc hL hid
    subst this
    refine sinv_validate hi.chain hLc hsi hp hst.2 hv hs ?_
    intro M hM hlt
    obtain ⟨n1, n2⟩ := nextOf_spec hi.chain.sorted hi.chain.ids hLc
    cases hn : nextOf s.chain Lc.id with
    | none => have := n1 hn M hM; omega
    | some n =>
      have := (n2 n hn).2.2 M hM hlt
      have := hnext n hn
      omega
  | sAdvance t a b ks ns vi vs snap L n h hL hst hs hv hnext hle =>
    refine ⟨hi.chain, hi.wr, hi.comp, scan_upd hi.scan t _ ?_⟩
    have := hi.scan t
    rw [h] at this
    obtain ⟨Lc, hLc, hid, hsi, hp⟩ := this
    have : Lc = L := hi.chain.eq_of_id hLc hL hid
    subst this
    obtain ⟨_, n2⟩ := nextOf_spec hi.chain.sorted hi.chain.ids hLc
    obtain ⟨hn, _, hmin⟩ := n2 n hnext
    exact ⟨n, hn, rfl, sinv_validate hi.chain hLc hsi hp hst.2 hv hs hmin, trivial⟩

theorem inv_reach {c : Cfg} {s : State} (h : Reach c s) : Inv s := by
  induction h with
  | init => exact inv_init
  | step _ hs ih => exact inv_step ih (step?_sound hs)

theorem inv_reachFrom {c : Cfg} {s s' : State} (hi : Inv s) (h : ReachFrom c s s') : Inv s' := by
  induction h with
  | refl => exact hi
  | step _ hs ih => exact inv_step ih (step?_sound hs)

theorem Reach.trans {c : Cfg} {s s' : State} (h1 : Reach c s) (h2 : ReachFrom c s s') : Reach c s' := by
  induction h2 with
  | refl => exact h1
  | step _ hs ih => exact Reach.step ih hs

/-! ## counters only grow -/

theorem grow_refl (ch : List Leaf) : Grow ch ch :=
  fun M hM => ⟨M, hM, rfl, rfl, Nat.le_refl _, Nat.le_refl _⟩

theorem grow_trans {a b c : List Leaf} (h1 : Grow a b) (h2 : Grow b c) : Grow a c := by
  intro M hM
  obtain ⟨M1, hM1, e1, e2, e3, e4⟩ := h1 M hM
  obtain ⟨M2, hM2, f1, f2, f3, f4⟩ := h2 M1 hM1
  exact ⟨M2, hM2, by rw [f1, e1], by rw [f2, e2], by omega, by omega⟩

theorem grow_step {c : Cfg} {s s' : State} (hi : Inv s) (hs : Step c s s') : Grow s.chain s'.chain := by
  have hc := hi.chain
  cases hs with
  | wLock t k L hw hL hul hown hk => exact grow_setLeaf hc hL rfl rfl (Nat.le_refl _) (Nat.le_refl _)
  | wInsert t k L hw hL => exact grow_setLeaf hc hL rfl rfl (Nat.le_refl _) (Nat.le_refl _)
  | wUnlock t k L hw hL => exact grow_setLeaf hc hL rfl rfl (Nat.le_succ _) (Nat.le_refl _)
  | wSplit t k L h p up hw hL hh hdrop => exact grow_split hc (splitOf_step hc hL hh hdrop)
  | wUnlockL t k j L hw hL => exact grow_setLeaf hc hL rfl rfl (Nat.le_succ _) (Nat.le_succ _)
  | wUnlockR t k L hw hL => exact grow_setLeaf hc hL rfl rfl (Nat.le_succ _) (Nat.le_succ _)
  | sStart => exact grow_refl _
  | sEnter => exact grow_refl _
  | sLoadVer => exact grow_refl _
  | sSnapshot => exact grow_refl _
  | sRestart => exact grow_refl _
  | sRedo => exact grow_refl _
  | sFinish => exact grow_refl _
  | sAdvance => exact grow_refl _

theorem grow_reachFrom {c : Cfg} {s s' : State} (hi : Inv s) (h : ReachFrom c s s') :
    Grow s.chain s'.chain := by
  induction h with
  | refl => exact grow_refl _
  | step h1 hs ih => exact grow_trans ih (grow_step (inv_reachFrom hi h1) (step?_sound hs))

/-! ## the C06 theorems -/

theorem stale_iff (s : State) (nodes : List NodeRec) : Stale s nodes ↔ StaleC s.chain nodes := by
  unfold Stale StaleC
  constructor
  · rintro ⟨r, hr, L, hL, hid, hne⟩
    refine ⟨r, hr, L, hL, hid, ?_⟩
    by_cases h1 : L.vins = r.2.1
    · by_cases h2 : L.vsplit = r.2.2
      · exact absurd (by rw [h1, h2]) hne
      · exact Or.inr h2
    · exact Or.inl h1
  · rintro ⟨r, hr, L, hL, hid, hne⟩
    refine ⟨r, hr, L, hL, hid, ?_⟩
    intro e
    have e1 : L.vins = r.2.1 := congrArg Prod.fst e
    have e2 : L.vsplit = r.2.2 := congrArg Prod.snd e
    rcases hne with h | h
    · exact h e1
    · exact h e2

/-- general form: a stored key of the interval that no writer is still publishing is in the
    result of a finished scan, or a collected pair is stale. -/
theorem scan_present_seen_or_stale {c : Cfg} {s : State} (h : Reach c s) {t a b : Nat}
    {keys : List Nat} {nodes : List NodeRec} (hfin : s.sc t = .fin a b keys nodes) {k : Nat}
    (hp : Present s k) (hnf : ∀ t', ¬ (s.w t').inFlight k) (ha : a ≤ k) (hb : k ≤ b) :
    k ∈ keys ∨ Stale s nodes := by
  have hi := inv_reach h
  have hs := hi.scan t
  rw [hfin] at hs
  obtain ⟨L, hL, hk⟩ := hp
  rcases hs.seen L hL k hk ha hb (by omega) with h1 | h1 | ⟨t0, i, _, h2⟩
  · exact Or.inl h1
  · exact Or.inr ((stale_iff s nodes).mpr h1)
  · exfalso
    rcases h2 with h2 | ⟨j, h2⟩
    · exact hnf t0 (by rw [h2]; exact rfl)
    · exact hnf t0 (by rw [h2]; exact rfl)

theorem scan_insert_seen_or_stale {c : Cfg} {s : State} (h : Reach c s) {t a b : Nat}
    {keys : List Nat} {nodes : List NodeRec} (hfin : s.sc t = .fin a b keys nodes) {k : Nat}
    (hk : k ∈ s.completed) (ha : a ≤ k) (hb : k ≤ b) : k ∈ keys ∨ Stale s nodes := by
  have hi := inv_reach h
  exact scan_present_seen_or_stale h hfin (hi.comp.present k hk)
    (fun t' hf => hi.comp.flightNot t' k hf hk) ha hb

theorem counters_monotone {c : Cfg} {s s' : State} (h : Reach c s) (h' : ReachFrom c s s') :
    ∀ L ∈ s.chain, ∃ L' ∈ s'.chain,
      L'.id = L.id ∧ L'.lo = L.lo ∧ L.vins ≤ L'.vins ∧ L.vsplit ≤ L'.vsplit :=
  grow_reachFrom (inv_reach h) h'

/-- a finished scan stays finished with the same result -/
theorem fin_persistent {c : Cfg} {s s' : State} (h' : ReachFrom c s s') {t a b : Nat}
    {keys : List Nat} {nodes : List NodeRec} (hfin : s.sc t = .fin a b keys nodes) :
    s'.sc t = .fin a b keys nodes := by
  induction h' with
  | refl => exact hfin
  | step _ hs ih =>
    have hst := step?_sound hs
    have key : ∀ (sc : Nat → SPc) (t0 : Nat) (pc : SPc), sc t = .fin a b keys nodes →
        (∀ a' b' k' n', sc t0 ≠ .fin a' b' k' n') → upd sc t0 pc t = .fin a b keys nodes := by
      intro sc t0 pc h1 h2
      by_cases e : t = t0
      · subst e; exact absurd h1 (h2 _ _ _ _)
      · rw [upd_other _ _ _ _ e]; exact h1
    cases hst with
    | wLock => exact ih
    | wInsert => exact ih
    | wUnlock => exact ih
    | wSplit => exact ih
    | wUnlockL => exact ih
    | wUnlockR => exact ih
    | sStart t0 a0 b0 h0 => exact key _ _ _ ih (fun _ _ _ _ e => by rw [h0] at e; cases e)
    | sEnter t0 a0 b0 L h0 => exact key _ _ _ ih (fun _ _ _ _ e => by rw [h0] at e; cases e)
    | sLoadVer t0 a0 b0 ks ns L h0 => exact key _ _ _ ih (fun _ _ _ _ e => by rw [h0] at e; cases e)
    | sSnapshot t0 a0 b0 ks ns vi vs L h0 =>
      exact key _ _ _ ih (fun _ _ _ _ e => by rw [h0] at e; cases e)
    | sRestart t0 a0 b0 ks ns vi vs snap L h0 =>
      exact key _ _ _ ih (fun _ _ _ _ e => by rw [h0] at e; cases e)
    | sRedo t0 a0 b0 ks ns vi vs snap L h0 =>
      exact key _ _ _ ih (fun _ _ _ _ e => by rw [h0] at e; cases e)
    | sFinish t0 a0 b0 ks ns vi vs snap L h0 =>
      exact key _ _ _ ih (fun _ _ _ _ e => by rw [h0] at e; cases e)
    | sAdvance t0 a0 b0 ks ns vi vs snap L n h0 =>
      exact key _ _ _ ih (fun _ _ _ _ e => by rw [h0] at e; cases e)

/-- "now" and "ever after" coincide: a stale pair stays stale. -/
theorem stale_forever {c : Cfg} {s s' : State} (h : Reach c s) (h' : ReachFrom c s s') {t a b : Nat}
    {keys : List Nat} {nodes : List NodeRec} (hfin : s.sc t = .fin a b keys nodes)
    (hst : Stale s nodes) : Stale s' nodes := by
  have hi := inv_reach h
  have hs := hi.scan t
  rw [hfin] at hs
  exact (stale_iff s' nodes).mpr
    (stale_mono hi.chain hs.recs (grow_reachFrom hi h') ((stale_iff s nodes).mp hst))

/-- every collected pair names a leaf of the chain and was a version of it: the counters of that
    leaf are at least the collected ones. -/
theorem records_sound {c : Cfg} {s : State} (h : Reach c s) {t a b : Nat}
    {keys : List Nat} {nodes : List NodeRec} (hfin : s.sc t = .fin a b keys nodes) :
    ∀ r ∈ nodes, ∃ L ∈ s.chain, L.id = r.1 ∧ r.2.1 ≤ L.vins ∧ r.2.2 ≤ L.vsplit := by
  have hs := (inv_reach h).scan t
  rw [hfin] at hs
  exact hs.recs

theorem validated_scan_is_exact {c : Cfg} {s : State} (h : Reach c s) {t a b : Nat}
    {keys : List Nat} {nodes : List NodeRec} (hfin : s.sc t = .fin a b keys nodes)
    (hns : ¬ Stale s nodes)
    (hclean : ∀ r ∈ nodes, ∀ L ∈ s.chain, L.id = r.1 → L.dirty = false) :
    ∀ k, k ∈ keys ↔ (a ≤ k ∧ k ≤ b ∧ Present s k) := by
  have hi := inv_reach h
  have hs := hi.scan t
  rw [hfin] at hs
  intro k
  constructor
  · exact hs.sub k
  · rintro ⟨ha, hb, L, hL, hk⟩
    have hdirty : ∀ i, RecIn nodes i → ∀ M ∈ s.chain, M.id = i → M.dirty = true → False := by
      rintro i ⟨r, hr, e⟩ M hM hid hd
      have := hclean r hr M hM (by rw [hid, e])
      rw [this] at hd; cases hd
    rcases hs.seen L hL k hk ha hb (by omega) with h1 | h1 | ⟨t0, i, hrec, h2⟩
    · exact h1
    · exact absurd ((stale_iff s nodes).mpr h1) hns
    · exfalso
      rcases h2 with h2 | ⟨j, h2⟩
      · obtain ⟨M, hM, hid, hd⟩ := hi.wr.pubDirty t0 k i h2
        exact hdirty i hrec M hM hid hd
      · obtain ⟨_, M, hM, hid, hd⟩ := hi.wr.splDirty t0 k i j h2
        exact hdirty i hrec M hM hid hd

/-- trace acceptor and reachability agree -/
theorem reach_exec {c : Cfg} {s s' : State} (h : Reach c s) (es : List Event)
    (he : exec c s es = some s') : Reach c s' := by
  induction es generalizing s with
  | nil => simp [exec] at he; subst he; exact h
  | cons e es ih =>
    simp only [exec] at he
    cases hs : step? c s e with
    | none => rw [hs] at he; simp at he
    | some s1 =>
      rw [hs] at he
      exact ih (Reach.step h hs) he

end Yak.Proto.NodeSet
