import YakModel.Proofs.RemoveLemmas
/-!
# `handleEmpty`: restores the invariant and does not change what any lookup sees
-/
namespace Yak.Tree
open Yak

/-- `t2` is well formed and answers every descent like `t1`. -/
structure HE (t1 t2 : Tree) : Prop where
  nodup : (t2.map (·.pfx)).Nodup
  core : FCore (lay t2)
  empt : FEmpt (lay t2)
  walk : ∀ q r, walkM (lookF (lay t2)) q r = walkM (lookF (lay t1)) q r

theorem walk_same_ents {F : List UInt8 → Option (List Leaf)} {p : List UInt8} {ls ls' : List Leaf}
    (h : F p = some ls) (hc : LayerCore ls) (hc' : LayerCore ls')
    (hsame : ∀ x, x ∈ layerEnts ls' ↔ x ∈ layerEnts ls) (q : List UInt8) (r : Key) :
    walkM (lookF (upd F p (some ls'))) q r = walkM (lookF F) q r := by
  apply walkM_congr
  intro x k _ hk
  by_cases e : x = p
  · subst e
    exact lookF_congr_ents h (upd_same _ _ _) hc hc' hk (fun y _ => hsame y)
  · exact lookF_congr_lay (upd_other _ _ _ e) k

theorem walk_drop_dead_link {M1 M2 : List UInt8 → KT → Option Ent} {up : List UInt8} {K : KT}
    (hK : K.len = 9)
    (hsame : ∀ x k, k.WF → (x ≠ up ∨ k ≠ K) → M2 x k = M1 x k) (hdead : M2 up K = none)
    (hbelow : ∀ k, k.WF → M1 (up ++ K.slice) k = none) :
    ∀ (r : Key) (q : List UInt8), walkM M2 q r = walkM M1 q r := by
  intro r
  induction hn : r.length using Nat.strongRecOn generalizing r with
  | _ n ih =>
    intro q
    by_cases hpt : q = up ∧ KT.ofKey r = K
    · obtain ⟨rfl, hk⟩ := hpt
      rw [walkM_none (by rw [hk]; exact hdead)]
      cases hm : M1 q (KT.ofKey r) with
      | none => rw [walkM_none hm]
      | some e =>
        have hl : r.length > 8 := by
          by_cases hl : r.length > 8
          · exact hl
          · have := ofKey_len_ne9 hl; rw [hk] at this; exact absurd hK this
        rw [walkM_long hm hl, walkM_none]
        have : r.take 8 = K.slice := by rw [← hk, ofKey_slice_long hl]
        rw [this]
        exact hbelow _ (KT.ofKey_wf _)
    · have hs := hsame q (KT.ofKey r) (KT.ofKey_wf r) (by
        by_cases e : q = up
        · right; intro hk; exact hpt ⟨e, hk⟩
        · left; exact e)
      cases hm : M1 q (KT.ofKey r) with
      | none => rw [walkM_none hm, walkM_none (hs ▸ hm)]
      | some e =>
        by_cases hl : r.length > 8
        · rw [walkM_long hm hl, walkM_long (hs ▸ hm) hl]
          exact ih (r.drop 8).length (by simp only [List.length_drop]; omega) (r.drop 8) rfl _
        · rw [walkM_short hm hl, walkM_short (hs ▸ hm) hl]

theorem HE.trans {t1 t2 t3 : Tree} (h12 : ∀ q r, walkM (lookF (lay t2)) q r = walkM (lookF (lay t1)) q r)
    (h : HE t2 t3) : HE t1 t3 :=
  ⟨h.nodup, h.core, h.empt, fun q r => (h.walk q r).trans (h12 q r)⟩

theorem lookF_empty_layer {F : List UInt8 → Option (List Leaf)} {p : List UInt8} {ls : List Leaf}
    (h : F p = some ls) (hc : LayerCore ls) (he : layerEnts ls = []) {k : KT} (hk : k.WF) :
    lookF F p k = none := by
  rw [lookF_none_iff h hc hk, he]; intro e he; cases he

theorem handleEmpty_spec : ∀ (n : Nat) (t : Tree) (p : List UInt8) (i : Nat) (pre : List Leaf) (l : Leaf)
    (post : List Leaf), (t.map (·.pfx)).Nodup → FCore (lay t) → FEmpt (upd (lay t) p none) →
    lay t p = some (pre ++ l :: post) → pre.length = i → l.ents = [] → AllFull (pre ++ post) →
    p.length / 8 + 1 ≤ n → ∀ (dirs : List Bool) (used : Nat), HE t (handleEmpty t p i dirs used n).1 := by
  intro n
  induction n with
  | zero => intro t p i pre l post _ _ _ _ _ _ _ hn; omega
  | succ n ih =>
    intro t p i pre l post hnd hF hE hlay hi hl hfull hn dirs used
    have hL := findLayer_of_lay hlay
    have hc : LayerCore (pre ++ l :: post) := hF.core _ _ hlay
    have hents0 : layerEnts (pre ++ l :: post) = layerEnts (pre ++ post) := by
      rw [layerEnts_split, hl]; simp [layerEnts, List.flatMap_append]
    rw [handleEmpty, hL]
    dsimp only
    by_cases hlen : (pre ++ l :: post).length ≤ 1
    · rw [if_pos hlen]
      simp only [List.length_append, List.length_cons] at hlen
      have h1 : pre = [] := List.eq_nil_of_length_eq_zero (by omega)
      have h2 : post = [] := List.eq_nil_of_length_eq_zero (by omega)
      subst h1 h2
      simp only [List.nil_append] at *
      have hle : layerEnts [l] = [] := by simp [layerEnts, hl]
      by_cases hp : p.isEmpty = true
      · -- the root of layer [] stays, flagged deleted
        rw [if_pos hp]
        have hp0 : p = [] := by simpa using hp
        have hg : [l].getD 0 emptyLeaf = l := rfl
        rw [hg]
        generalize hl' : ({ l with deleted := true } : Leaf) = l'
        have hl'e : l'.ents = [] := by rw [← hl']; exact hl
        have hc' : LayerCore [l'] := by
          have := hc.replace (pre := []) (post := []) (leaf' := l') (by rw [← hl'])
            (by rw [← hl']; exact hc.leafOK (pre := []) (post := [])) (by simp)
          simpa using this
        have hle' : layerEnts [l'] = [] := by simp [layerEnts, hl'e]
        have hview : lay (setLayer t { pfx := p, leaves := [l'] }) = upd (lay t) p (some [l']) :=
          lay_setLayer _ _
        refine ⟨?_, ?_, ?_, ?_⟩
        · rw [pfx_setLayer_of_mem (by simp only; rw [hL]; rfl)]; exact hnd
        · rw [hview]
          refine hF.update hlay hc' ?_ ?_
          · intro e he; rw [hle'] at he; cases he
          · intro e he; rw [hle] at he; cases he
        · rw [hview]
          intro q x hq
          unfold upd at hq
          by_cases e : q = p
          · rw [if_pos e] at hq
            rw [← Option.some.inj hq, e]
            intro y hy
            rw [List.mem_singleton] at hy; subst hy
            exact ⟨fun _ => ⟨hp, rfl⟩, fun _ => hl'e⟩
          · rw [if_neg e] at hq
            exact hE q x (by rw [upd_other _ _ _ e]; exact hq)
        · intro q r
          rw [hview]
          exact walk_same_ents hlay hc hc' (by rw [hle, hle']; simp) q r
      · -- the layer disappears together with its link
        rw [if_neg hp]
        have hp0 : p ≠ [] := by intro e; apply hp; rw [e]; rfl
        have hp8 := hF.plen _ _ hlay
        obtain ⟨hsplit, hl8, hlenp⟩ := parent_split p hp8 hp0
        obtain ⟨us, hus, eK, heK, heKk⟩ := hF.up _ _ hlay hp0
        generalize hup : p.take (p.length - 8) = up at *
        generalize hsl : p.drop (p.length - 8) = sl at *
        have hupne : up ≠ p := by
          intro e; have := congrArg List.length e; omega
        have hU : findLayer (eraseLayer t p) up = some ⟨up, us⟩ := by
          rw [findLayer_eraseLayer, if_neg hupne]; exact findLayer_of_lay hus
        rw [hU]
        dsimp only
        have hcu : LayerCore us := hF.core _ _ hus
        have hKw : (⟨sl, 9⟩ : KT).WF := by rw [← heKk]; exact (layerEnts_wf hcu heK).1
        obtain ⟨pre', lf, post', hr⟩ := route_decomp hcu hKw
        rw [hr.getD, hr.set]
        have heq := hr.eq
        have hin : eK ∈ lf.ents := hr.only hcu eK heK heKk
        obtain ⟨a, b, h3⟩ := List.append_of_mem hin
        have hlfok : LeafOK lf := by rw [heq] at hcu; exact hcu.leafOK
        have hfil : lf.ents.filter (fun e => !(e.kt == (⟨sl, 9⟩ : KT))) = a ++ b := by
          rw [← heKk, h3]
          exact filter_erase (h3 ▸ hlfok.2.2.1)
        rw [hfil]
        generalize hlf' : ({ lf with ents := a ++ b } : Leaf) = lf'
        have hlf'e : lf'.ents = a ++ b := by rw [← hlf']
        have hlf'f : lf'.fence = lf.fence := by rw [← hlf']
        have hlf'd : lf'.deleted = lf.deleted := by rw [← hlf']
        have hcu0 : LayerCore (pre' ++ lf :: post') := heq ▸ hcu
        obtain ⟨hcu', hmem⟩ := erase_layer hcu0 h3 hlf'f hlf'e
        rw [heKk, ← heq] at hmem
        -- the tree after the cascade step
        generalize ht2 : setLayer (eraseLayer t p) { pfx := up, leaves := pre' ++ lf' :: post' } = t2
        have hview : lay t2 = upd (upd (lay t) p none) up (some (pre' ++ lf' :: post')) := by
          rw [← ht2, lay_setLayer, lay_eraseLayer]
        have hnd2 : (t2.map (·.pfx)).Nodup := by
          rw [← ht2, pfx_setLayer_of_mem (by simp only; rw [hU]; rfl)]
          exact nodup_eraseLayer hnd p
        have hF2 : FCore (lay t2) := by
          rw [hview, ← hup]
          refine hF.cascade hp0 hlay hle (by rw [hup]; exact hus) hcu' ?_
          rw [hsl]; exact hmem
        have hEu := hE up us (by rw [upd_other _ _ _ hupne]; exact hus)
        rw [heq] at hEu
        have hfullu : AllFull (pre' ++ lf :: post') := hEu.allFull (by rw [h3]; simp)
        have hwalk : ∀ q r, walkM (lookF (lay t2)) q r = walkM (lookF (lay t)) q r := by
          intro q r
          refine walk_drop_dead_link (up := up) (K := ⟨sl, 9⟩) rfl ?_ ?_ ?_ r q
          · intro x k hk hx
            by_cases e1 : x = up
            · subst e1
              have hkK : k ≠ ⟨sl, 9⟩ := by
                rcases hx with h | h
                · exact absurd rfl h
                · exact h
              refine lookF_congr_ents hus (by rw [hview]; exact upd_same _ _ _) hcu hcu' hk ?_
              intro y hy
              rw [hmem]
              exact ⟨fun h => h.1, fun h => ⟨h, by rw [hy]; exact hkK⟩⟩
            · by_cases e2 : x = p
              · subst e2
                rw [lookF_empty_layer hlay hc hle hk]
                apply lookF_of_none
                rw [hview, upd_other _ _ _ e1, upd_same]
              · apply lookF_congr_lay
                rw [hview, upd_other _ _ _ e1, upd_other _ _ _ e2]
          · rw [lookF_none_iff (by rw [hview]; exact upd_same _ _ _) hcu' hKw]
            intro e he; exact ((hmem e).mp he).2
          · intro k hk
            have : up ++ (⟨sl, 9⟩ : KT).slice = p := hsplit.symm
            rw [this]
            exact lookF_empty_layer hlay hc hle hk
        have hEoff : ∀ q x, q ≠ up → lay t2 q = some x → EmptOK q.isEmpty x := by
          intro q x hq hx
          rw [hview, upd_other _ _ _ hq] at hx
          exact hE q x hx
        by_cases hab : (a ++ b).isEmpty = true
        · rw [if_pos hab]
          have hab0 : a ++ b = [] := by simpa using hab
          refine HE.trans hwalk ?_
          refine ih t2 up _ pre' lf' post' hnd2 hF2 ?_ (by rw [hview]; exact upd_same _ _ _)
            hr.len (by rw [hlf'e, hab0]) hfullu.others ?_ dirs used
          · intro q x hx
            unfold upd at hx
            by_cases e : q = up
            · rw [if_pos e] at hx; cases hx
            · rw [if_neg e] at hx; exact hEoff q x e hx
          · omega
        · rw [if_neg hab]
          refine ⟨hnd2, hF2, ?_, hwalk⟩
          intro q x hx
          by_cases e : q = up
          · subst e
            rw [hview, upd_same] at hx
            rw [← Option.some.inj hx]
            have hd : lf.deleted = false := (hfullu lf (by simp)).2
            exact (hfullu.others.insert (leaf := lf')
              (by rw [hlf'e]; intro e; apply hab; rw [e]; rfl) (by rw [hlf'd, hd])).emptOK _
          · exact hEoff q x e hx
    · -- unlink the empty leaf from its chain
      rw [if_neg hlen]
      have hi' : i = pre.length := hi.symm
      subst hi'
      have hlast : (pre ++ l :: post).length - 1 = pre.length + post.length := by
        simp only [List.length_append, List.length_cons]; omega
      rw [hlast]
      generalize hright : (if (pre.length == 0) = true then (true, dirs, used)
          else if (pre.length == pre.length + post.length) = true then (false, dirs, used)
            else (dirs.headD false, dirs.tail, used + 1)).fst = right
      have hr0 : pre = [] → right = true ∧ post ≠ [] := by
        intro e; subst e
        refine ⟨by rw [← hright]; simp, ?_⟩
        intro e; subst e; simp at hlen
      have hrl : post = [] → right = false := by
        intro e; subst e
        have hp : pre ≠ [] := by intro e; subst e; simp at hlen
        have : pre.length ≠ 0 := fun h => hp (List.eq_nil_of_length_eq_zero h)
        rw [← hright]
        simp [this]
      have tail : ∀ res, LayerCore res → AllFull res →
          (∀ x, x ∈ layerEnts res ↔ x ∈ layerEnts (pre ++ l :: post)) →
          HE t (setLayer t { pfx := p, leaves := res }) := by
        intro res hcres hfres hmres
        have hview : lay (setLayer t { pfx := p, leaves := res }) = upd (lay t) p (some res) :=
          lay_setLayer _ _
        refine ⟨?_, ?_, ?_, ?_⟩
        · rw [pfx_setLayer_of_mem (by simp only; rw [hL]; rfl)]; exact hnd
        · rw [hview]
          refine hF.update hlay hcres ?_ ?_
          · intro e he; exact Or.inl ((hmres e).mp he)
          · intro e he _; exact (hmres e).mpr he
        · rw [hview]
          intro q x hq
          unfold upd at hq
          by_cases e : q = p
          · rw [if_pos e] at hq
            rw [← Option.some.inj hq]
            exact hfres.emptOK _
          · rw [if_neg e] at hq
            exact hE q x (by rw [upd_other _ _ _ e]; exact hq)
        · intro q r
          rw [hview]
          exact walk_same_ents hlay hc hcres hmres q r
      obtain ⟨res, hres, hcres, hfres, hmres⟩ := unlink_spec hc hl hfull right hr0 hrl
      cases hnx : (pre ++ l :: post)[pre.length + 1]? with
      | none =>
        rw [hnx] at hres
        dsimp only at hres ⊢
        rw [hres]
        exact tail res hcres hfres hmres
      | some nx =>
        rw [hnx] at hres
        dsimp only at hres ⊢
        rw [hres]
        exact tail res hcres hfres hmres

end Yak.Tree
