import YakModel.Proofs.TreeBasics
/-!
# `FCore` / `FEmpt` under the point updates the operations perform
-/
namespace Yak.Tree
open Yak

/-! ### prefix arithmetic -/

theorem take_parent (p s : List UInt8) (h : s.length = 8) :
    (p ++ s).take ((p ++ s).length - 8) = p := by simp [h]

theorem drop_parent (p s : List UInt8) (h : s.length = 8) :
    (p ++ s).drop ((p ++ s).length - 8) = s := by simp [h]

theorem parent_split (q : List UInt8) (h8 : q.length % 8 = 0) (hq : q ≠ []) :
    q = q.take (q.length - 8) ++ q.drop (q.length - 8) ∧ (q.drop (q.length - 8)).length = 8 ∧
    (q.take (q.length - 8)).length + 8 = q.length := by
  have : q.length ≠ 0 := fun h => hq (List.eq_nil_of_length_eq_zero h)
  refine ⟨(List.take_append_drop _ _).symm, ?_, ?_⟩
  · simp only [List.length_drop]; omega
  · simp only [List.length_take]; omega

theorem append_ne_self (p s : List UInt8) (h : s ≠ []) : p ++ s ≠ p := by
  intro e
  have := congrArg List.length e
  simp only [List.length_append] at this
  have : s.length = 0 := by omega
  exact h (List.eq_nil_of_length_eq_zero this)

theorem not_prefix_append_self (p s : List UInt8) (h : s ≠ []) : ¬ (p ++ s <+: p) := by
  intro hp
  have := hp.length_le
  simp only [List.length_append] at this
  have : s.length = 0 := by omega
  exact h (List.eq_nil_of_length_eq_zero this)

theorem ne_nil_of_len8 {s : List UInt8} (h : s.length = 8) : s ≠ [] := by
  intro e; rw [e] at h; cases h

/-- two different 8-byte slices lead to disjoint regions. -/
theorem not_prefix_of_slice_ne {p s s' : List UInt8} (hs : s.length = 8) (hs' : s'.length = 8)
    (hne : s' ≠ s) {q : List UInt8} (hq : p ++ s' <+: q) : ¬ (p ++ s <+: q) := by
  intro hq2
  obtain ⟨r1, h1⟩ := hq
  obtain ⟨r2, h2⟩ := hq2
  rw [← h2, List.append_assoc, List.append_assoc, List.append_right_inj] at h1
  exact hne (List.append_inj h1 (by rw [hs, hs'])).1

theorem upd_isSome {F : List UInt8 → Option (List Leaf)} {p : List UInt8} {v : List Leaf} {x : List UInt8}
    (h : (F x).isSome) : (upd F p (some v) x).isSome := by
  unfold upd; split <;> simp [h]

/-! ### P1: one layer's chain is replaced; no link is added or lost -/

theorem FCore.update {F : List UInt8 → Option (List Leaf)} (hF : FCore F) {p : List UInt8}
    {ls ls' : List Leaf} (h : F p = some ls) (hc : LayerCore ls')
    (hnew : ∀ e ∈ layerEnts ls', e ∈ layerEnts ls ∨ (e.kt.len ≠ 9 ∧ (p ≠ [] → e.kt.len ≠ 0)))
    (hkeep : ∀ e ∈ layerEnts ls, e.kt.len = 9 → e ∈ layerEnts ls') :
    FCore (upd F p (some ls')) := by
  have get : ∀ q x, upd F p (some ls') q = some x → (q = p ∧ x = ls') ∨ (q ≠ p ∧ F q = some x) := by
    intro q x hq
    unfold upd at hq
    by_cases e : q = p
    · rw [if_pos e] at hq; exact Or.inl ⟨e, (Option.some.inj hq).symm⟩
    · rw [if_neg e] at hq; exact Or.inr ⟨e, hq⟩
  refine ⟨upd_isSome hF.root, ?_, ?_, ?_, ?_, ?_⟩
  · intro q x hq
    rcases get q x hq with ⟨rfl, _⟩ | ⟨_, hq'⟩
    · exact hF.plen _ _ h
    · exact hF.plen _ _ hq'
  · intro q x hq
    rcases get q x hq with ⟨rfl, rfl⟩ | ⟨_, hq'⟩
    · exact hc
    · exact hF.core _ _ hq'
  · intro q x hq e he h9
    apply upd_isSome
    rcases get q x hq with ⟨rfl, rfl⟩ | ⟨_, hq'⟩
    · rcases hnew e he with h1 | h1
      · exact hF.down _ _ h e h1 h9
      · exact absurd h9 h1.1
    · exact hF.down _ _ hq' e he h9
  · intro q x hq hne e he
    rcases get q x hq with ⟨rfl, rfl⟩ | ⟨_, hq'⟩
    · rcases hnew e he with h1 | h1
      · exact hF.nz _ _ h hne e h1
      · exact h1.2 hne
    · exact hF.nz _ _ hq' hne e he
  · intro q x hq hne
    have hx : ∃ y, F q = some y := by
      rcases get q x hq with ⟨rfl, _⟩ | ⟨_, hq'⟩
      · exact ⟨_, h⟩
      · exact ⟨_, hq'⟩
    obtain ⟨y, hy⟩ := hx
    obtain ⟨us, hus, e, he, hek⟩ := hF.up _ _ hy hne
    by_cases hpar : q.take (q.length - 8) = p
    · refine ⟨ls', by rw [hpar]; exact upd_same _ _ _, e, ?_, hek⟩
      rw [hpar, h] at hus
      have : us = ls := (Option.some.inj hus).symm
      subst this
      exact hkeep e he (by rw [hek])
    · exact ⟨us, by rw [upd_other _ _ _ hpar]; exact hus, e, he, hek⟩

/-! ### no layer below a missing link -/

theorem FCore.none_below {F : List UInt8 → Option (List Leaf)} (hF : FCore F) {p s : List UInt8}
    {ls : List Leaf} (h : F p = some ls) (hs : s.length = 8)
    (hno : ∀ e ∈ layerEnts ls, e.kt ≠ ⟨s, 9⟩) : ∀ (n : Nat) (q : List UInt8), q.length = n →
      p ++ s <+: q → F q = none := by
  intro n
  induction n using Nat.strongRecOn with
  | _ n ih =>
    intro q hn hq
    cases hfq : F q with
    | none => rfl
    | some x =>
      exfalso
      obtain ⟨r, hr⟩ := hq
      have hqne : q ≠ [] := by
        intro e; rw [e] at hr
        have := congrArg List.length hr
        simp [hs] at this
      obtain ⟨us, hus, e, he, hek⟩ := hF.up _ _ hfq hqne
      have h8 := hF.plen _ _ hfq
      have hp8 := hF.plen _ _ h
      obtain ⟨hsplit, hl8, hlen⟩ := parent_split q h8 hqne
      by_cases hr0 : r = []
      · subst hr0
        rw [List.append_nil] at hr
        subst hr
        rw [take_parent p s hs, h] at hus
        have : us = ls := (Option.some.inj hus).symm
        subst this
        rw [drop_parent p s hs] at hek
        exact hno e he hek
      · have hrl : r.length % 8 = 0 := by
          have := congrArg List.length hr
          simp only [List.length_append, hs] at this
          omega
        have hr8 : r.length ≥ 8 := by
          have : r.length ≠ 0 := fun h => hr0 (List.eq_nil_of_length_eq_zero h)
          omega
        have hpar : q.take (q.length - 8) = p ++ s ++ r.take (r.length - 8) := by
          rw [← hr]
          simp only [List.length_append, hs]
          rw [List.take_append]
          simp only [List.length_append, hs]
          have e1 : p.length + 8 + r.length - 8 - (p.length + 8) = r.length - 8 := by omega
          rw [e1, List.take_of_length_le (by simp only [List.length_append, hs]; omega)]
        have := ih (q.take (q.length - 8)).length (by omega) _ rfl
          (by rw [hpar]; exact List.prefix_append _ _)
        rw [this] at hus; cases hus

/-! ### fresh chains -/

structure FreshOK (G : List UInt8 → Option (List Leaf)) (q0 : List UInt8) : Prop where
  head : (G q0).isSome
  dom : ∀ q ls, G q = some ls → q0 <+: q ∧ (q.length - q0.length) % 8 = 0
  single : ∀ q ls, G q = some ls → ∃ e, ls = [leaf1 e] ∧ e.kt.WF ∧ (e.val = none ↔ e.kt.len = 9) ∧
    e.kt.len ≠ 0 ∧ (e.kt.len = 9 → (G (q ++ e.kt.slice)).isSome)
  up : ∀ q ls, G q = some ls → q ≠ q0 →
    ∃ e', G (q.take (q.length - 8)) = some [leaf1 e'] ∧ e'.kt = ⟨q.drop (q.length - 8), 9⟩

theorem lay_cons (L : Layer) (t : Tree) (q : List UInt8) :
    lay (L :: t) q = if q = L.pfx then some L.leaves else lay t q := by
  unfold lay findLayer
  rw [List.find?_cons]
  by_cases hq : q = L.pfx
  · subst hq; simp
  · have : (L.pfx == q) = false := by simp [Ne.symm hq]
    rw [this, if_neg hq]

theorem lay_nil (q : List UInt8) : lay [] q = none := rfl

theorem freshLayers_long {q0 : List UInt8} {r : Key} (v : Val) (h : r.length > 8) :
    freshLayers q0 r v =
      ⟨q0, [leaf1 ⟨KT.ofKey r, none⟩]⟩ :: freshLayers (q0 ++ r.take 8) (r.drop 8) v := by
  rw [freshLayers, dif_pos h]

theorem freshLayers_short {q0 : List UInt8} {r : Key} (v : Val) (h : ¬ r.length > 8) :
    freshLayers q0 r v = [⟨q0, [leaf1 ⟨KT.ofKey r, some v⟩]⟩] := by
  rw [freshLayers, dif_neg h]

theorem fresh_ok (q0 : List UInt8) (r : Key) (v : Val) (hr : r ≠ []) :
    FreshOK (lay (freshLayers q0 r v)) q0 := by
  have hrl : r.length ≠ 0 := fun h => hr (List.eq_nil_of_length_eq_zero h)
  by_cases hl : r.length > 8
  · have hr' : r.drop 8 ≠ [] := by
      intro e
      have := congrArg List.length e
      simp only [List.length_drop, List.length_nil] at this; omega
    have ih := fresh_ok (q0 ++ r.take 8) (r.drop 8) v hr'
    have hs8 : (r.take 8).length = 8 := by simp only [List.length_take]; omega
    rw [freshLayers_long v hl]
    generalize hG : lay (freshLayers (q0 ++ r.take 8) (r.drop 8) v) = G' at ih
    have hlay : ∀ q, lay (⟨q0, [leaf1 ⟨KT.ofKey r, none⟩]⟩ ::
        freshLayers (q0 ++ r.take 8) (r.drop 8) v) q =
        if q = q0 then some [leaf1 ⟨KT.ofKey r, none⟩] else G' q := by
      intro q; rw [lay_cons, hG]
    have hdom' : ∀ q ls, G' q = some ls → q ≠ q0 := by
      intro q ls h e
      subst e
      exact not_prefix_append_self q (r.take 8) (ne_nil_of_len8 hs8) (ih.dom _ _ h).1
    refine ⟨by rw [hlay, if_pos rfl]; rfl, ?_, ?_, ?_⟩
    · intro q ls h
      rw [hlay] at h
      by_cases e : q = q0
      · subst e; exact ⟨List.prefix_refl _, by simp⟩
      · rw [if_neg e] at h
        obtain ⟨h1, h2⟩ := ih.dom _ _ h
        refine ⟨List.IsPrefix.trans (List.prefix_append _ _) h1, ?_⟩
        have := h1.length_le
        simp only [List.length_append, hs8] at this h2
        omega
    · intro q ls h
      rw [hlay] at h
      by_cases e : q = q0
      · subst e
        rw [if_pos rfl] at h
        refine ⟨⟨KT.ofKey r, none⟩, (Option.some.inj h).symm, KT.ofKey_wf r, ?_, ?_, ?_⟩
        · simp [ofKey_len_long hl]
        · simp [ofKey_len_long hl]
        · intro _
          simp only [ofKey_slice_long hl]
          rw [hlay, if_neg (append_ne_self _ _ (ne_nil_of_len8 hs8))]
          exact ih.head
      · rw [if_neg e] at h
        obtain ⟨e', h1, h2, h3, h4, h5⟩ := ih.single _ _ h
        refine ⟨e', h1, h2, h3, h4, ?_⟩
        intro h9
        have := h5 h9
        rw [hlay]
        cases hx : G' (q ++ e'.kt.slice) with
        | none => rw [hx] at this; cases this
        | some y => rw [if_neg (hdom' _ _ hx)]; rfl
    · intro q ls h hne
      rw [hlay, if_neg hne] at h
      by_cases e : q = q0 ++ r.take 8
      · subst e
        refine ⟨⟨KT.ofKey r, none⟩, ?_, ?_⟩
        · rw [take_parent _ _ hs8, hlay, if_pos rfl]
        · rw [drop_parent _ _ hs8]; exact ofKey_long hl
      · obtain ⟨e', h1, h2⟩ := ih.up _ _ h e
        refine ⟨e', ?_, h2⟩
        rw [hlay, if_neg (hdom' _ _ h1)]; exact h1
  · rw [freshLayers_short v hl]
    have hlay : ∀ q, lay [⟨q0, [leaf1 ⟨KT.ofKey r, some v⟩]⟩] q =
        if q = q0 then some [leaf1 ⟨KT.ofKey r, some v⟩] else none := by
      intro q; rw [lay_cons]; rfl
    refine ⟨by rw [hlay, if_pos rfl]; rfl, ?_, ?_, ?_⟩
    · intro q ls h
      rw [hlay] at h
      by_cases e : q = q0
      · subst e; exact ⟨List.prefix_refl _, by simp⟩
      · rw [if_neg e] at h; cases h
    · intro q ls h
      rw [hlay] at h
      by_cases e : q = q0
      · rw [if_pos e] at h
        refine ⟨⟨KT.ofKey r, some v⟩, (Option.some.inj h).symm, KT.ofKey_wf r, ?_, ?_, ?_⟩
        · have := ofKey_len_ne9 hl
          simp [this]
        · rw [ofKey_len_short hl]; exact hrl
        · intro h9; exact absurd h9 (ofKey_len_ne9 hl)
      · rw [if_neg e] at h; cases h
    · intro q ls h hne
      rw [hlay, if_neg hne] at h; cases h
termination_by r.length
decreasing_by
  simp only [List.length_drop]; omega

theorem fresh_nodup (q0 : List UInt8) (r : Key) (v : Val) (_hr : r ≠ []) :
    ((freshLayers q0 r v).map (·.pfx)).Nodup := by
  by_cases hl : r.length > 8
  · have hr' : r.drop 8 ≠ [] := by
      intro e
      have := congrArg List.length e
      simp only [List.length_drop, List.length_nil] at this; omega
    have hs8 : (r.take 8).length = 8 := by simp only [List.length_take]; omega
    rw [freshLayers_long v hl, List.map_cons, List.nodup_cons]
    refine ⟨?_, fresh_nodup _ _ v hr'⟩
    intro hm
    have := mem_pfx_iff.mp hm
    rw [← lay_isSome] at this
    cases hx : lay (freshLayers (q0 ++ r.take 8) (r.drop 8) v) q0 with
    | none => rw [hx] at this; cases this
    | some y =>
      exact not_prefix_append_self q0 (r.take 8) (ne_nil_of_len8 hs8)
        ((fresh_ok _ _ v hr').dom _ _ hx).1
  · rw [freshLayers_short v hl]; simp
termination_by r.length
decreasing_by
  simp only [List.length_drop]; omega

theorem layerCore_leaf1 {e : Ent} (hw : e.kt.WF) (hv : e.val = none ↔ e.kt.len = 9) :
    LayerCore [leaf1 e] := by
  refine ⟨⟨rfl, by simp⟩, by simp, ?_⟩
  intro l hl
  rw [List.mem_singleton] at hl; subst hl
  refine ⟨by simp [leaf1], ?_, by simp [leaf1], by simp [leaf1]⟩
  intro x hx
  simp only [leaf1, List.mem_singleton] at hx
  subst hx; exact ⟨hw, hv⟩

theorem layerEnts_leaf1 (e : Ent) : layerEnts [leaf1 e] = [e] := by simp [layerEnts, leaf1]

/-! ### P2: a link and the fresh chain below it are added -/

theorem FCore.insertLong {F G : List UInt8 → Option (List Leaf)} (hF : FCore F) {p s : List UInt8}
    {ls ls' : List Leaf} {e : Ent} (h : F p = some ls) (hc : LayerCore ls') (hs : s.length = 8)
    (he : e.kt = ⟨s, 9⟩) (hents : ∀ x, x ∈ layerEnts ls' ↔ x = e ∨ x ∈ layerEnts ls)
    (hG : FreshOK G (p ++ s)) (hdisj : ∀ q, p ++ s <+: q → F q = none) :
    FCore (fun q => if q = p then some ls' else (F q).or (G q)) := by
  have hsne := ne_nil_of_len8 hs
  have hGp : ∀ q x, G q = some x → q ≠ p ∧ F q = none := by
    intro q x hq
    have := (hG.dom _ _ hq).1
    refine ⟨?_, hdisj q this⟩
    intro e; subst e; exact not_prefix_append_self _ _ hsne this
  have get : ∀ q x, (fun q => if q = p then some ls' else (F q).or (G q)) q = some x →
      (q = p ∧ x = ls') ∨ (q ≠ p ∧ F q = some x) ∨ (q ≠ p ∧ F q = none ∧ G q = some x) := by
    intro q x hq
    simp only at hq
    by_cases e : q = p
    · rw [if_pos e] at hq; exact Or.inl ⟨e, (Option.some.inj hq).symm⟩
    · rw [if_neg e] at hq
      cases hfq : F q with
      | none => rw [hfq] at hq; exact Or.inr (Or.inr ⟨e, rfl, by simpa using hq⟩)
      | some y => rw [hfq] at hq; exact Or.inr (Or.inl ⟨e, by simpa using hq⟩)
  have someF : ∀ x, (F x).isSome → ((fun q => if q = p then some ls' else (F q).or (G q)) x).isSome := by
    intro x hx
    simp only
    split
    · rfl
    · cases hfx : F x with
      | none => rw [hfx] at hx; cases hx
      | some y => rfl
  have someG : ∀ x, (G x).isSome → ((fun q => if q = p then some ls' else (F q).or (G q)) x).isSome := by
    intro x hx
    simp only
    split
    · rfl
    · cases hfx : F x with
      | none => simpa using hx
      | some y => rfl
  have hp8 := hF.plen _ _ h
  refine ⟨someF _ hF.root, ?_, ?_, ?_, ?_, ?_⟩
  · intro q x hq
    rcases get q x hq with ⟨rfl, _⟩ | ⟨_, hq'⟩ | ⟨_, _, hq'⟩
    · exact hp8
    · exact hF.plen _ _ hq'
    · obtain ⟨h1, h2⟩ := hG.dom _ _ hq'
      have := h1.length_le
      simp only [List.length_append, hs] at this h2
      omega
  · intro q x hq
    rcases get q x hq with ⟨rfl, rfl⟩ | ⟨_, hq'⟩ | ⟨_, _, hq'⟩
    · exact hc
    · exact hF.core _ _ hq'
    · obtain ⟨e', rfl, hw, hv, _, _⟩ := hG.single _ _ hq'
      exact layerCore_leaf1 hw hv
  · intro q x hq e' he' h9
    rcases get q x hq with ⟨rfl, rfl⟩ | ⟨_, hq'⟩ | ⟨_, _, hq'⟩
    · rcases (hents e').mp he' with h1 | h1
      · subst h1
        apply someG
        rw [he]; exact hG.head
      · exact someF _ (hF.down _ _ h e' h1 h9)
    · exact someF _ (hF.down _ _ hq' e' he' h9)
    · obtain ⟨e'', rfl, _, _, _, h5⟩ := hG.single _ _ hq'
      rw [layerEnts_leaf1, List.mem_singleton] at he'
      subst he'
      exact someG _ (h5 h9)
  · intro q x hq hne e' he'
    rcases get q x hq with ⟨rfl, rfl⟩ | ⟨_, hq'⟩ | ⟨_, _, hq'⟩
    · rcases (hents e').mp he' with h1 | h1
      · subst h1; rw [he]; simp
      · exact hF.nz _ _ h hne e' h1
    · exact hF.nz _ _ hq' hne e' he'
    · obtain ⟨e'', rfl, _, _, h4, _⟩ := hG.single _ _ hq'
      rw [layerEnts_leaf1, List.mem_singleton] at he'
      subst he'; exact h4
  · intro q x hq hne
    have oldcase : ∀ y, F q = some y →
        ∃ us, (fun q => if q = p then some ls' else (F q).or (G q)) (q.take (q.length - 8)) = some us ∧
          ∃ e ∈ layerEnts us, e.kt = ⟨q.drop (q.length - 8), 9⟩ := by
      intro y hy
      obtain ⟨us, hus, e', he', hek⟩ := hF.up _ _ hy hne
      by_cases hpar : q.take (q.length - 8) = p
      · refine ⟨ls', by simp only; rw [if_pos hpar], e', ?_, hek⟩
        rw [hpar, h] at hus
        have : us = ls := (Option.some.inj hus).symm
        subst this
        exact (hents e').mpr (Or.inr he')
      · exact ⟨us, by simp only; rw [if_neg hpar, hus]; rfl, e', he', hek⟩
    rcases get q x hq with ⟨rfl, _⟩ | ⟨_, hq'⟩ | ⟨_, _, hq'⟩
    · exact oldcase _ h
    · exact oldcase _ hq'
    · by_cases hq0 : q = p ++ s
      · subst hq0
        refine ⟨ls', by rw [take_parent _ _ hs, if_pos rfl], e, (hents e).mpr (Or.inl rfl), ?_⟩
        rw [drop_parent _ _ hs]; exact he
      · obtain ⟨e', h1, h2⟩ := hG.up _ _ hq' hq0
        obtain ⟨hne', hnone⟩ := hGp _ _ h1
        refine ⟨[leaf1 e'], by rw [if_neg hne', hnone, h1]; rfl, e', ?_, h2⟩
        rw [layerEnts_leaf1]; simp

/-! ### P3: an emptied layer disappears together with its link -/

theorem FCore.cascade {F : List UInt8 → Option (List Leaf)} (hF : FCore F) {p : List UInt8}
    {ls us us' : List Leaf} (hp : p ≠ []) (h : F p = some ls) (hempty : layerEnts ls = [])
    (hU : F (p.take (p.length - 8)) = some us) (hc : LayerCore us')
    (hsub : ∀ e, e ∈ layerEnts us' ↔ e ∈ layerEnts us ∧ e.kt ≠ ⟨p.drop (p.length - 8), 9⟩) :
    FCore (upd (upd F p none) (p.take (p.length - 8)) (some us')) := by
  have hp8 := hF.plen _ _ h
  obtain ⟨hsplit, hl8, hlen⟩ := parent_split p hp8 hp
  generalize hup : p.take (p.length - 8) = up at *
  generalize hsl : p.drop (p.length - 8) = sl at *
  have hupne : up ≠ p := by
    intro e
    have := congrArg List.length e
    omega
  have get : ∀ q x, upd (upd F p none) up (some us') q = some x →
      (q = up ∧ x = us') ∨ (q ≠ up ∧ q ≠ p ∧ F q = some x) := by
    intro q x hq
    unfold upd at hq
    by_cases e : q = up
    · rw [if_pos e] at hq; exact Or.inl ⟨e, (Option.some.inj hq).symm⟩
    · rw [if_neg e] at hq
      by_cases e' : q = p
      · rw [if_pos e'] at hq; cases hq
      · rw [if_neg e'] at hq; exact Or.inr ⟨e, e', hq⟩
  have keep : ∀ x, (F x).isSome → x ≠ p → (upd (upd F p none) up (some us') x).isSome := by
    intro x hx hxp
    unfold upd
    by_cases e : x = up
    · rw [if_pos e]; rfl
    · rw [if_neg e, if_neg hxp]; exact hx
  refine ⟨keep _ hF.root (Ne.symm hp), ?_, ?_, ?_, ?_, ?_⟩
  · intro q x hq
    rcases get q x hq with ⟨rfl, _⟩ | ⟨_, _, hq'⟩
    · exact hF.plen _ _ hU
    · exact hF.plen _ _ hq'
  · intro q x hq
    rcases get q x hq with ⟨rfl, rfl⟩ | ⟨_, _, hq'⟩
    · exact hc
    · exact hF.core _ _ hq'
  · intro q x hq e he h9
    rcases get q x hq with ⟨rfl, rfl⟩ | ⟨hq1, hq2, hq'⟩
    · obtain ⟨he1, he2⟩ := (hsub e).mp he
      apply keep _ (hF.down _ _ hU e he1 h9)
      intro ee
      rw [hsplit] at ee
      have hw := (layerEnts_wf (hF.core _ _ hU) he1).1
      have := (List.append_inj ee (by rfl)).2
      apply he2
      cases hk : e.kt with
      | mk a b =>
        rw [hk] at this h9
        simp only at this h9
        rw [this, h9]
    · apply keep _ (hF.down _ _ hq' e he h9)
      intro ee
      have hw := (layerEnts_wf (hF.core _ _ hq') he).1
      rw [hsplit] at ee
      have := (List.append_inj' ee (by rw [hw.1, hl8])).1
      exact hq1 this
  · intro q x hq hne e he
    rcases get q x hq with ⟨rfl, rfl⟩ | ⟨_, _, hq'⟩
    · exact hF.nz _ _ hU hne e ((hsub e).mp he).1
    · exact hF.nz _ _ hq' hne e he
  · intro q x hq hne
    have hy : ∃ y, F q = some y ∧ q ≠ p := by
      rcases get q x hq with ⟨rfl, _⟩ | ⟨_, h2, hq'⟩
      · exact ⟨_, hU, hupne⟩
      · exact ⟨_, hq', h2⟩
    obtain ⟨y, hy, hqp⟩ := hy
    obtain ⟨vs, hvs, e, he, hek⟩ := hF.up _ _ hy hne
    have hparp : q.take (q.length - 8) ≠ p := by
      intro ee
      rw [ee, h] at hvs
      have : vs = ls := (Option.some.inj hvs).symm
      subst this
      rw [hempty] at he; cases he
    by_cases hpar : q.take (q.length - 8) = up
    · rw [hpar, hU] at hvs
      have : vs = us := (Option.some.inj hvs).symm
      subst this
      refine ⟨us', by rw [hpar]; exact upd_same _ _ _, e, (hsub e).mpr ⟨he, ?_⟩, hek⟩
      intro ee
      rw [hek] at ee
      injection ee with e1 _
      apply hqp
      have hq8 := hF.plen _ _ hy
      rw [(parent_split q hq8 hne).1, hpar, e1]
      exact hsplit.symm
    · exact ⟨vs, by rw [upd_other _ _ _ hpar, upd_other _ _ _ hparp]; exact hvs, e, he, hek⟩

/-! ### emptiness clauses -/

/-- every leaf holds an entry and is not flagged deleted -/
def AllFull (ls : List Leaf) : Prop := ∀ l ∈ ls, l.ents ≠ [] ∧ l.deleted = false

theorem AllFull.emptOK {ls : List Leaf} (h : AllFull ls) (r : Bool) : EmptOK r ls := by
  intro l hl
  obtain ⟨h1, h2⟩ := h l hl
  exact ⟨fun e => absurd e h1, fun e => by rw [h2] at e; cases e⟩

theorem EmptOK.allFull {r : Bool} {pre post : List Leaf} {leaf : Leaf}
    (h : EmptOK r (pre ++ leaf :: post)) (hne : leaf.ents ≠ []) : AllFull (pre ++ leaf :: post) := by
  have key : ∀ l ∈ pre ++ leaf :: post, l.ents ≠ [] := by
    intro l hl he
    have hlen := ((h l hl).1 he).2
    simp only [List.length_append, List.length_cons] at hlen
    have h1 : pre = [] := List.eq_nil_of_length_eq_zero (by omega)
    have h2 : post = [] := List.eq_nil_of_length_eq_zero (by omega)
    subst h1 h2
    simp only [List.nil_append, List.mem_singleton] at hl
    subst hl; exact hne he
  intro l hl
  refine ⟨key l hl, ?_⟩
  cases hd : l.deleted with
  | false => rfl
  | true => exact absurd ((h l hl).2 hd) (key l hl)

theorem AllFull.others {pre post : List Leaf} {leaf : Leaf} (h : AllFull (pre ++ leaf :: post)) :
    AllFull (pre ++ post) := by
  intro l hl
  apply h l
  rw [List.mem_append] at hl ⊢
  rcases hl with hl | hl
  · exact Or.inl hl
  · exact Or.inr (by simp [hl])

theorem AllFull.insert {pre post : List Leaf} {leaf : Leaf} (h : AllFull (pre ++ post))
    (h1 : leaf.ents ≠ []) (h2 : leaf.deleted = false) : AllFull (pre ++ leaf :: post) := by
  intro l hl
  simp only [List.mem_append, List.mem_cons] at hl
  rcases hl with hl | hl | hl
  · exact h l (by simp [hl])
  · subst hl; exact ⟨h1, h2⟩
  · exact h l (by simp [hl])

/-- whatever the chain was: all other leaves of a chain that respects `EmptOK` are full as soon as
    there are at least two leaves. -/
theorem EmptOK.others_full {r : Bool} {pre post : List Leaf} {leaf : Leaf}
    (h : EmptOK r (pre ++ leaf :: post)) : AllFull (pre ++ post) := by
  have key : ∀ l ∈ pre ++ post, l.ents ≠ [] := by
    intro l hl he
    have hl' : l ∈ pre ++ leaf :: post := by
      rw [List.mem_append] at hl ⊢
      rcases hl with hl | hl
      · exact Or.inl hl
      · exact Or.inr (by simp [hl])
    have hlen := ((h l hl').1 he).2
    simp only [List.length_append, List.length_cons] at hlen
    have h1 : pre = [] := List.eq_nil_of_length_eq_zero (by omega)
    have h2 : post = [] := List.eq_nil_of_length_eq_zero (by omega)
    subst h1 h2
    cases hl
  intro l hl
  refine ⟨key l hl, ?_⟩
  have hl' : l ∈ pre ++ leaf :: post := by
    rw [List.mem_append] at hl ⊢
    rcases hl with hl | hl
    · exact Or.inl hl
    · exact Or.inr (by simp [hl])
  cases hd : l.deleted with
  | false => rfl
  | true => exact absurd ((h l hl').2 hd) (key l hl)

theorem FEmpt.update {F : List UInt8 → Option (List Leaf)} (hE : FEmpt F) {p : List UInt8}
    {ls' : List Leaf} (h : EmptOK p.isEmpty ls') : FEmpt (upd F p (some ls')) := by
  intro q x hq
  unfold upd at hq
  by_cases e : q = p
  · rw [if_pos e] at hq
    rw [e, ← Option.some.inj hq]; exact h
  · rw [if_neg e] at hq; exact hE _ _ hq

theorem FEmpt.erase {F : List UInt8 → Option (List Leaf)} (hE : FEmpt F) (p : List UInt8) :
    FEmpt (upd F p none) := by
  intro q x hq
  unfold upd at hq
  by_cases e : q = p
  · rw [if_pos e] at hq; cases hq
  · rw [if_neg e] at hq; exact hE _ _ hq

end Yak.Tree
