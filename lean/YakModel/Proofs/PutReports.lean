import YakModel.Proofs.PutMain
/-!
# C12: which border nodes a `put` reports
-/
namespace Yak.Tree
open Yak

theorem mem_setLayer_of_ne {t : Tree} {L M : Layer} (hM : M ∈ t) (hne : M.pfx ≠ L.pfx) :
    M ∈ setLayer t L := by
  unfold setLayer
  split
  · refine List.mem_map.mpr ⟨M, hM, ?_⟩
    have : (M.pfx == L.pfx) = false := by simp [hne]
    simp [this]
  · simp [hM]

theorem mem_setLayer_image {t : Tree} {L M : Layer} (h : (findLayer t L.pfx).isSome) (hM : M ∈ t) :
    (if M.pfx = L.pfx then L else M) ∈ setLayer t L := by
  unfold setLayer
  have hany : (t.any fun M => M.pfx == L.pfx) = true := by
    cases hf : findLayer t L.pfx with
    | none => rw [hf] at h; cases h
    | some M' =>
      have := findLayer_some hf
      exact List.any_eq_true.mpr ⟨M', this.2, by simp [this.1]⟩
  rw [if_pos hany]
  refine List.mem_map.mpr ⟨M, hM, ?_⟩
  by_cases e : M.pfx = L.pfx
  · simp [e]
  · have : (M.pfx == L.pfx) = false := by simp [e]
    simp [this, e]

theorem putAt_update_report {t : Tree} (hF : FCore (lay t)) (v : Val) :
    ∀ (rest : Key) (p : List UInt8), (lay t p).isSome → (walkM (lookF (lay t)) p rest).isSome = true →
    (putAt t p rest v false).modified = none ∧ (putAt t p rest v false).created = none ∧
    ∃ q L ls', findLayer t q = some L ∧ (putAt t p rest v false).tree = setLayer t ⟨q, ls'⟩ ∧
      ls'.map (fun l => (l.vins, l.vsplit, l.deleted)) =
        L.leaves.map (fun l => (l.vins, l.vsplit, l.deleted)) := by
  intro rest
  induction hn : rest.length using Nat.strongRecOn generalizing rest with
  | _ n ih =>
    intro p hp hw
    cases hL : findLayer t p with
    | none => rw [lay_isSome, hL] at hp; cases hp
    | some L =>
      have hLp : L.pfx = p := (findLayer_some hL).1
      rw [putAt, hL]
      dsimp only
      cases hlk : leafLookup (KT.ofKey rest)
          (leafKeys (L.leaves.getD (route (KT.ofKey rest) L.leaves) emptyLeaf)) with
      | none =>
        have hg := layerGet_of_lookup_none hlk
        have : walkM (lookF (lay t)) p rest = none := by
          apply walkM_none; rw [lookF_lay hL]; exact hg
        rw [this] at hw; cases hw
      | some r =>
        have hg := layerGet_of_lookup hlk
        have hlook := (lookF_lay hL (KT.ofKey rest)).trans hg
        dsimp only
        by_cases hl : rest.length > 8
        · rw [dif_pos hl]
          rw [walkM_long hlook hl] at hw
          exact ih (rest.drop 8).length (by simp only [List.length_drop]; omega) (rest.drop 8) rfl
            (p ++ rest.take 8) (down_of_lookF hF hlook hl) hw
        · rw [dif_neg hl, if_neg (by simp)]
          refine ⟨rfl, rfl, p, L, _, hL, by rw [hLp], ?_⟩
          have hc := hF.core _ _ (lay_of_findLayer hL)
          obtain ⟨pre, leaf, post, hr⟩ := route_decomp hc (KT.ofKey_wf rest)
          rw [hr.getD, hr.set, hr.eq]
          simp

theorem put_update_changes_nothing (t : Tree) (k : Key) (v : Val) (h : Inv t)
    (hk : ((get t k).val).isSome = true) :
    (put t k v false).modified = none ∧ (put t k v false).created = none ∧
    (put t k v false).tree.length = t.length ∧
    ∀ L ∈ t, ∃ L' ∈ (put t k v false).tree, L'.pfx = L.pfx ∧
      L'.leaves.map (fun l => (l.vins, l.vsplit, l.deleted)) =
        L.leaves.map (fun l => (l.vins, l.vsplit, l.deleted)) := by
  obtain ⟨hnd, hF, _⟩ := (inv_iff t).mp h
  unfold get at hk
  rw [getAt_val] at hk
  obtain ⟨h1, h2, q, L, ls', hL, htree, hver⟩ := putAt_update_report hF v k [] hF.root hk
  unfold put
  refine ⟨h1, h2, ?_, ?_⟩
  · rw [htree]; exact length_setLayer_of_mem (by simp only; rw [hL]; rfl)
  · intro M hM
    rw [htree]
    refine ⟨_, mem_setLayer_image (L := ⟨q, ls'⟩) (by simp only; rw [hL]; rfl) hM, ?_, ?_⟩
    · by_cases e : M.pfx = q
      · simp [e]
      · simp [e]
    · by_cases e : M.pfx = q
      · have : M = L := by
          have := findLayer_of_mem hnd hM
          rw [e, hL] at this
          exact (Option.some.inj this).symm
        subst this
        simp only [e, if_true]
        exact hver
      · simp [e]

theorem putAt_insert_report {t : Tree} (hF : FCore (lay t)) (v : Val) (u : Bool) :
    ∀ (rest : Key) (p : List UInt8), (lay t p).isSome → walkM (lookF (lay t)) p rest = none →
    ∃ p' i L leaf, (putAt t p rest v u).modified = some (p', i) ∧ findLayer t p' = some L ∧
      L.leaves[i]? = some leaf ∧
      (∀ M ∈ t, M.pfx ≠ p' → M ∈ (putAt t p rest v u).tree) ∧
      ∃ L', findLayer (putAt t p rest v u).tree p' = some L' ∧
        (((putAt t p rest v u).created = none ∧ ∃ leaf', L'.leaves = L.leaves.set i leaf' ∧
            leaf'.vins = leaf.vins + 1 ∧ leaf'.vsplit = leaf.vsplit ∧ leaf.ents.length < 15) ∨
         ((putAt t p rest v u).created = some (p', i + 1) ∧ ∃ a b,
            L'.leaves = L.leaves.take i ++ [a, b] ++ L.leaves.drop (i + 1) ∧
            a.vins = leaf.vins + 1 ∧ a.vsplit = leaf.vsplit + 1 ∧
            b.vins = leaf.vins + 1 ∧ b.vsplit = leaf.vsplit + 1 ∧ leaf.ents.length = 15)) := by
  intro rest
  induction hn : rest.length using Nat.strongRecOn generalizing rest with
  | _ n ih =>
    intro p hp hw
    cases hL : findLayer t p with
    | none => rw [lay_isSome, hL] at hp; cases hp
    | some L =>
      have hLp : L.pfx = p := (findLayer_some hL).1
      rw [putAt, hL]
      dsimp only
      cases hlk : leafLookup (KT.ofKey rest)
          (leafKeys (L.leaves.getD (route (KT.ofKey rest) L.leaves) emptyLeaf)) with
      | none =>
        dsimp only
        rw [insertInto_eq]
        dsimp only
        have hc := hF.core _ _ (lay_of_findLayer hL)
        obtain ⟨leaf, h1, h2, h3⟩ := insLeaves_report hc (KT.ofKey_wf rest) (entOf rest v)
        rw [h2]
        refine ⟨p, _, L, leaf, by rw [hLp], hL, h1, ?_, ?_⟩
        · intro M hM hne
          apply List.mem_append_left
          exact mem_setLayer_of_ne hM (by simp only; rw [hLp]; exact hne)
        · refine ⟨{ L with leaves := insLeaves L.leaves (KT.ofKey rest) (entOf rest v) }, ?_, ?_⟩
          · rw [findLayer_append, findLayer_setLayer, if_pos (by simp only; rw [hLp])]
            rfl
          · rcases h3 with ⟨hlt, leaf', e1, e2, e3⟩ | ⟨hlen, a, b, e1, e2, e3, e4, e5⟩
            · left
              refine ⟨?_, leaf', e1, e2, e3, hlt⟩
              rw [if_pos (by simpa [Yak.Const.keySliceLength] using hlt)]
            · right
              refine ⟨?_, a, b, e1, e2, e3, e4, e5, hlen⟩
              rw [if_neg (by simp [Yak.Const.keySliceLength, hlen]), hLp]
      | some r =>
        have hg := layerGet_of_lookup hlk
        have hlook := (lookF_lay hL (KT.ofKey rest)).trans hg
        dsimp only
        by_cases hl : rest.length > 8
        · rw [dif_pos hl]
          rw [walkM_long hlook hl] at hw
          exact ih (rest.drop 8).length (by simp only [List.length_drop]; omega) (rest.drop 8) rfl
            (p ++ rest.take 8) (down_of_lookF hF hlook hl) hw
        · rw [walkM_short hlook hl] at hw
          exact absurd hw (val_of_lookF_short hF hlook hl)

theorem put_insert_reports (t : Tree) (k : Key) (v : Val) (uniq : Bool) (h : Inv t)
    (hk : (get t k).val = none) :
    ∃ p i L leaf, (put t k v uniq).modified = some (p, i) ∧ findLayer t p = some L ∧
      L.leaves[i]? = some leaf ∧
      (∀ M ∈ t, M.pfx ≠ p → M ∈ (put t k v uniq).tree) ∧
      ∃ L', findLayer (put t k v uniq).tree p = some L' ∧
        (((put t k v uniq).created = none ∧ ∃ leaf', L'.leaves = L.leaves.set i leaf' ∧
            leaf'.vins = leaf.vins + 1 ∧ leaf'.vsplit = leaf.vsplit ∧ leaf.ents.length < 15) ∨
         ((put t k v uniq).created = some (p, i + 1) ∧ ∃ a b,
            L'.leaves = L.leaves.take i ++ [a, b] ++ L.leaves.drop (i + 1) ∧
            a.vins = leaf.vins + 1 ∧ a.vsplit = leaf.vsplit + 1 ∧
            b.vins = leaf.vins + 1 ∧ b.vsplit = leaf.vsplit + 1 ∧ leaf.ents.length = 15)) := by
  obtain ⟨_, hF, _⟩ := (inv_iff t).mp h
  unfold get at hk
  rw [getAt_val] at hk
  exact putAt_insert_report hF v uniq k [] hF.root hk

end Yak.Tree
