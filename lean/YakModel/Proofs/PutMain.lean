import YakModel.Proofs.PutProofs
/-!
# `putAt` by induction along the descent; the `put` theorems of C02 and C12
-/
namespace Yak.Tree
open Yak

theorem drop8_ne_nil {rest : Key} (h : rest.length > 8) : rest.drop 8 ≠ [] := by
  intro e
  have := congrArg List.length e
  simp only [List.length_drop, List.length_nil] at this; omega

theorem take8_len {rest : Key} (h : rest.length > 8) : (rest.take 8).length = 8 := by
  simp only [List.length_take]; omega

theorem eq_iff_drop8 {r r' : Key} (htake : r'.take 8 = r.take 8) : r' = r ↔ r'.drop 8 = r.drop 8 := by
  constructor
  · intro e; rw [e]
  · intro e
    rw [← List.take_append_drop 8 r', ← List.take_append_drop 8 r, htake, e]

theorem layerGet_of_lookup {leaves : List Leaf} {k : KT} {r : Nat}
    (h : leafLookup k (leafKeys (leaves.getD (route k leaves) emptyLeaf)) = some r) :
    layerGet leaves k = some ((leaves.getD (route k leaves) emptyLeaf).ents.getD r default) := by
  unfold layerGet leafGet; rw [h]; rfl

theorem layerGet_of_lookup_none {leaves : List Leaf} {k : KT}
    (h : leafLookup k (leafKeys (leaves.getD (route k leaves) emptyLeaf)) = none) :
    layerGet leaves k = none := by
  unfold layerGet leafGet; rw [h]; rfl

/-- the link found for a long key leads to an existing layer -/
theorem down_of_lookF {t : Tree} (hF : FCore (lay t)) {p : List UInt8} {rest : Key} {e : Ent}
    (h : lookF (lay t) p (KT.ofKey rest) = some e) (hl : rest.length > 8) :
    (lay t (p ++ rest.take 8)).isSome := by
  cases hlay : lay t p with
  | none => rw [lookF_of_none hlay] at h; cases h
  | some ls =>
    have hc := hF.core _ _ hlay
    obtain ⟨he, hek⟩ := (lookF_some_iff hlay hc (KT.ofKey_wf rest) e).mp h
    have := hF.down _ _ hlay e he (by rw [hek, ofKey_len_long hl])
    rw [hek, ofKey_slice_long hl] at this
    exact this

/-- the entry found for a short key carries a value -/
theorem val_of_lookF_short {t : Tree} (hF : FCore (lay t)) {p : List UInt8} {rest : Key} {e : Ent}
    (h : lookF (lay t) p (KT.ofKey rest) = some e) (hl : ¬ rest.length > 8) : e.val ≠ none := by
  cases hlay : lay t p with
  | none => rw [lookF_of_none hlay] at h; cases h
  | some ls =>
    have hc := hF.core _ _ hlay
    obtain ⟨he, hek⟩ := (lookF_some_iff hlay hc (KT.ofKey_wf rest) e).mp h
    intro hv
    have := (layerEnts_wf hc he).2.mp hv
    rw [hek] at this
    exact ofKey_len_ne9 hl this

theorem PutGood.lift {t t' : Tree} {p : List UInt8} {rest : Key} {v : Val} {e : Ent}
    (hlook : lookF (lay t) p (KT.ofKey rest) = some e) (hl : rest.length > 8)
    (h : PutGood t t' (p ++ rest.take 8) (rest.drop 8) v) : PutGood t t' p rest v := by
  have hs8 := take8_len hl
  refine ⟨h.nodup, h.core, h.empt, ?_, ?_⟩
  · intro q hq
    exact h.frame q (fun h' => hq (List.IsPrefix.trans (List.prefix_append _ _) h'))
  · intro rest'
    have hp : lay t' p = lay t p := h.frame p (not_prefix_append_self _ _ (ne_nil_of_len8 hs8))
    have hlk : ∀ k, lookF (lay t') p k = lookF (lay t) p k := fun k => lookF_congr_lay hp k
    cases hm : lookF (lay t) p (KT.ofKey rest') with
    | none =>
      have hne : rest' ≠ rest := by intro e'; subst e'; rw [hlook] at hm; cases hm
      rw [if_neg hne, walkM_none hm, walkM_none (by rw [hlk]; exact hm)]
    | some e' =>
      by_cases hl' : rest'.length > 8
      · rw [walkM_long hm hl', walkM_long (by rw [hlk]; exact hm) hl']
        by_cases ht : rest'.take 8 = rest.take 8
        · rw [ht, h.walk]
          by_cases e1 : rest' = rest
          · rw [if_pos e1, if_pos ((eq_iff_drop8 ht).mp e1)]
          · rw [if_neg e1, if_neg (fun h => e1 ((eq_iff_drop8 ht).mpr h))]
        · have hne : rest' ≠ rest := by intro e'; subst e'; exact ht rfl
          rw [if_neg hne]
          apply walkM_congr
          intro q k hq _
          apply lookF_congr_lay
          apply h.frame
          exact fun h' => not_prefix_of_slice_ne hs8 (take8_len hl') ht hq h'
      · have hne : rest' ≠ rest := by intro e'; subst e'; exact hl' hl
        rw [if_neg hne, walkM_short hm hl', walkM_short (by rw [hlk]; exact hm) hl']

theorem putAt_spec {t : Tree} (hnd : (t.map (·.pfx)).Nodup) (hF : FCore (lay t)) (hE : FEmpt (lay t))
    (v : Val) (u : Bool) : ∀ (rest : Key) (p : List UInt8), (lay t p).isSome → (p = [] ∨ rest ≠ []) →
    ((walkM (lookF (lay t)) p rest).isSome = true → u = true →
      (putAt t p rest v u).status = .WARN_UNIQUE_RESTRICTION ∧ (putAt t p rest v u).tree = t) ∧
    ((walkM (lookF (lay t)) p rest = none ∨ u = false) →
      (putAt t p rest v u).status = .OK ∧ PutGood t (putAt t p rest v u).tree p rest v) := by
  intro rest
  induction hn : rest.length using Nat.strongRecOn generalizing rest with
  | _ n ih =>
    intro p hp hpr
    cases hL : findLayer t p with
    | none => rw [lay_isSome, hL] at hp; cases hp
    | some L =>
      have hLp : L.pfx = p := (findLayer_some hL).1
      rw [putAt, hL]
      dsimp only
      cases hlk : leafLookup (KT.ofKey rest)
          (leafKeys (L.leaves.getD (route (KT.ofKey rest) L.leaves) emptyLeaf)) with
      | none =>
        have hg := layerGet_of_lookup_none hlk
        have hw : walkM (lookF (lay t)) p rest = none := by
          apply walkM_none; rw [lookF_lay hL]; exact hg
        dsimp only
        rw [insertInto_eq]
        refine ⟨?_, ?_⟩
        · intro h; rw [hw] at h; cases h
        · intro _
          exact ⟨rfl, put_insert_tree hnd hF hE hL hg hpr v⟩
      | some r =>
        have hg := layerGet_of_lookup hlk
        have hlook := (lookF_lay hL (KT.ofKey rest)).trans hg
        dsimp only
        by_cases hl : rest.length > 8
        · rw [dif_pos hl, walkM_long hlook hl]
          have := ih (rest.drop 8).length (by simp only [List.length_drop]; omega) (rest.drop 8) rfl
            (p ++ rest.take 8) (down_of_lookF hF hlook hl) (Or.inr (drop8_ne_nil hl))
          refine ⟨this.1, ?_⟩
          intro h
          obtain ⟨h1, h2⟩ := this.2 h
          exact ⟨h1, h2.lift hlook hl⟩
        · rw [dif_neg hl, walkM_short hlook hl]
          have hval := val_of_lookF_short hF hlook hl
          cases u with
          | true =>
            rw [if_pos rfl]
            refine ⟨fun _ _ => ⟨rfl, rfl⟩, ?_⟩
            rintro (h | h)
            · exact absurd h hval
            · cases h
          | false =>
            rw [if_neg (by simp)]
            refine ⟨fun _ h => (by cases h), fun _ => ⟨rfl, ?_⟩⟩
            exact (put_update_tree hnd hF hE hL hl rfl rfl hlk v).1

/-! ### C02: put and unique put -/

theorem lay_root_isSome {t : Tree} (hF : FCore (lay t)) : (lay t []).isSome := hF.root

theorem put_refines (t : Tree) (k : Key) (v : Val) (h : Inv t) :
    (put t k v false).status = Status.OK ∧ Inv (put t k v false).tree ∧
    ∀ k', (get (put t k v false).tree k').val = if k' = k then some v else (get t k').val := by
  obtain ⟨hnd, hF, hE⟩ := (inv_iff t).mp h
  obtain ⟨h1, h2⟩ := (putAt_spec hnd hF hE v false k [] hF.root (Or.inl rfl)).2 (Or.inr rfl)
  refine ⟨h1, (inv_iff _).mpr ⟨h2.nodup, h2.core, h2.empt⟩, ?_⟩
  intro k'
  unfold get
  rw [getAt_val, getAt_val]
  exact h2.walk k'

theorem uput_refines (t : Tree) (k : Key) (v : Val) (h : Inv t) :
    (((get t k).val).isSome = true →
      (put t k v true).status = Status.WARN_UNIQUE_RESTRICTION ∧ (put t k v true).tree = t) ∧
    ((get t k).val = none → (put t k v true).status = Status.OK ∧ Inv (put t k v true).tree ∧
      ∀ k', (get (put t k v true).tree k').val = if k' = k then some v else (get t k').val) := by
  obtain ⟨hnd, hF, hE⟩ := (inv_iff t).mp h
  have hs := putAt_spec hnd hF hE v true k [] hF.root (Or.inl rfl)
  unfold get at *
  rw [getAt_val]
  refine ⟨fun hk => hs.1 hk rfl, ?_⟩
  intro hk
  obtain ⟨h1, h2⟩ := hs.2 (Or.inl hk)
  refine ⟨h1, (inv_iff _).mpr ⟨h2.nodup, h2.core, h2.empt⟩, ?_⟩
  intro k'
  rw [getAt_val, getAt_val]
  exact h2.walk k'

theorem get_refines (t : Tree) (k : Key) (h : Inv t) :
    (get t k).status = (if ((get t k).val).isSome then Status.OK else Status.WARN_NOT_EXIST) := by
  obtain ⟨_, hF, _⟩ := (inv_iff t).mp h
  unfold get
  rw [getAt_val]
  exact getAt_status hF [] k hF.root

theorem inv_empty : Inv Tree.empty ∧ ∀ k, (get Tree.empty k).val = none := by
  refine ⟨by decide, ?_⟩
  intro k
  unfold get
  rw [getAt_val]
  apply walkM_none
  unfold lookF lay findLayer Tree.empty
  simp [layerGet, leafGet, route, routeFrom, emptyLeaf, leafKeys, leafLookup]

end Yak.Tree
