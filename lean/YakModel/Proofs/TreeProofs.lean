import YakModel.Proofs.RemoveMain
import YakModel.Proofs.ContentProofs
/-!
# The lemmas the property files C02, C08 and C12 refer to

`inv_empty`, `get_refines`, `put_refines`, `uput_refines` (PutMain), `remove_refines` (RemoveMain),
`put_update_changes_nothing`, `put_insert_reports` (PutReports), `lookup_iff_content`,
`content_sorted` (ContentProofs) live in the imported files.
-/
namespace Yak.Tree
open Yak

theorem pairwise_of_chain : ∀ (ls : List Leaf) (a : Leaf), (∀ l ∈ ls, ∃ f, l.fence = some f) →
    beforeChain (a :: ls) = true → (a :: ls).Pairwise Before
  | [], _, _, _ => by simp
  | b :: r, a, hf, hc => by
    simp only [beforeChain, Bool.and_eq_true, decide_eq_true_eq] at hc
    have ih := pairwise_of_chain r b (fun l hl => hf l (by simp [hl])) hc.2
    rw [List.pairwise_cons]
    refine ⟨?_, ih⟩
    intro c hcm
    rcases List.mem_cons.mp hcm with e | hcr
    · subst e; exact hc.1
    · rw [List.pairwise_cons] at ih
      obtain ⟨g, hg⟩ := hf b (by simp)
      intro f hfc
      have h1 := ih.1 c hcr f hfc
      have h2 := hc.1 g hg
      exact ⟨fun g' hg' => KT.ltSpec_trans _ _ _ (h2.1 g' hg') (h1.1 g hg),
        fun e he => KT.ltSpec_trans _ _ _ (h2.2 e he) (h1.1 g hg)⟩

theorem chain_of_pairwise : ∀ (ls : List Leaf), ls.Pairwise Before → beforeChain ls = true
  | [], _ => rfl
  | [_], _ => rfl
  | a :: b :: r, h => by
    rw [List.pairwise_cons] at h
    simp only [beforeChain, Bool.and_eq_true, decide_eq_true_eq]
    exact ⟨h.1 b (by simp), chain_of_pairwise (b :: r) h.2⟩

theorem layerCoreFast_iff (ls : List Leaf) : LayerCoreFast ls ↔ LayerCore ls := by
  unfold LayerCoreFast LayerCore
  constructor
  · rintro ⟨h1, h2, h3⟩
    refine ⟨h1, ?_, h3⟩
    cases ls with
    | nil => exact List.Pairwise.nil
    | cons a r =>
      apply pairwise_of_chain r a _ h2
      intro l hl
      obtain ⟨f, hf, _⟩ := h1.tail_fence l hl
      exact ⟨f, hf⟩
  · rintro ⟨h1, h2, h3⟩
    exact ⟨h1, chain_of_pairwise ls h2, h3⟩

theorem invFast_iff (t : Tree) : InvFast t ↔ Inv t := by
  unfold InvFast Inv LayerOKFast LayerOK
  simp only [layerCoreFast_iff]

theorem checkInv_iff (t : Tree) : checkInv t = true ↔ Inv t := by
  unfold checkInv; exact decide_eq_true_iff.trans (invFast_iff t)

end Yak.Tree
