import YakModel.Storage
import YakModel.Proofs.KeyOrderProofs
/-!
# Proofs about the storage directory (C13)

The directory is an association list; `find` is `find?` on the name. Everything is by induction on
the list. `list` is a `mergeSort` by `¬ (b < a)`: the core lemma `List.pairwise_mergeSort` gives
`≤`-sortedness from totality and transitivity of `lexLt`; distinct names (a permutation of the
directory's names) make it strict.
-/
namespace Yak.Storage
open Yak Yak.Tree

/-! ### `find` -/

theorem find_nil (n : Name) : find [] n = none := rfl

theorem find_cons (x : Name × Tree) (s : Stores) (n : Name) :
    find (x :: s) n = if x.1 = n then some x.2 else find s n := by
  unfold find
  rw [List.find?_cons]
  by_cases h : x.1 = n
  · simp [h]
  · have : (x.1 == n) = false := by simpa using h
    simp [this, h]

theorem find_isSome_iff (s : Stores) (n : Name) : (find s n).isSome = true ↔ n ∈ s.map (·.1) := by
  induction s with
  | nil => simp [find_nil]
  | cons x s ih =>
    rw [find_cons]
    by_cases h : x.1 = n
    · simp [h]
    · have h' : ¬ n = x.1 := fun e => h e.symm
      simp [h, h', ih]

theorem find_eq_none_iff (s : Stores) (n : Name) : find s n = none ↔ n ∉ s.map (·.1) := by
  rw [← find_isSome_iff]
  cases find s n <;> simp

theorem find_append (s s' : Stores) (n : Name) :
    find (s ++ s') n = (find s n).or (find s' n) := by
  induction s with
  | nil => simp [find_nil]
  | cons x s ih =>
    rw [List.cons_append, find_cons, find_cons]
    by_cases h : x.1 = n
    · simp [h]
    · simp [h, ih]

theorem find_filter_ne (s : Stores) (n m : Name) (h : m ≠ n) :
    find (s.filter (·.1 != n)) m = find s m := by
  induction s with
  | nil => rfl
  | cons x s ih =>
    rw [List.filter_cons]
    by_cases hx : x.1 = n
    · have hm : ¬ x.1 = m := fun e => h (e.symm.trans hx)
      simp only [hx, bne_self_eq_false, Bool.false_eq_true, if_false]
      rw [ih, find_cons, if_neg (hx ▸ hm)]
    · have : (x.1 != n) = true := by simpa using hx
      simp only [this, if_true]
      rw [find_cons, find_cons, ih]

theorem find_filter_self (s : Stores) (n : Name) : find (s.filter (·.1 != n)) n = none := by
  rw [find_eq_none_iff]
  simp

/-! ### create / delete -/

theorem create_spec (s : Stores) (n : Name) (h : (s.map (·.1)).Nodup) :
    ((find s n).isSome = true → create s n = (s, Status.WARN_UNIQUE_RESTRICTION)) ∧
    ((find s n) = none → (create s n).2 = Status.OK ∧ ((create s n).1.map (·.1)).Nodup ∧
       find (create s n).1 n = some Tree.empty ∧ ∀ m, m ≠ n → find (create s n).1 m = find s m) := by
  constructor
  · intro hf
    unfold create; rw [if_pos hf]
  · intro hf
    have hc : create s n = (s ++ [(n, Tree.empty)], Status.OK) := by
      unfold create; rw [hf]; rfl
    rw [hc]
    refine ⟨rfl, ?_, ?_, ?_⟩
    · simp only [List.map_append, List.map_cons, List.map_nil]
      rw [List.nodup_append]
      refine ⟨h, by simp, ?_⟩
      intro a ha b hb
      simp only [List.mem_singleton] at hb
      subst hb
      intro e; subst e
      exact (find_eq_none_iff s a).1 hf ha
    · simp only
      rw [find_append, hf, find_cons]; simp
    · intro m hm
      simp only
      rw [find_append, find_cons, if_neg (fun e => hm e.symm), find_nil]
      cases find s m <;> rfl

theorem delete_spec (s : Stores) (n : Name) (h : (s.map (·.1)).Nodup) :
    ((find s n) = none → delete s n = (s, Status.WARN_NOT_EXIST)) ∧
    ((find s n).isSome = true → (delete s n).2 = Status.OK ∧ ((delete s n).1.map (·.1)).Nodup ∧
       find (delete s n).1 n = none ∧ ∀ m, m ≠ n → find (delete s n).1 m = find s m) := by
  constructor
  · intro hf
    unfold delete; rw [hf]; rfl
  · intro hf
    have hd : delete s n = (s.filter (·.1 != n), Status.OK) := by
      unfold delete; rw [if_pos hf]
    rw [hd]
    refine ⟨rfl, ?_, find_filter_self s n, fun m hm => find_filter_ne s n m hm⟩
    exact (List.filter_sublist.map _).nodup h

/-! ### set -/

theorem set_names (s : Stores) (n : Name) (t : Tree) : (set s n t).map (·.1) = s.map (·.1) := by
  unfold set
  rw [List.map_map]
  apply List.map_congr_left
  intro x _
  simp only [Function.comp]
  by_cases hx : x.1 = n
  · simp [hx]
  · have : (x.1 == n) = false := by simpa using hx
    simp [this]

theorem set_cons (x : Name × Tree) (s : Stores) (n : Name) (t : Tree) :
    set (x :: s) n t = (if x.1 = n then (n, t) else x) :: set s n t := by
  unfold set
  rw [List.map_cons]
  by_cases hx : x.1 = n
  · simp [hx]
  · have : (x.1 == n) = false := by simpa using hx
    simp [this, hx]

theorem set_other (s : Stores) (n m : Name) (t : Tree) (h : m ≠ n) :
    find (set s n t) m = find s m := by
  induction s with
  | nil => rfl
  | cons x s ih =>
    rw [set_cons, find_cons, find_cons, ih]
    by_cases hx : x.1 = n
    · have hnm : ¬ n = m := fun e => h e.symm
      simp [hx, hnm]
    · simp [hx]

theorem find_set_same (s : Stores) (n : Name) (t : Tree) (he : (find s n).isSome = true) :
    find (set s n t) n = some t := by
  induction s with
  | nil => simp [find_nil] at he
  | cons x s ih =>
    rw [set_cons, find_cons]
    rw [find_cons] at he
    by_cases hx : x.1 = n
    · simp [hx]
    · simp only [hx, if_false] at he ⊢
      exact ih he

theorem set_same (s : Stores) (n : Name) (t : Tree) (h : (s.map (·.1)).Nodup)
    (he : (find s n).isSome = true) :
    find (set s n t) n = some t ∧ ((set s n t).map (·.1)).Nodup :=
  ⟨find_set_same s n t he, by rw [set_names]; exact h⟩

/-! ### list -/

theorem list_sorted (s : Stores) (h : (s.map (·.1)).Nodup) :
    (list s).Pairwise (fun a b => lexLt a b = true) ∧ ∀ n, n ∈ list s ↔ (find s n).isSome = true := by
  unfold list
  constructor
  · have hle : ((s.map (·.1)).mergeSort (fun a b => !lexLt b a)).Pairwise
        (fun a b => (!lexLt b a) = true) := by
      apply List.pairwise_mergeSort
      · intro a b c hab hbc
        simp only [Bool.not_eq_true'] at hab hbc ⊢
        -- ¬ b<a, ¬ c<b ⊢ ¬ c<a
        cases hca : lexLt c a
        · rfl
        · rcases lexLt_total a b with h1 | h1 | h1
          · -- c < a < b contradicts ¬ c<b
            rw [lexLt_trans c a b hca h1] at hbc; cases hbc
          · subst h1; rw [hca] at hbc; cases hbc
          · rw [h1] at hab; cases hab
      · intro a b
        simp only [Bool.or_eq_true, Bool.not_eq_true']
        cases hba : lexLt b a
        · exact Or.inl rfl
        · exact Or.inr (lexLt_asymm b a hba)
    have hnd : ((s.map (·.1)).mergeSort (fun a b => !lexLt b a)).Nodup :=
      (List.mergeSort_perm _ _).nodup_iff.2 h
    have := hle.and hnd
    refine this.imp ?_
    intro a b hab
    obtain ⟨h1, h2⟩ := hab
    simp only [Bool.not_eq_true'] at h1
    rcases lexLt_total a b with h3 | h3 | h3
    · exact h3
    · exact absurd h3 h2
    · rw [h3] at h1; cases h1
  · intro n
    rw [List.mem_mergeSort, find_isSome_iff]

/-! ### withTree -/

theorem withTree_missing {α} (s : Stores) (n : Name) (missing : α) (f : Tree → α)
    (h : find s n = none) : withTree s n missing f = missing := by
  unfold withTree; rw [h]

/-! ### repeated creates -/

private theorem foldl_const_comm {α β} (f : α → α) (l : List β) (a : α) :
    l.foldl (fun c _ => f c) (f a) = f (l.foldl (fun c _ => f c) a) := by
  induction l generalizing a with
  | nil => rfl
  | cons x xs ih => simp only [List.foldl_cons]; exact ih (f a)

private theorem foldl_range_succ_const {α} (f : α → α) (i : Nat) (a : α) :
    (List.range (i + 1)).foldl (fun c _ => f c) a = (List.range i).foldl (fun c _ => f c) (f a) := by
  rw [List.range_succ, List.foldl_append, foldl_const_comm]; rfl

/-- once the name exists every further create is rejected -/
private theorem creates_after (s : Stores) (n : Name) (he : (find s n).isSome = true) (k : Nat)
    (acc : List Status) :
    ((List.range k).foldl
      (fun (acc : Stores × List Status) _ => let r := create acc.1 n; (r.1, acc.2 ++ [r.2])) (s, acc)).2.count
        Status.OK = acc.count Status.OK := by
  induction k generalizing acc with
  | zero => rfl
  | succ k ih =>
    rw [foldl_range_succ_const
      (fun (acc : Stores × List Status) => let r := create acc.1 n; (r.1, acc.2 ++ [r.2]))]
    have hc : create s n = (s, Status.WARN_UNIQUE_RESTRICTION) := by unfold create; rw [if_pos he]
    simp only [hc]
    rw [ih]
    simp

theorem one_winner (s : Stores) (n : Name) (h : (s.map (·.1)).Nodup) (ha : find s n = none)
    (k : Nat) (hk : 0 < k) :
    let run := (List.range k).foldl
      (fun (acc : Stores × List Status) _ => let r := create acc.1 n; (r.1, acc.2 ++ [r.2])) (s, [])
    run.2.count Status.OK = 1 := by
  intro run
  obtain ⟨k, rfl⟩ : ∃ k', k = k' + 1 := ⟨k - 1, by omega⟩
  have hspec := (create_spec s n h).2 ha
  have hrun : run = (List.range k).foldl
      (fun (acc : Stores × List Status) _ => let r := create acc.1 n; (r.1, acc.2 ++ [r.2]))
      ((create s n).1, [] ++ [(create s n).2]) := by
    show (List.range (k + 1)).foldl _ _ = _
    rw [foldl_range_succ_const
      (fun (acc : Stores × List Status) => let r := create acc.1 n; (r.1, acc.2 ++ [r.2]))]
  rw [hrun, creates_after _ n (by rw [hspec.2.2.1]; rfl), hspec.1]
  rfl

end Yak.Storage
