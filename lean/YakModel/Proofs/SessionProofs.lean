import YakModel.Proto.Session
/-!
# Invariants of the session table model `Session`

* `step?_iff` : the executable acceptor and the relation `Step` coincide.
* `Inv` : slot ownership. Every slot whose `running` flag is set is *claimed* by exactly one
  (thread, call) — a thread between its successful CAS and its `running := false` store — and
  conversely. This gives distinct tokens and the capacity bound.
* `BInv` : `begin[i]` is a valid (non-zero, not in the future) epoch from the moment the token is
  about to be returned until `leave` is called.
* solo runs of `enter` in a quiescent state (`SoloInv`) : deterministic outcome = lowest free slot.
* history lemmas (`Obs`) : an `enter` that gives up has observed every slot occupied.
-/
namespace Yak.Proto.Session

theorem upd_same {α} (f : Nat → α) (t : Nat) (v : α) : upd f t v t = v := by simp [upd]
theorem upd_other {α} (f : Nat → α) (t : Nat) (v : α) (i : Nat) (h : i ≠ t) : upd f t v i = f i := by
  simp [upd, h]

/-! ## `step?` = `Step` -/

theorem step?_of_Step {c : Cfg} {s s' : State} {e : Event} (h : Step c s e s') :
    step? c s e = some s' := by
  cases h <;> simp_all [step?, scanIdx]

theorem Step_of_step? {c : Cfg} {s s' : State} {e : Event} (h : step? c s e = some s') :
    Step c s e s' := by
  cases e with
  | ldRunning t i v =>
    simp only [step?] at h
    split at h
    · rename_i hc
      obtain ⟨h1, h2, h3⟩ := hc
      subst h3
      cases h
      exact Step.ldRunning s t i h1 h2
    · cases h
  | casRunning t i ok =>
    simp only [step?] at h
    split at h
    · rename_i hpc
      cases ok with
      | true =>
        simp only [if_true] at h
        split at h
        · rename_i hf; cases h; exact Step.casOk s t i hpc hf
        · cases h
      | false =>
        simp only [Bool.false_eq_true, if_false] at h
        cases h; exact Step.casFail s t i hpc
    · cases h
  | ldEpoch t e =>
    simp only [step?] at h
    split at h
    · rename_i i hpc
      split at h
      · rename_i he; subst he; cases h; exact Step.ldEpoch s t i hpc
      · cases h
    · cases h
  | stBegin t i e =>
    simp only [step?] at h
    split at h
    · rename_i hpc; cases h; exact Step.stBeginEnter s t i e hpc
    · split at h
      · rename_i hc; obtain ⟨hpc, he⟩ := hc; subst he; cases h; exact Step.stBeginLeave s t i hpc
      · cases h
  | enterRet t tok =>
    cases tok with
    | some i =>
      simp only [step?] at h
      split at h
      · rename_i hpc; cases h; exact Step.enterRetOk s t i hpc
      · cases h
    | none =>
      simp only [step?] at h
      split at h
      · rename_i i hpc
        split at h
        · rename_i hi; cases h; exact Step.enterRetFull s t i hpc hi
        · cases h
      · cases h
  | leaveCall t i =>
    simp only [step?] at h
    split at h
    · rename_i hc; cases h; exact Step.leaveCall s t i hc.1 hc.2
    · cases h
  | stRunning t i v =>
    simp only [step?] at h
    split at h
    · rename_i hc; obtain ⟨hpc, hv⟩ := hc; subst hv; cases h; exact Step.stRunning s t i hpc
    · cases h
  | leaveRet t =>
    simp only [step?] at h
    split at h
    · rename_i i hpc; cases h; exact Step.leaveRet s t i hpc
    · cases h
  | epochInc =>
    simp only [step?] at h
    cases h; exact Step.epochInc s

theorem step?_iff {c : Cfg} {s s' : State} {e : Event} : step? c s e = some s' ↔ Step c s e s' :=
  ⟨Step_of_step?, step?_of_Step⟩

/-! ## slot ownership -/

theorem pcClaim_afterTest (i : Nat) (v : Bool) : pcClaim (afterTest i v) = [] := by
  cases v <;> rfl

theorem pcClaim_of_scanIdx {p : Pc} {i : Nat} (h : scanIdx p = some i) : pcClaim p = [] := by
  cases p <;> simp_all [scanIdx, pcClaim]

theorem held_sub_claims {s : State} {t i : Nat} (h : i ∈ s.held t) : i ∈ claims s t :=
  List.mem_append_right _ h

structure Inv (c : Cfg) (s : State) : Prop where
  nodup : ∀ t, (claims s t).Nodup
  excl : ∀ t1 t2 i, i ∈ claims s t1 → i ∈ claims s t2 → t1 = t2
  occ : ∀ t i, i ∈ claims s t → s.running i = true ∧ i < c.N
  owned : ∀ i, s.running i = true → ∃ t, i ∈ claims s t
  cas_lt : ∀ t i, s.pc t = .cas i → i < c.N

theorem inv_init (c : Cfg) : Inv c (init c) := by
  constructor <;> simp [init, claims, pcClaim]

/-- steps that move a claim around inside one thread (or do not touch claims at all) -/
theorem inv_of_perm {c : Cfg} {s s' : State} (hinv : Inv c s) (hrun : s'.running = s.running)
    (hperm : ∀ t, (claims s' t).Perm (claims s t))
    (hcas : ∀ t i, s'.pc t = .cas i → i < c.N) : Inv c s' := by
  obtain ⟨I1, I2, I3, I4, _⟩ := hinv
  refine ⟨?_, ?_, ?_, ?_, hcas⟩
  · intro t; exact (hperm t).nodup_iff.mpr (I1 t)
  · intro t1 t2 i h1 h2
    exact I2 t1 t2 i ((hperm t1).mem_iff.mp h1) ((hperm t2).mem_iff.mp h2)
  · intro t i h; rw [hrun]; exact I3 t i ((hperm t).mem_iff.mp h)
  · intro i h
    rw [hrun] at h
    obtain ⟨t, ht⟩ := I4 i h
    exact ⟨t, (hperm t).mem_iff.mpr ht⟩

theorem claims_upd_other (s : State) (t : Nat) (p : Pc) (h : List Nat) (r : Nat → Bool)
    (b : Nat → Nat) (e : Nat) (t' : Nat) (ht : t' ≠ t) :
    claims ⟨r, b, e, upd s.pc t p, upd s.held t h⟩ t' = claims s t' := by
  simp [claims, upd_other _ _ _ _ ht]

theorem claims_upd_same (s : State) (t : Nat) (p : Pc) (h : List Nat) (r : Nat → Bool)
    (b : Nat → Nat) (e : Nat) :
    claims ⟨r, b, e, upd s.pc t p, upd s.held t h⟩ t = pcClaim p ++ h := by
  simp [claims, upd_same]

theorem upd_self {α} (f : Nat → α) (t : Nat) : upd f t (f t) = f := by
  funext i
  by_cases h : i = t
  · subst h; exact upd_same _ _ _
  · exact upd_other _ _ _ _ h

/-- generic form of a step that rewrites thread `t`'s pc and held list only -/
theorem inv_local {c : Cfg} {s : State} (hinv : Inv c s) (t : Nat) (p : Pc) (h : List Nat)
    (b : Nat → Nat) (e : Nat)
    (hperm : (pcClaim p ++ h).Perm (claims s t))
    (hcas : ∀ i, p = .cas i → i < c.N) :
    Inv c ⟨s.running, b, e, upd s.pc t p, upd s.held t h⟩ := by
  refine inv_of_perm (s' := ⟨s.running, b, e, upd s.pc t p, upd s.held t h⟩) hinv rfl ?_ ?_
  · intro t'
    by_cases ht : t' = t
    · subst ht; rw [claims_upd_same]; exact hperm
    · rw [claims_upd_other _ _ _ _ _ _ _ _ ht]
  · intro t' i hpc
    by_cases ht : t' = t
    · subst ht; simp only [upd_same] at hpc; exact hcas i hpc
    · simp only [upd_other _ _ _ _ ht] at hpc; exact hinv.cas_lt t' i hpc

theorem afterTest_cas {i j : Nat} {v : Bool} (h : afterTest i v = .cas j) : j = i := by
  cases v <;> simp [afterTest] at h
  exact h.symm

theorem inv_step {c : Cfg} {s s' : State} {e : Event} (hinv : Inv c s) (hs : Step c s e s') :
    Inv c s' := by
  cases hs with
  | ldRunning t i hpc hi =>
    have := inv_local hinv t (afterTest i (s.running i)) (s.held t) s.begin s.epoch
      (by rw [pcClaim_afterTest, claims, pcClaim_of_scanIdx hpc])
      (by intro j hj; rw [afterTest_cas hj]; exact hi)
    rwa [upd_self] at this
  | casFail t i hpc =>
    have := inv_local hinv t (afterTest i (s.running i)) (s.held t) s.begin s.epoch
      (by rw [pcClaim_afterTest]; simp [claims, hpc, pcClaim])
      (by intro j hj; rw [afterTest_cas hj]; exact hinv.cas_lt t i hpc)
    rwa [upd_self] at this
  | ldEpoch t i hpc =>
    have := inv_local hinv t (.gotEpoch i s.epoch) (s.held t) s.begin s.epoch
      (by simp [claims, hpc, pcClaim]) (by intro j hj; cases hj)
    rwa [upd_self] at this
  | stBeginEnter t i e hpc =>
    have := inv_local hinv t (.ret i) (s.held t) (upd s.begin i e) s.epoch
      (by simp [claims, hpc, pcClaim]) (by intro j hj; cases hj)
    rwa [upd_self] at this
  | enterRetOk t i hpc =>
    exact inv_local hinv t .idle (i :: s.held t) s.begin s.epoch
      (by simp [claims, hpc, pcClaim]) (by intro j hj; cases hj)
  | enterRetFull t i hpc hi =>
    have := inv_local hinv t .idle (s.held t) s.begin s.epoch
      (by rw [claims, pcClaim_of_scanIdx hpc]; simp [pcClaim]) (by intro j hj; cases hj)
    rwa [upd_self] at this
  | leaveCall t i hpc hown =>
    exact inv_local hinv t (.lvBegin i) ((s.held t).erase i) s.begin s.epoch
      (by simpa [claims, hpc, pcClaim] using (List.perm_cons_erase hown).symm)
      (by intro j hj; cases hj)
  | stBeginLeave t i hpc =>
    have := inv_local hinv t (.lvRun i) (s.held t) (upd s.begin i 0) s.epoch
      (by simp [claims, hpc, pcClaim]) (by intro j hj; cases hj)
    rwa [upd_self] at this
  | leaveRet t i hpc =>
    have := inv_local hinv t .idle (s.held t) s.begin s.epoch
      (by simp [claims, hpc, pcClaim]) (by intro j hj; cases hj)
    rwa [upd_self] at this
  | epochInc => exact ⟨hinv.nodup, hinv.excl, hinv.occ, hinv.owned, hinv.cas_lt⟩
  | casOk t i hpc hfree =>
    -- nobody claimed slot `i` (its flag was clear); now `t` does
    have hnone : ∀ t', i ∉ claims s t' := by
      intro t' h
      have := (hinv.occ t' i h).1
      rw [hfree] at this; cases this
    have hcl : ∀ t', claims ⟨upd s.running i true, s.begin, s.epoch, upd s.pc t (.won i), s.held⟩ t'
        = if t' = t then i :: claims s t else claims s t' := by
      intro t'
      by_cases ht : t' = t
      · subst ht; simp [claims, upd_same, pcClaim, hpc]
      · simp [claims, upd_other _ _ _ _ ht, ht]
    refine ⟨?_, ?_, ?_, ?_, ?_⟩
    · intro t'
      rw [hcl]
      by_cases ht : t' = t
      · subst ht; simp only [if_true]; exact List.nodup_cons.mpr ⟨hnone _, hinv.nodup _⟩
      · simp only [ht, if_false]; exact hinv.nodup t'
    · intro t1 t2 j h1 h2
      rw [hcl] at h1 h2
      by_cases hj : j = i
      · subst hj
        have e1 : t1 = t := by
          by_cases ht : t1 = t
          · exact ht
          · simp only [ht, if_false] at h1; exact absurd h1 (hnone _)
        have e2 : t2 = t := by
          by_cases ht : t2 = t
          · exact ht
          · simp only [ht, if_false] at h2; exact absurd h2 (hnone _)
        rw [e1, e2]
      · have h1' : j ∈ claims s t1 := by
          by_cases ht : t1 = t
          · subst ht; simpa [hj] using h1
          · simpa [ht] using h1
        have h2' : j ∈ claims s t2 := by
          by_cases ht : t2 = t
          · subst ht; simpa [hj] using h2
          · simpa [ht] using h2
        exact hinv.excl t1 t2 j h1' h2'
    · intro t' j h
      rw [hcl] at h
      by_cases hj : j = i
      · subst hj; exact ⟨upd_same _ _ _, hinv.cas_lt t j hpc⟩
      · have h' : j ∈ claims s t' := by
          by_cases ht : t' = t
          · subst ht; simpa [hj] using h
          · simpa [ht] using h
        show upd s.running i true j = true ∧ j < c.N
        rw [upd_other _ _ _ _ hj]
        exact hinv.occ t' j h'
    · intro j h
      by_cases hj : j = i
      · subst hj; exact ⟨t, by rw [hcl]; simp⟩
      · have h' : s.running j = true := by
          have : upd s.running i true j = true := h
          rwa [upd_other _ _ _ _ hj] at this
        obtain ⟨t', ht'⟩ := hinv.owned j h'
        refine ⟨t', ?_⟩
        rw [hcl]
        by_cases ht : t' = t
        · subst ht; simp [ht']
        · simp [ht, ht']
    · intro t' j hpc'
      by_cases ht : t' = t
      · subst ht
        have : upd s.pc t' (.won i) t' = .cas j := hpc'
        rw [upd_same] at this; cases this
      · have : upd s.pc t (.won i) t' = .cas j := hpc'
        rw [upd_other _ _ _ _ ht] at this
        exact hinv.cas_lt t' j this
  | stRunning t i hpc =>
    -- `t`'s claim on slot `i` ends; nobody else had one
    have hmine : i ∈ claims s t := by simp [claims, hpc, pcClaim]
    have hnotheld : i ∉ s.held t := by
      have := hinv.nodup t
      simp only [claims, hpc, pcClaim] at this
      exact (List.nodup_cons.mp this).1
    have hcl : ∀ t', claims ⟨upd s.running i false, s.begin, s.epoch, upd s.pc t (.lvRet i), s.held⟩ t'
        = if t' = t then s.held t else claims s t' := by
      intro t'
      by_cases ht : t' = t
      · subst ht; simp [claims, upd_same, pcClaim]
      · simp [claims, upd_other _ _ _ _ ht, ht]
    have hsub : ∀ t' j, j ∈ (if t' = t then s.held t else claims s t') → j ∈ claims s t' ∧ j ≠ i := by
      intro t' j h
      by_cases ht : t' = t
      · subst ht
        simp only [if_true] at h
        exact ⟨held_sub_claims h, fun e => hnotheld (e ▸ h)⟩
      · simp only [ht, if_false] at h
        refine ⟨h, fun e => ?_⟩
        subst e
        exact ht (hinv.excl t' t j h hmine)
    refine ⟨?_, ?_, ?_, ?_, ?_⟩
    · intro t'
      rw [hcl]
      by_cases ht : t' = t
      · subst ht
        simp only [if_true]
        have := hinv.nodup t'
        simp only [claims] at this
        exact (List.nodup_append.mp this).2.1
      · simp only [ht, if_false]; exact hinv.nodup t'
    · intro t1 t2 j h1 h2
      rw [hcl] at h1 h2
      exact hinv.excl t1 t2 j (hsub _ _ h1).1 (hsub _ _ h2).1
    · intro t' j h
      rw [hcl] at h
      obtain ⟨h', hj⟩ := hsub _ _ h
      show upd s.running i false j = true ∧ j < c.N
      rw [upd_other _ _ _ _ hj]
      exact hinv.occ t' j h'
    · intro j h
      have hj : j ≠ i := by
        intro e; subst e
        have : upd s.running j false j = true := h
        rw [upd_same] at this; cases this
      have h' : s.running j = true := by
        have : upd s.running i false j = true := h
        rwa [upd_other _ _ _ _ hj] at this
      obtain ⟨t', ht'⟩ := hinv.owned j h'
      refine ⟨t', ?_⟩
      rw [hcl]
      by_cases ht : t' = t
      · subst ht
        simp only [if_true]
        simp only [claims, hpc, pcClaim] at ht'
        rcases List.mem_append.mp ht' with h1 | h1
        · simp at h1; exact absurd h1 hj
        · exact h1
      · simp only [ht, if_false]; exact ht'
    · intro t' j hpc'
      by_cases ht : t' = t
      · subst ht
        have : upd s.pc t' (.lvRet i) t' = .cas j := hpc'
        rw [upd_same] at this; cases this
      · have : upd s.pc t (.lvRet i) t' = .cas j := hpc'
        rw [upd_other _ _ _ _ ht] at this
        exact hinv.cas_lt t' j this

theorem inv_reach {c : Cfg} {s : State} (h : Reach c s) : Inv c s := by
  induction h with
  | init => exact inv_init c
  | step _ hs ih => exact inv_step ih hs

/-! ## consequences: distinct tokens, capacity -/

theorem tokens_distinct {c : Cfg} {s : State} (h : Reach c s) :
    (∀ t1 t2 i, i ∈ s.held t1 → i ∈ s.held t2 → t1 = t2) ∧ (∀ t, (s.held t).Nodup) := by
  have hinv := inv_reach h
  refine ⟨fun t1 t2 i h1 h2 => hinv.excl t1 t2 i (held_sub_claims h1) (held_sub_claims h2), ?_⟩
  intro t
  have := hinv.nodup t
  simp only [claims] at this
  exact (List.nodup_append.mp this).2.1

theorem held_lt_running {c : Cfg} {s : State} (h : Reach c s) {t i : Nat} (hi : i ∈ s.held t) :
    i < c.N ∧ s.running i = true := by
  have := (inv_reach h).occ t i (held_sub_claims hi)
  exact ⟨this.2, this.1⟩

/-- pigeonhole: a duplicate-free list of numbers below `n` has at most `n` elements -/
theorem nodup_bounded_length : ∀ (n : Nat) (l : List Nat), l.Nodup → (∀ x ∈ l, x < n) → l.length ≤ n
  | 0, l, _, hb => by
    cases l with
    | nil => simp
    | cons a l => exact absurd (hb a (by simp)) (Nat.not_lt_zero _)
  | n + 1, l, hnd, hb => by
    have h1 : (l.erase n).Nodup := hnd.erase n
    have h2 : ∀ x ∈ l.erase n, x < n := by
      intro x hx
      have := (hnd.mem_erase_iff).mp hx
      have := hb x this.2
      omega
    have ih := nodup_bounded_length n (l.erase n) h1 h2
    have : l.length ≤ (l.erase n).length + 1 := by
      by_cases hm : n ∈ l
      · rw [List.length_erase_of_mem hm]; omega
      · rw [List.erase_of_not_mem hm]; omega
    omega

theorem flatMap_held_nodup {c : Cfg} {s : State} (h : Reach c s) :
    ∀ ts : List Nat, ts.Nodup → (ts.flatMap s.held).Nodup
  | [], _ => by simp
  | t :: ts, hnd => by
    have hd := tokens_distinct h
    rw [List.flatMap_cons]
    refine List.nodup_append.mpr ⟨hd.2 t, flatMap_held_nodup h ts (List.nodup_cons.mp hnd).2, ?_⟩
    intro a ha b hb hab
    subst hab
    obtain ⟨t', ht', hat'⟩ := List.mem_flatMap.mp hb
    have := hd.1 t t' a ha hat'
    subst this
    exact (List.nodup_cons.mp hnd).1 ht'

theorem open_le_capacity {c : Cfg} {s : State} (h : Reach c s) (ts : List Nat) (hts : ts.Nodup) :
    (ts.flatMap s.held).length ≤ c.N := by
  apply nodup_bounded_length _ _ (flatMap_held_nodup h ts hts)
  intro x hx
  obtain ⟨t, _, hxt⟩ := List.mem_flatMap.mp hx
  exact (held_lt_running h hxt).1

theorem sum_length_eq_flatMap (f : Nat → List Nat) :
    ∀ ts : List Nat, (ts.map (fun t => (f t).length)).sum = (ts.flatMap f).length
  | [] => rfl
  | t :: ts => by
    simp only [List.map_cons, List.sum_cons, List.flatMap_cons, List.length_append,
      sum_length_eq_flatMap f ts]

/-! ## `begin` is a valid epoch while the session is open -/

structure BInv (s : State) : Prop where
  epoch_pos : 1 ≤ s.epoch
  got : ∀ t i e, s.pc t = .gotEpoch i e → 1 ≤ e ∧ e ≤ s.epoch
  begun : ∀ t i, (s.pc t = .ret i ∨ i ∈ s.held t) → 1 ≤ s.begin i ∧ s.begin i ≤ s.epoch

theorem binv_init (c : Cfg) (h0 : 1 ≤ c.epoch0) : BInv (init c) := by
  constructor <;> simp [init, h0]

/-- a step that only rewrites `t`'s pc (to something other than `ret`) and maybe `running` -/
theorem binv_pc {s : State} (hb : BInv s) (t : Nat) (p : Pc) (r : Nat → Bool)
    (hret : ∀ i, p ≠ .ret i) (hgot : ∀ i e, p = .gotEpoch i e → 1 ≤ e ∧ e ≤ s.epoch) :
    BInv ⟨r, s.begin, s.epoch, upd s.pc t p, s.held⟩ := by
  refine ⟨hb.epoch_pos, ?_, ?_⟩
  · intro t' i e hpc
    by_cases ht : t' = t
    · subst ht; simp only [upd_same] at hpc; exact hgot i e hpc
    · simp only [upd_other _ _ _ _ ht] at hpc; exact hb.got t' i e hpc
  · intro t' i h
    by_cases ht : t' = t
    · subst ht
      simp only [upd_same] at h
      rcases h with h | h
      · exact absurd h (hret i)
      · exact hb.begun t' i (Or.inr h)
    · simp only [upd_other _ _ _ _ ht] at h
      exact hb.begun t' i h

theorem afterTest_ne_ret (i j : Nat) (v : Bool) : afterTest i v ≠ .ret j := by
  cases v <;> simp [afterTest]
theorem afterTest_ne_got (i j e : Nat) (v : Bool) : afterTest i v ≠ .gotEpoch j e := by
  cases v <;> simp [afterTest]

theorem binv_step {c : Cfg} {s s' : State} {e : Event} (hinv : Inv c s) (hb : BInv s)
    (hs : Step c s e s') : BInv s' := by
  cases hs with
  | ldRunning t i hpc hi =>
    exact binv_pc hb t _ s.running (afterTest_ne_ret _ · _) (fun j e h => absurd h (afterTest_ne_got _ _ _ _))
  | casFail t i hpc =>
    exact binv_pc hb t _ s.running (afterTest_ne_ret _ · _) (fun j e h => absurd h (afterTest_ne_got _ _ _ _))
  | casOk t i hpc hfree =>
    exact binv_pc hb t _ _ (fun j h => by cases h) (fun j e h => by cases h)
  | ldEpoch t i hpc =>
    exact binv_pc hb t _ s.running (fun j h => by cases h)
      (fun j e h => by cases h; exact ⟨hb.epoch_pos, Nat.le_refl _⟩)
  | enterRetFull t i hpc hi =>
    exact binv_pc hb t _ s.running (fun j h => by cases h) (fun j e h => by cases h)
  | leaveRet t i hpc =>
    exact binv_pc hb t _ s.running (fun j h => by cases h) (fun j e h => by cases h)
  | stRunning t i hpc =>
    exact binv_pc hb t _ _ (fun j h => by cases h) (fun j e h => by cases h)
  | epochInc =>
    refine ⟨Nat.le_succ_of_le hb.epoch_pos, ?_, ?_⟩
    · intro t i e h; have := hb.got t i e h; exact ⟨this.1, Nat.le_succ_of_le this.2⟩
    · intro t i h; have := hb.begun t i h; exact ⟨this.1, Nat.le_succ_of_le this.2⟩
  | stBeginEnter t i e hpc =>
    refine ⟨hb.epoch_pos, ?_, ?_⟩
    · intro t' j e' hpc'
      by_cases ht : t' = t
      · subst ht
        have : upd s.pc t' (.ret i) t' = .gotEpoch j e' := hpc'
        rw [upd_same] at this; cases this
      · have : upd s.pc t (.ret i) t' = .gotEpoch j e' := hpc'
        rw [upd_other _ _ _ _ ht] at this
        exact hb.got t' j e' this
    · intro t' j h
      show 1 ≤ upd s.begin i e j ∧ upd s.begin i e j ≤ s.epoch
      by_cases hj : j = i
      · subst hj; rw [upd_same]; exact hb.got t j e hpc
      · rw [upd_other _ _ _ _ hj]
        apply hb.begun t' j
        by_cases ht : t' = t
        · subst ht
          rcases h with h | h
          · have : upd s.pc t' (.ret i) t' = .ret j := h
            rw [upd_same] at this; cases this; exact absurd rfl hj
          · exact Or.inr h
        · rcases h with h | h
          · have : upd s.pc t (.ret i) t' = .ret j := h
            rw [upd_other _ _ _ _ ht] at this
            exact Or.inl this
          · exact Or.inr h
  | stBeginLeave t i hpc =>
    have hmine : i ∈ claims s t := by simp [claims, hpc, pcClaim]
    refine ⟨hb.epoch_pos, ?_, ?_⟩
    · intro t' j e' hpc'
      by_cases ht : t' = t
      · subst ht
        have : upd s.pc t' (.lvRun i) t' = .gotEpoch j e' := hpc'
        rw [upd_same] at this; cases this
      · have : upd s.pc t (.lvRun i) t' = .gotEpoch j e' := hpc'
        rw [upd_other _ _ _ _ ht] at this
        exact hb.got t' j e' this
    · intro t' j h
      show 1 ≤ upd s.begin i 0 j ∧ upd s.begin i 0 j ≤ s.epoch
      have hold : (s.pc t' = .ret j ∨ j ∈ s.held t') := by
        by_cases ht : t' = t
        · subst ht
          rcases h with h | h
          · have : upd s.pc t' (.lvRun i) t' = .ret j := h
            rw [upd_same] at this; cases this
          · exact Or.inr h
        · rcases h with h | h
          · have : upd s.pc t (.lvRun i) t' = .ret j := h
            rw [upd_other _ _ _ _ ht] at this
            exact Or.inl this
          · exact Or.inr h
      have hj : j ≠ i := by
        intro hj; subst hj
        by_cases ht : t' = t
        · subst ht
          rcases hold with h | h
          · rw [hpc] at h; cases h
          · have := hinv.nodup t'
            simp only [claims, hpc, pcClaim] at this
            exact (List.nodup_cons.mp this).1 h
        · apply ht
          apply hinv.excl t' t j _ hmine
          rcases hold with h | h
          · simp [claims, h, pcClaim]
          · exact held_sub_claims h
      rw [upd_other _ _ _ _ hj]
      exact hb.begun t' j hold
  | enterRetOk t i hpc =>
    refine ⟨hb.epoch_pos, ?_, ?_⟩
    · intro t' j e' hpc'
      by_cases ht : t' = t
      · subst ht
        have : upd s.pc t' .idle t' = .gotEpoch j e' := hpc'
        rw [upd_same] at this; cases this
      · have : upd s.pc t .idle t' = .gotEpoch j e' := hpc'
        rw [upd_other _ _ _ _ ht] at this
        exact hb.got t' j e' this
    · intro t' j h
      apply hb.begun t' j
      by_cases ht : t' = t
      · subst ht
        rcases h with h | h
        · have : upd s.pc t' .idle t' = .ret j := h
          rw [upd_same] at this; cases this
        · have : j ∈ upd s.held t' (i :: s.held t') t' := h
          rw [upd_same] at this
          rcases List.mem_cons.mp this with h1 | h1
          · subst h1; exact Or.inl hpc
          · exact Or.inr h1
      · rcases h with h | h
        · have : upd s.pc t .idle t' = .ret j := h
          rw [upd_other _ _ _ _ ht] at this
          exact Or.inl this
        · have : j ∈ upd s.held t (i :: s.held t) t' := h
          rw [upd_other _ _ _ _ ht] at this
          exact Or.inr this
  | leaveCall t i hpc hown =>
    refine ⟨hb.epoch_pos, ?_, ?_⟩
    · intro t' j e' hpc'
      by_cases ht : t' = t
      · subst ht
        have : upd s.pc t' (.lvBegin i) t' = .gotEpoch j e' := hpc'
        rw [upd_same] at this; cases this
      · have : upd s.pc t (.lvBegin i) t' = .gotEpoch j e' := hpc'
        rw [upd_other _ _ _ _ ht] at this
        exact hb.got t' j e' this
    · intro t' j h
      apply hb.begun t' j
      by_cases ht : t' = t
      · subst ht
        rcases h with h | h
        · have : upd s.pc t' (.lvBegin i) t' = .ret j := h
          rw [upd_same] at this; cases this
        · have : j ∈ upd s.held t' ((s.held t').erase i) t' := h
          rw [upd_same] at this
          exact Or.inr (List.mem_of_mem_erase this)
      · rcases h with h | h
        · have : upd s.pc t (.lvBegin i) t' = .ret j := h
          rw [upd_other _ _ _ _ ht] at this
          exact Or.inl this
        · have : j ∈ upd s.held t ((s.held t).erase i) t' := h
          rw [upd_other _ _ _ _ ht] at this
          exact Or.inr this

theorem binv_reach {c : Cfg} (h0 : 1 ≤ c.epoch0) {s : State} (h : Reach c s) : BInv s := by
  induction h with
  | init => exact binv_init c h0
  | step hr hs ih => exact binv_step (inv_reach hr) ih hs

/-! ## traces -/

theorem exec_append (c : Cfg) : ∀ (es1 es2 : List Event) (s : State),
    exec c s (es1 ++ es2) = (exec c s es1).bind (fun s' => exec c s' es2)
  | [], _, _ => rfl
  | e :: es1, es2, s => by
    simp only [List.cons_append, exec]
    cases step? c s e with
    | none => rfl
    | some s1 => exact exec_append c es1 es2 s1

theorem exec_snoc {c : Cfg} {s s' : State} {es : List Event} {e : Event}
    (h : exec c s (es ++ [e]) = some s') : ∃ s1, exec c s es = some s1 ∧ Step c s1 e s' := by
  rw [exec_append] at h
  cases h1 : exec c s es with
  | none => rw [h1] at h; cases h
  | some s1 =>
    rw [h1] at h
    refine ⟨s1, rfl, ?_⟩
    simp only [Option.bind, exec] at h
    cases h2 : step? c s1 e with
    | none => rw [h2] at h; cases h
    | some s2 => rw [h2] at h; cases h; exact Step_of_step? h2

theorem reach_exec {c : Cfg} : ∀ (es : List Event) {s s' : State}, Reach c s →
    exec c s es = some s' → Reach c s'
  | [], s, s', hr, h => by cases h; exact hr
  | e :: es, s, s', hr, h => by
    simp only [exec] at h
    cases h1 : step? c s e with
    | none => rw [h1] at h; cases h
    | some s1 => rw [h1] at h; exact reach_exec es (Reach.step hr (Step_of_step? h1)) h

theorem exec_of_reach {c : Cfg} {s : State} (h : Reach c s) :
    ∃ es, exec c (init c) es = some s := by
  induction h with
  | init => exact ⟨[], rfl⟩
  | @step s s' e _ hs ih =>
    obtain ⟨es, hes⟩ := ih
    refine ⟨es ++ [e], ?_⟩
    rw [exec_append, hes]
    simp [exec, step?_of_Step hs]

theorem reach_iff_exec {c : Cfg} {s : State} : Reach c s ↔ ∃ es, exec c (init c) es = some s :=
  ⟨exec_of_reach, fun ⟨es, h⟩ => reach_exec es Reach.init h⟩

/-- snoc-style view of accepted traces (for inductions that look at the last event) -/
inductive Run (c : Cfg) (s0 : State) : List Event → State → Prop
  | nil : Run c s0 [] s0
  | snoc {es s e s'} : Run c s0 es s → Step c s e s' → Run c s0 (es ++ [e]) s'

theorem Run.cons {c : Cfg} {s0 s1 s : State} {e : Event} {es : List Event}
    (h0 : Step c s0 e s1) (h : Run c s1 es s) : Run c s0 (e :: es) s := by
  induction h with
  | nil => exact Run.snoc (es := []) Run.nil h0
  | snoc _ hs ih => exact Run.snoc (es := e :: _) ih hs

theorem run_of_exec {c : Cfg} : ∀ (es : List Event) {s0 s : State}, exec c s0 es = some s →
    Run c s0 es s
  | [], s0, s, h => by cases h; exact Run.nil
  | e :: es, s0, s, h => by
    simp only [exec] at h
    cases h1 : step? c s0 e with
    | none => rw [h1] at h; cases h
    | some s1 => rw [h1] at h; exact Run.cons (Step_of_step? h1) (run_of_exec es h)

theorem exec_of_run {c : Cfg} {s0 s : State} {es : List Event} (h : Run c s0 es s) :
    exec c s0 es = some s := by
  induction h with
  | nil => rfl
  | snoc _ hs ih => rw [exec_append, ih]; simp [exec, step?_of_Step hs]

theorem step_pc_other {c : Cfg} {s s' : State} {e : Event} (hs : Step c s e s') (t : Nat)
    (ht : e.thread? ≠ some t) : s'.pc t = s.pc t ∧ s'.held t = s.held t := by
  cases hs <;> first
    | exact ⟨rfl, rfl⟩
    | (simp only [Event.thread?, ne_eq, Option.some.injEq] at ht
       have ht' : t ≠ _ := fun h => ht h.symm
       simp [upd_other _ _ _ _ ht'])

/-! ## an `enter` that gives up has seen every slot occupied -/

/-- Inside the trace `es` (started in `s0`) there is a step of thread `t` — a load of `running[j]`
    that returned `true`, or a failed CAS on `running[j]` whose refresh of `expected` read `true` —
    taken in a state `s1` in which slot `j` was occupied, and `t` has not returned from `enter`
    since (so the step belongs to `t`'s `enter` call that is in progress at the end of `es`). -/
def Observed (c : Cfg) (s0 : State) (es : List Event) (t j : Nat) : Prop :=
  ∃ es1 e es2 s1, es = es1 ++ e :: es2 ∧ exec c s0 es1 = some s1 ∧ s1.running j = true ∧
    (e = .ldRunning t j true ∨ e = .casRunning t j false) ∧ ∀ e' ∈ es2, ∀ k, e' ≠ .enterRet t k

theorem Observed.snoc {c : Cfg} {s0 : State} {es : List Event} {t j : Nat} {e : Event}
    (h : Observed c s0 es t j) (he : ∀ k, e ≠ .enterRet t k) : Observed c s0 (es ++ [e]) t j := by
  obtain ⟨es1, e0, es2, s1, h1, h2, h3, h4, h5⟩ := h
  refine ⟨es1, e0, es2 ++ [e], s1, by simp [h1], h2, h3, h4, ?_⟩
  intro e' he' k
  rcases List.mem_append.mp he' with h | h
  · exact h5 e' h k
  · simp at h; subst h; exact he k

theorem observed_run {c : Cfg} {s0 s : State} {es : List Event} (t : Nat)
    (h0 : s0.pc t = .idle) (h : Run c s0 es s) :
    ∀ i, (scanIdx (s.pc t) = some i ∨ s.pc t = .cas i) → ∀ j, j < i → Observed c s0 es t j := by
  induction h with
  | nil =>
    intro i hi j hj
    rw [h0] at hi
    simp [scanIdx] at hi
    omega
  | @snoc es s e s' hrun hs ih =>
    intro i hi j hj
    by_cases he : e.thread? = some t
    · have hex := exec_of_run hrun
      cases hs with
      | ldRunning t' i' hpc hlt =>
        simp only [Event.thread?, Option.some.injEq] at he; subst he
        simp only [upd_same] at hi
        cases hv : s.running i' with
        | true =>
          rw [hv] at hi
          simp only [afterTest, if_true, scanIdx, Option.some.injEq, reduceCtorEq, or_false] at hi
          subst hi
          by_cases hji : j = i'
          · subst hji
            exact ⟨es, _, [], s, rfl, hex, hv, Or.inl rfl, by simp⟩
          · exact (ih i' (Or.inl hpc) j (by omega)).snoc (by intro k; simp)
        | false =>
          rw [hv] at hi
          simp only [afterTest, Bool.false_eq_true, if_false, scanIdx, reduceCtorEq, false_or,
            Pc.cas.injEq] at hi
          subst hi
          exact (ih i' (Or.inl hpc) j hj).snoc (by intro k; simp)
      | casFail t' i' hpc =>
        simp only [Event.thread?, Option.some.injEq] at he; subst he
        simp only [upd_same] at hi
        cases hv : s.running i' with
        | true =>
          rw [hv] at hi
          simp only [afterTest, if_true, scanIdx, Option.some.injEq, reduceCtorEq, or_false] at hi
          subst hi
          by_cases hji : j = i'
          · subst hji
            exact ⟨es, _, [], s, rfl, hex, hv, Or.inr rfl, by simp⟩
          · exact (ih i' (Or.inr hpc) j (by omega)).snoc (by intro k; simp)
        | false =>
          rw [hv] at hi
          simp only [afterTest, Bool.false_eq_true, if_false, scanIdx, reduceCtorEq, false_or,
            Pc.cas.injEq] at hi
          subst hi
          exact (ih i' (Or.inr hpc) j hj).snoc (by intro k; simp)
      | casOk t' i' hpc hfree =>
        simp only [Event.thread?, Option.some.injEq] at he; subst he
        simp [upd_same, scanIdx] at hi
      | ldEpoch t' i' hpc =>
        simp only [Event.thread?, Option.some.injEq] at he; subst he
        simp [upd_same, scanIdx] at hi
      | stBeginEnter t' i' e' hpc =>
        simp only [Event.thread?, Option.some.injEq] at he; subst he
        simp [upd_same, scanIdx] at hi
      | stBeginLeave t' i' hpc =>
        simp only [Event.thread?, Option.some.injEq] at he; subst he
        simp [upd_same, scanIdx] at hi
      | leaveCall t' i' hpc hown =>
        simp only [Event.thread?, Option.some.injEq] at he; subst he
        simp [upd_same, scanIdx] at hi
      | stRunning t' i' hpc =>
        simp only [Event.thread?, Option.some.injEq] at he; subst he
        simp [upd_same, scanIdx] at hi
      | enterRetOk t' i' hpc =>
        simp only [Event.thread?, Option.some.injEq] at he; subst he
        simp only [upd_same, scanIdx, Option.some.injEq, reduceCtorEq, or_false] at hi
        omega
      | enterRetFull t' i' hpc hlt =>
        simp only [Event.thread?, Option.some.injEq] at he; subst he
        simp only [upd_same, scanIdx, Option.some.injEq, reduceCtorEq, or_false] at hi
        omega
      | leaveRet t' i' hpc =>
        simp only [Event.thread?, Option.some.injEq] at he; subst he
        simp only [upd_same, scanIdx, Option.some.injEq, reduceCtorEq, or_false] at hi
        omega
      | epochInc => simp [Event.thread?] at he
    · rw [(step_pc_other hs t he).1] at hi
      refine (ih i hi j hj).snoc ?_
      intro k hk
      subst hk
      exact he rfl

theorem max_sessions_observed {c : Cfg} {s0 s' : State} {es : List Event} {t : Nat}
    (h0 : s0.pc t = .idle) (h : exec c s0 (es ++ [.enterRet t none]) = some s') :
    ∀ j, j < c.N → Observed c s0 es t j := by
  obtain ⟨s1, h1, hs⟩ := exec_snoc h
  intro j hj
  cases hs with
  | enterRetFull _ i hpc hi =>
    exact observed_run t h0 (run_of_exec es h1) i (Or.inl hpc) j (by omega)

/-! ## `enter` running alone from a quiescent state -/

/-- what thread `t`'s pc may be during its solo `enter`, relative to the flags `r0` at the start -/
def soloPc (c : Cfg) (r0 r : Nat → Bool) : Pc → Prop
  | .idle => r = r0
  | .scan i => r = r0 ∧ ∀ j, j < i → r0 j = true
  | .cas i => r = r0 ∧ (∀ j, j < i → r0 j = true) ∧ r0 i = false ∧ i < c.N
  | .won i | .gotEpoch i _ | .ret i =>
      r = upd r0 i true ∧ (∀ j, j < i → r0 j = true) ∧ r0 i = false ∧ i < c.N
  | _ => False

structure SoloInv (c : Cfg) (s0 : State) (t : Nat) (s : State) : Prop where
  others : ∀ t', t' ≠ t → s.pc t' = .idle
  held : s.held = s0.held
  mine : soloPc c s0.running s.running (s.pc t)

theorem soloPc_afterTest {c : Cfg} {r0 : Nat → Bool} {i : Nat}
    (hlow : ∀ j, j < i → r0 j = true) (hi : i < c.N) :
    soloPc c r0 r0 (afterTest i (r0 i)) := by
  cases hv : r0 i with
  | true =>
    simp only [afterTest, if_true, soloPc, true_and]
    intro j hj
    by_cases h : j = i
    · subst h; exact hv
    · exact hlow j (by omega)
  | false =>
    simp only [afterTest, Bool.false_eq_true, if_false, soloPc, true_and]
    exact ⟨hlow, hv, hi⟩

theorem solo_step {c : Cfg} {s0 s s' : State} {t : Nat} {e : Event} (hinv : SoloInv c s0 t s)
    (hs : Step c s e s') (he : e.isEnterStepOf t = true ∨ e = .epochInc) : SoloInv c s0 t s' := by
  obtain ⟨ho, hh, hm⟩ := hinv
  have hothers : ∀ (p : Pc) t', t' ≠ t → upd s.pc t p t' = .idle := by
    intro p t' ht; rw [upd_other _ _ _ _ ht]; exact ho t' ht
  cases hs with
  | epochInc => exact ⟨ho, hh, hm⟩
  | ldRunning t' i hpc hi =>
    have : t' = t := by simpa [Event.isEnterStepOf] using he
    subst this
    refine ⟨hothers _, hh, ?_⟩
    show soloPc c s0.running s.running (upd s.pc t' _ t')
    rw [upd_same]
    cases hp : s.pc t' with
    | idle =>
      rw [hp] at hpc hm
      simp only [scanIdx, Option.some.injEq] at hpc
      subst hpc
      simp only [soloPc] at hm
      rw [hm]
      exact soloPc_afterTest (by intro j hj; omega) hi
    | scan k =>
      rw [hp] at hpc hm
      simp only [scanIdx, Option.some.injEq] at hpc
      subst hpc
      simp only [soloPc] at hm
      rw [hm.1]
      exact soloPc_afterTest hm.2 hi
    | _ => rw [hp] at hpc; simp [scanIdx] at hpc
  | casFail t' i hpc =>
    have : t' = t := by simpa [Event.isEnterStepOf] using he
    subst this
    refine ⟨hothers _, hh, ?_⟩
    show soloPc c s0.running s.running (upd s.pc t' _ t')
    rw [upd_same]
    rw [hpc] at hm
    simp only [soloPc] at hm
    rw [hm.1]
    exact soloPc_afterTest hm.2.1 hm.2.2.2
  | casOk t' i hpc hfree =>
    have : t' = t := by simpa [Event.isEnterStepOf] using he
    subst this
    refine ⟨hothers _, hh, ?_⟩
    show soloPc c s0.running (upd s.running i true) (upd s.pc t' _ t')
    rw [upd_same]
    rw [hpc] at hm
    simp only [soloPc] at hm
    simp only [soloPc]
    rw [hm.1]
    exact ⟨rfl, hm.2⟩
  | ldEpoch t' i hpc =>
    have : t' = t := by simpa [Event.isEnterStepOf] using he
    subst this
    refine ⟨hothers _, hh, ?_⟩
    show soloPc c s0.running s.running (upd s.pc t' _ t')
    rw [upd_same]
    rw [hpc] at hm
    exact hm
  | stBeginEnter t' i e' hpc =>
    have : t' = t := by simpa [Event.isEnterStepOf] using he
    subst this
    refine ⟨hothers _, hh, ?_⟩
    show soloPc c s0.running s.running (upd s.pc t' _ t')
    rw [upd_same]
    rw [hpc] at hm
    exact hm
  | stBeginLeave t' i hpc =>
    have : t' = t := by simpa [Event.isEnterStepOf] using he
    subst this
    rw [hpc] at hm
    exact hm.elim
  | enterRetOk t' i hpc => simp [Event.isEnterStepOf] at he
  | enterRetFull t' i hpc hi => simp [Event.isEnterStepOf] at he
  | leaveCall t' i hpc hown => simp [Event.isEnterStepOf] at he
  | stRunning t' i hpc => simp [Event.isEnterStepOf] at he
  | leaveRet t' i hpc => simp [Event.isEnterStepOf] at he

theorem solo_run {c : Cfg} {s0 s : State} {t : Nat} {es : List Event}
    (hq : ∀ t', s0.pc t' = .idle) (hrun : Run c s0 es s)
    (hsolo : ∀ e ∈ es, e.isEnterStepOf t = true ∨ e = .epochInc) : SoloInv c s0 t s := by
  induction hrun with
  | nil => exact ⟨fun t' _ => hq t', rfl, by rw [hq t]; rfl⟩
  | snoc _ hs ih =>
    refine solo_step (ih fun e he => hsolo e (List.mem_append_left _ he)) hs ?_
    exact hsolo _ (by simp)

/-- outcome of an `enter` that runs alone from a quiescent state `s0`: it returns the lowest free
    slot, or `none` exactly when every slot is occupied; afterwards the state is quiescent again. -/
theorem solo_enter_result {c : Cfg} {s0 s' : State} {t : Nat} {es : List Event} {tok : Option Nat}
    (hq : ∀ t', s0.pc t' = .idle)
    (hsolo : ∀ e ∈ es, e.isEnterStepOf t = true ∨ e = .epochInc)
    (hrun : exec c s0 (es ++ [.enterRet t tok]) = some s') :
    (tok = none → (∀ j, j < c.N → s0.running j = true) ∧ s'.running = s0.running ∧
        s'.held = s0.held) ∧
    (∀ i, tok = some i → i < c.N ∧ s0.running i = false ∧ (∀ j, j < i → s0.running j = true) ∧
        s'.running = upd s0.running i true ∧ s'.held = upd s0.held t (i :: s0.held t)) ∧
    (∀ t', s'.pc t' = .idle) := by
  obtain ⟨s1, h1, hs⟩ := exec_snoc hrun
  obtain ⟨ho, hh, hm⟩ := solo_run hq (run_of_exec es h1) hsolo
  have hidle : ∀ t', upd s1.pc t .idle t' = .idle := by
    intro t'
    by_cases ht : t' = t
    · subst ht; exact upd_same _ _ _
    · rw [upd_other _ _ _ _ ht]; exact ho t' ht
  cases hs with
  | enterRetOk _ i hpc =>
    rw [hpc] at hm
    simp only [soloPc] at hm
    refine ⟨fun h => (by cases h), ?_, hidle⟩
    intro i' hi'
    cases hi'
    refine ⟨hm.2.2.2, hm.2.2.1, hm.2.1, hm.1, ?_⟩
    show upd s1.held t (i :: s1.held t) = _
    rw [hh]
  | enterRetFull _ i hpc hi =>
    refine ⟨fun _ => ?_, fun i' h => (by cases h), hidle⟩
    cases hp : s1.pc t with
    | idle =>
      rw [hp] at hpc hm
      simp only [scanIdx, Option.some.injEq] at hpc
      subst hpc
      simp only [soloPc] at hm
      exact ⟨fun j hj => by omega, hm, hh⟩
    | scan k =>
      rw [hp] at hpc hm
      simp only [scanIdx, Option.some.injEq] at hpc
      subst hpc
      simp only [soloPc] at hm
      exact ⟨fun j hj => hm.2 j (by omega), hm.1, hh⟩
    | _ => rw [hp] at hpc; simp [scanIdx] at hpc

/-! ### such a run exists (the call terminates when left alone) -/

theorem least_false (r : Nat → Bool) : ∀ n : Nat,
    (∀ j, j < n → r j = true) ∨ ∃ k, k < n ∧ r k = false ∧ ∀ j, j < k → r j = true
  | 0 => Or.inl (fun j hj => by omega)
  | n + 1 => by
    rcases least_false r n with h | ⟨k, hk, hf, hl⟩
    · cases hv : r n with
      | true =>
        left; intro j hj
        by_cases h' : j = n
        · subst h'; exact hv
        · exact h j (by omega)
      | false => exact Or.inr ⟨n, by omega, hv, h⟩
    · exact Or.inr ⟨k, by omega, hf, hl⟩

/-- walk the slot loop over `d` occupied slots -/
theorem scan_over {c : Cfg} (t : Nat) : ∀ (d : Nat) (s : State) (i : Nat),
    scanIdx (s.pc t) = some i → i + d ≤ c.N → (∀ j, i ≤ j → j < i + d → s.running j = true) →
    ∃ es s', exec c s es = some s' ∧ (∀ e ∈ es, e.isEnterStepOf t = true) ∧
      scanIdx (s'.pc t) = some (i + d) ∧ s'.running = s.running ∧ s'.held = s.held ∧
      s'.epoch = s.epoch ∧ s'.begin = s.begin ∧ (∀ t', t' ≠ t → s'.pc t' = s.pc t')
  | 0, s, i, hpc, _, _ => ⟨[], s, rfl, by simp, hpc, rfl, rfl, rfl, rfl, fun _ _ => rfl⟩
  | d + 1, s, i, hpc, hN, hocc => by
    have hv : s.running i = true := hocc i (Nat.le_refl _) (by omega)
    have hstep : step? c s (.ldRunning t i true) =
        some { s with pc := upd s.pc t (.scan (i + 1)) } := by
      simp [step?, hpc, hv, afterTest]; omega
    obtain ⟨es, s', h1, h2, h3, h4, h5, h6, h7, h8⟩ :=
      scan_over (c := c) t d { s with pc := upd s.pc t (.scan (i + 1)) } (i + 1)
        (by simp [upd_same, scanIdx]) (by omega) (fun j hj1 hj2 => hocc j (by omega) (by omega))
    refine ⟨.ldRunning t i true :: es, s', ?_, ?_, ?_, h4, h5, h6, h7, ?_⟩
    · simp only [exec, hstep]; exact h1
    · intro e he
      rcases List.mem_cons.mp he with h | h
      · subst h; simp [Event.isEnterStepOf]
      · exact h2 e h
    · rw [h3]; congr 1; omega
    · intro t' ht'
      rw [h8 t' ht']
      exact upd_other _ _ _ _ ht'

theorem solo_enter_exists (c : Cfg) (s0 : State) (t : Nat) (h0 : s0.pc t = .idle) :
    ∃ es tok s', (∀ e ∈ es, e.isEnterStepOf t = true) ∧
      exec c s0 (es ++ [.enterRet t tok]) = some s' := by
  rcases least_false s0.running c.N with hall | ⟨k, hk, hf, hl⟩
  · obtain ⟨es, s1, h1, h2, h3, -⟩ := scan_over (c := c) t c.N s0 0 (by rw [h0]; rfl) (by omega)
      (fun j _ hj => hall j (by omega))
    refine ⟨es, none, { s1 with pc := upd s1.pc t .idle }, h2, ?_⟩
    rw [exec_append, h1]
    simp only [Option.bind, exec, step?, h3]
    simp
  · obtain ⟨es, s1, h1, h2, h3, h4, -⟩ := scan_over (c := c) t k s0 0 (by rw [h0]; rfl) (by omega)
      (fun j _ hj => hl j (by omega))
    simp only [Nat.zero_add] at h3
    have hf1 : s1.running k = false := by rw [h4]; exact hf
    refine ⟨es ++ [.ldRunning t k false, .casRunning t k true, .ldEpoch t s1.epoch,
      .stBegin t k s1.epoch], some k, ?_, ?_, ?_⟩
    rotate_left
    · intro e he
      rcases List.mem_append.mp he with h | h
      · exact h2 e h
      · simp at h
        rcases h with h | h | h | h <;> subst h <;> simp [Event.isEnterStepOf]
    · rw [List.append_assoc, exec_append, h1]
      simp [Option.bind, exec, step?, h3, hf1, hk, afterTest, upd_same]
      rfl

/-! ## quiescent states; a released slot can be acquired again -/

theorem quiescent_running_iff_held {c : Cfg} {s : State} (h : Reach c s)
    (hq : ∀ t, s.pc t = .idle) (i : Nat) : s.running i = true ↔ ∃ t, i ∈ s.held t := by
  have hinv := inv_reach h
  have hcl : ∀ t, claims s t = s.held t := by intro t; simp [claims, hq t, pcClaim]
  constructor
  · intro hr
    obtain ⟨t, ht⟩ := hinv.owned i hr
    exact ⟨t, hcl t ▸ ht⟩
  · intro ⟨t, ht⟩
    exact (hinv.occ t i (held_sub_claims ht)).1

theorem leave_frees_slot {c : Cfg} {s : State} (h : Reach c s) (hq : ∀ t', s.pc t' = .idle)
    {t i : Nat} (hi : i ∈ s.held t) :
    ∃ s2, exec c s [.leaveCall t i, .stBegin t i 0, .stRunning t i false, .leaveRet t] = some s2 ∧
      s2.running = upd s.running i false ∧ s2.begin i = 0 ∧ (∀ t', s2.pc t' = .idle) ∧
      (∀ t', i ∉ s2.held t') ∧ s2.held = upd s.held t ((s.held t).erase i) := by
  have hd := tokens_distinct h
  refine ⟨⟨upd s.running i false, upd s.begin i 0, s.epoch,
    upd (upd (upd (upd s.pc t (.lvBegin i)) t (.lvRun i)) t (.lvRet i)) t .idle,
    upd s.held t ((s.held t).erase i)⟩, ?_, ?_⟩
  · simp [exec, step?, hq t, hi, upd_same]
  · refine ⟨rfl, upd_same _ _ _, ?_, ?_, rfl⟩
    · intro t'
      by_cases ht : t' = t
      · subst ht; exact upd_same _ _ _
      · show upd _ t Pc.idle t' = Pc.idle
        rw [upd_other _ _ _ _ ht, upd_other _ _ _ _ ht, upd_other _ _ _ _ ht, upd_other _ _ _ _ ht]
        exact hq t'
    · intro t' hm
      have hm : i ∈ upd s.held t ((s.held t).erase i) t' := hm
      by_cases ht : t' = t
      · subst ht
        rw [upd_same] at hm
        exact ((hd.2 t').mem_erase_iff.mp hm).1 rfl
      · rw [upd_other _ _ _ _ ht] at hm
        exact ht (hd.1 t' t i hm hi)

theorem slot_reusable {c : Cfg} {s : State} (h : Reach c s) (hq : ∀ t', s.pc t' = .idle)
    {t i : Nat} (hi : i ∈ s.held t) :
    ∃ s2, exec c s [.leaveCall t i, .stBegin t i 0, .stRunning t i false, .leaveRet t] = some s2 ∧
      s2.running i = false ∧ (∀ t', i ∉ s2.held t') ∧ (∀ t', s2.pc t' = .idle) ∧
      ∀ (t2 : Nat) (es : List Event) (tok : Option Nat) (s3 : State),
        (∀ e ∈ es, e.isEnterStepOf t2 = true ∨ e = .epochInc) →
        exec c s2 (es ++ [.enterRet t2 tok]) = some s3 →
        ∃ k, tok = some k ∧ k ≤ i ∧ ((∀ j, j < i → s.running j = true) → k = i) := by
  obtain ⟨s2, h1, h2, _, h4, h5, _⟩ := leave_frees_slot h hq hi
  have hiN : i < c.N := (held_lt_running h hi).1
  have hfree : s2.running i = false := by rw [h2]; exact upd_same _ _ _
  refine ⟨s2, h1, hfree, h5, h4, ?_⟩
  intro t2 es tok s3 hsolo hrun
  obtain ⟨r1, r2, _⟩ := solo_enter_result h4 hsolo hrun
  cases tok with
  | none =>
    have := (r1 rfl).1 i hiN
    rw [hfree] at this; cases this
  | some k =>
    obtain ⟨_, hk2, hk3, _⟩ := r2 k rfl
    have hki : k ≤ i := by
      apply Nat.le_of_not_lt
      intro hlt
      have := hk3 i hlt
      rw [hfree] at this; cases this
    refine ⟨k, rfl, hki, ?_⟩
    intro hlow
    apply Nat.le_antisymm hki
    apply Nat.le_of_not_lt
    intro hlt
    have hne : k ≠ i := by omega
    have : s2.running k = s.running k := by rw [h2]; exact upd_other _ _ _ _ hne
    rw [this, hlow k hlt] at hk2
    cases hk2

/-! ## counting open sessions -/

theorem length_ge_of_all_mem : ∀ (n : Nat) (l : List Nat), (∀ x, x < n → x ∈ l) → n ≤ l.length
  | 0, _, _ => Nat.zero_le _
  | n + 1, l, h => by
    have hm : n ∈ l := h n (by omega)
    have ih := length_ge_of_all_mem n (l.erase n) (by
      intro x hx
      exact (List.mem_erase_of_ne (by omega)).mpr (h x (by omega)))
    rw [List.length_erase_of_mem hm] at ih
    have : 0 < l.length := List.length_pos_of_mem hm
    omega

/-- fewer than `N` sessions are open iff some slot is held by nobody; `ts` is any duplicate-free
    list of threads containing every thread that holds a session -/
theorem open_count_lt_iff_free {c : Cfg} {s : State} (h : Reach c s) (ts : List Nat)
    (hts : ts.Nodup) (hcover : ∀ t, t ∉ ts → s.held t = []) :
    (ts.flatMap s.held).length < c.N ↔ ∃ i, i < c.N ∧ ∀ t', i ∉ s.held t' := by
  constructor
  · intro hlt
    apply Classical.byContradiction
    intro hno
    have : c.N ≤ (ts.flatMap s.held).length := by
      apply length_ge_of_all_mem
      intro x hx
      apply Classical.byContradiction
      intro hx'
      apply hno
      refine ⟨x, hx, fun t' ht' => hx' ?_⟩
      refine List.mem_flatMap.mpr ⟨t', ?_, ht'⟩
      apply Classical.byContradiction
      intro hnt
      rw [hcover t' hnt] at ht'
      cases ht'
    omega
  · intro ⟨i, hi, hfree⟩
    have hnd : (i :: ts.flatMap s.held).Nodup := by
      refine List.nodup_cons.mpr ⟨?_, flatMap_held_nodup h ts hts⟩
      intro hm
      obtain ⟨t', _, ht'⟩ := List.mem_flatMap.mp hm
      exact hfree t' ht'
    have := nodup_bounded_length c.N _ hnd (by
      intro x hx
      rcases List.mem_cons.mp hx with hx | hx
      · subst hx; exact hi
      · obtain ⟨t', _, ht'⟩ := List.mem_flatMap.mp hx
        exact (held_lt_running h ht').1)
    simp only [List.length_cons] at this
    omega

theorem epoch_pos_reach {c : Cfg} (h0 : 1 ≤ c.epoch0) {s : State} (h : Reach c s) : 1 ≤ s.epoch :=
  (binv_reach h0 h).epoch_pos

/-! ## statements used verbatim by `YakProps/C14.lean` -/

theorem held_window (c : Cfg) (s s' : State) :
    (∀ t i, Step c s (.enterRet t (some i)) s' → s'.held t = i :: s.held t) ∧
    (∀ t i, Step c s (.leaveCall t i) s' → i ∈ s.held t ∧ s'.held t = (s.held t).erase i) ∧
    (∀ e t, Step c s e s' → e.thread? ≠ some t → s'.held t = s.held t) := by
  refine ⟨?_, ?_, fun e t h ht => (step_pc_other h t ht).2⟩
  · intro t i h; cases h; exact upd_same _ _ _
  · intro t i h; cases h with
    | leaveCall _ _ _ hown => exact ⟨hown, upd_same _ _ _⟩

theorem stRunning_frees {c : Cfg} {s s' : State} (h : Reach c s) {t i : Nat}
    (hs : Step c s (.stRunning t i false) s') :
    s'.running i = false ∧ ∀ t', i ∉ claims s' t' := by
  have hinv := inv_step (inv_reach h) hs
  have hf : s'.running i = false := by cases hs; exact upd_same _ _ _
  refine ⟨hf, fun t' ht' => ?_⟩
  have := (hinv.occ t' i ht').1
  rw [hf] at this; cases this

theorem quiescent_enter_room {c : Cfg} {s : State} (h : Reach c s)
    (hq : ∀ t', s.pc t' = .idle) {t : Nat} {es : List Event} {tok : Option Nat} {s' : State}
    (hsolo : ∀ e ∈ es, e.isEnterStepOf t = true ∨ e = .epochInc)
    (hrun : exec c s (es ++ [.enterRet t tok]) = some s') :
    ((∃ i, tok = some i) ↔ ∃ i, i < c.N ∧ ∀ t', i ∉ s.held t') ∧
    (tok = none ↔ ∀ i, i < c.N → ∃ t', i ∈ s.held t') ∧
    (∀ i, tok = some i → i < c.N ∧ (∀ t', i ∉ s.held t') ∧ (∀ j, j < i → ∃ t', j ∈ s.held t') ∧
      s'.held t = i :: s.held t ∧ s'.running i = true) ∧
    (∀ t', s'.pc t' = .idle) := by
  obtain ⟨r1, r2, r3⟩ := solo_enter_result hq hsolo hrun
  have hrun_held := fun i => quiescent_running_iff_held h hq i
  have hfree : ∀ i, s.running i = false → ∀ t', i ∉ s.held t' := by
    intro i hf t' ht'
    have := (hrun_held i).mpr ⟨t', ht'⟩
    rw [hf] at this; cases this
  cases tok with
  | none =>
    obtain ⟨hall, _, _⟩ := r1 rfl
    refine ⟨⟨fun ⟨i, hi⟩ => (by cases hi), fun ⟨i, hi, hno⟩ => ?_⟩,
      ⟨fun _ i hi => (hrun_held i).mp (hall i hi), fun _ => rfl⟩, fun i hi => (by cases hi), r3⟩
    obtain ⟨t', ht'⟩ := (hrun_held i).mp (hall i hi)
    exact absurd ht' (hno t')
  | some k =>
    obtain ⟨hk1, hk2, hk3, hk4, hk5⟩ := r2 k rfl
    refine ⟨⟨fun _ => ⟨k, hk1, hfree k hk2⟩, fun _ => ⟨k, rfl⟩⟩,
      ⟨fun hk => (by cases hk), fun hall => ?_⟩, ?_, r3⟩
    · obtain ⟨t', ht'⟩ := hall k hk1
      exact absurd ht' (hfree k hk2 t')
    · intro i hi
      cases hi
      refine ⟨hk1, hfree k hk2, fun j hj => (hrun_held j).mp (hk3 j hj), ?_, ?_⟩
      · rw [hk5]; exact upd_same _ _ _
      · rw [hk4]; exact upd_same _ _ _

end Yak.Proto.Session
