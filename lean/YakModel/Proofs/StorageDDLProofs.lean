import YakModel.Proto.StorageDDL
/-!
# `StorageDDL`: proofs (D14, `delete_storage` ABA with a concurrent re-create)

For every reachable state, any number of threads, names, operations, any interleaving:

1. `no_double_destroy_fixed`        (fix) `uaf = false` and `destroyed.Nodup`
2. `destroy_matches_remove_fixed`   (fix) `destroyed ⊆ removedEntries`
   `no_leak_at_quiescence_fixed`    (fix) all threads idle → `removedEntries ⊆ destroyed`
3. `directory_trees_live`           (fix) every tree in `dir` has `rootLive` (and `rootPtrSet`)
4. `one_winner`                     (any cfg) names in `dir` are distinct, tree ids in `dir` are
                                    distinct; `put_result`, `cfin_result`: a create returns OK
                                    iff its `put_unique` found the name absent
5. `D14_counterexample`, `D14_leak` (no fix) closed runs: double destroy of the OLD tree; the NEW
                                    tree erased from the directory and never destroyed
6. `D14_schedule_fixed`, `D14_events_rejected_fixed`
                                    the same operations under the mutex; the D14 interleaving is
                                    not a run of the repaired model

Method: `Step` is the relational reading of `step?` (one constructor per branch, `step_of_step?`).
`Base` is the configuration-independent invariant (freshness of speculative trees), `Fixed` the
invariant of the repaired code. `Fixed` is proved one field at a time (`fixed_step_*`): the state
after a step is a record update, per-thread facts are implications over `pcOf' pcs t`, and
`pcOf'_setPc` turns the pc of the new state into `if t' = t then p else pcOf' pcs t'`; `grind`
does the case analysis. The mutex enters through `Fixed.mtx` (`inCS (pc t) ↔ mutex = some t`),
i.e. at most one thread is between `get` and the return of `delete_storage`: that is what keeps
`d2Ok` (the entry looked up is still the entry removed) stable.

Remark on 2: `no_leak_at_quiescence_fixed` needs that the `load` at d3 never sees null in the
repaired model (`Fixed.vicOk` : the victim's root pointer is set) — a null there is exactly how
`D14_leak_events` loses tree 1 without any use-after-free.
-/
namespace Yak.Proto.StorageDDL

set_option linter.unusedSimpArgs false
set_option linter.unusedVariables false

/-! ## association lists -/

theorem find?_some_mem {α} {l : List (Nat × α)} {a : Nat} {v : α} (h : find? l a = some v) :
    (a, v) ∈ l := by
  induction l with
  | nil => simp [find?] at h
  | cons p l ih =>
    obtain ⟨k, w⟩ := p
    simp only [find?] at h
    split at h
    · next hk => simp at h; subst hk; subst h; simp
    · exact List.mem_cons_of_mem _ (ih h)

theorem find?_none_not_mem {α} {l : List (Nat × α)} {a : Nat} (h : find? l a = none) :
    a ∉ l.map (·.1) := by
  induction l with
  | nil => simp
  | cons p l ih =>
    obtain ⟨k, w⟩ := p
    simp only [find?] at h
    split at h
    · simp at h
    · next hk => simp only [List.map_cons, List.mem_cons, not_or]; exact ⟨fun e => hk e.symm, ih h⟩

theorem mem_del {α} {l : List (Nat × α)} {a : Nat} {p : Nat × α} :
    p ∈ del l a ↔ p ∈ l ∧ p.1 ≠ a := by simp [del, List.mem_filter]

theorem find?_del {α} (l : List (Nat × α)) (a b : Nat) :
    find? (del l a) b = if b = a then none else find? l b := by
  induction l with
  | nil => simp [del, find?]
  | cons p l ih =>
    obtain ⟨k, w⟩ := p
    simp only [del] at ih ⊢
    by_cases hk : k = a
    · subst hk
      simp only [List.filter_cons, ne_eq, not_true_eq_false, decide_false, Bool.false_eq_true, ↓reduceIte, ih, find?]
      by_cases hb : b = k
      · simp [hb]
      · have : ¬ k = b := fun e => hb e.symm
        simp [hb, this]
    · simp only [List.filter_cons, ne_eq, hk, not_false_eq_true, decide_true, ↓reduceIte, find?, ih]
      by_cases hb : b = a
      · subst hb; simp [hk]
      · simp [hb]

theorem mem_without {l : List Nat} {x y : Nat} : y ∈ without l x ↔ y ∈ l ∧ y ≠ x := by
  simp [without, List.mem_filter]

theorem pcOf'_setPc (pcs : List (Tid × Pc)) (t t' : Tid) (p : Pc) :
    pcOf' (setPc pcs t p) t' = if t' = t then p else pcOf' pcs t' := by
  unfold setPc pcOf'
  by_cases hp : p = .idle
  · simp only [hp, ↓reduceIte, find?_del]
    by_cases ht : t' = t <;> simp [ht]
  · simp only [hp, ↓reduceIte, find?, find?_del]
    by_cases ht : t' = t
    · subst ht; simp
    · have : ¬ t = t' := fun e => ht e.symm
      simp [ht, this]

theorem nodup_map_inj {α β} {f : α → β} {l : List α} (h : (l.map f).Nodup) {a b : α}
    (ha : a ∈ l) (hb : b ∈ l) (e : f a = f b) : a = b := by
  induction l with
  | nil => cases ha
  | cons x l ih =>
    simp only [List.map_cons, List.nodup_cons, List.mem_map, not_exists, not_and] at h
    rcases List.mem_cons.1 ha with rfl | ha' <;> rcases List.mem_cons.1 hb with rfl | hb'
    · rfl
    · exact absurd e.symm (h.1 b hb')
    · exact absurd e (h.1 a ha')
    · exact ih h.2 ha' hb'



theorem pcOf_eq (s : State) (t : Tid) : pcOf s t = pcOf' s.pcs t := rfl

inductive Step (c : Cfg) (s : State) : State → Prop
  | invCreate (t : Tid) (n : Name) (hpc : pcOf s t = .idle) :
      Step c s { s with pcs := setPc s.pcs t (.c1 n) }
  | invDelete (t : Tid) (n : Name) (hpc : pcOf s t = .idle) :
      Step c s { s with pcs := setPc s.pcs t (if c.fix then .d0 n else .d1 n) }
  | alloc (t : Tid) (n : Name) (hpc : pcOf s t = .c1 n) :
      Step c s { s with live := s.nextTree :: s.live
                        ptrSet := s.nextTree :: s.ptrSet
                        nextTree := s.nextTree + 1
                        pcs := setPc s.pcs t (.c2 n s.nextTree) }
  | putOk (t : Tid) (n : Name) (tr : TreeId) (hpc : pcOf s t = .c2 n tr)
      (hdir : find? s.dir n = none) :
      Step c s { s with dir := (n, tr) :: s.dir, pcs := setPc s.pcs t (.c3 n tr true) }
  | putFail (t : Tid) (n : Name) (tr r : TreeId) (hpc : pcOf s t = .c2 n tr)
      (hdir : find? s.dir n = some r) :
      Step c s { s with pcs := setPc s.pcs t (.c3 n tr false) }
  | cfinOk (t : Tid) (n : Name) (tr : TreeId) (hpc : pcOf s t = .c3 n tr true) :
      Step c s { s with pcs := setPc s.pcs t .idle, log := (t, .create n, .ok) :: s.log }
  | cfinFail (t : Tid) (n : Name) (tr : TreeId) (hpc : pcOf s t = .c3 n tr false) :
      Step c s { s with uaf := s.uaf || !s.rootLive tr
                        live := without s.live tr
                        freedSpeculative := tr :: s.freedSpeculative
                        pcs := setPc s.pcs t .idle
                        log := (t, .create n, .unique) :: s.log }
  | lock (t : Tid) (n : Name) (hpc : pcOf s t = .d0 n) (hm : s.mutex = none) :
      Step c s { s with mutex := some t, pcs := setPc s.pcs t (.d1 n) }
  | getNone (t : Tid) (n : Name) (hpc : pcOf s t = .d1 n) (hdir : find? s.dir n = none) :
      Step c s { s with pcs := setPc s.pcs t (.dret n .notExist) }
  | getSome (t : Tid) (n : Name) (r : TreeId) (hpc : pcOf s t = .d1 n)
      (hdir : find? s.dir n = some r) :
      Step c s { s with pcs := setPc s.pcs t (.d2 n r) }
  | removeNone (t : Tid) (n : Name) (r : TreeId) (hpc : pcOf s t = .d2 n r)
      (hdir : find? s.dir n = none) :
      Step c s { s with pcs := setPc s.pcs t (.dret n .concurrent) }
  | removeSome (t : Tid) (n : Name) (r r' : TreeId) (hpc : pcOf s t = .d2 n r)
      (hdir : find? s.dir n = some r') :
      Step c s { s with dir := del s.dir n
                        removedEntries := r' :: s.removedEntries
                        pcs := setPc s.pcs t (.d3 n r) }
  | loadSet (t : Tid) (n : Name) (r : TreeId) (hpc : pcOf s t = .d3 n r) (hp : r ∈ s.ptrSet) :
      Step c s { s with pcs := setPc s.pcs t (.d4a n r) }
  | loadNull (t : Tid) (n : Name) (r : TreeId) (hpc : pcOf s t = .d3 n r) (hp : r ∉ s.ptrSet) :
      Step c s { s with pcs := setPc s.pcs t (.dret n .ok) }
  | destroy (t : Tid) (n : Name) (r : TreeId) (hpc : pcOf s t = .d4a n r) :
      Step c s { s with uaf := s.uaf || !s.rootLive r
                        live := without s.live r
                        destroyed := r :: s.destroyed
                        pcs := setPc s.pcs t (.d4b n r) }
  | storeNull (t : Tid) (n : Name) (r : TreeId) (hpc : pcOf s t = .d4b n r) :
      Step c s { s with ptrSet := without s.ptrSet r, pcs := setPc s.pcs t (.dret n .ok) }
  | dret (t : Tid) (n : Name) (res : Res) (hpc : pcOf s t = .dret n res) :
      Step c s { s with mutex := none, pcs := setPc s.pcs t .idle
                        log := (t, .delete n, res) :: s.log }

theorem step_of_step? {c : Cfg} {s s' : State} {e : Event} (h : step? c s e = some s') :
    Step c s s' := by
  cases e <;> simp only [step?] at h <;> (repeat' split at h) <;> (try cases h) <;>
    (try (injection h with h; subst h))
  all_goals first
    | exact .invCreate _ _ ‹_›
    | exact .alloc _ _ ‹_›
    | exact .putOk _ _ _ ‹_› ‹_›
    | exact .putFail _ _ _ _ ‹_› ‹_›
    | exact .cfinOk _ _ _ ‹_›
    | exact .cfinFail _ _ _ ‹_›
    | exact .lock _ _ ‹_› ‹_›
    | exact .getNone _ _ ‹_› ‹_›
    | exact .getSome _ _ _ ‹_› ‹_›
    | exact .removeNone _ _ _ ‹_› ‹_›
    | exact .removeSome _ _ _ _ ‹_› ‹_›
    | exact .loadSet _ _ _ ‹_› ‹_›
    | exact .loadNull _ _ _ ‹_› ‹_›
    | exact .destroy _ _ _ ‹_›
    | exact .storeNull _ _ _ ‹_›
    | exact .dret _ _ _ ‹_›
    | (rename_i t _ hpc _ n hfix
       have h0 := Step.invDelete (c := c) t n hpc
       simpa [hfix] using h0)


/-! ## directory lemmas -/

theorem nodup_map_del {α β} (f : Nat × α → β) {l : List (Nat × α)} (a : Nat)
    (h : (l.map f).Nodup) : ((del l a).map f).Nodup :=
  List.Nodup.sublist (List.Sublist.map f List.filter_sublist) h

theorem mem_snd_del {α} {l : List (Nat × α)} {a : Nat} {x : α}
    (h : x ∈ (del l a).map (·.2)) : x ∈ l.map (·.2) := by
  simp only [List.mem_map, mem_del] at h ⊢
  obtain ⟨p, ⟨hp, _⟩, rfl⟩ := h
  exact ⟨p, hp, rfl⟩

/-- with distinct tree ids, erasing the entry of `a` (which holds `r`) removes `r` from the trees -/
theorem snd_del_ne {α} {l : List (Nat × α)} {a : Nat} {r x : α} (hnd : (l.map (·.2)).Nodup)
    (hf : find? l a = some r) (h : x ∈ (del l a).map (·.2)) : x ≠ r := by
  simp only [List.mem_map, mem_del] at h
  obtain ⟨p, ⟨hp, hpa⟩, rfl⟩ := h
  intro e
  have := nodup_map_inj hnd hp (find?_some_mem hf) e
  exact hpa (by rw [this])

/-! ## the invariant that holds in every configuration -/

structure Base (s : State) : Prop where
  namesNd : (s.dir.map (·.1)).Nodup
  treesNd : s.dirTrees.Nodup
  dirLt : ∀ x ∈ s.dirTrees, x < s.nextTree
  specLt : ∀ t x, spec (pcOf s t) = some x → x < s.nextTree ∧ x ∉ s.dirTrees
  specUniq : ∀ t t' x, spec (pcOf s t) = some x → spec (pcOf s t') = some x → t = t'

theorem base_init : Base init := by
  constructor <;> simp [init, State.dirTrees, pcOf_eq, pcOf', find?, spec]

theorem base_step {c : Cfg} {s s' : State} (hb : Base s) (h : Step c s s') : Base s' := by
  obtain ⟨h1, h2, h3, h4, h5⟩ := hb
  simp only [pcOf_eq, State.dirTrees] at h1 h2 h3 h4 h5
  cases h <;> simp only [pcOf_eq] at * <;> constructor <;>
    simp only [pcOf_eq, pcOf'_setPc, State.dirTrees, List.map_cons, List.nodup_cons]
  all_goals first
    | assumption
    | exact nodup_map_del _ _ ‹_›
    | exact fun x hx => h3 x (mem_snd_del hx)
    | grind [spec, find?_none_not_mem, mem_snd_del]

/-! ## the invariant of the repaired code -/

structure Fixed (s : State) : Prop where
  uaf : s.uaf = false
  dnodup : s.destroyed.Nodup
  dsub : ∀ x ∈ s.destroyed, x ∈ s.removedEntries
  /-- trees of the directory are intact and were never erased before -/
  dirOk : ∀ x ∈ s.dirTrees, x ∈ s.live ∧ x ∈ s.ptrSet ∧ x ∉ s.removedEntries
  remLt : ∀ x ∈ s.removedEntries, x < s.nextTree
  /-- an erased tree is destroyed, or is the victim of the delete in progress -/
  remOk : ∀ x ∈ s.removedEntries, x ∈ s.destroyed ∨ ∃ t, victim (pcOf s t) = some x
  /-- the mutex: a thread is between `get` and the return of `delete_storage` iff it holds it -/
  mtx : ∀ t, inCS (pcOf s t) = true ↔ s.mutex = some t
  /-- a speculative tree is intact and unknown to the deleters -/
  specOk : ∀ t x, spec (pcOf s t) = some x → x ∈ s.live ∧ x ∈ s.ptrSet ∧ x ∉ s.removedEntries
  /-- the entry looked up is still there when it is removed (false without the mutex: D14) -/
  d2Ok : ∀ t n r, pcOf s t = .d2 n r → find? s.dir n = some r
  /-- the victim is intact (root live, pointer non-null), erased, not yet destroyed -/
  vicOk : ∀ t x, victim (pcOf s t) = some x →
    x ∈ s.live ∧ x ∈ s.ptrSet ∧ x ∈ s.removedEntries ∧ x ∉ s.destroyed
  d4bOk : ∀ t n r, pcOf s t = .d4b n r → r ∈ s.removedEntries

theorem fixed_init : Fixed init := by
  constructor <;> simp [init, State.dirTrees, pcOf_eq, pcOf', find?, spec, victim, inCS]



theorem victim_inCS {p : Pc} {x : TreeId} (h : victim p = some x) : inCS p = true := by
  cases p <;> simp [victim, inCS] at h ⊢

/- `fixed_setup`: opens `Base`/`Fixed` (`hb`, `hf`), derives mutual exclusion of victims, splits on the step `h`
    and normalises the goal (`hc : c.fix = true`) -/
set_option hygiene false in
macro "fixed_setup" : tactic => `(tactic| (
  obtain ⟨h1, h2, h3, h4, h5⟩ := hb
  obtain ⟨f1, f2, f3, f4, f5, f6, f7, f8, f9, f10, f11⟩ := hf
  simp only [pcOf_eq, State.dirTrees] at h1 h2 h3 h4 h5 f1 f2 f3 f4 f5 f6 f7 f8 f9 f10 f11
  have excl : ∀ t t' x, victim (pcOf' s.pcs t) = some x → inCS (pcOf' s.pcs t') = true →
      t = t' := by
    intro t t' x hv hi
    have := (f7 t).1 (victim_inCS hv)
    have := (f7 t').1 hi
    simp_all
  cases h <;> simp only [pcOf_eq] at * <;>
    (try simp only [pcOf_eq, pcOf'_setPc, State.dirTrees, List.map_cons, List.nodup_cons, hc,
      if_true, State.rootLive])))

macro "fixed_tac" : tactic => `(tactic| (
  first
    | assumption
    | grind [spec, victim, inCS, find?_none_not_mem, mem_snd_del, mem_without, snd_del_ne, find?]))

/- `fixed_remove`, the `removeSome` case: in the repaired model the entry erased (`r'`) is the one looked up (`r`),
    and it is a tree of the directory -/
set_option hygiene false in
macro "fixed_remove" : tactic => `(tactic| (
  have hr : r' = r := by
    have := f9 t n r hpc; rw [hdir] at this; exact Option.some.inj this
  subst hr
  have hmem : r' ∈ List.map (fun x => x.snd) s.dir :=
    List.mem_map.2 ⟨_, find?_some_mem hdir, rfl⟩
  fixed_tac))

theorem fixed_step_uaf {c : Cfg} {s s' : State} (hc : c.fix = true) (hb : Base s) (hf : Fixed s)
    (h : Step c s s') : s'.uaf = false := by
  fixed_setup
  case removeSome t n r r' hpc hdir => fixed_remove
  all_goals fixed_tac

theorem fixed_step_dnodup {c : Cfg} {s s' : State} (hc : c.fix = true) (hb : Base s) (hf : Fixed s)
    (h : Step c s s') : s'.destroyed.Nodup := by
  fixed_setup
  case removeSome t n r r' hpc hdir => fixed_remove
  all_goals fixed_tac

theorem fixed_step_dsub {c : Cfg} {s s' : State} (hc : c.fix = true) (hb : Base s) (hf : Fixed s)
    (h : Step c s s') : ∀ x ∈ s'.destroyed, x ∈ s'.removedEntries := by
  fixed_setup
  case removeSome t n r r' hpc hdir => fixed_remove
  all_goals fixed_tac

theorem fixed_step_dirOk {c : Cfg} {s s' : State} (hc : c.fix = true) (hb : Base s) (hf : Fixed s)
    (h : Step c s s') : ∀ x ∈ s'.dirTrees, x ∈ s'.live ∧ x ∈ s'.ptrSet ∧ x ∉ s'.removedEntries := by
  fixed_setup
  case removeSome t n r r' hpc hdir => fixed_remove
  all_goals fixed_tac

theorem fixed_step_remLt {c : Cfg} {s s' : State} (hc : c.fix = true) (hb : Base s) (hf : Fixed s)
    (h : Step c s s') : ∀ x ∈ s'.removedEntries, x < s'.nextTree := by
  fixed_setup
  case removeSome t n r r' hpc hdir => fixed_remove
  all_goals fixed_tac

theorem fixed_step_remOk {c : Cfg} {s s' : State} (hc : c.fix = true) (hb : Base s) (hf : Fixed s)
    (h : Step c s s') : ∀ x ∈ s'.removedEntries, x ∈ s'.destroyed ∨ ∃ t, victim (pcOf s' t) = some x := by
  fixed_setup
  case removeSome t n r r' hpc hdir => fixed_remove
  all_goals fixed_tac

theorem fixed_step_mtx {c : Cfg} {s s' : State} (hc : c.fix = true) (hb : Base s) (hf : Fixed s)
    (h : Step c s s') : ∀ t, inCS (pcOf s' t) = true ↔ s'.mutex = some t := by
  fixed_setup
  case removeSome t n r r' hpc hdir => fixed_remove
  all_goals fixed_tac

theorem fixed_step_specOk {c : Cfg} {s s' : State} (hc : c.fix = true) (hb : Base s) (hf : Fixed s)
    (h : Step c s s') : ∀ t x, spec (pcOf s' t) = some x →
      x ∈ s'.live ∧ x ∈ s'.ptrSet ∧ x ∉ s'.removedEntries := by
  fixed_setup
  case removeSome t n r r' hpc hdir => fixed_remove
  all_goals fixed_tac

theorem fixed_step_d2Ok {c : Cfg} {s s' : State} (hc : c.fix = true) (hb : Base s) (hf : Fixed s)
    (h : Step c s s') : ∀ t n r, pcOf s' t = .d2 n r → find? s'.dir n = some r := by
  fixed_setup
  case removeSome t n r r' hpc hdir => fixed_remove
  all_goals fixed_tac

theorem fixed_step_vicOk {c : Cfg} {s s' : State} (hc : c.fix = true) (hb : Base s) (hf : Fixed s)
    (h : Step c s s') : ∀ t x, victim (pcOf s' t) = some x →
      x ∈ s'.live ∧ x ∈ s'.ptrSet ∧ x ∈ s'.removedEntries ∧ x ∉ s'.destroyed := by
  fixed_setup
  case removeSome t n r r' hpc hdir => fixed_remove
  all_goals fixed_tac

theorem fixed_step_d4bOk {c : Cfg} {s s' : State} (hc : c.fix = true) (hb : Base s) (hf : Fixed s)
    (h : Step c s s') : ∀ t n r, pcOf s' t = .d4b n r → r ∈ s'.removedEntries := by
  fixed_setup
  case removeSome t n r r' hpc hdir => fixed_remove
  all_goals fixed_tac

theorem fixed_step {c : Cfg} {s s' : State} (hc : c.fix = true) (hb : Base s) (hf : Fixed s)
    (h : Step c s s') : Fixed s' :=
  ⟨fixed_step_uaf hc hb hf h, fixed_step_dnodup hc hb hf h, fixed_step_dsub hc hb hf h,
   fixed_step_dirOk hc hb hf h, fixed_step_remLt hc hb hf h, fixed_step_remOk hc hb hf h,
   fixed_step_mtx hc hb hf h, fixed_step_specOk hc hb hf h, fixed_step_d2Ok hc hb hf h,
   fixed_step_vicOk hc hb hf h, fixed_step_d4bOk hc hb hf h⟩

/-! ## reachable states -/

theorem base_reach {c : Cfg} {s : State} (h : Reach c s) : Base s := by
  induction h with
  | init => exact base_init
  | step _ hs ih => exact base_step ih (step_of_step? hs)

theorem fixed_reach {c : Cfg} {s : State} (hc : c.fix = true) (h : Reach c s) : Fixed s := by
  induction h with
  | init => exact fixed_init
  | step hr hs ih => exact fixed_step hc (base_reach hr) ih (step_of_step? hs)

/-- 1. The repaired code never destroys a root that is not live, and never destroys a tree twice. -/
theorem no_double_destroy_fixed {c : Cfg} {s : State} (hc : c.fix = true) (h : Reach c s) :
    s.uaf = false ∧ s.destroyed.Nodup :=
  ⟨(fixed_reach hc h).uaf, (fixed_reach hc h).dnodup⟩

/-- 2a. A tree is only destroyed by a delete that erased ITS directory entry. -/
theorem destroy_matches_remove_fixed {c : Cfg} {s : State} (hc : c.fix = true) (h : Reach c s) :
    ∀ x ∈ s.destroyed, x ∈ s.removedEntries :=
  (fixed_reach hc h).dsub

/-- 2b. Nothing erased from the directory is leaked: when all threads are idle every erased tree
    has been destroyed. (In any reachable state: an erased tree is destroyed or is the victim of a
    delete in progress, `Fixed.remOk`.) -/
theorem no_leak_at_quiescence_fixed {c : Cfg} {s : State} (hc : c.fix = true) (h : Reach c s)
    (hq : Quiescent s) : ∀ x ∈ s.removedEntries, x ∈ s.destroyed := by
  intro x hx
  rcases (fixed_reach hc h).remOk x hx with hd | ⟨t, ht⟩
  · exact hd
  · rw [hq t] at ht; simp [victim] at ht

/-- 3. No live name points to a destroyed tree (nor to one whose root pointer is null). -/
theorem directory_trees_live {c : Cfg} {s : State} (hc : c.fix = true) (h : Reach c s) :
    ∀ p ∈ s.dir, s.rootLive p.2 = true ∧ s.rootPtrSet p.2 = true := by
  intro p hp
  have := (fixed_reach hc h).dirOk p.2 (List.mem_map.2 ⟨p, hp, rfl⟩)
  simp [State.rootLive, State.rootPtrSet, this.1, this.2.1]

/-- 4. (any configuration) The directory never holds two entries for one name, and the tree ids in
    the directory are distinct. -/
theorem one_winner {c : Cfg} {s : State} (h : Reach c s) :
    (s.dir.map (·.1)).Nodup ∧ (s.dir.map (·.2)).Nodup :=
  ⟨(base_reach h).namesNd, (base_reach h).treesNd⟩

theorem find?_eq_none_iff {α} {l : List (Nat × α)} {a : Nat} :
    find? l a = none ↔ a ∉ l.map (·.1) := by
  refine ⟨find?_none_not_mem, fun h => ?_⟩
  cases hf : find? l a with
  | none => rfl
  | some v => exact absurd (List.mem_map.2 ⟨_, find?_some_mem hf, rfl⟩) h

/-- 4. (results) `put_unique` of a creator succeeds iff the name is absent at that moment … -/
theorem put_result {c : Cfg} {s s' : State} {t : Tid} {n : Name} {tr : TreeId}
    (hpc : pcOf s t = .c2 n tr) (h : step? c s (.put t) = some s') :
    pcOf s' t = .c3 n tr (decide (n ∉ s.dir.map (·.1))) := by
  simp only [step?, hpc] at h
  split at h
  · next hf =>
    injection h with h; subst h
    simp [pcOf_eq, pcOf'_setPc, find?_eq_none_iff.1 hf]
  · next r hf =>
    injection h with h; subst h
    have : n ∈ s.dir.map (·.1) := List.mem_map.2 ⟨_, find?_some_mem hf, rfl⟩
    simp [pcOf_eq, pcOf'_setPc, this]

/-- … and the creator returns OK exactly in that case (UNIQUE otherwise). -/
theorem cfin_result {c : Cfg} {s s' : State} {t : Tid} {n : Name} {tr : TreeId} {ok : Bool}
    (hpc : pcOf s t = .c3 n tr ok) (h : step? c s (.cfin t) = some s') :
    s'.log = (t, .create n, if ok then .ok else .unique) :: s.log := by
  cases ok <;> simp only [step?, hpc] at h <;> injection h with h <;> subst h <;> simp

/-! ## closed runs -/

theorem quiescent_of_pcs_nil {s : State} (h : s.pcs = []) : Quiescent s := by
  intro t; simp [pcOf, h, pcOf', find?]

theorem reach_exec {c : Cfg} {s s' : State} {evs : List Event} (hs : Reach c s)
    (h : exec c s evs = some s') : Reach c s' := by
  induction evs generalizing s with
  | nil => simp [exec] at h; exact h ▸ hs
  | cons e es ih =>
    simp only [exec] at h
    split at h
    · next s1 h1 => exact ih (.step hs h1) h
    · simp at h

/-- final state of `D14_events`: tree 0 destroyed twice, tree 1 erased and still live -/
def D14_final : State :=
  { live := [1], ptrSet := [1], destroyed := [0, 0], removedEntries := [1, 0], nextTree := 2
    uaf := true
    log := [(2, .delete 7, .ok), (0, .delete 7, .ok), (1, .create 7, .ok), (0, .create 7, .ok)] }

theorem D14_run : exec { fix := false } init D14_events = some D14_final := by decide

/-- 5a. Without the mutex `D14_events` is a run; it ends (quiescent) with the use-after-free flag
    raised and tree 0 destroyed twice. -/
theorem D14_counterexample :
    ∃ s, Reach { fix := false } s ∧ exec { fix := false } init D14_events = some s ∧
      s.uaf = true ∧ ¬ s.destroyed.Nodup ∧ Quiescent s :=
  ⟨D14_final, reach_exec .init D14_run, D14_run, rfl, by decide, quiescent_of_pcs_nil rfl⟩

/-- final state of `D14_leak_events`: no use-after-free, tree 1 erased and never destroyed -/
def D14_leak_final : State :=
  { live := [1], ptrSet := [1], destroyed := [0], removedEntries := [1, 0], nextTree := 2
    log := [(2, .delete 7, .ok), (0, .delete 7, .ok), (1, .create 7, .ok), (0, .create 7, .ok)] }

theorem D14_leak_run : exec { fix := false } init D14_leak_events = some D14_leak_final := by
  decide

/-- 5b. Without the mutex: a quiescent reachable state in which an erased tree (the NEW one, id 1)
    is not destroyed — and its root is still live: leaked. Both deletes returned OK. -/
theorem D14_leak :
    ∃ s, Reach { fix := false } s ∧ exec { fix := false } init D14_leak_events = some s ∧
      Quiescent s ∧ (∃ x ∈ s.removedEntries, x ∉ s.destroyed ∧ s.rootLive x = true) ∧
      s.uaf = false :=
  ⟨D14_leak_final, reach_exec .init D14_leak_run, D14_leak_run, quiescent_of_pcs_nil rfl,
   ⟨1, by decide, by decide, by decide⟩, rfl⟩

/-- the double-destroy run leaks tree 1 as well -/
theorem D14_counterexample_leaks :
    ∃ x ∈ D14_final.removedEntries, x ∉ D14_final.destroyed ∧ D14_final.rootLive x = true :=
  ⟨1, by decide, by decide, by decide⟩

/-- final state of `D14_fixed_events` -/
def D14_fixed_final : State :=
  { destroyed := [1, 0], removedEntries := [1, 0], nextTree := 2
    log := [(2, .delete 7, .ok), (0, .delete 7, .ok), (1, .create 7, .ok), (0, .create 7, .ok)] }

theorem D14_fixed_run : exec { fix := true } init D14_fixed_events = some D14_fixed_final := by
  decide

/-- 6. Non-vacuity of the repaired model: the same four operations, interleaved as closely as the
    mutex allows, all return OK and end quiescent with nothing destroyed twice and nothing
    leaked. -/
theorem D14_schedule_fixed :
    ∃ s, Reach { fix := true } s ∧ exec { fix := true } init D14_fixed_events = some s ∧
      Quiescent s ∧ s.uaf = false ∧ s.destroyed.Nodup ∧
      (∀ x ∈ s.removedEntries, x ∈ s.destroyed) ∧ s.live = [] ∧ s.dir = [] :=
  ⟨D14_fixed_final, reach_exec .init D14_fixed_run, D14_fixed_run, quiescent_of_pcs_nil rfl, rfl,
   by decide, by decide, rfl, rfl⟩

/-- the D14 interleaving itself is not a run of the repaired model (T2's `get` needs the mutex) -/
theorem D14_events_rejected_fixed : exec { fix := true } init D14_events = none := by decide

theorem D14_leak_events_rejected_fixed : exec { fix := true } init D14_leak_events = none := by
  decide

end Yak.Proto.StorageDDL
