import YakModel.KeyOrder
/-!
# Proofs about the key comparison sites (C18)

Every hand-written comparison of `YakModel/KeyOrder.lean` agrees with the specification order
`KT.ltSpec` (contributed bytes in `lexLt` order, then the length) on well-formed tuples, and the
layered tuple-by-tuple comparison of full keys is `lexLt`.

Route: `lexLt_take` / `take_eq_take` relate `memcmp s t (min p q)` to `lexLt` / equality of the
prefixes `s.take p`, `t.take q`. `ltSpec_eq_cmpMin` turns `KT.ltSpec` into "`memcmp` over
`min(len)` capped at 8 bytes, then the lengths" (no zero padding needed) and `ltSpec_eq_cmp8` into
"`memcmp` over all 8 slice bytes, then the lengths" (uses the zero padding of well-formed tuples).
-/
namespace Yak

private theorem u8_lt_irrefl (x : UInt8) : ¬ x < x := by rw [UInt8.lt_iff_toNat_lt]; omega
private theorem u8_lt_asymm {x y : UInt8} : x < y → ¬ y < x := by
  rw [UInt8.lt_iff_toNat_lt, UInt8.lt_iff_toNat_lt]; omega
private theorem u8_lt_trans {x y z : UInt8} : x < y → y < z → x < z := by
  simp only [UInt8.lt_iff_toNat_lt]; omega
private theorem u8_eq_of_not_lt {x y : UInt8} : ¬ x < y → ¬ y < x → x = y := by
  simp only [UInt8.lt_iff_toNat_lt]; intro h1 h2; apply UInt8.toNat_inj.mp; omega
private theorem u8_tri (x y : UInt8) : x < y ∨ x = y ∨ y < x := by
  by_cases h1 : x < y
  · exact Or.inl h1
  · by_cases h2 : y < x
    · exact Or.inr (Or.inr h2)
    · exact Or.inr (Or.inl (u8_eq_of_not_lt h1 h2))
private theorem u8_not_lt_zero (x : UInt8) : ¬ x < 0 := by
  rw [UInt8.lt_iff_toNat_lt]; simp

@[simp] private theorem lexLt_nil_nil : lexLt [] [] = false := by simp [lexLt]
@[simp] private theorem lexLt_nil_cons (y : UInt8) (ys) : lexLt [] (y :: ys) = true := by simp [lexLt]
@[simp] private theorem lexLt_cons_nil (x : UInt8) (xs) : lexLt (x :: xs) [] = false := by simp [lexLt]
@[simp] private theorem lexLt_nil_right (a : Key) : lexLt a [] = false := by cases a <;> simp
private theorem lexLt_cons_cons (x y : UInt8) (xs ys) :
    lexLt (x :: xs) (y :: ys) = if x < y then true else if y < x then false else lexLt xs ys := by
  simp [lexLt]
private theorem lexLt_cons_lt {x y : UInt8} (h : x < y) (xs ys) : lexLt (x :: xs) (y :: ys) = true := by
  simp [lexLt_cons_cons, h]
private theorem lexLt_cons_gt {x y : UInt8} (h : y < x) (xs ys) : lexLt (x :: xs) (y :: ys) = false := by
  simp [lexLt_cons_cons, h, u8_lt_asymm h]
@[simp] private theorem lexLt_cons_same (x : UInt8) (xs ys) : lexLt (x :: xs) (x :: ys) = lexLt xs ys := by
  simp [lexLt_cons_cons]

theorem lexLt_irrefl (a : Key) : lexLt a a = false := by
  induction a with
  | nil => simp
  | cons x xs ih => simp [ih]

theorem lexLt_trans : ∀ (a b c : Key), lexLt a b = true → lexLt b c = true → lexLt a c = true
  | [], [], _, h, _ => by simp at h
  | [], _ :: _, [], _, h => by simp at h
  | [], _ :: _, _ :: _, _, _ => by simp
  | _ :: _, [], _, h, _ => by simp at h
  | _ :: _, _ :: _, [], _, h => by simp at h
  | x :: xs, y :: ys, z :: zs, h1, h2 => by
    rcases u8_tri x y with h | h | h
    · rcases u8_tri y z with h' | h' | h'
      · exact lexLt_cons_lt (u8_lt_trans h h') _ _
      · subst h'; exact lexLt_cons_lt h _ _
      · rw [lexLt_cons_gt h'] at h2; simp at h2
    · subst h
      rw [lexLt_cons_same] at h1
      rcases u8_tri x z with h' | h' | h'
      · exact lexLt_cons_lt h' _ _
      · subst h'
        rw [lexLt_cons_same] at h2 ⊢
        exact lexLt_trans xs ys zs h1 h2
      · rw [lexLt_cons_gt h'] at h2; simp at h2
    · rw [lexLt_cons_gt h] at h1; simp at h1

theorem lexLt_total : ∀ (a b : Key), lexLt a b = true ∨ a = b ∨ lexLt b a = true
  | [], [] => by simp
  | [], _ :: _ => by simp
  | _ :: _, [] => by simp
  | x :: xs, y :: ys => by
    rcases u8_tri x y with h | h | h
    · exact Or.inl (lexLt_cons_lt h _ _)
    · subst h
      simp only [lexLt_cons_same, List.cons.injEq, true_and]
      exact lexLt_total xs ys
    · exact Or.inr (Or.inr (lexLt_cons_lt h _ _))

theorem lexLt_asymm (a b : Key) (h : lexLt a b = true) : lexLt b a = false := by
  cases h' : lexLt b a with
  | false => rfl
  | true => have := lexLt_trans a b a h h'; rw [lexLt_irrefl] at this; cases this

private theorem lexLt_ne (a b : Key) (h : lexLt a b = true) : a ≠ b := by
  intro e; subst e; rw [lexLt_irrefl] at h; cases h


@[simp] private theorem memcmp_zero (a b : List UInt8) : memcmp a b 0 = 0 := by simp [memcmp]
private theorem memcmp_cons_cons (x y : UInt8) (a b) (n : Nat) :
    memcmp (x :: a) (y :: b) (n + 1) = if x < y then -1 else if y < x then 1 else memcmp a b n := by
  simp [memcmp]
private theorem memcmp_cons_lt {x y : UInt8} (h : x < y) (a b n) : memcmp (x :: a) (y :: b) (n + 1) = -1 := by
  simp [memcmp_cons_cons, h]
private theorem memcmp_cons_gt {x y : UInt8} (h : y < x) (a b n) : memcmp (x :: a) (y :: b) (n + 1) = 1 := by
  simp [memcmp_cons_cons, h, u8_lt_asymm h]
@[simp] private theorem memcmp_cons_same (x : UInt8) (a b n) :
    memcmp (x :: a) (x :: b) (n + 1) = memcmp a b n := by
  simp [memcmp_cons_cons]

/-- the key lemma: comparing prefixes of lengths `p`, `q` lexicographically is `memcmp` over
    `min p q` bytes followed by the length comparison. -/
theorem lexLt_take : ∀ (p q : Nat) (s t : List UInt8), p ≤ s.length → q ≤ t.length →
    lexLt (s.take p) (t.take q) =
      (decide (memcmp s t (min p q) < 0) || (memcmp s t (min p q) == 0 && decide (p < q)))
  | 0, 0, s, t, _, _ => by simp
  | 0, q + 1, s, [], _, h => by simp at h
  | 0, q + 1, s, y :: t, _, _ => by simp
  | p + 1, q, [], t, h, _ => by simp at h
  | p + 1, 0, x :: s, t, _, _ => by simp
  | p + 1, q + 1, x :: s, [], _, h => by simp at h
  | p + 1, q + 1, x :: s, y :: t, hp, hq => by
    have hm : min (p + 1) (q + 1) = min p q + 1 := by omega
    rw [hm, List.take_succ_cons, List.take_succ_cons]
    rcases u8_tri x y with h | h | h
    · rw [lexLt_cons_lt h, memcmp_cons_lt h]; simp
    · subst h
      rw [lexLt_cons_same, memcmp_cons_same]
      rw [lexLt_take p q s t (by simpa using hp) (by simpa using hq)]
      simp
    · rw [lexLt_cons_gt h, memcmp_cons_gt h]; simp

theorem take_eq_take : ∀ (p q : Nat) (s t : List UInt8), p ≤ s.length → q ≤ t.length →
    (s.take p = t.take q ↔ (memcmp s t (min p q) = 0 ∧ p = q))
  | 0, 0, s, t, _, _ => by simp
  | 0, q + 1, s, [], _, h => by simp at h
  | 0, q + 1, s, y :: t, _, _ => by simp
  | p + 1, q, [], t, h, _ => by simp at h
  | p + 1, 0, x :: s, t, _, _ => by simp
  | p + 1, q + 1, x :: s, [], _, h => by simp at h
  | p + 1, q + 1, x :: s, y :: t, hp, hq => by
    have hm : min (p + 1) (q + 1) = min p q + 1 := by omega
    rw [hm, List.take_succ_cons, List.take_succ_cons]
    rcases u8_tri x y with h | h | h
    · rw [memcmp_cons_lt h]
      have : x ≠ y := by intro e; subst e; exact u8_lt_irrefl _ h
      simp [this]
    · subst h
      rw [memcmp_cons_same]
      have := take_eq_take p q s t (by simpa using hp) (by simpa using hq)
      simp [this]
    · rw [memcmp_cons_gt h]
      have : x ≠ y := by intro e; subst e; exact u8_lt_irrefl _ h
      simp [this]



private theorem ktBytes_def (a : KT) : a.bytes = a.slice.take (min a.len 8) := rfl

/-- the generic comparison (`memcmp` over `min(len)` capped at 8 bytes of the slices, then the
    lengths) is the specification order. -/
theorem ltSpec_eq_cmpMin (k t : KT) (hk : k.slice.length = 8) (ht : t.slice.length = 8) :
    KT.ltSpec k t =
      (decide (memcmp k.slice t.slice (min (min k.len t.len) 8) < 0) ||
        (memcmp k.slice t.slice (min (min k.len t.len) 8) == 0 && decide (k.len < t.len))) := by
  have hp : min k.len 8 ≤ k.slice.length := by omega
  have hq : min t.len 8 ≤ t.slice.length := by omega
  have hm : min (min k.len 8) (min t.len 8) = min (min k.len t.len) 8 := by omega
  have e1 := lexLt_take _ _ _ _ hp hq
  have e2 := take_eq_take _ _ _ _ hp hq
  rw [hm] at e1 e2
  unfold KT.ltSpec
  rw [ktBytes_def, ktBytes_def, e1]
  have e3 : (List.take (min k.len 8) k.slice == List.take (min t.len 8) t.slice) =
      decide (memcmp k.slice t.slice (min (min k.len t.len) 8) = 0 ∧ min k.len 8 = min t.len 8) := by
    rw [Bool.eq_iff_iff, beq_iff_eq, decide_eq_true_iff]; exact e2
  rw [e3]
  generalize memcmp k.slice t.slice (min (min k.len t.len) 8) = r
  by_cases h1 : r < 0
  · simp [h1]
  · by_cases h2 : r = 0
    · subst h2
      simp only [Int.lt_irrefl, decide_false, BEq.rfl, Bool.true_and, Bool.false_or, true_and]
      by_cases hlt : k.len < t.len <;> simp [hlt] <;> omega
    · have h3 : (r == 0) = false := by simp [h2]
      simp [h1, h2, h3]


private theorem memcmp_append : ∀ (n : Nat) (a b c d : List UInt8), n ≤ a.length → n ≤ b.length →
    memcmp (a ++ c) (b ++ d) n = memcmp a b n
  | 0, _, _, _, _, _, _ => by simp
  | n + 1, [], _, _, _, h, _ => by simp at h
  | n + 1, _ :: _, [], _, _, _, h => by simp at h
  | n + 1, x :: a, y :: b, c, d, ha, hb => by
    rw [List.cons_append, List.cons_append, memcmp_cons_cons, memcmp_cons_cons,
      memcmp_append n a b c d (by simpa using ha) (by simpa using hb)]

private theorem memcmp_append_same (z : UInt8) : ∀ (a b : List UInt8), a.length = b.length →
    memcmp (a ++ [z]) (b ++ [z]) (a.length + 1) = memcmp a b a.length
  | [], [], _ => by simp
  | [], _ :: _, h => by simp at h
  | _ :: _, [], h => by simp at h
  | x :: a, y :: b, h => by
    rw [List.cons_append, List.cons_append, List.length_cons, memcmp_cons_cons, memcmp_cons_cons,
      memcmp_append_same z a b (by simpa using h)]

private theorem cmp_ite (r : Int) (c : Bool) :
    (if r < 0 then true else if (r == 0) = true then c else false) =
      (decide (r < 0) || (r == 0 && c)) := by
  by_cases h1 : r < 0
  · simp [h1]
  · by_cases h2 : r = 0
    · subst h2; simp
    · have h3 : (r == 0) = false := by simp [h2]
      simp [h1, h3]

private theorem kt_lt_eq_ltSpec (a b : KT) (ha : a.WF) (hb : b.WF) : KT.lt a b = KT.ltSpec a b := by
  obtain ⟨ha8, ha9, _⟩ := ha
  obtain ⟨hb8, hb9, _⟩ := hb
  rw [ltSpec_eq_cmpMin a b ha8 hb8]
  unfold KT.lt
  by_cases hr : b.len = 0
  · simp [hr]
  · by_cases hl : a.len = 0
    · have : 0 < b.len := by omega
      simp [hl, this, hr]
    · have hr' : (b.len == 0) = false := by simp [hr]
      have hl' : (a.len == 0) = false := by simp [hl]
      simp only [hr', hl', Bool.false_eq_true, if_false]
      rw [cmp_ite]
      have hn : (if a.len < b.len then a.len else b.len) = min a.len b.len := by
        by_cases h : a.len < b.len
        · rw [if_pos h]; omega
        · rw [if_neg h]; omega
      rw [hn]
      by_cases h9 : min a.len b.len ≤ 8
      · have : min (min a.len b.len) 8 = min a.len b.len := by omega
        rw [this]
        unfold KT.repr9
        rw [memcmp_append _ _ _ _ _ (by omega) (by omega)]
      · have e1 : a.len = 9 := by omega
        have e2 : b.len = 9 := by omega
        have : min (min a.len b.len) 8 = 8 := by omega
        rw [this]
        have : min a.len b.len = a.slice.length + 1 := by omega
        rw [this]
        unfold KT.repr9
        rw [e1, e2, memcmp_append_same _ _ _ (by omega), ha8]

private theorem kt_ltSpec_irrefl (a : KT) : KT.ltSpec a a = false := by
  simp [KT.ltSpec, lexLt_irrefl]

private theorem ltSpec_iff (a b : KT) :
    KT.ltSpec a b = true ↔ (lexLt a.bytes b.bytes = true ∨ (a.bytes = b.bytes ∧ a.len < b.len)) := by
  simp [KT.ltSpec]

private theorem kt_ltSpec_trans (a b c : KT) :
    KT.ltSpec a b = true → KT.ltSpec b c = true → KT.ltSpec a c = true := by
  rw [ltSpec_iff, ltSpec_iff, ltSpec_iff]
  rintro (h1 | ⟨h1, h1'⟩) (h2 | ⟨h2, h2'⟩)
  · exact Or.inl (lexLt_trans _ _ _ h1 h2)
  · rw [← h2]; exact Or.inl h1
  · rw [h1]; exact Or.inl h2
  · exact Or.inr ⟨h1.trans h2, Nat.lt_trans h1' h2'⟩

private theorem kt_ltSpec_asymm (a b : KT) (h : KT.ltSpec a b = true) : KT.ltSpec b a = false := by
  cases h' : KT.ltSpec b a with
  | false => rfl
  | true => have := kt_ltSpec_trans a b a h h'; rw [kt_ltSpec_irrefl] at this; cases this

private theorem kt_ltSpec_ne (a b : KT) (h : KT.ltSpec a b = true) : a ≠ b := by
  intro e; subst e; rw [kt_ltSpec_irrefl] at h; cases h

private theorem wf_slice (a : KT) (h : a.WF) : a.slice = a.bytes ++ List.replicate (8 - a.len) 0 := by
  obtain ⟨h8, h9, hz⟩ := h
  rw [ktBytes_def]
  by_cases hl : a.len ≤ 8
  · have : min a.len 8 = a.len := by omega
    rw [this, ← hz, List.take_append_drop]
  · have : min a.len 8 = 8 := by omega
    rw [this]
    have : 8 - a.len = 0 := by omega
    rw [this, List.replicate_zero, List.append_nil, List.take_of_length_le (by omega)]

private theorem wf_ext (a b : KT) (ha : a.WF) (hb : b.WF) (h1 : a.bytes = b.bytes) (h2 : a.len = b.len) :
    a = b := by
  have e1 := wf_slice a ha
  have e2 := wf_slice b hb
  rw [h1, h2, ← e2] at e1
  obtain ⟨as, al⟩ := a
  obtain ⟨bs, bl⟩ := b
  dsimp only at e1 h2
  rw [e1, h2]

private theorem kt_ltSpec_total (a b : KT) (ha : a.WF) (hb : b.WF) :
    KT.ltSpec a b = true ∨ a = b ∨ KT.ltSpec b a = true := by
  rw [ltSpec_iff, ltSpec_iff]
  rcases lexLt_total a.bytes b.bytes with h | h | h
  · exact Or.inl (Or.inl h)
  · rcases Nat.lt_trichotomy a.len b.len with h' | h' | h'
    · exact Or.inl (Or.inr ⟨h, h'⟩)
    · exact Or.inr (Or.inl (wf_ext a b ha hb h h'))
    · exact Or.inr (Or.inr (Or.inr ⟨h.symm, h'⟩))
  · exact Or.inr (Or.inr (Or.inl h))

theorem routeLeft_eq (k t : KT) (hk : k.WF) (ht : t.WF) : routeLeft k t = KT.ltSpec k t := by
  rw [ltSpec_eq_cmpMin k t hk.1 ht.1]
  unfold routeLeft
  have hn : (if (if k.len < t.len then k.len else t.len) > 8 then 8
      else (if k.len < t.len then k.len else t.len)) = min (min k.len t.len) 8 := by
    split <;> split <;> omega
  simp only [hn]

theorem interiorLess_eq (k t : KT) (hk : k.WF) (ht : t.WF) : interiorLess k t = KT.ltSpec k t := by
  rw [ltSpec_eq_cmpMin k t hk.1 ht.1]
  unfold interiorLess
  have hn : (if (decide (k.len > 8) && decide (t.len > 8)) = true then 8
      else (if k.len < t.len then k.len else t.len)) = min (min k.len t.len) 8 := by
    have := hk.2.1
    have := ht.2.1
    by_cases h1 : k.len > 8 <;> by_cases h2 : t.len > 8 <;> simp [h1, h2] <;> (try split) <;> omega
  simp only [hn]

private theorem wf_len_zero (k t : KT) (hk : k.WF) (ht : t.WF) (h1 : k.len = 0) (h2 : t.len = 0) : k = t := by
  apply wf_ext k t hk ht _ (by omega)
  rw [ktBytes_def, ktBytes_def, h1, h2]; simp

theorem borderSplitLower_eq (k first : KT) (rank remaining : Nat) (hk : k.WF) (hf : first.WF)
    (hne : k ≠ first) (hrank : rank < remaining → KT.ltSpec k first = true) :
    borderSplitLower k first rank remaining = KT.ltSpec k first := by
  unfold borderSplitLower
  have hn : Nat.min (Nat.min k.len first.len) 8 = min (min k.len first.len) 8 := rfl
  simp only [hn]
  by_cases hr : rank < remaining
  · rw [hrank hr]
    have := hrank hr
    rw [ltSpec_eq_cmpMin k first hk.1 hf.1] at this
    generalize memcmp k.slice first.slice (min (min k.len first.len) 8) = r at this ⊢
    simp only [hr, decide_true, Bool.and_true]
    simp only [Bool.or_eq_true, Bool.and_eq_true, decide_eq_true_eq] at this ⊢
    rcases this with h | h
    · exact Or.inl (Or.inl (Or.inr h))
    · exact Or.inr h.1
  · rw [ltSpec_eq_cmpMin k first hk.1 hf.1]
    by_cases hk0 : k.len = 0
    · have hf0 : first.len ≠ 0 := fun h => hne (wf_len_zero k first hk hf hk0 h)
      have : 0 < first.len := by omega
      simp [hk0, this]
    · have : (k.len == 0) = false := by simp [hk0]
      simp [hr, this]

private theorem memcmp_add : ∀ (n m : Nat) (s t : List UInt8), n ≤ s.length → n ≤ t.length →
    memcmp s t (n + m) = if memcmp s t n = 0 then memcmp (s.drop n) (t.drop n) m else memcmp s t n
  | 0, m, s, t, _, _ => by simp
  | n + 1, m, [], _, h, _ => by simp at h
  | n + 1, m, _ :: _, [], _, h => by simp at h
  | n + 1, m, x :: s, y :: t, hs, ht => by
    have : n + 1 + m = (n + m) + 1 := by omega
    rw [this]
    rcases u8_tri x y with h | h | h
    · rw [memcmp_cons_lt h, memcmp_cons_lt h]; simp
    · subst h
      rw [memcmp_cons_same, memcmp_cons_same, List.drop_succ_cons, List.drop_succ_cons]
      exact memcmp_add n m s t (by simpa using hs) (by simpa using ht)
    · rw [memcmp_cons_gt h, memcmp_cons_gt h]; simp

private theorem memcmp_zeros_left : ∀ (m j : Nat) (t : List UInt8), m ≤ j → m ≤ t.length →
    memcmp (List.replicate j 0) t m ≤ 0
  | 0, _, _, _, _ => by simp
  | m + 1, 0, _, h, _ => by simp at h
  | m + 1, j + 1, [], _, h => by simp at h
  | m + 1, j + 1, y :: t, hj, ht => by
    rw [List.replicate_succ, memcmp_cons_cons]
    split
    · omega
    · split
      · exact absurd ‹y < 0› (u8_not_lt_zero y)
      · exact memcmp_zeros_left m j t (by omega) (by simpa using ht)

private theorem memcmp_zeros_right : ∀ (m j : Nat) (s : List UInt8), m ≤ j → m ≤ s.length →
    0 ≤ memcmp s (List.replicate j 0) m
  | 0, _, _, _, _ => by simp
  | m + 1, 0, _, h, _ => by simp at h
  | m + 1, j + 1, [], _, h => by simp at h
  | m + 1, j + 1, x :: s, hj, hs => by
    rw [List.replicate_succ, memcmp_cons_cons]
    split
    · exact absurd ‹x < 0› (u8_not_lt_zero x)
    · split
      · omega
      · exact memcmp_zeros_right m j s (by omega) (by simpa using hs)

private theorem wf_drop (a : KT) (h : a.WF) :
    a.slice.drop (min a.len 8) = List.replicate (8 - a.len) 0 := by
  have := wf_slice a h
  rw [ktBytes_def] at this
  exact List.append_cancel_left ((List.take_append_drop _ _).trans this)

/-- comparing the full zero-padded slices and then the lengths is the specification order
    (this is where zero padding matters). -/
theorem ltSpec_eq_cmp8 (k t : KT) (hk : k.WF) (ht : t.WF) :
    KT.ltSpec k t =
      (decide (memcmp k.slice t.slice 8 < 0) ||
        (memcmp k.slice t.slice 8 == 0 && decide (k.len < t.len))) := by
  rw [ltSpec_eq_cmpMin k t hk.1 ht.1]
  have hk8 := hk.1
  have ht8 := ht.1
  have hk9 := hk.2.1
  have ht9 := ht.2.1
  have h8 : 8 = min (min k.len t.len) 8 + (8 - min (min k.len t.len) 8) := by omega
  conv => rhs; rw [h8]
  rw [memcmp_add _ _ _ _ (by omega) (by omega)]
  by_cases hr : memcmp k.slice t.slice (min (min k.len t.len) 8) = 0
  · rw [if_pos hr, hr]
    rcases Nat.lt_trichotomy k.len t.len with hlt | hlt | hlt
    · have hn : min (min k.len t.len) 8 = min k.len 8 := by omega
      rw [hn, wf_drop k hk]
      have := memcmp_zeros_left (8 - min k.len 8) (8 - k.len) (List.drop (min k.len 8) t.slice)
        (by omega) (by rw [List.length_drop]; omega)
      generalize memcmp (List.replicate (8 - k.len) 0) (List.drop (min k.len 8) t.slice)
        (8 - min k.len 8) = r at this
      by_cases h1 : r < 0
      · simp [h1, hlt]
      · have : r = 0 := by omega
        subst this; simp [hlt]
    · have hn : min (min k.len t.len) 8 = min k.len 8 := by omega
      have hn' : min k.len 8 = min t.len 8 := by omega
      rw [hn, wf_drop k hk, hn', wf_drop t ht]
      have h1 := memcmp_zeros_left (8 - min t.len 8) (8 - k.len) (List.replicate (8 - t.len) 0)
        (by omega) (by rw [List.length_replicate]; omega)
      have h2 := memcmp_zeros_right (8 - min t.len 8) (8 - t.len) (List.replicate (8 - k.len) 0)
        (by omega) (by rw [List.length_replicate]; omega)
      have : memcmp (List.replicate (8 - k.len) 0) (List.replicate (8 - t.len) 0)
          (8 - min t.len 8) = 0 := by omega
      rw [this]
    · have hn : min (min k.len t.len) 8 = min t.len 8 := by omega
      rw [hn, wf_drop t ht]
      have := memcmp_zeros_right (8 - min t.len 8) (8 - t.len) (List.drop (min t.len 8) k.slice)
        (by omega) (by rw [List.length_drop]; omega)
      generalize memcmp (List.drop (min t.len 8) k.slice) (List.replicate (8 - t.len) 0)
        (8 - min t.len 8) = r at this
      have h1 : ¬ r < 0 := by omega
      have h2 : ¬ k.len < t.len := by omega
      simp [h1, h2]
  · rw [if_neg hr]

private theorem memcmp8_eq_zero (k t : KT) (hk : k.slice.length = 8) (ht : t.slice.length = 8) :
    memcmp k.slice t.slice 8 = 0 ↔ k.slice = t.slice := by
  have := take_eq_take 8 8 k.slice t.slice (by omega) (by omega)
  rw [List.take_of_length_le (by omega), List.take_of_length_le (by omega)] at this
  simpa using this.symm

theorem leafProbe_spec (k t : KT) (hk : k.WF) (ht : t.WF) :
    leafProbe k t = if k = t then .hit else if KT.ltSpec k t = true then .stop else .next := by
  unfold leafProbe
  by_cases h0 : k.len = 0 ∧ t.len = 0
  · have := wf_len_zero k t hk ht h0.1 h0.2
    simp [h0.2, this]
  · have h0' : (k.len == 0 && t.len == 0) = false := by
      simp only [Bool.and_eq_false_iff, beq_eq_false_iff_ne]; omega
    rw [h0']
    simp only [Bool.false_eq_true, if_false]
    have hs := ltSpec_eq_cmp8 k t hk ht
    have he := memcmp8_eq_zero k t hk.1 ht.1
    have hk9 := hk.2.1
    have ht9 := ht.2.1
    generalize memcmp k.slice t.slice 8 = r at hs he
    by_cases hr : r = 0
    · subst hr
      have hsl : k.slice = t.slice := he.mp rfl
      simp only [BEq.rfl, if_true]
      by_cases hl : k.len = t.len
      · have : k = t := by
          obtain ⟨a, b⟩ := k; obtain ⟨c, d⟩ := t
          dsimp only at hsl hl; rw [hsl, hl]
        simp [this]
      · have hne : k ≠ t := fun e => hl (by rw [e])
        have hc : ((decide (k.len > 8) && decide (t.len > 8)) || k.len == t.len) = false := by
          simp only [Bool.or_eq_false_iff, Bool.and_eq_false_iff, decide_eq_false_iff_not,
            beq_eq_false_iff_ne]
          omega
        rw [hc, hs]
        simp [hne]
    · have hne : k ≠ t := fun e => hr (he.mpr (by rw [e]))
      have hr' : (r == 0) = false := by simp [hr]
      rw [hs]
      simp [hne, hr']

theorem leafProbe_eq (k t : KT) (hk : k.WF) (ht : t.WF) :
    (leafProbe k t = .hit ↔ (k = t)) ∧
    (leafProbe k t = .stop ↔ KT.ltSpec k t = true) ∧
    (leafProbe k t = .next ↔ KT.ltSpec t k = true) := by
  rw [leafProbe_spec k t hk ht]
  by_cases he : k = t
  · subst he; simp [kt_ltSpec_irrefl]
  · by_cases hl : KT.ltSpec k t = true
    · simp [he, hl, kt_ltSpec_asymm k t hl]
    · rcases kt_ltSpec_total k t hk ht with h | h | h
      · exact absurd h hl
      · exact absurd h he
      · simp [he, hl, h]

private theorem rank_go_cons (k t : KT) (ts : List KT) (i : Nat) :
    rankIfInsert.go k (t :: ts) i =
      match leafProbe k t with
      | .hit => 0
      | .stop => i
      | .next => rankIfInsert.go k ts (i + 1) := by
  simp only [rankIfInsert.go, leafProbe]
  by_cases h0 : (k.len == 0 && t.len == 0) = true
  · simp [h0]
  · by_cases h1 : (memcmp k.slice t.slice 8 == 0) = true
    · by_cases h2 : ((decide (k.len > 8) && decide (t.len > 8)) || k.len == t.len) = true
      · simp [h0, h1, h2]
      · by_cases h3 : k.len < t.len
        · simp [h0, h1, h2, h3]
        · simp [h0, h1, h2, h3]
    · by_cases h3 : memcmp k.slice t.slice 8 < 0
      · simp [h0, h1, h3]
      · simp [h0, h1, h3]

private theorem rank_go_eq (k : KT) (hk : k.WF) : ∀ (ents : List KT) (i : Nat), (∀ t ∈ ents, t.WF) →
    ents.Pairwise (fun a b => KT.ltSpec a b = true) → k ∉ ents →
    rankIfInsert.go k ents i = i + (ents.filter (fun t => KT.ltSpec t k)).length
  | [], i, _, _, _ => by simp [rankIfInsert.go]
  | t :: ts, i, he, hs, hn => by
    have ht : t.WF := he t (by simp)
    have hne : k ≠ t := fun e => hn (by simp [e])
    rw [rank_go_cons, leafProbe_spec k t hk ht, if_neg hne]
    rw [List.pairwise_cons] at hs
    by_cases hl : KT.ltSpec k t = true
    · rw [if_pos hl]
      have : (t :: ts).filter (fun t => KT.ltSpec t k) = [] := by
        rw [List.filter_eq_nil_iff]
        intro a ha
        rcases List.mem_cons.mp ha with e | e
        · subst e; rw [kt_ltSpec_asymm k a hl]; simp
        · have := kt_ltSpec_trans k t a hl (hs.1 a e)
          rw [kt_ltSpec_asymm k a this]; simp
      rw [this]; simp
    · rw [if_neg hl]
      have hgt : KT.ltSpec t k = true := by
        rcases kt_ltSpec_total k t hk ht with h | h | h
        · exact absurd h hl
        · exact absurd h hne
        · exact h
      simp only
      rw [rank_go_eq k hk ts (i + 1) (fun a ha => he a (by simp [ha])) hs.2
        (fun h => hn (by simp [h]))]
      rw [List.filter_cons_of_pos (by simpa using hgt), List.length_cons]
      omega

theorem rankIfInsert_eq (k : KT) (ents : List KT) (hk : k.WF) (he : ∀ t ∈ ents, t.WF)
    (hs : ents.Pairwise (fun a b => KT.ltSpec a b = true)) (hn : k ∉ ents) :
    rankIfInsert k ents = (ents.filter (fun t => KT.ltSpec t k)).length := by
  unfold rankIfInsert
  rw [rank_go_eq k hk ents 0 he hs hn]; simp

private theorem mem_insertSorted (x z : KT × Nat) : ∀ (l : List (KT × Nat)),
    z ∈ insertSorted x l ↔ z = x ∨ z ∈ l
  | [] => by simp [insertSorted]
  | y :: ys => by
    unfold insertSorted
    split
    · simp
    · simp only [List.mem_cons, mem_insertSorted x z ys]
      constructor
      · rintro (h | h | h)
        · exact Or.inr (Or.inl h)
        · exact Or.inl h
        · exact Or.inr (Or.inr h)
      · rintro (h | h | h)
        · exact Or.inr (Or.inl h)
        · exact Or.inl h
        · exact Or.inr (Or.inr h)

private theorem insertSorted_perm (x : KT × Nat) : ∀ (l : List (KT × Nat)),
    (insertSorted x l).Perm (x :: l)
  | [] => by simp [insertSorted]
  | y :: ys => by
    unfold insertSorted
    split
    · exact List.Perm.refl _
    · exact ((insertSorted_perm x ys).cons y).trans (List.Perm.swap x y ys)

private theorem sortPairs_cons (x : KT × Nat) (l : List (KT × Nat)) :
    sortPairs (x :: l) = insertSorted x (sortPairs l) := rfl

private theorem sortPairs_perm : ∀ (l : List (KT × Nat)), (sortPairs l).Perm l
  | [] => List.Perm.refl _
  | x :: l => by
    rw [sortPairs_cons]
    exact (insertSorted_perm x _).trans ((sortPairs_perm l).cons x)

private theorem pairLt_iff (x y : KT × Nat) (hx : x.1.WF) (hy : y.1.WF) (hne : x.1 ≠ y.1) :
    pairLt x y = KT.ltSpec x.1 y.1 := by
  unfold pairLt
  rw [kt_lt_eq_ltSpec _ _ hx hy, kt_lt_eq_ltSpec _ _ hy hx]
  rcases kt_ltSpec_total x.1 y.1 hx hy with h | h | h
  · simp [h]
  · exact absurd h hne
  · simp [h, kt_ltSpec_asymm _ _ h]

private theorem insertSorted_sorted (x : KT × Nat) (hx : x.1.WF) : ∀ (l : List (KT × Nat)),
    (∀ y ∈ l, y.1.WF) → (∀ y ∈ l, x.1 ≠ y.1) →
    l.Pairwise (fun a b => KT.ltSpec a.1 b.1 = true) →
    (insertSorted x l).Pairwise (fun a b => KT.ltSpec a.1 b.1 = true)
  | [], _, _, _ => by simp [insertSorted]
  | y :: ys, hw, hd, hs => by
    have hy : y.1.WF := hw y (by simp)
    have hne : x.1 ≠ y.1 := hd y (by simp)
    rw [List.pairwise_cons] at hs
    unfold insertSorted
    rw [pairLt_iff x y hx hy hne]
    split
    · rename_i hlt
      rw [List.pairwise_cons]
      refine ⟨?_, List.pairwise_cons.mpr hs⟩
      intro z hz
      rcases List.mem_cons.mp hz with e | e
      · rw [e]; exact hlt
      · exact kt_ltSpec_trans _ _ _ hlt (hs.1 z e)
    · rename_i hlt
      have hgt : KT.ltSpec y.1 x.1 = true := by
        rcases kt_ltSpec_total x.1 y.1 hx hy with h | h | h
        · exact absurd h hlt
        · exact absurd h hne
        · exact h
      rw [List.pairwise_cons]
      refine ⟨?_, insertSorted_sorted x hx ys (fun a ha => hw a (by simp [ha]))
        (fun a ha => hd a (by simp [ha])) hs.2⟩
      intro z hz
      rcases (mem_insertSorted x z ys).mp hz with e | e
      · rw [e]; exact hgt
      · exact hs.1 z e

private theorem sortPairs_sorted : ∀ (l : List (KT × Nat)), (∀ y ∈ l, y.1.WF) →
    (l.map Prod.fst).Nodup →
    (sortPairs l).Pairwise (fun a b => KT.ltSpec a.1 b.1 = true)
  | [], _, _ => by simp [sortPairs]
  | x :: l, hw, hd => by
    rw [sortPairs_cons]
    rw [List.map_cons, List.nodup_cons] at hd
    have hmem : ∀ y, y ∈ sortPairs l ↔ y ∈ l := fun y => (sortPairs_perm l).mem_iff
    apply insertSorted_sorted x (hw x (by simp))
    · intro y hy; exact hw y (by simp [(hmem y).mp hy])
    · intro y hy e
      apply hd.1
      rw [e]
      exact List.mem_map_of_mem ((hmem y).mp hy)
    · exact sortPairs_sorted l (fun a ha => hw a (by simp [ha])) hd.2

theorem rearrange_sorted (ents : List KT) (he : ∀ t ∈ ents, t.WF) (hd : ents.Nodup) :
    (rearrangeOrder ents).Perm (List.range ents.length) ∧
    ((rearrangeOrder ents).map (fun i => ents[i]!)).Pairwise (fun a b => KT.ltSpec a b = true) := by
  unfold rearrangeOrder
  constructor
  · have := (sortPairs_perm ents.zipIdx).map Prod.snd
    rw [List.zipIdx_map_snd, ← List.range_eq_range'] at this
    exact this
  · have hmem : ∀ y, y ∈ sortPairs ents.zipIdx ↔ y ∈ ents.zipIdx :=
      fun y => (sortPairs_perm _).mem_iff
    have hmap : (sortPairs ents.zipIdx).map ((fun i => ents[i]!) ∘ Prod.snd) =
        (sortPairs ents.zipIdx).map Prod.fst := by
      apply List.map_congr_left
      intro p hp
      have := List.mem_zipIdx_iff_getElem?.mp ((hmem p).mp hp)
      simp [this]
    rw [List.map_map, hmap, List.pairwise_map]
    apply sortPairs_sorted
    · intro y hy; exact he _ (List.fst_mem_of_mem_zipIdx hy)
    · rw [List.zipIdx_map_fst]; exact hd

private theorem kt_ofKey_wf (k : Key) : (KT.ofKey k).WF := by
  unfold KT.ofKey KT.WF
  split
  · rename_i h
    refine ⟨?_, Nat.le_refl 9, ?_⟩
    · simp only [List.length_take]; omega
    · simp only
      rw [List.drop_eq_nil_of_le (by simp only [List.length_take]; omega)]
      rfl
  · rename_i h
    have hk : List.take 8 k = k := List.take_of_length_le (by omega)
    refine ⟨?_, (by show k.length ≤ 9; omega), ?_⟩
    · simp only [padTo, List.length_append, List.length_take, List.length_replicate]; omega
    · simp only [padTo, hk]
      rw [List.drop_left]

private theorem ofKey_short (k : Key) (h : k.length ≤ 8) :
    (KT.ofKey k).bytes = k ∧ (KT.ofKey k).len = k.length := by
  have h' : ¬ k.length > 8 := by omega
  have hk : List.take 8 k = k := List.take_of_length_le (by omega)
  have hm : min k.length 8 = k.length := by omega
  unfold KT.ofKey
  rw [if_neg h', ktBytes_def]
  simp only [padTo, hk, hm, and_true]
  rw [List.take_left]

private theorem ofKey_long (k : Key) (h : k.length > 8) :
    (KT.ofKey k).bytes = k.take 8 ∧ (KT.ofKey k).len = 9 := by
  unfold KT.ofKey
  rw [if_pos h, ktBytes_def]
  simp only [and_true]
  exact List.take_of_length_le (by simp only [List.length_take]; omega)

private theorem chunks_short (k : Key) (h : k.length ≤ 8) : chunks k = [KT.ofKey k] := by
  rw [chunks, dif_neg (by omega)]

private theorem chunks_long (k : Key) (h : k.length > 8) :
    chunks k = KT.ofKey k :: chunks (k.drop 8) := by
  rw [chunks, dif_pos h]

private theorem go_nil_right : ∀ (xs : List KT), layeredLt.go xs [] = false
  | [] => by simp [layeredLt.go]
  | _ :: _ => by simp [layeredLt.go]

private theorem go_cons_cons (x y : KT) (xs ys : List KT) :
    layeredLt.go (x :: xs) (y :: ys) =
      if KT.lt x y = true then true else if KT.lt y x = true then false else layeredLt.go xs ys := by
  simp [layeredLt.go]

private theorem go_last (x y : KT) (xs ys : List KT) (h : xs = [] ∨ ys = []) (hx : x.WF) (hy : y.WF) :
    layeredLt.go (x :: xs) (y :: ys) = KT.ltSpec x y := by
  rw [go_cons_cons, kt_lt_eq_ltSpec x y hx hy, kt_lt_eq_ltSpec y x hy hx]
  have : layeredLt.go xs ys = false := by
    rcases h with h | h
    · subst h; simp [layeredLt.go]
    · subst h; exact go_nil_right xs
  rw [this]
  cases h1 : KT.ltSpec x y
  · simp
  · simp

private theorem lexLt_append_eqlen : ∀ (p q s s' : List UInt8), p.length = q.length →
    lexLt (p ++ s) (q ++ s') =
      if lexLt p q = true then true else if lexLt q p = true then false else lexLt s s'
  | [], [], _, _, _ => by simp
  | [], _ :: _, _, _, h => by simp at h
  | _ :: _, [], _, _, h => by simp at h
  | x :: p, y :: q, s, s', h => by
    rw [List.cons_append, List.cons_append]
    rcases u8_tri x y with h' | h' | h'
    · rw [lexLt_cons_lt h', lexLt_cons_lt h']; simp
    · subst h'
      rw [lexLt_cons_same, lexLt_cons_same, lexLt_cons_same]
      exact lexLt_append_eqlen p q s s' (by simpa using h)
    · rw [lexLt_cons_gt h', lexLt_cons_gt h', lexLt_cons_lt h']; simp

private theorem lexLt_short_left : ∀ (p a s : List UInt8), a.length ≤ p.length → s ≠ [] →
    lexLt a (p ++ s) = (lexLt a p || a == p)
  | [], [], s, _, hs => by
    cases s with
    | nil => exact absurd rfl hs
    | cons _ _ => simp
  | [], _ :: _, _, h, _ => by simp at h
  | x :: p, [], s, _, _ => by simp
  | x :: p, y :: a, s, h, hs => by
    rw [List.cons_append]
    rcases u8_tri y x with h' | h' | h'
    · rw [lexLt_cons_lt h', lexLt_cons_lt h']; simp
    · subst h'
      rw [lexLt_cons_same, lexLt_cons_same, lexLt_short_left p a s (by simpa using h) hs]
      simp
    · have hne : y ≠ x := by intro e; subst e; exact u8_lt_irrefl _ h'
      rw [lexLt_cons_gt h', lexLt_cons_gt h']; simp [hne]

private theorem lexLt_short_right : ∀ (p b s : List UInt8), b.length ≤ p.length →
    lexLt (p ++ s) b = lexLt p b
  | [], [], s, _ => by simp
  | [], _ :: _, _, h => by simp at h
  | x :: p, [], s, _ => by simp
  | x :: p, y :: b, s, h => by
    rw [List.cons_append]
    rcases u8_tri x y with h' | h' | h'
    · rw [lexLt_cons_lt h', lexLt_cons_lt h']
    · subst h'
      rw [lexLt_cons_same, lexLt_cons_same, lexLt_short_right p b s (by simpa using h)]
    · rw [lexLt_cons_gt h', lexLt_cons_gt h']

private theorem layered_go_eq (a b : Key) : layeredLt.go (chunks a) (chunks b) = lexLt a b := by
  by_cases ha : a.length ≤ 8
  · by_cases hb : b.length ≤ 8
    · rw [chunks_short a ha, chunks_short b hb,
        go_last _ _ _ _ (Or.inl rfl) (kt_ofKey_wf a) (kt_ofKey_wf b)]
      unfold KT.ltSpec
      rw [(ofKey_short a ha).1, (ofKey_short a ha).2, (ofKey_short b hb).1, (ofKey_short b hb).2]
      by_cases e : a = b
      · subst e; simp
      · simp [e]
    · have hb' : b.length > 8 := by omega
      rw [chunks_short a ha, chunks_long b hb',
        go_last _ _ _ _ (Or.inl rfl) (kt_ofKey_wf a) (kt_ofKey_wf b)]
      unfold KT.ltSpec
      rw [(ofKey_short a ha).1, (ofKey_short a ha).2, (ofKey_long b hb').1, (ofKey_long b hb').2]
      have hlt : a.length < 9 := by omega
      have hs : b.drop 8 ≠ [] := by
        intro e
        have := congrArg List.length e
        simp only [List.length_drop, List.length_nil] at this
        omega
      have := lexLt_short_left (b.take 8) a (b.drop 8)
        (by simp only [List.length_take]; omega) hs
      rw [List.take_append_drop] at this
      rw [this]
      simp [hlt]
  · have ha' : a.length > 8 := by omega
    by_cases hb : b.length ≤ 8
    · rw [chunks_long a ha', chunks_short b hb,
        go_last _ _ _ _ (Or.inr rfl) (kt_ofKey_wf a) (kt_ofKey_wf b)]
      unfold KT.ltSpec
      rw [(ofKey_long a ha').1, (ofKey_long a ha').2, (ofKey_short b hb).1, (ofKey_short b hb).2]
      have hlt : ¬ 9 < b.length := by omega
      have := lexLt_short_right (a.take 8) b (a.drop 8) (by simp only [List.length_take]; omega)
      rw [List.take_append_drop] at this
      rw [this]
      simp [hlt]
    · have hb' : b.length > 8 := by omega
      rw [chunks_long a ha', chunks_long b hb', go_cons_cons,
        kt_lt_eq_ltSpec _ _ (kt_ofKey_wf a) (kt_ofKey_wf b),
        kt_lt_eq_ltSpec _ _ (kt_ofKey_wf b) (kt_ofKey_wf a)]
      unfold KT.ltSpec
      rw [(ofKey_long a ha').1, (ofKey_long a ha').2, (ofKey_long b hb').1, (ofKey_long b hb').2]
      have ih := layered_go_eq (a.drop 8) (b.drop 8)
      rw [ih]
      have := lexLt_append_eqlen (a.take 8) (b.take 8) (a.drop 8) (b.drop 8)
        (by simp only [List.length_take]; omega)
      rw [List.take_append_drop, List.take_append_drop] at this
      rw [this]
      simp
termination_by a.length
decreasing_by
  simp only [List.length_drop]; omega

theorem layeredLt_eq_lexLt (a b : Key) : layeredLt a b = lexLt a b := by
  unfold layeredLt
  exact layered_go_eq a b

/-! ### names expected by `YakProps/C18.lean` -/

theorem KT.lt_eq_ltSpec (a b : KT) (ha : a.WF) (hb : b.WF) : KT.lt a b = KT.ltSpec a b :=
  kt_lt_eq_ltSpec a b ha hb
theorem KT.ltSpec_irrefl (a : KT) : KT.ltSpec a a = false := kt_ltSpec_irrefl a
theorem KT.ltSpec_trans (a b c : KT) :
    KT.ltSpec a b = true → KT.ltSpec b c = true → KT.ltSpec a c = true := kt_ltSpec_trans a b c
theorem KT.ltSpec_total (a b : KT) (ha : a.WF) (hb : b.WF) :
    KT.ltSpec a b = true ∨ a = b ∨ KT.ltSpec b a = true := kt_ltSpec_total a b ha hb
theorem KT.ofKey_wf (k : Key) : (KT.ofKey k).WF := kt_ofKey_wf k

end Yak
