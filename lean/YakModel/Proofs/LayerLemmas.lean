import YakModel.TreeInv
import YakModel.Proofs.KeyOrderProofs
/-!
# Single-layer facts: order on tuples, lookup inside a leaf, routing by fences
-/
namespace Yak.Tree
open Yak

/-! ### order helpers on key tuples -/

theorem lt_asymm {a b : KT} (h : KT.ltSpec a b = true) : KT.ltSpec b a = false := by
  cases h' : KT.ltSpec b a with
  | false => rfl
  | true => have := KT.ltSpec_trans a b a h h'; rw [KT.ltSpec_irrefl] at this; cases this

theorem lt_ne {a b : KT} (h : KT.ltSpec a b = true) : a ≠ b := by
  intro e; subst e; rw [KT.ltSpec_irrefl] at h; cases h

theorem lt_ne' {a b : KT} (h : KT.ltSpec a b = true) : b ≠ a := fun e => lt_ne h e.symm

/-- `a ≤ b` (as `¬ b < a`) and `b < c` give `a < c`. -/
theorem le_lt_trans {a b c : KT} (ha : a.WF) (hc : c.WF)
    (h1 : KT.ltSpec b a = false) (h2 : KT.ltSpec b c = true) : KT.ltSpec a c = true := by
  rcases KT.ltSpec_total a c ha hc with h | h | h
  · exact h
  · subst h; rw [h2] at h1; cases h1
  · have := KT.ltSpec_trans b c a h2 h; rw [this] at h1; cases h1

/-- `a < b` and `b ≤ c` give `a < c`. -/
theorem lt_le_trans {a b c : KT} (ha : a.WF) (hc : c.WF)
    (h1 : KT.ltSpec a b = true) (h2 : KT.ltSpec c b = false) : KT.ltSpec a c = true := by
  rcases KT.ltSpec_total a c ha hc with h | h | h
  · exact h
  · subst h; rw [h1] at h2; cases h2
  · have := KT.ltSpec_trans c a b h h1; rw [this] at h2; cases h2

theorem not_lt_of_le_of_eq {a b : KT} (h : KT.ltSpec a b = true) : KT.ltSpec b a = false := lt_asymm h

/-- nothing is below a tuple of length 0. -/
theorem not_lt_len_zero (a b : KT) (hb : b.len = 0) : KT.ltSpec a b = false := by
  have hbb : b.bytes = [] := by simp [KT.bytes, hb]
  unfold KT.ltSpec
  rw [hbb, hb]
  cases a.bytes <;> simp [lexLt]

theorem len_ne_zero_of_lt {a b : KT} (h : KT.ltSpec a b = true) : b.len ≠ 0 := by
  intro h0; rw [not_lt_len_zero a b h0] at h; cases h

/-! ### lookup inside one leaf -/

theorem leafLookup_some {k : KT} (hk : k.WF) : ∀ (ks : List KT) (r : Nat), (∀ t ∈ ks, t.WF) →
    leafLookup k ks = some r → ks[r]? = some k
  | [], r, _, h => by simp [leafLookup] at h
  | t :: ts, r, hw, h => by
    have ht : t.WF := hw t (by simp)
    rw [leafLookup, leafProbe_spec k t hk ht] at h
    by_cases e : k = t
    · subst e; simp at h; subst h; simp
    · rw [if_neg e] at h
      by_cases hl : KT.ltSpec k t = true
      · rw [if_pos hl] at h; simp at h
      · rw [if_neg hl] at h
        simp only [Option.map_eq_some_iff] at h
        obtain ⟨r', h1, h2⟩ := h
        subst h2
        have := leafLookup_some hk ts r' (fun a ha => hw a (by simp [ha])) h1
        simpa using this

theorem leafLookup_none {k : KT} (hk : k.WF) : ∀ (ks : List KT), (∀ t ∈ ks, t.WF) →
    ks.Pairwise (fun a b => KT.ltSpec a b = true) → leafLookup k ks = none → k ∉ ks
  | [], _, _, _ => by simp
  | t :: ts, hw, hs, h => by
    have ht : t.WF := hw t (by simp)
    rw [List.pairwise_cons] at hs
    rw [leafLookup, leafProbe_spec k t hk ht] at h
    by_cases e : k = t
    · subst e; simp at h
    · rw [if_neg e] at h
      by_cases hl : KT.ltSpec k t = true
      · intro hm
        rcases List.mem_cons.mp hm with hm | hm
        · exact e hm
        · exact lt_ne (KT.ltSpec_trans _ _ _ hl (hs.1 k hm)) rfl
      · rw [if_neg hl] at h
        simp only [Option.map_eq_none_iff] at h
        have := leafLookup_none hk ts (fun a ha => hw a (by simp [ha])) hs.2 h
        simp [e, this]

/-- strictly sorted lists have no duplicates -/
theorem sorted_unique {ents : List Ent}
    (hs : ents.Pairwise (fun a b => KT.ltSpec a.kt b.kt = true)) {e e' : Ent}
    (he : e ∈ ents) (he' : e' ∈ ents) (hk : e.kt = e'.kt) : e = e' := by
  induction ents with
  | nil => cases he
  | cons x xs ih =>
    rw [List.pairwise_cons] at hs
    rcases List.mem_cons.mp he with h1 | h1 <;> rcases List.mem_cons.mp he' with h2 | h2
    · rw [h1, h2]
    · subst h1; exact absurd hk (lt_ne (hs.1 _ h2))
    · subst h2; exact absurd hk.symm (lt_ne (hs.1 _ h1))
    · exact ih hs.2 h1 h2

/-- what the loop over one leaf's entries finds: the entry with that tuple, with its position. -/
def leafGet (l : Leaf) (k : KT) : Option Ent :=
  (leafLookup k (leafKeys l)).map (fun r => l.ents.getD r default)

theorem leafLookup_split {l : Leaf} (hl : LeafOK l) {k : KT} (hk : k.WF) {r : Nat}
    (h : leafLookup k (leafKeys l) = some r) :
    ∃ a e b, l.ents = a ++ e :: b ∧ a.length = r ∧ e.kt = k ∧ l.ents.getD r default = e := by
  have hw : ∀ t ∈ leafKeys l, t.WF := by
    intro t ht
    simp only [leafKeys, List.mem_map] at ht
    obtain ⟨e, he, rfl⟩ := ht
    exact (hl.2.1 e he).1
  have h1 := leafLookup_some hk _ r hw h
  simp only [leafKeys, List.getElem?_map, Option.map_eq_some_iff] at h1
  obtain ⟨e, he, hek⟩ := h1
  have hr : r < l.ents.length := by
    rcases Nat.lt_or_ge r l.ents.length with h | h
    · exact h
    · rw [List.getElem?_eq_none h] at he; cases he
  refine ⟨l.ents.take r, e, l.ents.drop (r + 1), ?_, ?_, hek, ?_⟩
  · have : l.ents[r] = e := by
      rw [List.getElem?_eq_getElem hr] at he; exact Option.some.inj he
    rw [← this]
    simp
  · simp only [List.length_take]; omega
  · rw [List.getD_eq_getElem?_getD, he]; rfl

theorem leafLookup_none' {l : Leaf} (hl : LeafOK l) {k : KT} (hk : k.WF)
    (h : leafLookup k (leafKeys l) = none) : ∀ e ∈ l.ents, e.kt ≠ k := by
  have hw : ∀ t ∈ leafKeys l, t.WF := by
    intro t ht
    simp only [leafKeys, List.mem_map] at ht
    obtain ⟨e, he, rfl⟩ := ht
    exact (hl.2.1 e he).1
  have := leafLookup_none hk _ hw (by simpa [leafKeys, List.pairwise_map] using hl.2.2.1) h
  intro e he hek
  exact this (by simp only [leafKeys, List.mem_map]; exact ⟨e, he, hek⟩)

/-! ### routing -/

/-- pure list fact about `routeFrom`: the leaves skipped all have a fence the key is not left of;
    the leaf after the chosen one (if any) has a fence the key is left of. -/
theorem routeFrom_decomp (k : KT) : ∀ (ls : List Leaf) (c : Leaf),
    ∃ pre leaf post, c :: ls = pre ++ leaf :: post ∧ pre.length = routeFrom k ls ∧
      (pre = [] → leaf = c) ∧
      (∀ a ∈ (pre ++ [leaf]).tail, ∀ f ∈ a.fence, routeLeft k f = false) ∧
      (∀ b ∈ post.head?, ∃ f ∈ b.fence, routeLeft k f = true)
  | [], c => ⟨[], c, [], rfl, rfl, fun _ => rfl, by simp, by simp⟩
  | l :: ls, c => by
    have step : (∀ f ∈ l.fence, routeLeft k f = false) → routeFrom k (l :: ls) = routeFrom k ls + 1 →
        ∃ pre leaf post, c :: l :: ls = pre ++ leaf :: post ∧ pre.length = routeFrom k (l :: ls) ∧
        (pre = [] → leaf = c) ∧
        (∀ a ∈ (pre ++ [leaf]).tail, ∀ f ∈ a.fence, routeLeft k f = false) ∧
        (∀ b ∈ post.head?, ∃ f ∈ b.fence, routeLeft k f = true) := by
      intro hl hr
      obtain ⟨pre, leaf, post, h1, h2, h3, h4, h5⟩ := routeFrom_decomp k ls l
      refine ⟨c :: pre, leaf, post, by rw [h1]; rfl, by rw [hr, ← h2]; rfl, by simp, ?_, h5⟩
      intro a ha
      simp only [List.cons_append, List.tail_cons] at ha
      cases pre with
      | nil =>
        simp only [List.nil_append, List.mem_singleton] at ha
        rw [ha, h3 rfl]; exact hl
      | cons p ps =>
        simp only [List.cons_append, List.mem_cons] at ha
        simp only [List.cons_append, List.cons.injEq] at h1
        rcases ha with ha | ha
        · rw [ha, ← h1.1]; exact hl
        · exact h4 a (by simpa using ha)
    cases hf : l.fence with
    | none =>
      apply step
      · simp [hf]
      · simp [routeFrom, hf]
    | some f =>
      by_cases hrl : routeLeft k f = true
      · refine ⟨[], c, l :: ls, rfl, by simp [routeFrom, hf, hrl], fun _ => rfl, by simp, ?_⟩
        simp only [List.head?_cons, Option.mem_def, Option.some.injEq]
        rintro b rfl
        exact ⟨f, hf, hrl⟩
      · apply step
        · simp only [hf, Option.mem_def, Option.some.injEq]
          rintro f' rfl; simpa using hrl
        · simp [routeFrom, hf, hrl]

theorem FencesOK.tail_fence {leaves : List Leaf} (h : FencesOK leaves) :
    ∀ l ∈ leaves.tail, ∃ f, l.fence = some f ∧ f.WF ∧ f.len ≠ 0 := by
  cases leaves with
  | nil => cases h
  | cons x xs =>
    intro l hl
    obtain ⟨f, hf, h2⟩ := h.2 l hl
    exact ⟨f, hf, h2⟩

theorem FencesOK.head_fence {l : Leaf} {ls : List Leaf} (h : FencesOK (l :: ls)) : l.fence = none := h.1

/-- The routed leaf, with everything the operations need to know about it. -/
structure Routed (leaves : List Leaf) (k : KT) (pre : List Leaf) (leaf : Leaf) (post : List Leaf) : Prop where
  eq : leaves = pre ++ leaf :: post
  len : pre.length = route k leaves
  /-- the key is not below the routed leaf's fence -/
  lo : ∀ f ∈ leaf.fence, KT.ltSpec k f = false
  /-- the key is below every later fence -/
  hi : ∀ b ∈ post, ∀ f ∈ b.fence, KT.ltSpec k f = true

theorem route_decomp {leaves : List Leaf} (h : LayerCore leaves) {k : KT} (hk : k.WF) :
    ∃ pre leaf post, Routed leaves k pre leaf post := by
  obtain ⟨hF, hP, hL⟩ := h
  cases leaves with
  | nil => cases hF
  | cons c ls =>
    obtain ⟨pre, leaf, post, h1, h2, h3, h4, h5⟩ := routeFrom_decomp k ls c
    have htail := hF.tail_fence
    refine ⟨pre, leaf, post, h1, h2, ?_, ?_⟩
    · intro f hf
      cases pre with
      | nil => rw [h3 rfl, hF.1] at hf; cases hf
      | cons p ps =>
        have hm : leaf ∈ ((p :: ps) ++ [leaf]).tail := by simp
        have hlt : leaf ∈ (c :: ls).tail := by
          rw [h1]; simp
        obtain ⟨f', hf', hw, _⟩ := htail leaf hlt
        have : f = f' := by rw [hf'] at hf; exact (Option.some.inj hf).symm
        subst this
        rw [← routeLeft_eq k f hk hw]
        exact h4 leaf hm f hf
    · cases post with
      | nil => simp
      | cons b0 bs =>
        obtain ⟨f0, hf0, hr0⟩ := h5 b0 (by simp)
        have hb0t : b0 ∈ (c :: ls).tail := by
          rw [h1]; cases pre <;> simp
        obtain ⟨f0', hf0', hw0, _⟩ := htail b0 hb0t
        have e0 : f0 = f0' := by rw [hf0'] at hf0; exact (Option.some.inj hf0).symm
        subst e0
        have hk0 : KT.ltSpec k f0 = true := by rw [← routeLeft_eq k f0 hk hw0]; exact hr0
        intro b hb f hf
        rcases List.mem_cons.mp hb with e | hb'
        · subst e
          have : f = f0 := by rw [hf0'] at hf; exact (Option.some.inj hf).symm
          rw [this]; exact hk0
        · rw [h1, List.pairwise_append] at hP
          have hP2 := hP.2.1
          rw [List.pairwise_cons, List.pairwise_cons] at hP2
          have := (hP2.2.1 b hb' f hf).1 f0 hf0'
          exact KT.ltSpec_trans _ _ _ hk0 this

/-! ### accessors for a chain split around one leaf -/

theorem layerEnts_split (pre : List Leaf) (leaf : Leaf) (post : List Leaf) :
    layerEnts (pre ++ leaf :: post) = layerEnts pre ++ (leaf.ents ++ layerEnts post) := by
  simp [layerEnts, List.flatMap_append]

theorem mem_layerEnts {leaves : List Leaf} {e : Ent} :
    e ∈ layerEnts leaves ↔ ∃ l ∈ leaves, e ∈ l.ents := by
  simp [layerEnts, List.mem_flatMap]

theorem LayerCore.leafOK {pre post : List Leaf} {leaf : Leaf} (h : LayerCore (pre ++ leaf :: post)) :
    LeafOK leaf := h.2.2 leaf (by simp)

theorem LayerCore.post_fence {pre post : List Leaf} {leaf : Leaf} (h : LayerCore (pre ++ leaf :: post)) :
    ∀ b ∈ post, ∃ f, b.fence = some f ∧ f.WF ∧ f.len ≠ 0 := by
  intro b hb
  apply h.1.tail_fence
  cases pre <;> simp [hb]

theorem LayerCore.mid_fence {pre post : List Leaf} {leaf : Leaf} (h : LayerCore (pre ++ leaf :: post))
    (hp : pre ≠ []) : ∃ f, leaf.fence = some f ∧ f.WF ∧ f.len ≠ 0 := by
  apply h.1.tail_fence
  cases pre with
  | nil => exact absurd rfl hp
  | cons p ps => simp

theorem LayerCore.head_none {post : List Leaf} {leaf : Leaf} (h : LayerCore (leaf :: post)) :
    leaf.fence = none := h.1.1

theorem LayerCore.pre_before {pre post : List Leaf} {leaf : Leaf} (h : LayerCore (pre ++ leaf :: post)) :
    ∀ a ∈ pre, Before a leaf := by
  intro a ha
  have := h.2.1
  rw [List.pairwise_append] at this
  exact this.2.2 a ha leaf (by simp)

theorem LayerCore.before_post {pre post : List Leaf} {leaf : Leaf} (h : LayerCore (pre ++ leaf :: post)) :
    ∀ b ∈ post, Before leaf b := by
  intro b hb
  have := h.2.1
  rw [List.pairwise_append, List.pairwise_cons] at this
  exact this.2.1.1 b hb

theorem Routed.only {leaves pre post : List Leaf} {leaf : Leaf} {k : KT}
    (h : LayerCore leaves) (hr : Routed leaves k pre leaf post) :
    ∀ e ∈ layerEnts leaves, e.kt = k → e ∈ leaf.ents := by
  intro e he hek
  have heq := hr.eq
  subst heq
  rw [layerEnts_split, List.mem_append, List.mem_append] at he
  rcases he with he | he | he
  · exfalso
    obtain ⟨a, ha, hea⟩ := mem_layerEnts.mp he
    have hp : pre ≠ [] := by intro e; subst e; cases ha
    obtain ⟨f, hf, _, _⟩ := h.mid_fence hp
    have h1 := (h.pre_before a ha f hf).2 e hea
    have h2 := hr.lo f hf
    rw [hek, h2] at h1; cases h1
  · exact he
  · exfalso
    obtain ⟨b, hb, heb⟩ := mem_layerEnts.mp he
    obtain ⟨f, hf, _, _⟩ := h.post_fence b hb
    have h1 := hr.hi b hb f hf
    have hok : LeafOK b := h.2.2 b (by simp [hb])
    have h2 := hok.2.2.2 f hf e heb
    rw [hek, h1] at h2; cases h2

/-- lookup inside a layer: route by fences, then scan the leaf. -/
def layerGet (leaves : List Leaf) (k : KT) : Option Ent :=
  leafGet (leaves.getD (route k leaves) emptyLeaf) k

theorem Routed.getD {leaves pre post : List Leaf} {leaf : Leaf} {k : KT}
    (hr : Routed leaves k pre leaf post) : leaves.getD (route k leaves) emptyLeaf = leaf := by
  rw [← hr.len, hr.eq, List.getD_eq_getElem?_getD]
  simp

theorem Routed.getElem? {leaves pre post : List Leaf} {leaf : Leaf} {k : KT}
    (hr : Routed leaves k pre leaf post) : leaves[route k leaves]? = some leaf := by
  rw [← hr.len, hr.eq]
  simp

theorem layerGet_some_iff {leaves : List Leaf} (h : LayerCore leaves) {k : KT} (hk : k.WF) (e : Ent) :
    layerGet leaves k = some e ↔ e ∈ layerEnts leaves ∧ e.kt = k := by
  obtain ⟨pre, leaf, post, hr⟩ := route_decomp h hk
  have hl : LeafOK leaf := by have := hr.eq; subst this; exact h.leafOK
  unfold layerGet leafGet
  rw [hr.getD]
  constructor
  · intro hg
    simp only [Option.map_eq_some_iff] at hg
    obtain ⟨r, h1, h2⟩ := hg
    obtain ⟨a, e', b, h3, _, h5, h6⟩ := leafLookup_split hl hk h1
    rw [h6] at h2; subst h2
    refine ⟨?_, h5⟩
    rw [hr.eq, layerEnts_split, h3]; simp
  · rintro ⟨he, hek⟩
    have hin := hr.only h e he hek
    cases hlk : leafLookup k (leafKeys leaf) with
    | none => exact absurd hek (leafLookup_none' hl hk hlk e hin)
    | some r =>
      obtain ⟨a, e', b, h3, _, h5, h6⟩ := leafLookup_split hl hk hlk
      simp only [Option.map_some, Option.some.injEq]
      rw [h6]
      exact sorted_unique hl.2.2.1 (by rw [h3]; simp) hin (by rw [h5, hek])

theorem layerGet_none_iff {leaves : List Leaf} (h : LayerCore leaves) {k : KT} (hk : k.WF) :
    layerGet leaves k = none ↔ ∀ e ∈ layerEnts leaves, e.kt ≠ k := by
  constructor
  · intro hn e he hek
    have := (layerGet_some_iff h hk e).mpr ⟨he, hek⟩
    rw [hn] at this; cases this
  · intro hall
    cases hg : layerGet leaves k with
    | none => rfl
    | some e =>
      have := (layerGet_some_iff h hk e).mp hg
      exact absurd this.2 (hall e this.1)

/-- all entries of a well-formed layer are strictly sorted (so tuples are unique in the layer). -/
theorem layerEnts_sorted {leaves : List Leaf} (h : LayerCore leaves) :
    (layerEnts leaves).Pairwise (fun a b => KT.ltSpec a.kt b.kt = true) := by
  obtain ⟨hF, hP, hL⟩ := h
  have htail := hF.tail_fence
  clear hF
  induction leaves with
  | nil => simp [layerEnts]
  | cons l ls ih =>
    rw [List.pairwise_cons] at hP
    have : layerEnts (l :: ls) = l.ents ++ layerEnts ls := by simp [layerEnts]
    rw [this, List.pairwise_append]
    refine ⟨(hL l (by simp)).2.2.1, ?_, ?_⟩
    · cases ls with
      | nil => simp [layerEnts]
      | cons m ms =>
        apply ih hP.2 (fun x hx => hL x (by simp [hx]))
        intro x hx
        exact htail x (by simp at hx ⊢; exact Or.inr hx)
    · intro a ha b hb
      obtain ⟨m, hm, hbm⟩ := mem_layerEnts.mp hb
      obtain ⟨f, hf, hfw, _⟩ := htail m (by simpa using hm)
      have h1 := (hP.1 m hm f hf).2 a ha
      have h2 := (hL m (by simp [hm])).2.2.2 f hf b hbm
      exact lt_le_trans ((hL l (by simp)).2.1 a ha).1 ((hL m (by simp [hm])).2.1 b hbm).1 h1 h2

theorem layerEnts_unique {leaves : List Leaf} (h : LayerCore leaves) {e e' : Ent}
    (he : e ∈ layerEnts leaves) (he' : e' ∈ layerEnts leaves) (hk : e.kt = e'.kt) : e = e' :=
  sorted_unique (layerEnts_sorted h) he he' hk

theorem layerEnts_wf {leaves : List Leaf} (h : LayerCore leaves) {e : Ent}
    (he : e ∈ layerEnts leaves) : e.kt.WF ∧ (e.val = none ↔ e.kt.len = 9) := by
  obtain ⟨l, hl, hel⟩ := mem_layerEnts.mp he
  exact (h.2.2 l hl).2.1 e hel

end Yak.Tree
