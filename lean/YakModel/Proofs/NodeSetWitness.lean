import YakModel.Proto.NodeSet
/-!
# `NodeSet`: concrete runs (capacity 3), one event at a time

The non-vacuity witness of C04 (`stable_keys_witness`) is a concrete 28-event run of the `NodeSet`
model. Evaluating a whole run inside the kernel (`decide` on `exec ⟨3⟩ init run`) is very expensive: the `State` has
function-valued fields (`w`, `sc`, built by nested `upd`) and the intermediate states stay
unevaluated thunks that are re-evaluated at every use. Here every intermediate state is written down
as a literal (`chain`, `nextId`, `completed` explicit; `w` / `sc` as ONE more `upd` on the previous
state's function, which is literally what `step?` produces), so every step
`step? ⟨3⟩ sₖ e = some sₖ₊₁` is a small `rfl`, and `exec` over the run is the composition of the
steps (`exec_cons`). The states were produced by running `step?` (`#eval`); nothing here is trusted:
each `rfl` is checked by the kernel.
-/
namespace Yak.Proto.NodeSet.Witness
open Yak.Proto.NodeSet

theorem exec_cons {c : Cfg} {s s' : State} {e : Event} {es : List Event} {r : Option State}
    (h : step? c s e = some s') (hr : exec c s' es = r) : exec c s (e :: es) = r := by
  simp [exec, h, hr]

/-! ### the common prefix: keys 1, 3, 5 are stored -/

def pre1 : State :=
  ⟨[⟨0, 0, [], 0, 0, true, false⟩],
   1, upd init.w 0 (.held 1 0),
   init.sc, []⟩
theorem pre1_step : step? ⟨3⟩ init (.wLock 0 1 0) = some pre1 := rfl

def pre2 : State :=
  ⟨[⟨0, 0, [1], 0, 0, true, true⟩],
   1, upd pre1.w 0 (.published 1 0),
   pre1.sc, []⟩
theorem pre2_step : step? ⟨3⟩ pre1 (.wInsert 0) = some pre2 := rfl

def pre3 : State :=
  ⟨[⟨0, 0, [1], 1, 0, false, false⟩],
   1, upd pre2.w 0 .idle,
   pre2.sc, [1]⟩
theorem pre3_step : step? ⟨3⟩ pre2 (.wUnlock 0) = some pre3 := rfl

def pre4 : State :=
  ⟨[⟨0, 0, [1], 1, 0, true, false⟩],
   1, upd pre3.w 0 (.held 3 0),
   pre3.sc, [1]⟩
theorem pre4_step : step? ⟨3⟩ pre3 (.wLock 0 3 0) = some pre4 := rfl

def pre5 : State :=
  ⟨[⟨0, 0, [1, 3], 1, 0, true, true⟩],
   1, upd pre4.w 0 (.published 3 0),
   pre4.sc, [1]⟩
theorem pre5_step : step? ⟨3⟩ pre4 (.wInsert 0) = some pre5 := rfl

def pre6 : State :=
  ⟨[⟨0, 0, [1, 3], 2, 0, false, false⟩],
   1, upd pre5.w 0 .idle,
   pre5.sc, [3, 1]⟩
theorem pre6_step : step? ⟨3⟩ pre5 (.wUnlock 0) = some pre6 := rfl

def pre7 : State :=
  ⟨[⟨0, 0, [1, 3], 2, 0, true, false⟩],
   1, upd pre6.w 0 (.held 5 0),
   pre6.sc, [3, 1]⟩
theorem pre7_step : step? ⟨3⟩ pre6 (.wLock 0 5 0) = some pre7 := rfl

def pre8 : State :=
  ⟨[⟨0, 0, [1, 3, 5], 2, 0, true, true⟩],
   1, upd pre7.w 0 (.published 5 0),
   pre7.sc, [3, 1]⟩
theorem pre8_step : step? ⟨3⟩ pre7 (.wInsert 0) = some pre8 := rfl

def pre9 : State :=
  ⟨[⟨0, 0, [1, 3, 5], 3, 0, false, false⟩],
   1, upd pre8.w 0 .idle,
   pre8.sc, [5, 3, 1]⟩
theorem pre9_step : step? ⟨3⟩ pre8 (.wUnlock 0) = some pre9 := rfl

theorem pre_exec : exec ⟨3⟩ init
    [.wLock 0 1 0, .wInsert 0, .wUnlock 0, .wLock 0 3 0, .wInsert 0, .wUnlock 0, .wLock 0 5 0,
     .wInsert 0, .wUnlock 0] =
    some pre9 :=
  exec_cons pre1_step (exec_cons pre2_step (exec_cons pre3_step (exec_cons pre4_step (exec_cons
    pre5_step (exec_cons pre6_step (exec_cons pre7_step (exec_cons pre8_step (exec_cons pre9_step
    rfl))))))))

/-! ### C04 `overtakenRun` (after `sStart 0 1 6`) -/

def ovt10 : State :=
  ⟨[⟨0, 0, [1, 3, 5], 3, 0, false, false⟩],
   1, pre9.w,
   upd pre9.sc 0 (.want 1 6), [5, 3, 1]⟩
theorem ovt10_step : step? ⟨3⟩ pre9 (.sStart 0 1 6) = some ovt10 := rfl

def ovt11 : State :=
  ⟨[⟨0, 0, [1, 3, 5], 3, 0, false, false⟩],
   1, ovt10.w,
   upd ovt10.sc 0 (.run 1 6 [] [] 0 .fresh), [5, 3, 1]⟩
theorem ovt11_step : step? ⟨3⟩ ovt10 (.sEnter 0 0) = some ovt11 := rfl

def ovt12 : State :=
  ⟨[⟨0, 0, [1, 3, 5], 3, 0, false, false⟩],
   1, ovt11.w,
   upd ovt11.sc 0 (.run 1 6 [] [] 0 (.loaded 3 0)), [5, 3, 1]⟩
theorem ovt12_step : step? ⟨3⟩ ovt11 (.sLoadVer 0) = some ovt12 := rfl

def ovt13 : State :=
  ⟨[⟨0, 0, [1, 3, 5], 3, 0, false, false⟩],
   1, ovt12.w,
   upd ovt12.sc 0 (.run 1 6 [] [] 0 (.snapped 3 0 [1, 3, 5])), [5, 3, 1]⟩
theorem ovt13_step : step? ⟨3⟩ ovt12 (.sSnapshot 0) = some ovt13 := rfl

def ovt14 : State :=
  ⟨[⟨0, 0, [1, 3, 5], 3, 0, true, false⟩],
   1, upd ovt13.w 1 (.held 4 0),
   ovt13.sc, [5, 3, 1]⟩
theorem ovt14_step : step? ⟨3⟩ ovt13 (.wLock 1 4 0) = some ovt14 := rfl

def ovt15 : State :=
  ⟨[⟨0, 0, [1, 3, 4], 3, 0, true, true⟩, ⟨1, 5, [5], 3, 0, true, true⟩],
   2, upd ovt14.w 1 (.splitDone 4 0 1),
   ovt14.sc, [5, 3, 1]⟩
theorem ovt15_step : step? ⟨3⟩ ovt14 (.wSplit 1) = some ovt15 := rfl

def ovt16 : State :=
  ⟨[⟨0, 0, [1, 3, 4], 4, 1, false, false⟩, ⟨1, 5, [5], 3, 0, true, true⟩],
   2, upd ovt15.w 1 (.splitHalf 4 1),
   ovt15.sc, [5, 3, 1]⟩
theorem ovt16_step : step? ⟨3⟩ ovt15 (.wUnlockL 1) = some ovt16 := rfl

def ovt17 : State :=
  ⟨[⟨0, 0, [1, 3, 4], 4, 1, false, false⟩, ⟨1, 5, [5], 4, 1, false, false⟩],
   2, upd ovt16.w 1 .idle,
   ovt16.sc, [4, 5, 3, 1]⟩
theorem ovt17_step : step? ⟨3⟩ ovt16 (.wUnlockR 1) = some ovt17 := rfl

def ovt18 : State :=
  ⟨[⟨0, 0, [1, 3, 4], 4, 1, false, false⟩, ⟨1, 5, [5], 4, 1, false, false⟩],
   2, ovt17.w,
   upd ovt17.sc 0 (.want 1 6), [4, 5, 3, 1]⟩
theorem ovt18_step : step? ⟨3⟩ ovt17 (.sValidate 0) = some ovt18 := rfl

def ovt19 : State :=
  ⟨[⟨0, 0, [1, 3, 4], 4, 1, false, false⟩, ⟨1, 5, [5], 4, 1, false, false⟩],
   2, ovt18.w,
   upd ovt18.sc 0 (.run 1 6 [] [] 0 .fresh), [4, 5, 3, 1]⟩
theorem ovt19_step : step? ⟨3⟩ ovt18 (.sEnter 0 0) = some ovt19 := rfl

def ovt20 : State :=
  ⟨[⟨0, 0, [1, 3, 4], 4, 1, false, false⟩, ⟨1, 5, [5], 4, 1, false, false⟩],
   2, ovt19.w,
   upd ovt19.sc 0 (.run 1 6 [] [] 0 (.loaded 4 1)), [4, 5, 3, 1]⟩
theorem ovt20_step : step? ⟨3⟩ ovt19 (.sLoadVer 0) = some ovt20 := rfl

def ovt21 : State :=
  ⟨[⟨0, 0, [1, 3, 4], 4, 1, false, false⟩, ⟨1, 5, [5], 4, 1, false, false⟩],
   2, ovt20.w,
   upd ovt20.sc 0 (.run 1 6 [] [] 0 (.snapped 4 1 [1, 3, 4])), [4, 5, 3, 1]⟩
theorem ovt21_step : step? ⟨3⟩ ovt20 (.sSnapshot 0) = some ovt21 := rfl

def ovt22 : State :=
  ⟨[⟨0, 0, [1, 3, 4], 4, 1, false, false⟩, ⟨1, 5, [5], 4, 1, false, false⟩],
   2, ovt21.w,
   upd ovt21.sc 0 (.run 1 6 [1, 3, 4] [(0, 4, 1)] 1 .fresh), [4, 5, 3, 1]⟩
theorem ovt22_step : step? ⟨3⟩ ovt21 (.sValidate 0) = some ovt22 := rfl

def ovt23 : State :=
  ⟨[⟨0, 0, [1, 3, 4], 4, 1, false, false⟩, ⟨1, 5, [5], 4, 1, false, false⟩],
   2, ovt22.w,
   upd ovt22.sc 0 (.run 1 6 [1, 3, 4] [(0, 4, 1)] 1 (.loaded 4 1)), [4, 5, 3, 1]⟩
theorem ovt23_step : step? ⟨3⟩ ovt22 (.sLoadVer 0) = some ovt23 := rfl

def ovt24 : State :=
  ⟨[⟨0, 0, [1, 3, 4], 4, 1, false, false⟩, ⟨1, 5, [5], 4, 1, false, false⟩],
   2, ovt23.w,
   upd ovt23.sc 0 (.run 1 6 [1, 3, 4] [(0, 4, 1)] 1 (.snapped 4 1 [5])), [4, 5, 3, 1]⟩
theorem ovt24_step : step? ⟨3⟩ ovt23 (.sSnapshot 0) = some ovt24 := rfl

def ovt25 : State :=
  ⟨[⟨0, 0, [1, 3, 4], 4, 1, false, false⟩, ⟨1, 5, [5], 4, 1, false, false⟩],
   2, ovt24.w,
   upd ovt24.sc 0 (.fin 1 6 [1, 3, 4, 5] [(0, 4, 1), (1, 4, 1)]), [4, 5, 3, 1]⟩
theorem ovt25_step : step? ⟨3⟩ ovt24 (.sValidate 0) = some ovt25 := rfl

def ovt26 : State :=
  ⟨[⟨0, 0, [1, 3, 4], 4, 1, false, false⟩, ⟨1, 5, [5], 4, 1, true, false⟩],
   2, upd ovt25.w 1 (.held 6 1),
   ovt25.sc, [4, 5, 3, 1]⟩
theorem ovt26_step : step? ⟨3⟩ ovt25 (.wLock 1 6 1) = some ovt26 := rfl

def ovt27 : State :=
  ⟨[⟨0, 0, [1, 3, 4], 4, 1, false, false⟩, ⟨1, 5, [5, 6], 4, 1, true, true⟩],
   2, upd ovt26.w 1 (.published 6 1),
   ovt26.sc, [4, 5, 3, 1]⟩
theorem ovt27_step : step? ⟨3⟩ ovt26 (.wInsert 1) = some ovt27 := rfl

def ovt28 : State :=
  ⟨[⟨0, 0, [1, 3, 4], 4, 1, false, false⟩, ⟨1, 5, [5, 6], 5, 1, false, false⟩],
   2, upd ovt27.w 1 .idle,
   ovt27.sc, [6, 4, 5, 3, 1]⟩
theorem ovt28_step : step? ⟨3⟩ ovt27 (.wUnlock 1) = some ovt28 := rfl

theorem ovt_exec : exec ⟨3⟩ ovt10
    [.sEnter 0 0, .sLoadVer 0, .sSnapshot 0, .wLock 1 4 0, .wSplit 1, .wUnlockL 1, .wUnlockR 1,
     .sValidate 0, .sEnter 0 0, .sLoadVer 0, .sSnapshot 0, .sValidate 0, .sLoadVer 0, .sSnapshot 0,
     .sValidate 0, .wLock 1 6 1, .wInsert 1, .wUnlock 1] =
    some ovt28 :=
  exec_cons ovt11_step (exec_cons ovt12_step (exec_cons ovt13_step (exec_cons ovt14_step
    (exec_cons ovt15_step (exec_cons ovt16_step (exec_cons ovt17_step (exec_cons ovt18_step
    (exec_cons ovt19_step (exec_cons ovt20_step (exec_cons ovt21_step (exec_cons ovt22_step
    (exec_cons ovt23_step (exec_cons ovt24_step (exec_cons ovt25_step (exec_cons ovt26_step
    (exec_cons ovt27_step (exec_cons ovt28_step rfl)))))))))))))))))

end Yak.Proto.NodeSet.Witness
